/- C16 — lemmas about the character-level scanner and the stack machine. -/
import Verif.C16.Lemmas

namespace Verif.C16

/-! ### well-formedness of the texts inside a tree (the domain of the UDF/UDX format) -/

/-- body of a quoted string: no bare quote, every backslash escapes one non-newline character -/
def ValidBody : Str → Bool
  | [] => true
  | c :: r =>
    if c = '"' then false
    else if c = '\\' then
      match r with
      | [] => false
      | d :: r' => d != '\n' && ValidBody r'
    else ValidBody r

/-- a `{token}`: non-empty, no white space, no parentheses -/
def IsAtom (s : Str) : Bool := !s.isEmpty && s.all isAtomCh

/-- an entity the UDX decoration can carry: an atom without `@`, not starting with `^` or `"` -/
def EntityOK (e : Str) : Bool :=
  IsAtom e && !e.contains '@' && e.head? != some '^' && e.head? != some '"'

def TypeOK (ty : Option Str) : Bool :=
  match ty with
  | none => true
  | some s => IsAtom s

mutual
def WF : Node → Bool
  | .term f ts => ValidBody f && ts.all (fun t => ValidBody t.tfs)
  | .node _ e sc _ _ _ ty ds =>
    EntityOK e && IsAtom sc && pyFloatOk sc == some true && TypeOK ty && !ds.isEmpty && WFL ds
  | .root e ds => EntityOK e && !ds.isEmpty && WFL ds
def WFL : List Node → Bool
  | [] => true
  | d :: ds => WF d && WFL ds
end

/-! ### integers -/

theorem natDigits_all (n : Nat) : (natDigits n).all isAsciiDigit = true := by
  simp only [List.all_eq_true, natDigits, isAsciiDigit]
  intro c hc
  exact Nat.isDigit_of_mem_toDigits (by decide) (by decide) hc

theorem digitsToNat_natDigits (n : Nat) : digitsToNat (natDigits n) = n := by
  unfold digitsToNat natDigits
  rw [← Nat.ofDigitChars_eq_foldl]
  exact Nat.ofDigitChars_toDigits (by decide) (by decide)

theorem natDigits_ne_nil (n : Nat) : natDigits n ≠ [] := Nat.toDigits_ne_nil

theorem natDigits_head (n : Nat) : ∀ c r, natDigits n = c :: r → c.isDigit = true := by
  intro c r h
  have := natDigits_all n
  rw [h] at this
  simp only [List.all_cons, Bool.and_eq_true, isAsciiDigit] at this
  exact this.1

theorem pyInt_natDigits (n : Nat) : pyInt (natDigits n) = .ok (n : Int) := by
  cases h : natDigits n with
  | nil => exact absurd h (natDigits_ne_nil n)
  | cons c r =>
    have hd := natDigits_head n c r h
    have hall := natDigits_all n
    have hval := digitsToNat_natDigits n
    rw [h] at hall hval
    have h1 : c ≠ '-' := by intro e; subst e; revert hd; decide
    have h2 : c ≠ '+' := by intro e; subst e; revert hd; decide
    unfold pyInt
    simp [h1, h2, hall, hval]

theorem pyInt_intText (i : Int) : pyInt (intText i) = .ok i := by
  cases i with
  | ofNat n => exact pyInt_natDigits n
  | negSucc n =>
    simp only [intText]
    have hall := natDigits_all (n + 1)
    have hval := digitsToNat_natDigits (n + 1)
    have hne := natDigits_ne_nil (n + 1)
    unfold pyInt
    simp [hall, hval, hne]
    rfl

/-! ### character classes -/

theorem digit_isAtomCh (c : Char) (h : c.isDigit = true) : isAtomCh c = true := by
  have h' : 48 ≤ c.toNat ∧ c.toNat ≤ 57 := by
    simp only [Char.isDigit, Bool.and_eq_true, decide_eq_true_eq] at h
    have h1 := h.1
    have h2 := h.2
    simp only [UInt32.le_iff_toNat_le] at h1 h2
    exact ⟨h1, h2⟩
  simp only [isAtomCh, isWs, Bool.and_eq_true, Bool.not_eq_true', bne_iff_ne, ne_eq]
  refine ⟨⟨?_, ?_⟩, ?_⟩
  · simp only [Bool.or_eq_false_iff, Bool.and_eq_false_iff, decide_eq_false_iff_not]
    omega
  · intro e; subst e; simp at h'
  · intro e; subst e; simp at h'

theorem digit_not_ws (c : Char) (h : c.isDigit = true) : isWs c = false := by
  have := digit_isAtomCh c h
  simp only [isAtomCh, Bool.and_eq_true, Bool.not_eq_true'] at this
  exact this.1.1

theorem isWs_space : isWs ' ' = true := by decide
theorem isWs_nl : isWs '\n' = true := by decide
theorem isWs_quote : isWs '"' = false := by decide
theorem isDigit_space : isAsciiDigit ' ' = false := by decide
theorem isAtomCh_space : isAtomCh ' ' = false := by decide
theorem isAtomCh_lparen : isAtomCh '(' = false := by decide
theorem isAtomCh_rparen : isAtomCh ')' = false := by decide

theorem delim_all_ws (ind : Option Nat) (lvl : Nat) : (delim ind lvl).all isWs = true := by
  rw [List.all_eq_true]
  intro c hc
  cases ind with
  | none =>
    simp only [delim, List.mem_singleton] at hc
    subst hc; exact isWs_space
  | some n =>
    simp only [delim, List.mem_cons, List.mem_replicate] at hc
    rcases hc with h | ⟨_, h⟩
    · subst h; exact isWs_nl
    · subst h; exact isWs_space

theorem delim_ne_nil (ind : Option Nat) (lvl : Nat) : delim ind lvl ≠ [] := by
  cases ind <;> simp [delim]

theorem skipWs_ws_append (w r : Str) (h : w.all isWs = true) : skipWs (w ++ r) = skipWs r := by
  induction w with
  | nil => rfl
  | cons c w ih =>
    simp only [List.all_cons, Bool.and_eq_true] at h
    simp only [skipWs, List.cons_append, List.dropWhile_cons, h.1, if_true]
    exact ih h.2

theorem skipWs_nonws (c : Char) (r : Str) (h : isWs c = false) : skipWs (c :: r) = c :: r := by
  simp [skipWs, List.dropWhile_cons, h]

theorem ws1_ws_append (w r : Str) (h : w.all isWs = true) (hne : w ≠ []) :
    ws1 (w ++ r) = some (skipWs r) := by
  cases w with
  | nil => exact absurd rfl hne
  | cons c w =>
    simp only [List.all_cons, Bool.and_eq_true] at h
    simp only [List.cons_append, ws1, h.1, if_true]
    rw [skipWs_ws_append w r h.2]

theorem takeWhile_append_stop {p : Char → Bool} (a r : Str) (ha : a.all p = true)
    (hr : ∀ c r', r = c :: r' → p c = false) : (a ++ r).takeWhile p = a ∧ (a ++ r).dropWhile p = r := by
  induction a with
  | nil =>
    cases r with
    | nil => simp
    | cons c r' => simp [List.takeWhile_cons, List.dropWhile_cons, hr c r' rfl]
  | cons x a ih =>
    simp only [List.all_cons, Bool.and_eq_true] at ha
    simp [List.takeWhile_cons, List.dropWhile_cons, ha.1, ih ha.2]

theorem takeDigits_append (ds r : Str) (hall : ds.all isAsciiDigit = true) (hne : ds ≠ [])
    (hr : ∀ c r', r = c :: r' → isAsciiDigit c = false) : takeDigits (ds ++ r) = some (ds, r) := by
  obtain ⟨h1, h2⟩ := takeWhile_append_stop ds r hall hr
  unfold takeDigits
  rw [h1, h2]
  cases ds with
  | nil => exact absurd rfl hne
  | cons c cs => rfl

theorem takeAtom_append (a r : Str) (hall : a.all isAtomCh = true) (hne : a ≠ [])
    (hr : ∀ c r', r = c :: r' → isAtomCh c = false) : takeAtom (a ++ r) = some (a, r) := by
  obtain ⟨h1, h2⟩ := takeWhile_append_stop a r hall hr
  unfold takeAtom
  rw [h1, h2]
  cases a with
  | nil => exact absurd rfl hne
  | cons c cs => rfl

theorem strBody_valid (b r : Str) (h : ValidBody b = true) : strBody (b ++ '"' :: r) = some (b, r) := by
  fun_induction ValidBody b with
  | case1 => rw [strBody.eq_def]; simp
  | case2 r' => simp at h
  | case3 => simp at h
  | case4 d r' hq ih =>
    simp only [Bool.and_eq_true, bne_iff_ne, ne_eq] at h
    simp only [List.cons_append]
    rw [strBody.eq_def]
    simp [h.1, ih h.2]
  | case5 c r' hq hb ih =>
    simp only [List.cons_append]
    rw [strBody.eq_def]
    simp [hq, hb, ih h]

theorem takeString_valid (b r : Str) (h : ValidBody b = true) :
    takeString ('"' :: b ++ '"' :: r) = some (b, r) := by
  simp only [List.cons_append, takeString]
  exact strBody_valid b r h

/-! ### `_udf_tokens` on the serialized tokens -/

def toksText (d : Str) (ts : List Tok) : Str := ts.flatMap (fun t => d ++ tokText t)

theorem tokAt_tok (d : Str) (t : Tok) (r : Str) (hd : d.all isWs = true) (hv : ValidBody t.tfs = true) :
    tokAt (d ++ tokText t ++ r) = some (t, r) := by
  have hne := natDigits_ne_nil t.id
  have hall := natDigits_all t.id
  unfold tokAt
  have e1 : d ++ tokText t ++ r = d ++ (natDigits t.id ++ (' ' :: ('"' :: t.tfs ++ '"' :: r))) := by
    simp [tokText]
  rw [e1, skipWs_ws_append d _ hd]
  have e2 : skipWs (natDigits t.id ++ (' ' :: ('"' :: t.tfs ++ '"' :: r)))
      = natDigits t.id ++ (' ' :: ('"' :: t.tfs ++ '"' :: r)) := by
    cases h : natDigits t.id with
    | nil => exact absurd h hne
    | cons c cs =>
      have := natDigits_head t.id c cs h
      simp only [List.cons_append]
      exact skipWs_nonws _ _ (digit_not_ws c this)
  rw [e2, takeDigits_append _ _ hall hne (by intro c r' h; cases h; exact isDigit_space)]
  simp only
  have e3 : ws1 (' ' :: ('"' :: t.tfs ++ '"' :: r)) = some ('"' :: t.tfs ++ '"' :: r) := by
    simp only [ws1, List.cons_append]
    rw [if_pos isWs_space]
    rw [skipWs_nonws _ _ isWs_quote]
  rw [e3]
  simp only
  rw [takeString_valid _ _ hv]
  simp [digitsToNat_natDigits, unquoteBody]

theorem findToks_step (s : Str) (t : Tok) (rest : Str) (h : tokAt s = some (t, rest))
    (hl : rest.length < s.length) : findToks s = t :: findToks rest := by
  cases s with
  | nil => simp at hl
  | cons c r =>
    rw [findToks.eq_def]
    simp only [h]
    rw [if_pos hl]

theorem findToks_toksText (d : Str) (ts : List Tok) (hd : d.all isWs = true)
    (hv : ts.all (fun t => ValidBody t.tfs) = true) : findToks (toksText d ts) = ts := by
  induction ts with
  | nil => simp only [toksText, List.flatMap_nil]; rw [findToks.eq_def]
  | cons t ts ih =>
    simp only [List.all_cons, Bool.and_eq_true] at hv
    have e : toksText d (t :: ts) = d ++ tokText t ++ toksText d ts := by simp [toksText]
    rw [e, findToks_step _ t (toksText d ts) (tokAt_tok d t _ hd hv.1) (by
      simp [tokText]; omega), ih hv.2]

/-! ### the stack machine on the match list of a serialized tree -/

mutual
/-- the match list `_udf_re.finditer` produces on `inner udx ind lvl t` (proved in `scan_inner`) -/
def evs (udx : Bool) (ind : Option Nat) (lvl : Nat) : Node → List Ev
  | .term f ts => [Ev.term f (toksText (delim ind lvl) ts)]
  | .node i e sc st en h ty ds =>
    Ev.node (intText i) (decorate udx e h ty) sc (intText st) (intText en)
      :: (evsL udx ind lvl ds ++ [Ev.done])
  | .root e ds => Ev.root e :: (evsL udx ind lvl ds ++ [Ev.done])
def evsL (udx : Bool) (ind : Option Nat) (lvl : Nat) : List Node → List Ev
  | [] => []
  | d :: ds => evs udx ind (lvl + 1) d ++ evsL udx ind lvl ds
end

/-- what a reader of the text can see: everything for UDX, no head marks and types for plain UDF -/
def view (udx : Bool) (t : Node) : Node := if udx then t else eraseHT t
def viewL (udx : Bool) (ds : List Node) : List Node := if udx then ds else eraseHTL ds

def appendDtrs : Node → List Node → Node
  | .node i e sc st en h ty ds0, ds => .node i e sc st en h ty (ds0 ++ ds)
  | .root e ds0, ds => .root e (ds0 ++ ds)
  | .term f ts, _ => .term f ts

theorem appendDtrs_nil (p : Node) : appendDtrs p [] = p := by
  cases p <;> simp [appendDtrs]

theorem appendDtrs_addDtr (p d : Node) (ds : List Node) :
    appendDtrs (addDtr p d) ds = appendDtrs p (d :: ds) := by
  cases p <;> simp [appendDtrs, addDtr]

theorem addDtr_isTerm (p d : Node) : (addDtr p d).isTerm = p.isTerm := by
  cases p <;> rfl

theorem viewL_cons (udx : Bool) (d : Node) (ds : List Node) :
    viewL udx (d :: ds) = view udx d :: viewL udx ds := by
  cases udx <;> simp [viewL, view, eraseHTL]

theorem not_mem_of_contains_false (e : Str) (c : Char) (h : e.contains c = false) :
    e.all (· != c) = true := by
  rw [List.all_eq_true]
  intro x hx
  simp only [bne_iff_ne, ne_eq]
  intro hxc
  subst hxc
  have : e.contains x = true := List.contains_iff_mem.mpr hx
  rw [h] at this
  cases this

def typeSuffix (ty : Option Str) : Str :=
  match ty with
  | some (c :: cs) => '@' :: c :: cs
  | _ => []

theorem decorate_true (e : Str) (h : Bool) (ty : Option Str) :
    decorate true e h ty = (if h then '^' :: e else e) ++ typeSuffix ty := by
  cases ty with
  | none => simp [decorate, typeSuffix]
  | some s => cases s <;> simp [decorate, typeSuffix]

theorem typeSuffix_cases (ty : Option Str) (hty : TypeOK ty = true) :
    (typeSuffix ty = [] ∧ ty = none) ∨ ∃ s, s ≠ [] ∧ typeSuffix ty = '@' :: s ∧ ty = some s := by
  cases ty with
  | none => left; simp [typeSuffix]
  | some s =>
    cases s with
    | nil => simp [TypeOK, IsAtom] at hty
    | cons x xs => right; exact ⟨x :: xs, by simp, rfl, rfl⟩

theorem partition_at (pre suffix : Str) (tyv : Option Str) (hp : pre.all (· != '@') = true)
    (hs : suffix = [] ∧ tyv = none ∨ ∃ s, s ≠ [] ∧ suffix = '@' :: s ∧ tyv = some s) :
    (pre ++ suffix).takeWhile (· != '@') = pre ∧
    (if (((pre ++ suffix).dropWhile (· != '@')).drop 1).isEmpty then none
      else some (((pre ++ suffix).dropWhile (· != '@')).drop 1)) = tyv := by
  rcases hs with ⟨h1, h2⟩ | ⟨s, hs1, hs2, hs3⟩
  · subst h1; subst h2
    have := takeWhile_append_stop (p := (· != '@')) pre [] hp (by intro _ _ h; cases h)
    rw [this.1, this.2]
    simp
  · subst hs2; subst hs3
    have := takeWhile_append_stop (p := (· != '@')) pre ('@' :: s) hp
      (by intro c r h; cases h; decide)
    rw [this.1, this.2]
    simp [hs1]

theorem decodeEntity_decorate (udx : Bool) (e : Str) (h : Bool) (ty : Option Str)
    (he : EntityOK e = true) (hty : TypeOK ty = true) :
    decodeEntity (decorate udx e h ty) = .ok (e, (udx && h), if udx then ty else none) := by
  simp only [EntityOK, IsAtom, Bool.and_eq_true, Bool.not_eq_true', bne_iff_ne, ne_eq] at he
  obtain ⟨⟨⟨⟨hne, _⟩, hat⟩, hcaret⟩, _⟩ := he
  have hall := not_mem_of_contains_false e '@' hat
  cases e with
  | nil => simp at hne
  | cons c cs =>
    have hc : c ≠ '^' := by
      intro hh; subst hh; simp at hcaret
    cases udx with
    | false =>
      obtain ⟨k1, k2⟩ := partition_at (c :: cs) [] none hall (Or.inl ⟨rfl, rfl⟩)
      simp only [List.append_nil] at k1 k2
      simp only [decorate, Bool.false_eq_true, if_false, decodeEntity, Bool.false_and]
      rw [k1]
      simp only [hc, if_false]
      rw [k2]
    | true =>
      rw [decorate_true]
      cases h with
      | false =>
        obtain ⟨k1, k2⟩ := partition_at (c :: cs) _ ty hall (typeSuffix_cases ty hty)
        simp only [Bool.false_eq_true, if_false, decodeEntity, if_true, Bool.and_false]
        rw [k1]
        simp only [hc, if_false]
        rw [k2]
      | true =>
        have hall' : ('^' :: c :: cs).all (· != '@') = true := by
          simp only [List.all_cons, Bool.and_eq_true] at hall ⊢
          exact ⟨by decide, hall⟩
        obtain ⟨k1, k2⟩ := partition_at ('^' :: c :: cs) _ ty hall' (typeSuffix_cases ty hty)
        simp only [if_true, decodeEntity, Bool.and_true]
        rw [k1]
        simp only [if_true]
        rw [k2]

theorem mkNode_header (udx : Bool) (i : Int) (e sc : Str) (st en : Int) (h : Bool) (ty : Option Str)
    (he : EntityOK e = true) (hty : TypeOK ty = true) (hsc : pyFloatOk sc = some true) :
    mkNode (intText i) (decorate udx e h ty) sc (intText st) (intText en)
      = .ok (.node i e sc st en (udx && h) (if udx then ty else none) []) := by
  simp only [mkNode, decodeEntity_decorate udx e h ty he hty, pyInt_intText, hsc]

theorem view_node (udx : Bool) (i : Int) (e sc : Str) (st en : Int) (h : Bool) (ty : Option Str)
    (ds : List Node) :
    view udx (.node i e sc st en h ty ds)
      = .node i e sc st en (udx && h) (if udx then ty else none) (viewL udx ds) := by
  cases udx <;> simp [view, viewL, eraseHT]

theorem view_root (udx : Bool) (e : Str) (ds : List Node) :
    view udx (.root e ds) = .root e (viewL udx ds) := by
  cases udx <;> simp [view, viewL, eraseHT]

theorem view_term (udx : Bool) (f : Str) (ts : List Tok) : view udx (.term f ts) = .term f ts := by
  cases udx <;> simp [view, eraseHT]

mutual
theorem run_evs (udx : Bool) (ind : Option Nat) (lvl : Nat) (t : Node) (hwf : WF t = true)
    (p : Node) (_hp : p.isTerm = false) (stack : List Node) (more : List Ev) :
    run (evs udx ind lvl t ++ more) (p :: stack) = run more (addDtr p (view udx t) :: stack) := by
  cases t with
  | term f ts =>
    simp only [WF, Bool.and_eq_true] at hwf
    simp only [evs, List.cons_append, List.nil_append, run, unquoteBody, view_term]
    rw [findToks_toksText _ _ (delim_all_ws ind lvl) hwf.2]
  | node i e sc st en h ty ds =>
    simp only [WF, Bool.and_eq_true, beq_iff_eq] at hwf
    obtain ⟨⟨⟨⟨⟨he, _⟩, hsc⟩, hty⟩, _⟩, hds⟩ := hwf
    simp only [evs, List.cons_append, List.append_assoc, run, mkNode_header udx i e sc st en h ty he hty hsc]
    rw [run_evsL udx ind lvl ds hds _ rfl]
    simp only [List.cons_append, List.nil_append, run, appendDtrs, view_node]
  | root e ds =>
    simp only [WF, Bool.and_eq_true] at hwf
    simp only [evs, List.cons_append, List.append_assoc, run]
    rw [run_evsL udx ind lvl ds hwf.2 _ rfl]
    simp only [List.cons_append, List.nil_append, run, appendDtrs, view_root]
theorem run_evsL (udx : Bool) (ind : Option Nat) (lvl : Nat) (ds : List Node) (hwf : WFL ds = true)
    (p : Node) (hp : p.isTerm = false) (stack : List Node) (more : List Ev) :
    run (evsL udx ind lvl ds ++ more) (p :: stack)
      = run more (appendDtrs p (viewL udx ds) :: stack) := by
  cases ds with
  | nil =>
    have : viewL udx [] = [] := by cases udx <;> simp [viewL, eraseHTL]
    simp [evsL, this, appendDtrs_nil]
  | cons d ds' =>
    simp only [WFL, Bool.and_eq_true] at hwf
    simp only [evsL, List.append_assoc]
    rw [run_evs udx ind (lvl + 1) d hwf.1 p hp, run_evsL udx ind lvl ds' hwf.2 _ (by rw [addDtr_isTerm]; exact hp),
      appendDtrs_addDtr, viewL_cons]
end

/-- the stack machine rebuilds the tree from the match list of its serialization -/
theorem run_evs_top (udx : Bool) (ind : Option Nat) (lvl : Nat) (t : Node) (hwf : WF t = true)
    (hn : t.isTerm = false) : run (evs udx ind lvl t) [] = .ok (view udx t) := by
  cases t with
  | term f ts => simp [Node.isTerm] at hn
  | node i e sc st en h ty ds =>
    simp only [WF, Bool.and_eq_true, beq_iff_eq] at hwf
    obtain ⟨⟨⟨⟨⟨he, _⟩, hsc⟩, hty⟩, _⟩, hds⟩ := hwf
    simp only [evs, run, mkNode_header udx i e sc st en h ty he hty hsc]
    rw [run_evsL udx ind lvl ds hds _ rfl]
    simp only [run, appendDtrs, view_node, List.nil_append]
  | root e ds =>
    simp only [WF, Bool.and_eq_true] at hwf
    simp only [evs, run]
    rw [run_evsL udx ind lvl ds hwf.2 _ rfl]
    simp only [run, appendDtrs, view_root, List.nil_append]

theorem endsWithParen_snoc (a : Str) : endsWithParen (a ++ [')']) = true := by
  induction a with
  | nil => simp [endsWithParen]
  | cons c a ih =>
    cases h : a ++ [')'] with
    | nil => simp at h
    | cons x xs =>
      simp only [List.cons_append, h, endsWithParen]
      rw [← h]; exact ih

theorem inner_snoc (udx : Bool) (ind : Option Nat) (lvl : Nat) (t : Node) :
    ∃ a, inner udx ind lvl t = a ++ [')'] := by
  cases t with
  | term f ts => exact ⟨'"' :: f ++ '"' :: (ts.flatMap (fun t => delim ind lvl ++ tokText t)), by simp [inner, termInner]⟩
  | node i e sc st en h ty ds => exact ⟨header udx i e sc st en h ty ++ innerDtrs udx ind lvl ds, by simp [inner]⟩
  | root e ds => exact ⟨e ++ innerDtrs udx ind lvl ds, by simp [inner]⟩

mutual
theorem inner_eraseHT (ind : Option Nat) (lvl : Nat) (t : Node) :
    inner false ind lvl (eraseHT t) = inner false ind lvl t := by
  cases t with
  | term f ts => simp [eraseHT]
  | node i e sc st en h ty ds =>
    simp [eraseHT, inner, header, decorate, innerDtrs_eraseHTL ind lvl ds]
  | root e ds => simp [eraseHT, inner, innerDtrs_eraseHTL ind lvl ds]
theorem innerDtrs_eraseHTL (ind : Option Nat) (lvl : Nat) (ds : List Node) :
    innerDtrs false ind lvl (eraseHTL ds) = innerDtrs false ind lvl ds := by
  cases ds with
  | nil => simp [eraseHTL]
  | cons d ds' =>
    simp [eraseHTL, innerDtrs, inner_eraseHT ind (lvl + 1) d, innerDtrs_eraseHTL ind lvl ds']
end

/-! ### the scanner on serialized text (discharges `hscan`) -/

/-- what follows cannot continue a `{token}` -/
def StopsAtom (r : Str) : Prop := ∀ c r', r = c :: r' → isAtomCh c = false

theorem stop_nil : StopsAtom [] := by intro c r h; cases h
theorem stop_space (r : Str) : StopsAtom (' ' :: r) := by intro c r' h; cases h; exact isAtomCh_space
theorem stop_lparen (r : Str) : StopsAtom ('(' :: r) := by intro c r' h; cases h; exact isAtomCh_lparen
theorem stop_rparen (r : Str) : StopsAtom (')' :: r) := by intro c r' h; cases h; exact isAtomCh_rparen

theorem ws_not_atom (c : Char) (h : isWs c = true) : isAtomCh c = false := by
  simp [isAtomCh, h]

theorem atom_not_ws (c : Char) (h : isAtomCh c = true) : isWs c = false := by
  simp only [isAtomCh, Bool.and_eq_true, Bool.not_eq_true'] at h
  exact h.1.1

theorem stop_ws_append (w r : Str) (hw : w.all isWs = true) (hr : StopsAtom r) : StopsAtom (w ++ r) := by
  cases w with
  | nil => exact hr
  | cons x w' =>
    intro c r' h
    simp only [List.cons_append, List.cons.injEq] at h
    simp only [List.all_cons, Bool.and_eq_true] at hw
    rw [← h.1]; exact ws_not_atom x hw.1

theorem takeAtom_item (a r : Str) (ha : IsAtom a = true) (hr : StopsAtom r) :
    takeAtom (a ++ r) = some (a, r) := by
  simp only [IsAtom, Bool.and_eq_true, Bool.not_eq_true', List.isEmpty_eq_false_iff] at ha
  exact takeAtom_append a r ha.2 ha.1 hr

theorem skipWs_atom (a r : Str) (ha : IsAtom a = true) : skipWs (a ++ r) = a ++ r := by
  simp only [IsAtom, Bool.and_eq_true, Bool.not_eq_true', List.isEmpty_eq_false_iff] at ha
  cases a with
  | nil => exact absurd rfl ha.1
  | cons c cs =>
    have := ha.2
    simp only [List.all_cons, Bool.and_eq_true] at this
    exact skipWs_nonws c _ (atom_not_ws c this.1)

theorem ws1_space (x : Str) : ws1 (' ' :: x) = some (skipWs x) := by
  simp [ws1, isWs_space]

theorem takeString_nonquote (a r : Str) (hne : a ≠ []) (hq : a.head? ≠ some '"') :
    takeString (a ++ r) = none := by
  cases a with
  | nil => exact absurd rfl hne
  | cons c cs =>
    have hc : c ≠ '"' := by intro h; subst h; simp at hq
    simp only [List.cons_append]
    unfold takeString
    split
    · rename_i heq; cases heq; exact absurd rfl hc
    · rfl

theorem takeAtom_lparen (r : Str) : takeAtom ('(' :: r) = none := by
  simp [takeAtom, List.takeWhile_cons, isAtomCh_lparen]
theorem takeAtom_rparen (r : Str) : takeAtom (')' :: r) = none := by
  simp [takeAtom, List.takeWhile_cons, isAtomCh_rparen]
theorem isWs_lparen : isWs '(' = false := by decide
theorem isWs_rparen : isWs ')' = false := by decide

theorem alt1Tail_items (a3 a4 a5 w rest : Str) (h3 : IsAtom a3 = true) (h4 : IsAtom a4 = true)
    (h5 : IsAtom a5 = true) (hw : w.all isWs = true) :
    alt1Tail (' ' :: (a3 ++ ' ' :: (a4 ++ ' ' :: (a5 ++ (w ++ '(' :: rest)))))
      = some (a3, a4, a5, rest) := by
  have hs : skipWs (w ++ '(' :: rest) = '(' :: rest := by
    rw [skipWs_ws_append w _ hw, skipWs_nonws _ _ isWs_lparen]
  simp only [alt1Tail, ws1_space, skipWs_atom _ _ h3, skipWs_atom _ _ h4, skipWs_atom _ _ h5,
    takeAtom_item _ _ h3 (stop_space _), takeAtom_item _ _ h4 (stop_space _),
    takeAtom_item _ _ h5 (stop_ws_append w _ hw (stop_lparen rest)), hs]

theorem alt1_items (a1 a2 a3 a4 a5 w rest : Str) (h1 : IsAtom a1 = true) (h2 : IsAtom a2 = true)
    (hq : a2.head? ≠ some '"') (h3 : IsAtom a3 = true) (h4 : IsAtom a4 = true)
    (h5 : IsAtom a5 = true) (hw : w.all isWs = true) :
    alt1 (a1 ++ ' ' :: (a2 ++ ' ' :: (a3 ++ ' ' :: (a4 ++ ' ' :: (a5 ++ (w ++ '(' :: rest))))))
      = some (Ev.node a1 a2 a3 a4 a5, rest) := by
  have hne : a2 ≠ [] := by
    simp only [IsAtom, Bool.and_eq_true, Bool.not_eq_true', List.isEmpty_eq_false_iff] at h2
    exact h2.1
  simp only [alt1, skipWs_atom _ _ h1, takeAtom_item _ _ h1 (stop_space _), ws1_space,
    skipWs_atom _ _ h2, takeString_nonquote a2 _ hne hq, takeAtom_item _ _ h2 (stop_space _),
    alt1Tail_items a3 a4 a5 w rest h3 h4 h5 hw]

theorem alt3_nonquote (a r : Str) (ha : IsAtom a = true) (hq : a.head? ≠ some '"') :
    alt3 (a ++ r) = none := by
  have hne : a ≠ [] := by
    simp only [IsAtom, Bool.and_eq_true, Bool.not_eq_true', List.isEmpty_eq_false_iff] at ha
    exact ha.1
  simp only [alt3, skipWs_atom _ _ ha, takeString_nonquote a r hne hq]

/-- node header: the terminal alternative fails, the regular-node alternative matches through `(` -/
theorem matchAt_header (a1 a2 a3 a4 a5 w rest : Str) (h1 : IsAtom a1 = true) (hq1 : a1.head? ≠ some '"')
    (h2 : IsAtom a2 = true) (hq : a2.head? ≠ some '"') (h3 : IsAtom a3 = true)
    (h4 : IsAtom a4 = true) (h5 : IsAtom a5 = true) (hw : w.all isWs = true) :
    matchAt (a1 ++ ' ' :: (a2 ++ ' ' :: (a3 ++ ' ' :: (a4 ++ ' ' :: (a5 ++ (w ++ '(' :: rest))))))
      = some (Ev.node a1 a2 a3 a4 a5, rest) := by
  simp only [matchAt, alt3_nonquote a1 _ h1 hq1, alt1_items a1 a2 a3 a4 a5 w rest h1 h2 hq h3 h4 h5 hw]

/-- root symbol: terminal, node and `)` alternatives fail, the root alternative matches through `(` -/
theorem matchAt_root (e w rest : Str) (he : IsAtom e = true) (hq : e.head? ≠ some '"')
    (hw : w.all isWs = true) (hwne : w ≠ []) :
    matchAt (e ++ (w ++ '(' :: rest)) = some (Ev.root e, rest) := by
  have hs : skipWs (w ++ '(' :: rest) = '(' :: rest := by
    rw [skipWs_ws_append w _ hw, skipWs_nonws _ _ isWs_lparen]
  have hstop := stop_ws_append w _ hw (stop_lparen rest)
  have hne : e ≠ [] := by
    simp only [IsAtom, Bool.and_eq_true, Bool.not_eq_true', List.isEmpty_eq_false_iff] at he
    exact he.1
  have h1 : alt1 (e ++ (w ++ '(' :: rest)) = none := by
    have hws1 : ws1 (w ++ '(' :: rest) = some ('(' :: rest) := by
      rw [ws1_ws_append w _ hw hwne, skipWs_nonws _ _ isWs_lparen]
    have hts : takeString ('(' :: rest) = none := rfl
    simp only [alt1, skipWs_atom _ _ he, takeAtom_item _ _ he hstop, hws1, hts, takeAtom_lparen]
  have h2 : alt2 (e ++ (w ++ '(' :: rest)) = none := by
    simp only [alt2, skipWs_atom _ _ he]
    cases e with
    | nil => exact absurd rfl hne
    | cons c cs =>
      simp only [IsAtom, Bool.and_eq_true, List.all_cons] at he
      have hc : c ≠ ')' := by
        intro h; subst h
        have := he.2.1
        rw [isAtomCh_rparen] at this; cases this
      simp only [List.cons_append]
      split
      · rename_i heq; cases heq; exact absurd rfl hc
      · rfl
  simp only [matchAt, alt3_nonquote e _ he hq, h1, h2, alt4, skipWs_atom _ _ he,
    takeAtom_item _ _ he hstop, hs]

/-- branch end -/
theorem matchAt_done (more : Str) : matchAt (')' :: more) = some (Ev.done, more) := by
  have h3 : alt3 (')' :: more) = none := by
    simp only [alt3, skipWs_nonws _ _ isWs_rparen]; rfl
  have h1 : alt1 (')' :: more) = none := by
    simp only [alt1, skipWs_nonws _ _ isWs_rparen, takeAtom_rparen]
  simp only [matchAt, h3, h1, alt2, skipWs_nonws _ _ isWs_rparen]

/-- white space and the `(` before a non-first daughter match nothing -/
theorem matchAt_ws_lparen (w rest : Str) (hw : w.all isWs = true) : matchAt (w ++ '(' :: rest) = none := by
  have hs : skipWs (w ++ '(' :: rest) = '(' :: rest := by
    rw [skipWs_ws_append w _ hw, skipWs_nonws _ _ isWs_lparen]
  have hts : takeString ('(' :: rest) = none := rfl
  simp only [matchAt, alt3, alt1, alt2, alt4, hs, hts, takeAtom_lparen]
  rfl

theorem scan_skip (w rest : Str) (hw : w.all isWs = true) : scan (w ++ '(' :: rest) = scan rest := by
  induction w with
  | nil =>
    simp only [List.nil_append]
    have hm := matchAt_ws_lparen [] rest (by rfl)
    simp only [List.nil_append] at hm
    rw [scan.eq_def]
    simp only [hm]
  | cons c w ih =>
    simp only [List.all_cons, Bool.and_eq_true] at hw
    have hm := matchAt_ws_lparen (c :: w) rest (by simp [hw.1, hw.2])
    simp only [List.cons_append] at hm ⊢
    rw [scan.eq_def]
    simp only [hm]
    exact ih hw.2

theorem scan_step (pre rest : Str) (ev : Ev) (hne : pre ≠ [])
    (h : matchAt (pre ++ rest) = some (ev, rest)) : scan (pre ++ rest) = ev :: scan rest := by
  cases pre with
  | nil => exact absurd rfl hne
  | cons c cs =>
    simp only [List.cons_append] at h ⊢
    rw [scan.eq_def]
    simp only [h]
    rw [if_pos (by simp [List.length_append]; omega)]

/-! #### terminals -/

theorem takeString_valid' (b r : Str) (h : ValidBody b = true) :
    takeString ('"' :: (b ++ '"' :: r)) = some (b, r) := by
  have := takeString_valid b r h
  simpa using this

theorem digitStop_space (x : Str) : ∀ c r', (' ' :: x) = c :: r' → isAsciiDigit c = false := by
  intro c r' h; cases h; exact isDigit_space

theorem takeDigits_quote (r : Str) : takeDigits ('"' :: r) = none := by
  simp [takeDigits, List.takeWhile_cons, isAsciiDigit]

theorem natDigits_isAtom (n : Nat) : IsAtom (natDigits n) = true := by
  simp only [IsAtom, Bool.and_eq_true, Bool.not_eq_true', List.isEmpty_eq_false_iff]
  refine ⟨natDigits_ne_nil n, ?_⟩
  rw [List.all_eq_true]
  intro c hc
  have := natDigits_all n
  rw [List.all_eq_true] at this
  exact digit_isAtomCh c (this c hc)

theorem skipWs_natDigits (n : Nat) (r : Str) : skipWs (natDigits n ++ r) = natDigits n ++ r :=
  skipWs_atom _ _ (natDigits_isAtom n)

theorem tokText_eq (t : Tok) (r : Str) :
    tokText t ++ r = natDigits t.id ++ (' ' :: ('"' :: (t.tfs ++ '"' :: r))) := by
  simp [tokText]

theorem tokIter_tok (d : Str) (t : Tok) (r : Str) (hd : d.all isWs = true) (hne : d ≠ [])
    (hv : ValidBody t.tfs = true) : tokIter (d ++ (tokText t ++ r)) = some r := by
  rw [tokText_eq]
  simp only [tokIter, ws1_ws_append d _ hd hne, skipWs_natDigits,
    takeAtom_item _ _ (natDigits_isAtom t.id) (stop_space _), ws1_space,
    skipWs_nonws _ _ isWs_quote, takeString_valid' _ _ hv]

theorem lkbPart_tok (d : Str) (t : Tok) (r : Str) (hd : d.all isWs = true) (hne : d ≠ []) :
    lkbPart (d ++ (tokText t ++ r)) = none := by
  rw [tokText_eq]
  simp only [lkbPart, ws1_ws_append d _ hd hne, skipWs_natDigits,
    takeDigits_append _ _ (natDigits_all t.id) (natDigits_ne_nil t.id) (digitStop_space _), ws1_space,
    skipWs_nonws _ _ isWs_quote, takeDigits_quote]

theorem ws1_rparen (r : Str) : ws1 (')' :: r) = none := by
  simp [ws1, isWs_rparen]

theorem toksText_cons (d : Str) (t : Tok) (ts : List Tok) (r : Str) :
    toksText d (t :: ts) ++ r = d ++ (tokText t ++ (toksText d ts ++ r)) := by
  simp [toksText]

theorem tokGroup_toks (d : Str) (ts : List Tok) (more : Str) (hd : d.all isWs = true) (hne : d ≠ [])
    (hv : ts.all (fun t => ValidBody t.tfs) = true) :
    ∀ f, ts.length ≤ f → tokGroup f (toksText d ts ++ ')' :: more) = ')' :: more := by
  induction ts with
  | nil =>
    intro f _
    simp only [toksText, List.flatMap_nil, List.nil_append]
    cases f with
    | zero => rfl
    | succ f => simp only [tokGroup, tokIter, ws1_rparen]
  | cons t ts ih =>
    intro f hf
    simp only [List.all_cons, Bool.and_eq_true] at hv
    cases f with
    | zero => simp at hf
    | succ f =>
      rw [toksText_cons]
      simp only [tokGroup, tokIter_tok d t _ hd hne hv.1]
      rw [if_pos (by simp [List.length_append]; cases d with
        | nil => exact absurd rfl hne
        | cons _ _ => simp; omega)]
      exact ih hv.2 f (by simp at hf; omega)

theorem toksText_length (d : Str) (ts : List Tok) (hne : d ≠ []) : ts.length ≤ (toksText d ts).length := by
  induction ts with
  | nil => simp
  | cons t ts ih =>
    have : toksText d (t :: ts) = d ++ (tokText t ++ toksText d ts) := by simp [toksText]
    rw [this]
    cases d with
    | nil => exact absurd rfl hne
    | cons _ _ => simp [List.length_append]; omega

/-- terminal: the first alternative matches `"form" tokens… )` and delivers the raw token text -/
theorem matchAt_term (d f : Str) (ts : List Tok) (more : Str) (hd : d.all isWs = true) (hne : d ≠ [])
    (hf : ValidBody f = true) (hv : ts.all (fun t => ValidBody t.tfs) = true) :
    matchAt ('"' :: (f ++ '"' :: (toksText d ts ++ ')' :: more)))
      = some (Ev.term f (toksText d ts), more) := by
  have hlkb : lkbPart (toksText d ts ++ ')' :: more) = none := by
    cases ts with
    | nil => simp only [toksText, List.flatMap_nil, List.nil_append, lkbPart, ws1_rparen]
    | cons t ts' => rw [toksText_cons]; exact lkbPart_tok d t _ hd hne
  have hgrp := tokGroup_toks d ts more hd hne hv (toksText d ts ++ ')' :: more).length
    (by simp only [List.length_append]; have := toksText_length d ts hne; omega)
  have hclose : closeParen (')' :: more) = some more := by
    simp only [closeParen, skipWs_nonws _ _ isWs_rparen]
  have htake : (toksText d ts ++ ')' :: more).take
      ((toksText d ts ++ ')' :: more).length - (')' :: more).length) = toksText d ts := by
    simp [List.length_append]
  simp only [matchAt, alt3, skipWs_nonws _ _ isWs_quote, takeString_valid' _ _ hf, hlkb, hgrp, hclose, htake]

/-! #### printed integers and decorated entities are `{token}`s -/

theorem isAtomCh_minus : isAtomCh '-' = true := by decide
theorem isAtomCh_caret : isAtomCh '^' = true := by decide
theorem isAtomCh_at : isAtomCh '@' = true := by decide

theorem intText_isAtom (i : Int) : IsAtom (intText i) = true := by
  cases i with
  | ofNat n => exact natDigits_isAtom n
  | negSucc n =>
    have := natDigits_isAtom (n + 1)
    simp only [IsAtom, Bool.and_eq_true, Bool.not_eq_true'] at this ⊢
    simp [intText, isAtomCh_minus, this.2]

theorem intText_head (i : Int) : (intText i).head? ≠ some '"' := by
  cases i with
  | ofNat n =>
    simp only [intText]
    cases h : natDigits n with
    | nil => simp
    | cons c cs =>
      have := natDigits_head n c cs h
      simp only [List.head?_cons, ne_eq, Option.some.injEq]
      intro e; subst e; revert this; decide
  | negSucc n => simp [intText]

theorem isAtom_append (a b : Str) (ha : IsAtom a = true) (hb : b.all isAtomCh = true) :
    IsAtom (a ++ b) = true := by
  simp only [IsAtom, Bool.and_eq_true, Bool.not_eq_true', List.isEmpty_eq_false_iff] at ha ⊢
  refine ⟨by simp [ha.1], ?_⟩
  rw [List.all_append, ha.2, hb]; rfl

theorem decorate_isAtom (udx : Bool) (e : Str) (h : Bool) (ty : Option Str)
    (he : EntityOK e = true) (hty : TypeOK ty = true) :
    IsAtom (decorate udx e h ty) = true ∧ (decorate udx e h ty).head? ≠ some '"' := by
  simp only [EntityOK, Bool.and_eq_true, Bool.not_eq_true', bne_iff_ne, ne_eq] at he
  obtain ⟨⟨⟨hat, _⟩, _⟩, hq⟩ := he
  cases udx with
  | false => simp only [decorate, Bool.false_eq_true, if_false]; exact ⟨hat, hq⟩
  | true =>
    rw [decorate_true]
    have hsuf : (typeSuffix ty).all isAtomCh = true := by
      rcases typeSuffix_cases ty hty with ⟨h1, _⟩ | ⟨s, _, h2, h3⟩
      · rw [h1]; rfl
      · rw [h2]; subst h3
        simp only [TypeOK, IsAtom, Bool.and_eq_true] at hty
        simp [isAtomCh_at, hty.2]
    have hbase : IsAtom (if h = true then '^' :: e else e) = true
        ∧ (if h = true then '^' :: e else e).head? ≠ some '"' := by
      cases h with
      | false => exact ⟨hat, hq⟩
      | true =>
        simp only [IsAtom, Bool.and_eq_true, Bool.not_eq_true'] at hat
        simp [IsAtom, isAtomCh_caret, hat.2]
    refine ⟨isAtom_append _ _ hbase.1 hsuf, ?_⟩
    have hne : (if h = true then '^' :: e else e) ≠ [] := by
      have := hbase.1
      simp only [IsAtom, Bool.and_eq_true, Bool.not_eq_true', List.isEmpty_eq_false_iff] at this
      exact this.1
    cases hb : (if h = true then '^' :: e else e) with
    | nil => exact absurd hb hne
    | cons c cs =>
      have := hbase.2
      rw [hb] at this
      simpa using this

/-! #### the induction over the tree -/

theorem header_append (udx : Bool) (i : Int) (e sc : Str) (st en : Int) (h : Bool) (ty : Option Str)
    (r : Str) :
    header udx i e sc st en h ty ++ r
      = intText i ++ ' ' :: (decorate udx e h ty ++ ' ' :: (sc ++ ' ' :: (intText st ++ ' ' ::
          (intText en ++ r)))) := by
  simp [header]

mutual
theorem scan_inner (udx : Bool) (ind : Option Nat) (lvl : Nat) (t : Node) (hwf : WF t = true)
    (more : Str) : scan (inner udx ind lvl t ++ more) = evs udx ind lvl t ++ scan more := by
  cases t with
  | term f ts =>
    simp only [WF, Bool.and_eq_true] at hwf
    have e : inner udx ind lvl (.term f ts) ++ more
        = ('"' :: f ++ '"' :: toksText (delim ind lvl) ts ++ [')']) ++ more := by
      simp [inner, termInner, toksText]
    have e2 : ('"' :: f ++ '"' :: toksText (delim ind lvl) ts ++ [')']) ++ more
        = ('"' :: f ++ '"' :: (toksText (delim ind lvl) ts ++ [')'])) ++ more := by simp
    rw [e, e2, scan_step _ more (Ev.term f (toksText (delim ind lvl) ts)) (by simp) (by
      have := matchAt_term (delim ind lvl) f ts more (delim_all_ws ind lvl) (delim_ne_nil ind lvl)
        hwf.1 hwf.2
      simpa using this)]
    simp [evs]
  | node i e sc st en h ty ds =>
    simp only [WF, Bool.and_eq_true, beq_iff_eq, Bool.not_eq_true', List.isEmpty_eq_false_iff] at hwf
    obtain ⟨⟨⟨⟨⟨he, hsc⟩, _⟩, hty⟩, hne⟩, hds⟩ := hwf
    cases ds with
    | nil => exact absurd rfl hne
    | cons d ds' =>
      simp only [WFL, Bool.and_eq_true] at hds
      obtain ⟨hdec, hdecq⟩ := decorate_isAtom udx e h ty he hty
      -- text = header ++ (delim ++ '(' :: rest), rest = inner d ++ innerDtrs ds' ++ ')' :: more
      have e1 : inner udx ind lvl (.node i e sc st en h ty (d :: ds')) ++ more
          = (header udx i e sc st en h ty ++ (delim ind lvl ++ ['('])) ++
              (inner udx ind (lvl + 1) d ++ (innerDtrs udx ind lvl ds' ++ ')' :: more)) := by
        simp [inner, innerDtrs]
      have e2 : ∀ X : Str, (header udx i e sc st en h ty ++ (delim ind lvl ++ ['('])) ++ X
          = intText i ++ ' ' :: (decorate udx e h ty ++ ' ' :: (sc ++ ' ' :: (intText st ++ ' ' ::
              (intText en ++ (delim ind lvl ++ '(' :: X))))) := by
        intro X
        rw [List.append_assoc, header_append]
        simp
      rw [e1, scan_step _ _ (Ev.node (intText i) (decorate udx e h ty) sc (intText st) (intText en))
        (by simp [delim_ne_nil]) (by
          rw [e2]
          exact matchAt_header (intText i) (decorate udx e h ty) sc (intText st) (intText en)
            (delim ind lvl) _ (intText_isAtom i) (intText_head i) hdec hdecq hsc (intText_isAtom st)
            (intText_isAtom en) (delim_all_ws ind lvl))]
      rw [scan_inner udx ind (lvl + 1) d hds.1, scan_innerDtrs udx ind lvl ds' hds.2,
        show (')' :: more) = [')'] ++ more from rfl, scan_step [')'] more Ev.done (by simp) (matchAt_done more)]
      simp [evs, evsL]
  | root e ds =>
    simp only [WF, Bool.and_eq_true, Bool.not_eq_true', List.isEmpty_eq_false_iff] at hwf
    obtain ⟨⟨he, hne⟩, hds⟩ := hwf
    cases ds with
    | nil => exact absurd rfl hne
    | cons d ds' =>
      simp only [WFL, Bool.and_eq_true] at hds
      have he' := he
      simp only [EntityOK, Bool.and_eq_true, Bool.not_eq_true', bne_iff_ne, ne_eq] at he'
      obtain ⟨⟨⟨hat, _⟩, _⟩, hq⟩ := he'
      have e1 : inner udx ind lvl (.root e (d :: ds')) ++ more
          = (e ++ (delim ind lvl ++ ['('])) ++
              (inner udx ind (lvl + 1) d ++ (innerDtrs udx ind lvl ds' ++ ')' :: more)) := by
        simp [inner, innerDtrs]
      rw [e1, scan_step _ _ (Ev.root e) (by
          simp only [IsAtom, Bool.and_eq_true, Bool.not_eq_true', List.isEmpty_eq_false_iff] at hat
          simp [hat.1]) (by
          have hm := matchAt_root e (delim ind lvl)
            (inner udx ind (lvl + 1) d ++ (innerDtrs udx ind lvl ds' ++ ')' :: more)) hat hq
            (delim_all_ws ind lvl) (delim_ne_nil ind lvl)
          simpa using hm)]
      rw [scan_inner udx ind (lvl + 1) d hds.1, scan_innerDtrs udx ind lvl ds' hds.2,
        show (')' :: more) = [')'] ++ more from rfl, scan_step [')'] more Ev.done (by simp) (matchAt_done more)]
      simp [evs, evsL]
theorem scan_innerDtrs (udx : Bool) (ind : Option Nat) (lvl : Nat) (ds : List Node)
    (hwf : WFL ds = true) (more : Str) :
    scan (innerDtrs udx ind lvl ds ++ more) = evsL udx ind lvl ds ++ scan more := by
  cases ds with
  | nil => simp [innerDtrs, evsL]
  | cons d ds' =>
    simp only [WFL, Bool.and_eq_true] at hwf
    have e1 : innerDtrs udx ind lvl (d :: ds') ++ more
        = delim ind lvl ++ '(' :: (inner udx ind (lvl + 1) d ++ (innerDtrs udx ind lvl ds' ++ more)) := by
      simp [innerDtrs]
    rw [e1, scan_skip _ _ (delim_all_ws ind lvl), scan_inner udx ind (lvl + 1) d hwf.1,
      scan_innerDtrs udx ind lvl ds' hwf.2]
    simp [evsL]
end

/-- the lexical lemma: `_udf_re.finditer` on the serialization of a tree yields its event list -/
theorem scan_tree (udx : Bool) (ind : Option Nat) (lvl : Nat) (t : Node) (hwf : WF t = true) :
    scan (inner udx ind lvl t) = evs udx ind lvl t := by
  have := scan_inner udx ind lvl t hwf []
  have hnil : scan [] = [] := by rw [scan.eq_def]
  simpa [hnil] using this

/-! ### the top-level check is insensitive to erasing head marks and types -/

theorem eraseHT_isRoot (t : Node) : (eraseHT t).isRoot = t.isRoot := by
  cases t <;> simp [eraseHT, Node.isRoot]

theorem eraseHT_isTerm (t : Node) : (eraseHT t).isTerm = t.isTerm := by
  cases t <;> simp [eraseHT, Node.isTerm]

theorem eraseHTL_anyRoot (ds : List Node) : (eraseHTL ds).any Node.isRoot = ds.any Node.isRoot := by
  induction ds with
  | nil => simp [eraseHTL]
  | cons d ds ih => simp [eraseHTL, eraseHT_isRoot, ih]

theorem topCheck_eraseHT (t : Node) (h : topCheck t = .ok t) : topCheck (eraseHT t) = .ok (eraseHT t) := by
  cases t with
  | term f ts => simpa [eraseHT] using h
  | node i e sc st en hd ty ds =>
    simp only [topCheck, Node.dtrs] at h
    by_cases hany : ds.any Node.isRoot = true
    · simp [hany] at h
    · simp only [eraseHT, topCheck, Node.dtrs, eraseHTL_anyRoot, hany]
      simp
  | root e ds =>
    simp only [topCheck, Node.dtrs] at h
    by_cases hany : ds.any Node.isRoot = true
    · simp [hany] at h
    · cases ds with
      | nil => simp at h
      | cons d ds' =>
        cases ds' with
        | cons d2 ds'' => simp [hany] at h
        | nil =>
          by_cases hterm : d.isTerm = true
          · simp [hany, hterm] at h
          · have hr : (eraseHT d).isRoot = false := by
              rw [eraseHT_isRoot]; simpa using hany
            simp [eraseHT, eraseHTL, topCheck, Node.dtrs, hr, eraseHT_isTerm, hterm]

theorem topCheck_view (udx : Bool) (t : Node) (h : topCheck t = .ok t) :
    topCheck (view udx t) = .ok (view udx t) := by
  cases udx with
  | true => exact h
  | false => exact topCheck_eraseHT t h

end Verif.C16
