/-
C16 — model of `UDFNode.is_head()` and of `==` on derivation nodes
(`UDFNode.__eq__`, `UDFTerminal.__eq__`, `UDFToken.__eq__`, `_UDFNodeBase.__ne__`).  Core Lean only.

`is_head()` reads the daughters list of the node's parent, so both functions take the parent's
daughters (`sibs`, `none` = the node has no parent) as an argument; for the daughters of a node the
context is that node's own daughters list (the parsers create every daughter with `parent=` the node
that lists it: `parent_spec`, `parent_spec_dict`).
-/
import Verif.C16.Model

namespace Verif.C16

inductive EqErr where
  | attributeError   -- `dtr._head` on a terminal sibling
  | unmodelled       -- `str.lower()` of a non-ASCII entity decides the answer
deriving Repr, DecidableEq

def Node.entity : Node → Str
  | .term .. => []
  | .node _ e _ _ _ _ _ _ => e
  | .root e _ => e

/-- the `type` attribute (`None` on roots) -/
def Node.ty : Node → Option Str
  | .node _ _ _ _ _ _ ty _ => ty
  | _ => none

/-- `(start, end)`; `(None, None)` on roots -/
def Node.span : Node → Option (Int × Int)
  | .node _ _ _ st en _ _ _ => some (st, en)
  | _ => none

/-- truthiness of `_head`; `none`: the object has no such attribute (terminals) -/
def headMark : Node → Option Bool
  | .term .. => none
  | .node _ _ _ _ _ h _ _ => some h
  | .root .. => some false

/-- `any(dtr._head for dtr in self._parent.daughters)` (short-circuits at the first head mark) -/
def anyHead : List Node → Except EqErr Bool
  | [] => .ok false
  | d :: ds =>
    match headMark d with
    | none => .error .attributeError
    | some true => .ok true
    | some false => anyHead ds

/-- `UDFNode.is_head()` of a non-terminal: `some true` / `some false` / `none` (indeterminate) -/
def isHead (sibs : Option (List Node)) (n : Node) : Except EqErr (Option Bool) :=
  if headMark n = some true || n.isRoot then .ok (some true) else
  match sibs with
  | none => .ok (some true)                       -- len(getattr(None, 'daughters', [None])) == 1
  | some ds =>
    if ds.length = 1 then .ok (some true) else
    match anyHead ds with
    | .error e => .error e
    | .ok true => .ok (some false)
    | .ok false => .ok none

/-- `a.lower() != b.lower()` is false; ASCII only (identical strings are equal whatever they hold) -/
def lowerEq (a b : Str) : Except EqErr Bool :=
  if a = b then .ok true
  else if (a ++ b).any (fun c => c.toNat > 127) then .error .unmodelled
  else .ok (a.map lowerAscii = b.map lowerAscii)

/-- `self.tokens != other.tokens` is false: same length and pairwise equal `tfs` (`UDFToken.__eq__`
ignores the id) -/
def tokEq (a b : List Tok) : Bool := a.map (·.tfs) == b.map (·.tfs)

/-- the attribute checks of `UDFNode.__eq__` on two non-terminals, in the order of the code; `rest` is
the verdict on the daughters -/
def hdrEq (sa : Option (List Node)) (a : Node) (sb : Option (List Node)) (b : Node)
    (rest : Except EqErr Bool) : Except EqErr Bool :=
  if b.isTerm then .ok false else                 -- NotImplemented on both sides: identity, False
  match lowerEq a.entity b.entity with
  | .error e => .error e
  | .ok false => .ok false
  | .ok true =>
    if a.ty ≠ b.ty then .ok false else
    match isHead sa a with
    | .error e => .error e
    | .ok ha =>
    match isHead sb b with
    | .error e => .error e
    | .ok hb =>
      if ha ≠ hb then .ok false else
      if a.span ≠ b.span then .ok false else
      if a.dtrs.length ≠ b.dtrs.length then .ok false else rest

mutual
/-- `a == b` where `sa`/`sb` are the daughters lists of the parents of `a`/`b` -/
def nodeEq (sa sb : Option (List Node)) (b : Node) : Node → Except EqErr Bool
  | .term fa ta =>
    (match b with
     | .term fb tb => .ok (fa == fb && tokEq ta tb)
     | _ => .ok false)
  | .node i e sc st en h ty ds =>
    hdrEq sa (.node i e sc st en h ty ds) sb b (nodeEqL ds b.dtrs b.dtrs ds)
  | .root e ds => hdrEq sa (.root e ds) sb b (nodeEqL ds b.dtrs b.dtrs ds)
/-- `not any(x != y for x, y in zip(a.daughters, b.daughters))`: stops at the first unequal pair -/
def nodeEqL (pa pb : List Node) : List Node → List Node → Except EqErr Bool
  | _, [] => .ok true
  | [], _ :: _ => .ok true
  | b :: bs, a :: as =>
    match nodeEq (some pa) (some pb) b a with
    | .error e => .error e
    | .ok false => .ok false
    | .ok true => nodeEqL pa pb bs as
end

/-- `top == other` for two derivations (neither has a parent) -/
def derivEq (a b : Node) : Except EqErr Bool := nodeEq none none b a

mutual
/-- `is_head()` of every non-terminal of the tree, pre-order -/
def heads (sibs : Option (List Node)) : Node → List (Except EqErr (Option Bool))
  | .term .. => []
  | .node i e sc st en h ty ds => isHead sibs (.node i e sc st en h ty ds) :: headsL ds ds
  | .root e ds => isHead sibs (.root e ds) :: headsL ds ds
def headsL (p : List Node) : List Node → List (Except EqErr (Option Bool))
  | [] => []
  | d :: ds => heads (some p) d ++ headsL p ds
end

end Verif.C16
