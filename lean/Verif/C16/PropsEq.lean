/-
C16 — property theorems, part 2: `==` of derivations (`UDFNode.__eq__`, `is_head()`), the "equal
derivation" clauses of the round trips, and the `fields` allowlist of `to_dict`.
-/
import Verif.C16.Props
import Verif.C16.EqLemmas
import Verif.C16.ParentDict

namespace Verif.C16

instance : DecidableEq (Except EqErr Bool) := fun a b =>
  match a, b with
  | .ok x, .ok y => if h : x = y then isTrue (by rw [h]) else isFalse (by intro h'; cases h'; exact h rfl)
  | .error x, .error y => if h : x = y then isTrue (by rw [h]) else isFalse (by intro h'; cases h'; exact h rfl)
  | .ok _, .error _ => isFalse (by intro h; cases h)
  | .error _, .ok _ => isFalse (by intro h; cases h)

/-- "structural equality ignoring ids and scores" (anchor `UDFNode.__eq__/is_head`), positive half: two
derivations that agree in everything except node ids, scores and token ids (`strip` forgets exactly
these) are `==`, provided no node has both terminal and non-terminal daughters (`Uniform`; `is_head()`
reads `_head` of every sibling).  In particular `==` never raises on such trees. -/
theorem eq_ignores_ids_scores (a b : Node) (hs : strip a = strip b) (hu : Uniform a = true) :
    derivEq a b = .ok true :=
  nodeEq_strip a b none none hs hu (fun _ => trivial)

/-- `==` is reflexive on uniform trees: a derivation is equal to any copy of itself (the twin built
from the same data on every tree case of the run). -/
theorem eq_refl (t : Node) (hu : Uniform t = true) : derivEq t t = .ok true :=
  eq_ignores_ids_scores t t rfl hu

/-- negative half, for ALL trees and contexts: if `==` answers True the two derivations have the same
shape and agree in entities up to ASCII letter case, types, spans, terminal forms and token tfs strings
(`skel` keeps exactly these).  So a difference in any of them is seen by `==`. -/
theorem eq_sound (a b : Node) (h : derivEq a b = .ok true) : skel a = skel b :=
  nodeEq_skel a b none none h

/-- `Uniform` is needed: with a terminal and a non-terminal under one node, `is_head()` of the
non-terminal reads `_head` of the terminal: AttributeError (compared with the real code on the mixed
trees of every run). -/
theorem eq_needs_uniform :
    derivEq (.node 1 ['a'] ['0'] 0 2 false none [.term ['x'] [], .node 2 ['b'] ['0'] 1 2 false none [.term ['y'] []]])
            (.node 1 ['a'] ['0'] 0 2 false none [.term ['x'] [], .node 2 ['b'] ['0'] 1 2 false none [.term ['y'] []]])
      = .error .attributeError := by decide

/-- what `==` does NOT see (witnesses): the letter case of an entity, a node id, a score, a token id, and
a head mark on an only daughter; what it does see: a head mark among siblings. -/
theorem eq_witnesses :
    derivEq (.node 1 ['F', 'o'] ['0'] 0 1 false none [.term ['x'] [⟨1, ['t']⟩]])
            (.node 7 ['f', 'O'] ['1'] 0 1 false none [.term ['x'] [⟨9, ['t']⟩]]) = .ok true
    ∧ derivEq (.node 1 ['a'] ['0'] 0 1 false none [.node 2 ['b'] ['0'] 0 1 true none [.term ['x'] []]])
              (.node 1 ['a'] ['0'] 0 1 false none [.node 2 ['b'] ['0'] 0 1 false none [.term ['x'] []]]) = .ok true
    ∧ derivEq (.node 1 ['a'] ['0'] 0 2 false none [.node 2 ['b'] ['0'] 0 1 true none [.term ['x'] []],
                                                  .node 3 ['c'] ['0'] 1 2 false none [.term ['y'] []]])
              (.node 1 ['a'] ['0'] 0 2 false none [.node 2 ['b'] ['0'] 0 1 false none [.term ['x'] []],
                                                  .node 3 ['c'] ['0'] 1 2 false none [.term ['y'] []]]) = .ok false := by
  decide

/-- "converting a derivation to its dictionary form and back gives an EQUAL derivation": the result of
`from_dict(to_dict(t))` is `==` to `t`, in both directions. -/
theorem dict_roundtrip_eq (t : Node) (h : DictOK t = true) (hn : t.isTerm = false)
    (htop : topCheck t = .ok t) :
    ∃ t', fromDict (toDict t) = .ok t' ∧ derivEq t t' = .ok true ∧ derivEq t' t = .ok true :=
  ⟨t, dict_roundtrip t h hn htop, eq_refl t (uniform_of_dictOK t h), eq_refl t (uniform_of_dictOK t h)⟩

/-- "the parsed tree equals the original": the result of `from_string(to_udx(t, indent))` is `==` to `t`,
and that of `from_string(to_udf(t, indent))` is `==` to `t` without head marks and types, for every
indentation. -/
theorem udf_roundtrip_eq (udx : Bool) (ind : Option Nat) (t : Node) (hwf : WF t = true)
    (hn : t.isTerm = false) (htop : topCheck t = .ok t) (hu : Uniform t = true) :
    ∃ t', fromString (toUdf udx ind t) = .ok t' ∧ derivEq (view udx t) t' = .ok true := by
  refine ⟨view udx t, udf_roundtrip udx ind t hwf hn htop, eq_refl _ ?_⟩
  cases udx with
  | true => exact hu
  | false => simp only [view, Bool.false_eq_true, if_false, uniform_eraseHT, hu]

/-- the hypotheses of `eq_ignores_ids_scores` are satisfiable by two different trees -/
example : derivEq (.root ['r'] [.node 1 ['a'] ['-', '1'] 0 2 true (some ['t'])
      [.node 2 ['b'] ['0'] 0 1 false none [.term ['x'] [⟨1, ['q']⟩]], .node 3 ['c'] ['0'] 1 2 false none [.term ['y'] []]]])
    (.root ['r'] [.node 10 ['a'] ['5'] 0 2 true (some ['t'])
      [.node 20 ['b'] ['7'] 0 1 false none [.term ['x'] [⟨8, ['q']⟩]], .node 30 ['c'] ['2'] 1 2 false none [.term ['y'] []]]])
    = .ok true :=
  eq_ignores_ids_scores _ _ (by simp [strip, stripL]) (by decide)

/-- "each node's parent is the node that lists it as a daughter", for `from_dict`, completed: besides
`parent_spec_dict` (every node and terminal names the node that lists it) the node numbers of the
annotated `_from_dict` are pairwise distinct, so "the node numbered u" is one node — the same statement
as `parent_spec` has for `from_string`. -/
theorem parent_spec_dict_distinct (d : D) (c : Nat) (a : ANode) (c' : Nat)
    (h : fromDictP d c none = some (a, c')) : Cons a = true ∧ (uids a).Nodup :=
  ⟨(fromDictP_cons d c none a c' h).1, (fromDictP_uids d c none a c' h).1⟩

/-- `to_dict(fields=F)` is `to_dict()` with the optional keys outside `F` deleted AT EVERY LEVEL of the
dictionary (`form` and `daughters` always stay): the allowlist is threaded through the whole recursion,
including the merged terminal of a preterminal and the token lists. -/
theorem to_dict_fields_restrict (f : Fields) (t : Node) : toDictF f t = restrictD f (toDict t) :=
  toDictF_restrict f t

/-- the default allowlist `_all_fields` deletes nothing: `to_dict()` = `to_dict(fields=_all_fields)`. -/
theorem to_dict_all_fields (t : Node) : toDictF allFields t = toDict t := by
  rw [toDictF_restrict, restrictD_all]

/-- `set(fields)`: the ten names of `_all_fields` in any order give the full allowlist; an unknown
name is rejected (`ValueError`). -/
theorem fieldsOf_witnesses :
    fieldsOf ["form", "tokens", "id", "entity", "score", "start", "end", "daughters", "head", "type"]
      = some allFields
    ∧ fieldsOf ["type", "head", "end", "start", "score", "entity", "id", "tokens", "tokens"] = some allFields
    ∧ fieldsOf ["entity", "label"] = none
    ∧ fieldsOf [] = some noFields := by decide

end Verif.C16
