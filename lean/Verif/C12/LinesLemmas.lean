/- C12 — helper lemmas for the composed model of `mkprof` on sentence input (`ComposeLines.lean`). -/
import Verif.C09.Props
import Verif.C12.ComposeLines
import Verif.C12.ComposeLemmas
import Verif.C12.Props

namespace Verif.C12.Compose
open Verif.Tables Verif.C12
open Verif.C08 (normEmpty)

namespace LL

theorem dropWhile_nl_of_not_mem : ∀ (l : Text), '\n' ∉ l → l.dropWhile (· = '\n') = l
  | [], _ => rfl
  | c :: cs, h => by
    have hc : c ≠ '\n' := fun e => h (by simp [e])
    simp [List.dropWhile, hc]

theorem rstripNl_terminated (cur : Text) (h : '\n' ∉ cur) : rstripNl (('\n' :: cur).reverse) = cur.reverse := by
  unfold rstripNl
  rw [List.reverse_reverse]
  simp only [List.dropWhile, decide_true]
  rw [dropWhile_nl_of_not_mem cur h]

theorem rstripNl_plain (cur : Text) (h : '\n' ∉ cur) : rstripNl cur.reverse = cur.reverse := by
  unfold rstripNl
  rw [List.reverse_reverse, dropWhile_nl_of_not_mem cur h]

theorem pyIterAux_eq : ∀ (t cur : Text), '\n' ∉ cur →
    (pyIterAux cur t).map rstripNl = C09.splitLinesAux cur t
  | [], cur, h => by
    unfold pyIterAux C09.splitLinesAux
    split
    · rfl
    · simp [rstripNl_plain cur h]
  | c :: cs, cur, h => by
    unfold pyIterAux C09.splitLinesAux
    by_cases hc : c = '\n'
    · simp only [hc, if_true, List.map_cons]
      rw [rstripNl_terminated cur h, pyIterAux_eq cs [] (by simp)]
    · simp only [hc, if_false]
      exact pyIterAux_eq cs (c :: cur) (by
        intro hm
        rcases List.mem_cons.mp hm with e | e
        · exact hc e.symm
        · exact h e)

theorem universalNl_ne (c : Char) (cs : Text) (h : c ≠ '\r') : universalNl (c :: cs) = c :: universalNl cs := by
  simp [universalNl, universalAux, h]

theorem universalNl_crlf (cs : Text) : universalNl ('\r' :: '\n' :: cs) = '\n' :: universalNl cs := by
  simp [universalNl, universalAux]

theorem universalNl_cr (cs : Text) (h : cs.head? ≠ some '\n') : universalNl ('\r' :: cs) = '\n' :: universalNl cs := by
  cases cs with
  | nil => simp [universalNl, universalAux]
  | cons a as =>
    have ha : a ≠ '\n' := by simpa using h
    simp [universalNl, universalAux, ha]

theorem universalNl_id : ∀ (t : Text), '\r' ∉ t → universalNl t = t
  | [], _ => rfl
  | c :: cs, h => by
    have hc : c ≠ '\r' := fun e => h (by simp [e])
    rw [universalNl_ne c cs hc, universalNl_id cs (fun e => h (by simp [e]))]

theorem universalNl_line (term : Text) (hterm : term = ['\r', '\n'] ∨ term = ['\r'] ∨ term = ['\n']) :
    ∀ (l rest : Text), '\r' ∉ l → (term = ['\r'] → rest.head? ≠ some '\n') →
      universalNl (l ++ term ++ rest) = l ++ '\n' :: universalNl rest
  | [], rest, _, hr => by
    rcases hterm with e | e | e
    · subst e
      exact universalNl_crlf rest
    · subst e
      exact universalNl_cr rest (hr rfl)
    · subst e
      exact universalNl_ne '\n' rest (by decide)
  | c :: cs, rest, h, hr => by
    have hc : c ≠ '\r' := fun e => h (by simp [e])
    have ih := universalNl_line term hterm cs rest (fun e => h (by simp [e])) hr
    simp only [List.cons_append, List.append_assoc] at ih ⊢
    rw [universalNl_ne c _ hc, ih]

theorem splitLinesAux_tail : ∀ (l cur : Text), '\n' ∉ l → l ≠ [] ∨ cur ≠ [] →
    C09.splitLinesAux cur l = [cur.reverse ++ l]
  | [], cur, _, hne => by
    have : cur ≠ [] := by rcases hne with h | h; exact absurd rfl h; exact h
    cases cur with
    | nil => exact absurd rfl this
    | cons a as => simp [C09.splitLinesAux]
  | c :: cs, cur, h, _ => by
    have hc : c ≠ '\n' := fun e => h (by simp [e])
    unfold C09.splitLinesAux
    simp only [hc, if_false]
    rw [splitLinesAux_tail cs (c :: cur) (fun e => h (by simp [e])) (Or.inr (by simp))]
    simp

theorem splitLines_toText_tail : ∀ (ls : List Text) (l : Text), (∀ x ∈ ls, '\n' ∉ x) → '\n' ∉ l → l ≠ [] →
    C09.splitLines (C09.toText ls ++ l) = ls ++ [l]
  | [], l, _, hl, hne => by
    simp only [C09.toText, List.flatMap_nil, List.nil_append, C09.splitLines]
    rw [splitLinesAux_tail l [] hl (Or.inl hne)]
    rfl
  | x :: xs, l, h, hl, hne => by
    have hx : '\n' ∉ x := h x (by simp)
    have : C09.toText (x :: xs) ++ l = x ++ '\n' :: (C09.toText xs ++ l) := by simp [C09.toText]
    rw [this]
    unfold C09.splitLines
    rw [C09.splitLinesAux_line [] x _ hx]
    have ih := splitLines_toText_tail xs l (fun y hy => h y (by simp [hy])) hl hne
    unfold C09.splitLines at ih
    rw [ih]
    rfl

/-- the default of a column is the same in the round-1 model and in C09's -/
theorem coded_lookup (n : String) : ∀ (l : List (String × String)),
    (l.find? (fun p => p.1.toList == n.toList)).map (·.2) = l.lookup n
  | [] => rfl
  | (k, v) :: rest => by
    by_cases hk : n = k
    · subst hk
      simp [List.find?, List.lookup]
    · have h1 : (n == k) = false := by simpa using hk
      have h2 : (k.toList == n.toList) = false := by
        simpa using fun e => hk (String.toList_inj.mp e).symm
      simp only [List.find?, List.lookup, h1, h2]
      exact coded_lookup n rest

theorem default09 (f : Field) : (f09 f).default = f.default := by
  have hn : (f09 f).name = f.name.toList := rfl
  have hdt : ((f09 f).dt = .integer) ↔ (f.dt = ":integer") := by
    unfold f09 dtOf
    by_cases h1 : f.dt = ":integer"
    · simp [h1]
    · by_cases h2 : f.dt = ":string"
      · simp [h2]
      · by_cases h3 : f.dt = ":date"
        · simp [h3]
        · simp [h1, h2, h3]
  unfold C09.Field.default Field.default
  rw [hn]
  have h := coded_lookup f.name codedAttributes
  cases hl : codedAttributes.lookup f.name with
  | some d =>
    rw [hl] at h
    cases hf : codedAttributes.find? (fun p => p.1.toList == f.name.toList) with
    | none => simp [hf] at h
    | some p =>
      simp only [hf, Option.map_some, Option.some.injEq] at h
      simp [h]
  | none =>
    rw [hl] at h
    cases hf : codedAttributes.find? (fun p => p.1.toList == f.name.toList) with
    | some p => simp [hf] at h
    | none =>
      by_cases h1 : f.dt = ":integer"
      · have := hdt.mpr h1
        simp [h1, this]
      · have : ¬ (f09 f).dt = .integer := fun e => h1 (hdt.mp e)
        simp [h1, this]

theorem fmt_lval (f : Field) (v : LVal) : C09.fmtField (f09 f) (lval v) = v.text f := by
  cases v with
  | none => simp [lval, C09.fmtField, LVal.text, default09]
  | str s => simp [lval, C09.fmtField, LVal.text, C08.format]
  | int n => simp [lval, C09.fmtField, LVal.text, C08.format, C08.formatInt]

theorem readCell_normEmpty (t : Text) : normEmpty (some t) = readCell t := by
  cases t <;> simp [normEmpty, readCell]

/-- the cells C09 prints for a record of column-map values, read back by C08, are the round-1 model's -/
theorem cells_eq : ∀ (fields : List Field) (r : List LVal),
    (C09.cellsOf (fields.map f09) (r.map lval)).map (fun s => normEmpty (some s)) = readRow (encodeL fields r)
  | [], r => by simp [C09.cellsOf, encodeL, readRow]
  | f :: fs, [] => by simp [C09.cellsOf, encodeL, readRow]
  | f :: fs, v :: vs => by
    have ih := cells_eq fs vs
    simp only [C09.cellsOf, encodeL, readRow, List.map_cons, List.zip_cons_cons, List.zipWith_cons_cons,
      fmt_lval, readCell_normEmpty, List.cons.injEq, true_and] at ih ⊢
    exact ih

theorem lineRecord_width (fields : List Field) (colnames : List LVal) (sp : Splitter) (i : Nat)
    (seen seen' : List LVal) (line : Text) (r : List LVal)
    (h : lineRecord fields colnames sp i seen line = .ok (r, seen')) : r.length = fields.length := by
  cases hsp : sp.split line with
  | error e =>
    unfold lineRecord at h
    simp [hsp] at h
  | ok cv =>
    by_cases hl : cv.length = colnames.length
    · rw [L.lineRecord_eq fields colnames sp i seen line cv hsp hl] at h
      split at h
      · cases h
      · simp only [Except.ok.injEq, Prod.mk.injEq] at h
        rw [← h.1]
        simp
    · unfold lineRecord at h
      simp only [hsp, ne_eq, hl, not_false_eq_true, if_true] at h
      split at h <;> cases h

theorem linesLoop_width (fields : List Field) (colnames : List LVal) (sp : Splitter) :
    ∀ (lines : List Text) (i : Nat) (seen : List LVal) (recs : List (List LVal)),
      linesLoop fields colnames sp i seen lines = .ok recs → ∀ r ∈ recs, r.length = fields.length
  | [], _, _, recs, h => by
    simp only [linesLoop, Except.ok.injEq] at h
    subst h
    simp
  | l :: ls, i, seen, recs, h => by
    simp only [linesLoop] at h
    split at h
    · cases h
    · rename_i r seen' hrec
      split at h
      · cases h
      · rename_i rs hrs
        simp only [Except.ok.injEq] at h
        subst h
        intro x hx
        rcases List.mem_cons.mp hx with e | e
        · subst e
          exact lineRecord_width fields colnames sp i seen seen' l _ hrec
        · exact linesLoop_width fields colnames sp ls (i + 1) seen' rs hrs x e

theorem stage_ok (flds : List C09.Field) (hne : flds ≠ []) : ∀ (recs : List (List C08.Val)),
    (∀ r ∈ recs, r.length = flds.length) → ∃ lines, C09.stage flds recs = .ok lines ∧ lines.length = recs.length
  | [], _ => ⟨[], rfl, rfl⟩
  | r :: rs, h => by
    obtain ⟨ls, hls, hlen⟩ := stage_ok flds hne rs (fun x hx => h x (by simp [hx]))
    have hr : r.length = flds.length := h r (by simp)
    have hfe : flds.isEmpty = false := by cases flds <;> simp_all
    have he : ∃ l, C09.encodeLine flds r = .ok l := by simp [C09.encodeLine, hfe, hr]
    obtain ⟨l, hl⟩ := he
    unfold C09.stage at hls ⊢
    refine ⟨l :: ls, ?_, by simp [hlen]⟩
    rw [List.mapM_cons, hls, hl]
    rfl

theorem writeV_read (now : Nat) (gzip : Bool) (fields : List Field) (recs : List (List C08.Val))
    (r r' : C09.Rel) (h : writeV now gzip fields recs r = .ok r') :
    C09.readRaw r' = .ok (recs.map (fun vals =>
      (C09.cellsOf (fields.map f09) vals).map (fun s => normEmpty (some s)))) ∧ C09.OneForm r' ∧
      (r'.gz.isSome = true ↔ (gzip = true ∧ recs ≠ [])) := by
  unfold writeV at h
  cases hst : C09.stage (fields.map f09) recs with
  | error e => simp [C09.write, hst] at h
  | ok lines =>
    rw [hst] at h
    cases hw : C09.write now r { append := false, gzip := gzip, staged := .ok lines } with
    | error e => simp [hw] at h
    | ok r1 =>
      simp only [hw, Except.ok.injEq] at h
      subst h
      have hread := C09.write_read now r r1 _ hw
      have hform := C09.write_one_form now r r1 _ hw
      simp only [C09.linesOf, Bool.false_eq_true, if_false, List.nil_append] at hread hform
      have hlen : lines.length = recs.length := CL.stage_length _ _ _ hst
      refine ⟨C09.readRaw_staged (fields.map f09) _ lines r1 hst hread, hform.1, ?_⟩
      rw [hform.2]
      have : lines ≠ [] ↔ recs ≠ [] := by
        cases lines <;> cases recs <;> simp_all
      rw [this]

theorem initFilesC_item (now : Nat) (sch : Schema) (fs : C09.Files) (t : Name) {f : List Field}
    (ht : (t, f) ∈ sch) : initFilesC now sch fs t.toList = { tx := some ⟨[], now⟩, gz := none } := by
  unfold initFilesC
  have : sch.names.any (fun s => s.toList = t.toList) = true := by
    simp only [List.any_eq_true, decide_eq_true_eq]
    exact ⟨t, L.mem_names ht, rfl⟩
  simp [this]

end LL

end Verif.C12.Compose
