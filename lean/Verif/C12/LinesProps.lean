/-
C12 — theorems of the composed model of `mkprof` on sentence input (`ComposeLines.lean`), round 6:
"a profile created from sentence lines has one item per line with identifiers, well-formedness marks
and lengths as documented" — from the CHARACTERS of the input stream (newline conventions, final line
without terminator) to the cells that `tsdb.Database` reads back from the written `item` file
(C08 escaping, C09 line files).
-/
import Verif.C09.Props
import Verif.C12.ComposeLines
import Verif.C12.ComposeLemmas
import Verif.C12.Props
import Verif.C12.LinesLemmas

namespace Verif.C12.Compose
open Verif.Tables Verif.C12
open Verif.C08 (normEmpty)


/-! ## the text layer: what "a line" is -/

/-- `for line in stream: split(line.rstrip('\n'))` sees exactly the pieces of the text between
consecutive `\n` characters — nothing else separates items — and a final piece without terminator is
an item iff it is not empty. -/
theorem streamLines_eq_splitLines (raw : Text) : streamLines .asIs raw = C09.splitLines raw :=
  LL.pyIterAux_eq raw [] (by simp)

/-- one item per line: a stream holding the lines `ls` (no `\n` inside a line), each terminated by
`\n`, is cut into exactly `ls`, in order — empty lines included. -/
theorem streamLines_lines (ls : List Text) (h : ∀ l ∈ ls, '\n' ∉ l) :
    streamLines .asIs (C09.toText ls) = ls := by
  rw [streamLines_eq_splitLines, C09.splitLines_toText ls h]

/-- … and a last line without final newline is an item like the others. -/
theorem streamLines_no_final_newline (ls : List Text) (l : Text) (h : ∀ x ∈ ls, '\n' ∉ x) (hl : '\n' ∉ l)
    (hne : l ≠ []) : streamLines .asIs (C09.toText ls ++ l) = ls ++ [l] := by
  rw [streamLines_eq_splitLines, LL.splitLines_toText_tail ls l h hl hne]

/-- a sentence FILE (opened by `mkprof` itself in text mode) whose lines end in `\r\n`, `\r` or `\n` —
any mixture — gives the same items as the `\n`-terminated file: the terminator never reaches
`i-input`.  (`terms` gives the terminator of each line; a lone `\r` must not be followed by a line
starting with `\n`, which would be the two-character terminator.) -/
theorem streamLines_file_newlines : ∀ (lts : List (Text × Text)),
    (∀ p ∈ lts, '\r' ∉ p.1 ∧ '\n' ∉ p.1 ∧ (p.2 = ['\r', '\n'] ∨ p.2 = ['\n'])) →
    streamLines .file (lts.flatMap (fun p => p.1 ++ p.2)) = lts.map (·.1) := by
  intro lts h
  have key : ∀ (lts : List (Text × Text)),
      (∀ p ∈ lts, '\r' ∉ p.1 ∧ '\n' ∉ p.1 ∧ (p.2 = ['\r', '\n'] ∨ p.2 = ['\n'])) →
      universalNl (lts.flatMap (fun p => p.1 ++ p.2)) = C09.toText (lts.map (·.1)) := by
    intro lts
    induction lts with
    | nil => intro _; rfl
    | cons p ps ih =>
      intro h
      obtain ⟨h1, _, h3⟩ := h p (by simp)
      have := LL.universalNl_line p.2 (by rcases h3 with e | e <;> simp [e]) p.1
        (ps.flatMap (fun p => p.1 ++ p.2)) h1 (by rcases h3 with e | e <;> simp [e])
      simp only [List.flatMap_cons, List.map_cons, C09.toText]
      rw [this, ih (fun q hq => h q (by simp [hq]))]
      simp [C09.toText]
  unfold streamLines
  simp only
  rw [key lts h]
  exact streamLines_lines _ (by
    intro l hl
    simp only [List.mem_map] at hl
    obtain ⟨p, hp, rfl⟩ := hl
    exact (h p hp).2.1)

/-- a file without any `\r` is read as it is -/
theorem streamLines_file_lf (raw : Text) (h : '\r' ∉ raw) : streamLines .file raw = streamLines .asIs raw := by
  unfold streamLines
  simp only
  rw [LL.universalNl_id raw h]

/-- the translation is the FILE's: a stream handed in by the caller is taken as it presents itself
(`\r` stays in the item), and a lone `\r` in a file does separate items. -/
theorem streamLines_examples :
    streamLines .asIs "a\r\nb".toList = ["a\r".toList, "b".toList] ∧
    streamLines .file "a\r\nb".toList = ["a".toList, "b".toList] ∧
    streamLines .file "a\rb\n\n".toList = ["a".toList, "b".toList, []] ∧
    streamLines .asIs "a\n\nb".toList = ["a".toList, [], "b".toList] ∧
    streamLines .asIs "\n".toList = [[]] ∧ streamLines .asIs [] = [] := by decide

/-! ## the written `item` relation, read back through the C08 codec -/

/-- one `tsdb.write` of records of column-map values (strings, line numbers, word counts, `None`)
through C09: the relation is then held in exactly one file, compressed iff `gzip` and there is a
record, and reads back through `unescape ∘ split` as the printed values, an empty one as `None`. -/
theorem writeV_reads_back (now : Nat) (gzip : Bool) (fields : List Field) (recs : List (List LVal))
    (r r' : C09.Rel) (h : writeV now gzip fields (recs.map (·.map lval)) r = .ok r') :
    C09.readRaw r' = .ok (recs.map (fun rec => readRow (encodeL fields rec))) ∧ C09.OneForm r' ∧
      (r'.gz.isSome = true ↔ (gzip = true ∧ recs ≠ [])) := by
  obtain ⟨a, b, c⟩ := LL.writeV_read now gzip fields _ r r' h
  refine ⟨?_, b, by simpa using c⟩
  rw [a, List.map_map]
  congr 1
  apply List.map_congr_left
  intro rec _
  exact LL.cells_eq fields rec

/-- **Refinement**: the composed model — text of the stream, C08 escaping, C09 files — and the round-1
model (`mkprofLines`, which takes the lines as given and stores cell texts) agree: they fail in the same
way, and after a successful non-skeleton run the `item` file on disk (one physical form; compressed iff
`gzip` and there is an item) decodes to exactly the rows the round-1 model holds.  So every
round-1 theorem on text input (`lines_plain_exact`, `lines_success_exact`, `lines_one_item_per_line`, …)
speaks about what `tsdb.Database` reads from the file written from the stream `raw`. -/
theorem mkprofLinesC_refines (now : Nat) (dst1 : Dir) (dstC : CDir) (sch : Schema) (delim : Option Text)
    (s : Stream) (raw : Text) (gzip skeleton : Bool) (fields : List Field)
    (hitem : ("item", fields) ∈ sch) (hnd : sch.names.Nodup) :
    (mkprofLinesC now dstC (some sch) delim s raw gzip skeleton).2 =
      (mkprofLines now dst1 (some sch) delim (streamLines s raw) gzip skeleton).2 ∧
    ((mkprofLines now dst1 (some sch) delim (streamLines s raw) gzip skeleton).2 = none → skeleton = false →
      ∃ rows, ((mkprofLines now dst1 (some sch) delim (streamLines s raw) gzip false).1.files "item").read = some rows ∧
        C09.readRaw ((mkprofLinesC now dstC (some sch) delim s raw gzip false).1.files "item".toList) = .ok rows ∧
        C09.OneForm ((mkprofLinesC now dstC (some sch) delim s raw gzip false).1.files "item".toList) ∧
        ((((mkprofLinesC now dstC (some sch) delim s raw gzip false).1.files "item".toList).gz.isSome = true) ↔
          (gzip = true ∧ rows ≠ []))) := by
  have hlk : sch.lookup "item" = some fields := L.lookup_of_mem sch "item" fields hnd hitem
  unfold mkprofLinesC mkprofLines
  cases sch with
  | nil => simp at hitem
  | cons s0 srest =>
    simp only
    generalize Splitter.ofDelim delim = sp
    cases hms : makeSplit sp (streamLines s raw) with
    | error e => simp
    | ok cr =>
      obtain ⟨colnames, rest⟩ := cr
      simp only [hlk]
      cases hfe : fields.isEmpty with
      | true => simp
      | false =>
        simp only [Bool.false_eq_true, if_false]
        cases hll : linesLoop fields colnames sp 1 [] rest with
        | error e => simp
        | ok recs =>
          simp only
          have hne : fields.map f09 ≠ [] := by cases fields <;> simp_all
          obtain ⟨lines, hst, _⟩ := LL.stage_ok (fields.map f09) hne (recs.map (·.map lval)) (by
            intro r hr
            simp only [List.mem_map] at hr
            obtain ⟨r0, hr0, rfl⟩ := hr
            simp [LL.linesLoop_width fields colnames sp rest 1 [] recs hll r0 hr0])
          have hwv : ∀ r0, ∃ r', writeV now gzip fields (recs.map (·.map lval)) r0 = .ok r' := by
            intro r0
            unfold writeV
            simp only [hst, C09.write, Bool.false_and, Bool.false_eq_true, if_false]
            by_cases hc : (gzip && !lines.isEmpty) = true <;> simp [hc]
          obtain ⟨r', hr'⟩ := hwv (initFilesC now (s0 :: srest) dstC.files "item".toList)
          simp only [hr', true_and]
          intro _ hsk
          obtain ⟨a, b, c⟩ := writeV_reads_back now gzip fields recs _ r' hr'
          refine ⟨(recs.map (encodeL fields)).map readRow, ?_, ?_, ?_, ?_⟩
          · simp only [cleanup, L.contains_names hitem, Bool.true_or, if_true, L.keeps_plain hitem,
              L.cleanupOne_keep, Files.set, L.read_writeRel]
          · rw [CL.cleanupC_keep _ _ _ _ hitem]
            simp only [C09.Files.set, if_true]
            rw [a, List.map_map]
            rfl
          · rw [CL.cleanupC_keep _ _ _ _ hitem]
            simpa only [C09.Files.set, if_true] using b
          · rw [CL.cleanupC_keep _ _ _ _ hitem]
            simp only [C09.Files.set, if_true]
            rw [c]
            simp

/-- end to end for sentence lines without delimiter, from the characters of a `\n`-terminated stream:
`mkprof` never fails and the `item` file decodes to one row per line, in order — field by field the
documented value of `plainVal (1 + k) line_k` (`i-id` the line number, `i-wf` 0 iff the line starts
with `*`, `i-input` the line without that `*`, VERBATIM through escaping whatever characters it
holds, `i-length` the word count, other fields their default). -/
theorem mkprofLinesC_plain_exact (now : Nat) (dstC : CDir) (sch : Schema) (delim : Option Text)
    (ls : List Text) (gzip : Bool) (fields : List Field)
    (hd : Splitter.ofDelim delim = .plain) (hitem : ("item", fields) ∈ sch) (hnd : sch.names.Nodup)
    (hf : fields ≠ []) (hls : ∀ l ∈ ls, '\n' ∉ l) :
    (mkprofLinesC now dstC (some sch) delim .asIs (C09.toText ls) gzip false).2 = none ∧
    ∃ rows, C09.readRaw ((mkprofLinesC now dstC (some sch) delim .asIs (C09.toText ls) gzip false).1.files
        "item".toList) = .ok rows ∧ rows.length = ls.length ∧
      ∀ (k : Nat) (hk : k < ls.length),
        rows[k]? = some (fields.map (fun f => readCell ((plainVal (1 + k) ls[k] f).text f))) := by
  have dst1 : Dir := { schema := none, files := fun _ => {} }
  obtain ⟨herr, hrows⟩ := mkprofLinesC_refines now dst1 dstC sch delim .asIs (C09.toText ls) gzip false fields
    hitem hnd
  obtain ⟨d, h1, h2, h3, h4⟩ := lines_plain_exact now dst1 sch delim ls gzip fields hd hitem hnd hf
  rw [streamLines_lines ls hls] at herr hrows
  rw [h1] at herr hrows
  refine ⟨herr, ?_⟩
  obtain ⟨rows, e1, e2, _⟩ := hrows rfl rfl
  simp only at e1
  rw [h2] at e1
  have : rows = (plainRecs fields 1 ls).map (fun r => readRow (encodeL fields r)) := (Option.some.inj e1).symm
  subst this
  exact ⟨_, e2, h3, h4⟩

def exSchema : Schema :=
  [("item", [⟨"i-id", ":integer", [":key"]⟩, ⟨"i-input", ":string", []⟩, ⟨"i-wf", ":integer", []⟩,
             ⟨"i-length", ":integer", []⟩])]

def exRun : CDir × Option Err :=
  mkprofLinesC 5 { schema := none, files := fun _ => {} } (some exSchema) none .file
    "a dog\r\n*b@ \\".toList false false

/-- the statements are not vacuous: a CRLF file of two sentence lines, the second ungrammatical, holding an
`@` and a backslash and lacking the final newline; the `item` file holds the escaped text and decodes
to the documented rows. -/
example :
    exRun.2 = none ∧
    (exRun.1.files "item".toList).tx.map (·.lines) =
      some ["1@a dog@1@2".toList, "2@b\\s \\\\@0@2".toList] ∧
    (C09.readRaw (exRun.1.files "item".toList)).toOption =
      some [[some "1".toList, some "a dog".toList, some "1".toList, some "2".toList],
           [some "2".toList, some "b@ \\".toList, some "0".toList, some "2".toList]] := by
  decide +kernel

end Verif.C12.Compose
