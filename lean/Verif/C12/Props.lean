/-
C12 — property theorems: "Profiles made by mkprof contain exactly the selected source rows".
Statements are over the model of `Model.lean` for ALL profiles, schemas, filters outcomes and flag
combinations.  `kept`, `NoAdjDup`, `defaulted`, `Proper` are defined in `Lemmas.lean`.
-/
import Verif.C12.Lemmas

namespace Verif.C12
open Verif.Tables

/-! ## "with a filter exactly those that satisfy it through the relation's key links,
with no loss, duplication or reordering"

`expand rows ks` is the select output (row `i` once per satisfying joined tuple, `ks[i]` of them),
`kept rows ks` the rows with at least one. -/

/-- one-to-many links never duplicate a row: the multiplicities of the join disappear entirely. -/
theorem filter_collapses_multiplicity (rows : List Rec) (ks : List Nat) :
    tsqlDistinct (expand rows ks) = tsqlDistinct (kept rows ks) :=
  L.distinctAux_expand none rows ks

/-- `_tsql_distinct` is the identity exactly on lists in which no row equals its predecessor. -/
theorem distinct_exact_iff (xs : List Rec) : tsqlDistinct xs = xs ↔ NoAdjDup xs := by
  unfold tsqlDistinct
  rw [L.distinctAux_eq_self_iff]
  constructor
  · exact fun h => h.2
  · intro h
    refine ⟨?_, h⟩
    cases xs <;> simp

-- FULL STATEMENT (not proved; false for the code, finding F20):
--   ∀ rows ks, tsqlDistinct (expand rows ks) = kept rows ks
/-- the filtered relation is exactly the satisfying source rows, in order, each once — provided no
two identical rows are adjacent among the satisfying rows (forced hypothesis, F20). -/
theorem filter_exact_partial (rows : List Rec) (ks : List Nat) (h : NoAdjDup (kept rows ks)) :
    tsqlDistinct (expand rows ks) = kept rows ks := by
  rw [filter_collapses_multiplicity]
  exact (distinct_exact_iff _).2 h

/-- … and the hypothesis is necessary: whenever two identical satisfying rows are adjacent the result
differs from the satisfying rows. -/
theorem filter_inexact_of_adjacent_duplicates (rows : List Rec) (ks : List Nat)
    (h : ¬ NoAdjDup (kept rows ks)) : tsqlDistinct (expand rows ks) ≠ kept rows ks := by
  rw [filter_collapses_multiplicity]
  exact fun e => h ((distinct_exact_iff _).1 e)

/-- in particular for a source relation without repeated rows. -/
theorem filter_exact_of_nodup (rows : List Rec) (ks : List Nat) (h : rows.Nodup) :
    tsqlDistinct (expand rows ks) = kept rows ks :=
  filter_exact_partial rows ks (L.noAdjDup_of_nodup _ ((L.kept_sublist rows ks).nodup h))

/-- even with duplicates nothing is invented, repeated or reordered: the result is a subsequence of
the satisfying rows. -/
theorem filter_sublist (rows : List Rec) (ks : List Nat) :
    List.Sublist (tsqlDistinct (expand rows ks)) (kept rows ks) := by
  rw [filter_collapses_multiplicity]
  exact L.distinctAux_sublist _ _

/-- counter-example (F20): two identical adjacent rows, both satisfying the filter, are written once. -/
theorem filter_full_statement_fails :
    tsqlDistinct (expand [[some ['a']], [some ['a']]] [1, 1]) ≠ kept [[some ['a']], [some ['a']]] [1, 1] := by
  decide

/-- counter-example (F20): identical rows separated only by a rejected row are merged too. -/
theorem filter_full_statement_fails_nonadjacent :
    tsqlDistinct (expand [[some ['a']], [some ['b']], [some ['a']]] [2, 0, 1]) = [[some ['a']]] := by
  decide

/-! ## the main clause, relation by relation -/

/-- operational core: after a successful `mkprof(dest, source=<profile>)`, the relation `t` of the
destination schema is one `tsdb.write` of the records `_mkprof_from_database` computed for it (all of
the right width), followed by the clean-up tests. -/
theorem mkprofDb_relation (now : Nat) (src dst d : Dir) (p : DbParams) (ss : Schema)
    (hs : src.schema = some ss) (hnd : (p.schema.getD ss).names.Nodup)
    (hrun : mkprofDb now src dst p = (d, none)) (t : Name) (newF : List Field)
    (ht : (t, newF) ∈ p.schema.getD ss) :
    d.schema = some (p.schema.getD ss) ∧
    ∃ recs, dbRecords ss src.files p (p.schema.getD ss) t newF = .ok recs ∧
      (∀ r ∈ recs, r.length = newF.length) ∧
      d.files t = cleanupOne (keeps (p.schema.getD ss) p.skeleton t) p.skeleton
                    (writeRel now p.gzip (recs.map (List.zipWith fmtCell newF))) := by
  unfold mkprofDb at hrun
  simp only [hs] at hrun
  generalize hw : writeLoop now p.gzip (fun _ => dbRecords ss src.files p (p.schema.getD ss)) dst.files
    (p.schema.getD ss) = w at hrun
  obtain ⟨fs, e⟩ := w
  cases e with
  | some e => simp at hrun
  | none =>
    simp only [Prod.mk.injEq, and_true] at hrun
    subst hrun
    have hl := L.writeLoop_ok now p.gzip (fun _ => dbRecords ss src.files p (p.schema.getD ss))
      (fun _ _ _ _ _ => rfl) _ _ _ hnd hw
    obtain ⟨recs, rows, h1, h2, h3⟩ := hl.2 t newF ht
    have hst := L.stage_ok h2
    refine ⟨rfl, recs, h1, hst.2, ?_⟩
    have hmem : (p.schema.getD ss).names.contains t = true := L.contains_names ht
    simp only [cleanup, hmem, Bool.true_or, if_true, h3, hst.1]

/-- the rows a copied relation is made of: what the filter selects (all rows without a filter or when
the query cannot be evaluated), each matched to the new fields by column name when they differ. -/
theorem dbRecords_copied (ss : Schema) (src : Files) (p : DbParams) (target : Schema) (t : Name)
    (oldF newF : List Field) (rows : List Rec)
    (hcopy : p.full = true ∧ t ∈ target.names ∨ p.full = false ∧ t ∈ coreFiles)
    (hold : ss.lookup t = some oldF) (hread : (src t).read = some rows) :
    dbRecords ss src p target t newF =
      (match selectRows p.sel t rows with
       | .error e => .error e
       | .ok sel => .ok (sel.map (fun r => if oldF = newF then r else remake oldF newF r))) := by
  unfold dbRecords
  have hc : (if p.full then target.names else coreFiles).contains t = true := by
    rcases hcopy with ⟨h1, h2⟩ | ⟨h1, h2⟩ <;> simp [h1, h2]
  simp only [hc, Bool.not_true, Bool.false_eq_true, if_false, hold, hread]
  cases selectRows p.sel t rows with
  | error e => rfl
  | ok sel =>
    by_cases hf : oldF = newF
    · simp [hf]
    · cases sel with
      | nil => simp
      | cons a as => simp [hf]

/-- a relation that is not selected for copying, is not declared in the source, or has no file
there, is empty in the new profile. -/
theorem dbRecords_not_copied (ss : Schema) (src : Files) (p : DbParams) (target : Schema) (t : Name)
    (newF : List Field)
    (h : (p.full = true ∧ t ∉ target.names) ∨ (p.full = false ∧ t ∉ coreFiles) ∨ ss.lookup t = none ∨
         (src t).read = none) :
    dbRecords ss src p target t newF = .ok [] := by
  rcases h with ⟨h1, h2⟩ | ⟨h1, h2⟩ | h | h
  · simp [dbRecords, h1, h2]
  · simp [dbRecords, h1, h2]
  · cases (src t).read <;> simp [dbRecords, h]
  · cases ss.lookup t <;> simp [dbRecords, h]

/-- "A profile created from a source profile contains, for every relation it copies, exactly the source
rows (all of them, or with a filter exactly those that satisfy it …) with no loss, duplication or
reordering, and every field value unchanged apart from columns added or dropped by a different target
schema and the documented default for empty fields."

For every relation of the new (non-skeleton) profile that is copied: reading it back gives the
selected rows `sel` one for one and in order (`List.map`), each cell `defaulted`; with a different
field list the record is first matched by column name (`remake`). What `sel` is: see
`selectRows_*` below. -/
theorem mkprofDb_copied_relation (now : Nat) (src dst d : Dir) (p : DbParams) (ss : Schema)
    (hs : src.schema = some ss) (hnd : (p.schema.getD ss).names.Nodup)
    (hrun : mkprofDb now src dst p = (d, none)) (hsk : p.skeleton = false)
    (t : Name) (oldF newF : List Field) (rows : List Rec)
    (ht : (t, newF) ∈ p.schema.getD ss)
    (hcopy : p.full = true ∨ t ∈ coreFiles)
    (hold : ss.lookup t = some oldF) (hread : (src.files t).read = some rows) :
    ∃ sel, selectRows p.sel t rows = .ok sel ∧ List.Sublist sel rows ∧
      (d.files t).read = some (sel.map (fun r =>
        List.zipWith defaulted newF (if oldF = newF then r else remake oldF newF r))) := by
  obtain ⟨_, recs, h1, _, h3⟩ := mkprofDb_relation now src dst d p ss hs hnd hrun t newF ht
  have hcopy' : p.full = true ∧ t ∈ (p.schema.getD ss).names ∨ p.full = false ∧ t ∈ coreFiles := by
    cases hfull : p.full with
    | true => exact Or.inl ⟨rfl, List.mem_map_of_mem (f := (·.1)) ht⟩
    | false =>
      rcases hcopy with h | h
      · simp [hfull] at h
      · exact Or.inr ⟨rfl, h⟩
  rw [dbRecords_copied ss src.files p _ t oldF newF rows hcopy' hold hread] at h1
  cases hsel : selectRows p.sel t rows with
  | error e => simp [hsel] at h1
  | ok sel =>
    simp only [hsel, Except.ok.injEq] at h1
    have hprop := L.read_proper hread
    have hsub : List.Sublist sel rows := by
      unfold selectRows at hsel
      split at hsel
      · cases hsel; exact List.Sublist.refl _
      · split at hsel
        · rename_i ks _
          cases hsel
          exact (filter_sublist rows ks).trans (L.kept_sublist rows ks)
        · cases hsel; exact List.Sublist.refl _
        · cases hsel
    refine ⟨sel, rfl, hsub, ?_⟩
    have hk : keeps (p.schema.getD ss) p.skeleton t = true := by rw [hsk]; exact L.keeps_plain ht
    rw [h3, hk, hsk, L.cleanupOne_keep, L.read_writeRel, ← h1]
    simp only [List.map_map, Option.some.injEq]
    apply List.map_congr_left
    intro r hr
    have hpr : ∀ c ∈ r, Proper c := hprop r (hsub.subset hr)
    simp only [Function.comp]
    by_cases hf : oldF = newF
    · simp only [hf, if_true]
      exact L.readRow_fmt newF r hpr
    · simp only [hf, if_false]
      exact L.readRow_fmt newF _ (L.remake_proper oldF newF r hpr)

/-- no filter: all rows. -/
theorem selectRows_no_filter (t : Name) (rows : List Rec) : selectRows none t rows = .ok rows := rfl

/-- a filter whose query cannot be evaluated (`TSQLError`, e.g. no key path to the relation): all rows. -/
theorem selectRows_fallback (s : Name → Sel) (t : Name) (rows : List Rec) (h : s t = .tsqlError) :
    selectRows (some s) t rows = .ok rows := by
  simp [selectRows, h]

/-- a filter: exactly the satisfying rows — under the forced F20 hypothesis. -/
theorem selectRows_filter_partial (s : Name → Sel) (t : Name) (rows : List Rec) (ks : List Nat)
    (h : s t = .counts ks) (hd : NoAdjDup (kept rows ks)) :
    selectRows (some s) t rows = .ok (kept rows ks) := by
  simp [selectRows, h, filter_exact_partial rows ks hd]

/-- a relation that is not copied is empty (and present) in a non-skeleton profile. -/
theorem mkprofDb_uncopied_relation (now : Nat) (src dst d : Dir) (p : DbParams) (ss : Schema)
    (hs : src.schema = some ss) (hnd : (p.schema.getD ss).names.Nodup)
    (hrun : mkprofDb now src dst p = (d, none)) (hsk : p.skeleton = false)
    (t : Name) (newF : List Field) (ht : (t, newF) ∈ p.schema.getD ss)
    (h : (p.full = false ∧ t ∉ coreFiles) ∨ ss.lookup t = none ∨ (src.files t).read = none) :
    (d.files t).read = some [] := by
  obtain ⟨_, recs, h1, _, h3⟩ := mkprofDb_relation now src dst d p ss hs hnd hrun t newF ht
  rw [dbRecords_not_copied ss src.files p _ t newF (Or.inr h)] at h1
  cases h1
  have hk : keeps (p.schema.getD ss) p.skeleton t = true := by rw [hsk]; exact L.keeps_plain ht
  rw [h3, hk, hsk, L.cleanupOne_keep, L.read_writeRel]
  rfl

/-! ## "A skeleton contains only the non-empty core relations, a full copy contains all relations" -/

/-- which files exist for a relation of the destination schema after a successful run: without
`skeleton` exactly one (compressed iff `gzip` and there are rows); with `skeleton` one iff the
relation is a core relation with rows. -/
theorem mkprofDb_files (now : Nat) (src dst d : Dir) (p : DbParams) (ss : Schema)
    (hs : src.schema = some ss) (hnd : (p.schema.getD ss).names.Nodup)
    (hrun : mkprofDb now src dst p = (d, none)) (t : Name) (newF : List Field)
    (ht : (t, newF) ∈ p.schema.getD ss) :
    ∃ recs, dbRecords ss src.files p (p.schema.getD ss) t newF = .ok recs ∧
      (p.skeleton = false →
        ((d.files t).gz.isSome = (p.gzip && !recs.isEmpty)) ∧
        ((d.files t).tx.isSome = !(p.gzip && !recs.isEmpty))) ∧
      (p.skeleton = true →
        (((d.files t).tx.isSome || (d.files t).gz.isSome) = (coreFiles.contains t && !recs.isEmpty))) := by
  obtain ⟨_, recs, h1, _, h3⟩ := mkprofDb_relation now src dst d p ss hs hnd hrun t newF ht
  refine ⟨recs, h1, ?_, ?_⟩
  · intro hsk
    have hk : keeps (p.schema.getD ss) p.skeleton t = true := by rw [hsk]; exact L.keeps_plain ht
    rw [h3, hk, hsk, L.cleanupOne_keep]
    unfold writeRel
    cases p.gzip <;> cases recs <;> simp
  · intro hsk
    have hk : keeps (p.schema.getD ss) p.skeleton t = coreFiles.contains t := by rw [hsk]; exact L.keeps_skeleton ht
    rw [h3, hk, hsk]
    unfold writeRel cleanupOne
    cases p.gzip <;> cases recs <;> cases coreFiles.contains t <;> simp

/-- relations of the source schema that the new schema drops have no file afterwards; names in
neither schema are not touched. -/
theorem mkprofDb_other_names (now : Nat) (src dst d : Dir) (p : DbParams) (ss : Schema)
    (hs : src.schema = some ss) (hnd : (p.schema.getD ss).names.Nodup)
    (hrun : mkprofDb now src dst p = (d, none)) (n : Name) (hn : n ∉ (p.schema.getD ss).names) :
    (n ∈ ss.names → d.files n = {}) ∧ (n ∉ ss.names → d.files n = dst.files n) := by
  unfold mkprofDb at hrun
  simp only [hs] at hrun
  generalize hw : writeLoop now p.gzip (fun _ => dbRecords ss src.files p (p.schema.getD ss)) dst.files
    (p.schema.getD ss) = w at hrun
  obtain ⟨fs, e⟩ := w
  cases e with
  | some e => simp at hrun
  | none =>
    simp only [Prod.mk.injEq, and_true] at hrun
    subst hrun
    have hl := L.writeLoop_ok now p.gzip (fun _ => dbRecords ss src.files p (p.schema.getD ss))
      (fun _ _ _ _ _ => rfl) _ _ _ hnd hw
    have hc : (p.schema.getD ss).names.contains n = false := by simpa using hn
    constructor
    · intro h
      have : ss.names.contains n = true := by simpa using h
      simp only [cleanup, hc, this, Bool.false_or, if_true, keeps, Bool.false_and]
      cases (fs n) with
      | mk tx gz => cases tx <;> cases gz <;> simp [cleanupOne]
    · intro h
      have : ss.names.contains n = false := by simpa using h
      simp only [cleanup, hc, this, Bool.or_self, Bool.false_eq_true, if_false]
      exact hl.1 n hn

/-- a well-formed source never makes `mkprof` fail: every relation has at least one field, the
stored rows have the width of their relation, and the filter does not raise. -/
theorem mkprofDb_total (now : Nat) (src dst : Dir) (p : DbParams) (ss : Schema)
    (hs : src.schema = some ss)
    (hf : ∀ t f, (t, f) ∈ p.schema.getD ss → f ≠ [])
    (hw : ∀ t f rows, (t, f) ∈ ss → (src.files t).read = some rows → ∀ r ∈ rows, r.length = f.length)
    (hsel : ∀ s t e, p.sel = some s → s t ≠ .raise e) :
    (mkprofDb now src dst p).2 = none := by
  unfold mkprofDb
  simp only [hs]
  have hloop : (writeLoop now p.gzip (fun _ => dbRecords ss src.files p (p.schema.getD ss)) dst.files
      (p.schema.getD ss)).2 = none := by
    apply L.writeLoop_total
    intro t newF ht
    refine ⟨hf t newF ht, fun _ => ?_⟩
    by_cases hc' : ¬ ((if p.full then (p.schema.getD ss).names else coreFiles).contains t = true)
    · refine ⟨[], dbRecords_not_copied ss src.files p _ t newF ?_, by simp⟩
      cases hfull : p.full with
      | true => left; exact ⟨rfl, by simpa [hfull] using hc'⟩
      | false => right; left; exact ⟨rfl, by simpa [hfull] using hc'⟩
    have hc := Decidable.not_not.mp hc'
    cases hold : ss.lookup t with
    | none => exact ⟨[], dbRecords_not_copied ss src.files p _ t newF (Or.inr (Or.inr (Or.inl hold))), by simp⟩
    | some oldF =>
      cases hread : (src.files t).read with
      | none =>
        exact ⟨[], dbRecords_not_copied ss src.files p _ t newF (Or.inr (Or.inr (Or.inr hread))), by simp⟩
      | some rows =>
        have hcopy : p.full = true ∧ t ∈ (p.schema.getD ss).names ∨ p.full = false ∧ t ∈ coreFiles := by
          cases hfull : p.full with
          | true => left; simpa [hfull] using hc
          | false => right; simpa [hfull] using hc
        rw [dbRecords_copied ss src.files p _ t oldF newF rows hcopy hold hread]
        have hmem : (t, oldF) ∈ ss := by
          obtain ⟨l1, l2, h, _⟩ := List.lookup_eq_some_iff.mp hold
          rw [h]; simp
        have hwid := hw t oldF rows hmem hread
        have hselok : ∃ sel, selectRows p.sel t rows = .ok sel ∧ ∀ r ∈ sel, r ∈ rows := by
          unfold selectRows
          split
          · exact ⟨rows, rfl, fun _ h => h⟩
          · rename_i s hs'
            split
            · rename_i ks _
              exact ⟨_, rfl, fun r hr =>
                ((filter_sublist rows ks).trans (L.kept_sublist rows ks)).subset hr⟩
            · exact ⟨rows, rfl, fun _ h => h⟩
            · rename_i e he
              exact absurd he (hsel s t e hs')
        obtain ⟨sel, h1, h2⟩ := hselok
        simp only [h1]
        refine ⟨_, rfl, ?_⟩
        intro r hr
        simp only [List.mem_map] at hr
        obtain ⟨r0, hr0, rfl⟩ := hr
        by_cases e : oldF = newF
        · simp only [e, if_true]
          rw [← e]
          exact hwid r0 (h2 r0 hr0)
        · simp only [e, if_false]
          exact L.remake_length oldF newF r0
  generalize writeLoop now p.gzip (fun _ => dbRecords ss src.files p (p.schema.getD ss)) dst.files
      (p.schema.getD ss) = w at hloop
  obtain ⟨fs, e⟩ := w
  simp only at hloop
  subst hloop
  rfl

/-! ## "refreshing in place (optionally changing compression or schema) preserves all data" -/

/-- after a successful in-place refresh (any `gzip`, with or without a new schema) every relation of
the (non-skeleton) profile that was declared before reads back as its previous rows, one for one and
in order, cells `defaulted`; with `schema=` given records are matched to the new fields by name.
A relation that is new in the schema, or had no file, is empty. -/
theorem refresh_preserves_rows (now : Nat) (dst d : Dir) (schema : Option Schema) (gzip : Bool)
    (old : Schema) (hs : dst.schema = some old) (hnd : (schema.getD old).names.Nodup)
    (hrun : mkprofRefresh now dst schema gzip false = (d, none))
    (t : Name) (newF : List Field) (ht : (t, newF) ∈ schema.getD old) :
    (d.files t).read = some
      (match old.lookup t with
       | none => []
       | some oldF => (((dst.files t).read).getD []).map (fun r =>
           List.zipWith defaulted newF (if schema.isSome then remake oldF newF r else r))) := by
  unfold mkprofRefresh at hrun
  simp only [hs] at hrun
  generalize hw : writeLoop now gzip (refreshRecords old schema.isSome) dst.files (schema.getD old) = w at hrun
  obtain ⟨fs, e⟩ := w
  cases e with
  | some e => simp at hrun
  | none =>
    simp only [Prod.mk.injEq, and_true] at hrun
    subst hrun
    have hl := L.writeLoop_ok now gzip (refreshRecords old schema.isSome)
      (L.refreshRecords_local old schema.isSome) _ _ _ hnd hw
    obtain ⟨recs, rows, h1, h2, h3⟩ := hl.2 t newF ht
    have hst := L.stage_ok h2
    have hmem : (schema.getD old).names.contains t = true := L.contains_names ht
    have hk : keeps (schema.getD old) false t = true := L.keeps_plain ht
    simp only [cleanup, hmem, Bool.true_or, if_true, h3, hk, L.cleanupOne_keep, L.read_writeRel, hst.1]
    unfold refreshRecords at h1
    cases hold : old.lookup t with
    | none =>
      simp only [hold] at h1
      cases h1
      rfl
    | some oldF =>
      simp only [hold, Except.ok.injEq] at h1
      subst h1
      have hprop : ∀ row ∈ ((dst.files t).read).getD [], ∀ c ∈ row, Proper c := by
        cases hr : (dst.files t).read with
        | none => simp
        | some rows0 => simpa using L.read_proper hr
      simp only [Option.some.injEq]
      cases schema.isSome with
      | true =>
        simp only [if_true, List.map_map]
        apply List.map_congr_left
        intro r hr
        exact L.readRow_fmt newF _ (L.remake_proper oldF newF r (hprop r hr))
      | false =>
        simp only [Bool.false_eq_true, if_false, List.map_map]
        apply List.map_congr_left
        intro r hr
        exact L.readRow_fmt newF r (hprop r hr)

/-- the default is applied once: refreshing an already refreshed cell changes nothing. -/
theorem defaulted_idem (f : Field) (c : Cell) : defaulted f (defaulted f c) = defaulted f c := by
  cases c with
  | some t => rfl
  | none =>
    simp only [defaulted]
    cases h : readCell f.default with
    | none => simp
    | some t => rfl

/-! ## "every field value unchanged apart from columns added or dropped by a different target schema" -/

/-- matching by name (source field names unique, record of the relation's width): a target field
named like the `i`-th source column holds exactly that column's value, wherever it now stands. -/
theorem remake_same_name (oldF newF : List Field) (r : Rec) (hnd : (oldF.map (·.name)).Nodup)
    (hw : r.length = oldF.length) (j : Nat) (hj : j < newF.length) (i : Nat) (hi : i < oldF.length)
    (hname : newF[j].name = oldF[i].name) :
    (remake oldF newF r)[j]'(by simp [remake, hj]) = r[i]'(by omega) := by
  have h := L.lookupLast_zip_nodup (oldF.map (·.name)) r hnd i (by simpa using hi) (by omega)
  simp only [List.getElem_map] at h
  simp [remake, hname, h]

/-- a target column the source relation does not have is empty (and is then written as its default);
a source column the target does not have is dropped (`remake` has exactly the target's width). -/
theorem remake_new_column (oldF newF : List Field) (r : Rec) (j : Nat) (hj : j < newF.length)
    (h : newF[j].name ∉ oldF.map (·.name)) :
    (remake oldF newF r)[j]'(by simp [remake, hj]) = none ∧ (remake oldF newF r).length = newF.length := by
  simp [remake, L.lookupLast_zip_not_mem _ r _ h]

/-! ## "a profile created from sentence lines has one item per line with identifiers,
well-formedness marks and lengths as documented" -/

/-- `i-wf` is 0 exactly for a line starting with `*`, and the `*` is removed from `i-input`. -/
theorem plain_split_star (rest : Text) : Splitter.plain.split ('*' :: rest) = .ok [.int 0, .str rest] := rfl

theorem plain_split_nostar (line : Text) (h : line.head? ≠ some '*') :
    Splitter.plain.split line = .ok [.int 1, .str line] := by
  cases line with
  | nil => rfl
  | cons c cs =>
    have hc : c ≠ '*' := by intro e; apply h; simp [e]
    simp only [Splitter.split]
    split
    · rename_i heq
      simp only [List.cons.injEq] at heq
      exact absurd heq.1 hc
    · rfl

/-- one item per data line: a successful run leaves in `item` as many rows as there are input lines
(minus the header line for delimited input), whatever the delimiter and the flags. -/
theorem lines_one_item_per_line (now : Nat) (dst d : Dir) (sch : Schema) (delim : Option Text)
    (lines : List Text) (gzip : Bool) (fields : List Field) (hitem : ("item", fields) ∈ sch)
    (hnd : sch.names.Nodup)
    (hrun : mkprofLines now dst (some sch) delim lines gzip false = (d, none)) :
    ∃ rows, (d.files "item").read = some rows ∧
      rows.length = (match Splitter.ofDelim delim with
                     | .plain => lines.length
                     | _ => lines.length - 1) := by
  have hlk : sch.lookup "item" = some fields := L.lookup_of_mem sch "item" fields hnd hitem
  unfold mkprofLines at hrun
  cases sch with
  | nil => simp at hitem
  | cons s0 srest =>
    simp only at hrun
    generalize Splitter.ofDelim delim = sp at hrun ⊢
    cases hms : makeSplit sp lines with
    | error e => simp [hms] at hrun
    | ok cr =>
      obtain ⟨colnames, rest⟩ := cr
      simp only [hms, hlk] at hrun
      split at hrun
      · simp at hrun
      · cases hll : linesLoop fields colnames sp 1 [] rest with
        | error e => simp [hll] at hrun
        | ok recs =>
          simp only [hll, Prod.mk.injEq, and_true] at hrun
          subst hrun
          have hlen := L.linesLoop_length fields colnames _ rest 1 [] recs hll
          refine ⟨(recs.map (encodeL fields)).map readRow, ?_, ?_⟩
          · simp only [cleanup, L.contains_names hitem, Bool.true_or, if_true, L.keeps_plain hitem,
              L.cleanupOne_keep, Files.set, L.read_writeRel]
          · simp only [List.length_map, hlen]
            cases sp with
            | plain =>
              simp only [makeSplit, Except.ok.injEq, Prod.mk.injEq] at hms
              rw [← hms.2]
            | tsdb =>
              cases lines with
              | nil => simp [makeSplit] at hms
              | cons h t =>
                simp only [makeSplit] at hms
                split at hms
                · cases hms
                · simp only [Except.ok.injEq, Prod.mk.injEq] at hms
                  simp [← hms.2]
            | sep dd =>
              cases lines with
              | nil => simp [makeSplit] at hms
              | cons h t =>
                simp only [makeSplit] at hms
                split at hms
                · cases hms
                · simp only [Except.ok.injEq, Prod.mk.injEq] at hms
                  simp [← hms.2]

end Verif.C12
