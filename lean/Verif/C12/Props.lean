/-
C12 — property theorems: "Profiles made by mkprof contain exactly the selected source rows".
Statements are over the model of `Model.lean` for ALL profiles, schemas, filters outcomes and flag
combinations.  `kept`, `NoAdjDup`, `defaulted`, `Proper` are defined in `Lemmas.lean`.
-/
import Verif.C12.Lemmas

namespace Verif.C12
open Verif.Tables

/-! ## "with a filter exactly those that satisfy it through the relation's key links,
with no loss, duplication or reordering"

`expand rows ks` is the select output (row `i` once per satisfying joined tuple, `ks[i]` of them),
`kept rows ks` the rows with at least one. -/

/-- one-to-many links never duplicate a row: the multiplicities of the join disappear entirely. -/
theorem filter_collapses_multiplicity (rows : List Rec) (ks : List Nat) :
    tsqlDistinct (expand rows ks) = tsqlDistinct (kept rows ks) :=
  L.distinctAux_expand none rows ks

/-- `_tsql_distinct` is the identity exactly on lists in which no row equals its predecessor. -/
theorem distinct_exact_iff (xs : List Rec) : tsqlDistinct xs = xs ↔ NoAdjDup xs := by
  unfold tsqlDistinct
  rw [L.distinctAux_eq_self_iff]
  constructor
  · exact fun h => h.2
  · intro h
    refine ⟨?_, h⟩
    cases xs <;> simp

-- FULL STATEMENT (not proved; false for the code, finding F20):
--   ∀ rows ks, tsqlDistinct (expand rows ks) = kept rows ks
/-- the filtered relation is exactly the satisfying source rows, in order, each once — provided no
two identical rows are adjacent among the satisfying rows (forced hypothesis, F20). -/
theorem filter_exact_partial (rows : List Rec) (ks : List Nat) (h : NoAdjDup (kept rows ks)) :
    tsqlDistinct (expand rows ks) = kept rows ks := by
  rw [filter_collapses_multiplicity]
  exact (distinct_exact_iff _).2 h

/-- … and the hypothesis is necessary: whenever two identical satisfying rows are adjacent the result
differs from the satisfying rows. -/
theorem filter_inexact_of_adjacent_duplicates (rows : List Rec) (ks : List Nat)
    (h : ¬ NoAdjDup (kept rows ks)) : tsqlDistinct (expand rows ks) ≠ kept rows ks := by
  rw [filter_collapses_multiplicity]
  exact fun e => h ((distinct_exact_iff _).1 e)

/-- in particular for a source relation without repeated rows. -/
theorem filter_exact_of_nodup (rows : List Rec) (ks : List Nat) (h : rows.Nodup) :
    tsqlDistinct (expand rows ks) = kept rows ks :=
  filter_exact_partial rows ks (L.noAdjDup_of_nodup _ ((L.kept_sublist rows ks).nodup h))

/-- even with duplicates nothing is invented, repeated or reordered: the result is a subsequence of
the satisfying rows. -/
theorem filter_sublist (rows : List Rec) (ks : List Nat) :
    List.Sublist (tsqlDistinct (expand rows ks)) (kept rows ks) := by
  rw [filter_collapses_multiplicity]
  exact L.distinctAux_sublist _ _

/-- counter-example (F20): two identical adjacent rows, both satisfying the filter, are written once. -/
theorem filter_full_statement_fails :
    tsqlDistinct (expand [[some ['a']], [some ['a']]] [1, 1]) ≠ kept [[some ['a']], [some ['a']]] [1, 1] := by
  decide

/-- counter-example (F20): identical rows separated only by a rejected row are merged too. -/
theorem filter_full_statement_fails_nonadjacent :
    tsqlDistinct (expand [[some ['a']], [some ['b']], [some ['a']]] [2, 0, 1]) = [[some ['a']]] := by
  decide

/-! ## the main clause, relation by relation -/

/-- operational core: after a successful `mkprof(dest, source=<profile>)`, the relation `t` of the
destination schema is one `tsdb.write` of the records `_mkprof_from_database` computed for it (all of
the right width), followed by the clean-up tests. -/
theorem mkprofDb_relation (now : Nat) (src dst d : Dir) (p : DbParams) (ss : Schema)
    (hs : src.schema = some ss) (hnd : (p.schema.getD ss).names.Nodup)
    (hrun : mkprofDb now src dst p = (d, none)) (t : Name) (newF : List Field)
    (ht : (t, newF) ∈ p.schema.getD ss) :
    d.schema = some (p.schema.getD ss) ∧
    ∃ recs, dbRecords ss src.files p (p.schema.getD ss) t newF = .ok recs ∧
      (∀ r ∈ recs, r.length = newF.length) ∧
      d.files t = cleanupOne (keeps (p.schema.getD ss) p.skeleton t) p.skeleton
                    (writeRel now p.gzip (recs.map (List.zipWith fmtCell newF))) := by
  unfold mkprofDb at hrun
  simp only [hs] at hrun
  generalize hw : writeLoop now p.gzip (fun _ => dbRecords ss src.files p (p.schema.getD ss)) dst.files
    (p.schema.getD ss) = w at hrun
  obtain ⟨fs, e⟩ := w
  cases e with
  | some e => simp at hrun
  | none =>
    simp only [Prod.mk.injEq, and_true] at hrun
    subst hrun
    have hl := L.writeLoop_ok now p.gzip (fun _ => dbRecords ss src.files p (p.schema.getD ss))
      (fun _ _ _ _ _ => rfl) _ _ _ hnd hw
    obtain ⟨recs, rows, h1, h2, h3⟩ := hl.2 t newF ht
    have hst := L.stage_ok h2
    refine ⟨rfl, recs, h1, hst.2, ?_⟩
    have hmem : (p.schema.getD ss).names.contains t = true := L.contains_names ht
    simp only [cleanup, hmem, Bool.true_or, if_true, h3, hst.1]

/-- the rows a copied relation is made of: what the filter selects (all rows without a filter or when
the query cannot be evaluated), each matched to the new fields by column name when they differ. -/
theorem dbRecords_copied (ss : Schema) (src : Files) (p : DbParams) (target : Schema) (t : Name)
    (oldF newF : List Field) (rows : List Rec)
    (hcopy : p.full = true ∧ t ∈ target.names ∨ p.full = false ∧ t ∈ coreFiles)
    (hold : ss.lookup t = some oldF) (hread : (src t).read = some rows) :
    dbRecords ss src p target t newF =
      (match selectRows p.sel t rows with
       | .error e => .error e
       | .ok sel => .ok (sel.map (fun r => if oldF = newF then r else remake oldF newF r))) := by
  unfold dbRecords
  have hc : (if p.full then target.names else coreFiles).contains t = true := by
    rcases hcopy with ⟨h1, h2⟩ | ⟨h1, h2⟩ <;> simp [h1, h2]
  simp only [hc, Bool.not_true, Bool.false_eq_true, if_false, hold, hread]
  cases selectRows p.sel t rows with
  | error e => rfl
  | ok sel =>
    by_cases hf : oldF = newF
    · simp [hf]
    · cases sel with
      | nil => simp
      | cons a as => simp [hf]

/-- a relation that is not selected for copying, is not declared in the source, or has no file
there, is empty in the new profile. -/
theorem dbRecords_not_copied (ss : Schema) (src : Files) (p : DbParams) (target : Schema) (t : Name)
    (newF : List Field)
    (h : (p.full = true ∧ t ∉ target.names) ∨ (p.full = false ∧ t ∉ coreFiles) ∨ ss.lookup t = none ∨
         (src t).read = none) :
    dbRecords ss src p target t newF = .ok [] := by
  rcases h with ⟨h1, h2⟩ | ⟨h1, h2⟩ | h | h
  · simp [dbRecords, h1, h2]
  · simp [dbRecords, h1, h2]
  · cases (src t).read <;> simp [dbRecords, h]
  · cases ss.lookup t <;> simp [dbRecords, h]

/-- "A profile created from a source profile contains, for every relation it copies, exactly the source
rows (all of them, or with a filter exactly those that satisfy it …) with no loss, duplication or
reordering, and every field value unchanged apart from columns added or dropped by a different target
schema and the documented default for empty fields."

For every relation of the new (non-skeleton) profile that is copied: reading it back gives the
selected rows `sel` one for one and in order (`List.map`), each cell `defaulted`; with a different
field list the record is first matched by column name (`remake`). What `sel` is: see
`selectRows_*` below. -/
theorem mkprofDb_copied_relation (now : Nat) (src dst d : Dir) (p : DbParams) (ss : Schema)
    (hs : src.schema = some ss) (hnd : (p.schema.getD ss).names.Nodup)
    (hrun : mkprofDb now src dst p = (d, none)) (hsk : p.skeleton = false)
    (t : Name) (oldF newF : List Field) (rows : List Rec)
    (ht : (t, newF) ∈ p.schema.getD ss)
    (hcopy : p.full = true ∨ t ∈ coreFiles)
    (hold : ss.lookup t = some oldF) (hread : (src.files t).read = some rows) :
    ∃ sel, selectRows p.sel t rows = .ok sel ∧ List.Sublist sel rows ∧
      (d.files t).read = some (sel.map (fun r =>
        List.zipWith defaulted newF (if oldF = newF then r else remake oldF newF r))) := by
  obtain ⟨_, recs, h1, _, h3⟩ := mkprofDb_relation now src dst d p ss hs hnd hrun t newF ht
  have hcopy' : p.full = true ∧ t ∈ (p.schema.getD ss).names ∨ p.full = false ∧ t ∈ coreFiles := by
    cases hfull : p.full with
    | true => exact Or.inl ⟨rfl, List.mem_map_of_mem (f := (·.1)) ht⟩
    | false =>
      rcases hcopy with h | h
      · simp [hfull] at h
      · exact Or.inr ⟨rfl, h⟩
  rw [dbRecords_copied ss src.files p _ t oldF newF rows hcopy' hold hread] at h1
  cases hsel : selectRows p.sel t rows with
  | error e => simp [hsel] at h1
  | ok sel =>
    simp only [hsel, Except.ok.injEq] at h1
    have hprop := L.read_proper hread
    have hsub : List.Sublist sel rows := by
      unfold selectRows at hsel
      split at hsel
      · cases hsel; exact List.Sublist.refl _
      · split at hsel
        · rename_i ks _
          cases hsel
          exact (filter_sublist rows ks).trans (L.kept_sublist rows ks)
        · cases hsel; exact List.Sublist.refl _
        · cases hsel
    refine ⟨sel, rfl, hsub, ?_⟩
    have hk : keeps (p.schema.getD ss) p.skeleton t = true := by rw [hsk]; exact L.keeps_plain ht
    rw [h3, hk, hsk, L.cleanupOne_keep, L.read_writeRel, ← h1]
    simp only [List.map_map, Option.some.injEq]
    apply List.map_congr_left
    intro r hr
    have hpr : ∀ c ∈ r, Proper c := hprop r (hsub.subset hr)
    simp only [Function.comp]
    by_cases hf : oldF = newF
    · simp only [hf, if_true]
      exact L.readRow_fmt newF r hpr
    · simp only [hf, if_false]
      exact L.readRow_fmt newF _ (L.remake_proper oldF newF r hpr)

/-- the same for a SKELETON (`skeleton=True`): "a skeleton contains only the non-empty core relations" —
a copied relation is kept, with exactly the same rows, iff it is a core relation and at least one row
was selected; otherwise it has no file at all. -/
theorem mkprofDb_copied_relation_skeleton (now : Nat) (src dst d : Dir) (p : DbParams) (ss : Schema)
    (hs : src.schema = some ss) (hnd : (p.schema.getD ss).names.Nodup)
    (hrun : mkprofDb now src dst p = (d, none)) (hsk : p.skeleton = true)
    (t : Name) (oldF newF : List Field) (rows : List Rec)
    (ht : (t, newF) ∈ p.schema.getD ss)
    (hcopy : p.full = true ∨ t ∈ coreFiles)
    (hold : ss.lookup t = some oldF) (hread : (src.files t).read = some rows) :
    ∃ sel, selectRows p.sel t rows = .ok sel ∧ List.Sublist sel rows ∧
      (coreFiles.contains t = true → sel ≠ [] →
        (d.files t).read = some (sel.map (fun r =>
          List.zipWith defaulted newF (if oldF = newF then r else remake oldF newF r)))) ∧
      ((coreFiles.contains t = false ∨ sel = []) → d.files t = {}) := by
  obtain ⟨_, recs, h1, _, h3⟩ := mkprofDb_relation now src dst d p ss hs hnd hrun t newF ht
  have hcopy' : p.full = true ∧ t ∈ (p.schema.getD ss).names ∨ p.full = false ∧ t ∈ coreFiles := by
    cases hfull : p.full with
    | true => exact Or.inl ⟨rfl, L.mem_names ht⟩
    | false =>
      rcases hcopy with h | h
      · simp [hfull] at h
      · exact Or.inr ⟨rfl, h⟩
  rw [dbRecords_copied ss src.files p _ t oldF newF rows hcopy' hold hread] at h1
  cases hsel : selectRows p.sel t rows with
  | error e => simp [hsel] at h1
  | ok sel =>
    simp only [hsel, Except.ok.injEq] at h1
    have hprop := L.read_proper hread
    have hsub : List.Sublist sel rows := by
      unfold selectRows at hsel
      split at hsel
      · cases hsel; exact List.Sublist.refl _
      · split at hsel
        · rename_i ks _
          cases hsel
          exact (filter_sublist rows ks).trans (L.kept_sublist rows ks)
        · cases hsel; exact List.Sublist.refl _
        · cases hsel
    refine ⟨sel, rfl, hsub, ?_, ?_⟩
    · intro hcore hne
      have hrne : (recs.map (List.zipWith fmtCell newF)).isEmpty = false := by
        rw [← h1]
        cases sel with
        | nil => exact absurd rfl hne
        | cons a as => simp
      rw [h3, hsk, L.keeps_skeleton ht, hcore, L.cleanupOne_skeleton_keep _ _ _ hrne, L.read_writeRel, ← h1]
      simp only [List.map_map, Option.some.injEq]
      apply List.map_congr_left
      intro r hr
      have hpr : ∀ c ∈ r, Proper c := hprop r (hsub.subset hr)
      simp only [Function.comp]
      by_cases hf : oldF = newF
      · simp only [hf, if_true]
        exact L.readRow_fmt newF r hpr
      · simp only [hf, if_false]
        exact L.readRow_fmt newF _ (L.remake_proper oldF newF r hpr)
    · intro hno
      rw [h3, hsk, L.keeps_skeleton ht]
      apply L.cleanupOne_skeleton_drop
      rcases hno with hc | he
      · exact Or.inl hc
      · right; rw [← h1, he]; rfl

/-- no filter: all rows. -/
theorem selectRows_no_filter (t : Name) (rows : List Rec) : selectRows none t rows = .ok rows := rfl

/-- a filter whose query cannot be evaluated (`TSQLError`, e.g. no key path to the relation): all rows. -/
theorem selectRows_fallback (s : Name → Sel) (t : Name) (rows : List Rec) (h : s t = .tsqlError) :
    selectRows (some s) t rows = .ok rows := by
  simp [selectRows, h]

/-- a filter: exactly the satisfying rows — under the forced F20 hypothesis. -/
theorem selectRows_filter_partial (s : Name → Sel) (t : Name) (rows : List Rec) (ks : List Nat)
    (h : s t = .counts ks) (hd : NoAdjDup (kept rows ks)) :
    selectRows (some s) t rows = .ok (kept rows ks) := by
  simp [selectRows, h, filter_exact_partial rows ks hd]

/-- a relation that is not copied is empty (and present) in a non-skeleton profile. -/
theorem mkprofDb_uncopied_relation (now : Nat) (src dst d : Dir) (p : DbParams) (ss : Schema)
    (hs : src.schema = some ss) (hnd : (p.schema.getD ss).names.Nodup)
    (hrun : mkprofDb now src dst p = (d, none)) (hsk : p.skeleton = false)
    (t : Name) (newF : List Field) (ht : (t, newF) ∈ p.schema.getD ss)
    (h : (p.full = false ∧ t ∉ coreFiles) ∨ ss.lookup t = none ∨ (src.files t).read = none) :
    (d.files t).read = some [] := by
  obtain ⟨_, recs, h1, _, h3⟩ := mkprofDb_relation now src dst d p ss hs hnd hrun t newF ht
  rw [dbRecords_not_copied ss src.files p _ t newF (Or.inr h)] at h1
  cases h1
  have hk : keeps (p.schema.getD ss) p.skeleton t = true := by rw [hsk]; exact L.keeps_plain ht
  rw [h3, hk, hsk, L.cleanupOne_keep, L.read_writeRel]
  rfl

/-! ## "A skeleton contains only the non-empty core relations, a full copy contains all relations" -/

/-- which files exist for a relation of the destination schema after a successful run: without
`skeleton` exactly one (compressed iff `gzip` and there are rows); with `skeleton` one iff the
relation is a core relation with rows. -/
theorem mkprofDb_files (now : Nat) (src dst d : Dir) (p : DbParams) (ss : Schema)
    (hs : src.schema = some ss) (hnd : (p.schema.getD ss).names.Nodup)
    (hrun : mkprofDb now src dst p = (d, none)) (t : Name) (newF : List Field)
    (ht : (t, newF) ∈ p.schema.getD ss) :
    ∃ recs, dbRecords ss src.files p (p.schema.getD ss) t newF = .ok recs ∧
      (p.skeleton = false →
        ((d.files t).gz.isSome = (p.gzip && !recs.isEmpty)) ∧
        ((d.files t).tx.isSome = !(p.gzip && !recs.isEmpty))) ∧
      (p.skeleton = true →
        (((d.files t).tx.isSome || (d.files t).gz.isSome) = (coreFiles.contains t && !recs.isEmpty))) := by
  obtain ⟨_, recs, h1, _, h3⟩ := mkprofDb_relation now src dst d p ss hs hnd hrun t newF ht
  refine ⟨recs, h1, ?_, ?_⟩
  · intro hsk
    have hk : keeps (p.schema.getD ss) p.skeleton t = true := by rw [hsk]; exact L.keeps_plain ht
    rw [h3, hk, hsk, L.cleanupOne_keep]
    unfold writeRel
    cases p.gzip <;> cases recs <;> simp
  · intro hsk
    have hk : keeps (p.schema.getD ss) p.skeleton t = coreFiles.contains t := by rw [hsk]; exact L.keeps_skeleton ht
    rw [h3, hk, hsk]
    unfold writeRel cleanupOne
    cases p.gzip <;> cases recs <;> cases coreFiles.contains t <;> simp

/-- relations of the source schema that the new schema drops have no file afterwards; names in
neither schema are not touched. -/
theorem mkprofDb_other_names (now : Nat) (src dst d : Dir) (p : DbParams) (ss : Schema)
    (hs : src.schema = some ss) (hnd : (p.schema.getD ss).names.Nodup)
    (hrun : mkprofDb now src dst p = (d, none)) (n : Name) (hn : n ∉ (p.schema.getD ss).names) :
    (n ∈ ss.names → d.files n = {}) ∧ (n ∉ ss.names → d.files n = dst.files n) := by
  unfold mkprofDb at hrun
  simp only [hs] at hrun
  generalize hw : writeLoop now p.gzip (fun _ => dbRecords ss src.files p (p.schema.getD ss)) dst.files
    (p.schema.getD ss) = w at hrun
  obtain ⟨fs, e⟩ := w
  cases e with
  | some e => simp at hrun
  | none =>
    simp only [Prod.mk.injEq, and_true] at hrun
    subst hrun
    have hl := L.writeLoop_ok now p.gzip (fun _ => dbRecords ss src.files p (p.schema.getD ss))
      (fun _ _ _ _ _ => rfl) _ _ _ hnd hw
    have hc : (p.schema.getD ss).names.contains n = false := by simpa using hn
    constructor
    · intro h
      have : ss.names.contains n = true := by simpa using h
      simp only [cleanup, hc, this, Bool.false_or, if_true, keeps, Bool.false_and]
      cases (fs n) with
      | mk tx gz => cases tx <;> cases gz <;> simp [cleanupOne]
    · intro h
      have : ss.names.contains n = false := by simpa using h
      simp only [cleanup, hc, this, Bool.or_self, Bool.false_eq_true, if_false]
      exact hl.1 n hn

/-- a well-formed source never makes `mkprof` fail: every relation has at least one field, the
stored rows have the width of their relation, and the filter does not raise. -/
theorem mkprofDb_total (now : Nat) (src dst : Dir) (p : DbParams) (ss : Schema)
    (hs : src.schema = some ss)
    (hf : ∀ t f, (t, f) ∈ p.schema.getD ss → f ≠ [])
    (hw : ∀ t f rows, (t, f) ∈ ss → (src.files t).read = some rows → ∀ r ∈ rows, r.length = f.length)
    (hsel : ∀ s t e, p.sel = some s → s t ≠ .raise e) :
    (mkprofDb now src dst p).2 = none := by
  unfold mkprofDb
  simp only [hs]
  have hloop : (writeLoop now p.gzip (fun _ => dbRecords ss src.files p (p.schema.getD ss)) dst.files
      (p.schema.getD ss)).2 = none := by
    apply L.writeLoop_total
    intro t newF ht
    refine ⟨hf t newF ht, fun _ => ?_⟩
    by_cases hc' : ¬ ((if p.full then (p.schema.getD ss).names else coreFiles).contains t = true)
    · refine ⟨[], dbRecords_not_copied ss src.files p _ t newF ?_, by simp⟩
      cases hfull : p.full with
      | true => left; exact ⟨rfl, by simpa [hfull] using hc'⟩
      | false => right; left; exact ⟨rfl, by simpa [hfull] using hc'⟩
    have hc := Decidable.not_not.mp hc'
    cases hold : ss.lookup t with
    | none => exact ⟨[], dbRecords_not_copied ss src.files p _ t newF (Or.inr (Or.inr (Or.inl hold))), by simp⟩
    | some oldF =>
      cases hread : (src.files t).read with
      | none =>
        exact ⟨[], dbRecords_not_copied ss src.files p _ t newF (Or.inr (Or.inr (Or.inr hread))), by simp⟩
      | some rows =>
        have hcopy : p.full = true ∧ t ∈ (p.schema.getD ss).names ∨ p.full = false ∧ t ∈ coreFiles := by
          cases hfull : p.full with
          | true => left; simpa [hfull] using hc
          | false => right; simpa [hfull] using hc
        rw [dbRecords_copied ss src.files p _ t oldF newF rows hcopy hold hread]
        have hmem : (t, oldF) ∈ ss := by
          obtain ⟨l1, l2, h, _⟩ := List.lookup_eq_some_iff.mp hold
          rw [h]; simp
        have hwid := hw t oldF rows hmem hread
        have hselok : ∃ sel, selectRows p.sel t rows = .ok sel ∧ ∀ r ∈ sel, r ∈ rows := by
          unfold selectRows
          split
          · exact ⟨rows, rfl, fun _ h => h⟩
          · rename_i s hs'
            split
            · rename_i ks _
              exact ⟨_, rfl, fun r hr =>
                ((filter_sublist rows ks).trans (L.kept_sublist rows ks)).subset hr⟩
            · exact ⟨rows, rfl, fun _ h => h⟩
            · rename_i e he
              exact absurd he (hsel s t e hs')
        obtain ⟨sel, h1, h2⟩ := hselok
        simp only [h1]
        refine ⟨_, rfl, ?_⟩
        intro r hr
        simp only [List.mem_map] at hr
        obtain ⟨r0, hr0, rfl⟩ := hr
        by_cases e : oldF = newF
        · simp only [e, if_true]
          rw [← e]
          exact hwid r0 (h2 r0 hr0)
        · simp only [e, if_false]
          exact L.remake_length oldF newF r0
  generalize writeLoop now p.gzip (fun _ => dbRecords ss src.files p (p.schema.getD ss)) dst.files
      (p.schema.getD ss) = w at hloop
  obtain ⟨fs, e⟩ := w
  simp only at hloop
  subst hloop
  rfl

/-! ## "refreshing in place (optionally changing compression or schema) preserves all data" -/

/-- after a successful in-place refresh (any `gzip`, with or without a new schema) every relation of
the (non-skeleton) profile that was declared before reads back as its previous rows, one for one and
in order, cells `defaulted`; with `schema=` given records are matched to the new fields by name.
A relation that is new in the schema, or had no file, is empty. -/
theorem refresh_preserves_rows (now : Nat) (dst d : Dir) (schema : Option Schema) (gzip : Bool)
    (old : Schema) (hs : dst.schema = some old) (hnd : (schema.getD old).names.Nodup)
    (hrun : mkprofRefresh now dst schema gzip false = (d, none))
    (t : Name) (newF : List Field) (ht : (t, newF) ∈ schema.getD old) :
    (d.files t).read = some
      (match old.lookup t with
       | none => []
       | some oldF => (((dst.files t).read).getD []).map (fun r =>
           List.zipWith defaulted newF (if schema.isSome then remake oldF newF r else r))) := by
  unfold mkprofRefresh at hrun
  simp only [hs] at hrun
  generalize hw : writeLoop now gzip (refreshRecords old schema.isSome) dst.files (schema.getD old) = w at hrun
  obtain ⟨fs, e⟩ := w
  cases e with
  | some e => simp at hrun
  | none =>
    simp only [Prod.mk.injEq, and_true] at hrun
    subst hrun
    have hl := L.writeLoop_ok now gzip (refreshRecords old schema.isSome)
      (L.refreshRecords_local old schema.isSome) _ _ _ hnd hw
    obtain ⟨recs, rows, h1, h2, h3⟩ := hl.2 t newF ht
    have hst := L.stage_ok h2
    have hmem : (schema.getD old).names.contains t = true := L.contains_names ht
    have hk : keeps (schema.getD old) false t = true := L.keeps_plain ht
    simp only [cleanup, hmem, Bool.true_or, if_true, h3, hk, L.cleanupOne_keep, L.read_writeRel, hst.1]
    unfold refreshRecords at h1
    cases hold : old.lookup t with
    | none =>
      simp only [hold] at h1
      cases h1
      rfl
    | some oldF =>
      simp only [hold, Except.ok.injEq] at h1
      subst h1
      have hprop : ∀ row ∈ ((dst.files t).read).getD [], ∀ c ∈ row, Proper c := by
        cases hr : (dst.files t).read with
        | none => simp
        | some rows0 => simpa using L.read_proper hr
      simp only [Option.some.injEq]
      cases schema.isSome with
      | true =>
        simp only [if_true, List.map_map]
        apply List.map_congr_left
        intro r hr
        exact L.readRow_fmt newF _ (L.remake_proper oldF newF r (hprop r hr))
      | false =>
        simp only [Bool.false_eq_true, if_false, List.map_map]
        apply List.map_congr_left
        intro r hr
        exact L.readRow_fmt newF r (hprop r hr)

/-- the refresh as a SKELETON (`skeleton=True`): a relation is kept, with exactly its previous rows, iff
it is a core relation and had at least one row; otherwise it has no file afterwards. -/
theorem refresh_preserves_rows_skeleton (now : Nat) (dst d : Dir) (schema : Option Schema) (gzip : Bool)
    (old : Schema) (hs : dst.schema = some old) (hnd : (schema.getD old).names.Nodup)
    (hrun : mkprofRefresh now dst schema gzip true = (d, none))
    (t : Name) (newF : List Field) (ht : (t, newF) ∈ schema.getD old) :
    ∃ prev : List Rec,
      prev = (match old.lookup t with
              | none => []
              | some oldF => (((dst.files t).read).getD []).map (fun r =>
                  if schema.isSome then remake oldF newF r else r)) ∧
      (coreFiles.contains t = true → prev ≠ [] →
        (d.files t).read = some (prev.map (List.zipWith defaulted newF))) ∧
      ((coreFiles.contains t = false ∨ prev = []) → d.files t = {}) := by
  unfold mkprofRefresh at hrun
  simp only [hs] at hrun
  generalize hw : writeLoop now gzip (refreshRecords old schema.isSome) dst.files (schema.getD old) = w at hrun
  obtain ⟨fs, e⟩ := w
  cases e with
  | some e => simp at hrun
  | none =>
    simp only [Prod.mk.injEq, and_true] at hrun
    subst hrun
    have hl := L.writeLoop_ok now gzip (refreshRecords old schema.isSome)
      (L.refreshRecords_local old schema.isSome) _ _ _ hnd hw
    obtain ⟨recs, rows, h1, h2, h3⟩ := hl.2 t newF ht
    have hst := L.stage_ok h2
    have hmem : (schema.getD old).names.contains t = true := L.contains_names ht
    have hrecs : recs = (match old.lookup t with
              | none => []
              | some oldF => (((dst.files t).read).getD []).map (fun r =>
                  if schema.isSome then remake oldF newF r else r)) := by
      unfold refreshRecords at h1
      cases hold : old.lookup t with
      | none => simp only [hold] at h1; cases h1; rfl
      | some oldF =>
        simp only [hold, Except.ok.injEq] at h1
        rw [← h1]
        cases schema.isSome <;> simp
    have hprop : ∀ r ∈ recs, ∀ c ∈ r, Proper c := by
      have hp0 : ∀ row ∈ ((dst.files t).read).getD [], ∀ c ∈ row, Proper c := by
        cases hr : (dst.files t).read with
        | none => simp
        | some rows0 => simpa using L.read_proper hr
      rw [hrecs]
      cases hold : old.lookup t with
      | none => simp
      | some oldF =>
        intro r hr
        simp only [List.mem_map] at hr
        obtain ⟨r0, hr0, rfl⟩ := hr
        cases schema.isSome with
        | true => exact L.remake_proper oldF newF r0 (hp0 r0 hr0)
        | false => exact hp0 r0 hr0
    refine ⟨recs, hrecs, ?_, ?_⟩
    · intro hcore hne
      have hrne : rows.isEmpty = false := by
        rw [hst.1]
        cases recs with
        | nil => exact absurd rfl hne
        | cons a as => simp
      simp only [cleanup, hmem, Bool.true_or, if_true, h3, L.keeps_skeleton ht, hcore,
        L.cleanupOne_skeleton_keep _ _ _ hrne, L.read_writeRel]
      rw [hst.1, List.map_map]
      simp only [Option.some.injEq]
      apply List.map_congr_left
      intro r hr
      exact L.readRow_fmt newF r (hprop r hr)
    · intro hno
      simp only [cleanup, hmem, Bool.true_or, if_true, h3, L.keeps_skeleton ht]
      apply L.cleanupOne_skeleton_drop
      rcases hno with hc | he
      · exact Or.inl hc
      · right; rw [hst.1, he]; rfl

/-! ## "every field value unchanged apart from columns added or dropped by a different target schema" -/

/-- matching by name (source field names unique, record of the relation's width): a target field
named like the `i`-th source column holds exactly that column's value, wherever it now stands. -/
theorem remake_same_name (oldF newF : List Field) (r : Rec) (hnd : (oldF.map (·.name)).Nodup)
    (hw : r.length = oldF.length) (j : Nat) (hj : j < newF.length) (i : Nat) (hi : i < oldF.length)
    (hname : newF[j].name = oldF[i].name) :
    (remake oldF newF r)[j]'(by simp [remake, hj]) = r[i]'(by omega) := by
  have h := L.lookupLast_zip_nodup (oldF.map (·.name)) r hnd i (by simpa using hi) (by omega)
  simp only [List.getElem_map] at h
  simp [remake, hname, h]

/-- a target column the source relation does not have is empty (and is then written as its default);
a source column the target does not have is dropped (`remake` has exactly the target's width). -/
theorem remake_new_column (oldF newF : List Field) (r : Rec) (j : Nat) (hj : j < newF.length)
    (h : newF[j].name ∉ oldF.map (·.name)) :
    (remake oldF newF r)[j]'(by simp [remake, hj]) = none ∧ (remake oldF newF r).length = newF.length := by
  simp [remake, L.lookupLast_zip_not_mem _ r _ h]

/-! ## "a profile created from sentence lines has one item per line with identifiers,
well-formedness marks and lengths as documented" -/

/-- `i-wf` is 0 exactly for a line starting with `*`, and the `*` is removed from `i-input`. -/
theorem plain_split_star (rest : Text) : Splitter.plain.split ('*' :: rest) = .ok [.int 0, .str rest] := rfl

theorem plain_split_nostar (line : Text) (h : line.head? ≠ some '*') :
    Splitter.plain.split line = .ok [.int 1, .str line] := by
  cases line with
  | nil => rfl
  | cons c cs =>
    have hc : c ≠ '*' := by intro e; apply h; simp [e]
    simp only [Splitter.split]
    split
    · rename_i heq
      simp only [List.cons.injEq] at heq
      exact absurd heq.1 hc
    · rfl

/-- one item per data line: a successful run leaves in `item` as many rows as there are input lines
(minus the header line for delimited input), whatever the delimiter and the flags. -/
theorem lines_one_item_per_line (now : Nat) (dst d : Dir) (sch : Schema) (delim : Option Text)
    (lines : List Text) (gzip : Bool) (fields : List Field) (hitem : ("item", fields) ∈ sch)
    (hnd : sch.names.Nodup)
    (hrun : mkprofLines now dst (some sch) delim lines gzip false = (d, none)) :
    ∃ rows, (d.files "item").read = some rows ∧
      rows.length = (match Splitter.ofDelim delim with
                     | .plain => lines.length
                     | _ => lines.length - 1) := by
  have hlk : sch.lookup "item" = some fields := L.lookup_of_mem sch "item" fields hnd hitem
  unfold mkprofLines at hrun
  cases sch with
  | nil => simp at hitem
  | cons s0 srest =>
    simp only at hrun
    generalize Splitter.ofDelim delim = sp at hrun ⊢
    cases hms : makeSplit sp lines with
    | error e => simp [hms] at hrun
    | ok cr =>
      obtain ⟨colnames, rest⟩ := cr
      simp only [hms, hlk] at hrun
      split at hrun
      · simp at hrun
      · cases hll : linesLoop fields colnames sp 1 [] rest with
        | error e => simp [hll] at hrun
        | ok recs =>
          simp only [hll, Prod.mk.injEq, and_true] at hrun
          subst hrun
          have hlen := L.linesLoop_length fields colnames _ rest 1 [] recs hll
          refine ⟨(recs.map (encodeL fields)).map readRow, ?_, ?_⟩
          · simp only [cleanup, L.contains_names hitem, Bool.true_or, if_true, L.keeps_plain hitem,
              L.cleanupOne_keep, Files.set, L.read_writeRel]
          · simp only [List.length_map, hlen]
            cases sp with
            | plain =>
              simp only [makeSplit, Except.ok.injEq, Prod.mk.injEq] at hms
              rw [← hms.2]
            | tsdb =>
              cases lines with
              | nil => simp [makeSplit] at hms
              | cons h t =>
                simp only [makeSplit] at hms
                split at hms
                · cases hms
                · simp only [Except.ok.injEq, Prod.mk.injEq] at hms
                  simp [← hms.2]
            | sep dd =>
              cases lines with
              | nil => simp [makeSplit] at hms
              | cons h t =>
                simp only [makeSplit] at hms
                split at hms
                · cases hms
                · simp only [Except.ok.injEq, Prod.mk.injEq] at hms
                  simp [← hms.2]

/-! ## Round 2 — text input: exact cell content

"a profile created from sentence lines has one item per line with identifiers, well-formedness marks
and lengths as documented".  `plainVal i line f` (Lemmas.lean) is the documented value of field `f` for
the `i`-th sentence line: `i-wf` = 0 iff the line starts with `*`, `i-input` = the line without that
`*`, `i-id` = `i`, `i-length` = `wordCount` of the text; `recVal cm i f` the documented value for a
delimited line with column map `cm`: the given column, else the line number for `i-id`, the word
count of the `i-input` column for `i-length`. -/

/-- the whitespace table the word count is stated over is Python's `str.isspace` set as generated
from the live interpreter (a changed table breaks this proof) -/
theorem pyWhitespace_pinned : pyWhitespace =
    [9, 10, 11, 12, 13, 28, 29, 30, 31, 32, 133, 160, 5760, 8192, 8193, 8194, 8195, 8196, 8197, 8198,
     8199, 8200, 8201, 8202, 8232, 8233, 8239, 8287, 12288] := rfl

/-- `i-length` is the number of whitespace-separated words: a text made of `n` words (non-empty,
without whitespace), separated by non-empty blanks, with optional leading and trailing blanks, has
`wordCount = n` (every text decomposes this way; that remark is not part of the statement). -/
theorem wordCount_words (lead : Text) (ps : List (Text × Text)) (hlead : IsBlank lead)
    (hps : ∀ p ∈ ps, IsWord p.1 ∧ IsBlank p.2) (hsep : SepOk ps) :
    wordCount (lead ++ assemble ps) = ps.length := by
  unfold wordCount
  cases lead with
  | nil => exact L.wc_assemble ps hps hsep
  | cons c cs =>
    rw [L.wc_blank (c :: cs) _ false hlead (by simp)]
    exact L.wc_assemble ps hps hsep

/-- sentence lines without delimiter never fail, and `item` holds exactly the documented items: one
per line, in order, identifiers 1, 2, …, the `*` mark turned into `i-wf = 0` and removed, `i-length`
the word count (for whichever of these fields the schema's `item` has; other fields get their
default): the `k`-th row read back is, field by field, the stored text of `plainVal (1 + k) line_k`. -/
theorem lines_plain_exact (now : Nat) (dst : Dir) (sch : Schema) (delim : Option Text)
    (lines : List Text) (gzip : Bool) (fields : List Field)
    (hd : Splitter.ofDelim delim = .plain) (hitem : ("item", fields) ∈ sch) (hnd : sch.names.Nodup)
    (hf : fields ≠ []) :
    ∃ d, mkprofLines now dst (some sch) delim lines gzip false = (d, none) ∧
      (d.files "item").read =
        some ((plainRecs fields 1 lines).map (fun r => readRow (encodeL fields r))) ∧
      ((plainRecs fields 1 lines).map (fun r => readRow (encodeL fields r))).length = lines.length ∧
      ∀ (k : Nat) (hk : k < lines.length),
        ((plainRecs fields 1 lines).map (fun r => readRow (encodeL fields r)))[k]? =
          some (fields.map (fun f => readCell ((plainVal (1 + k) lines[k] f).text f))) := by
  have hlk : sch.lookup "item" = some fields := L.lookup_of_mem sch "item" fields hnd hitem
  have hfe : fields.isEmpty = false := by cases fields <;> simp_all
  unfold mkprofLines
  cases sch with
  | nil => simp at hitem
  | cons s0 srest =>
    simp only [hd, makeSplit, hlk, hfe, Bool.false_eq_true, if_false,
      L.linesLoop_plain fields lines 1 [] (by simp)]
    refine ⟨_, rfl, ?_, by simp [L.plainRecs_length], ?_⟩
    · simp only [cleanup, L.contains_names hitem, Bool.true_or, if_true, L.keeps_plain hitem,
        L.cleanupOne_keep, Files.set, L.read_writeRel, List.map_map, Function.comp_def]
    · intro k hk
      rw [List.getElem?_map, L.plainRecs_get fields lines 1 k hk]
      simp only [Option.map_some, L.item_cells]

/-- any text input (plain or delimited): if `mkprof` succeeds, `item` holds exactly the documented
item of every data line after the header, in order, and — when `item` has an `i-id` field — the
identifiers (given or line numbers) are pairwise different. -/
theorem lines_success_exact (now : Nat) (dst d : Dir) (sch : Schema) (delim : Option Text)
    (lines : List Text) (gzip : Bool) (fields : List Field) (hitem : ("item", fields) ∈ sch)
    (hnd : sch.names.Nodup)
    (hrun : mkprofLines now dst (some sch) delim lines gzip false = (d, none)) :
    ∃ colnames rest, makeSplit (Splitter.ofDelim delim) lines = .ok (colnames, rest) ∧
      (d.files "item").read = some ((delimRecs fields colnames (Splitter.ofDelim delim) 1 rest).map
        (fun r => readRow (encodeL fields r))) ∧
      (fields.any (fun f => f.name = "i-id") = true →
        ∃ ids : List LVal, lineIds colnames (Splitter.ofDelim delim) 1 rest = ids.map some ∧ ids.Nodup) := by
  have hlk : sch.lookup "item" = some fields := L.lookup_of_mem sch "item" fields hnd hitem
  unfold mkprofLines at hrun
  cases sch with
  | nil => simp at hitem
  | cons s0 srest =>
    simp only at hrun
    generalize Splitter.ofDelim delim = sp at hrun ⊢
    cases hms : makeSplit sp lines with
    | error e => simp [hms] at hrun
    | ok cr =>
      obtain ⟨colnames, rest⟩ := cr
      simp only [hms, hlk] at hrun
      split at hrun
      · simp at hrun
      · cases hll : linesLoop fields colnames sp 1 [] rest with
        | error e => simp [hll] at hrun
        | ok recs =>
          simp only [hll, Prod.mk.injEq, and_true] at hrun
          subst hrun
          obtain ⟨h1, h2⟩ := L.linesLoop_inv fields colnames sp rest 1 [] recs hll
          refine ⟨colnames, rest, rfl, ?_, ?_⟩
          · simp only [cleanup, L.contains_names hitem, Bool.true_or, if_true, L.keeps_plain hitem,
              L.cleanupOne_keep, Files.set, L.read_writeRel, h1, List.map_map, Function.comp_def]
          · intro hw
            obtain ⟨ids, e1, e2⟩ := h2 hw (by simp)
            refine ⟨ids, e1, ?_⟩
            have : ids.reverse.Nodup := by simpa using e2
            exact (List.reverse_perm ids).nodup_iff.mp this

/-- "duplicates rejected": a data line whose identifier was already used raises `CommandError`. -/
theorem duplicate_id_rejected (fields : List Field) (colnames : List LVal) (sp : Splitter) (i : Nat)
    (seen : List LVal) (line : Text) (cv : List LVal) (hsp : sp.split line = .ok cv)
    (hl : cv.length = colnames.length) (hid : fields.any (fun f => f.name = "i-id") = true)
    (hdup : idVal (colnames.zip cv) i ∈ seen) :
    lineRecord fields colnames sp i seen line = .error .commandError := by
  rw [L.lineRecord_eq fields colnames sp i seen line cv hsp hl]
  simp [hid, hdup]

/-- … so input in which two data lines carry the same identifier never produces a profile. -/
theorem lines_duplicate_ids_fail (fields : List Field) (colnames : List LVal) (sp : Splitter)
    (lines : List Text) (hid : fields.any (fun f => f.name = "i-id") = true) (ids : List LVal)
    (hids : lineIds colnames sp 1 lines = ids.map some) (hdup : ¬ ids.Nodup)
    (recs : List (List LVal)) : linesLoop fields colnames sp 1 [] lines ≠ .ok recs := by
  intro h
  obtain ⟨ids', e1, e2⟩ := (L.linesLoop_inv fields colnames sp lines 1 [] recs h).2 hid (by simp)
  rw [hids] at e1
  have : ids = ids' := by
    have := congrArg (List.filterMap id) e1
    simpa [List.filterMap_map] using this
  subst this
  apply hdup
  have : ids.reverse.Nodup := by simpa using e2
  exact (List.reverse_perm ids).nodup_iff.mp this

/-- header handling: no delimiter (or an empty one) — no header line, columns `i-wf`, `i-input`. -/
theorem header_plain (lines : List Text) :
    Splitter.ofDelim none = .plain ∧ Splitter.ofDelim (some []) = .plain ∧
    makeSplit .plain lines = .ok ([iWf, iInput], lines) := ⟨rfl, rfl, rfl⟩

/-- delimiter `@`: the first line is the header, split and unescaped by `tsdb.split` (an empty
header cell is `None`); a bad escape is a `TSDBError`. -/
theorem header_at (h : Text) (rest : List Text) :
    Splitter.ofDelim (some ['@']) = .tsdb ∧
    makeSplit .tsdb (h :: rest) =
      (match C08.splitRaw h with
       | .ok cs => .ok (cs.map ofCell, rest)
       | .error _ => .error .tsdbError) := by
  refine ⟨rfl, ?_⟩
  simp only [makeSplit, Splitter.split]
  cases C08.splitRaw h <;> rfl

/-- any other delimiter (also a multi-character one): the first line is the header, split with
`str.split(delimiter)`. -/
theorem header_sep (dl : Text) (hne : dl ≠ []) (hat : dl ≠ ['@']) (h : Text) (rest : List Text) :
    Splitter.ofDelim (some dl) = .sep dl ∧
    makeSplit (.sep dl) (h :: rest) = .ok ((splitSep dl h).map .str, rest) := by
  refine ⟨?_, rfl⟩
  cases dl with
  | nil => exact absurd rfl hne
  | cons c cs => simp [Splitter.ofDelim, hat]

/-- delimited input without any line: `next(lineiter)` raises `StopIteration`. -/
theorem header_missing (sp : Splitter) (h : sp ≠ .plain) : makeSplit sp [] = .error .stopIteration := by
  cases sp with
  | plain => exact absurd rfl h
  | tsdb => rfl
  | sep d => rfl

/-- `str.split(sep)` on concrete lines (leftmost, non-overlapping, multi-character) -/
theorem splitSep_examples :
    splitSep ['|'] ['a', '|', '|', 'b'] = [['a'], [], ['b']] ∧
    splitSep [':', ':'] ['a', ':', ':', ':', 'b'] = [['a'], [':', 'b']] ∧
    splitSep ['a', 'a'] ['a', 'a', 'a'] = [[], ['a']] := by decide

/-! ## Round 2 — an in-place refresh of a well-formed profile never fails -/

/-- any `gzip`, any `skeleton`, with or without `schema=`: if every relation of the new schema has a
field and — when no schema is given, so that rows are rewritten as they are — every stored row has
the width of its relation, the refresh raises nothing.  (With `schema=` records are always rebuilt by
column name, so even damaged rows cannot make it fail.) -/
theorem refresh_total (now : Nat) (dst : Dir) (schema : Option Schema) (gzip skeleton : Bool)
    (old : Schema) (hs : dst.schema = some old) (hnd : (schema.getD old).names.Nodup)
    (hf : ∀ t f, (t, f) ∈ schema.getD old → f ≠ [])
    (hw : schema = none → ∀ t f rows, (t, f) ∈ old → (dst.files t).read = some rows →
            ∀ r ∈ rows, r.length = f.length) :
    (mkprofRefresh now dst schema gzip skeleton).2 = none := by
  unfold mkprofRefresh
  simp only [hs]
  have hloop : (writeLoop now gzip (refreshRecords old schema.isSome) dst.files (schema.getD old)).2 = none := by
    apply L.writeLoop_total_local now gzip _ (L.refreshRecords_local old schema.isSome) _ _ hnd
    intro t newF ht
    refine ⟨hf t newF ht, ?_⟩
    unfold refreshRecords
    cases hold : old.lookup t with
    | none => exact ⟨[], rfl, by simp⟩
    | some oldF =>
      refine ⟨_, rfl, ?_⟩
      cases hsch : schema with
      | some alt =>
        intro r hr
        simp only [Option.isSome_some, if_true, List.mem_map] at hr
        obtain ⟨r0, _, rfl⟩ := hr
        exact L.remake_length oldF newF r0
      | none =>
        intro r hr
        simp only [Option.isSome_none, Bool.false_eq_true, if_false] at hr
        subst hsch
        simp only [Option.getD_none] at ht hnd
        have e : oldF = newF := by
          have := L.lookup_of_mem old t newF hnd ht
          rw [hold] at this
          exact Option.some.inj this
        subst e
        cases hr0 : (dst.files t).read with
        | none => simp [hr0] at hr
        | some rows =>
          simp only [hr0, Option.getD_some] at hr
          exact hw rfl t oldF rows ht hr0 r hr
  generalize writeLoop now gzip (refreshRecords old schema.isSome) dst.files (schema.getD old) = w at hloop
  obtain ⟨fs, e⟩ := w
  simp only at hloop
  subst hloop
  rfl

/-- "refreshing in place (optionally changing compression or schema) preserves all data", without a
success hypothesis: for a well-formed profile the refresh succeeds and every relation reads back as
its previous rows, one for one, in order, cells `defaulted` (matched by name under a new schema). -/
theorem refresh_preserves_rows_total (now : Nat) (dst : Dir) (schema : Option Schema) (gzip : Bool)
    (old : Schema) (hs : dst.schema = some old) (hnd : (schema.getD old).names.Nodup)
    (hf : ∀ t f, (t, f) ∈ schema.getD old → f ≠ [])
    (hw : schema = none → ∀ t f rows, (t, f) ∈ old → (dst.files t).read = some rows →
            ∀ r ∈ rows, r.length = f.length) :
    ∃ d, mkprofRefresh now dst schema gzip false = (d, none) ∧
      ∀ t newF, (t, newF) ∈ schema.getD old →
        (d.files t).read = some
          (match old.lookup t with
           | none => []
           | some oldF => (((dst.files t).read).getD []).map (fun r =>
               List.zipWith defaulted newF (if schema.isSome then remake oldF newF r else r))) := by
  have ht := refresh_total now dst schema gzip false old hs hnd hf hw
  generalize hr : mkprofRefresh now dst schema gzip false = res at ht
  obtain ⟨d, e⟩ := res
  simp only at ht
  subst ht
  exact ⟨d, rfl, fun t newF h => refresh_preserves_rows now dst d schema gzip old hs hnd hr t newF h⟩

/-! ## Round 2 — the fallback: "use all rows if the filter and table cannot be joined"

The join plan is now part of the model (`joinPlan`, mirroring `_plan_joins`/`_pivot_relations`); the
harness only reports the relations `rs` that the filter's columns belong to.  `KeyPath ss t n`:
`n` can be reached from `t` through relations that pairwise share a key name. -/

/-- a join plan only ever exists along key links: it contains the table and the filter's relations,
and every relation in it is reachable from the table through shared key names. -/
theorem joinPlan_key_linked (ss : Schema) (t : Name) (rs J : List Name) (h : joinPlan ss t rs = some J) :
    t ∈ J ∧ (∀ r ∈ rs, r ∈ J) ∧ ∀ n ∈ J, KeyPath ss t n :=
  L.joinPlan_sound ss t rs J h

/-- a relation from which some relation of the filter cannot be reached through key links is copied
whole: the query raises `TSQLError` and all its rows are used. -/
theorem fallback_copies_all (ss : Schema) (t : Name) (rs : List Name) (ks : List Nat) (late : Option Err)
    (f : Name → Filt) (hf : f t = .rels rs ks late) (r : Name) (hr : r ∈ rs) (hno : ¬ KeyPath ss t r)
    (rows : List Rec) :
    selectRows (some (fun n => planSel ss n (f n))) t rows = .ok rows := by
  have hj : joinPlan ss t rs = none := by
    cases h : joinPlan ss t rs with
    | none => rfl
    | some J =>
      obtain ⟨_, h2, h3⟩ := L.joinPlan_sound ss t rs J h
      exact absurd (h3 r (h2 r hr)) hno
  simp [selectRows, planSel, hf, hj]

/-- in particular a relation without key fields is never filtered by a condition on another relation. -/
theorem fallback_keyless (ss : Schema) (t : Name) (rs : List Name) (ks : List Nat) (late : Option Err)
    (f : Name → Filt) (hf : f t = .rels rs ks late) (hk : keysOf ss t = [])
    (r : Name) (hr : r ∈ rs) (hne : r ≠ t) (rows : List Rec) :
    selectRows (some (fun n => planSel ss n (f n))) t rows = .ok rows :=
  fallback_copies_all ss t rs ks late f hf r hr
    (fun hp => hne (L.keyPath_keyless ss t r hk hp)) rows

/-- an undefined column or a literal of the wrong type (`TSQLError` before planning): all rows too. -/
theorem fallback_unresolved (ss : Schema) (t : Name) (f : Name → Filt) (hf : f t = .unresolved)
    (rows : List Rec) : selectRows (some (fun n => planSel ss n (f n))) t rows = .ok rows := by
  simp [selectRows, planSel, hf]

/-- when a plan exists (and no joined relation lacks its file) the filter is applied: the rows are
`_tsql_distinct` of the select output (exactly the satisfying rows under the F20 hypothesis,
`filter_exact_partial`). -/
theorem filter_applied (ss : Schema) (t : Name) (rs J : List Name) (ks : List Nat)
    (f : Name → Filt) (hf : f t = .rels rs ks none) (hj : joinPlan ss t rs = some J) (rows : List Rec) :
    selectRows (some (fun n => planSel ss n (f n))) t rows = .ok (tsqlDistinct (expand rows ks)) := by
  simp [selectRows, planSel, hf, hj]

/-- the key-sharing graph of the standard chain item – parse – result – tree -/
def chainSchema : Schema :=
  [("item", [⟨"i-id", ":integer", [":key"]⟩, ⟨"i-input", ":string", []⟩]),
   ("parse", [⟨"parse-id", ":integer", [":key"]⟩, ⟨"i-id", ":integer", [":key"]⟩]),
   ("result", [⟨"parse-id", ":integer", [":key"]⟩, ⟨"result-id", ":integer", [":key"]⟩]),
   ("tree", [⟨"result-id", ":integer", [":key"]⟩, ⟨"t-label", ":string", []⟩]),
   ("fold", [⟨"f-note", ":string", []⟩])]

/-- reachability is necessary, not sufficient: one pivot relation is found (item – [parse] – result),
but `_pivot_relations` adds a relation only if it connects two components at once, so item and tree
(two links apart from each other's neighbours) are not joined and item is copied whole; a keyless
relation is never joined. -/
theorem joinPlan_examples :
    joinPlan chainSchema "item" ["result"] = some ["item", "result", "parse"] ∧
    joinPlan chainSchema "parse" ["tree"] = some ["parse", "tree", "result"] ∧
    joinPlan chainSchema "item" ["tree"] = none ∧
    joinPlan chainSchema "fold" ["item"] = none ∧
    joinPlan chainSchema "fold" ["fold"] = some ["fold", "fold"] := by decide

/-! ## Pins: the constants of the anchored code that the hand-written model and the naive evaluator mirror

`Generated/TablesC12.lean` is regenerated on every run from the live objects of `/repo`
(`harness/c12.py: tables()`): module constants, default arguments (`__defaults__`), and the constants of
the code objects (`co_consts`, nested functions and comprehensions included; `#…` marks a non-string
constant, `(a|b)` a tuple, `<code f>` a nested code object; docstrings and exception-message prose are
left out).  A change to any of them stops this theorem from checking, which the check reports as a
broken proof obligation and then searches for a failing input.

Which model definition hand-codes what:
* `c12CoreFiles` (`TSDB_CORE_FILES`) — `coreFiles` in `dbRecords` (to_copy) and `keeps` (skeleton);
  `c12CodedAttributes` (`TSDB_CODED_ATTRIBUTES`) and `c12FieldInit` (`-1` for `:integer`, else empty;
  `:key`/`:primary`/`:foreign…`) — `Field.default`, `Field.isKey`; `c12ModuleConsts` — the `relations`
  file (`Dir.schema`) and the `@` delimiter (`Splitter.ofDelim`, C08's `splitRaw`).
* `c12Mkprof` — the defaults of `mkprof` (source/schema/where/delimiter `None`, refresh/skeleton/full/
  gzip/quiet `False`) are what the harness passes explicitly or relies on; dispatch = the three driver
  operations `mkprofDb` / `mkprofRefresh` / `mkprofLines`.
* `c12MkprofFromLines` (`files=True`, relation `item`) — `initFiles`, `sch.lookup "item"` in `mkprofLines`;
  `c12LinesToRecords` (`i-id`, `i-length`, `i-input`, start 1, `rstrip('\n')`, `or ''`) — `lineRecord`,
  `addId`, `addLength`, `linesLoop … 1`; `c12MakeSplit` (`*`, 0/1, (`i-wf`,`i-input`), `@`) —
  `Splitter.split`, `Splitter.ofDelim`, `makeSplit`.
* `c12MkprofFromDatabase` (`'where '`, `'* from '`, `' '`: the query `* from {table} {where}`,
  `exist_ok`) — `selectRows`/`planSel` with `t` as the FIRST relation of the plan, `dbRecords`;
  `c12NoSuchRelation`, `c12TsqlDistinct` (no constants: pure control flow) — `dbRecords`' last branch,
  `distinctAux`; `c12MkprofCleanup` (suffixes `''`/`.gz`, size `0`) — `cleanupOne`, `cleanup`.
* `c12TsdbWrite` (defaults append/gzip `False`; `wb`; `tell() != 0`), `c12GetPaths`, `c12CleanupFiles`,
  `c12InitializeDatabase` — `writeRel`, `RelFiles.useGz`, `initFiles`; `c12WriteDatabase`
  (`append=False`), `c12RemakeRecords`, `c12MakeRecord` (missing ⇒ `None`) — `refreshRecords`, `remake`,
  `lookupLast`; `c12TsdbSplit`, `c12TsdbJoin`, `c12TsdbFormat` — `readCell`, `encodeRec`, `fmtCell`.
* `c12PlanJoins`, `c12PivotRelations` (`len(keys) > 1`, more than `1` component touched),
  `c12MakeKeymap`, `c12Join` (`inner`) — `joinPlan`, `pivotLoop`, `components`, `reachLoop`, `keysOf`.
* `c12ProjectAll`, `c12QnameResolver`, `c12ConditionFields`, `c12ExpectedType`, `c12ConditionFunction`,
  `c12ParseConditionStatement`, `c12ParseSelect`, `c12OperatorFunctions`, `c12LexerTokens` — mirrored by
  the harness only (`naive_select`, `n_leaf`, `cond_text` in harness/c12.py: the parameter `Filt` and
  the oracle's `kept` flags). -/
theorem c12_pins :
    coreFiles = c12CoreFiles ∧ codedAttributes = c12CodedAttributes ∧ c12CoreFiles =
      ["item", "analysis", "phenomenon", "parameter", "set", "item-phenomenon", "item-set"]
    ∧ c12CodedAttributes =
      [("i-wf", "1"), ("i-difficulty", "1"), ("polarity", "-1")]
    ∧ c12ModuleConsts =
      ["relations", "@"]
    ∧ c12Mkprof =
      ["defaults=(#None|#None|#None|#None|#False|#False|#False|#False|#False)", "kwdefaults=()", "#None", "(schema|gzip)"]
    ∧ c12MkprofFromLines =
      ["#None", "#True", "(files)", "item", "(fields|gzip)"]
    ∧ c12LinesToRecords =
      ["#None", "#False", "i-id", "#True", "i-length", "#1", "\n", ", ", "i-input", ""]
    ∧ c12MakeSplit =
      ["#None", "<code split>", "#None", "*", "#0", "#1", "(i-wf|i-input)", "@", "<code split>", "#None", "\n"]
    ∧ c12MkprofFromDatabase =
      ["#None", "#True", "(exist_ok)", "", "where ", "* from ", " ", "(gzip)"]
    ∧ c12NoSuchRelation =
      ["#True", "#False"]
    ∧ c12TsqlDistinct =
      ["#None"]
    ∧ c12MkprofCleanup =
      ["#None", "", ".gz", "#0"]
    ∧ c12FieldInit =
      ["defaults=(#None|#None)", "kwdefaults=()", "#None", "#False", "(:key|:primary)", ":foreign", "#True", ":integer", "-1", ""]
    ∧ c12TsdbWrite =
      ["defaults=(#None|#False|#False|utf-8)", "kwdefaults=()", "#None", "utf-8", "ab", "wb", "w+b", ".tmp", "(mode|suffix|prefix|dir)", "\n", "#0", "(mode)"]
    ∧ c12WriteDatabase =
      ["defaults=(#None|#None|#False|utf-8)", "kwdefaults=()", "#None", "#True", "(exist_ok)", "#False", "(append|gzip|encoding)"]
    ∧ c12RemakeRecords =
      ["#None"]
    ∧ c12MakeRecord =
      ["<code <genexpr>>", "#None"]
    ∧ c12GetPaths =
      ["#None", "", ".gz", "#False", "#True"]
    ∧ c12InitializeDatabase =
      ["defaults=(#False)", "kwdefaults=()", "#True", "(exist_ok)", "#None"]
    ∧ c12CleanupFiles =
      ["#None", "", ".gz"]
    ∧ c12TsdbSplit =
      ["defaults=(#None)", "kwdefaults=()", "\n", "#None", "<code <genexpr>>", "#None"]
    ∧ c12TsdbJoin =
      ["defaults=(#None)", "kwdefaults=()", "(default)", ""]
    ∧ c12TsdbFormat =
      ["defaults=(#None)", "kwdefaults=()", ":integer", "-1", "", ":date", "-", "-%Y", "(#0|#0|#0)", " %H:%M:%S"]
    ∧ c12PlanJoins =
      [".", "#False", "#True"]
    ∧ c12PivotRelations =
      ["<code add_edges>", "#None", "#1", "#1", "#False", "<code <genexpr>>", "#1", "#0", "#None", "#True", ", "]
    ∧ c12MakeKeymap =
      ["#None"]
    ∧ c12Join =
      ["defaults=(inner)", "kwdefaults=()", "(inner|left)", "#None", "#True", "(cast)", "cast", "left"]
    ∧ c12ProjectAll =
      ["#None", "."]
    ∧ c12QnameResolver =
      ["#True", "(key|reverse)", "colname", "return", "<code resolve>", "#None", ".", "#0"]
    ∧ c12ConditionFields =
      ["#None", "(and|or)", "not", "#0", "#1", "|", "<code <genexpr>>", "#None"]
    ∧ c12ExpectedType =
      ["#None", ":string", ":integer", ":float", ":date"]
    ∧ c12ConditionFunction =
      ["#None", "(and|or)", "and", "<code func>", "#None", "<code <genexpr>>", "#None", "not", "<code func>", "#None", "~", "<code func>", "#None", "#0", "#1", "!~", "<code func>", "#None", "#0", "#1", "<code func>", "#None", "#0", "#1"]
    ∧ c12ParseConditionStatement =
      ["#None", "=", "==", "(~|!~)", "(<|<=|>|>=)", ":date"]
    ∧ c12ParseSelect =
      ["#None", ".", "*", "(text)", "select", "(type|projection|relations|condition)"]
    ∧ c12OperatorFunctions =
      ["==", "!=", "<", "<=", ">", ">="]
    ∧ c12LexerTokens =
      [("from", "FROM"), ("where", "WHERE"), ("report", "REPORT"), ("\\*", "STAR"), ("\\.", "DOT"), ("==|=|!=|~|!~|<=|<|>=|>", "OP"), ("&&|&|and", "AND"), ("\\|\\||\\||or", "OR"), ("!|not", "NOT"), ("\\(", "LPAREN"), ("\\)", "RPAREN"), ("\"([^\"\\\\]*(?:\\\\.[^\"\\\\]*)*)\"", "DQSTRING"), ("'([^'\\\\]*(?:\\\\.[^'\\\\]*)*)'", "SQSTRING"), ("[0-9]{4}-(?:[0-9][0-9]?|jan|feb|mar|apr|may|jun|jul|aug|sep|oct|nov|dec)(?:-[0-9]{1,2})?(?:\\s*\\([0-9]{2}:[0-9]{2}(?::[0-9]{2})?\\)|\\s+[0-9]{2}:[0-9]{2}(?::[0-9]{2}))?", "YYYYMMDD"), ("(?:[0-9]{1,2}-)?(?:[0-9][0-9]?|jan|feb|mar|apr|may|jun|jul|aug|sep|oct|nov|dec)-(?:[0-9]{2})?[0-9]{2}(?:\\s*\\([0-9]{2}:[0-9]{2}(?::[0-9]{2})?\\)|\\s+[0-9]{2}:[0-9]{2}(?::[0-9]{2}))?", "DDMMYY"), (":today|now", "KWDATE"), ("[+-]?\\d+", "INT"), ("[a-zA-Z][-_a-zA-Z0-9]*\\.[a-zA-Z][-_a-zA-Z0-9]*", "QID"), ("[a-zA-Z][-_a-zA-Z0-9]*", "ID"), ("[^\\s]", "UNEXPECTED")] := by
  refine ⟨?_, ?_, ?_, ?_, ?_, ?_, ?_, ?_, ?_, ?_, ?_, ?_, ?_, ?_, ?_, ?_, ?_, ?_, ?_, ?_, ?_, ?_, ?_, ?_, ?_, ?_, ?_, ?_, ?_, ?_, ?_, ?_, ?_, ?_, ?_, ?_, ?_⟩ <;> rfl

end Verif.C12
