/- C12 — helper lemmas (core Lean only). -/
import Verif.C12.Model

namespace Verif.C12
open Verif.Tables

/-! ### `_tsql_distinct` -/

/-- the selected rows: source rows with at least one satisfying joined tuple, in source order -/
def kept : List Rec → List Nat → List Rec
  | r :: rs, k :: ks => if k = 0 then kept rs ks else r :: kept rs ks
  | _, _ => []

/-- no row equals its predecessor -/
def NoAdjDup : List Rec → Prop
  | [] => True
  | [_] => True
  | a :: b :: rest => a ≠ b ∧ NoAdjDup (b :: rest)

/-- the documented effect of copying on one cell: a value is unchanged, an empty field gets the
field's default (which reads back as `None` again when that default is itself empty) -/
def defaulted (f : Field) (c : Cell) : Cell :=
  match c with
  | some t => some t
  | none => readCell f.default

/-- a cell as a read delivers it: never the empty string -/
def Proper (c : Cell) : Prop := c ≠ some []

/-! ### join planning: the key-sharing graph -/

/-- `n` can be reached from `t` through relations that pairwise share a key name -/
inductive KeyPath (ss : Schema) (t : Name) : Name → Prop
  | refl : KeyPath ss t t
  | step {m n : Name} : KeyPath ss t m → sharesKey ss m n = true → KeyPath ss t n

/-! ### text input: documented values -/

/-- the documented value of field `f` of the item made from data line number `i` whose columns are
`cm` (header names zipped with the line's values): the given column; else the line number for `i-id`,
the number of whitespace-separated words of the `i-input` column for `i-length`; else nothing -/
def recVal (cm : List (LVal × LVal)) (i : Nat) (f : Field) : LVal :=
  match mapGet cm (.str f.name.toList) with
  | some v => v
  | none =>
    if f.name = "i-id" then .int i
    else if f.name = "i-length" then
      match mapGet cm iInput with
      | some v => .int (wordCount (strOf v))
      | none => .none
    else .none

/-- the `i-id` value `_lines_to_records` uses for a line: the given column, else the line number -/
def idVal (cm : List (LVal × LVal)) (i : Nat) : LVal := (mapGet cm iId).getD (.int i)

/-- plain sentence lines: well-formedness mark and text -/
def plainWf : Text → Nat
  | '*' :: _ => 0
  | _ => 1

def plainText : Text → Text
  | '*' :: rest => rest
  | line => line

/-- the documented item of the `i`-th sentence line -/
def plainVal (i : Nat) (line : Text) (f : Field) : LVal :=
  if f.name = "i-wf" then .int (plainWf line)
  else if f.name = "i-input" then .str (plainText line)
  else if f.name = "i-id" then .int i
  else if f.name = "i-length" then .int (wordCount (plainText line))
  else .none

def plainRecs (fields : List Field) : Nat → List Text → List (List LVal)
  | _, [] => []
  | i, l :: ls => fields.map (plainVal i l) :: plainRecs fields (i + 1) ls

/-- the documented items of delimited data lines (for lines the splitter accepts) -/
def delimRecs (fields : List Field) (colnames : List LVal) (sp : Splitter) : Nat → List Text → List (List LVal)
  | _, [] => []
  | i, l :: ls =>
    (match sp.split l with
     | .ok cv => fields.map (recVal (colnames.zip cv) i)
     | .error _ => []) :: delimRecs fields colnames sp (i + 1) ls

/-- the id values of the data lines -/
def lineIds (colnames : List LVal) (sp : Splitter) : Nat → List Text → List (Option LVal)
  | _, [] => []
  | i, l :: ls =>
    (match sp.split l with
     | .ok cv => some (idVal (colnames.zip cv) i)
     | .error _ => none) :: lineIds colnames sp (i + 1) ls

/-! ### words -/

def IsWord (w : Text) : Prop := w ≠ [] ∧ ∀ c ∈ w, isPyWhitespace c = false
def IsBlank (s : Text) : Prop := ∀ c ∈ s, isPyWhitespace c = true

/-- `w₁ s₁ w₂ s₂ …` -/
def assemble : List (Text × Text) → Text
  | [] => []
  | (w, s) :: rest => w ++ s ++ assemble rest

/-- every separator but the last is non-empty -/
def SepOk : List (Text × Text) → Prop
  | [] => True
  | [_] => True
  | p :: q :: rest => p.2 ≠ [] ∧ SepOk (q :: rest)

namespace L

theorem distinctAux_replicate (r : Rec) (rest : List Rec) :
    ∀ j, distinctAux (some r) (List.replicate j r ++ rest) = distinctAux (some r) rest
  | 0 => by simp
  | j + 1 => by
    have ih := distinctAux_replicate r rest j
    simp [List.replicate_succ, distinctAux, ih]

theorem distinctAux_replicate_succ (prev : Option Rec) (r : Rec) (rest : List Rec) (k : Nat) :
    distinctAux prev (List.replicate (k + 1) r ++ rest) = distinctAux prev (r :: rest) := by
  simp [List.replicate_succ, distinctAux, distinctAux_replicate]

theorem distinctAux_expand (prev : Option Rec) :
    ∀ (rows : List Rec) (ks : List Nat),
      distinctAux prev (expand rows ks) = distinctAux prev (kept rows ks)
  | [], _ => by simp [expand, kept]
  | _ :: _, [] => by simp [expand, kept]
  | r :: rs, k :: ks => by
    cases k with
    | zero =>
      simp only [expand, kept, List.replicate_zero, List.nil_append, if_true]
      exact distinctAux_expand prev rs ks
    | succ k =>
      simp only [expand, kept, Nat.succ_ne_zero, if_false]
      rw [distinctAux_replicate_succ]
      simp only [distinctAux]
      rw [distinctAux_expand (some r) rs ks]

theorem distinctAux_length_le : ∀ (xs : List Rec) (prev : Option Rec),
    (distinctAux prev xs).length ≤ xs.length
  | [], _ => by simp [distinctAux]
  | r :: rs, prev => by
    have ih := distinctAux_length_le rs (some r)
    simp only [distinctAux]
    split <;> simp <;> omega

theorem distinctAux_sublist : ∀ (xs : List Rec) (prev : Option Rec),
    List.Sublist (distinctAux prev xs) xs
  | [], _ => by simp [distinctAux]
  | r :: rs, prev => by
    have ih := distinctAux_sublist rs (some r)
    simp only [distinctAux]
    split
    · exact ih.cons_cons r
    · exact ih.cons r

/-- `distinctAux prev xs = xs` exactly when the head differs from `prev` and no row equals its
predecessor -/
theorem distinctAux_eq_self_iff : ∀ (xs : List Rec) (prev : Option Rec),
    distinctAux prev xs = xs ↔ (xs.head? ≠ prev ∨ xs = []) ∧ NoAdjDup xs
  | [], prev => by simp [distinctAux, NoAdjDup]
  | [r], prev => by
    simp only [distinctAux, NoAdjDup, List.head?_cons, and_true]
    constructor
    · intro h
      left
      intro hp
      simp [hp] at h
    · intro h
      rcases h with h | h
      · simp [h]
      · simp at h
  | r :: s :: rest, prev => by
    have ih := distinctAux_eq_self_iff (s :: rest) (some r)
    have hl := distinctAux_length_le (s :: rest) (some r)
    rw [distinctAux]
    by_cases hp : some r = prev
    · simp only [hp, ne_eq, not_true_eq_false, if_false]
      constructor
      · intro h
        have : (distinctAux prev (s :: rest)).length = (r :: s :: rest).length := by rw [h]
        rw [← hp] at this
        simp at this hl
        omega
      · intro h
        rcases h with ⟨h | h, _⟩
        · simp [hp] at h
        · simp at h
    · simp only [ne_eq, hp, not_false_eq_true, if_true, List.cons.injEq, true_and]
      rw [ih]
      simp only [List.head?_cons, NoAdjDup]
      constructor
      · rintro ⟨h | h, h2⟩
        · refine ⟨Or.inl ?_, ?_, h2⟩
          · intro e; exact hp e
          · intro e; apply h; simp [e]
        · simp at h
      · rintro ⟨_, h1, h2⟩
        refine ⟨Or.inl ?_, h2⟩
        intro e
        apply h1
        simpa using e.symm

theorem noAdjDup_of_nodup : ∀ (xs : List Rec), xs.Nodup → NoAdjDup xs
  | [], _ => trivial
  | [_], _ => trivial
  | a :: b :: rest, h => by
    rw [List.nodup_cons] at h
    refine ⟨?_, noAdjDup_of_nodup (b :: rest) h.2⟩
    intro e
    apply h.1
    simp [e]

theorem kept_sublist : ∀ (rows : List Rec) (ks : List Nat), List.Sublist (kept rows ks) rows
  | [], _ => by simp [kept]
  | _ :: _, [] => by simp [kept]
  | r :: rs, k :: ks => by
    have ih := kept_sublist rs ks
    simp only [kept]
    split
    · exact ih.cons r
    · exact ih.cons_cons r

/-! ### `write` and reading back -/

theorem stage_ok {fields : List Field} : ∀ {recs : List Rec} {rows : List (List Text)},
    stage fields recs = .ok rows →
      rows = recs.map (List.zipWith fmtCell fields) ∧ ∀ r ∈ recs, r.length = fields.length
  | [], rows, h => by
    simp only [stage, Except.ok.injEq] at h
    subst h
    simp
  | r :: rs, rows, h => by
    simp only [stage] at h
    split at h
    · cases h
    · rename_i t ht
      split at h
      · cases h
      · rename_i ts hts
        simp only [Except.ok.injEq] at h
        subst h
        have ih := stage_ok hts
        simp only [encodeRec] at ht
        split at ht
        · cases ht
        · split at ht
          · cases ht
          · rename_i hlen
            simp only [Except.ok.injEq] at ht
            subst ht
            refine ⟨by simp [ih.1], ?_⟩
            intro r' hr'
            rcases List.mem_cons.mp hr' with e | e
            · subst e; simpa using hlen
            · exact ih.2 r' e

theorem stage_total {fields : List Field} (hne : fields ≠ []) : ∀ (recs : List Rec),
    (∀ r ∈ recs, r.length = fields.length) →
      stage fields recs = .ok (recs.map (List.zipWith fmtCell fields))
  | [], _ => by simp [stage]
  | r :: rs, h => by
    have h1 : r.length = fields.length := h r (by simp)
    have ih := stage_total hne rs (fun r' hr' => h r' (by simp [hr']))
    have hf : fields.isEmpty = false := by cases fields <;> simp_all
    simp [stage, encodeRec, hf, h1, ih]

theorem read_writeRel (now : Nat) (gz : Bool) (rows : List (List Text)) :
    (writeRel now gz rows).read = some (rows.map readRow) := by
  unfold writeRel
  split <;> simp [RelFiles.read, RelFiles.useGz]

theorem readCell_proper (t : Text) : Proper (readCell t) := by
  unfold readCell Proper
  split
  · simp
  · rename_i h
    intro e
    simp at e
    simp [e] at h

theorem readCell_defaulted (f : Field) (c : Cell) (hp : Proper c) :
    readCell (fmtCell f c) = defaulted f c := by
  cases c with
  | none => simp [fmtCell, defaulted]
  | some t =>
    have : t ≠ [] := by intro e; apply hp; simp [e]
    cases t with
    | nil => exact absurd rfl this
    | cons a as => simp [fmtCell, defaulted, readCell]

theorem readRow_fmt : ∀ (fields : List Field) (r : Rec), (∀ c ∈ r, Proper c) →
    readRow (List.zipWith fmtCell fields r) = List.zipWith defaulted fields r
  | [], _, _ => by simp [readRow]
  | _ :: _, [], _ => by simp [readRow]
  | f :: fs, c :: cs, h => by
    have ih := readRow_fmt fs cs (fun c' hc' => h c' (by simp [hc']))
    simp only [readRow] at ih
    simp [readRow, readCell_defaulted f c (h c (by simp)), ih]

theorem read_proper {r : RelFiles} {rows : List Rec} (h : r.read = some rows) :
    ∀ row ∈ rows, ∀ c ∈ row, Proper c := by
  unfold RelFiles.read at h
  cases hf : (if r.useGz then r.gz else r.tx) with
  | none => simp [hf] at h
  | some f =>
    simp only [hf, Option.map_some, Option.some.injEq] at h
    subst h
    intro row hrow c hc
    simp only [List.mem_map] at hrow
    obtain ⟨ts, _, rfl⟩ := hrow
    simp only [readRow, List.mem_map] at hc
    obtain ⟨t, _, rfl⟩ := hc
    exact readCell_proper t

theorem lookupLast_mem {α} : ∀ (ps : List (Name × α)) (n : Name) (v : α),
    lookupLast ps n = some v → (n, v) ∈ ps
  | [], _, _, h => by simp [lookupLast] at h
  | (k, w) :: rest, n, v, h => by
    simp only [lookupLast] at h
    split at h
    · rename_i x hx
      cases h
      exact List.mem_cons_of_mem _ (lookupLast_mem rest n v hx)
    · split at h
      · rename_i hk
        cases h
        simp [hk]
      · cases h

theorem remake_proper (oldF newF : List Field) (r : Rec) (h : ∀ c ∈ r, Proper c) :
    ∀ c ∈ remake oldF newF r, Proper c := by
  intro c hc
  simp only [remake, List.mem_map] at hc
  obtain ⟨f, _, rfl⟩ := hc
  cases hl : lookupLast ((oldF.map (·.name)).zip r) f.name with
  | none => simp [Proper]
  | some v =>
    have hm := lookupLast_mem _ _ _ hl
    have : v ∈ r := (List.of_mem_zip hm).2
    simpa using h v this

theorem remake_length (oldF newF : List Field) (r : Rec) : (remake oldF newF r).length = newF.length := by
  simp [remake]

/-! ### the write loop -/

theorem writeLoop_ok (now : Nat) (gz : Bool)
    (recsOf : Files → Name → List Field → Except Err (List Rec))
    (hloc : ∀ fs1 fs2 t f, fs1 t = fs2 t → recsOf fs1 t f = recsOf fs2 t f) :
    ∀ (s : Schema) (fs fs' : Files), s.names.Nodup → writeLoop now gz recsOf fs s = (fs', none) →
      (∀ n, n ∉ s.names → fs' n = fs n) ∧
      (∀ t fields, (t, fields) ∈ s → ∃ recs rows, recsOf fs t fields = .ok recs ∧
          stage fields recs = .ok rows ∧ fs' t = writeRel now gz rows)
  | [], fs, fs', _, h => by
    simp only [writeLoop, Prod.mk.injEq, and_true] at h
    subst h
    simp [Schema.names]
  | (t0, f0) :: rest, fs, fs', hnd, h => by
    simp only [Schema.names, List.map_cons, List.nodup_cons] at hnd
    simp only [writeLoop] at h
    split at h
    · simp at h
    · rename_i recs hrecs
      split at h
      · simp at h
      · rename_i rows hrows
        have ih := writeLoop_ok now gz recsOf hloc rest _ fs' hnd.2 h
        constructor
        · intro n hn
          simp only [Schema.names, List.map_cons, List.mem_cons, not_or] at hn
          rw [ih.1 n hn.2]
          simp [Files.set, hn.1]
        · intro t fields ht
          rcases List.mem_cons.mp ht with e | e
          · cases e
            refine ⟨recs, rows, hrecs, hrows, ?_⟩
            rw [ih.1 t0 hnd.1]
            simp [Files.set]
          · obtain ⟨recs', rows', h1, h2, h3⟩ := ih.2 t fields e
            have hne : t ≠ t0 := by
              intro e'
              apply hnd.1
              subst e'
              exact List.mem_map_of_mem (f := (·.1)) e
            refine ⟨recs', rows', ?_, h2, h3⟩
            rw [← h1]
            apply hloc
            simp [Files.set, hne]

theorem writeLoop_total (now : Nat) (gz : Bool)
    (recsOf : Files → Name → List Field → Except Err (List Rec)) :
    ∀ (s : Schema) (fs : Files),
      (∀ t fields, (t, fields) ∈ s → fields ≠ [] ∧ ∀ fs, ∃ recs, recsOf fs t fields = .ok recs ∧
          ∀ r ∈ recs, r.length = fields.length) →
      (writeLoop now gz recsOf fs s).2 = none
  | [], _, _ => by simp [writeLoop]
  | (t0, f0) :: rest, fs, h => by
    obtain ⟨hne, hr⟩ := h t0 f0 (by simp)
    obtain ⟨recs, h1, h2⟩ := hr fs
    simp only [writeLoop, h1, stage_total hne recs h2]
    exact writeLoop_total now gz recsOf rest _ (fun t f ht => h t f (by simp [ht]))


/-! ### small facts used by Props -/

theorem lookup_of_mem {α} : ∀ (s : List (Name × α)) (t : Name) (v : α),
    (s.map (·.1)).Nodup → (t, v) ∈ s → s.lookup t = some v
  | [], _, _, _, h => by simp at h
  | (k, w) :: rest, t, v, hnd, h => by
    simp only [List.map_cons, List.nodup_cons] at hnd
    rcases List.mem_cons.mp h with e | e
    · cases e
      simp [List.lookup]
    · have hne : t ≠ k := by
        intro e'
        subst e'
        exact hnd.1 (List.mem_map_of_mem (f := (·.1)) e)
      have : (t == k) = false := by simpa using hne
      simp only [List.lookup, this]
      exact lookup_of_mem rest t v hnd.2 e

theorem mem_names {s : Schema} {t : Name} {f : List Field} (h : (t, f) ∈ s) : t ∈ s.names :=
  List.mem_map_of_mem (f := (·.1)) h

theorem contains_names {s : Schema} {t : Name} {f : List Field} (h : (t, f) ∈ s) :
    s.names.contains t = true := by
  simp [mem_names h]

theorem keeps_plain {s : Schema} {t : Name} {f : List Field} (h : (t, f) ∈ s) : keeps s false t = true := by
  simp [keeps, mem_names h]

theorem keeps_skeleton {s : Schema} {t : Name} {f : List Field} (h : (t, f) ∈ s) :
    keeps s true t = coreFiles.contains t := by
  simp [keeps, mem_names h]

theorem cleanupOne_keep (r : RelFiles) : cleanupOne true false r = r := by
  cases r with
  | mk tx gz => cases tx <;> cases gz <;> simp [cleanupOne]

theorem refreshRecords_local (old : Schema) (b : Bool) (fs1 fs2 : Files) (t : Name) (f : List Field)
    (h : fs1 t = fs2 t) : refreshRecords old b fs1 t f = refreshRecords old b fs2 t f := by
  simp [refreshRecords, h]


/-! ### matching columns by name -/

theorem lookupLast_zip_not_mem : ∀ (names : List Name) (r : Rec) (n : Name), n ∉ names →
    lookupLast (names.zip r) n = none
  | [], _, _, _ => by simp [lookupLast]
  | _ :: _, [], _, _ => by simp [lookupLast]
  | k :: ns, c :: cs, n, h => by
    simp only [List.mem_cons, not_or] at h
    have ih := lookupLast_zip_not_mem ns cs n h.2
    have hk : ¬ k = n := fun e => h.1 e.symm
    simp [lookupLast, ih, hk]

theorem lookupLast_zip_nodup : ∀ (names : List Name) (r : Rec), names.Nodup →
    ∀ (i : Nat) (h1 : i < names.length) (h2 : i < r.length),
      lookupLast (names.zip r) names[i] = some r[i]
  | [], _, _, i, h1, _ => by simp at h1
  | _ :: _, [], _, i, _, h2 => by simp at h2
  | k :: ns, c :: cs, hnd, i, h1, h2 => by
    rw [List.nodup_cons] at hnd
    cases i with
    | zero =>
      simp only [List.getElem_cons_zero, List.zip_cons_cons, lookupLast]
      rw [lookupLast_zip_not_mem ns cs k hnd.1]
      simp
    | succ j =>
      simp only [List.getElem_cons_succ, List.zip_cons_cons, lookupLast]
      rw [lookupLast_zip_nodup ns cs hnd.2 j (by simpa using h1) (by simpa using h2)]

/-! ### text input -/

theorem linesLoop_length (fields : List Field) (colnames : List LVal) (sp : Splitter) :
    ∀ (lines : List Text) (i : Nat) (seen : List LVal) (recs : List (List LVal)),
      linesLoop fields colnames sp i seen lines = .ok recs → recs.length = lines.length
  | [], _, _, recs, h => by
    simp only [linesLoop, Except.ok.injEq] at h
    subst h
    rfl
  | l :: ls, i, seen, recs, h => by
    simp only [linesLoop] at h
    split at h
    · cases h
    · rename_i r seen' _
      split at h
      · cases h
      · rename_i rs hrs
        simp only [Except.ok.injEq] at h
        subst h
        simp [linesLoop_length fields colnames sp ls (i + 1) seen' rs hrs]

/-! ### join planning -/

theorem reachLoop_sound (ss : Schema) (t : Name) (J : List Name) :
    ∀ (fuel : Nat) (reach : List Name), (∀ n ∈ reach, KeyPath ss t n) →
      ∀ n ∈ reachLoop ss J fuel reach, KeyPath ss t n
  | 0, reach, h => by simpa [reachLoop] using h
  | fuel + 1, reach, h => by
    simp only [reachLoop]
    apply reachLoop_sound ss t J fuel
    intro n hn
    rcases List.mem_append.mp hn with hn | hn
    · exact h n hn
    · simp only [List.mem_filter, Bool.and_eq_true, List.any_eq_true] at hn
      obtain ⟨_, _, m, hm, hs⟩ := hn
      exact KeyPath.step (h m hm) hs

theorem joinPlan_sound (ss : Schema) (t : Name) (rs J : List Name) (h : joinPlan ss t rs = some J) :
    t ∈ J ∧ (∀ r ∈ rs, r ∈ J) ∧ ∀ n ∈ J, KeyPath ss t n := by
  unfold joinPlan at h
  simp only at h
  split at h
  · cases h
  · rename_i pivots _
    split at h
    · rename_i hall
      simp only [Option.some.injEq] at h
      subst h
      refine ⟨by simp, fun r hr => by simp [hr], ?_⟩
      intro n hn
      simp only [List.all_eq_true] at hall
      have hc := hall n hn
      simp only [List.contains_iff_mem] at hc
      exact reachLoop_sound ss t _ _ [t] (fun m hm => by
        simp only [List.mem_singleton] at hm
        subst hm
        exact KeyPath.refl) n hc
    · cases h

theorem keyPath_keyless (ss : Schema) (t n : Name) (hk : keysOf ss t = []) (h : KeyPath ss t n) : n = t := by
  induction h with
  | refl => rfl
  | step _ hs ih =>
    subst ih
    simp [sharesKey, intersects, hk] at hs

/-! ### the write loop, total version for loops that read the directory they write -/

theorem writeLoop_total_local (now : Nat) (gz : Bool)
    (recsOf : Files → Name → List Field → Except Err (List Rec))
    (hloc : ∀ fs1 fs2 t f, fs1 t = fs2 t → recsOf fs1 t f = recsOf fs2 t f) :
    ∀ (s : Schema) (fs : Files), s.names.Nodup →
      (∀ t fields, (t, fields) ∈ s → fields ≠ [] ∧ ∃ recs, recsOf fs t fields = .ok recs ∧
          ∀ r ∈ recs, r.length = fields.length) →
      (writeLoop now gz recsOf fs s).2 = none
  | [], _, _, _ => by simp [writeLoop]
  | (t0, f0) :: rest, fs, hnd, h => by
    simp only [Schema.names, List.map_cons, List.nodup_cons] at hnd
    obtain ⟨hne, recs, h1, h2⟩ := h t0 f0 (by simp)
    simp only [writeLoop, h1, stage_total hne recs h2]
    apply writeLoop_total_local now gz recsOf hloc rest _ hnd.2
    intro t f ht
    obtain ⟨hne', recs', h1', h2'⟩ := h t f (by simp [ht])
    refine ⟨hne', recs', ?_, h2'⟩
    rw [← h1']
    apply hloc
    have : t ≠ t0 := by
      intro e
      subst e
      exact hnd.1 (List.mem_map_of_mem (f := (·.1)) ht)
    simp [Files.set, this]

/-! ### words -/

theorem wc_blank_end : ∀ (s : Text) (b : Bool), IsBlank s → wordCountAux b s = 0
  | [], _, _ => rfl
  | c :: cs, b, h => by
    have hc : isPyWhitespace c = true := h c (by simp)
    simp only [wordCountAux, hc, if_true]
    exact wc_blank_end cs false (fun c' hc' => h c' (by simp [hc']))

theorem wc_blank : ∀ (s rest : Text) (b : Bool), IsBlank s → s ≠ [] →
    wordCountAux b (s ++ rest) = wordCountAux false rest
  | [], _, _, _, h => absurd rfl h
  | [c], rest, b, h, _ => by
    have hc : isPyWhitespace c = true := h c (by simp)
    simp [wordCountAux, hc]
  | c :: d :: cs, rest, b, h, _ => by
    have hc : isPyWhitespace c = true := h c (by simp)
    have ih := wc_blank (d :: cs) rest false (fun c' hc' => h c' (by simp [hc'])) (by simp)
    simp only [List.cons_append, wordCountAux, hc, if_true] at ih ⊢
    exact ih

theorem wc_inword : ∀ (w rest : Text), (∀ c ∈ w, isPyWhitespace c = false) →
    wordCountAux true (w ++ rest) = wordCountAux true rest
  | [], _, _ => rfl
  | c :: cs, rest, h => by
    have hc : isPyWhitespace c = false := h c (by simp)
    simp only [List.cons_append, wordCountAux, hc, Bool.false_eq_true, if_false, if_true, Nat.zero_add]
    exact wc_inword cs rest (fun c' hc' => h c' (by simp [hc']))

theorem wc_word (w rest : Text) (h : IsWord w) :
    wordCountAux false (w ++ rest) = 1 + wordCountAux true rest := by
  obtain ⟨hne, hc⟩ := h
  cases w with
  | nil => exact absurd rfl hne
  | cons c cs =>
    have h0 : isPyWhitespace c = false := hc c (by simp)
    simp only [List.cons_append, wordCountAux, h0, Bool.false_eq_true, if_false]
    rw [wc_inword cs rest (fun c' hc' => hc c' (by simp [hc']))]

theorem wc_assemble : ∀ (ps : List (Text × Text)), (∀ p ∈ ps, IsWord p.1 ∧ IsBlank p.2) → SepOk ps →
    wordCountAux false (assemble ps) = ps.length
  | [], _, _ => rfl
  | [(w, s)], h, _ => by
    obtain ⟨hw, hs⟩ := h (w, s) (by simp)
    simp only [assemble, List.append_nil, List.length_singleton]
    rw [wc_word w s hw, wc_blank_end s true hs]
  | (w, s) :: q :: rest, h, hsep => by
    obtain ⟨hw, hs⟩ := h (w, s) (by simp)
    have ih := wc_assemble (q :: rest) (fun p hp => h p (by simp [hp])) hsep.2
    simp only [assemble, List.append_assoc] at ih ⊢
    rw [wc_word w _ hw, wc_blank s _ true hs hsep.1, ih]
    simp only [List.length_cons]
    omega

/-! ### text input -/

theorem strKey_eq (a b : Name) : (LVal.str a.toList = LVal.str b.toList) ↔ a = b := by
  rw [LVal.str.injEq, String.toList_inj]

theorem key_iId (n : Name) : (LVal.str n.toList = iId) ↔ n = "i-id" := strKey_eq n "i-id"
theorem key_iLength (n : Name) : (LVal.str n.toList = iLength) ↔ n = "i-length" := strKey_eq n "i-length"
theorem key_iInput (n : Name) : (LVal.str n.toList = iInput) ↔ n = "i-input" := strKey_eq n "i-input"
theorem key_iWf (n : Name) : (LVal.str n.toList = iWf) ↔ n = "i-wf" := strKey_eq n "i-wf"

theorem mapGet_append_single (cm : List (LVal × LVal)) (k v n : LVal) :
    mapGet (cm ++ [(k, v)]) n = if k = n then some v else mapGet cm n := by
  induction cm with
  | nil => simp [mapGet]
  | cons p rest ih =>
    obtain ⟨k', v'⟩ := p
    simp only [List.cons_append, mapGet, ih]
    by_cases hk : k = n
    · simp [hk]
    · simp [hk]

theorem addId_get (withId : Bool) (cm : List (LVal × LVal)) (i : Nat) (n : LVal) :
    mapGet (addId withId cm i) n =
      if withId = true ∧ mapGet cm iId = none ∧ iId = n then some (.int i) else mapGet cm n := by
  unfold addId
  cases withId with
  | false => simp
  | true =>
    cases h : mapGet cm iId with
    | none => simp [mapGet_append_single]
    | some v => simp

theorem addLength_get (withLen : Bool) (cm : List (LVal × LVal)) (n : LVal) :
    mapGet (addLength withLen cm) n =
      if withLen = true ∧ mapGet cm iLength = none ∧ iLength = n then
        (match mapGet cm iInput with
         | some v => some (.int (wordCount (strOf v)))
         | none => mapGet cm n)
      else mapGet cm n := by
  unfold addLength
  cases withLen with
  | false => simp
  | true =>
    cases h : mapGet cm iLength with
    | some v => simp
    | none =>
      cases h2 : mapGet cm iInput with
      | none => simp
      | some v =>
        simp only [Bool.true_and, Option.isNone_none, if_true, mapGet_append_single, true_and]

theorem record_field (cm : List (LVal × LVal)) (i : Nat) (withId withLen : Bool) (f : Field)
    (hid : f.name = "i-id" → withId = true) (hlen : f.name = "i-length" → withLen = true) :
    (mapGet (addLength withLen (addId withId cm i)) (.str f.name.toList)).getD .none = recVal cm i f := by
  have hne1 : iId ≠ iLength := by decide
  have hne2 : iId ≠ iInput := by decide
  rw [addLength_get]
  simp only [addId_get, hne1, hne2, and_false, if_false]
  unfold recVal
  by_cases h1 : f.name = "i-id"
  · have k1 : iId = LVal.str f.name.toList := ((key_iId f.name).2 h1).symm
    have k2 : ¬ iLength = LVal.str f.name.toList := by
      intro e; rw [← k1] at e; exact hne1 e.symm
    simp only [hid h1, true_and, h1]
    rw [← h1, ← k1]
    have k3 : ¬ iLength = iId := fun e => hne1 e.symm
    cases h : mapGet cm iId with
    | none => simp [k3]
    | some v => simp [k3]
  · have k1 : ¬ iId = LVal.str f.name.toList := fun e => h1 ((key_iId f.name).1 e.symm)
    simp only [k1, and_false, if_false, h1]
    by_cases h2 : f.name = "i-length"
    · have k2 : iLength = LVal.str f.name.toList := ((key_iLength f.name).2 h2).symm
      simp only [hlen h2, true_and, h2, if_true]
      rw [← h2, ← k2]
      cases h : mapGet cm iLength with
      | some v => simp
      | none =>
        cases h' : mapGet cm iInput with
        | none => simp
        | some v => simp
    · have k2 : ¬ iLength = LVal.str f.name.toList := fun e => h2 ((key_iLength f.name).1 e.symm)
      simp only [k2, and_false, if_false, h2]
      cases h : mapGet cm (LVal.str f.name.toList) <;> simp

theorem addId_idVal (cm : List (LVal × LVal)) (i : Nat) :
    (mapGet (addId true cm i) iId).getD .none = idVal cm i := by
  rw [addId_get]
  unfold idVal
  cases h : mapGet cm iId <;> simp

/-- what one iteration of `_lines_to_records` does, in terms of the documented values -/
theorem lineRecord_eq (fields : List Field) (colnames : List LVal) (sp : Splitter) (i : Nat)
    (seen : List LVal) (line : Text) (cv : List LVal) (hsp : sp.split line = .ok cv)
    (hl : cv.length = colnames.length) :
    lineRecord fields colnames sp i seen line =
      if fields.any (fun f => f.name = "i-id") && seen.contains (idVal (colnames.zip cv) i)
      then .error .commandError
      else .ok (fields.map (recVal (colnames.zip cv) i),
                if fields.any (fun f => f.name = "i-id") then idVal (colnames.zip cv) i :: seen else seen) := by
  unfold lineRecord
  simp only [hsp, hl, ne_eq, not_true_eq_false, if_false]
  have hmap : fields.map (fun f => (mapGet (addLength (fields.any (fun f => f.name = "i-length"))
        (addId (fields.any (fun f => f.name = "i-id")) (colnames.zip cv) i)) (.str f.name.toList)).getD .none)
      = fields.map (recVal (colnames.zip cv) i) := by
    apply List.map_congr_left
    intro f hf
    apply record_field
    · intro h
      simp only [List.any_eq_true, decide_eq_true_eq]
      exact ⟨f, hf, h⟩
    · intro h
      simp only [List.any_eq_true, decide_eq_true_eq]
      exact ⟨f, hf, h⟩
  rw [hmap]
  cases hw : fields.any (fun f => decide (f.name = "i-id")) with
  | false => simp
  | true => simp only [addId_idVal, Bool.true_and, if_true]

theorem lineRecord_inv (fields : List Field) (colnames : List LVal) (sp : Splitter) (i : Nat)
    (seen seen' : List LVal) (line : Text) (r : List LVal)
    (h : lineRecord fields colnames sp i seen line = .ok (r, seen')) :
    ∃ cv, sp.split line = .ok cv ∧ cv.length = colnames.length ∧
      r = fields.map (recVal (colnames.zip cv) i) ∧
      (fields.any (fun f => f.name = "i-id") = true →
          seen' = idVal (colnames.zip cv) i :: seen ∧ idVal (colnames.zip cv) i ∉ seen) ∧
      (fields.any (fun f => f.name = "i-id") = false → seen' = seen) := by
  cases hsp : sp.split line with
  | error e => simp [lineRecord, hsp] at h
  | ok cv =>
    by_cases hl : cv.length = colnames.length
    · rw [lineRecord_eq fields colnames sp i seen line cv hsp hl] at h
      split at h
      · cases h
      · rename_i hc
        simp only [Except.ok.injEq, Prod.mk.injEq] at h
        refine ⟨cv, rfl, hl, h.1.symm, ?_, ?_⟩
        · intro hw
          simp only [hw, Bool.true_and, if_true] at h hc
          refine ⟨h.2.symm, ?_⟩
          simpa using hc
        · intro hw
          simp only [hw, Bool.false_eq_true, if_false] at h
          exact h.2.symm
    · simp only [lineRecord, hsp, ne_eq, hl, not_false_eq_true, if_true] at h
      split at h <;> cases h

/-- success of the loop means: one item per line, every item exactly the documented one, and (when
the relation has an `i-id` field) pairwise different identifiers. -/
theorem linesLoop_inv (fields : List Field) (colnames : List LVal) (sp : Splitter) :
    ∀ (lines : List Text) (i : Nat) (seen : List LVal) (recs : List (List LVal)),
      linesLoop fields colnames sp i seen lines = .ok recs →
      recs = delimRecs fields colnames sp i lines ∧
      (fields.any (fun f => f.name = "i-id") = true → seen.Nodup →
        ∃ ids : List LVal, lineIds colnames sp i lines = ids.map some ∧ (ids.reverse ++ seen).Nodup)
  | [], _, _, recs, h => by
    simp only [linesLoop, Except.ok.injEq] at h
    subst h
    exact ⟨rfl, fun _ hs => ⟨[], rfl, by simpa using hs⟩⟩
  | l :: ls, i, seen, recs, h => by
    simp only [linesLoop] at h
    split at h
    · cases h
    · rename_i r seen' hr
      split at h
      · cases h
      · rename_i rs hrs
        simp only [Except.ok.injEq] at h
        subst h
        obtain ⟨cv, h1, _, h3, h4, _⟩ := lineRecord_inv fields colnames sp i seen seen' l r hr
        obtain ⟨ih1, ih2⟩ := linesLoop_inv fields colnames sp ls (i + 1) seen' rs hrs
        refine ⟨by simp [delimRecs, h1, h3, ih1], ?_⟩
        intro hw hs
        obtain ⟨e1, e2⟩ := h4 hw
        have hs' : seen'.Nodup := by
          rw [e1]
          exact List.nodup_cons.mpr ⟨e2, hs⟩
        obtain ⟨ids, hi1, hi2⟩ := ih2 hw hs'
        refine ⟨idVal (colnames.zip cv) i :: ids, by simp [lineIds, h1, hi1], ?_⟩
        rw [e1] at hi2
        simpa using hi2

/-- plain sentence lines: the column map of a line and its documented values -/
theorem recVal_plain (i : Nat) (line : Text) (f : Field) :
    recVal [(iWf, .int (plainWf line)), (iInput, .str (plainText line))] i f = plainVal i line f := by
  unfold recVal plainVal
  by_cases h1 : f.name = "i-wf"
  · simp [mapGet, iInput, iWf, h1]
  · have k1 : ¬ iWf = LVal.str f.name.toList := fun e => h1 ((key_iWf f.name).1 e.symm)
    by_cases h2 : f.name = "i-input"
    · simp [mapGet, iInput, h2]
    · have k2 : ¬ iInput = LVal.str f.name.toList := fun e => h2 ((key_iInput f.name).1 e.symm)
      simp [mapGet, k1, k2, h1, h2, strOf]

theorem plain_split (line : Text) :
    Splitter.plain.split line = .ok [.int (plainWf line), .str (plainText line)] := by
  cases line with
  | nil => rfl
  | cons c cs =>
    by_cases hc : c = '*'
    · subst hc; rfl
    · have e1 : plainWf (c :: cs) = 1 := by
        unfold plainWf
        split
        · rename_i heq
          simp only [List.cons.injEq] at heq
          exact absurd heq.1 hc
        · rfl
      have e2 : plainText (c :: cs) = c :: cs := by
        unfold plainText
        split
        · rename_i heq
          simp only [List.cons.injEq] at heq
          exact absurd heq.1 hc
        · rfl
      rw [e1, e2]
      simp only [Splitter.split]
      split
      · rename_i heq
        simp only [List.cons.injEq] at heq
        exact absurd heq.1 hc
      · rfl

/-- plain sentence lines never fail: the identifiers are the line numbers, all fresh -/
theorem linesLoop_plain (fields : List Field) :
    ∀ (lines : List Text) (i : Nat) (seen : List LVal), (∀ v ∈ seen, ∃ j, j < i ∧ v = .int j) →
      linesLoop fields [iWf, iInput] .plain i seen lines = .ok (plainRecs fields i lines)
  | [], _, _, _ => rfl
  | l :: ls, i, seen, hseen => by
    have hid : idVal ([iWf, iInput].zip [LVal.int (plainWf l), LVal.str (plainText l)]) i = .int i := by
      have a : ¬ iInput = iId := by decide
      have b : ¬ iWf = iId := by decide
      simp [idVal, mapGet, a, b]
    have hfresh : seen.contains (LVal.int i) = false := by
      cases hc : seen.contains (LVal.int i) with
      | false => rfl
      | true =>
        simp only [List.contains_iff_mem] at hc
        obtain ⟨j, hj, e⟩ := hseen _ hc
        simp only [LVal.int.injEq] at e
        omega
    simp only [linesLoop]
    rw [lineRecord_eq fields [iWf, iInput] .plain i seen l _ (plain_split l) (by simp)]
    simp only [hid, hfresh, Bool.and_false, Bool.false_eq_true, if_false]
    have hmap : fields.map (recVal ([iWf, iInput].zip [LVal.int (plainWf l), LVal.str (plainText l)]) i)
        = fields.map (plainVal i l) := by
      apply List.map_congr_left
      intro f _
      exact recVal_plain i l f
    rw [hmap]
    have ih := linesLoop_plain fields ls (i + 1)
      (if fields.any (fun f => f.name = "i-id") then LVal.int i :: seen else seen) (by
        intro v hv
        split at hv
        · rcases List.mem_cons.mp hv with e | e
          · exact ⟨i, by omega, e⟩
          · obtain ⟨j, hj, e'⟩ := hseen v e
            exact ⟨j, by omega, e'⟩
        · obtain ⟨j, hj, e'⟩ := hseen v hv
          exact ⟨j, by omega, e'⟩)
    simp only [ih, plainRecs]

/-! ### small facts about the specification functions -/

/-- the default is applied once: refreshing an already refreshed cell changes nothing. -/
theorem defaulted_idem (f : Field) (c : Cell) : defaulted f (defaulted f c) = defaulted f c := by
  cases c with
  | some t => rfl
  | none =>
    simp only [defaulted]
    cases h : readCell f.default with
    | none => simp
    | some t => rfl

/-- the `k`-th sentence line (counting from 0, first identifier `i`) gives the documented item -/
theorem plainRecs_get (fields : List Field) : ∀ (lines : List Text) (i k : Nat) (hk : k < lines.length),
    (plainRecs fields i lines)[k]? = some (fields.map (plainVal (i + k) lines[k]))
  | [], _, _, hk => by simp at hk
  | l :: ls, i, 0, _ => by simp [plainRecs]
  | l :: ls, i, k + 1, hk => by
    have := plainRecs_get fields ls (i + 1) k (by simpa using hk)
    simp only [plainRecs, List.getElem?_cons_succ, List.getElem_cons_succ, this]
    congr 3
    omega

theorem plainRecs_length (fields : List Field) : ∀ (lines : List Text) (i : Nat),
    (plainRecs fields i lines).length = lines.length
  | [], _ => rfl
  | _ :: ls, i => by simp [plainRecs, plainRecs_length fields ls (i + 1)]

/-- what is stored and read back for an item: per field the text of its value (`None` ⇒ default),
an empty text reading back as `None` -/
theorem item_cells (fields : List Field) (g : Field → LVal) :
    readRow (encodeL fields (fields.map g)) = fields.map (fun f => readCell ((g f).text f)) := by
  unfold encodeL readRow
  induction fields with
  | nil => rfl
  | cons f fs ih =>
    simp only [List.map_cons, List.zipWith_cons_cons, List.cons.injEq, true_and]
    exact ih

/-- the clean-up of a skeleton on a freshly written relation: kept iff it is to be kept and has rows -/
theorem cleanupOne_skeleton (k : Bool) (now : Nat) (gz : Bool) (rows : List (List Text)) :
    cleanupOne k true (writeRel now gz rows) = if k && !rows.isEmpty then writeRel now gz rows else {} := by
  cases k <;> cases gz <;> cases rows <;> simp [cleanupOne, writeRel]

theorem cleanupOne_skeleton_keep (now : Nat) (gz : Bool) (rows : List (List Text)) (h : rows.isEmpty = false) :
    cleanupOne true true (writeRel now gz rows) = writeRel now gz rows := by
  rw [cleanupOne_skeleton]; simp [h]

theorem cleanupOne_skeleton_drop (k : Bool) (now : Nat) (gz : Bool) (rows : List (List Text))
    (h : k = false ∨ rows = []) : cleanupOne k true (writeRel now gz rows) = {} := by
  rw [cleanupOne_skeleton]
  rcases h with h | h <;> simp [h]

end L

end Verif.C12
