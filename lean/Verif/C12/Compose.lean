/-
C12 — the COMPOSED model of `mkprof` on profile directories: nothing about the filter or about
record encoding is a parameter any more.

* the filter is C11's `select` (`Verif.C11.Model`): `* from T where c` on the source database as
  C11 models it (column resolution, join planning with pivot relations, hash join on the cast values
  of shared keys, condition evaluation); only `re.search` stays a parameter (`rx`), as in C11;
* the files are C09's (`Verif.C09.Model`): relations are line files in plain / compressed form
  with mtimes, records are encoded and decoded with the C08 codec (`stage`, `readRaw`), the copy
  goes through C09's `write`, the in-place refresh IS C09's `writeDb`;
* this file holds only the adapters between the islands' types (field lists, cells, errors) and the
  control flow of `_mkprof_from_database`, `mkprof(refresh=True)` and `_mkprof_cleanup`.
Core Lean only.
-/
import Verif.C09.Model
import Verif.C11.Model
import Verif.C12.Model

namespace Verif.C12.Compose
open Verif.Tables
open Verif.C12

/-! ### adapters -/

def dtOf (s : String) : Option C08.DType :=
  if s = ":integer" then some .integer
  else if s = ":string" then some .string
  else if s = ":date" then some .date
  else none

def dt11 : C08.DType → C11.DType
  | .integer => .integer
  | .string => .string
  | .date => .date

/-- a field as C09 sees it (name, datatype) -/
def f09 (f : Field) : C09.Field := ⟨f.name.toList, (dtOf f.dt).getD .string⟩

/-- a field as C11 sees it (name, datatype, is it a key) -/
def f11 (f : Field) : C11.Field :=
  ⟨f.name, if f.dt = ":float" then .float else dt11 ((dtOf f.dt).getD .string), f.isKey⟩

def schema09 (ss : Schema) : C09.Schema := ss.map (fun t => (t.1.toList, t.2.map f09))

/-- every datatype is one of the three the neighbouring models know -/
def typed (ss : Schema) : Bool := ss.all (fun t => t.2.all (fun f => (dtOf f.dt).isSome))

def err09 : C09.Err → Err
  | .tsdbError => .tsdbError
  | .schemaError => .tsdbError
  | .keyError => .keyError
  | .valueError => .valueError
  | _ => .unmodelled

/-- a datetime as the sortable number YYYYMMDDhhmmss (C11's encoding) -/
def dateKey (t : C08.DT) : Nat :=
  ((((t.y * 100 + t.mo) * 100 + t.d) * 100 + t.H) * 100 + t.M) * 100 + t.S

def val11 : C08.Val → C11.Val
  | .none => .none
  | .int i => .int i
  | .str s => .str s
  | .date t => .date (dateKey t)

/-- `[f(x) for x in xs]` where `f` may raise -/
def mapE {α β} (f : α → Except Err β) : List α → Except Err (List β)
  | [] => .ok []
  | a :: as =>
    match f a with
    | .error e => .error e
    | .ok b =>
      match mapE f as with
      | .error e => .error e
      | .ok bs => .ok (b :: bs)

mutual
/-- the column names a condition mentions (qualified or not) -/
def condCols : C11.Cond C11.ColRef → List String
  | .leaf _ c _ => [c.col]
  | .not c => condCols c
  | .and cs => condColsList cs
  | .or cs => condColsList cs
def condColsList : List (C11.Cond C11.ColRef) → List String
  | [] => []
  | c :: cs => condCols c ++ condColsList cs
end

/-- does the real code ever cast this column while answering the query?  Only key columns (join keys,
`select_from(..., cast=True)`) and the columns of the condition (`_process_condition_function`). -/
def castNeeded (cols : List String) (f : Field) : Bool := f.isKey || cols.contains f.name

/-- a stored cell with its cast value (`tsdb.cast`, C08); a column that is never cast carries no value -/
def cell11 (cols : List String) (f : Field) (raw : Option (List Char)) : Except Err C11.Cell :=
  if !castNeeded cols f then .ok ⟨raw, .none⟩ else
  match C08.cast ((dtOf f.dt).getD .string) (raw.getD []) with
  | .val v => .ok ⟨raw, val11 v⟩
  | .err _ => .error .unmodelled

def row11 (cols : List String) (fields : List Field) (r : Rec) : Except Err (List C11.Cell) :=
  if r.length ≠ fields.length then .error .unmodelled
  else mapE (fun fc => cell11 cols fc.1 fc.2) (fields.zip r)

/-- the rows of a relation as `Database(autocast=False)` reads them; `none`: no file -/
def rawRows (fs : C09.Files) (n : Name) : Except Err (Option (List Rec)) :=
  match (fs n.toList).read with
  | none => .ok none
  | some _ =>
    match C09.readRaw (fs n.toList) with
    | .ok rs => .ok (some rs)
    | .error e => .error (err09 e)

/-- one relation of the source database for C11 (a relation without file has no rows; its name
is remembered, see `selectC`) -/
def rel11 (cols : List String) (fs : C09.Files) (t : Name × List Field) : Except Err (C11.Rel × Bool) :=
  match rawRows fs t.1 with
  | .error e => .error e
  | .ok none => .ok ({ name := t.1, fields := t.2.map f11, rows := [] }, true)
  | .ok (some rs) =>
    match mapE (row11 cols t.2) rs with
    | .error e => .error e
    | .ok rows => .ok ({ name := t.1, fields := t.2.map f11, rows := rows }, false)

/-- the source profile as a C11 database, and the relations that have no file -/
def toDB (cols : List String) (ss : Schema) (fs : C09.Files) : Except Err (C11.DB × List Name) :=
  match mapE (rel11 cols fs) ss with
  | .error e => .error e
  | .ok rs => .ok (rs.map (·.1), (rs.filter (·.2)).map (·.1.name))

/-! ### the filter: C11's select -/

/-- the query `* from {table} where {condition}` of `_mkprof_from_database` -/
def queryOf (t : Name) (c : C11.Cond C11.ColRef) : C11.Query :=
  { proj := .star, rels := [t], cond := some c }

/-- the relations C11's planner joins for a query (the same three calls as `C11.select`) -/
def plannedRels (db : C11.DB) (q : C11.Query) : List String :=
  match C11.resolveProj db q, C11.resolveQCond db q with
  | .ok proj, .ok cond =>
    let cfs := match cond with | none => [] | some c => C11.condFields c
    match C11.planJoins db proj cfs q.rels with
    | .ok plan => plan.joins.map (·.1)
    | .error _ => []
  | _, _ => []

inductive SelRes where
  | rows (rs : List Rec)     -- the selection's data (T's columns), in C11's order
  | tsqlError                -- `TSQLError`: documented fallback
  | raise (e : Err)

/-- `tsql.select('* from T where c', db)` through C11 -/
def selectC (rx : List Char → List Char → Bool) (ss : Schema) (fs : C09.Files) (t : Name)
    (c : C11.Cond C11.ColRef) : SelRes :=
  match toDB (condCols c) ss fs with
  | .error e => .raise e
  | .ok (db, missing) =>
    match C11.select rx db (queryOf t c) with
    | .error .tsqlError => .tsqlError
    | .error .keyError => .raise .keyError
    | .error .syntaxError => .raise .tsqlSyntaxError
    | .error _ => .raise .unmodelled
    | .ok res =>
      -- `_select_raw` of a joined relation that has no file: `TSDBError` (after planning)
      if (plannedRels db (queryOf t c)).any (fun n => missing.contains n) then .raise .tsdbError
      else .rows res.rows

/-! ### `_mkprof_from_database` over C09's files -/

structure CDir where
  schema : Option Schema
  files : C09.Files

structure CParams where
  schema : Option Schema
  cond : Option (C11.Cond C11.ColRef)     -- the parsed `where` (C11 proves parse ∘ print = id)
  full : Bool
  gzip : Bool
  skeleton : Bool

/-- the rows selected from the source relation `t` (its raw rows are `rows`) -/
def selectRowsC (rx : List Char → List Char → Bool) (ss : Schema) (src : C09.Files)
    (cond : Option (C11.Cond C11.ColRef)) (t : Name) (rows : List Rec) : Except Err (List Rec) :=
  match cond with
  | none => .ok rows
  | some c =>
    match selectC rx ss src t c with
    | .rows rs => .ok (tsqlDistinct rs)
    | .tsqlError => .ok rows
    | .raise e => .error e

def dbRecordsC (rx : List Char → List Char → Bool) (ss : Schema) (src : C09.Files) (p : CParams)
    (target : Schema) (t : Name) (newF : List Field) : Except Err (List Rec) :=
  let toCopy := if p.full then target.names else coreFiles
  if !toCopy.contains t then .ok [] else
  match ss.lookup t with
  | none => .ok []
  | some oldF =>
    match rawRows src t with
    | .error e => .error e
    | .ok none => .ok []                 -- `_no_such_relation`
    | .ok (some rows) =>
      match selectRowsC rx ss src p.cond t rows with
      | .error e => .error e
      | .ok recs => .ok (if !recs.isEmpty && oldF ≠ newF then recs.map (remake oldF newF) else recs)

/-- `tsdb.write(dest, table, records, fields, gzip=gzip)` through C09 -/
def writeC (now : Nat) (gzip : Bool) (fields : List Field) (recs : List Rec) (r : C09.Rel) :
    Except Err C09.Rel :=
  match C09.write now r { append := false, gzip := gzip,
                          staged := C09.stage (fields.map f09) (recs.map (·.map C09.toVal)) } with
  | .ok r' => .ok r'
  | .error e => .error (err09 e)

def writeLoopC (now : Nat) (gzip : Bool)
    (recsOf : C09.Files → Name → List Field → Except Err (List Rec)) :
    C09.Files → Schema → C09.Files × Option Err
  | fs, [] => (fs, none)
  | fs, (t, fields) :: rest =>
    match recsOf fs t fields with
    | .error e => (fs, some e)
    | .ok recs =>
      match writeC now gzip fields recs (fs t.toList) with
      | .error e => (fs, some e)
      | .ok r' => writeLoopC now gzip recsOf (fs.set t.toList r') rest

/-- `_mkprof_cleanup` on C09's relation files (a plain file of 0 bytes has no lines) -/
def cleanupOneC (keep skeleton : Bool) (r : C09.Rel) : C09.Rel :=
  { tx := match r.tx with
      | some f => if !keep || (skeleton && f.lines.isEmpty) then none else some f
      | none => none
    gz := match r.gz with
      | some f => if !keep then none else some f
      | none => none }

def cleanupC (dstSchema : Schema) (skeleton : Bool) (old : List Name) (fs : C09.Files) : C09.Files :=
  fun n =>
    match (dstSchema.names ++ old).find? (fun s => s.toList = n) with
    | some s => cleanupOneC (keeps dstSchema skeleton s) skeleton (fs n)
    | none => fs n

def mkprofDbC (rx : List Char → List Char → Bool) (now : Nat) (src dst : CDir) (p : CParams) :
    CDir × Option Err :=
  match src.schema with
  | none => (dst, some .tsdbError)
  | some ss =>
    let target := p.schema.getD ss
    match writeLoopC now p.gzip (fun _ => dbRecordsC rx ss src.files p target) dst.files target with
    | (fs, some e) => ({ schema := some target, files := fs }, some e)
    | (fs, none) => ({ schema := some target, files := cleanupC target p.skeleton ss.names fs }, none)

/-! ### `mkprof(dest, refresh=True)` : C09's `writeDb` in place, then the clean-up -/

def refreshReq (old : Schema) (schema : Option Schema) (gzip : Bool) : C09.DbReq :=
  { srcSchema := schema09 old, autocast := false, inPlace := true, names := none,
    schema := schema.map schema09, gzip := gzip }

def mkprofRefreshC (now : Nat) (dst : CDir) (schema : Option Schema) (gzip skeleton : Bool) :
    CDir × Option Err :=
  match dst.schema with
  | none => (dst, some .tsdbError)
  | some old =>
    let target := schema.getD old
    match C09.writeDb now (refreshReq old schema gzip) dst.files dst.files with
    | (fs, some e) => ({ schema := some target, files := fs }, some (err09 e))
    | (fs, none) => ({ schema := some target, files := cleanupC target skeleton old.names fs }, none)

/-- can the composed model speak about this case?  A `:float` column is plain text for copying and
writing (C09: default empty, value verbatim) and C11 models its type check (a well-typed comparison on
it is answered `unmodelled`, which the driver turns into the fallback path); only a `:float` KEY column
(joined by cast value) and datatypes unknown to all islands are excluded here. -/
def composable (src : Option Schema) (cond : Option (C11.Cond C11.ColRef)) : Bool :=
  match src, cond with
  | some s, some _ =>
    s.all (fun t => t.2.all (fun f => (dtOf f.dt).isSome || (f.dt = ":float" && !f.isKey)))
  | _, _ => true

end Verif.C12.Compose
