/-
C12 — the COMPOSED model of `mkprof` on sentence input (round 6): from the characters of the input
stream to the `item` file on disk.

* the text layer that the round-1 model (`mkprofLines`) took as given — "the lines" — is modelled:
  `source.open()` opens the sentence file in text mode with universal newlines (`universalNl`:
  `\r\n` and a lone `\r` become `\n`), `iter(stream)` cuts the text after every `\n` and delivers a
  final unterminated fragment as a line of its own (`pyIter`), `_lines_to_records` strips the
  terminator with `line.rstrip('\n')` (`rstripNl`);
* the records made by `_lines_to_records` (`linesLoop`, unchanged) are written through C09's `write`
  with the C08 codec (`format`, `escape`, one `@` per column boundary) and the observation reads
  them back through C09's `readRaw` (`splitLines`, `splitRaw`, `unescape`);
* `initialize_database(dest, schema, files=True)` and `_mkprof_cleanup` act on C09's relation files.
Nothing is a parameter here.  Core Lean only.
-/
import Verif.C12.Compose

namespace Verif.C12.Compose
open Verif.Tables Verif.C12

/-! ### the text layer -/

/-- the decoder of a text file opened with `newline=None` (what `Path.open()` does): `\r\n` and a
lone `\r` are translated to `\n` -/
def universalAux : Bool → Text → Text
  | _, [] => []
  | afterCR, c :: cs =>
    if afterCR && c = '\n' then universalAux false cs          -- second half of `\r\n`
    else if c = '\r' then '\n' :: universalAux true cs
    else c :: universalAux false cs

def universalNl (t : Text) : Text := universalAux false t

/-- `iter(stream)` on the decoded text: every line WITH its `\n`; a final fragment without one is a
line too (unless it is empty) -/
def pyIterAux : Text → Text → List Text
  | cur, [] => if cur.isEmpty then [] else [cur.reverse]
  | cur, c :: cs => if c = '\n' then ('\n' :: cur).reverse :: pyIterAux [] cs else pyIterAux (c :: cur) cs

def pyIter (t : Text) : List Text := pyIterAux [] t

/-- `line.rstrip('\n')`: ALL trailing newlines go -/
def rstripNl (l : Text) : Text := (l.reverse.dropWhile (· = '\n')).reverse

/-- how the stream was opened -/
inductive Stream where
  | file      -- `source.open()`: universal newlines
  | asIs      -- `sys.stdin` handed in by the caller: the text as that stream presents it
deriving Repr, DecidableEq

/-- the argument of `split(...)` for every iteration of the loop of `_lines_to_records` (and for the
header line in `_make_split`) -/
def streamLines (s : Stream) (raw : Text) : List Text :=
  (pyIter (match s with | .file => universalNl raw | .asIs => raw)).map rstripNl

/-! ### records of column-map values as C08 values -/

def lval : LVal → C08.Val
  | .none => .none
  | .str s => .str s
  | .int n => .int (Int.ofNat n)

/-- `tsdb.write(dest, 'item', records, fields, gzip=gzip)` through C09 for records of values -/
def writeV (now : Nat) (gzip : Bool) (fields : List Field) (recs : List (List C08.Val)) (r : C09.Rel) :
    Except Err C09.Rel :=
  match C09.write now r { append := false, gzip := gzip, staged := C09.stage (fields.map f09) recs } with
  | .ok r' => .ok r'
  | .error e => .error (err09 e)

/-- `initialize_database(dest, schema, files=True)`: `_cleanup_files` unlinks both forms of every
relation of the schema, then an empty plain file is touched for each -/
def initFilesC (now : Nat) (schema : Schema) (fs : C09.Files) : C09.Files :=
  fun n => if schema.names.any (fun s => s.toList = n) then { tx := some ⟨[], now⟩, gz := none } else fs n

/-- `mkprof(dest, source=<text file>|None, schema=…, delimiter=…, gzip=…, skeleton=…)` -/
def mkprofLinesC (now : Nat) (dst : CDir) (schema : Option Schema) (delim : Option Text)
    (s : Stream) (raw : Text) (gzip skeleton : Bool) : CDir × Option Err :=
  match schema with
  | none => (dst, some .commandError)
  | some [] => (dst, some .commandError)
  | some sch =>
    let sp := Splitter.ofDelim delim
    match makeSplit sp (streamLines s raw) with
    | .error e => (dst, some e)
    | .ok (colnames, rest) =>
      let d1 : CDir := { schema := some sch, files := initFilesC now sch dst.files }
      match sch.lookup "item" with
      | none => (d1, some .keyError)
      | some fields =>
        if fields.isEmpty then (d1, some .unmodelled) else
        match linesLoop fields colnames sp 1 [] rest with
        | .error e => (d1, some e)
        | .ok recs =>
          match writeV now gzip fields (recs.map (·.map lval)) (d1.files "item".toList) with
          | .error e => (d1, some e)
          | .ok r' =>
            ({ schema := some sch, files := cleanupC sch skeleton [] (d1.files.set "item".toList r') }, none)

end Verif.C12.Compose
