/-
C12 — what C11's `select` returns for the query of `_mkprof_from_database`, `* from T where c`:
the stored rows of `T`, in stored order, each once per joined tuple that extends it and satisfies the
condition.  Derived from C11's theorems (`select_eq_spec`: select = filtered, projected nested-loop
join; `nestedStep_inv`, `mergeFields_origin`, `firstJoin_inv`: what the index of a selection
denotes).  No C12 definitions here: statements are about `Verif.C11` only.
-/
import Verif.C11.Props

namespace Verif.C12.Compose.CS
open Verif.C11

theorem flatMap_congr' {α β} (f g : α → List β) : ∀ (l : List α), (∀ a ∈ l, f a = g a) →
    l.flatMap f = l.flatMap g
  | [], _ => rfl
  | a :: l, h => by
    simp only [List.flatMap_cons]
    rw [h a (by simp), flatMap_congr' f g l (fun b hb => h b (by simp [hb]))]

/-! ### the join loop is linear in the rows of the first relation -/

/-- a selection without its rows -/
def blank (s : Sel) : Sel := { s with data := [] }

/-- the joined tuples one non-first join step makes out of the joined tuple `l`: `l` extended by
the requested columns of every stored row of the new relation that agrees with `l` on the shared
keys (C11's `nestedStep`, which C11 proves equal to the hash join of `_join`) -/
def stepF (db : DB) (sel : Sel) (j : String × List String) (l : List Cell) : List (List Cell) :=
  match db.rel? j.1 with
  | none => []
  | some rel =>
    match j.2.mapM rel.fieldIdx? with
    | none => []
    | some indices =>
      let fields := indices.map (fun i => rel.fields.getD i ⟨"", .string, false⟩)
      let on := sharedKeys sel fields
      let fields' := fields.filter (fun f => !on.contains f.name)
      let rV := fields'.filterMap (fun f => rel.fieldIdx? f.name)
      (rel.rows.filter (fun r => agreeOn sel rel on l r)).map (fun r => l ++ pick rV r)

/-- all joined tuples the remaining joins `js` make out of `l` -/
def chainF (db : DB) : Sel → List (String × List String) → List Cell → List (List Cell)
  | _, [], l => [l]
  | s, j :: js, l =>
    match nestedStep db (blank s) j with
    | .ok s' => (stepF db s j l).flatMap (chainF db s' js)
    | .error _ => []

theorem stepF_blank (db : DB) (s : Sel) (j : String × List String) (l : List Cell) :
    stepF db (blank s) j l = stepF db s j l := rfl

theorem chainF_blank (db : DB) (s : Sel) (js : List (String × List String)) (l : List Cell) :
    chainF db (blank s) js l = chainF db s js l := by
  cases js with
  | nil => rfl
  | cons j js => rfl

theorem nestedStep_split (db : DB) (s s1 : Sel) (j : String × List String) (hj : s.joined ≠ [])
    (h : nestedStep db s j = .ok s1) :
    nestedStep db (blank s) j = .ok (blank s1) ∧ s1.data = s.data.flatMap (stepF db s j) ∧
      s1.joined = s.joined ++ [j.1] ∧ j.1 ∉ s.joined := by
  unfold nestedStep at h ⊢
  unfold stepF
  by_cases hc : s.joined.contains j.1 = true
  · simp only [hc, if_true] at h; cases h
  · have hc' : (blank s).joined.contains j.1 = false := by simpa [blank] using hc
    have hnew : j.1 ∉ s.joined := by simpa using hc
    simp only [hc, hc', Bool.false_eq_true, if_false] at h ⊢
    cases hrel : db.rel? j.1 with
    | none => simp only [hrel] at h; cases h
    | some rel =>
      simp only [hrel] at h ⊢
      cases hm : j.2.mapM rel.fieldIdx? with
      | none => simp only [hm] at h; cases h
      | some indices =>
        simp only [hm] at h ⊢
        have he : s.joined.isEmpty = false := by cases hs : s.joined <;> simp_all
        have he' : (blank s).joined.isEmpty = false := he
        simp only [he, he', Bool.false_eq_true, if_false] at h ⊢
        have hsk : sharedKeys (blank s) (indices.map (fun i => rel.fields.getD i ⟨"", .string, false⟩))
            = sharedKeys s (indices.map (fun i => rel.fields.getD i ⟨"", .string, false⟩)) := rfl
        rw [hsk]
        by_cases hon : (sharedKeys s (indices.map (fun i => rel.fields.getD i ⟨"", .string, false⟩))).isEmpty = true
        · simp only [hon, if_true] at h; cases h
        · simp only [hon] at h ⊢
          cases h
          exact ⟨rfl, rfl, rfl, hnew⟩

/-- the rows of a joined selection: every row of the selection before, replaced by its joined tuples -/
theorem nestedJoins_data (db : DB) : ∀ (js : List (String × List String)) (s s' : Sel), s.joined ≠ [] →
    nestedJoins db s js = .ok s' → s'.data = s.data.flatMap (chainF db s js)
  | [], s, s', _, h => by
    simp only [nestedJoins, Except.ok.injEq] at h
    subst h
    simp [chainF]
  | j :: js, s, s', hj, h => by
    simp only [nestedJoins] at h
    split at h
    · cases h
    · rename_i s1 hs1
      obtain ⟨h1, h2, h3, _⟩ := nestedStep_split db s s1 j hj hs1
      have hj1 : s1.joined ≠ [] := by rw [h3]; simp
      rw [nestedJoins_data db js s1 s' hj1 h, h2, List.flatMap_assoc]
      apply flatMap_congr'
      intro l _
      simp only [chainF, h1]
      apply flatMap_congr'
      intro x _
      exact (chainF_blank db s1 js x).symm

theorem stepF_prefix (db : DB) (s : Sel) (j : String × List String) (l x : List Cell)
    (h : x ∈ stepF db s j l) : ∃ suf, x = l ++ suf := by
  unfold stepF at h
  split at h
  · simp at h
  · split at h
    · simp at h
    · simp only [List.mem_map] at h
      obtain ⟨r, _, e⟩ := h
      exact ⟨_, e.symm⟩

theorem chainF_prefix (db : DB) : ∀ (js : List (String × List String)) (s : Sel) (l x : List Cell),
    x ∈ chainF db s js l → ∃ suf, x = l ++ suf
  | [], _, l, x, h => by
    simp only [chainF, List.mem_singleton] at h
    exact ⟨[], by simp [h]⟩
  | j :: js, s, l, x, h => by
    simp only [chainF] at h
    split at h
    · rename_i s' _
      simp only [List.mem_flatMap] at h
      obtain ⟨y, hy, hx⟩ := h
      obtain ⟨suf1, e1⟩ := stepF_prefix db s j l y hy
      obtain ⟨suf2, e2⟩ := chainF_prefix db js s' y x hx
      exact ⟨suf1 ++ suf2, by rw [e2, e1, List.append_assoc]⟩
    · simp at h

/-! ### the columns of the first relation stay where they are -/

theorem qT_step (db : DB) (s s1 : Sel) (j : String × List String) (T : String) (hT : T ∈ s.joined)
    (h : nestedStep db s j = .ok s1) (c : String) (p : Nat)
    (hp : dictGet s1.index (.q T c) = some p) : dictGet s.index (.q T c) = some p := by
  have hj : s.joined ≠ [] := by intro e; rw [e] at hT; simp at hT
  unfold nestedStep at h
  by_cases hc : s.joined.contains j.1 = true
  · simp only [hc, if_true] at h; cases h
  · have hnew : j.1 ∉ s.joined := by simpa using hc
    have hne : j.1 ≠ T := fun e => hnew (e ▸ hT)
    simp only [hc, Bool.false_eq_true, if_false] at h
    cases hrel : db.rel? j.1 with
    | none => simp only [hrel] at h; cases h
    | some rel =>
      simp only [hrel] at h
      cases hm : j.2.mapM rel.fieldIdx? with
      | none => simp only [hm] at h; cases h
      | some indices =>
        simp only [hm] at h
        have he : s.joined.isEmpty = false := by cases hs : s.joined <;> simp_all
        simp only [he, Bool.false_eq_true, if_false] at h
        split at h
        · cases h
        · cases h
          have ho := mergeFields_origin _ _ _ _ _ _ hp
          rcases ho with o | ⟨k, _, e, _⟩
          · rcases o with o | ⟨i, f, _, _, _, e⟩
            · exact o
            · rcases e with e | e | ⟨e, _⟩
              · cases e
              · cases e; exact absurd rfl hne
              · cases e
          · cases e; exact absurd rfl hne

theorem qT_joins (db : DB) (T : String) : ∀ (js : List (String × List String)) (s s' : Sel),
    T ∈ s.joined → nestedJoins db s js = .ok s' →
    ∀ c p, dictGet s'.index (.q T c) = some p → dictGet s.index (.q T c) = some p
  | [], s, s', _, h => by
    simp only [nestedJoins, Except.ok.injEq] at h
    subst h
    exact fun _ _ hp => hp
  | j :: js, s, s', hT, h => by
    simp only [nestedJoins] at h
    split at h
    · cases h
    · rename_i s1 hs1
      have hj : s.joined ≠ [] := by intro e; rw [e] at hT; simp at hT
      obtain ⟨_, _, h3, _⟩ := nestedStep_split db s s1 j hj hs1
      have hT1 : T ∈ s1.joined := by rw [h3]; simp [hT]
      intro c p hp
      exact qT_step db s s1 j T hT hs1 c p (qT_joins db T js s1 s' hT1 h c p hp)

/-! ### the first join -/

theorem firstStep (db : DB) (name : String) (cols : List String) (s1 : Sel)
    (h : nestedStep db Sel.empty (name, cols) = .ok s1) :
    ∃ rel indices, db.rel? name = some rel ∧ cols.mapM rel.fieldIdx? = some indices ∧
      s1.data = rel.rows.map (pick indices) ∧ Points s1.index indices rel ∧ s1.joined = [name] ∧
      s1.fields.length = indices.length := by
  have hj : joinStep db Sel.empty (name, cols) = .ok s1 := by rw [joinStep_eq_nestedStep]; exact h
  obtain ⟨rel, indices, h1, h2, h3, h4⟩ := firstJoin_inv hj
  refine ⟨rel, indices, h1, h2, h3, h4, ?_, ?_⟩
  · unfold nestedStep at h
    simp only [Sel.empty, List.contains_nil, Bool.false_eq_true, if_false, h1, h2, List.isEmpty_nil,
      if_true, Except.ok.injEq] at h
    subst h
    simp [mergeFields]
  · unfold nestedStep at h
    simp only [Sel.empty, List.contains_nil, Bool.false_eq_true, if_false, h1, h2, List.isEmpty_nil,
      if_true, Except.ok.injEq] at h
    subst h
    simp [mergeFields]

/-! ### projection of a joined tuple onto the columns of the first relation -/

theorem pick_head (ix : List (Key × Nat)) (T : String) (rel : Rel) (indices : List Nat) (r suf : List Cell)
    (hidx : ∀ c p, dictGet ix (.q T c) = some p →
      p < indices.length ∧ ∀ row, (pick indices row).getD p noCell = cellOf rel row c) :
    (proj : List QName) → (pidx : List Nat) → (∀ qn ∈ proj, qn.1 = T) →
    proj.mapM (fun q => dictGet ix (.q q.1 q.2)) = some pidx →
    pick pidx (pick indices r ++ suf) = proj.map (fun qn => cellOf rel r qn.2)
  | [], pidx, _, h => by
    simp at h; subst h; simp [pick]
  | q :: proj, pidx, hT, h => by
    rw [List.mapM_cons] at h
    cases hq : dictGet ix (.q q.1 q.2) with
    | none => simp [hq] at h
    | some i =>
      cases hl : proj.mapM (fun q => dictGet ix (.q q.1 q.2)) with
      | none => simp [hq, hl] at h
      | some is =>
        simp [hq, hl] at h
        subst h
        have ih := pick_head ix T rel indices r suf hidx proj is (fun qn hqn => hT qn (by simp [hqn])) hl
        have hq1 : q.1 = T := hT q (by simp)
        rw [hq1] at hq
        obtain ⟨hb, hv⟩ := hidx q.2 i hq
        simp only [pick, List.map_cons] at ih ⊢
        rw [ih]
        congr 1
        have hlen : i < (List.map (fun i => r.getD i noCell) indices).length := by simpa using hb
        rw [getD_append_left' _ _ _ hlen]
        exact hv r

/-- `finish` on a selection whose rows are grouped by the rows of the first relation `T`, for a
projection onto columns of `T`: per stored row of `T`, one output row per joined tuple that
satisfies the condition, each carrying the raw cells of that stored row. -/
theorem finish_grouped (rx : List Char → List Char → Bool) (sel : Sel) (proj : List QName)
    (cq : Cond QName) (rows : List (List (Option (List Char)))) (rel : Rel) (indices : List Nat)
    (T : String) (G : List Cell → List (List Cell))
    (hdata : sel.data = (rel.rows.map (pick indices)).flatMap G)
    (hpre : ∀ l x, x ∈ G l → ∃ suf, x = l ++ suf)
    (hidx : ∀ c p, dictGet sel.index (.q T c) = some p →
      p < indices.length ∧ ∀ row, (pick indices row).getD p noCell = cellOf rel row c)
    (hproj : ∀ qn ∈ proj, qn.1 = T)
    (h : finish rx sel proj (some cq) = .ok rows) :
    ∃ ci, indexCond sel.index cq = .ok ci ∧
      rows = rel.rows.flatMap (fun r =>
        ((G (pick indices r)).filter (fun x => evalCond rx x ci)).map
          (fun _ => proj.map (fun qn => (cellOf rel r qn.2).raw))) := by
  unfold finish at h
  cases hp : proj.mapM (fun q => dictGet sel.index (.q q.1 q.2)) with
  | none => simp [hp] at h
  | some pidx =>
    simp only [hp] at h
    cases hc : indexCond sel.index cq with
    | error e => simp [hc] at h
    | ok ci =>
      simp only [hc, Except.ok.injEq] at h
      refine ⟨ci, rfl, ?_⟩
      rw [← h, hdata, List.filter_flatMap, List.map_flatMap, List.flatMap_map]
      apply flatMap_congr'
      intro r _
      apply List.map_congr_left
      intro x hx
      obtain ⟨suf, e⟩ := hpre _ x (List.mem_filter.mp hx).1
      rw [e, pick_head sel.index T rel indices r suf hidx proj pidx hproj hp, List.map_map]
      rfl

/-! ### `*` over one relation, and the head of the plan -/

theorem projFields_all (name : String) : ∀ (fs : List Field) (ka : List String),
    (∀ f ∈ fs, f.name ∉ ka) → (fs.map (·.name)).Nodup →
    (projFields name fs ka).1 = fs.map (fun f => (name, f.name))
  | [], _, _, _ => rfl
  | f :: fs, ka, hka, hnd => by
    simp only [List.map_cons, List.nodup_cons] at hnd
    have hf : f.name ∉ ka := hka f (by simp)
    have hc : ka.contains f.name = false := by simpa using hf
    unfold projFields
    by_cases hk : f.isKey = true
    · simp only [hk, Bool.not_true, Bool.false_eq_true, if_false, hc]
      rw [projFields_all name fs (ka ++ [f.name]) ?_ hnd.2]
      · rfl
      · intro f' hf' hm
        rcases List.mem_append.mp hm with hm | hm
        · exact hka f' (by simp [hf']) hm
        · simp only [List.mem_singleton] at hm
          exact hnd.1 (hm ▸ List.mem_map_of_mem (f := (·.name)) hf')
    · have hk' : f.isKey = false := by simpa using hk
      simp only [hk', Bool.not_false, if_true]
      rw [projFields_all name fs ka (fun f' hf' => hka f' (by simp [hf'])) hnd.2]
      rfl

theorem projectAll_single (db : DB) (T : String) (rel : Rel) (hrel : db.rel? T = some rel)
    (hnd : (rel.fields.map (·.name)).Nodup) :
    projectAll db [T] = .ok (rel.fields.map (fun f => (T, f.name))) := by
  simp only [projectAll, projectAllAux, hrel]
  rw [projFields_all T rel.fields [] (by simp) hnd]
  simp

def HeadName (jm : JoinMap) (T : String) : Prop := ∃ cs tl, jm = (T, cs) :: tl

theorem jmAdd_head (jm : JoinMap) (T r c : String) (h : HeadName jm T) : HeadName (jmAdd jm r c) T := by
  obtain ⟨cs, tl, rfl⟩ := h
  unfold jmAdd
  split
  · simp only [List.map_cons]
    by_cases e : T = r
    · exact ⟨cs ++ [c], tl.map (fun p => if p.1 = r then (p.1, p.2 ++ [c]) else p), by simp [e]⟩
    · exact ⟨cs, tl.map (fun p => if p.1 = r then (p.1, p.2 ++ [c]) else p), by simp [e]⟩
  · exact ⟨cs, tl ++ [(r, [c])], by simp⟩

theorem foldl_jmAdd_head (T : String) : ∀ (qs : List QName) (jm : JoinMap), HeadName jm T →
    HeadName (qs.foldl (fun jm q => jmAdd jm q.1 q.2) jm) T
  | [], _, h => h
  | q :: qs, jm, h => foldl_jmAdd_head T qs _ (jmAdd_head jm T q.1 q.2 h)

theorem foldl_keys_head (T : String) (qs : List QName) (r : String) : ∀ (ks : List String) (jm : JoinMap),
    HeadName jm T → HeadName (ks.foldl (fun jm k => if qs.contains (r, k) then jm else jmAdd jm r k) jm) T
  | [], _, h => h
  | k :: ks, jm, h => by
    simp only [List.foldl_cons]
    apply foldl_keys_head T qs r ks
    split
    · exact h
    · exact jmAdd_head jm T r k h

theorem foldl_all_head (db : DB) (T : String) (qs : List QName) : ∀ (all : List String) (jm : JoinMap),
    HeadName jm T →
    HeadName (all.foldl (fun jm r => (keyNamesOf db r).foldl
      (fun jm k => if qs.contains (r, k) then jm else jmAdd jm r k) jm) jm) T
  | [], _, h => h
  | r :: all, jm, h => by
    simp only [List.foldl_cons]
    exact foldl_all_head db T qs all _ (foldl_keys_head T qs r _ jm h)

theorem orderJoins_prefix (db : DB) : ∀ (n : Nat) (jm : JoinMap) (joins : List (String × List String))
    (jk : List String) (out : List (String × List String)),
    orderJoins db n jm joins jk = .ok out → ∃ tl, out = joins ++ tl
  | 0, [], joins, _, out, h => by
    simp only [orderJoins, Except.ok.injEq] at h
    exact ⟨[], by simp [h]⟩
  | 0, _ :: _, _, _, _, h => by simp [orderJoins] at h
  | n + 1, [], joins, _, out, h => by
    simp only [orderJoins, Except.ok.injEq] at h
    exact ⟨[], by simp [h]⟩
  | n + 1, a :: as, joins, jk, out, h => by
    simp only [orderJoins] at h
    split at h
    · cases h
    · rename_i p _
      obtain ⟨tl, e⟩ := orderJoins_prefix db n _ _ _ out h
      exact ⟨p :: tl, by rw [e]; simp⟩

/-- the plan of `* from T …` starts with `T`: the rows of `T` drive the row order of the selection -/
theorem plan_head (db : DB) (T c0 : String) (ps cfs : List QName) (rels : List String) (plan : Plan)
    (h : planJoins db ((T, c0) :: ps) cfs rels = .ok plan) :
    ∃ cols rest, plan.joins = (T, cols) :: rest := by
  unfold planJoins at h
  simp only at h
  split at h
  · cases h
  · split at h
    · cases h
    · rename_i pivots _
      split at h
      · cases h
      · rename_i joins hoj
        simp only [Except.ok.injEq] at h
        subst h
        have hqs : ∃ qs', (((T, c0) :: ps) ++ cfs).eraseDups = (T, c0) :: qs' := by
          rw [List.cons_append, List.eraseDups_cons]
          exact ⟨_, rfl⟩
        obtain ⟨qs', hq⟩ := hqs
        rw [hq] at hoj
        have h0 : HeadName (((T, c0) :: qs').foldl (fun jm q => jmAdd jm q.1 q.2) []) T := by
          simp only [List.foldl_cons]
          apply foldl_jmAdd_head
          exact ⟨[c0], [], by simp [jmAdd]⟩
        generalize hJM : List.foldl _ _ ((rels ++ _).eraseDups ++ pivots) = jm1 at hoj
        have h1 : HeadName jm1 T := by
          rw [← hJM]
          exact foldl_all_head db T _ _ _ h0
        obtain ⟨cs, tl, hjm⟩ := h1
        rw [hjm] at hoj
        simp only [List.length_cons, orderJoins, List.isEmpty_nil, Bool.true_or, List.find?_cons_of_pos,
          List.nil_append] at hoj
        obtain ⟨tl', e⟩ := orderJoins_prefix db _ _ _ _ joins hoj
        exact ⟨cs, tl', by simpa using e⟩

/-! ### assembly -/

/-- the two facts about a well-formed relation used here (first two conjuncts of `Rel.wf`, whatever
follows them) -/
theorem wf_facts (rel : Rel) (h : rel.wf = true) :
    (rel.fields.map (·.name)).Nodup ∧ ∀ row ∈ rel.rows, row.length = rel.fields.length := by
  unfold Rel.wf at h
  simp only [Bool.and_eq_true, decide_eq_true_eq, List.all_eq_true, and_assoc] at h
  exact ⟨h.1, h.2.1⟩

theorem nodup_getElem_ne {α} : ∀ (l : List α), l.Nodup → ∀ (i j : Nat) (_ : i < j) (hj : j < l.length),
    l[i]'(by omega) ≠ l[j]
  | [], _, _, _, _, hj => by simp at hj
  | a :: l, h, 0, j + 1, _, hj => by
    rw [List.nodup_cons] at h
    simp only [List.getElem_cons_zero, List.getElem_cons_succ]
    intro e
    exact h.1 (e ▸ List.getElem_mem _)
  | a :: l, h, i + 1, j + 1, hij, hj => by
    simp only [List.getElem_cons_succ]
    exact nodup_getElem_ne l (List.nodup_cons.mp h).2 i j (by omega) (by simpa using hj)

theorem fieldIdx_nodup (rel : Rel) (hnd : (rel.fields.map (·.name)).Nodup) (k : Nat) (hk : k < rel.fields.length) :
    rel.fieldIdx? (rel.fields[k]).name = some k := by
  unfold Rel.fieldIdx?
  rw [List.findIdx?_eq_some_iff_getElem]
  refine ⟨hk, by simp, ?_⟩
  intro j hj hp
  simp only [decide_eq_true_eq] at hp
  have hjl : j < rel.fields.length := by omega
  have h1 : (rel.fields.map (·.name))[j]'(by simpa using hjl) = (rel.fields.map (·.name))[k]'(by simpa using hk) := by
    simpa using hp
  exact nodup_getElem_ne _ hnd j k hj (by simpa using hk) h1

theorem starCells (rel : Rel) (T : String) (hnd : (rel.fields.map (·.name)).Nodup) (r : List Cell)
    (hlen : r.length = rel.fields.length) :
    (rel.fields.map (fun f => ((T, f.name) : QName))).map (fun qn => (cellOf rel r qn.2).raw) = r.map (·.raw) := by
  apply List.ext_getElem
  · simp [hlen]
  · intro k h1 h2
    have hk : k < rel.fields.length := by simpa using h1
    simp only [List.getElem_map]
    rw [cellOf_eq rel r _ k (fieldIdx_nodup rel hnd k hk)]
    rw [List.getD_eq_getElem?_getD, List.getElem?_eq_getElem (by omega)]
    rfl

/-- C11's evaluation of the query `* from T where c` on `db`, step by step — every component is the
one C11's `select` computes, none is free:
* `cq`: the user's condition `c` with its columns resolved and type-checked (`resolveQCond`);
* `plan`: C11's join plan for the projection "all columns of `T`" and the columns of `cq`
  (`planJoins`); it starts with `T` (`cols`: the columns read from `T`), `rest` are the further
  joins (the relations of the condition and linking relations);
* `s1`: the selection after reading `T`; `sel`: the selection after all joins (`nestedJoins` — the
  nested-loop form that C11 proves equal to the hash join of `_join`);
* `indices`: where the columns `cols` sit in a stored row of `T`;
* `ci`: `cq` with every column replaced by its position in `sel` (`indexCond`). -/
structure StarPlan (db : DB) (T : String) (c : Cond ColRef) (rel : Rel) where
  cq : Cond QName
  plan : Plan
  cols : List String
  rest : List (String × List String)
  s1 : Sel
  sel : Sel
  indices : List Nat
  ci : Cond Nat
  hcond : resolveQCond db { proj := .star, rels := [T], cond := some c } = .ok (some cq)
  hplan : planJoins db (rel.fields.map (fun f => ((T, f.name) : QName))) (condFields cq) [T] = .ok plan
  hjoins : plan.joins = (T, cols) :: rest
  hfirst : nestedStep db Sel.empty (T, cols) = .ok s1
  hrest : nestedJoins db s1 rest = .ok sel
  hindices : cols.mapM rel.fieldIdx? = some indices
  hci : indexCond sel.index cq = .ok ci

/-- the joined tuples of the stored row `r` of `T` along THE plan: `r` (its columns `cols`) extended,
join step by join step of `rest`, by the stored rows that agree with it on the shared keys (by cast
value) -/
def StarPlan.tuples {db : DB} {T : String} {c : Cond ColRef} {rel : Rel} (P : StarPlan db T c rel)
    (r : List Cell) : List (List Cell) := chainF db P.s1 P.rest (pick P.indices r)

/-- THE condition (resolved, indexed against the plan's selection) on a joined tuple -/
def StarPlan.sat {db : DB} {T : String} {c : Cond ColRef} {rel : Rel} (rx : List Char → List Char → Bool)
    (P : StarPlan db T c rel) (x : List Cell) : Bool := evalCond rx x P.ci

/-- the joined tuples are exactly the rows of C11's joined selection, grouped by the stored row of `T`
they extend -/
theorem StarPlan.data {db : DB} {T : String} {c : Cond ColRef} {rel : Rel} (P : StarPlan db T c rel)
    (hrel : db.rel? T = some rel) : P.sel.data = rel.rows.flatMap P.tuples := by
  obtain ⟨rel', indices, h1, h2, h3, _, h5, _⟩ := firstStep db T P.cols P.s1 P.hfirst
  rw [hrel] at h1
  cases h1
  rw [P.hindices] at h2
  cases h2
  have hj1 : P.s1.joined ≠ [] := by rw [h5]; simp
  rw [nestedJoins_data db P.rest P.s1 P.sel hj1 P.hrest, h3, List.flatMap_map]
  rfl

/-- relational reading of `sat` (C11's `evalCond_evalW`): every joined tuple has witness rows `w` — one
stored row per joined relation, agreeing with the tuple on every column by cast value — and the
condition holds on the tuple iff the resolved condition `cq` holds on the witness rows (`evalW`: each
comparison `n.col op literal` on the cast value of column `col` of `w n`). -/
theorem StarPlan.sat_witness {db : DB} {T : String} {c : Cond ColRef} {rel : Rel}
    (rx : List Char → List Char → Bool) (P : StarPlan db T c rel) (hrel : db.rel? T = some rel)
    (r : List Cell) (hr : r ∈ rel.rows) (x : List Cell) (hx : x ∈ P.tuples r) :
    ∃ w : String → List Cell, WitBy db P.sel.index x w ∧ P.sat rx x = evalW rx db w P.cq := by
  have hinv1 : SelInv db P.s1 := nestedStep_inv db Sel.empty P.s1 _ (selInv_empty db) P.hfirst
  have hinv : SelInv db P.sel := nestedJoins_inv db P.s1 P.rest P.sel hinv1 P.hrest
  have hmem : x ∈ P.sel.data := by
    rw [P.data hrel]
    exact List.mem_flatMap.mpr ⟨r, hr, hx⟩
  obtain ⟨w, _, hw⟩ := hinv.wit x hmem
  exact ⟨w, hw, evalCond_evalW rx db P.sel.index x w hw P.cq P.ci P.hci⟩

/-- **C11's `select` on the query of mkprof.**  If `select` answers for `* from T where c` (`T` a
relation with at least one field), then C11's evaluation `P` (THE resolved condition, THE plan, THE
joined selection, see `StarPlan`) exists and the answer is: for every stored row `r` of `T`, in stored
order, one copy of the raw cells of `r` per joined tuple of `r` along the plan (`P.tuples r`) that
satisfies the condition (`P.sat`). -/
theorem select_star_grouped (rx : List Char → List Char → Bool) (db : DB) (T : String)
    (c : Cond ColRef) (res : Result) (rel : Rel) (hrel : db.rel? T = some rel) (hf : rel.fields ≠ [])
    (h : select rx db { proj := .star, rels := [T], cond := some c } = .ok res) :
    ∃ P : StarPlan db T c rel,
      res.rows = rel.rows.flatMap (fun r =>
        ((P.tuples r).filter (P.sat rx)).map (fun _ => r.map (·.raw))) := by
  obtain ⟨proj, cond, plan, sel, rows, hwf, hproj, hcond, hplan, hsel, hrows, hres⟩ := select_inv h
  -- the relation is well formed
  have hmem : rel ∈ db := List.mem_of_find?_eq_some hrel
  have hrwf : rel.wf = true := by
    simp only [DB.wf, Bool.and_eq_true, List.all_eq_true] at hwf
    exact hwf.2 rel hmem
  obtain ⟨hnd, hlen⟩ := wf_facts rel hrwf
  -- the projection is all columns of T, in order
  have hp : proj = rel.fields.map (fun f => ((T, f.name) : QName)) := by
    simp only [resolveProj] at hproj
    rw [projectAll_single db T rel hrel hnd] at hproj
    exact (Except.ok.inj hproj).symm
  -- the condition resolved
  obtain ⟨cq, hcq⟩ : ∃ cq, cond = some cq := by
    have hc2 := hcond
    simp only [resolveQCond] at hc2
    split at hc2
    · cases hc2
    · cases hc2; exact ⟨_, rfl⟩
  subst hcq
  -- the plan starts with T
  obtain ⟨f0, fs, hfs⟩ : ∃ f0 fs, rel.fields = f0 :: fs := by
    cases hfl : rel.fields with
    | nil => exact absurd hfl hf
    | cons a as => exact ⟨a, as, rfl⟩
  have hp' : proj = (T, f0.name) :: fs.map (fun f => ((T, f.name) : QName)) := by rw [hp, hfs]; rfl
  have hplan0 := hplan
  rw [hp'] at hplan
  obtain ⟨cols, rest, hjoins⟩ := plan_head db T f0.name _ _ _ plan hplan
  rw [runJoins_eq_nestedJoins, hjoins] at hsel
  simp only [nestedJoins] at hsel
  cases hs1 : nestedStep db Sel.empty (T, cols) with
  | error e => simp [hs1] at hsel
  | ok s1 =>
    simp only [hs1] at hsel
    obtain ⟨rel', indices, h1, h2, h3, h4, h5, h6⟩ := firstStep db T cols s1 hs1
    rw [hrel] at h1
    cases h1
    have hinv1 : SelInv db s1 := nestedStep_inv db Sel.empty s1 _ (selInv_empty db) hs1
    have hj1 : s1.joined ≠ [] := by rw [h5]; simp
    have hdata := nestedJoins_data db rest s1 sel hj1 hsel
    rw [h3] at hdata
    have hidx : ∀ c p, dictGet sel.index (.q T c) = some p →
        p < indices.length ∧ ∀ row, (pick indices row).getD p noCell = cellOf rel row c := by
      intro c p hpp
      have h0 := qT_joins db T rest s1 sel (by rw [h5]; simp) hsel c p hpp
      exact ⟨h6 ▸ hinv1.bound _ _ h0, (h4 T c p h0).2⟩
    have hprojT : ∀ qn ∈ proj, qn.1 = T := by
      intro qn hqn
      rw [hp] at hqn
      simp only [List.mem_map] at hqn
      obtain ⟨f, _, e⟩ := hqn
      rw [← e]
    obtain ⟨ci, hci, hr⟩ := finish_grouped rx sel proj cq rows rel indices T (chainF db s1 rest) hdata
      (fun l x hx => chainF_prefix db rest s1 l x hx) hidx hprojT hrows
    refine ⟨{ cq := cq, plan := plan, cols := cols, rest := rest, s1 := s1, sel := sel, indices := indices,
              ci := ci, hcond := hcond, hplan := by rw [← hp]; exact hplan0, hjoins := hjoins,
              hfirst := hs1, hrest := hsel, hindices := h2, hci := hci }, ?_⟩
    rw [hres]
    simp only
    rw [hr]
    apply flatMap_congr'
    intro r hrm
    apply List.map_congr_left
    intro x _
    rw [hp]
    exact starCells rel T hnd r (hlen r hrm)

end Verif.C12.Compose.CS
