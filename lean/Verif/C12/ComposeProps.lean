/-
C12 — theorems of the COMPOSED model (`Compose.lean`): the clauses of the property derived from the
neighbouring islands' theorems — C09 (`write_read`, `readRaw_staged`, `cells_of_raw`,
`writeDb_readRaw`: what a written relation reads back as) and C11 (`select_eq_spec`,
`join_step_is_relational`: what `select` returns) — through the adapters of `Compose.lean`.
-/
import Verif.C09.Props
import Verif.C11.Props
import Verif.C12.Compose
import Verif.C12.ComposeLemmas
import Verif.C12.Props

namespace Verif.C12.Compose
open Verif.Tables Verif.C12
open Verif.C08 (normEmpty)

/-! ## the writing side, from C09

"every field value unchanged apart from columns added or dropped by a different target schema and the
documented default for empty fields" -/

/-- one `tsdb.write` of mkprof through C09: the relation then exists in exactly one physical form
and reads back (raw interface, through the C08 codec: escaping, `@` per column boundary, line
splitting) as the records handed over, one for one and in order, every cell verbatim except that an
empty cell is replaced by the column's default (`defaultedRow`). -/
theorem writeC_reads_back (now : Nat) (gzip : Bool) (fields : List Field) (recs : List Rec)
    (r r' : C09.Rel) (h : writeC now gzip fields recs r = .ok r') :
    C09.readRaw r' = .ok (recs.map (defaultedRow fields)) ∧ C09.OneForm r' ∧
      (r'.gz.isSome = true → gzip = true) :=
  CL.writeC_read now gzip fields recs r r' h

/-- `mkprof(dest, source=<profile>)` through C09's `write` and C11's `select`: after a successful run
every relation `t` of the new (non-skeleton) profile reads back as the records `dbRecordsC` selected
for it (all source rows, the rows C11's `select` returns de-duplicated by `_tsql_distinct`, or
nothing; matched to the new fields by column name when they differ), cell by cell with the
documented default, and is held in exactly one file. -/
theorem mkprofDbC_relation (rx : List Char → List Char → Bool) (now : Nat) (src dst d : CDir)
    (p : CParams) (ss : Schema) (hs : src.schema = some ss) (hnd : (p.schema.getD ss).names.Nodup)
    (hrun : mkprofDbC rx now src dst p = (d, none)) (hsk : p.skeleton = false)
    (t : Name) (newF : List Field) (ht : (t, newF) ∈ p.schema.getD ss) :
    ∃ recs, dbRecordsC rx ss src.files p (p.schema.getD ss) t newF = .ok recs ∧
      C09.readRaw (d.files t.toList) = .ok (recs.map (defaultedRow newF)) ∧
      C09.OneForm (d.files t.toList) := by
  unfold mkprofDbC at hrun
  simp only [hs] at hrun
  generalize hw : writeLoopC now p.gzip (fun _ => dbRecordsC rx ss src.files p (p.schema.getD ss))
    dst.files (p.schema.getD ss) = w at hrun
  obtain ⟨fs, e⟩ := w
  cases e with
  | some e => simp at hrun
  | none =>
    simp only [Prod.mk.injEq, and_true] at hrun
    subst hrun
    obtain ⟨recs, r0, h1, h2⟩ := (CL.writeLoopC_ok now p.gzip _ (fun _ _ _ _ _ => rfl) _ _ _ hnd hw).2 t newF ht
    obtain ⟨a, b, _⟩ := CL.writeC_read now p.gzip newF recs _ _ h2
    refine ⟨recs, h1, ?_, ?_⟩
    · simp only [CL.cleanupC_keep _ _ _ _ ht, hsk]; exact a
    · simp only [CL.cleanupC_keep _ _ _ _ ht, hsk]; exact b

/-- the same for a SKELETON: a relation of the new profile is kept — held in one file, reading back as
the same records — iff it is a core relation and at least one record was selected; otherwise neither
form of it exists afterwards. -/
theorem mkprofDbC_relation_skeleton (rx : List Char → List Char → Bool) (now : Nat) (src dst d : CDir)
    (p : CParams) (ss : Schema) (hs : src.schema = some ss) (hnd : (p.schema.getD ss).names.Nodup)
    (hrun : mkprofDbC rx now src dst p = (d, none)) (hsk : p.skeleton = true)
    (t : Name) (newF : List Field) (ht : (t, newF) ∈ p.schema.getD ss) :
    ∃ recs, dbRecordsC rx ss src.files p (p.schema.getD ss) t newF = .ok recs ∧
      (coreFiles.contains t = true → recs ≠ [] →
        C09.readRaw (d.files t.toList) = .ok (recs.map (defaultedRow newF)) ∧ C09.OneForm (d.files t.toList)) ∧
      ((coreFiles.contains t = false ∨ recs = []) → d.files t.toList = {}) := by
  unfold mkprofDbC at hrun
  simp only [hs] at hrun
  generalize hw : writeLoopC now p.gzip (fun _ => dbRecordsC rx ss src.files p (p.schema.getD ss))
    dst.files (p.schema.getD ss) = w at hrun
  obtain ⟨fs, e⟩ := w
  cases e with
  | some e => simp at hrun
  | none =>
    simp only [Prod.mk.injEq, and_true] at hrun
    subst hrun
    obtain ⟨recs, r0, h1, h2⟩ := (CL.writeLoopC_ok now p.gzip _ (fun _ _ _ _ _ => rfl) _ _ _ hnd hw).2 t newF ht
    obtain ⟨a, b, _⟩ := CL.writeC_read now p.gzip newF recs _ _ h2
    have hcl := CL.writeC_skeleton now p.gzip newF recs _ _ h2 (coreFiles.contains t)
    refine ⟨recs, h1, ?_, ?_⟩
    · intro hcore hne
      have hre : recs.isEmpty = false := by cases recs <;> simp_all
      rw [hcore, hre] at hcl
      simp only [Bool.not_false, Bool.and_self, if_true] at hcl
      show C09.readRaw (cleanupC _ _ _ fs t.toList) = _ ∧ C09.OneForm (cleanupC _ _ _ fs t.toList)
      rw [CL.cleanupC_at _ _ _ _ _ ht, hsk, L.keeps_skeleton ht, hcore, hcl]
      exact ⟨a, b⟩
    · intro hno
      show cleanupC _ _ _ fs t.toList = _
      rw [CL.cleanupC_at _ _ _ _ _ ht, hsk, L.keeps_skeleton ht, hcl]
      rcases hno with hc | he
      · rw [hc]; simp
      · rw [he]; simp

/-- the in-place refresh IS C09's `write_database`: from C09's `writeDb_readRaw` — after a successful
refresh (any `gzip`, with or without `schema=`) every relation of the (non-skeleton) profile reads
back as the records the directory held before (`sourceRecords`: the current physical form decoded by
the C08 codec, rebuilt by column name when a schema was given), cell by cell with the documented
default. -/
theorem refreshC_preserves (now : Nat) (dst d : CDir) (schema : Option Schema) (gzip : Bool)
    (old : Schema) (hs : dst.schema = some old) (hnd : (schema.getD old).names.Nodup)
    (hrun : mkprofRefreshC now dst schema gzip false = (d, none))
    (t : Name) (newF : List Field) (ht : (t, newF) ∈ schema.getD old) :
    ∃ recs, C09.sourceRecords (refreshReq old schema gzip) (newF.map f09) dst.files t.toList = .ok recs ∧
      C09.readRaw (d.files t.toList) = .ok (recs.map (defaultedRow newF)) := by
  unfold mkprofRefreshC at hrun
  simp only [hs] at hrun
  generalize hw : C09.writeDb now (refreshReq old schema gzip) dst.files dst.files = w at hrun
  obtain ⟨fs, e⟩ := w
  cases e with
  | some e => simp at hrun
  | none =>
    simp only [Prod.mk.injEq, and_true] at hrun
    subst hrun
    have htarget : (refreshReq old schema gzip).target = schema09 (schema.getD old) := by
      cases schema <;> rfl
    have hnames : (refreshReq old schema gzip).nameList = (schema.getD old).names.map String.toList := by
      simp only [C09.DbReq.nameList, htarget]
      simp [refreshReq, schema09, Schema.names, List.map_map, Function.comp_def]
    have hnd' : (refreshReq old schema gzip).nameList.Nodup := by
      rw [hnames]
      exact CL.nodup_map_toList _ hnd
    have hn : t.toList ∈ (refreshReq old schema gzip).nameList := by
      rw [hnames]
      exact List.mem_map_of_mem (L.mem_names ht)
    obtain ⟨fields, recs, h1, h2, h3⟩ :=
      C09.writeDb_readRaw now (refreshReq old schema gzip) dst.files dst.files fs rfl (Or.inr hnd') hw _ hn
    have hf : fields = newF.map f09 := by
      rw [htarget] at h1
      have := CL.lookup_schema09 (schema.getD old) t newF hnd ht
      rw [this] at h1
      exact (Option.some.inj h1).symm
    subst hf
    simp only [refreshReq, if_true] at h2
    refine ⟨recs, h2, ?_⟩
    simp only [CL.cleanupC_keep _ _ _ _ ht]
    rw [h3]
    simp [defaultedRow, List.map_map, Function.comp_def]

/-! ## the filter, from C11

"with a filter exactly those that satisfy it through the relation's key links, with no loss,
duplication or reordering" -/

/-- what the composed filter selects, in C11's terms.  `db` is the source profile as a C11 database
(`toDB`: the schema's fields with their key flags, the rows of the current physical files decoded by
the C08 codec, key and condition cells with their C08 cast value), `rel` the relation `t` there, and
`P` C11's evaluation of the query `* from t where c` on it (`CS.StarPlan`): THE user's condition
resolved and type-checked, THE join plan C11 makes for it (starting with `t`, then the relations of
the condition and at most one linking relation per gap), THE joined selection, and the condition
indexed against it.  Nothing in `P` is free: every field is pinned by an equation with C11's functions. -/
structure Joined (ss : Schema) (fs : C09.Files) (t : Name) (c : C11.Cond C11.ColRef) (rows : List Rec) where
  db : C11.DB
  missing : List Name
  rel : C11.Rel
  P : CS.StarPlan db t c rel
  hdb : toDB (condCols c) ss fs = .ok (db, missing)
  hrel : db.rel? t = some rel
  hraw : rel.rows.map (·.map (·.raw)) = rows

/-- the stored rows of `t` (as C11 cells) -/
def Joined.crows {ss fs t c rows} (J : Joined ss fs t c rows) : List (List C11.Cell) := J.rel.rows

/-- the joined tuples of a stored row of `t` along THE plan (shared keys agree by cast value) -/
def Joined.tuples {ss fs t c rows} (J : Joined ss fs t c rows) (r : List C11.Cell) : List (List C11.Cell) :=
  J.P.tuples r

/-- THE user's condition on a joined tuple -/
def Joined.sat {ss fs t c rows} (rx : List Char → List Char → Bool) (J : Joined ss fs t c rows)
    (x : List C11.Cell) : Bool := J.P.sat rx x

/-- the rows of `t` that have at least one joined tuple along the plan satisfying the condition —
"those that satisfy it through the relation's key links" — in stored order -/
def Joined.selected {ss fs t c rows} (rx : List Char → List Char → Bool) (J : Joined ss fs t c rows) :
    List Rec :=
  (J.crows.filter (fun r => (J.tuples r).any (J.sat rx))).map (·.map (·.raw))

/-- relational reading of `sat` (from C11's `evalCond_evalW`): a joined tuple has witness rows, one stored
row per joined relation, agreeing with it column by column (cast values), and the condition holds on
the tuple iff the user's resolved condition holds on those rows. -/
theorem Joined.sat_witness {ss fs t c rows} (rx : List Char → List Char → Bool) (J : Joined ss fs t c rows)
    (r : List C11.Cell) (hr : r ∈ J.crows) (x : List C11.Cell) (hx : x ∈ J.tuples r) :
    ∃ w : String → List C11.Cell, C11.WitBy J.db J.P.sel.index x w ∧
      J.sat rx x = C11.evalW rx J.db w J.P.cq :=
  J.P.sat_witness rx J.hrel r hr x hx

/-- **The select output, derived from C11's theorems** (`select_inv`/`select_eq_spec`, the nested-loop
form of the join, the index invariants): when C11's `select` answers for the query of mkprof, C11's
evaluation `J` of THAT query exists and the selection is the stored rows of `t` in stored order, each
repeated once per joined tuple along the plan that satisfies the condition — `expand rows ks` with
`ks` the per-row numbers of satisfying joined tuples (the shape the round-1 model took as a PARAMETER). -/
theorem selectC_grouped (rx : List Char → List Char → Bool) (ss : Schema) (fs : C09.Files) (t : Name)
    (c : C11.Cond C11.ColRef) (rs rows : List Rec) (fields : List Field)
    (hnd : ss.names.Nodup) (ht : (t, fields) ∈ ss) (hf : fields ≠ [])
    (hraw : rawRows fs t = .ok (some rows)) (h : selectC rx ss fs t c = .rows rs) :
    ∃ J : Joined ss fs t c rows,
      rs = expand rows (J.crows.map (fun r => ((J.tuples r).filter (J.sat rx)).length)) := by
  unfold selectC at h
  cases hdb : toDB (condCols c) ss fs with
  | error e => simp [hdb] at h
  | ok dm =>
    obtain ⟨db, missing⟩ := dm
    simp only [hdb] at h
    cases hsel : C11.select rx db (queryOf t c) with
    | error e => cases e <;> simp [hsel] at h
    | ok res =>
      simp only [hsel] at h
      split at h
      · cases h
      · simp only [SelRes.rows.injEq] at h
        subst h
        obtain ⟨rel, h1, h2, h3⟩ := CL.toDB_rel (condCols c) fs ss db missing t fields rows hnd ht hdb hraw
        have hfr : rel.fields ≠ [] := by
          rw [h2]
          cases fields with
          | nil => exact absurd rfl hf
          | cons a as => simp
        obtain ⟨P, hrows⟩ := CS.select_star_grouped rx db t c res rel h1 hfr hsel
        refine ⟨{ db := db, missing := missing, rel := rel, P := P, hdb := hdb, hrel := h1, hraw := h3 }, ?_⟩
        simp only [Joined.crows, Joined.tuples, Joined.sat]
        rw [hrows, CL.grouped_eq_expand (fun r : List C11.Cell => r.map (·.raw)), h3]
        rfl

/-- **The filter clause for the composed model**: "with a filter exactly those that satisfy it through
the relation's key links, with no loss, duplication or reordering".  If C11's `select` answers, then
with `J` C11's evaluation of THE query (plan and condition pinned, see `Joined`):
`J.selected rx` — the stored rows of `t` having at least one joined tuple along the plan that satisfies
the user's condition — is a subsequence of the source rows, and the rows mkprof copies are exactly
`J.selected rx` provided no two identical rows are adjacent in it (F20); otherwise they differ from it. -/
theorem selectRowsC_exact_partial (rx : List Char → List Char → Bool) (ss : Schema) (fs : C09.Files)
    (t : Name) (c : C11.Cond C11.ColRef) (rs rows : List Rec) (fields : List Field)
    (hnd : ss.names.Nodup) (ht : (t, fields) ∈ ss) (hf : fields ≠ [])
    (hraw : rawRows fs t = .ok (some rows)) (h : selectC rx ss fs t c = .rows rs) :
    ∃ J : Joined ss fs t c rows,
      List.Sublist (J.selected rx) rows ∧
      (NoAdjDup (J.selected rx) → selectRowsC rx ss fs (some c) t rows = .ok (J.selected rx)) ∧
      (¬ NoAdjDup (J.selected rx) →
        ∃ merged, selectRowsC rx ss fs (some c) t rows = .ok merged ∧ merged ≠ J.selected rx) := by
  obtain ⟨J, hrs⟩ := selectC_grouped rx ss fs t c rs rows fields hnd ht hf hraw h
  refine ⟨J, ?_⟩
  have hk : kept rows (J.crows.map (fun r => ((J.tuples r).filter (J.sat rx)).length)) = J.selected rx := by
    have := CL.kept_filter (fun r : List C11.Cell => r.map (·.raw)) J.tuples (J.sat rx) J.crows
    simp only [Joined.crows] at this
    rw [J.hraw] at this
    exact this
  rw [← hk]
  refine ⟨L.kept_sublist _ _, ?_, ?_⟩
  · intro hd
    simp only [selectRowsC, h, hrs]
    rw [filter_exact_partial _ _ hd]
  · intro hd
    refine ⟨tsqlDistinct (expand rows (J.crows.map (fun r => ((J.tuples r).filter (J.sat rx)).length))),
      by simp only [selectRowsC, h, hrs], ?_⟩
    exact filter_inexact_of_adjacent_duplicates _ _ hd

/-- the documented fallback in the composed model: when C11's `select` answers `TSQLError` (an
undefined column, a literal of the wrong type, no join plan) all rows are copied. -/
theorem selectRowsC_fallback (rx : List Char → List Char → Bool) (ss : Schema) (fs : C09.Files)
    (t : Name) (c : C11.Cond C11.ColRef) (rows : List Rec) (h : selectC rx ss fs t c = .tsqlError) :
    selectRowsC rx ss fs (some c) t rows = .ok rows := by
  simp [selectRowsC, h]

/-- end to end (same schema): a copied relation of the new non-skeleton profile, read back through
C09/C08, is the stored rows of the source relation that have a satisfying joined tuple (C11), in
order, each once, every cell verbatim or the column default — under the F20 hypothesis. -/
theorem mkprofDbC_filtered (rx : List Char → List Char → Bool) (now : Nat) (src dst d : CDir)
    (p : CParams) (ss : Schema) (hs : src.schema = some ss) (hnd : ss.names.Nodup)
    (hschema : p.schema = none) (hsk : p.skeleton = false)
    (hrun : mkprofDbC rx now src dst p = (d, none))
    (t : Name) (fields : List Field) (ht : (t, fields) ∈ ss) (hf : fields ≠ [])
    (hcopy : p.full = true ∨ t ∈ coreFiles)
    (c : C11.Cond C11.ColRef) (hc : p.cond = some c) (rows rs : List Rec)
    (hraw : rawRows src.files t = .ok (some rows)) (hsel : selectC rx ss src.files t c = .rows rs) :
    ∃ J : Joined ss src.files t c rows,
      NoAdjDup (J.selected rx) →
        C09.readRaw (d.files t.toList) = .ok ((J.selected rx).map (defaultedRow fields)) := by
  obtain ⟨J, _, hex, _⟩ := selectRowsC_exact_partial rx ss src.files t c rs rows fields hnd ht hf hraw hsel
  refine ⟨J, ?_⟩
  intro hd
  have hnd' : (p.schema.getD ss).names.Nodup := by rw [hschema]; exact hnd
  have ht' : (t, fields) ∈ p.schema.getD ss := by rw [hschema]; exact ht
  obtain ⟨recs, h1, h2, _⟩ := mkprofDbC_relation rx now src dst d p ss hs hnd' hrun hsk t fields ht'
  have hrecs : recs = J.selected rx := by
    unfold dbRecordsC at h1
    have hcp : (if p.full then (p.schema.getD ss).names else coreFiles).contains t = true := by
      rcases hcopy with hfull | hcore
      · simp [hfull, hschema, L.mem_names ht]
      · cases hfull : p.full with
        | true => simp [hschema, L.mem_names ht]
        | false => simp [hcore]
    simp only [hcp, Bool.not_true, Bool.false_eq_true, if_false, L.lookup_of_mem ss t fields hnd ht, hraw, hc,
      hex hd, ne_eq, not_true_eq_false, decide_false, Bool.and_false, Except.ok.injEq] at h1
    exact h1.symm
  rw [h2, hrecs]

end Verif.C12.Compose
