/-
C12 — theorems of the COMPOSED model (`Compose.lean`): the clauses of the property derived from the
neighbouring islands' theorems — C09 (`write_read`, `readRaw_staged`, `cells_of_raw`,
`writeDb_readRaw`: what a written relation reads back as) and C11 (`select_eq_spec`,
`join_step_is_relational`: what `select` returns) — through the adapters of `Compose.lean`.
-/
import Verif.C09.Props
import Verif.C11.Props
import Verif.C12.Compose
import Verif.C12.ComposeLemmas
import Verif.C12.Props

namespace Verif.C12.Compose
open Verif.Tables Verif.C12
open Verif.C08 (normEmpty)

/-! ## the writing side, from C09

"every field value unchanged apart from columns added or dropped by a different target schema and the
documented default for empty fields" -/

/-- one `tsdb.write` of mkprof through C09: the relation then exists in exactly one physical form
and reads back (raw interface, through the C08 codec: escaping, `@` per column boundary, line
splitting) as the records handed over, one for one and in order, every cell verbatim except that an
empty cell is replaced by the column's default (`defaultedRow`). -/
theorem writeC_reads_back (now : Nat) (gzip : Bool) (fields : List Field) (recs : List Rec)
    (r r' : C09.Rel) (h : writeC now gzip fields recs r = .ok r') :
    C09.readRaw r' = .ok (recs.map (defaultedRow fields)) ∧ C09.OneForm r' ∧
      (r'.gz.isSome = true → gzip = true) :=
  CL.writeC_read now gzip fields recs r r' h

/-- `mkprof(dest, source=<profile>)` through C09's `write` and C11's `select`: after a successful run
every relation `t` of the new (non-skeleton) profile reads back as the records `dbRecordsC` selected
for it (all source rows, the rows C11's `select` returns de-duplicated by `_tsql_distinct`, or
nothing; matched to the new fields by column name when they differ), cell by cell with the
documented default, and is held in exactly one file. -/
theorem mkprofDbC_relation (rx : List Char → List Char → Bool) (now : Nat) (src dst d : CDir)
    (p : CParams) (ss : Schema) (hs : src.schema = some ss) (hnd : (p.schema.getD ss).names.Nodup)
    (hrun : mkprofDbC rx now src dst p = (d, none)) (hsk : p.skeleton = false)
    (t : Name) (newF : List Field) (ht : (t, newF) ∈ p.schema.getD ss) :
    ∃ recs, dbRecordsC rx ss src.files p (p.schema.getD ss) t newF = .ok recs ∧
      C09.readRaw (d.files t.toList) = .ok (recs.map (defaultedRow newF)) ∧
      C09.OneForm (d.files t.toList) := by
  unfold mkprofDbC at hrun
  simp only [hs] at hrun
  generalize hw : writeLoopC now p.gzip (fun _ => dbRecordsC rx ss src.files p (p.schema.getD ss))
    dst.files (p.schema.getD ss) = w at hrun
  obtain ⟨fs, e⟩ := w
  cases e with
  | some e => simp at hrun
  | none =>
    simp only [Prod.mk.injEq, and_true] at hrun
    subst hrun
    obtain ⟨recs, r0, h1, h2⟩ := (CL.writeLoopC_ok now p.gzip _ (fun _ _ _ _ _ => rfl) _ _ _ hnd hw).2 t newF ht
    obtain ⟨a, b, _⟩ := CL.writeC_read now p.gzip newF recs _ _ h2
    refine ⟨recs, h1, ?_, ?_⟩
    · simp only [CL.cleanupC_keep _ _ _ _ ht, hsk]; exact a
    · simp only [CL.cleanupC_keep _ _ _ _ ht, hsk]; exact b

/-- the in-place refresh IS C09's `write_database`: from C09's `writeDb_readRaw` — after a successful
refresh (any `gzip`, with or without `schema=`) every relation of the (non-skeleton) profile reads
back as the records the directory held before (`sourceRecords`: the current physical form decoded by
the C08 codec, rebuilt by column name when a schema was given), cell by cell with the documented
default. -/
theorem refreshC_preserves (now : Nat) (dst d : CDir) (schema : Option Schema) (gzip : Bool)
    (old : Schema) (hs : dst.schema = some old) (hnd : (schema.getD old).names.Nodup)
    (hrun : mkprofRefreshC now dst schema gzip false = (d, none))
    (t : Name) (newF : List Field) (ht : (t, newF) ∈ schema.getD old) :
    ∃ recs, C09.sourceRecords (refreshReq old schema gzip) (newF.map f09) dst.files t.toList = .ok recs ∧
      C09.readRaw (d.files t.toList) = .ok (recs.map (defaultedRow newF)) := by
  unfold mkprofRefreshC at hrun
  simp only [hs] at hrun
  generalize hw : C09.writeDb now (refreshReq old schema gzip) dst.files dst.files = w at hrun
  obtain ⟨fs, e⟩ := w
  cases e with
  | some e => simp at hrun
  | none =>
    simp only [Prod.mk.injEq, and_true] at hrun
    subst hrun
    have htarget : (refreshReq old schema gzip).target = schema09 (schema.getD old) := by
      cases schema <;> rfl
    have hnames : (refreshReq old schema gzip).nameList = (schema.getD old).names.map String.toList := by
      simp only [C09.DbReq.nameList, htarget]
      simp [refreshReq, schema09, Schema.names, List.map_map, Function.comp_def]
    have hnd' : (refreshReq old schema gzip).nameList.Nodup := by
      rw [hnames]
      exact CL.nodup_map_toList _ hnd
    have hn : t.toList ∈ (refreshReq old schema gzip).nameList := by
      rw [hnames]
      exact List.mem_map_of_mem (L.mem_names ht)
    obtain ⟨fields, recs, h1, h2, h3⟩ :=
      C09.writeDb_readRaw now (refreshReq old schema gzip) dst.files dst.files fs rfl hnd' hw _ hn
    have hf : fields = newF.map f09 := by
      rw [htarget] at h1
      have := CL.lookup_schema09 (schema.getD old) t newF hnd ht
      rw [this] at h1
      exact (Option.some.inj h1).symm
    subst hf
    simp only [refreshReq, if_true] at h2
    refine ⟨recs, h2, ?_⟩
    simp only [CL.cleanupC_keep _ _ _ _ ht]
    rw [h3]
    simp [defaultedRow, List.map_map, Function.comp_def]

/-! ## the filter, from C11

"with a filter exactly those that satisfy it through the relation's key links, with no loss,
duplication or reordering" -/

/-- what the composed filter selects, in C11's terms: `db` is the source profile as a C11 database
(`toDB`: the schema's fields with their key flags, the rows of the current physical files decoded by
the C08 codec, every cell with its C08 cast value), `crows` the stored rows of `t` there, and
`tuples r` the joined tuples of the stored row `r` in C11's nested-loop join along the plan C11 makes
for `* from t where c` (the relations of the condition and at most one linking relation per gap,
joined on shared key names by cast value), `sat` C11's evaluation of the condition on a joined tuple. -/
structure Joined (rx : List Char → List Char → Bool) (ss : Schema) (fs : C09.Files) (t : Name)
    (c : C11.Cond C11.ColRef) (rows : List Rec) where
  db : C11.DB
  missing : List Name
  crows : List (List C11.Cell)
  tuples : List C11.Cell → List (List C11.Cell)
  sat : List C11.Cell → Bool
  hdb : toDB ss fs = .ok (db, missing)
  hraw : crows.map (·.map (·.raw)) = rows
  hrel : ∃ rel, db.rel? t = some rel ∧ rel.rows = crows
  htuples : ∃ s1 rest indices, tuples = fun r => CS.chainF db s1 rest (C11.pick indices r)
  hsat : ∃ ci, sat = fun x => C11.evalCond rx x ci

/-- **The select output, derived from C11's theorems** (`select_inv`/`select_eq_spec`, the nested-loop
form of the join, the index invariants): when C11's `select` answers for the query of mkprof, the
selection is the stored rows of `t` in stored order, each repeated once per joined tuple that
satisfies the condition — `expand rows ks` with `ks` the per-row numbers of satisfying joined tuples.
This is exactly the shape the round-1 model took as a PARAMETER. -/
theorem selectC_grouped (rx : List Char → List Char → Bool) (ss : Schema) (fs : C09.Files) (t : Name)
    (c : C11.Cond C11.ColRef) (rs rows : List Rec) (fields : List Field)
    (hnd : ss.names.Nodup) (ht : (t, fields) ∈ ss) (hf : fields ≠ [])
    (hraw : rawRows fs t = .ok (some rows)) (h : selectC rx ss fs t c = .rows rs) :
    ∃ J : Joined rx ss fs t c rows,
      rs = expand rows (J.crows.map (fun r => ((J.tuples r).filter J.sat).length)) := by
  unfold selectC at h
  cases hdb : toDB ss fs with
  | error e => simp [hdb] at h
  | ok dm =>
    obtain ⟨db, missing⟩ := dm
    simp only [hdb] at h
    cases hsel : C11.select rx db (queryOf t c) with
    | error e => cases e <;> simp [hsel] at h
    | ok res =>
      simp only [hsel] at h
      split at h
      · cases h
      · simp only [SelRes.rows.injEq] at h
        subst h
        obtain ⟨rel, h1, h2, h3⟩ := CL.toDB_rel fs ss db missing t fields rows hnd ht hdb hraw
        have hfr : rel.fields ≠ [] := by
          rw [h2]
          cases fields with
          | nil => exact absurd rfl hf
          | cons a as => simp
        obtain ⟨s1, rest, indices, ci, hrows⟩ := CS.select_star_grouped rx db t c res rel h1 hfr hsel
        refine ⟨{ db := db, missing := missing, crows := rel.rows,
                  tuples := fun r => CS.chainF db s1 rest (C11.pick indices r),
                  sat := fun x => C11.evalCond rx x ci, hdb := hdb, hraw := h3, hrel := ⟨rel, h1, rfl⟩,
                  htuples := ⟨s1, rest, indices, rfl⟩, hsat := ⟨ci, rfl⟩ }, ?_⟩
        simp only
        rw [hrows, CL.grouped_eq_expand (fun r : List C11.Cell => r.map (·.raw)), h3]

/-- **The filter clause for the composed model.**  If C11's `select` answers, the rows mkprof copies
from relation `t` are — provided no two identical rows are adjacent among them (F20) — exactly the
stored rows of `t` that have a joined tuple satisfying the condition, in stored order, each once. -/
theorem selectRowsC_exact_partial (rx : List Char → List Char → Bool) (ss : Schema) (fs : C09.Files)
    (t : Name) (c : C11.Cond C11.ColRef) (rs rows : List Rec) (fields : List Field)
    (hnd : ss.names.Nodup) (ht : (t, fields) ∈ ss) (hf : fields ≠ [])
    (hraw : rawRows fs t = .ok (some rows)) (h : selectC rx ss fs t c = .rows rs) :
    ∃ J : Joined rx ss fs t c rows,
      let selected := (J.crows.filter (fun r => (J.tuples r).any J.sat)).map (·.map (·.raw))
      List.Sublist selected rows ∧
      (NoAdjDup selected → selectRowsC rx ss fs (some c) t rows = .ok selected) ∧
      (¬ NoAdjDup selected → ∃ merged, selectRowsC rx ss fs (some c) t rows = .ok merged ∧ merged ≠ selected) := by
  obtain ⟨J, hrs⟩ := selectC_grouped rx ss fs t c rs rows fields hnd ht hf hraw h
  refine ⟨J, ?_⟩
  have hk : kept rows (J.crows.map (fun r => ((J.tuples r).filter J.sat).length))
      = (J.crows.filter (fun r => (J.tuples r).any J.sat)).map (·.map (·.raw)) := by
    have := CL.kept_filter (fun r : List C11.Cell => r.map (·.raw)) J.tuples J.sat J.crows
    rw [J.hraw] at this
    exact this
  simp only
  rw [← hk]
  refine ⟨L.kept_sublist _ _, ?_, ?_⟩
  · intro hd
    simp only [selectRowsC, h, hrs]
    rw [filter_exact_partial _ _ hd]
  · intro hd
    refine ⟨tsqlDistinct (expand rows (J.crows.map (fun r => ((J.tuples r).filter J.sat).length))),
      by simp only [selectRowsC, h, hrs], ?_⟩
    exact filter_inexact_of_adjacent_duplicates _ _ hd

/-- the documented fallback in the composed model: when C11's `select` answers `TSQLError` (an
undefined column, a literal of the wrong type, no join plan) all rows are copied. -/
theorem selectRowsC_fallback (rx : List Char → List Char → Bool) (ss : Schema) (fs : C09.Files)
    (t : Name) (c : C11.Cond C11.ColRef) (rows : List Rec) (h : selectC rx ss fs t c = .tsqlError) :
    selectRowsC rx ss fs (some c) t rows = .ok rows := by
  simp [selectRowsC, h]

/-- end to end (same schema): a copied relation of the new non-skeleton profile, read back through
C09/C08, is the stored rows of the source relation that have a satisfying joined tuple (C11), in
order, each once, every cell verbatim or the column default — under the F20 hypothesis. -/
theorem mkprofDbC_filtered (rx : List Char → List Char → Bool) (now : Nat) (src dst d : CDir)
    (p : CParams) (ss : Schema) (hs : src.schema = some ss) (hnd : ss.names.Nodup)
    (hschema : p.schema = none) (hsk : p.skeleton = false)
    (hrun : mkprofDbC rx now src dst p = (d, none))
    (t : Name) (fields : List Field) (ht : (t, fields) ∈ ss) (hf : fields ≠ [])
    (hcopy : p.full = true ∨ t ∈ coreFiles)
    (c : C11.Cond C11.ColRef) (hc : p.cond = some c) (rows rs : List Rec)
    (hraw : rawRows src.files t = .ok (some rows)) (hsel : selectC rx ss src.files t c = .rows rs) :
    ∃ J : Joined rx ss src.files t c rows,
      let selected := (J.crows.filter (fun r => (J.tuples r).any J.sat)).map (·.map (·.raw))
      NoAdjDup selected →
        C09.readRaw (d.files t.toList) = .ok (selected.map (defaultedRow fields)) := by
  obtain ⟨J, _, hex, _⟩ := selectRowsC_exact_partial rx ss src.files t c rs rows fields hnd ht hf hraw hsel
  refine ⟨J, ?_⟩
  intro selected hd
  have hnd' : (p.schema.getD ss).names.Nodup := by rw [hschema]; exact hnd
  have ht' : (t, fields) ∈ p.schema.getD ss := by rw [hschema]; exact ht
  obtain ⟨recs, h1, h2, _⟩ := mkprofDbC_relation rx now src dst d p ss hs hnd' hrun hsk t fields ht'
  have hrecs : recs = selected := by
    unfold dbRecordsC at h1
    have hcp : (if p.full then (p.schema.getD ss).names else coreFiles).contains t = true := by
      rcases hcopy with hfull | hcore
      · simp [hfull, hschema, L.mem_names ht]
      · cases hfull : p.full with
        | true => simp [hschema, L.mem_names ht]
        | false => simp [hcore]
    simp only [hcp, Bool.not_true, Bool.false_eq_true, if_false, L.lookup_of_mem ss t fields hnd ht, hraw, hc,
      hex hd, ne_eq, not_true_eq_false, decide_false, Bool.and_false, Except.ok.injEq] at h1
    exact h1.symm
  rw [h2, hrecs]

end Verif.C12.Compose
