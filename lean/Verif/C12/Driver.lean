/- C12 line-protocol driver: `lake env lean --run Verif/C12/Driver.lean` -/
import Verif.Common.Proto
import Verif.C12.Model
import Verif.C12.Compose
import Verif.C12.ComposeLines
open Lean Verif.Proto Verif.C12

namespace Verif.C12.Driver

def errTag : Err → String
  | .tsdbError => "TSDBError"
  | .commandError => "CommandError"
  | .typeError => "TypeError"
  | .keyError => "KeyError"
  | .stopIteration => "StopIteration"
  | .tsqlSyntaxError => "TSQLSyntaxError"
  | .indexError => "IndexError"
  | .valueError => "ValueError"
  | .attributeError => "AttributeError"
  | .unmodelled => "unmodelled"

def ofErrTag (s : String) : Except String Err :=
  match s with
  | "TSDBError" => pure .tsdbError
  | "CommandError" => pure .commandError
  | "TypeError" => pure .typeError
  | "KeyError" => pure .keyError
  | "StopIteration" => pure .stopIteration
  | "TSQLSyntaxError" => pure .tsqlSyntaxError
  | "IndexError" => pure .indexError
  | "ValueError" => pure .valueError
  | "AttributeError" => pure .attributeError
  | _ => throw s!"bad error tag {s}"

def ofField (j : Json) : Except String Field := do
  let flags ← (← getArr j "flags").mapM (·.getStr?)
  pure { name := ← getStr j "name", dt := ← getStr j "dt", flags := flags }

def ofSchema (j : Json) : Except String Schema := do
  (← j.getArr?).toList.mapM (fun t => do
    pure (← getStr t "name", ← (← getArr t "fields").mapM ofField))

def ofOptSchema (j : Json) (k : String) : Except String (Option Schema) :=
  match j.getObjVal? k with
  | .ok Json.null => pure none
  | .ok v => do pure (some (← ofSchema v))
  | .error _ => pure none

def ofFile (j : Json) : Except String (Option File) :=
  match j with
  | Json.null => pure none
  | _ => do
    let rows ← (← getArr j "rows").mapM (fun r => do
      (← r.getArr?).toList.mapM (fun c => do pure ((← ofOptCps c).getD [])))
    pure (some { rows := rows, mtime := ← getNat j "mt" })

def ofFiles (j : Json) : Except String Files := do
  let l ← (← j.getArr?).toList.mapM (fun t => do
    let r : RelFiles := { tx := ← ofFile (← t.getObjVal? "tx"), gz := ← ofFile (← t.getObjVal? "gz") }
    pure (← getStr t "name", r))
  pure (fun n => (l.lookup n).getD {})

def ofDir (j : Json) : Except String Dir :=
  match j with
  | Json.null => pure { schema := none, files := fun _ => {} }
  | _ => do pure { schema := ← ofOptSchema j "schema", files := ← ofFiles (← j.getObjVal? "files") }

def ofOptErr (j : Json) (k : String) : Except String (Option Err) :=
  match j.getObjVal? k with
  | .ok Json.null => pure none
  | .error _ => pure none
  | .ok v => do pure (some (← ofErrTag (← v.getStr?)))

def ofFilt (j : Json) : Except String Filt :=
  match j with
  | Json.str "unresolved" => pure .unresolved
  | _ =>
    match j.getObjVal? "rels" with
    | .ok v => do
      let rs ← (← v.getArr?).toList.mapM (·.getStr?)
      let ks ← (← getArr j "counts").mapM (·.getNat?)
      pure (.rels rs ks (← ofOptErr j "late"))
    | .error _ => do pure (.raise (← ofErrTag (← getStr j "raise")))

/-- the filter outcome per table; the join plan is computed by the model from the source schema -/
def ofSels (ss : Schema) (j : Json) (k : String) : Except String (Option (Name → Sel)) :=
  match j.getObjVal? k with
  | .ok Json.null => pure none
  | .error _ => pure none
  | .ok v => do
    let l ← (← v.getArr?).toList.mapM (fun t => do pure (← getStr t "name", ← ofFilt (← t.getObjVal? "filt")))
    pure (some (fun n => planSel ss n ((l.lookup n).getD .unresolved)))

/-- MID: mtime of the files written during the case (later than every planted file) -/
def MID : Nat := 2000000000

def obs (watch : List Name) (r : Dir × Option Err) : Json :=
  let d := r.1
  let rels := watch.map (fun n =>
    let rf := d.files n
    let rows : Json := match d.schema with
      | none => Json.null
      | some s =>
        if s.names.contains n then
          match rf.read with
          | none => Json.null
          | some rs => jList (jList optCps) rs
        else Json.null
    Json.mkObj [("name", Json.str n), ("tx", Json.bool rf.tx.isSome), ("gz", Json.bool rf.gz.isSome),
                ("rows", rows)])
  Json.mkObj [
    ("res", Json.str (match r.2 with | none => "ok" | some e => errTag e)),
    ("schema", match d.schema with | none => Json.null | some s => jList Json.str s.names),
    ("rels", Json.arr rels.toArray)]

/-! ### the composed model (C11 select + C09 files), same requests -/

open Verif.C12.Compose in
def ofFileC (j : Json) : Except String (Option C09.File) :=
  match j with
  | Json.null => pure none
  | _ => do
    let rows ← (← getArr j "rows").mapM (fun r => do (← r.getArr?).toList.mapM ofOptCps)
    -- the harness plants files with its own encoder: `'@'.join(escape(v or ''))`
    pure (some { lines := rows.map C08.joinRaw, mtime := ← getNat j "mt" })

def ofFilesC (j : Json) : Except String C09.Files := do
  let l ← (← j.getArr?).toList.mapM (fun t => do
    let r : C09.Rel := { tx := ← ofFileC (← t.getObjVal? "tx"), gz := ← ofFileC (← t.getObjVal? "gz") }
    pure ((← getStr t "name").toList, r))
  pure (fun n => (l.lookup n).getD {})

def ofDirC (j : Json) : Except String Compose.CDir :=
  match j with
  | Json.null => pure { schema := none, files := fun _ => {} }
  | _ => do pure { schema := ← ofOptSchema j "schema", files := ← ofFilesC (← j.getObjVal? "files") }

def ofOp (s : String) : Except String C11.Op :=
  match s with
  | "==" => pure .eq | "=" => pure .eq | "!=" => pure .ne | "<" => pure .lt | "<=" => pure .le
  | ">" => pure .gt | ">=" => pure .ge | "~" => pure .re | "!~" => pure .nre
  | _ => throw s!"bad operator {s}"

def ofColRef (s : String) : C11.ColRef :=
  match s.splitOn "." with
  | [c] => ⟨"", c⟩
  | parts => ⟨".".intercalate parts.dropLast, parts.getLast!⟩

def ofLit (j : Json) : Except String C11.Lit :=
  match j.getObjVal? "int" with
  | .ok v => do pure (.int (← v.getInt?))
  | .error _ => do pure (.str (← getCps j "str"))

/-- the condition tree as the harness generated it: `["cmp", op, col, lit] | ["not", c] | ["and"|"or", [c…]]` -/
partial def ofCond (j : Json) : Except String (C11.Cond C11.ColRef) := do
  let a ← j.getArr?
  match a.toList with
  | [Json.str "cmp", Json.str op, Json.str col, lit] => pure (.leaf (← ofOp op) (ofColRef col) (← ofLit lit))
  | [Json.str "not", c] => pure (.not (← ofCond c))
  | [Json.str "and", cs] => pure (.and (← (← cs.getArr?).toList.mapM ofCond))
  | [Json.str "or", cs] => pure (.or (← (← cs.getArr?).toList.mapM ofCond))
  | _ => throw "bad condition"

/-- `re.search` as a table (parameter, as in C11) -/
def ofRx (j : Json) : Except String (List (List Char × List Char × Bool)) := do
  (← j.getArr?).toList.mapM (fun t => do pure (← getCps t "p", ← getCps t "s", ← getBool t "m"))

def rxOf (tbl : List (List Char × List Char × Bool)) (p v : List Char) : Bool :=
  match tbl.find? (fun t => t.1 = p && t.2.1 = v) with
  | some t => t.2.2
  | none => false

def obsC (watch : List Name) (r : Compose.CDir × Option Err) : Json :=
  let d := r.1
  let rels := watch.map (fun n =>
    let rf := d.files n.toList
    let rows : Json := match d.schema with
      | none => Json.null
      | some s =>
        if s.names.contains n && rf.read.isSome then
          match C09.readRaw rf with
          | .ok rs => jList (jList optCps) rs
          | .error _ => Json.str "unreadable"
        else Json.null
    Json.mkObj [("name", Json.str n), ("tx", Json.bool rf.tx.isSome), ("gz", Json.bool rf.gz.isSome),
                ("rows", rows)])
  Json.mkObj [
    ("res", Json.str (match r.2 with | none => "ok" | some e => errTag e)),
    ("schema", match d.schema with | none => Json.null | some s => jList Json.str s.names),
    ("rels", Json.arr rels.toArray)]

/-- one `mkprof` call of the composed model on the destination as it is now; `none` when the call is
outside what C08/C09/C11 model.  `j` holds the options of the call, `src` the source profile (db). -/
def stepC (j : Json) (src : Compose.CDir) (now : Nat) (dst : Compose.CDir) :
    Except String (Option (Compose.CDir × Option Err)) := do
  let op ← getStr j "op"
  let schema ← ofOptSchema j "schema"
  let gzip ← getBool j "gzip"
  let skeleton ← getBool j "skeleton"
  match op with
  | "db" =>
    let cond ← match j.getObjVal? "cond" with
      | .ok Json.null => pure none
      | .error _ => pure none
      | .ok c => do pure (some (← ofCond c))
    let tbl ← match j.getObjVal? "rx" with
      | .ok v => ofRx v
      | .error _ => pure []
    if !Compose.composable src.schema cond then return none
    let p : Compose.CParams := { schema := schema, cond := cond, full := ← getBool j "full", gzip := gzip,
                                 skeleton := skeleton }
    let r := Compose.mkprofDbC (rxOf tbl) now src dst p
    if r.2 = some .unmodelled then return none
    pure (some r)
  | "refresh" =>
    let r := Compose.mkprofRefreshC now dst schema gzip skeleton
    if r.2 = some .unmodelled then return none
    pure (some r)
  | "lines" =>
    -- the characters of the stream and how it was opened; nothing else
    let delim ← getOptCps j "delim"
    let raw ← getCps j "raw"
    let stream ← match ← getStr j "stream" with
      | "file" => pure Compose.Stream.file
      | "asis" => pure Compose.Stream.asIs
      | s => throw s!"bad stream {s}"
    let r := Compose.mkprofLinesC now dst schema delim stream raw gzip skeleton
    if r.2 = some .unmodelled then return none
    pure (some r)
  | _ => pure none

/-- a history of calls on ONE destination directory (and one source profile): the directory a call
leaves — also when it raises — is what the next call finds; the clock advances with every call -/
def historyC (watch : List Name) (src : Compose.CDir) : Nat → Compose.CDir → List Json →
    Except String (Option (List Json))
  | _, _, [] => pure (some [])
  | now, dst, j :: js => do
    match ← stepC j src now dst with
    | none => pure none
    | some r =>
      match ← historyC watch src (now + 1) r.1 js with
      | none => pure none
      | some rest => pure (some (obsC watch r :: rest))

/-- the composed answer, or `none` when the case is outside what C08/C09/C11 model -/
def handleComposed (j : Json) : Except String (Option Json) := do
  let op ← getStr j "op"
  let watch ← (← getArr j "watch").mapM (·.getStr?)
  let dst ← ofDirC (← j.getObjVal? "dst")
  let src ← match j.getObjVal? "src" with
    | .ok v => ofDirC v
    | .error _ => pure { schema := none, files := fun _ => {} }
  match op with
  | "history" =>
    match ← historyC watch src MID dst (← getArr j "steps") with
    | none => pure none
    | some obs => pure (some (Json.mkObj [("res", Json.str "history"), ("steps", Json.arr obs.toArray)]))
  | _ =>
    match ← stepC j src MID dst with
    | none => pure none
    | some r => pure (some (obsC watch r))

def handleParam (j : Json) : Except String Json := do
  let op ← getStr j "op"
  let watch ← (← getArr j "watch").mapM (·.getStr?)
  let dst ← ofDir (← j.getObjVal? "dst")
  let schema ← ofOptSchema j "schema"
  let gzip ← getBool j "gzip"
  let skeleton ← getBool j "skeleton"
  match op with
  | "db" =>
    let src ← ofDir (← j.getObjVal? "src")
    let p : DbParams := { schema := schema, sel := ← ofSels (src.schema.getD []) j "sel", full := ← getBool j "full",
                          gzip := gzip, skeleton := skeleton }
    pure (obs watch (mkprofDb MID src dst p))
  | "refresh" => pure (obs watch (mkprofRefresh MID dst schema gzip skeleton))
  | "lines" =>
    let delim ← getOptCps j "delim"
    let lines ← (← getArr j "lines").mapM ofCps
    pure (obs watch (mkprofLines MID dst schema delim lines gzip skeleton))
  | "history" => pure (Json.mkObj [("res", Json.str "unmodelled")])
  | _ => throw s!"bad op {op}"

/-- composed model first (`"composed": true` in the request); the answer says which path produced it -/
def handle (j : Json) : Except String Json := do
  let want := match j.getObjVal? "composed" with | .ok (Json.bool b) => b | _ => false
  if want then
    match ← handleComposed j with
    | some r => return r.setObjVal! "path" (Json.str "composed")
    | none => pure ()
  if (← getStr j "op") = "history" then
    -- a history is answered by the composed model or not at all
    return Json.mkObj [("res", Json.str "unmodelled"), ("path", Json.str "none (a call outside the composed model)")]
  let r ← handleParam j
  pure (r.setObjVal! "path" (Json.str "param"))

end Verif.C12.Driver

def main : IO Unit := Verif.Proto.serve Verif.C12.Driver.handle
