/- C12 line-protocol driver: `lake env lean --run Verif/C12/Driver.lean` -/
import Verif.Common.Proto
import Verif.C12.Model
open Lean Verif.Proto Verif.C12

namespace Verif.C12.Driver

def errTag : Err → String
  | .tsdbError => "TSDBError"
  | .commandError => "CommandError"
  | .typeError => "TypeError"
  | .keyError => "KeyError"
  | .stopIteration => "StopIteration"
  | .tsqlSyntaxError => "TSQLSyntaxError"
  | .indexError => "IndexError"
  | .valueError => "ValueError"
  | .unmodelled => "unmodelled"

def ofErrTag (s : String) : Except String Err :=
  match s with
  | "TSDBError" => pure .tsdbError
  | "CommandError" => pure .commandError
  | "TypeError" => pure .typeError
  | "KeyError" => pure .keyError
  | "StopIteration" => pure .stopIteration
  | "TSQLSyntaxError" => pure .tsqlSyntaxError
  | "IndexError" => pure .indexError
  | "ValueError" => pure .valueError
  | _ => throw s!"bad error tag {s}"

def ofField (j : Json) : Except String Field := do
  let flags ← (← getArr j "flags").mapM (·.getStr?)
  pure { name := ← getStr j "name", dt := ← getStr j "dt", flags := flags }

def ofSchema (j : Json) : Except String Schema := do
  (← j.getArr?).toList.mapM (fun t => do
    pure (← getStr t "name", ← (← getArr t "fields").mapM ofField))

def ofOptSchema (j : Json) (k : String) : Except String (Option Schema) :=
  match j.getObjVal? k with
  | .ok Json.null => pure none
  | .ok v => do pure (some (← ofSchema v))
  | .error _ => pure none

def ofFile (j : Json) : Except String (Option File) :=
  match j with
  | Json.null => pure none
  | _ => do
    let rows ← (← getArr j "rows").mapM (fun r => do
      (← r.getArr?).toList.mapM (fun c => do pure ((← ofOptCps c).getD [])))
    pure (some { rows := rows, mtime := ← getNat j "mt" })

def ofFiles (j : Json) : Except String Files := do
  let l ← (← j.getArr?).toList.mapM (fun t => do
    let r : RelFiles := { tx := ← ofFile (← t.getObjVal? "tx"), gz := ← ofFile (← t.getObjVal? "gz") }
    pure (← getStr t "name", r))
  pure (fun n => (l.lookup n).getD {})

def ofDir (j : Json) : Except String Dir :=
  match j with
  | Json.null => pure { schema := none, files := fun _ => {} }
  | _ => do pure { schema := ← ofOptSchema j "schema", files := ← ofFiles (← j.getObjVal? "files") }

def ofOptErr (j : Json) (k : String) : Except String (Option Err) :=
  match j.getObjVal? k with
  | .ok Json.null => pure none
  | .error _ => pure none
  | .ok v => do pure (some (← ofErrTag (← v.getStr?)))

def ofFilt (j : Json) : Except String Filt :=
  match j with
  | Json.str "unresolved" => pure .unresolved
  | _ =>
    match j.getObjVal? "rels" with
    | .ok v => do
      let rs ← (← v.getArr?).toList.mapM (·.getStr?)
      let ks ← (← getArr j "counts").mapM (·.getNat?)
      pure (.rels rs ks (← ofOptErr j "late"))
    | .error _ => do pure (.raise (← ofErrTag (← getStr j "raise")))

/-- the filter outcome per table; the join plan is computed by the model from the source schema -/
def ofSels (ss : Schema) (j : Json) (k : String) : Except String (Option (Name → Sel)) :=
  match j.getObjVal? k with
  | .ok Json.null => pure none
  | .error _ => pure none
  | .ok v => do
    let l ← (← v.getArr?).toList.mapM (fun t => do pure (← getStr t "name", ← ofFilt (← t.getObjVal? "filt")))
    pure (some (fun n => planSel ss n ((l.lookup n).getD .unresolved)))

/-- MID: mtime of the files written during the case (later than every planted file) -/
def MID : Nat := 2000000000

def obs (watch : List Name) (r : Dir × Option Err) : Json :=
  let d := r.1
  let rels := watch.map (fun n =>
    let rf := d.files n
    let rows : Json := match d.schema with
      | none => Json.null
      | some s =>
        if s.names.contains n then
          match rf.read with
          | none => Json.null
          | some rs => jList (jList optCps) rs
        else Json.null
    Json.mkObj [("name", Json.str n), ("tx", Json.bool rf.tx.isSome), ("gz", Json.bool rf.gz.isSome),
                ("rows", rows)])
  Json.mkObj [
    ("res", Json.str (match r.2 with | none => "ok" | some e => errTag e)),
    ("schema", match d.schema with | none => Json.null | some s => jList Json.str s.names),
    ("rels", Json.arr rels.toArray)]

def handle (j : Json) : Except String Json := do
  let op ← getStr j "op"
  let watch ← (← getArr j "watch").mapM (·.getStr?)
  let dst ← ofDir (← j.getObjVal? "dst")
  let schema ← ofOptSchema j "schema"
  let gzip ← getBool j "gzip"
  let skeleton ← getBool j "skeleton"
  match op with
  | "db" =>
    let src ← ofDir (← j.getObjVal? "src")
    let p : DbParams := { schema := schema, sel := ← ofSels (src.schema.getD []) j "sel", full := ← getBool j "full",
                          gzip := gzip, skeleton := skeleton }
    pure (obs watch (mkprofDb MID src dst p))
  | "refresh" => pure (obs watch (mkprofRefresh MID dst schema gzip skeleton))
  | "lines" =>
    let delim ← getOptCps j "delim"
    let lines ← (← getArr j "lines").mapM ofCps
    pure (obs watch (mkprofLines MID dst schema delim lines gzip skeleton))
  | _ => throw s!"bad op {op}"

end Verif.C12.Driver

def main : IO Unit := Verif.Proto.serve Verif.C12.Driver.handle
