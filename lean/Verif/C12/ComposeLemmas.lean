/- C12 — helper lemmas for the composed model. -/
import Verif.C09.Props
import Verif.C11.Props
import Verif.C12.Compose
import Verif.C12.Lemmas
import Verif.C12.ComposeSelect

namespace Verif.C12.Compose
open Verif.Tables Verif.C12
open Verif.C08 (normEmpty)

/-- the documented effect of copying on one record as C09 states it: every cell verbatim, an empty
one replaced by the default of its (target) column — and an empty default reading back as `None` -/
def defaultedRow (fields : List Field) (rec : Rec) : Rec :=
  ((fields.map f09).zip rec).map (fun fc => normEmpty (some (fc.2.getD fc.1.default)))

namespace CL

theorem writeC_read (now : Nat) (gzip : Bool) (fields : List Field) (recs : List Rec)
    (r r' : C09.Rel) (h : writeC now gzip fields recs r = .ok r') :
    C09.readRaw r' = .ok (recs.map (defaultedRow fields)) ∧ C09.OneForm r' ∧
      (r'.gz.isSome = true → gzip = true) := by
  unfold writeC at h
  cases hst : C09.stage (fields.map f09) (recs.map (·.map C09.toVal)) with
  | error e => simp [C09.write, hst] at h
  | ok lines =>
    rw [hst] at h
    cases hw : C09.write now r { append := false, gzip := gzip, staged := .ok lines } with
    | error e => simp [hw] at h
    | ok r1 =>
      simp only [hw, Except.ok.injEq] at h
      subst h
      have hread := C09.write_read now r r1 _ hw
      have hform := C09.write_one_form now r r1 _ hw
      simp only [C09.linesOf, Bool.false_eq_true, if_false, List.nil_append] at hread hform
      refine ⟨?_, hform.1, ?_⟩
      · rw [C09.readRaw_staged (fields.map f09) _ lines r1 hst hread, List.map_map]
        congr 1
        apply List.map_congr_left
        intro rec _
        simp [defaultedRow, C09.cells_of_raw, List.map_map, Function.comp_def]
      · intro h1
        exact (hform.2.mp h1).1

theorem writeLoopC_ok (now : Nat) (gz : Bool)
    (recsOf : C09.Files → Name → List Field → Except Err (List Rec))
    (hloc : ∀ fs1 fs2 t f, fs1 t.toList = fs2 t.toList → recsOf fs1 t f = recsOf fs2 t f) :
    ∀ (s : Schema) (fs fs' : C09.Files), s.names.Nodup → writeLoopC now gz recsOf fs s = (fs', none) →
      (∀ n : Name, n ∉ s.names → fs' n.toList = fs n.toList) ∧
      (∀ t fields, (t, fields) ∈ s → ∃ recs r0, recsOf fs t fields = .ok recs ∧
          writeC now gz fields recs r0 = .ok (fs' t.toList))
  | [], fs, fs', _, h => by
    simp only [writeLoopC, Prod.mk.injEq, and_true] at h
    subst h
    simp [Schema.names]
  | (t0, f0) :: rest, fs, fs', hnd, h => by
    simp only [Schema.names, List.map_cons, List.nodup_cons] at hnd
    simp only [writeLoopC] at h
    split at h
    · simp at h
    · rename_i recs hrecs
      split at h
      · simp at h
      · rename_i r' hr'
        have ih := writeLoopC_ok now gz recsOf hloc rest _ fs' hnd.2 h
        constructor
        · intro n hn
          simp only [Schema.names, List.map_cons, List.mem_cons, not_or] at hn
          rw [ih.1 n hn.2]
          have : n.toList ≠ t0.toList := fun e => hn.1 (String.toList_inj.mp e)
          exact C09.Files.set_other _ _ _ _ this
        · intro t fields ht
          rcases List.mem_cons.mp ht with e | e
          · cases e
            refine ⟨recs, fs t0.toList, hrecs, ?_⟩
            rw [ih.1 t0 hnd.1]
            simpa using hr'
          · obtain ⟨recs', r0, h1, h2⟩ := ih.2 t fields e
            have hne : t ≠ t0 := by
              intro e'
              apply hnd.1
              subst e'
              exact List.mem_map_of_mem (f := (·.1)) e
            refine ⟨recs', r0, ?_, h2⟩
            rw [← h1]
            apply hloc
            have : t.toList ≠ t0.toList := fun e => hne (String.toList_inj.mp e)
            exact (C09.Files.set_other _ _ _ _ this).symm

theorem cleanupOneC_keep (r : C09.Rel) : cleanupOneC true false r = r := by
  cases r with
  | mk tx gz => cases tx <;> cases gz <;> simp [cleanupOneC]

theorem cleanupC_keep (target : Schema) (old : List Name) (fs : C09.Files) (t : Name) {f : List Field}
    (ht : (t, f) ∈ target) : cleanupC target false old fs t.toList = fs t.toList := by
  unfold cleanupC
  have hmem : t ∈ target.names ++ old := List.mem_append_left _ (L.mem_names ht)
  cases hfind : (target.names ++ old).find? (fun s => s.toList = t.toList) with
  | none =>
    have := List.find?_eq_none.mp hfind t hmem
    simp at this
  | some s =>
    have hs : s = t := by
      have := List.find?_some hfind
      exact String.toList_inj.mp (by simpa using this)
    subst hs
    simp only [L.keeps_plain ht, cleanupOneC_keep]

theorem nodup_map_toList : ∀ (l : List Name), l.Nodup → (l.map String.toList).Nodup
  | [], _ => by simp
  | a :: l, h => by
    rw [List.nodup_cons] at h
    simp only [List.map_cons, List.nodup_cons]
    refine ⟨?_, nodup_map_toList l h.2⟩
    intro hm
    simp only [List.mem_map] at hm
    obtain ⟨b, hb, e⟩ := hm
    exact h.1 (String.toList_inj.mp e ▸ hb)

theorem lookup_schema09 : ∀ (s : Schema) (t : Name) (f : List Field), s.names.Nodup → (t, f) ∈ s →
    (schema09 s).lookup t.toList = some (f.map f09)
  | [], _, _, _, h => by simp at h
  | (k, w) :: rest, t, f, hnd, h => by
    simp only [Schema.names, List.map_cons, List.nodup_cons] at hnd
    rcases List.mem_cons.mp h with e | e
    · cases e
      simp [schema09, List.lookup]
    · have hne : t ≠ k := by
        intro e'
        subst e'
        exact hnd.1 (List.mem_map_of_mem (f := (·.1)) e)
      have : (t.toList == k.toList) = false := by
        simpa using fun e' => hne (String.toList_inj.mp e')
      simp only [schema09, List.map_cons, List.lookup, this]
      exact lookup_schema09 rest t f hnd.2 e

/-! ### adapters: the C11 database built from the source profile -/

theorem cells11_raw (cols : List String) : ∀ (zs : List (Field × Option (List Char))) (cs : List C11.Cell),
    mapE (fun fc => cell11 cols fc.1 fc.2) zs = .ok cs → cs.map (·.raw) = zs.map (·.2) ∧ cs.length = zs.length
  | [], cs, h => by
    simp only [mapE, Except.ok.injEq] at h
    subst h
    exact ⟨rfl, rfl⟩
  | z :: zs, cs, h => by
    simp only [mapE] at h
    split at h
    · cases h
    · rename_i b hb
      split at h
      · cases h
      · rename_i bs hbs
        simp only [Except.ok.injEq] at h
        subst h
        have hr : b.raw = z.2 := by
          unfold cell11 at hb
          split at hb
          · cases hb; rfl
          · split at hb
            · cases hb; rfl
            · cases hb
        obtain ⟨i1, i2⟩ := cells11_raw cols zs bs hbs
        simp [hr, i1, i2]

/-- the cells built for a stored row carry exactly its raw texts -/
theorem row11_raw (cols : List String) (fields : List Field) (r : Rec) (cells : List C11.Cell)
    (h : row11 cols fields r = .ok cells) :
    cells.map (·.raw) = r ∧ cells.length = fields.length := by
  unfold row11 at h
  split at h
  · cases h
  · rename_i hlen
    have hlen' : r.length = fields.length := by simpa using hlen
    obtain ⟨k1, k2⟩ := cells11_raw cols _ _ h
    refine ⟨?_, ?_⟩
    · rw [k1, List.map_snd_zip]
      omega
    · rw [k2, List.length_zip]
      omega

theorem rows11_raw (cols : List String) (fields : List Field) : ∀ (rs : List Rec) (rows : List (List C11.Cell)),
    mapE (row11 cols fields) rs = .ok rows → rows.map (·.map (·.raw)) = rs
  | [], rows, h => by
    simp only [mapE, Except.ok.injEq] at h
    subst h
    rfl
  | r :: rs, rows, h => by
    simp only [mapE] at h
    split at h
    · cases h
    · rename_i b hb
      split at h
      · cases h
      · rename_i bs hbs
        simp only [Except.ok.injEq] at h
        subst h
        simp [(row11_raw cols fields r b hb).1, rows11_raw cols fields rs bs hbs]

theorem rel11_name (cols : List String) (fs : C09.Files) (a : Name × List Field) (b : C11.Rel × Bool)
    (h : rel11 cols fs a = .ok b) :
    b.1.name = a.1 := by
  unfold rel11 at h
  split at h
  · cases h
  · cases h; rfl
  · split at h
    · cases h
    · cases h; rfl

theorem rels11_find (cols : List String) (fs : C09.Files) (t : Name) (fields : List Field) (rows : List Rec)
    (hraw : rawRows fs t = .ok (some rows)) :
    ∀ (ss : Schema) (rs : List (C11.Rel × Bool)), mapE (rel11 cols fs) ss = .ok rs → ss.names.Nodup →
    (t, fields) ∈ ss →
    ∃ rel, (rs.map (·.1)).find? (fun r => r.name = t) = some rel ∧ rel.fields = fields.map f11 ∧
      rel.rows.map (·.map (·.raw)) = rows
  | [], _, _, _, ht => by simp at ht
  | a :: as, rs, h, hnd, ht => by
    simp only [mapE] at h
    split at h
    · cases h
    · rename_i b hb
      split at h
      · cases h
      · rename_i bs hbs
        simp only [Except.ok.injEq] at h
        subst h
        simp only [Schema.names, List.map_cons, List.nodup_cons] at hnd
        have hname := rel11_name cols fs a b hb
        rcases List.mem_cons.mp ht with e | e
        · subst e
          unfold rel11 at hb
          simp only [hraw] at hb
          split at hb
          · cases hb
          · rename_i rows11 hrows
            cases hb
            exact ⟨{ name := t, fields := fields.map f11, rows := rows11 }, by simp, rfl,
              rows11_raw cols fields rows rows11 hrows⟩
        · have hne : a.1 ≠ t := by
            intro e'
            apply hnd.1
            rw [e']
            exact List.mem_map_of_mem (f := (·.1)) e
          obtain ⟨rel, h1, h2, h3⟩ := rels11_find cols fs t fields rows hraw as bs hbs hnd.2 e
          refine ⟨rel, ?_, h2, h3⟩
          simp only [List.map_cons, List.find?_cons, hname, hne, decide_false]
          exact h1

/-- the relation `t` of the C11 database: its fields are the schema's, its rows carry the raw rows
of the file -/
theorem toDB_rel (cols : List String) (fs : C09.Files) (ss : Schema) (db : C11.DB) (missing : List Name) (t : Name)
    (fields : List Field) (rows : List Rec) (hnd : ss.names.Nodup) (ht : (t, fields) ∈ ss)
    (h : toDB cols ss fs = .ok (db, missing)) (hraw : rawRows fs t = .ok (some rows)) :
    ∃ rel, db.rel? t = some rel ∧ rel.fields = fields.map f11 ∧ rel.rows.map (·.map (·.raw)) = rows := by
  unfold toDB at h
  split at h
  · cases h
  · rename_i rs hrs
    simp only [Except.ok.injEq, Prod.mk.injEq] at h
    obtain ⟨hdb, _⟩ := h
    subst hdb
    exact rels11_find cols fs t fields rows hraw ss rs hrs hnd ht

/-- rows grouped by source row, each repeated once per element of `xs r`, in `expand` form -/
theorem grouped_eq_expand {α} (f : α → Rec) (xs : α → List (List C11.Cell)) : ∀ (l : List α),
    l.flatMap (fun r => (xs r).map (fun _ => f r)) = expand (l.map f) (l.map (fun r => (xs r).length))
  | [] => rfl
  | a :: l => by
    have ih := grouped_eq_expand f xs l
    simp only [List.flatMap_cons, List.map_cons, expand, List.map_const'] at ih ⊢
    rw [ih]

/-- the rows with at least one satisfying joined tuple, in order -/
theorem kept_filter {α} (f : α → Rec) (xs : α → List (List C11.Cell)) (p : List C11.Cell → Bool) :
    ∀ (l : List α), kept (l.map f) (l.map (fun r => ((xs r).filter p).length))
      = (l.filter (fun r => (xs r).any p)).map f
  | [] => rfl
  | a :: l => by
    have ih := kept_filter f xs p l
    simp only [List.map_cons, kept, List.filter_cons]
    by_cases h : (xs a).any p = true
    · have : ((xs a).filter p).length ≠ 0 := by
        simp only [List.any_eq_true] at h
        obtain ⟨x, hx, hp⟩ := h
        have : x ∈ (xs a).filter p := List.mem_filter.mpr ⟨hx, hp⟩
        intro e
        rw [List.length_eq_zero_iff] at e
        rw [e] at this
        simp at this
      simp [h, this, ih]
    · have : ((xs a).filter p).length = 0 := by
        rw [List.length_eq_zero_iff, List.filter_eq_nil_iff]
        intro x hx hp
        exact h (List.any_eq_true.mpr ⟨x, hx, hp⟩)
      simp [h, this, ih]

/-! ### skeletons on C09's files -/

theorem stage_length (fields : List C09.Field) : ∀ (vals : List (List C08.Val)) (lines : List C09.Line),
    C09.stage fields vals = .ok lines → lines.length = vals.length
  | [], lines, h => by
    have : lines = [] := by simpa [C09.stage, pure, Except.pure] using h.symm
    subst this; rfl
  | v :: vs, lines, h => by
    unfold C09.stage at h
    rw [List.mapM_cons] at h
    cases h1 : C09.encodeLine fields v with
    | error e => simp [h1, bind, Except.bind] at h
    | ok l =>
      cases h2 : vs.mapM (C09.encodeLine fields) with
      | error e => simp [h1, h2, bind, Except.bind] at h
      | ok ls =>
        simp [h1, h2, bind, Except.bind, pure, Except.pure] at h
        subst h
        simp [stage_length fields vs ls h2]

/-- what the clean-up of a skeleton does to a freshly written relation: kept (unchanged) iff it is to
be kept and records were written; otherwise no file is left -/
theorem writeC_skeleton (now : Nat) (gzip : Bool) (fields : List Field) (recs : List Rec)
    (r r' : C09.Rel) (h : writeC now gzip fields recs r = .ok r') (k : Bool) :
    cleanupOneC k true r' = if k && !recs.isEmpty then r' else {} := by
  unfold writeC at h
  cases hst : C09.stage (fields.map f09) (recs.map (·.map C09.toVal)) with
  | error e => simp [C09.write, hst] at h
  | ok lines =>
    have hlen := stage_length _ _ _ hst
    rw [hst] at h
    simp only [C09.write, Bool.false_and, Bool.false_eq_true, if_false] at h
    have he : lines.isEmpty = recs.isEmpty := by
      cases lines <;> cases recs <;> simp_all
    by_cases hc : (gzip && !lines.isEmpty) = true
    · simp only [hc, if_true, List.nil_append, Except.ok.injEq] at h
      subst h
      have hre : recs.isEmpty = false := by
        rw [← he]
        simp only [Bool.and_eq_true, Bool.not_eq_true'] at hc
        exact hc.2
      cases k <;> simp [cleanupOneC, hre]
    · have hc' : (gzip && !lines.isEmpty) = false := by simpa using hc
      simp only [hc', Bool.false_eq_true, if_false, List.nil_append, Except.ok.injEq] at h
      subst h
      cases k <;> cases hr : recs.isEmpty <;> simp [cleanupOneC, he, hr]

theorem cleanupC_at (target : Schema) (sk : Bool) (old : List Name) (fs : C09.Files) (t : Name)
    {f : List Field} (ht : (t, f) ∈ target) :
    cleanupC target sk old fs t.toList = cleanupOneC (keeps target sk t) sk (fs t.toList) := by
  unfold cleanupC
  have hmem : t ∈ target.names ++ old := List.mem_append_left _ (L.mem_names ht)
  cases hfind : (target.names ++ old).find? (fun s => s.toList = t.toList) with
  | none =>
    have := List.find?_eq_none.mp hfind t hmem
    simp at this
  | some s =>
    have hs : s = t := by
      have := List.find?_some hfind
      exact String.toList_inj.mp (by simpa using this)
    subst hs
    rfl

end CL

end Verif.C12.Compose
