/-
C12 — model of `delphin.commands.mkprof`:
`_mkprof_from_database` / `_tsql_distinct` / `_no_such_relation`, the in-place refresh through
`tsdb.write_database`, `_mkprof_from_lines` / `_lines_to_records` / `_make_split`, `_mkprof_cleanup`,
and the parts of `tsdb` they go through (`write`, `join`/`format` with the field default,
`_remake_records`/`make_record`, `_get_paths`, `initialize_database`).

Abstraction (trusted, DESIGN §3): a profile directory is its `relations` file (a schema, or absent)
plus, per relation name, two optional files (plain, `.gz`).  A file is the list of its rows, a row
the list of the *written texts* of its cells, plus a logical mtime; gzip is the identity on content.
The escaping layer (`escape`/`unescape`, one `@` per column boundary) is C08/C09's subject and is not
repeated here: reading a cell gives `None` for an empty text and the text otherwise
(`tsdb.split` without field casting, `Database(autocast=False)`).

PARAMETER of the model: the outcome of `tsql.select('* from T where <filter>', db)` for each table,
given as the number of joined tuples that extend each source row of `T` and satisfy the filter
(`Sel.counts`), or the fact that the query raised (`TSQLError` ⇒ documented fallback to all rows; any
other exception escapes).  TSQL itself is C11's subject; the select output is ordered by the rows of
`T` (the first relation joined), which is what `expand` states.
Core Lean only.
-/
import Verif.C08.Model
import Verif.Generated.Tables
import Verif.Generated.TablesC12

namespace Verif.C12
open Verif.Tables

inductive Err where
  | tsdbError        -- tsdb.TSDBError (column count, invalid escape, not a database)
  | commandError     -- commands.CommandError
  | typeError        -- TypeError (`", ".join` over a `None` while building an error message)
  | keyError         -- KeyError (`schema['item']`, unknown qualified column in the filter)
  | stopIteration    -- `next(lineiter)` on an empty delimited input
  | tsqlSyntaxError  -- tsql.TSQLSyntaxError (not a TSQLError: escapes the fallback)
  | indexError
  | valueError
  | attributeError   -- AttributeError (F31: the message of a type-mismatch TSQLError on a :float column)
  | unmodelled       -- input outside the modelled fragment (relation without fields)
deriving Repr, DecidableEq

abbrev Text := List Char
abbrev Name := String
/-- a cell as `Database(autocast=False)` delivers it: `None` for an empty field -/
abbrev Cell := Option Text
abbrev Rec := List Cell

/-- `tsdb.Field` as far as `__eq__` and `default` look at it (the comment is ignored by both) -/
structure Field where
  name : Name
  dt : String
  flags : List String
deriving Repr, DecidableEq

/-- `Field.default`: coded attribute, else `-1` for `:integer`, else empty. -/
def Field.default (f : Field) : Text :=
  match codedAttributes.lookup f.name with
  | some d => d.toList
  | none => if f.dt = ":integer" then ['-', '1'] else []

abbrev Schema := List (Name × List Field)

def Schema.names (s : Schema) : List Name := s.map (·.1)

structure File where
  rows : List (List Text)
  mtime : Nat
deriving Repr, DecidableEq

/-- the two possible physical files of one relation -/
structure RelFiles where
  tx : Option File := none
  gz : Option File := none
deriving Repr, DecidableEq

/-- `_get_paths`: `.gz` is used iff it exists and (plain absent or gz STRICTLY newer). -/
def RelFiles.useGz (r : RelFiles) : Bool :=
  match r.gz, r.tx with
  | none, _ => false
  | some _, none => true
  | some g, some t => decide (g.mtime > t.mtime)

/-- `split` of one field: empty ⇒ `None` -/
def readCell (t : Text) : Cell := if t.isEmpty then none else some t

def readRow (ts : List Text) : Rec := ts.map readCell

/-- `list(db[name])`; `none` = `TSDBError` (no file in either form) -/
def RelFiles.read (r : RelFiles) : Option (List Rec) :=
  (if r.useGz then r.gz else r.tx).map (fun f => f.rows.map readRow)

abbrev Files := Name → RelFiles

def Files.set (fs : Files) (n : Name) (r : RelFiles) : Files := fun m => if m = n then r else fs m

structure Dir where
  schema : Option Schema       -- the `relations` file
  files : Files

/-! ### `tsdb.write` (non-append) -/

/-- `format(f.datatype, v, default=f.default)` for `v` a string or `None` -/
def fmtCell (f : Field) (c : Cell) : Text := c.getD f.default

/-- `join(record, fields)` -/
def encodeRec (fields : List Field) (r : Rec) : Except Err (List Text) :=
  if fields.isEmpty then .error .unmodelled
  else if r.length ≠ fields.length then .error .tsdbError
  else .ok (List.zipWith fmtCell fields r)

/-- the staging loop of `write`: the first bad record aborts (the temp file is discarded) -/
def stage (fields : List Field) : List Rec → Except Err (List (List Text))
  | [] => .ok []
  | r :: rs =>
    match encodeRec fields r with
    | .error e => .error e
    | .ok t =>
      match stage fields rs with
      | .error e => .error e
      | .ok ts => .ok (t :: ts)

/-- what `write(..., append=False, gzip=gzip)` leaves for the relation: one file; compressed iff
`gzip` and the content is not empty; the other form is unlinked. -/
def writeRel (now : Nat) (gzip : Bool) (rows : List (List Text)) : RelFiles :=
  if gzip && !rows.isEmpty then { tx := none, gz := some ⟨rows, now⟩ }
  else { tx := some ⟨rows, now⟩, gz := none }

/-! ### `_remake_records` / `make_record` -/

/-- `dict(pairs).get(n)`: the LAST pair with that key wins -/
def lookupLast {α} : List (Name × α) → Name → Option α
  | [], _ => none
  | (k, v) :: rest, n =>
    match lookupLast rest n with
    | some x => some x
    | none => if k = n then some v else none

/-- `make_record(dict(zip(old names, record)), new fields)`; `zip` truncates; a missing column and a
`None` value both give `None`. -/
def remake (oldF newF : List Field) (r : Rec) : Rec :=
  newF.map (fun f => (lookupLast ((oldF.map (·.name)).zip r) f.name).getD none)

/-! ### the filter -/

/-- outcome of `tsql.select('* from T where …', db)` — parameter of the model -/
inductive Sel where
  | counts (ks : List Nat)   -- per source row of T: number of satisfying joined tuples
  | tsqlError                -- `TSQLError`: use all rows
  | raise (e : Err)          -- any other exception escapes from mkprof

/-- the selection's data projected on T's columns: every source row once per satisfying tuple, in
source order -/
def expand : List Rec → List Nat → List Rec
  | r :: rs, k :: ks => List.replicate k r ++ expand rs ks
  | _, _ => []

/-- the loop of `_tsql_distinct` with its `prev` variable -/
def distinctAux : Option Rec → List Rec → List Rec
  | _, [] => []
  | prev, r :: rs => if some r ≠ prev then r :: distinctAux (some r) rs else distinctAux (some r) rs

/-- `_tsql_distinct` -/
def tsqlDistinct (rs : List Rec) : List Rec := distinctAux none rs

/-! ### can the filter be joined with the relation?  (`tsql._plan_joins`, `_pivot_relations`)

What `tsql.select('* from T where c', db)` needs before it looks at any row: the relations the
columns of `c` resolve to (parameter `rs`, C11's subject), and a way to join them with `T` over
shared key names.  This part is modelled (not a parameter): it decides the documented fallback
"use all rows if the filter and table cannot be joined". -/

/-- `Field.is_key` -/
def Field.isKey (f : Field) : Bool :=
  f.flags.any (fun fl => fl == ":key" || fl == ":primary" || ":foreign".isPrefixOf fl)

/-- `keymap[rel]`: names of the key fields (none for an undeclared relation) -/
def keysOf (ss : Schema) (n : Name) : List Name :=
  match ss.lookup n with
  | some fs => (fs.filter Field.isKey).map (·.name)
  | none => []

def intersects (a b : List Name) : Bool := a.any (fun x => b.contains x)

/-- two relations can be hash-joined directly: they share a key name -/
def sharesKey (ss : Schema) (a b : Name) : Bool := intersects (keysOf ss a) (keysOf ss b)

/-- connected components of the key-name graph in which the keys of one relation form a clique -/
def mergeComp (comps : List (List Name)) (keys : List Name) : List (List Name) :=
  if keys.isEmpty then comps
  else ((comps.filter (fun c => intersects keys c)).flatten ++ keys)
        :: comps.filter (fun c => !intersects keys c)

def components (ss : Schema) (rels : List Name) : List (List Name) :=
  rels.foldl (fun cs r => mergeComp cs (keysOf ss r)) []

/-- `_pivot_relations`: while the key names of the requested relations fall into several components,
add the first relation of the schema (not yet used, more than one key) that touches more than one of
them; `none` = `TSQLError('could not find relation to join')`. -/
def pivotLoop (ss : Schema) : Nat → List Name → List Name → Option (List Name)
  | 0, _, _ => none
  | fuel + 1, relset, pivots =>
    let comps := components ss (relset ++ pivots)
    if comps.length ≤ 1 then some pivots
    else
      match ss.find? (fun r => !(relset ++ pivots).contains r.1 && (keysOf ss r.1).length > 1
                        && (comps.filter (fun c => intersects c (keysOf ss r.1))).length > 1) with
      | none => none
      | some r => pivotLoop ss fuel relset (pivots ++ [r.1])

/-- the ordering loop of `_plan_joins` as a reachability computation: start with `T`, repeatedly
take the relations that share a key with one already taken -/
def reachLoop (ss : Schema) (J : List Name) : Nat → List Name → List Name
  | 0, reach => reach
  | fuel + 1, reach =>
    reachLoop ss J fuel
      (reach ++ J.filter (fun n => !reach.contains n && reach.any (fun m => sharesKey ss m n)))

/-- the relations joined for `* from t where c` when the columns of `c` belong to `rs`;
`none` = `TSQLError` (no pivot relation, or some relation cannot be reached: 'infinite loop detected') -/
def joinPlan (ss : Schema) (t : Name) (rs : List Name) : Option (List Name) :=
  let relset := t :: rs
  match pivotLoop ss (ss.length + 1) relset [] with
  | none => none
  | some pivots =>
    let J := relset ++ pivots
    let reach := reachLoop ss J J.length [t]
    if J.all (fun n => reach.contains n) then some J else none

/-- what the harness reports about the filter for one table (C11's part of the query) -/
inductive Filt where
  | unresolved                 -- a column is undefined or the literal has the wrong type: `TSQLError`
  | raise (e : Err)            -- the text does not parse / unknown qualified column: escapes
  | rels (rs : List Name) (ks : List Nat) (late : Option Err)
      -- the relations of the condition's columns; per row of T the number of satisfying joined
      -- tuples (meaningful when a join plan exists); an exception raised while joining (a joined
      -- relation has no file)

/-- the outcome of the select for table `t`, with the joinability decided by the model -/
def planSel (ss : Schema) (t : Name) : Filt → Sel
  | .unresolved => .tsqlError
  | .raise e => .raise e
  | .rels rs ks late =>
    match joinPlan ss t rs with
    | none => .tsqlError
    | some _ =>
      match late with
      | some e => .raise e
      | none => .counts ks

/-! ### one loop for `_mkprof_from_database` and `write_database` -/

/-- `for table in schema: records = …; tsdb.write(dest, table, records, schema[table], gzip=gzip)`.
`recsOf` may look at the files written so far (the refresh works in place).  The first exception
aborts, keeping what was written. -/
def writeLoop (now : Nat) (gzip : Bool) (recsOf : Files → Name → List Field → Except Err (List Rec)) :
    Files → Schema → Files × Option Err
  | fs, [] => (fs, none)
  | fs, (t, fields) :: rest =>
    match recsOf fs t fields with
    | .error e => (fs, some e)
    | .ok recs =>
      match stage fields recs with
      | .error e => (fs, some e)
      | .ok rows => writeLoop now gzip recsOf (fs.set t (writeRel now gzip rows)) rest

/-! ### `_mkprof_cleanup` -/

/-- the two `unlink` tests for one relation name; a `.gz` file is never 0 bytes long -/
def cleanupOne (keep skeleton : Bool) (r : RelFiles) : RelFiles :=
  { tx := match r.tx with
      | some f => if !keep || (skeleton && f.rows.isEmpty) then none else some f
      | none => none
    gz := match r.gz with
      | some f => if !keep then none else some f
      | none => none }

/-- `to_keep`: the destination schema, intersected with the core files for a skeleton -/
def keeps (dstSchema : Schema) (skeleton : Bool) (n : Name) : Bool :=
  dstSchema.names.contains n && (!skeleton || coreFiles.contains n)

def cleanup (dstSchema : Schema) (skeleton : Bool) (old : List Name) (fs : Files) : Files :=
  fun n => if dstSchema.names.contains n || old.contains n
           then cleanupOne (keeps dstSchema skeleton n) skeleton (fs n) else fs n

/-! ### `mkprof(dest, source=<profile dir>, …)` -/

structure DbParams where
  schema : Option Schema          -- `schema=` (already read by `read_schema`)
  sel : Option (Name → Sel)       -- `none`: no `where`
  full : Bool
  gzip : Bool
  skeleton : Bool

/-- the rows `_mkprof_from_database` selects from the source relation, before remapping -/
def selectRows (sel : Option (Name → Sel)) (t : Name) (rows : List Rec) : Except Err (List Rec) :=
  match sel with
  | none => .ok rows
  | some s =>
    match s t with
    | .counts ks => .ok (tsqlDistinct (expand rows ks))
    | .tsqlError => .ok rows
    | .raise e => .error e

/-- the `records` of one iteration of `_mkprof_from_database` -/
def dbRecords (srcSchema : Schema) (src : Files) (p : DbParams) (target : Schema)
    (t : Name) (newF : List Field) : Except Err (List Rec) :=
  let toCopy := if p.full then target.names else coreFiles
  if !toCopy.contains t then .ok [] else
  match srcSchema.lookup t, (src t).read with
  | some oldF, some rows =>
    match selectRows p.sel t rows with
    | .error e => .error e
    | .ok recs => .ok (if !recs.isEmpty && oldF ≠ newF then recs.map (remake oldF newF) else recs)
  | _, _ => .ok []          -- `_no_such_relation`

def mkprofDb (now : Nat) (src dst : Dir) (p : DbParams) : Dir × Option Err :=
  match src.schema with
  | none => (dst, some .tsdbError)      -- `tsdb.Database(source)`
  | some ss =>
    let target := p.schema.getD ss
    match writeLoop now p.gzip (fun _ => dbRecords ss src.files p target) dst.files target with
    | (fs, some e) => ({ schema := some target, files := fs }, some e)
    | (fs, none) =>
      ({ schema := some target, files := cleanup target p.skeleton ss.names fs }, none)

/-! ### `mkprof(dest, refresh=True)` : `write_database(db, db.path, schema=schema, gzip=gzip)` -/

/-- the `relation` of one iteration of `write_database`, read from the directory as it is now -/
def refreshRecords (old : Schema) (remakeAll : Bool) (fs : Files) (t : Name) (newF : List Field) :
    Except Err (List Rec) :=
  match old.lookup t with
  | none => .ok []
  | some oldF =>
    let recs := ((fs t).read).getD []          -- TSDBError of `db[name]` is swallowed
    .ok (if remakeAll then recs.map (remake oldF newF) else recs)

def mkprofRefresh (now : Nat) (dst : Dir) (schema : Option Schema) (gzip skeleton : Bool) :
    Dir × Option Err :=
  match dst.schema with
  | none => (dst, some .tsdbError)
  | some old =>
    let target := schema.getD old
    match writeLoop now gzip (refreshRecords old schema.isSome) dst.files target with
    | (fs, some e) => ({ schema := some target, files := fs }, some e)
    | (fs, none) => ({ schema := some target, files := cleanup target skeleton old.names fs }, none)

/-! ### `mkprof(dest, source=<text file or stdin>, schema=…)` -/

/-- a value of the column map of `_lines_to_records` -/
inductive LVal where
  | none
  | str (s : Text)
  | int (n : Nat)
deriving Repr, DecidableEq

def ofCell : Cell → LVal
  | .none => .none
  | .some s => .str s

/-- `format(datatype, value, default)` : `str(value)`, `None` ⇒ default -/
def LVal.text (f : Field) : LVal → Text
  | .none => f.default
  | .str s => s
  | .int n => C08.natDigits n

def isPyWhitespace (c : Char) : Bool := pyWhitespace.contains c.toNat

/-- `len(s.split())`: number of maximal runs of non-whitespace characters -/
def wordCountAux : Bool → Text → Nat
  | _, [] => 0
  | inWord, c :: cs =>
    if isPyWhitespace c then wordCountAux false cs
    else (if inWord then 0 else 1) + wordCountAux true cs

def wordCount (s : Text) : Nat := wordCountAux false s

/-- `line.split(sep)` for a non-empty `sep` (leftmost non-overlapping occurrences) -/
def splitSepAux (sep : Text) : Nat → Text → Text → List Text
  | _, cur, [] => [cur.reverse]
  | skip + 1, cur, _ :: rest => splitSepAux sep skip cur rest
  | 0, cur, c :: rest =>
    if sep.isPrefixOf (c :: rest) then cur.reverse :: splitSepAux sep (sep.length - 1) [] rest
    else splitSepAux sep 0 (c :: cur) rest

def splitSep (sep : Text) (s : Text) : List Text := splitSepAux sep 0 [] s

inductive Splitter where
  | plain                 -- no delimiter: `*` marks an ill-formed item
  | tsdb                  -- delimiter `@`: `tsdb.split`
  | sep (d : Text)        -- `line.split(delimiter)`

def Splitter.ofDelim : Option Text → Splitter
  | none => .plain
  | some [] => .plain
  | some d => if d = ['@'] then .tsdb else .sep d

/-- the `split` function made by `_make_split` -/
def Splitter.split (sp : Splitter) (line : Text) : Except Err (List LVal) :=
  match sp with
  | .plain =>
    match line with
    | '*' :: rest => .ok [.int 0, .str rest]
    | _ => .ok [.int 1, .str line]
  | .tsdb =>
    match C08.splitRaw line with
    | .ok cs => .ok (cs.map ofCell)
    | .error _ => .error .tsdbError
  | .sep d => .ok ((splitSep d line).map .str)

def iId : LVal := .str "i-id".toList
def iInput : LVal := .str "i-input".toList
def iLength : LVal := .str "i-length".toList
def iWf : LVal := .str "i-wf".toList

/-- `dict.get`: the last pair with that key -/
def mapGet : List (LVal × LVal) → LVal → Option LVal
  | [], _ => none
  | (k, v) :: rest, n =>
    match mapGet rest n with
    | some x => some x
    | none => if k = n then some v else none

def strOf : LVal → Text
  | .str s => s
  | _ => []

/-- `if 'i-id' not in colmap: colmap['i-id'] = i` (only when the relation has an `i-id` field) -/
def addId (withId : Bool) (cm : List (LVal × LVal)) (i : Nat) : List (LVal × LVal) :=
  if withId then (if (mapGet cm iId).isSome then cm else cm ++ [(iId, .int i)]) else cm

/-- `if with_i_length and 'i-length' not in colmap and 'i-input' in colmap:
colmap['i-length'] = len((colmap['i-input'] or '').split())` -/
def addLength (withLen : Bool) (cm : List (LVal × LVal)) : List (LVal × LVal) :=
  if withLen && (mapGet cm iLength).isNone then
    match mapGet cm iInput with
    | some v => cm ++ [(iLength, .int (wordCount (strOf v)))]
    | none => cm
  else cm

/-- one iteration of the loop of `_lines_to_records`; `i` is the 1-based number of the data line,
`seen` the `i_ids` set.  Returns the record (`make_record`) and the new set. -/
def lineRecord (fields : List Field) (colnames : List LVal) (sp : Splitter)
    (i : Nat) (seen : List LVal) (line : Text) : Except Err (List LVal × List LVal) :=
  match sp.split line with
  | .error e => .error e
  | .ok colvals =>
    if colvals.length ≠ colnames.length then
      -- the message is built with `", ".join(colnames)` and `", ".join(colvals)`
      if colnames.any (· == .none) || colvals.any (fun v => match v with | .str _ => false | _ => true)
      then .error .typeError else .error .commandError
    else
      let withId := fields.any (fun f => f.name = "i-id")
      let withLen := fields.any (fun f => f.name = "i-length")
      let cm := addId withId (colnames.zip colvals) i
      let idv := (mapGet cm iId).getD .none
      if withId && seen.contains idv then .error .commandError      -- duplicate i-id
      else
        .ok (fields.map (fun f => (mapGet (addLength withLen cm) (.str f.name.toList)).getD .none),
             if withId then idv :: seen else seen)

def linesLoop (fields : List Field) (colnames : List LVal) (sp : Splitter) :
    Nat → List LVal → List Text → Except Err (List (List LVal))
  | _, _, [] => .ok []
  | i, seen, l :: ls =>
    match lineRecord fields colnames sp i seen l with
    | .error e => .error e
    | .ok (r, seen') =>
      match linesLoop fields colnames sp (i + 1) seen' ls with
      | .error e => .error e
      | .ok rs => .ok (r :: rs)

/-- `join(record, fields)` on a record of column-map values (never a length mismatch: the record
was made by `make_record` from the same fields) -/
def encodeL (fields : List Field) (r : List LVal) : List Text :=
  List.zipWith (fun f v => v.text f) fields r

/-- `_make_split`: column names and the remaining lines -/
def makeSplit (sp : Splitter) (lines : List Text) : Except Err (List LVal × List Text) :=
  match sp with
  | .plain => .ok ([iWf, iInput], lines)
  | _ =>
    match lines with
    | [] => .error .stopIteration
    | h :: rest =>
      match sp.split h with
      | .error e => .error e
      | .ok names => .ok (names, rest)

/-- `initialize_database(dest, schema, files=True)` on the files -/
def initFiles (now : Nat) (schema : Schema) (fs : Files) : Files :=
  fun n => if schema.names.contains n then { tx := some ⟨[], now⟩, gz := none } else fs n

def mkprofLines (now : Nat) (dst : Dir) (schema : Option Schema) (delim : Option Text)
    (lines : List Text) (gzip skeleton : Bool) : Dir × Option Err :=
  match schema with
  | none => (dst, some .commandError)
  | some [] => (dst, some .commandError)
  | some sch =>
    let sp := Splitter.ofDelim delim
    match makeSplit sp lines with
    | .error e => (dst, some e)
    | .ok (colnames, rest) =>
      let d1 : Dir := { schema := some sch, files := initFiles now sch dst.files }
      match sch.lookup "item" with
      | none => (d1, some .keyError)
      | some fields =>
        if fields.isEmpty then (d1, some .unmodelled) else
        match linesLoop fields colnames sp 1 [] rest with
        | .error e => (d1, some e)
        | .ok recs =>
          let fs := d1.files.set "item" (writeRel now gzip (recs.map (encodeL fields)))
          ({ schema := some sch, files := cleanup sch skeleton [] fs }, none)

end Verif.C12
