import Verif.C03.Model
import Verif.Common.SemLemmas

/-!
C03 — the status markers of the native EDS encoder (`|` in front of a node, `(fragmented)` after
the top) stated in terms of connectivity in the undirected edge graph.  Core Lean only.
-/
namespace Verif.C03
open Verif.Codec Verif.Sem

/-- `x` is connected to the start of the search (the top, or the first node when there is no top) by a path in the
undirected edge graph -/
def EDS.Connected (e : EDS) (x : Str) : Prop := Reach (adjOf (symm e.edgePairs)) e.start x

theorem mem_reach_iff (e : EDS) (x : Str) : x ∈ e.reach ↔ e.Connected x :=
  bfs_correct (symm e.edgePairs) e.start x

/-- the start itself is always reached (so the first node of a graph without top is never marked) -/
theorem start_mem_reach (e : EDS) : e.start ∈ e.reach :=
  (bfs_closed (symm e.edgePairs) e.start).1

/-- the source of an edge is a node identifier -/
theorem edgePairs_fst_mem_ids (e : EDS) (a b : Str) (h : (a, b) ∈ e.edgePairs) : a ∈ e.ids := by
  unfold EDS.edgePairs at h
  obtain ⟨n, hn, hp⟩ := List.mem_flatMap.1 h
  obtain ⟨p, _, hpe⟩ := List.mem_map.1 hp
  simp only [Prod.mk.injEq] at hpe
  rw [← hpe.1]
  exact List.mem_map.2 ⟨n, hn, rfl⟩

/-- the target of an edge is a node identifier when all targets are nodes -/
theorem edgePairs_snd_mem_ids (e : EDS) (ht : e.targetsOk = true) (a b : Str)
    (h : (a, b) ∈ e.edgePairs) : b ∈ e.ids := by
  unfold EDS.edgePairs at h
  obtain ⟨n, hn, hp⟩ := List.mem_flatMap.1 h
  obtain ⟨p, hpm, hpe⟩ := List.mem_map.1 hp
  simp only [Prod.mk.injEq] at hpe
  unfold EDS.targetsOk at ht
  rw [List.all_eq_true] at ht
  have h1 := ht n hn
  rw [List.all_eq_true] at h1
  have h2 := h1 p hpm
  rw [decide_eq_true_eq] at h2
  rw [← hpe.2]
  exact h2

/-- every edge of the undirected graph joins node identifiers when all targets are nodes -/
theorem connected_mem_ids (e : EDS) (ht : e.targetsOk = true) (hs : e.start ∈ e.ids) (x : Str)
    (h : e.Connected x) : x ∈ e.ids := by
  unfold EDS.Connected at h
  induction h with
  | refl => exact hs
  | tail _ hc _ =>
    rw [mem_adjOf, mem_symm] at hc
    rcases hc with hc | hc
    · exact edgePairs_snd_mem_ids e ht _ _ hc
    · exact edgePairs_fst_mem_ids e _ _ hc

/-- [core] "with the status markers for disconnected … graphs shown or hidden": a node is printed with `|` exactly when
markers are shown and the node is not connected to the top -/
theorem statusToks_iff (o : Opts) (e : EDS) (n : Node) :
    e.statusToks o n = [tNstatus] ↔ (o.showStatus = true ∧ ¬ e.Connected n.id) := by
  rw [← mem_reach_iff]
  unfold EDS.statusToks
  by_cases hr : n.id ∈ e.reach
  · rw [if_pos hr]
    constructor
    · intro h; exact absurd h (by simp)
    · intro h; exact absurd hr h.2
  · rw [if_neg hr]
    cases hsh : o.showStatus
    · simp
    · simp [hr]

theorem statusToks_nil_iff (o : Opts) (e : EDS) (n : Node) :
    e.statusToks o n = [] ↔ (o.showStatus = false ∨ e.Connected n.id) := by
  rw [← mem_reach_iff]
  unfold EDS.statusToks
  by_cases hr : n.id ∈ e.reach
  · rw [if_pos hr]
    exact ⟨fun _ => Or.inr hr, fun _ => rfl⟩
  · rw [if_neg hr]
    cases hsh : o.showStatus
    · simp
    · simp [hr]

/-- the text form: `|` in front of the node exactly in the same situation -/
theorem membership_bar_iff (o : Opts) (e : EDS) (n : Node) :
    e.membership o n = ['|'] ↔ (o.showStatus = true ∧ ¬ e.Connected n.id) := by
  rw [← mem_reach_iff]
  unfold EDS.membership
  by_cases hr : n.id ∈ e.reach
  · rw [if_pos hr]
    constructor
    · intro h
      cases hi : o.indent
      · rw [hi] at h; exact absurd h (by simp)
      · rw [hi] at h; exact absurd h (by decide)
    · intro h; exact absurd hr h.2
  · rw [if_neg hr]
    cases hsh : o.showStatus
    · constructor
      · intro h; exact absurd h (by decide)
      · intro h; exact absurd h.1 (by simp)
    · simp [hr]

/-- [core] "(fragmented)" is the statement that some node is not connected to the top (for a graph whose top, when
given, is one of its nodes and whose edges end in nodes) -/
theorem fragmented_iff (e : EDS) (ht : e.targetsOk = true) (hs : e.start ∈ e.ids) :
    e.fragmented = true ↔ ∃ n ∈ e.nodes, ¬ e.Connected n.id := by
  have h2 : e.reach.all (fun i => decide (i ∈ e.ids)) = true := by
    rw [List.all_eq_true]
    intro x hx
    rw [decide_eq_true_eq]
    exact connected_mem_ids e ht hs x ((mem_reach_iff e x).1 hx)
  unfold EDS.fragmented
  rw [h2, Bool.and_true]
  constructor
  · intro h
    apply Classical.byContradiction
    intro hno
    have hall : e.ids.all (fun i => decide (i ∈ e.reach)) = true := by
      rw [List.all_eq_true]
      intro x hx
      rw [decide_eq_true_eq]
      obtain ⟨n, hn, rfl⟩ := List.mem_map.1 hx
      apply Classical.byContradiction
      intro hnr
      exact hno ⟨n, hn, fun hc => hnr ((mem_reach_iff e n.id).2 hc)⟩
    rw [hall] at h
    exact absurd h (by decide)
  · rintro ⟨n, hn, hc⟩
    cases hall : e.ids.all (fun i => decide (i ∈ e.reach))
    · rfl
    · rw [List.all_eq_true] at hall
      have := hall n.id (List.mem_map.2 ⟨n, hn, rfl⟩)
      rw [decide_eq_true_eq] at this
      exact absurd ((mem_reach_iff e n.id).1 this) hc

/-- a top that is not a node makes the graph fragmented -/
theorem fragmented_of_start_not_node (e : EDS) (hs : e.start ∉ e.ids) : e.fragmented = true := by
  unfold EDS.fragmented
  cases h2 : e.reach.all (fun i => decide (i ∈ e.ids))
  · rw [Bool.and_false]; rfl
  · rw [List.all_eq_true] at h2
    have := h2 e.start (start_mem_reach e)
    rw [decide_eq_true_eq] at this
    exact absurd this hs

theorem topToks_fragmented_iff (o : Opts) (e : EDS) :
    tFragmented ∈ e.topToks o ↔ (o.showStatus = true ∧ e.fragmented = true) := by
  unfold EDS.topToks
  rw [List.mem_append]
  have h1 : ¬ tFragmented ∈ (match e.top with | some t => [tSym t, tColon] | none => []) := by
    cases e.top with
    | none => simp
    | some t => simp [tFragmented, tSym, tColon]
  constructor
  · rintro (h | h)
    · exact absurd h h1
    · by_cases hc : (o.showStatus && e.fragmented) = true
      · simpa using hc
      · rw [if_neg hc] at h; exact absurd h List.not_mem_nil
  · intro h
    right
    rw [h.1, h.2]
    simp

end Verif.C03
