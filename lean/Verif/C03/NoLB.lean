/-
C03 — the single-line layout (`indent = false`) of a lexable graph contains no character at which
`str.splitlines()` breaks a line (`textE_noLB`), nor does a single-line document (`dumpsText_noLB`).
-/
import Verif.C03.LexSpec
import Verif.C03.JsonLemmas

namespace Verif.C03.Lex
open Verif.Codec Verif.LnkLex Verif.C03

def NoLB (s : Str) : Prop := ∀ c ∈ s, isLineBreak c = false

theorem noLB_nil : NoLB [] := by intro c hc; cases hc

theorem noLB_cons {c : Char} {s : Str} (hc : isLineBreak c = false) (hs : NoLB s) : NoLB (c :: s) := by
  intro x hx
  rcases List.mem_cons.1 hx with rfl | hx
  · exact hc
  · exact hs x hx

theorem noLB_append {a b : Str} (ha : NoLB a) (hb : NoLB b) : NoLB (a ++ b) := by
  intro x hx
  rcases List.mem_append.1 hx with hx | hx
  · exact ha x hx
  · exact hb x hx

theorem noLB_single {c : Char} (hc : isLineBreak c = false) : NoLB [c] := noLB_cons hc noLB_nil

theorem mem_joinStr {sep : Str} {ps : List Str} {c : Char} (h : c ∈ joinStr sep ps) :
    c ∈ sep ∨ ∃ p ∈ ps, c ∈ p := by
  induction ps with
  | nil => simp [joinStr] at h
  | cons p ps ih =>
    cases ps with
    | nil =>
      simp only [joinStr] at h
      exact Or.inr ⟨p, by simp, h⟩
    | cons q qs =>
      simp only [joinStr, List.mem_append] at h
      rcases h with (h | h) | h
      · exact Or.inr ⟨p, by simp, h⟩
      · exact Or.inl h
      · rcases ih h with h | ⟨r, hr, hc⟩
        · exact Or.inl h
        · exact Or.inr ⟨r, List.mem_cons_of_mem _ hr, hc⟩

theorem noLB_joinStr {sep : Str} {ps : List Str} (hs : NoLB sep) (hp : ∀ p ∈ ps, NoLB p) :
    NoLB (joinStr sep ps) := by
  intro c hc
  rcases mem_joinStr hc with h | ⟨p, hp', h⟩
  · exact hs c h
  · exact hp p hp' c h

theorem noLB_of_sym {s : Str} (h : symOKb s = true) : NoLB s := by
  intro c hc
  simp only [symOKb, Bool.and_eq_true, List.all_eq_true, Bool.not_eq_true'] at h
  exact (h.1.1.2 c hc).2

theorem noLB_of_ident {s : Str} (h : identOKb s = true) : NoLB s := by
  intro c hc
  simp only [identOKb, List.all_eq_true] at h
  have h1 := h c hc
  simp only [identOk, Bool.and_eq_true, Bool.not_eq_true'] at h1
  cases hb : isLineBreak c with
  | false => rfl
  | true =>
    have h2 := lb_space hb
    rw [h1.1] at h2
    cases h2

theorem noLB_of_noLBb {s : Str} (h : noLBb s = true) : NoLB s := by
  intro c hc
  simp only [noLBb, List.all_eq_true, Bool.not_eq_true'] at h
  exact h c hc

theorem noLB_escapeDQ {s : Str} (h : NoLB s) : NoLB (escapeDQ s) := by
  intro c hc
  rcases mem_escapeDQ hc with rfl | hc
  · decide
  · exact h c hc

theorem lnkOK_of_b' {l : Lnk} (h : lnkOKb l = true) : LnkOK l := by
  cases l with
  | unspec => simp [lnkOKb] at h
  | charspan a b => trivial
  | chartspan a b => trivial
  | tokens ts =>
    simp only [lnkOKb, Bool.and_eq_true, Bool.not_eq_true', List.all_eq_true, decide_eq_true_eq] at h
    refine ⟨?_, h.2⟩
    intro e
    subst e
    simp at h
  | edge n =>
    simpa [lnkOKb, LnkOK] using h

theorem noLB_lnk {l : Lnk} (h : lnkOKb l = true) : NoLB l.str := by
  obtain ⟨inner, hs, hc, _⟩ := lnk_shape l (lnkOK_of_b' h)
  rw [hs]
  exact noLB_cons (by decide) (noLB_append (fun c hm => cls_noLB (hc c hm)) (noLB_single (by decide)))

theorem noLB_pairText {p : Str × Str} (h : pairOKb p = true) : NoLB (pairText p) := by
  simp only [pairOKb, Bool.and_eq_true] at h
  exact noLB_append (noLB_of_sym h.1) (noLB_cons (by decide) (noLB_of_sym h.2))

theorem noLB_pairs {d : Dict} (h : ∀ p ∈ d, pairOKb p = true) :
    NoLB (joinStr [',', ' '] (d.map pairText)) := by
  refine noLB_joinStr (noLB_cons (by decide) (noLB_single (by decide))) ?_
  intro s hs
  obtain ⟨p, hp, rfl⟩ := List.mem_map.1 hs
  exact noLB_pairText (h p hp)

theorem nodeText_noLB (o : Opts) (n : Node) (h : nodeOKb o n = true) : NoLB (nodeText o n) := by
  simp only [nodeOKb, Bool.and_eq_true, List.all_eq_true] at h
  obtain ⟨⟨⟨⟨⟨hid, hpred⟩, hlnk⟩, hcarg⟩, hblock⟩, hedges⟩ := h
  unfold nodeText
  refine noLB_append (noLB_append (noLB_append (noLB_append (noLB_append
    (noLB_append (noLB_of_sym hid) (noLB_cons (by decide) (noLB_of_sym hpred))) ?_) ?_) ?_) ?_)
    (noLB_single (by decide))
  · -- alignment
    cases hc : (o.lnk && n.lnk.truthy) with
    | false => simp only [Bool.false_eq_true, if_false]; exact noLB_nil
    | true =>
      simp only [if_true]
      rw [hc] at hlnk
      exact noLB_lnk (by simpa using hlnk)
  · -- constant
    cases hc : n.carg with
    | none => exact noLB_nil
    | some c =>
      rw [hc] at hcarg
      exact noLB_append (noLB_cons (by decide) (noLB_cons (by decide)
        (noLB_escapeDQ (noLB_of_noLBb hcarg)))) (noLB_cons (by decide) (noLB_single (by decide)))
  · -- property block
    cases hs : n.showBlock o with
    | false => simp only [Bool.false_eq_true, if_false]; exact noLB_nil
    | true =>
      simp only [if_true]
      rw [hs] at hblock
      simp only [Bool.not_true, Bool.false_or, Bool.and_eq_true, List.all_eq_true] at hblock
      refine noLB_append (noLB_append (noLB_cons (by decide) (noLB_of_sym hblock.1)) ?_)
        (noLB_single (by decide))
      cases n.props.isEmpty with
      | true => simp only [if_true]; exact noLB_nil
      | false =>
        simp only [Bool.false_eq_true, if_false]
        refine noLB_cons (by decide) (noLB_pairs ?_)
        intro p hp
        exact hblock.2 p ((mem_sortStable _ p n.props).1 hp)
  · -- edges
    refine noLB_cons (by decide) (noLB_pairs ?_)
    intro p hp
    exact hedges p ((mem_sortStable _ p n.edges).1 hp)

theorem endText_noLB (o : Opts) (hi : o.indent = false) : NoLB (endText o) := by
  simp only [endText, hi, Bool.false_eq_true, if_false]
  exact noLB_single (by decide)

theorem startText_noLB (o : Opts) (e : EDS) (hi : o.indent = false)
    (h : (match e.identifier with | some s => identOKb s | none => true) = true) :
    NoLB (e.startText o) := by
  unfold EDS.startText
  cases ht : truthyStr e.identifier with
  | false => simp only [Bool.false_eq_true, if_false]; exact noLB_single (by decide)
  | true =>
    simp only [if_true, hi, Bool.false_eq_true, if_false]
    cases hid : e.identifier with
    | none => rw [hid] at ht; cases ht
    | some s =>
      rw [hid] at h
      exact noLB_append (noLB_append (noLB_cons (by decide) (noLB_of_ident h)) (noLB_single (by decide)))
        (noLB_single (by decide))

theorem membership_noLB (o : Opts) (e : EDS) (n : Node) (hi : o.indent = false) :
    NoLB (e.membership o n) := by
  unfold EDS.membership
  simp only [hi, Bool.false_eq_true, if_false]
  split
  · exact noLB_nil
  · split
    · exact noLB_single (by decide)
    · exact noLB_single (by decide)

theorem fragmented_noLB : NoLB "(fragmented)".toList := by
  have e : "(fragmented)".toList = ['(', 'f', 'r', 'a', 'g', 'm', 'e', 'n', 't', 'e', 'd', ')'] := by decide
  rw [e]
  repeat (first | exact noLB_nil | refine noLB_cons (by decide) ?_)

theorem topParts_noLB (o : Opts) (e : EDS)
    (h : (match e.top with | some t => symOKb t | none => true) = true) :
    ∀ p ∈ e.topParts o, NoLB p := by
  intro p hp
  unfold EDS.topParts at hp
  rcases List.mem_append.1 hp with hp | hp
  · cases ht : e.top with
    | none => rw [ht] at hp; cases hp
    | some t =>
      rw [ht] at hp h
      simp only [List.mem_singleton] at hp
      subst hp
      exact noLB_append (noLB_of_sym h) (noLB_single (by decide))
  · split at hp
    · simp only [List.mem_singleton] at hp
      subst hp
      exact fragmented_noLB
    · cases hp

/-- the single-line layout of a lexable graph contains no line break … -/
theorem textE_noLB (o : Opts) (e : EDS) (hi : o.indent = false) (h : lexOKb o e = true) :
    NoLB (textE o e) := by
  simp only [lexOKb, Bool.and_eq_true, List.all_eq_true] at h
  obtain ⟨⟨hident, htop⟩, hnodes⟩ := h
  unfold textE
  split
  · exact noLB_append (startText_noLB o e hi hident) (endText_noLB o hi)
  · refine noLB_append (noLB_append (startText_noLB o e hi hident) ?_) (endText_noLB o hi)
    simp only [hi, Bool.false_eq_true, if_false, Bool.or_false]
    refine noLB_joinStr (noLB_single (by decide)) ?_
    intro p hp
    rcases List.mem_append.1 hp with hp | hp
    · split at hp
      · simp only [List.mem_singleton] at hp
        subst hp
        exact noLB_joinStr (noLB_single (by decide)) (topParts_noLB o e htop)
      · cases hp
    · obtain ⟨n, hn, rfl⟩ := List.mem_map.1 hp
      exact noLB_append (membership_noLB o e n hi) (nodeText_noLB o n (hnodes n hn))

/-- … nor does a single-line document of lexable graphs -/
theorem dumpsText_noLB (o : Opts) (es : List EDS) (hi : o.indent = false)
    (h : ∀ e ∈ es, lexOKb o e = true) : NoLB (dumpsText o es) := by
  unfold dumpsText
  simp only [hi, Bool.false_eq_true, if_false]
  refine noLB_joinStr (noLB_single (by decide)) ?_
  intro p hp
  obtain ⟨e, he, rfl⟩ := List.mem_map.1 hp
  exact textE_noLB o e hi (h e he)

end Verif.C03.Lex
