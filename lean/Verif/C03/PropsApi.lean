/-
C03 — property theorems, second module (round 6): the API layer and the cross-codec clause.

* "re-encoding the decoded graph in the native format reproduces the text; EDS-PENMAN does the same": the native
  text of the graph the JSON / PENMAN codec returns (`json_native_reencode`, `penman_native_reencode`);
* "single vs. list API", file and stream variants: `dump` / `load` (`load_dump_roundtrip_text`, …), the `indent`
  argument (`api_roundtrip_any_indent`), a one-graph list (`dumps_singleton`);
* the hypotheses of the theorems of Props.lean are necessary: `decide`-checked witnesses.

Proofs of the lemmas: ApiLemmas.lean.  Model: Api.lean.
-/
import Verif.C03.Props
import Verif.C03.ApiLemmas

namespace Verif.C03
open Verif.Codec Verif.Sem

/-! ## "(JSON up to node order) … re-encoding the decoded graph in the native format reproduces the text" -/

/-- [core] For every graph with distinct identifiers whose edges end at nodes and whose printed alignments are
character spans (all JSON keeps), every option vector: the graph `edsjson` returns is written by the native
encoder exactly as the original graph with its nodes in JSON order (by span when alignments are written, unchanged
otherwise) and without graph identifier — same top line, same status markers, same node texts. -/
theorem json_native_reencode (p l s i : Bool) (e : EDS) (hnd : e.ids.Nodup) (ht : e.targetsOk = true)
    (hl : ∀ n ∈ e.nodes, l = true → lnkJsonOK n.lnk = true) :
    nativeOfJson p l s i e
      = .ok (textE ⟨p, l, s, i⟩ { top := e.top, nodes := jsonOrder l e.nodes, identifier := none }) := by
  unfold nativeOfJson encode
  rw [fromDict_targetsOk p l e hnd ht, textE_fromDict_toDict p l s i e hnd hl]
  simp

/-- … so a graph whose nodes are already in span order (or any graph when alignments are suppressed) gets its own
native text back, up to the graph identifier JSON does not store. -/
theorem json_native_reencode_sorted (p l s i : Bool) (e : EDS) (hnd : e.ids.Nodup) (ht : e.targetsOk = true)
    (hl : ∀ n ∈ e.nodes, l = true → lnkJsonOK n.lnk = true)
    (hs : l = true → e.nodes.Pairwise (fun a b => spanLt b a = false)) :
    nativeOfJson p l s i e = .ok (textE ⟨p, l, s, i⟩ { e with identifier := none }) := by
  rw [json_native_reencode p l s i e hnd ht hl]
  have : jsonOrder l e.nodes = e.nodes := by
    cases l
    · rfl
    · exact sortStable_of_sorted spanLt _ (hs rfl)
  rw [this]

/-- the hypothesis on the alignments is necessary: a token alignment `<1 2>` is not in the native text of the
JSON-decoded graph. -/
theorem json_native_reencode_cex_lnk :
    let e : EDS := ⟨some "a".toList, [⟨"a".toList, "p".toList, none, [], [], none, .tokens [1, 2]⟩], none⟩
    (nativeOfJson true true false false e).toOption ≠ (encode ⟨true, true, false, false⟩ e).toOption := by
  decide

/-- [core] "EDS-PENMAN does the same for graphs connected from the top": under the hypotheses of `penman_roundtrip`
the graph `edspenman` returns is written by the native encoder exactly as the original graph with its top node
first and without graph identifier. -/
theorem penman_native_reencode (p l s i : Bool) (e : EDS) (t : Str)
    (htop : e.top = some t) (hmem : t ∈ e.ids) (hnd : e.ids.Nodup) (ht : e.targetsOk = true)
    (hconn : ∀ n ∈ e.nodes, e.Connected n.id) (hexp : ∀ n ∈ e.nodes, PenExpressible n) :
    nativeOfPenman p l s i e
      = .ok (some (textE ⟨p, l, s, i⟩ { top := some t, nodes := topFirst e, identifier := none })) := by
  have hr : ∀ x ∈ e.ids, x ∈ e.reach := by
    intro x hx
    obtain ⟨n, hn, rfl⟩ := List.mem_map.1 hx
    exact (mem_reach_iff e n.id).2 (hconn n hn)
  unfold nativeOfPenman
  rw [fromTriplesE_toTriples p l e t htop hmem hnd hr hexp]
  simp only [encode, penView_targetsOk p l e t ht, textE_penman]
  simp

/-- the hypotheses of `penman_native_reencode` are satisfiable -/
example :
    let G : EDS := ⟨some "e2".toList,
      [⟨"x1".toList, "pron".toList, some "x".toList, [], [("PERS".toList, "3".toList)], none, .charspan 0 2⟩,
       ⟨"e2".toList, "_rain_v_1".toList, some "e".toList, [("ARG1".toList, "x1".toList)], [], some "K".toList, .unspec⟩],
      none⟩
    (nativeOfPenman true true true false G).toOption
      = some (some "{e2: e2:_rain_v_1(\"K\"){e}[ARG1 x1] x1:pron<0:2>{x PERS 3}[]}".toList) := by
  decide

/-! ## "crossed with … single vs. list API": file and stream variants, the `indent` argument -/

/-- [core] `load(fh)` of what `dump(es, fh, …)` wrote: the file reader (lines broken at `\n` only, not by
`str.splitlines()`) reads the document plus the final line feed as the list of views — every option vector, also no
graph at all. -/
theorem load_dump_roundtrip_text (o : Opts) (es : List EDS) (hx : ∀ e ∈ es, Expressible e)
    (hok : ∀ e ∈ es, Lex.lexOKb o e = true) :
    Lex.loadFileText (dumpText o es) = .ok (es.map (viewE o)) := by
  have hl : Lex.lex (dumpText o es) = some (es.flatMap (toksE o)) :=
    Lex.lex_dumpText o es _ (lex_dumpsText_all o es hok)
  simp only [Lex.loadFileText, Lex.lexFile_eq_lex _ (Lex.dumpText_onlyNL o es hok), hl]
  exact docs_roundtrip o es hx

/-- the string reader on the same text: `loads(open(path).read())` -/
theorem loads_dump_roundtrip_text (o : Opts) (es : List EDS) (hx : ∀ e ∈ es, Expressible e)
    (hok : ∀ e ∈ es, Lex.lexOKb o e = true) :
    Lex.loadsText (dumpText o es) = .ok (es.map (viewE o)) := by
  have hl : Lex.lex (dumpText o es) = some (es.flatMap (toksE o)) :=
    Lex.lex_dumpText o es _ (lex_dumpsText_all o es hok)
  simp only [Lex.loadsText, hl]
  exact docs_roundtrip o es hx

/-- `load(path)`: the universal-newline translation of a real file changes nothing in what the encoder wrote -/
theorem loadPath_dump_roundtrip_text (o : Opts) (es : List EDS) (hx : ∀ e ∈ es, Expressible e)
    (hok : ∀ e ∈ es, Lex.lexOKb o e = true) :
    Lex.loadPathText (dumpText o es) = .ok (es.map (viewE o)) := by
  unfold Lex.loadPathText
  rw [Lex.univNL_id _ (Lex.onlyNL_no_cr (Lex.dumpText_onlyNL o es hok))]
  exact load_dump_roundtrip_text o es hx hok

/-- the file reader on the text of `dumps` (no final line feed): `load(io.StringIO(dumps(es)))` -/
theorem load_dumps_roundtrip_text (o : Opts) (es : List EDS) (hx : ∀ e ∈ es, Expressible e)
    (hok : ∀ e ∈ es, Lex.lexOKb o e = true) :
    Lex.loadFileText (dumpsText o es) = .ok (es.map (viewE o)) := by
  simp only [Lex.loadFileText, Lex.lexFile_eq_lex _ (Lex.dumpsText_onlyNL o es hok), lex_dumpsText_all o es hok]
  exact docs_roundtrip o es hx

/-- the file reader really differs from the string reader outside what the encoder writes: U+0085 breaks a line for
`str.splitlines()` and is an ordinary symbol character for the lines of a file. -/
theorem file_reader_differs :
    Lex.lex "{a:p\u0085q[]}".toList = some [tLbrace, tSym "a".toList, tColon, tSym "p".toList, tSym "q".toList, tLbracket, tRbracket, tRbrace]
    ∧ Lex.lexFile "{a:p\u0085q[]}".toList = some [tLbrace, tSym "a".toList, tColon, tSym "p\u0085q".toList, tLbracket, tRbracket, tRbrace] := by
  decide

/-- [core] whatever is passed as `indent` (None, a Boolean, any integer — `0` indents, the test is `is False`), the
text `encode` writes for a lexable expressible graph decodes to the same view. -/
theorem api_roundtrip_any_indent (p l s : Bool) (ia : IndentArg) (e : EDS) (hx : Expressible e)
    (hok : Lex.lexOKb ⟨p, l, s, false⟩ e = true) :
    Lex.decodeText (textE (apiOpts p l s ia) e) = .ok (viewE ⟨p, l, s, false⟩ e) := by
  have hok' : Lex.lexOKb (apiOpts p l s ia) e = true := hok
  exact native_roundtrip_text (apiOpts p l s ia) e hx hok'

/-- "single vs. list API": a list of one graph is written as the single graph is -/
theorem dumps_singleton (p l s : Bool) (ia : IndentArg) (e : EDS) :
    dumpsApi p l s ia [e] = encodeApi p l s ia e := by
  unfold dumpsApi encodeApi encode
  simp [dumpsText, joinStr]

/-- `0` is not `False`: `encode(e, indent=0)` indents, `indent=None` does not -/
theorem indent_zero_indents :
    nativeIndent (.int 0) = true ∧ nativeIndent .none = false ∧ nativeIndent (.bool false) = false
    ∧ jsonIndent (.bool true) = some 2 ∧ penmanIndent (.bool true) = some (-1) := by
  decide

/-! ## the hypotheses of the theorems in Props.lean are necessary (`decide`-checked witnesses) -/

/-- `Expressible.preds`: an upper-case predicate does not come back (the decoder lower-cases it) -/
theorem native_roundtrip_cex_case :
    let e : EDS := ⟨none, [⟨"a".toList, "P".toList, none, [], [], none, .unspec⟩], none⟩
    (decodeEds (toksE ⟨true, true, false, false⟩ e)).toOption ≠ some (viewE ⟨true, true, false, false⟩ e, []) := by
  decide

/-- `Expressible.top`: an empty graph cannot carry a top -/
theorem native_roundtrip_cex_empty_top :
    let e : EDS := ⟨some "a".toList, [], none⟩
    (decodeEds (toksE ⟨true, true, false, false⟩ e)).toOption = some (⟨none, [], none⟩, []) := by
  decide

/-- `Expressible.edgesNodup` (as a list model of a dict): two roles that differ in case only collapse -/
theorem native_roundtrip_cex_role_case :
    let e : EDS := ⟨none, [⟨"a".toList, "p".toList, none, [("ARG1".toList, "a".toList), ("arg1".toList, "b".toList)],
                           [], none, .unspec⟩, ⟨"b".toList, "q".toList, none, [], [], none, .unspec⟩], none⟩
    (match decodeEds (toksE ⟨true, true, false, false⟩ e) with
     | .ok r => r.1.nodes.map (fun n => n.edges.length)
     | .error _ => []) = [1, 0] := by
  decide

/-- `lexOKb`: a predicate with a colon is not read back as one symbol -/
theorem lexer_reads_encoder_text_cex :
    let e : EDS := ⟨none, [⟨"a".toList, "p:q".toList, none, [], [], none, .unspec⟩], none⟩
    Lex.lex (textE ⟨true, true, false, false⟩ e) ≠ some (toksE ⟨true, true, false, false⟩ e) := by
  decide

/-- `json_roundtrip`: with a repeated identifier the dictionary keeps one node -/
theorem json_roundtrip_cex_dup :
    let e : EDS := ⟨none, [⟨"a".toList, "p".toList, none, [], [], none, .unspec⟩,
                           ⟨"a".toList, "q".toList, none, [], [], none, .unspec⟩], none⟩
    (fromDict (toDict true true e)).nodes.map (·.pred) = ["q".toList] := by
  decide

/-- `penman_roundtrip`: a node that is not connected to the top is not written -/
theorem penman_roundtrip_cex_disconnected :
    let e : EDS := ⟨some "a".toList, [⟨"a".toList, "p".toList, none, [], [], none, .unspec⟩,
                                      ⟨"b".toList, "q".toList, none, [], [], none, .unspec⟩], none⟩
    (match fromTriples (toTriples true true e) with
     | .ok r => r.2.map (·.1)
     | .error _ => []) = ["a".toList] := by
  decide

/-- `PenExpressible`: an all-lower-case role comes back as a property -/
theorem penman_roundtrip_cex_lower_role :
    let e : EDS := ⟨some "a".toList, [⟨"a".toList, "p".toList, none, [("arg1".toList, "a".toList)], [], none, .unspec⟩], none⟩
    (match fromTriples (toTriples true true e) with
     | .ok r => r.2.map (fun x => (x.2.edges, x.2.props))
     | .error _ => []) = [([], [("ARG1".toList, "a".toList)])] := by
  decide

end Verif.C03
