/-
C03 — the indented layout (`indent=True`): the text is a sequence of lines (`#id`, `{top: (fragmented)`, one line
per node, `}`; an empty line between the graphs of a document); the lexer reads line by line.
-/
import Verif.C03.LexText

set_option linter.unusedSimpArgs false

namespace Verif.C03.Lex
open Verif.Codec Verif.LnkLex Verif.C03

/-! ### lines -/

theorem splitLines_ne_nil (s : Str) : splitLines s ≠ [] := by
  cases s with
  | nil => simp [splitLines]
  | cons c r =>
    unfold splitLines
    by_cases h : isLineBreak c = true
    · simp [h]
    · simp only [h, Bool.false_eq_true, if_false]
      cases splitLines r <;> simp

theorem splitLines_append_nl (a b : Str) : splitLines (a ++ '\n' :: b) = splitLines a ++ splitLines b := by
  induction a with
  | nil =>
    have : isLineBreak '\n' = true := by decide
    simp [splitLines, this]
  | cons c r ih =>
    simp only [List.cons_append]
    by_cases h : isLineBreak c = true
    · simp [splitLines, h, ih]
    · have hne := splitLines_ne_nil r
      simp only [splitLines, h, Bool.false_eq_true, if_false, ih]
      cases hr : splitLines r with
      | nil => exact absurd hr hne
      | cons l ls => simp

def lexLines (ls : List Str) : Option (List Token) :=
  ls.foldr (fun l acc => match lexLine (l.length + 1) l, acc with
    | some a, some b => some (a ++ b)
    | _, _ => none) (some [])

theorem lex_eq_lexLines (s : Str) : lex s = lexLines (splitLines s) := rfl

theorem lexLines_append {A B : List Str} {ta tb : List Token} (ha : lexLines A = some ta) (hb : lexLines B = some tb) :
    lexLines (A ++ B) = some (ta ++ tb) := by
  induction A generalizing ta with
  | nil =>
    simp only [lexLines, List.foldr_nil, Option.some.injEq] at ha
    subst ha
    simpa using hb
  | cons l ls ih =>
    simp only [lexLines, List.foldr_cons, List.cons_append] at ha ⊢
    cases h1 : lexLine (l.length + 1) l with
    | none => rw [h1] at ha; simp at ha
    | some x =>
      rw [h1] at ha
      cases h2 : List.foldr (fun l acc => match lexLine (l.length + 1) l, acc with
          | some a, some b => some (a ++ b)
          | _, _ => none) (some []) ls with
      | none => rw [h2] at ha; simp at ha
      | some y =>
        rw [h2] at ha
        simp only [Option.some.injEq] at ha
        subst ha
        have := ih (ta := y) h2
        simp only [lexLines] at this
        rw [this]
        simp

/-- reading a text that continues on the next line -/
theorem lex_append_nl {a b : Str} {ta tb : List Token} (ha : lex a = some ta) (hb : lex b = some tb) :
    lex (a ++ '\n' :: b) = some (ta ++ tb) := by
  rw [lex_eq_lexLines, splitLines_append_nl]
  exact lexLines_append ha hb

/-- one line -/
theorem lex_line {a : Str} {ta : List Token} (hn : NoLB a) (h : Lexes a ta) : lex a = some ta := by
  rw [lex_noLB a hn]
  exact lexLine_of_lexes h _ (Nat.lt_succ_self _)

theorem lex_nil : lex [] = some [] := lex_line noLB_nil Lexes.nil

/-! ### the lines of a graph -/

/-- `#id` at the end of a line -/
theorem lexes_ident_eol {id : Str} (hne : id ≠ []) (hid : identOKb id = true) :
    Lexes ('#' :: id) [tk .ident id] := by
  have hall : ∀ c ∈ id, identOk c = true := by
    simpa [identOKb, List.all_eq_true] using hid
  have htw := tw_stop identOk id [] hall (by intro x r h; cases h)
  simp only [List.append_nil] at htw
  have hm : mIdent id = some (id, []) := by
    unfold mIdent
    cases id with
    | nil => exact absurd rfl hne
    | cons c cs => simp [htw.1, htw.2]
  refine Lexes.tok (r' := []) ?_ (by simp) Lexes.nil
  simp [step, hm]

theorem lexes_rbrace_line : lex ['}'] = some [tRbrace] :=
  lex_line (noLB_single (by decide)) (lexes_rbrace Lexes.nil)

/-- a node line: the membership mark and the node -/
theorem lex_nodeLine (o : Opts) (e : EDS) (n : Node) (hi : o.indent = true) (hn : nodeOKb o n = true) :
    lex (e.membership o n ++ nodeText o n) = some (e.statusToks o n ++ nodeToks o n) := by
  have hnode : Lexes (nodeText o n) (nodeToks o n) := by
    have := lexes_node o n hn Lexes.nil
    simpa using this
  have hnl := nodeText_noLB o n hn
  unfold EDS.membership EDS.statusToks
  by_cases hr : n.id ∈ e.reach
  · simp only [hr, if_true, hi, List.cons_append, List.nil_append]
    exact lex_line (noLB_cons (by decide) hnl) (lexes_blank hnode)
  · by_cases hs : o.showStatus = true
    · simp only [hr, if_false, hs, if_true, List.cons_append, List.nil_append]
      exact lex_line (noLB_cons (by decide) hnl) (lexes_nstatus hnode)
    · simp only [hr, if_false, hs, List.cons_append, List.nil_append, Bool.false_eq_true]
      exact lex_line (noLB_cons (by decide) hnl) (lexes_blank hnode)

/-- the node lines followed by the closing line -/
theorem lex_nodeLines (o : Opts) (e : EDS) (hi : o.indent = true) :
    ∀ ns : List Node, ns ≠ [] → (∀ n ∈ ns, nodeOKb o n = true) →
      lex (joinStr ['\n'] (ns.map (fun n => e.membership o n ++ nodeText o n)) ++ ['\n', '}'])
        = some (ns.flatMap (fun n => e.statusToks o n ++ nodeToks o n) ++ [tRbrace]) := by
  intro ns
  induction ns with
  | nil => intro hne; exact absurd rfl hne
  | cons n ns ih =>
    intro _ hok
    have hl := lex_nodeLine o e n hi (hok n (by simp))
    cases ns with
    | nil =>
      simp only [List.map_cons, List.map_nil, joinStr, List.flatMap_cons, List.flatMap_nil, List.append_nil]
      exact lex_append_nl hl lexes_rbrace_line
    | cons m ms =>
      have ih' := ih (by simp) (fun x hx => hok x (by simp [hx]))
      rw [List.map_cons, List.map_cons, joinStr_cons_cons, List.flatMap_cons]
      simp only [List.append_assoc, List.cons_append, List.nil_append]
      have := lex_append_nl hl ih'
      simpa [List.append_assoc] using this

/-- the first line: `{` and the top part -/
theorem lex_firstLine (o : Opts) (e : EDS) (htop : ∀ t, e.top = some t → SymOK t ∧ NoLB t) :
    lex ('{' :: joinStr [' '] (e.topParts o)) = some (tLbrace :: e.topToks o) := by
  unfold EDS.topParts EDS.topToks
  cases ht : e.top with
  | none =>
    by_cases hf : (o.showStatus && e.fragmented) = true
    · simp only [hf, if_true, List.nil_append, joinStr]
      refine lex_line (noLB_cons (by decide) fragmented_noLB) (lexes_lbrace ?_)
      have := lexes_fragmented (rest := []) Lexes.nil
      simpa using this
    · simp only [hf, if_false, List.nil_append, joinStr, Bool.false_eq_true]
      exact lex_line (noLB_single (by decide)) (lexes_lbrace Lexes.nil)
  | some t =>
    obtain ⟨hts, htn⟩ := htop t ht
    by_cases hf : (o.showStatus && e.fragmented) = true
    · simp only [hf, if_true, List.cons_append, List.nil_append, joinStr, List.append_assoc]
      refine lex_line (noLB_cons (by decide) (noLB_append htn (noLB_cons (by decide) (noLB_cons (by decide)
        fragmented_noLB)))) (lexes_lbrace ?_)
      refine lexes_sym hts (boundary_cons (by decide)) (lexes_colon (lexes_blank ?_))
      have := lexes_fragmented (rest := []) Lexes.nil
      simpa using this
    · simp only [hf, if_false, List.cons_append, List.nil_append, List.append_nil, joinStr, Bool.false_eq_true]
      refine lex_line (noLB_cons (by decide) (noLB_append htn (noLB_single (by decide)))) (lexes_lbrace ?_)
      exact lexes_sym hts (boundary_cons (by decide)) (lexes_colon Lexes.nil)

/-- [core] the lexer reads the indented text of a lexable graph as exactly its token view -/
theorem lex_textE_indent (o : Opts) (e : EDS) (hi : o.indent = true) (hok : lexOKb o e = true) :
    lex (textE o e) = some (toksE o e) := by
  obtain ⟨hident, htop, hnodes⟩ := lexOKb_parts hok
  have htop' : ∀ t, e.top = some t → SymOK t ∧ NoLB t := by
    intro t ht
    refine ⟨htop t ht, ?_⟩
    simp only [lexOKb, Bool.and_eq_true] at hok
    have := hok.1.2
    rw [ht] at this
    exact noLB_of_sym this
  -- what follows the opening brace
  have hbody : ∀ (x : Str) (tx : List Token), lex ('{' :: x) = some (tLbrace :: tx) →
      lex (e.startText o ++ x) = some (e.identToks ++ tLbrace :: tx) := by
    intro x tx hx
    unfold EDS.startText EDS.identToks
    cases hid : e.identifier with
    | none => simpa [truthyStr] using hx
    | some s =>
      cases s with
      | nil => simpa [truthyStr] using hx
      | cons c cs =>
        simp only [truthyStr, if_true, Option.getD_some, hi, List.cons_append, List.append_assoc, List.nil_append]
        have h1 : lex ('#' :: c :: cs) = some [tk .ident (c :: cs)] :=
          lex_line (noLB_cons (by decide) (noLB_of_ident (hident _ hid))) (lexes_ident_eol (by simp) (hident _ hid))
        have := lex_append_nl h1 hx
        simpa using this
  unfold textE toksE
  by_cases hne : e.nodes = []
  · simp only [hne, List.isEmpty_nil, if_true, endText, hi, List.append_assoc, List.cons_append, List.nil_append]
    refine hbody _ _ ?_
    have h1 : lex ['{'] = some [tLbrace] := lex_line (noLB_single (by decide)) (lexes_lbrace Lexes.nil)
    have := lex_append_nl h1 lexes_rbrace_line
    simpa using this
  · have hemp : e.nodes.isEmpty = false := by
      cases hn : e.nodes with
      | nil => exact absurd hn hne
      | cons _ _ => rfl
    obtain ⟨n, ns, hn⟩ : ∃ n ns, e.nodes = n :: ns := by
      cases hx : e.nodes with
      | nil => exact absurd hx hne
      | cons n ns => exact ⟨n, ns, rfl⟩
    simp only [hemp, Bool.false_eq_true, if_false, endText, hi, Bool.or_true, if_true, List.append_assoc,
      List.cons_append, List.nil_append]
    refine hbody _ _ ?_
    have h1 := lex_firstLine o e htop'
    have h2 := lex_nodeLines o e hi e.nodes hne hnodes
    have h3 := lex_append_nl h1 h2
    have hj : joinStr ['\n'] (joinStr [' '] (e.topParts o) :: e.nodes.map (fun n => e.membership o n ++ nodeText o n))
        = joinStr [' '] (e.topParts o) ++ '\n' :: joinStr ['\n'] (e.nodes.map (fun n => e.membership o n ++ nodeText o n)) := by
      rw [hn, List.map_cons, joinStr_cons_cons]; simp
    rw [hj]
    simpa [EDS.bodyToks, List.append_assoc] using h3

/-- … and an indented document (an empty line between the graphs) as the concatenation of the token views -/
theorem lex_dumpsText_indent (o : Opts) (hi : o.indent = true) :
    ∀ es : List EDS, (∀ e ∈ es, lexOKb o e = true) → lex (dumpsText o es) = some (es.flatMap (toksE o)) := by
  intro es
  induction es with
  | nil => intro _; simpa [dumpsText, joinStr] using lex_nil
  | cons e es ih =>
    intro hok
    have h1 := lex_textE_indent o e hi (hok e (by simp))
    cases es with
    | nil => simpa [dumpsText, joinStr] using h1
    | cons f fs =>
      have ih' := ih (fun x hx => hok x (by simp [hx]))
      have h2 := lex_append_nl lex_nil ih'
      have h3 := lex_append_nl h1 h2
      simp only [dumpsText, hi, if_true] at ih' h3 ⊢
      rw [List.map_cons, List.map_cons, joinStr_cons_cons, List.flatMap_cons]
      simpa [List.append_assoc] using h3

end Verif.C03.Lex
