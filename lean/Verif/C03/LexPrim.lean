/-
C03 — primitive lemmas about the character-level lexer (`Verif.C03.Lex`): soundness of the big-step relation
`Lexes` for the fuel-based `lexLine`, and one introduction rule of `Lexes` per token class as the encoder
prints it.  Core Lean only.
-/
import Verif.C03.LexSpec
import Verif.Common.CodecLemmas

namespace Verif.C03.Lex
open Verif.Codec Verif.LnkLex Verif.C03

theorem lexLine_nil (fuel : Nat) : lexLine fuel [] = some [] := by
  cases fuel <;> simp [lexLine]

/-- the relation is sound for the fuel-based function -/
theorem lexLine_of_lexes {s : Str} {ts : List Token} (h : Lexes s ts) :
    ∀ fuel, s.length < fuel → lexLine fuel s = some ts := by
  induction h with
  | nil => intro fuel _; exact lexLine_nil fuel
  | @skip r ts _ ih =>
    intro fuel hf
    cases fuel with
    | zero => cases hf
    | succ f =>
      have hs : step ' ' r = .skip r := by
        have h2 : symOk ' ' = false := by decide
        simp [step, h2]
      have := ih f (by simp only [List.length_cons] at hf; omega)
      simp [lexLine, hs, this]
  | @tok c r r' t ts hst hlen _ ih =>
    intro fuel hf
    cases fuel with
    | zero => cases hf
    | succ f =>
      have := ih f (by simp only [List.length_cons] at hf; omega)
      simp [lexLine, hst, this]

theorem symOK_of_b {s : Str} (h : symOKb s = true) : SymOK s := by
  simp only [symOKb, Bool.and_eq_true, Bool.not_eq_true', List.all_eq_true, bne_iff_ne, ne_eq] at h
  obtain ⟨⟨⟨h1, h2⟩, h3⟩, h4⟩ := h
  refine ⟨?_, ?_, h3, h4⟩
  · intro e; subst e; simp at h1
  · intro c hc
    have := h2 c hc
    simpa using this

theorem lnkOK_of_b {l : Lnk} (h : lnkOKb l = true) : LnkOK l := by
  cases l with
  | unspec => simp [lnkOKb] at h
  | charspan a b => trivial
  | chartspan a b => trivial
  | tokens ts =>
    simp only [lnkOKb, Bool.and_eq_true, Bool.not_eq_true', List.all_eq_true, decide_eq_true_eq] at h
    refine ⟨?_, h.2⟩
    intro e; subst e; simp at h
  | edge n =>
    simpa [lnkOKb, LnkOK] using h

-- one-character tokens (whatever follows)
theorem lexes_lbrace {rest : Str} {ts : List Token} (h : Lexes rest ts) : Lexes ('{' :: rest) (tLbrace :: ts) :=
  .tok (r' := rest) (by simp [step]) (Nat.le_refl _) h
theorem lexes_rbrace {rest : Str} {ts : List Token} (h : Lexes rest ts) : Lexes ('}' :: rest) (tRbrace :: ts) :=
  .tok (r' := rest) (by simp [step]) (Nat.le_refl _) h
theorem lexes_colon {rest : Str} {ts : List Token} (h : Lexes rest ts) : Lexes (':' :: rest) (tColon :: ts) :=
  .tok (r' := rest) (by simp [step]) (Nat.le_refl _) h
theorem lexes_comma {rest : Str} {ts : List Token} (h : Lexes rest ts) : Lexes (',' :: rest) (tComma :: ts) :=
  .tok (r' := rest) (by simp [step]) (Nat.le_refl _) h
theorem lexes_lbracket {rest : Str} {ts : List Token} (h : Lexes rest ts) : Lexes ('[' :: rest) (tLbracket :: ts) :=
  .tok (r' := rest) (by simp [step]) (Nat.le_refl _) h
theorem lexes_rbracket {rest : Str} {ts : List Token} (h : Lexes rest ts) : Lexes (']' :: rest) (tRbracket :: ts) :=
  .tok (r' := rest) (by simp [step]) (Nat.le_refl _) h
theorem lexes_nstatus {rest : Str} {ts : List Token} (h : Lexes rest ts) : Lexes ('|' :: rest) (tNstatus :: ts) :=
  .tok (r' := rest) (by simp [step]) (Nat.le_refl _) h
theorem lexes_blank {rest : Str} {ts : List Token} (h : Lexes rest ts) : Lexes (' ' :: rest) ts :=
  .skip h

theorem symOk_facts {c : Char} (h : symOk c = true) :
    c ≠ ' ' ∧ c ≠ '\n' ∧ c ≠ ':' ∧ c ≠ ',' ∧ c ≠ '<' ∧ c ≠ '(' ∧ c ≠ '[' ∧ c ≠ ']' ∧ c ≠ '{' ∧ c ≠ '}' := by
  simpa [symOk, and_assoc] using h

/-- a symbol followed by the end of the line or a non-symbol character -/
theorem lexes_sym {w rest : Str} {ts : List Token} (hw : SymOK w) (hb : Boundary rest) (h : Lexes rest ts) :
    Lexes (w ++ rest) (tSym w :: ts) := by
  obtain ⟨hne, hall, hbar, hhash⟩ := hw
  cases w with
  | nil => exact absurd rfl hne
  | cons c w' =>
    have hc := (hall c (by simp)).1
    obtain ⟨_, _, h3, h4, h5, h6, h7, h8, h9, h10⟩ := symOk_facts hc
    have hc1 : c ≠ '|' := by simpa using hbar
    have hc2 : c ≠ '#' := by simpa using hhash
    have htw := tw_stop symOk (c :: w') rest (fun x hx => (hall x hx).1) hb
    simp only [List.cons_append] at htw ⊢
    refine .tok (r' := rest) ?_ (by simp) h
    simp [step, hc2, hc1, h3, h4, h5, h6, h7, h8, h9, h10, hc, htw.1, htw.2]

/-- an alignment, whatever follows -/
theorem lexes_lnk {l : Lnk} {rest : Str} {ts : List Token} (hl : LnkOK l) (h : Lexes rest ts) :
    Lexes (l.str ++ rest) (tk .lnk l.str :: ts) := by
  obtain ⟨inner, hstr, _, hm⟩ := lnk_shape l hl
  have e : l.str ++ rest = '<' :: (inner ++ ('>' :: rest)) := by simp [hstr]
  rw [e]
  refine .tok (r' := rest) ?_ (by simp only [List.length_append, List.length_cons]; omega) h
  simp [step, hm rest]

theorem cyclic_chars : "cyclic".toList = ['c', 'y', 'c', 'l', 'i', 'c'] := by decide
theorem fragmented_chars : "fragmented".toList = ['f', 'r', 'a', 'g', 'm', 'e', 'n', 't', 'e', 'd'] := by decide
theorem pfragmented_chars :
    "(fragmented)".toList = ['(', 'f', 'r', 'a', 'g', 'm', 'e', 'n', 't', 'e', 'd', ')'] := by decide

theorem stripPrefix_append (p r : Str) : stripPrefix p (p ++ r) = some r := by
  simp [stripPrefix]

theorem mGStatus_dq (r : Str) : mGStatus ('"' :: r) = none := by
  simp [mGStatus, stripPrefix, cyclic_chars, fragmented_chars]

/-- a constant: `("` escaped text `")`, whatever the text and whatever follows -/
theorem lexes_carg (c : Str) {rest : Str} {ts : List Token} (h : Lexes rest ts) :
    Lexes ('(' :: '"' :: (escapeDQ c ++ '"' :: ')' :: rest)) (tk .carg (escapeDQ c) :: ts) := by
  refine .tok (r' := rest) ?_ (by simp; omega) h
  simp [step, mGStatus_dq, mCarg, scanDQ_escapeDQ]

theorem mGStatus_fragmented (rest : Str) :
    mGStatus ("fragmented".toList ++ ')' :: rest) = some ("(fragmented)".toList, rest) := by
  have h1 : stripPrefix "cyclic".toList ("fragmented".toList ++ ')' :: rest) = none := by
    simp [stripPrefix, cyclic_chars, fragmented_chars]
  have h2 := stripPrefix_append "fragmented".toList (')' :: rest)
  simp only [mGStatus, h1, h2]
  simp [pfragmented_chars, fragmented_chars]

theorem lexes_fragmented {rest : Str} {ts : List Token} (h : Lexes rest ts) :
    Lexes ("(fragmented)".toList ++ rest) (tFragmented :: ts) := by
  have e : "(fragmented)".toList ++ rest = '(' :: ("fragmented".toList ++ ')' :: rest) := by
    simp [pfragmented_chars, fragmented_chars]
  rw [e]
  refine .tok (r' := rest) ?_ (by simp only [List.length_append, List.length_cons]; omega) h
  rw [step, mGStatus_fragmented]
  simp [tFragmented, tk]

/-- `#id {`: the identifier token swallows the blank; the brace is read next -/
theorem lexes_ident {id rest : Str} {ts : List Token} (hne : id ≠ []) (hid : identOKb id = true)
    (h : Lexes ('{' :: rest) ts) : Lexes ('#' :: (id ++ ' ' :: '{' :: rest)) (tk .ident id :: ts) := by
  have hall : ∀ c ∈ id, identOk c = true := by
    simpa [identOKb, List.all_eq_true] using hid
  have htw := tw_stop identOk id (' ' :: '{' :: rest) hall (by intro x r e; cases e; decide)
  have hs1 : isPySpace ' ' = true := by decide
  have hs2 : isPySpace '{' = false := by decide
  have hm : mIdent (id ++ ' ' :: '{' :: rest) = some (id, '{' :: rest) := by
    simp [mIdent, htw.1, htw.2, hne, hs1, hs2]
  refine .tok (r' := '{' :: rest) ?_ (by simp only [List.length_append, List.length_cons]; omega) h
  simp [step, hm]

/-- the boundary facts used by callers -/
theorem boundary_nil : Boundary [] := by
  intro x r e; cases e

theorem boundary_cons {c : Char} {r : Str} (h : symOk c = false) : Boundary (c :: r) := by
  intro x r' e; cases e; exact h

end Verif.C03.Lex
