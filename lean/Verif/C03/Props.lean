/-
C03 — property theorems: EDS serialisations are lossless and stable (native EDS, EDS-JSON, EDS-PENMAN).

Only statements live here; the proofs are in Lemmas.lean (native token round trip, top detection),
StableLemmas.lean (the view is a fixed point of the encoder), StatusLemmas.lean (status markers against
reachability), JsonLemmas.lean and PenmanLemmas.lean.

Level of the statements: the native codec is stated on the TOKEN stream (`toksE o e` is the token view of the
text `textE o e`; that the real lexer turns the real text into exactly these tokens is checked by the
correspondence run, not proved); JSON on the dictionary `to_dict` builds; PENMAN on the triple list (the json and
penman libraries are identity parameters).
-/
import Verif.C03.Lemmas
import Verif.C03.StableLemmas
import Verif.C03.StatusLemmas
import Verif.C03.PenmanLemmas
import Verif.C03.LexText
import Verif.C03.LexIndent

namespace Verif.C03
open Verif.Codec Verif.Sem

/-! ## "The top-detection lookahead of the native decoder … only go[es] wrong for particular shapes (no top, a first
node that looks like a top …)" -/

/-- [core] For every EDS with at least one node and every option vector, the decoder's 2–3 token look-ahead, run on
what the encoder printed after `{` (followed by anything), returns exactly the graph's top — `none` for a graph
without top, also when the first node "looks like a top" — and leaves the stream at the first node. -/
theorem top_detection (o : Opts) (e : EDS) (hne : e.nodes ≠ []) (rest : List Token) :
    detectTop (e.topToks o ++ (e.bodyToks o ++ tRbrace :: rest)) = .ok (e.top, e.bodyToks o ++ tRbrace :: rest) :=
  detectTop_toks o e hne rest

/-- the look-ahead on the empty graph `{}` -/
theorem top_detection_empty (rest : List Token) : detectTop (tRbrace :: rest) = .ok (none, tRbrace :: rest) :=
  detectTop_empty rest

/-! ## "For every EDS, decoding its native … encoding yields the same top, node identifiers, predicates, types,
properties, constants, alignments and role-labelled edges … with and without indentation, with the status markers
… shown or hidden, for graphs with no top" -/

/-- [core] Token round trip with remainder, no hypothesis on the strings: whatever the graph (any top or none, no
nodes, cycles, self loops, several components, any option vector, anything following), the decoder reads the
encoder's tokens back as `normE o e` — the same graph with the decoder's case normalisation applied — and stops
exactly after the closing brace.  The only hypothesis: an empty graph has no top (there is no place to print it). -/
theorem native_roundtrip_tokens (o : Opts) (e : EDS) (h : e.nodes = [] → e.top = none) (rest : List Token) :
    decodeEds (toksE o e ++ rest) = .ok (normE o e, rest) :=
  decodeEds_toksE o e h rest

/-- [core] The same for a graph the format can express (`Expressible`: case-stable names, distinct keys): what comes
back is the view the property describes (`viewE`: same top, identifiers, predicates, constants; the two maps in
printed order; type and properties when `properties`, alignment when `lnk`). -/
theorem native_roundtrip (o : Opts) (e : EDS) (hx : Expressible e) (rest : List Token) :
    decodeEds (toksE o e ++ rest) = .ok (viewE o e, rest) := by
  rw [decodeEds_toksE o e hx.top rest, normE_eq_viewE o e hx]

/-- node-wise "the same": identifier, predicate, type, constant equal; edges and properties the same maps (as lists:
permutations); the alignment equal, or both "false" (unspecified / `<-1:-1>`). -/
def SameNode (a b : Node) : Prop :=
  b.id = a.id ∧ b.pred = a.pred ∧ b.type = a.type ∧ b.carg = a.carg
  ∧ b.edges.Perm a.edges ∧ b.props.Perm a.props
  ∧ (b.lnk = a.lnk ∨ (a.lnk.truthy = false ∧ b.lnk = .unspec))

theorem sameNode_viewNode (s i : Bool) (n : Node) (h : n.type = none → n.props = []) :
    SameNode n (viewNode ⟨true, true, s, i⟩ n) := by
  refine ⟨rfl, rfl, ?_, rfl, sortStable_perm _ _, sortStable_perm _ _, ?_⟩
  · simp only [viewNode, if_true, typeView]
    cases ht : n.type with
    | none => simp [h ht]
    | some t => rfl
  · simp only [viewNode, Bool.true_and]
    cases hl : n.lnk.truthy <;> simp

-- FULL STATEMENT (not proved, false — F38): the theorem below without the hypothesis `NoUntypedProps e`.
/-- [core] The property's main clause for the native format, with all information printed: the decoded graph has the
same top and identifier and, node by node in the same order, the same identifier, predicate, type, properties,
constant, alignment and edges.  `NoUntypedProps` (no untyped node has properties) is forced by the format: the
property block cannot be written without a type, the encoder writes the placeholder `u` (known finding F38,
counter-example below). -/
theorem native_roundtrip_partial (s i : Bool) (e : EDS) (hx : Expressible e) (hu : NoUntypedProps e)
    (rest : List Token) :
    ∃ d, decodeEds (toksE ⟨true, true, s, i⟩ e ++ rest) = .ok (d, rest)
      ∧ d.top = e.top ∧ d.identifier = e.identifier
      ∧ ∃ f : Node → Node, d.nodes = e.nodes.map f ∧ ∀ n ∈ e.nodes, SameNode n (f n) :=
  ⟨viewE ⟨true, true, s, i⟩ e, native_roundtrip _ e hx rest, rfl, rfl, viewNode ⟨true, true, s, i⟩, rfl,
    fun n hn => sameNode_viewNode s i n (hu n hn)⟩

/-- F38 counter-example (replayed on the implementation by corpus/C03): an untyped node with a property comes back
with the type `u`. -/
theorem native_roundtrip_cex_untyped_props :
    let n : Node := ⟨"e2".toList, "_rain_v_1".toList, none, [], [("TENSE".toList, "past".toList)], none, .unspec⟩
    let e : EDS := ⟨some "e2".toList, [n], none⟩
    (match decodeEds (toksE ⟨true, true, false, true⟩ e) with
     | .ok r => r.1.nodes.map (·.type)
     | .error _ => []) = [some "u".toList] := by
  decide

/-! ## "suppressing properties (together with the node type where the format stores it with them) or alignments
removes exactly that information" -/

/-- [definitional: holds by `rfl` on the view] native format: without `properties` the node comes back without properties and without type — the format stores
the type inside the property block — and otherwise as with them. -/
theorem suppress_properties_native (l s i : Bool) (n : Node) :
    viewNode ⟨false, l, s, i⟩ n = { viewNode ⟨true, l, s, i⟩ n with type := none, props := [] } := rfl

/-- [definitional: `rfl`] without `lnk` the node comes back without alignment and otherwise as with it. -/
theorem suppress_lnk_native (p s i : Bool) (n : Node) :
    viewNode ⟨p, false, s, i⟩ n = { viewNode ⟨p, true, s, i⟩ n with lnk := .unspec } := rfl

/-- [definitional: `rfl`, these three] JSON and PENMAN store the type on its own: suppressing properties leaves it. -/
theorem suppress_properties_json (l : Bool) (n : Node) :
    viewJNode false l n = { viewJNode true l n with props := [] } := rfl
theorem suppress_properties_penman (l : Bool) (n : Node) :
    viewPRec false l n = { viewPRec true l n with props := [] } := rfl
theorem suppress_lnk_penman (p : Bool) (n : Node) :
    viewPRec p false n = { viewPRec p true n with lnk := .unspec } := rfl

/-! ## "re-encoding the decoded graph in the native format reproduces the text" -/

/-- [core] Text stability for every option vector: the decoded graph re-encodes to the same text (and the same
tokens). -/
theorem reencode_stable (o : Opts) (e : EDS) (hx : Expressible e) :
    ∃ d, decodeEds (toksE o e) = .ok (d, []) ∧ textE o d = textE o e ∧ toksE o d = toksE o e := by
  refine ⟨viewE o e, ?_, textE_viewE o e hx, toksE_viewE o e hx⟩
  have := native_roundtrip o e hx []
  simpa using this

/-- [definitional: `rfl`] indentation only changes white space: the token stream does not depend on it. -/
theorem tokens_indent_independent (p l s : Bool) (e : EDS) :
    toksE ⟨p, l, s, true⟩ e = toksE ⟨p, l, s, false⟩ e := rfl

/-! ## "for multi-graph documents" -/

/-- [core] A document of any number of graphs (also none) is read back graph by graph. -/
theorem docs_roundtrip (o : Opts) (es : List EDS) (hx : ∀ e ∈ es, Expressible e) :
    loadsToks (es.flatMap (toksE o)) = .ok (es.map (viewE o)) := by
  unfold loadsToks
  rw [decodeAll_docs o es _ (by have := docs_length o es; omega) (fun e he => (hx e he).top)]
  congr 1
  exact List.map_congr_left (fun e he => normE_eq_viewE o e (hx e he))

/-! ## "with the status markers for disconnected or fragmented graphs shown or hidden" -/

/-- [core] a node is printed with `|` exactly when markers are shown and the node is not connected to the top (the
first node when there is no top) in the undirected edge graph. -/
theorem status_marker (o : Opts) (e : EDS) (n : Node) :
    e.statusToks o n = [tNstatus] ↔ (o.showStatus = true ∧ ¬ e.Connected n.id) := statusToks_iff o e n

theorem status_marker_text (o : Opts) (e : EDS) (n : Node) :
    e.membership o n = ['|'] ↔ (o.showStatus = true ∧ ¬ e.Connected n.id) := membership_bar_iff o e n

/-- [core] `(fragmented)` is printed exactly when markers are shown and some node is not connected to the top. -/
theorem fragmented_marker (o : Opts) (e : EDS) (ht : e.targetsOk = true) (hs : e.start ∈ e.ids) :
    tFragmented ∈ e.topToks o ↔ (o.showStatus = true ∧ ∃ n ∈ e.nodes, ¬ e.Connected n.id) := by
  rw [topToks_fragmented_iff, fragmented_iff e ht hs]

/-! ## EDS-JSON: "(JSON up to node order)" -/

/-- [core] through the dictionary form the graph comes back with the same top and exactly the nodes of the JSON view,
stably ordered by span `(cfrom, -cto)`. -/
theorem json_roundtrip (p l : Bool) (e : EDS) (h : e.ids.Nodup) :
    fromDict (toDict p l e)
      = { top := e.top, nodes := sortStable spanLt (e.nodes.map (viewJNode p l)), identifier := none } :=
  fromDict_toDict p l e h

/-- … i.e. the same top and the same multiset of nodes, in span order. -/
theorem json_roundtrip_multiset (p l : Bool) (e : EDS) (h : e.ids.Nodup) :
    (fromDict (toDict p l e)).top = e.top
    ∧ (fromDict (toDict p l e)).nodes.Perm (e.nodes.map (viewJNode p l))
    ∧ (fromDict (toDict p l e)).nodes.Pairwise (fun a b => spanLt b a = false) :=
  fromDict_toDict_perm p l e h

/-- JSON re-encoding stability at the dictionary level: the decoded graph is a fixed point of the round trip (a second
encode/decode changes nothing, in particular not the node order) … -/
theorem json_reencode_stable (p l : Bool) (e : EDS) (h : e.ids.Nodup) :
    fromDict (toDict p l (fromDict (toDict p l e))) = fromDict (toDict p l e) :=
  fromDict_toDict_fixed p l e h

/-- [corollary by congruence of `json_reencode_stable`] … so re-encoding what was decoded from the re-encoded dictionary
reproduces that dictionary. -/
theorem json_redict_stable (p l : Bool) (e : EDS) (h : e.ids.Nodup) :
    toDict p l (fromDict (toDict p l (fromDict (toDict p l e)))) = toDict p l (fromDict (toDict p l e)) := by
  rw [fromDict_toDict_fixed p l e h]

/-! ## "EDS-PENMAN does the same for graphs connected from the top" -/

-- F40 (known finding, not expressible in this model): the theorem below is about `to_triples`/`from_triples` only; the
-- penman library between them is an identity PARAMETER.  On the real code that identity fails when a predicate string
-- equals a node identifier (penman rewrites that `:instance` triple as an inverted edge), so the text-level statement
-- needs the extra hypothesis "no predicate is a node identifier"; at the triple level no such hypothesis is needed and
-- none is stated.  The loss is demonstrated by the oracle on corpus/C03 and recognised by `harness.c03.classify`.
/-- [core] for a graph whose top is a node from which every node is reachable: the triples read back give the top
and every node (top first) with the same predicate, type, edges, properties, constant and alignment. -/
theorem penman_roundtrip (p l : Bool) (e : EDS) (t : Str)
    (htop : e.top = some t) (hmem : t ∈ e.ids) (hnd : e.ids.Nodup)
    (hconn : ∀ n ∈ e.nodes, e.Connected n.id)
    (hexp : ∀ n ∈ e.nodes, PenExpressible n) :
    fromTriples (toTriples p l e) = .ok (some t, (topFirst e).map (fun n => (n.id, viewPRec p l n))) := by
  refine fromTriples_toTriples p l e t htop hmem hnd ?_ hexp
  intro i hi
  obtain ⟨n, hn, rfl⟩ := List.mem_map.1 hi
  exact (mem_reach_iff e n.id).2 (hconn n hn)

/-! ## non-vacuity and concrete instances (tests, labelled as such) -/

example : Expressible ⟨some "e2".toList,
    [⟨"x1".toList, "pron".toList, some "x".toList, [], [("PERS".toList, "3".toList)], none, .charspan 0 2⟩,
     ⟨"e2".toList, "_rain_v_1".toList, some "e".toList, [("ARG1".toList, "x1".toList)], [], some "a\"b".toList, .unspec⟩],
    none⟩ := by
  constructor <;> decide

/-- the hypotheses of `penman_roundtrip` are satisfiable (the `Expressible` example graph, top `e2`): top is a node,
identifiers distinct, every node connected to the top, every node `PenExpressible`. -/
example :
    let G : EDS := ⟨some "e2".toList,
      [⟨"x1".toList, "pron".toList, some "x".toList, [], [("PERS".toList, "3".toList)], none, .charspan 0 2⟩,
       ⟨"e2".toList, "_rain_v_1".toList, some "e".toList, [("ARG1".toList, "x1".toList)], [], some "a\"b".toList, .unspec⟩],
      none⟩
    G.targetsOk = true ∧
    fromTriples (toTriples true true G)
      = .ok (some "e2".toList, (topFirst G).map (fun n => (n.id, viewPRec true true n))) := by
  intro G
  refine ⟨by decide, penman_roundtrip true true G "e2".toList rfl (by decide) (by decide) ?_ ?_⟩
  · have h : ∀ n ∈ G.nodes, n.id ∈ G.reach := by decide
    exact fun n hn => (mem_reach_iff G n.id).1 (h n hn)
  · have h : ∀ n ∈ G.nodes,
        (∀ p ∈ n.props, isLowerPy (lower p.1) = true ∧ upper (lower p.1) = p.1
          ∧ lower p.1 ∉ reservedRels ∧ (lower p.1).head? ≠ some ':')
        ∧ (∀ p ∈ n.edges, isLowerPy p.1 = false ∧ p.1 ∉ reservedRels ∧ p.1.head? ≠ some ':')
        ∧ (n.props.map (·.1)).Nodup ∧ (n.edges.map (·.1)).Nodup := by decide
    exact fun n hn => ⟨(h n hn).1, (h n hn).2.1, (h n hn).2.2.1, (h n hn).2.2.2⟩

example : (match decodeEds (toksE ⟨true, true, true, false⟩ ⟨none, [], none⟩) with
    | .ok r => decide (r.1 = ⟨none, [], none⟩ ∧ r.2 = [])
    | .error _ => false) = true := by decide

/-! ## Text level: lexer model ∘ encoder text, both layouts

`Lex.lex` is a character-level model of `_EDSLexer` (the thirteen classes pinned below, in order, on the lines
`str.splitlines()` gives); `textE` is the text `_encode_eds` writes — one line for `indent=None/False`, for
`indent=True` the lines `#id`, `{top: (fragmented)`, one line per node, `}`; `dumpsText` joins graphs with a blank
resp. an empty line.  `lexOKb o e` is the explicit decidable predicate on the strings of the graph: identifiers,
predicates, top, types, property names/values, roles and targets are SYMBOLs (`symOKb`: non-empty, none of blank, line
feed, `: , < ( [ ] { }`, no line break, not starting with `|` or `#`); printed alignments are of a kind the LNK class
carries (`lnkOKb`); constants are ANY strings without line breaks; the graph identifier has no white space or `{`. -/

/-- the document form of the same: an empty line (indented) or a blank between the graphs -/
theorem lex_dumpsText_all (o : Opts) (es : List EDS) (hok : ∀ e ∈ es, Lex.lexOKb o e = true) :
    Lex.lex (dumpsText o es) = some (es.flatMap (toksE o)) := by
  cases hi : o.indent
  · exact Lex.lex_dumpsText o es hi hok
  · exact Lex.lex_dumpsText_indent o hi es hok

/-- [core] the lexer reads the encoder's text of a lexable graph — with and without indentation, status markers
shown or hidden — as exactly the token view the token-level theorems are stated over. -/
theorem lexer_reads_encoder_text (o : Opts) (e : EDS) (hok : Lex.lexOKb o e = true) :
    Lex.lex (textE o e) = some (toksE o e) := by
  cases hi : o.indent
  · exact Lex.lex_textE o e hi hok
  · exact Lex.lex_textE_indent o e hi hok

/-- [core] `decode (encode e) = view e` on TEXT, for all sixteen option vectors: "for every EDS, decoding its native …
encoding yields the same top, node identifiers, predicates, types, properties, constants, alignments and
role-labelled edges … with and without indentation, with the status markers … shown or hidden, for graphs with no
top". -/
theorem native_roundtrip_text (o : Opts) (e : EDS) (hx : Expressible e) (hok : Lex.lexOKb o e = true) :
    Lex.decodeText (textE o e) = .ok (viewE o e) := by
  have h := native_roundtrip o e hx []
  simp only [List.append_nil] at h
  simp [Lex.decodeText, lexer_reads_encoder_text o e hok, decodeOne, h, bind, Except.bind, pure, Except.pure]

/-- [core] the multi-graph list form on text: `loads (dumps es) = es.map view`, both layouts, also for no graph. -/
theorem docs_roundtrip_text (o : Opts) (es : List EDS) (hx : ∀ e ∈ es, Expressible e)
    (hok : ∀ e ∈ es, Lex.lexOKb o e = true) : Lex.loadsText (dumpsText o es) = .ok (es.map (viewE o)) := by
  simp [Lex.loadsText, lex_dumpsText_all o es hok, docs_roundtrip o es hx]

/-- "re-encoding the decoded graph in the native format reproduces the text", on text. -/
theorem reencode_stable_text (o : Opts) (e : EDS) (hx : Expressible e) (hok : Lex.lexOKb o e = true) :
    ∃ d, Lex.decodeText (textE o e) = .ok d ∧ textE o d = textE o e :=
  ⟨viewE o e, native_roundtrip_text o e hx hok, textE_viewE o e hx⟩

/-- the lexability predicate is satisfiable, also with a constant full of quotes, backslashes and brackets -/
example : Lex.lexOKb ⟨true, true, true, false⟩ ⟨some "e2".toList,
    [⟨"x1".toList, "pron".toList, some "x".toList, [], [("PERS".toList, "3".toList)], none, .charspan 0 2⟩,
     ⟨"e2".toList, "_rain_v_1".toList, some "e".toList, [("ARG1".toList, "x1".toList)], [],
      some "a\"b\\ (c) {d} [e] <0:1>".toList, .tokens [1, 2]⟩],
    some "id-1".toList⟩ = true := by decide

/-! ## Pins: the constants of the anchored code that the hand-written model mirrors

`Generated/TablesC03.lean` is regenerated on every run from the live objects of /repo: the `(regex, name)` list of
`_EDSLexer` in order and the flags of the compiled alternation, the JSON framing strings, the signatures (default
arguments) of every public function of the three codecs and of the constructors, and for every anchored function its
load skeleton read from the code object (`harness.c03.skel`: in instruction order the string / integer / None / Boolean
constants, the global names, the attribute and method names and the comparison operators; docstrings and message
texts dropped; no source text, no layout).  A change to any of them must be followed in the model (and here):
`c03_pins` stops checking, which the check reports as a broken proof obligation and then searches for a failing input.

Which model definition hand-codes what:
* `c03LexerTokens`/`c03LexerFlags` — the token classes `K` and the token texts of `Model.lean` (`tLbrace` … `tSym`, `tFragmented`,
  the CARG class `("…")` whose group is what `escapeDQ` produces / `Codec.scanDQ` scans); the lexer itself is a parameter
  (harness: `lex_tokens`, `is_symbol`, `lexable`), these patterns are what those predicates restate.
* `c03SkelEdsDecodeEds` — `detectTop` (peek depths `0`, `2`, `3`; the kinds `COLON, GRAPHSTATUS, RBRACE, NODESTATUS` of the first
  test, `GRAPHSTATUS, NODESTATUS` of the second, `COLON` of the third), `decodeNodes`, `decodeEds`;
  `c03SkelEdsDecode` — `decodeAll`/`loadsToks`; `c03SkelEdsDecodeNode` — `decodeNode` (`.lower()`, `Lnk`, `_unescape`);
  `c03SkelEdsDecodeProperties`/`…Edges` — `decodeProps`, `decodeEdges`, `pairsLoop`, `mkProps` (`upper`/`lower`), `mkEdges` (`upper`).
* `c03SkelEdsEncodeEds` — `textE`, `toksE`, `EDS.startText` (`#`, newline or blank, `{`), `endText`, `EDS.topParts` (`:`,
  `(fragmented)`), `EDS.membership`/`statusToks` (`|`, blank, empty), `EDS.reach`/`fragmented` (`_bfs`, `set(g)`);
  `c03SkelEdsEncodeNode` — `nodeText`, `nodeToks`, `pairText`, `Node.showBlock`, `Node.typeOrU` (`variable.UNSPECIFIC`),
  `sortProps`/`sortEdges` (`sorted … key=property_priority / role_priority`); `c03SkelEdsEscape`/`…Unescape`,
  `c03SkelPenEscape`/`…Unescape` — `Codec.escapeDQ`/`unescapeDQ`; `c03SkelEdsDumps`/`…Encode`/`…Loads`/`…DecodeApi` — `dumpsText`, `encode`, options.
* `c03SkelJsonToDict`/`…FromDict` — `toJNode`, `toDict` (keys `label, edges, lnk{from,to}, type, properties, carg, top, nodes`),
  `ofJNode`, `fromDict`, `spanLt` (`(cfrom, -cto)`); `c03JsonFraming`, `c03SkelJsonEncode`/`…Dumps`/`…Decode`/`…Loads` — harness oracle only.
* `c03SkelPenToTriples`/`…FromTriples` — `nodeTriples` (`:instance`, `:lnk`, `:carg`, `:type`, `:` + lower-cased name, `:` + role, quotes),
  `topFirst`, `toTriples`, `tripleStep` (`lstrip(':')`, the four relation names, `strip('"')`, `islower()` dispatch, `upper()`),
  `fromTriples`; `c03SkelPenEncode`/`…Dumps`/`…Decode`/`…Loads` — indent mapping used by the oracle.
* `c03SkelUtilBfs` — `Sem.bfs`/`EDS.start` (start defaults to the first key); `c03SkelUtilPeek`/`…Next`/`…BufferFill`/`…Expect`/`…Accept` —
  `peekAt` (StopIteration on an empty buffer, IndexError beyond a non-empty one), `acceptK`, `expectK`; `c03SkelUtilPrelex` — the
  UNEXPECTED class raises in the lexer (harness `lex_tokens`).
* `c03SkelRolePriority`/`…PropertyPriority` (+ `edsCommonProperties`) — `roleLt`, `propLt`, `propIndex`.
* `c03SkelLnk*` — `Codec.Lnk.parse`/`str`/`truthy`/`cfrom`/`cto`; `c03SkelNodeInit`/`…EdsInit` — `Node`/`EDS` (None maps become `{}`).
* `c03Signatures` — `Opts` and the defaults the harness and the oracle pass explicitly or rely on (buffer size 1024). -/
theorem c03_pins :
    Verif.Tables.c03LexerTokens =
      [("\\#([^\\s\\{]+)\\s*(?=\\{|$)", "IDENTIFIER"), ("\\{", "LBRACE:{"), ("\\}", "RBRACE:}"),
       ("\\((?:cyclic *)?(?:fragmented)?\\)", "GRAPHSTATUS"), ("\\|", "NODESTATUS:|"),
       ("<(?:-?\\d+[:#]-?\\d+|@\\d+|\\d+(?: +\\d+)*)>", "LNK:a lnk value"),
       ("\\(\"([^\"\\\\]*(?:\\\\.[^\"\\\\]*)*)\"\\)", "CARG:a string"), (":", "COLON::"), (",", "COMMA:,"),
       ("\\[", "LBRACKET:["), ("\\]", "RBRACKET:]"), ("[^ \\n:,<\\(\\[\\]\\{\\}]+", "SYMBOL:a symbol"),
       ("[^\\s]", "UNEXPECTED")]
    ∧ Verif.Tables.c03LexerFlags = 32
    ∧ Verif.Tables.c03JsonFraming = ["[", ",", "]"]
    ∧ Verif.Tables.c03Signatures =
      ["eds.load(source)", "eds.loads(s)",
       "eds.dump(es, destination, properties=True, lnk=True, show_status=False, indent=True, encoding='utf-8')",
       "eds.dumps(es, properties=True, lnk=True, show_status=False, indent=True)", "eds.decode(s)",
       "eds.encode(e, properties=True, lnk=True, show_status=False, indent=True)", "edsjson.load(source)",
       "edsjson.loads(s)",
       "edsjson.dump(es, destination, properties=True, lnk=True, indent=False, encoding='utf-8')",
       "edsjson.dumps(es, properties=True, lnk=True, indent=False)", "edsjson.decode(s)",
       "edsjson.encode(eds, properties=True, lnk=True, indent=False)",
       "edsjson.to_dict(eds, properties=True, lnk=True)", "edsjson.from_dict(d)", "edspenman.load(source)",
       "edspenman.loads(s)",
       "edspenman.dump(es, destination, properties=True, lnk=True, indent=False, encoding='utf-8')",
       "edspenman.dumps(es, properties=True, lnk=True, indent=False)", "edspenman.decode(s)",
       "edspenman.encode(e, properties=True, lnk=True, indent=False)",
       "edspenman.to_triples(e, properties=True, lnk=True)", "edspenman.from_triples(triples)",
       "Node(self, id, predicate, type=None, edges=None, properties=None, carg=None, lnk=None, surface=None, base=None)",
       "EDS(self, top=None, nodes=None, lnk=None, surface=None, identifier=None)",
       "LookaheadIterator(self, iterable, n=1024)", "LookaheadLexer(self, iterable, error_class, n=1024)",
       "LookaheadIterator.peek(self, n=0, skip=None, drop=False)",
       "LookaheadLexer.accept(self, arg, skip=None, drop=False)", "_bfs(g, start=None)"]
    ∧ Verif.Tables.c03SkelEdsDecode = ["g:_EDSLexer", "a:lex", "a:peek", "g:_decode_eds", "a:peek", "g:StopIteration"]
    ∧ Verif.Tables.c03SkelEdsDecodeEds =
      ["a:accept_type", "g:IDENTIFIER", "a:expect_type", "g:LBRACE", "a:peek", "i:0", "g:COLON",
       "g:GRAPHSTATUS", "g:RBRACE", "g:NODESTATUS", "o:CONTAINS_OP:0", "c:None", "a:accept_type", "g:COLON",
       "a:accept_type", "g:GRAPHSTATUS", "a:peek", "i:2", "i:0", "g:GRAPHSTATUS", "g:NODESTATUS",
       "o:CONTAINS_OP:0", "a:peek", "i:3", "i:0", "g:COLON", "o:COMPARE_OP:==", "a:expect_type", "g:SYMBOL",
       "g:COLON", "a:accept_type", "g:GRAPHSTATUS", "c:None", "a:peek", "i:0", "g:RBRACE", "o:COMPARE_OP:!=",
       "a:accept_type", "g:NODESTATUS", "a:expect_type", "g:SYMBOL", "g:COLON", "a:append", "g:_decode_node",
       "a:peek", "i:0", "g:RBRACE", "o:COMPARE_OP:!=", "a:expect_type", "g:RBRACE", "g:EDS", "s:top", "s:nodes",
       "s:identifier"]
    ∧ Verif.Tables.c03SkelEdsDecodeNode =
      ["a:expect_type", "g:SYMBOL", "a:lower", "g:Lnk", "a:accept_type", "g:LNK", "a:accept_type", "g:CARG",
       "g:_unescape", "g:_decode_properties", "g:_decode_edges", "g:Node"]
    ∧ Verif.Tables.c03SkelEdsDecodeProperties =
      ["c:None", "a:accept_type", "g:LBRACE", "a:expect_type", "g:SYMBOL", "a:peek", "i:0", "g:RBRACE",
       "o:COMPARE_OP:!=", "a:expect_type", "g:SYMBOL", "g:SYMBOL", "a:lower", "a:upper", "a:accept_type",
       "g:COMMA", "a:expect_type", "g:RBRACE"]
    ∧ Verif.Tables.c03SkelEdsDecodeEdges =
      ["a:expect_type", "g:LBRACKET", "a:peek", "i:0", "g:RBRACKET", "o:COMPARE_OP:!=", "a:expect_type",
       "g:SYMBOL", "g:SYMBOL", "a:upper", "a:accept_type", "g:COMMA", "a:expect_type", "g:RBRACKET"]
    ∧ Verif.Tables.c03SkelEdsEncodeEds =
      ["s:{", "a:identifier", "s:#", "a:identifier", "s:\n", "s: ", "s:{", "s:\n}", "s:}", "g:len", "a:nodes",
       "i:0", "o:COMPARE_OP:==", "s:\n", "s: ", "s: ", "s:", "s:|", "s: ", "a:nodes", "a:id", "g:set",
       "a:nodes", "a:edges", "a:values", "a:id", "a:add", "a:add", "a:id", "g:_bfs", "a:top", "s:start",
       "a:top", "a:append", "a:top", "s::", "g:set", "o:COMPARE_OP:!=", "a:append", "s:(fragmented)",
       "a:append", "s: ", "a:join", "a:nodes", "a:id", "o:CONTAINS_OP:0", "a:append", "g:_encode_node",
       "a:join"]
    ∧ Verif.Tables.c03SkelEdsEncodeNode =
      ["a:id", "s::", "a:predicate", "a:lnk", "a:append", "g:str", "a:lnk", "a:carg", "a:append", "s:(\"{}\")",
       "a:format", "g:_escape", "a:carg", "a:properties", "a:type", "a:append", "s:{", "a:append", "a:type",
       "g:variable", "a:UNSPECIFIC", "a:properties", "g:sorted", "a:properties", "g:property_priority", "s:key",
       "s:{} {}", "a:format", "a:properties", "a:append", "s: ", "s:, ", "a:join", "a:append", "s:}",
       "a:append", "s:[", "a:edges", "g:sorted", "g:role_priority", "s:key", "a:append", "s:{} {}", "a:format",
       "a:append", "s:, ", "a:join", "a:append", "s:]", "s:", "a:join"]
    ∧ Verif.Tables.c03SkelEdsEscape = ["a:replace", "s:\\", "s:\\\\", "a:replace", "s:\"", "s:\\\""]
    ∧ Verif.Tables.c03SkelEdsUnescape =
      ["i:0", "g:len", "o:COMPARE_OP:<", "s:\\", "o:COMPARE_OP:==", "i:1", "g:len", "o:COMPARE_OP:<",
       "a:append", "i:1", "i:2", "a:append", "i:1", "g:len", "o:COMPARE_OP:<", "s:", "a:join"]
    ∧ Verif.Tables.c03SkelEdsDumps =
      ["c:False", "o:IS_OP:0", "s: ", "s:\n\n", "a:join", "g:encode", "s:properties", "s:lnk", "s:show_status",
       "s:indent"]
    ∧ Verif.Tables.c03SkelEdsEncode = ["c:False", "o:IS_OP:0", "c:False", "c:True", "g:_encode_eds"]
    ∧ Verif.Tables.c03SkelEdsDecodeApi = ["g:_EDSLexer", "a:lex", "a:splitlines", "g:_decode_eds"]
    ∧ Verif.Tables.c03SkelEdsLoads = ["g:list", "g:_decode", "a:splitlines"]
    ∧ Verif.Tables.c03SkelJsonToDict =
      ["a:nodes", "a:predicate", "a:edges", "s:label", "s:edges", "a:lnk", "a:cfrom", "a:cto", "s:from", "s:to",
       "s:lnk", "a:type", "a:type", "s:type", "a:properties", "s:properties", "a:carg", "a:carg", "s:carg",
       "a:id", "a:top", "s:top", "s:nodes"]
    ∧ Verif.Tables.c03SkelJsonFromDict =
      ["a:get", "s:top", "a:get", "s:nodes", "a:items", "a:get", "s:properties", "c:None", "a:get", "s:type",
       "c:None", "s:lnk", "o:CONTAINS_OP:0", "g:Lnk", "a:charspan", "s:lnk", "s:from", "s:lnk", "s:to",
       "a:append", "g:Node", "s:label", "a:get", "s:edges", "a:get", "s:carg", "s:id", "s:predicate", "s:type",
       "s:edges", "s:properties", "s:carg", "s:lnk", "a:sort", "a:cfrom", "a:cto", "s:key", "g:EDS", "s:nodes"]
    ∧ Verif.Tables.c03SkelJsonEncode =
      ["c:False", "o:IS_OP:0", "c:None", "c:True", "o:IS_OP:0", "i:2", "g:to_dict", "s:properties", "s:lnk",
       "g:json", "a:dumps", "s:indent"]
    ∧ Verif.Tables.c03SkelJsonDumps =
      ["c:False", "o:IS_OP:0", "c:None", "c:True", "o:IS_OP:0", "i:2", "g:to_dict", "s:properties", "s:lnk",
       "g:json", "a:dumps", "s:indent"]
    ∧ Verif.Tables.c03SkelJsonDecode = ["g:from_dict", "g:json", "a:loads"]
    ∧ Verif.Tables.c03SkelJsonLoads = ["g:json", "a:loads", "g:from_dict"]
    ∧ Verif.Tables.c03SkelPenToTriples =
      ["a:nodes", "a:id", "g:set", "a:nodes", "a:edges", "a:values", "a:id", "a:add", "a:add", "a:id", "g:_bfs",
       "a:top", "s:start", "c:True", "g:sorted", "a:nodes", "a:id", "a:top", "o:COMPARE_OP:!=", "s:key", "a:id",
       "o:CONTAINS_OP:0", "a:append", "s::instance", "a:predicate", "a:lnk", "a:append", "s::lnk", "s:\"{}\"",
       "a:format", "g:str", "a:lnk", "a:carg", "a:append", "s::carg", "s:\"{}\"", "a:format", "g:_escape",
       "a:carg", "a:type", "a:append", "s::type", "a:type", "g:sorted", "a:properties", "g:property_priority",
       "s:key", "s::", "a:lower", "a:append", "a:properties", "g:sorted", "a:edges", "g:role_priority", "s:key",
       "a:append", "s::", "a:edges", "c:False", "g:logger", "a:warning"]
    ∧ Verif.Tables.c03SkelPenFromTriples =
      ["a:lstrip", "s::", "o:CONTAINS_OP:1", "a:append", "c:None", "c:None", "c:None", "c:None", "s:pred",
       "s:type", "s:edges", "s:props", "s:lnk", "s:carg", "s:instance", "o:COMPARE_OP:==", "s:pred", "s:lnk",
       "o:COMPARE_OP:==", "g:Lnk", "a:strip", "s:\"", "s:lnk", "s:carg", "o:COMPARE_OP:==", "i:0", "i:-1",
       "s:\"", "s:\"", "o:COMPARE_OP:==", "g:_unescape", "i:1", "i:-1", "s:carg", "s:type", "o:COMPARE_OP:==",
       "s:type", "a:islower", "s:props", "a:upper", "s:edges", "g:Node", "s:pred", "s:type", "s:edges",
       "s:props", "s:carg", "s:lnk", "s:type", "s:edges", "s:properties", "s:carg", "s:lnk", "i:0", "c:None",
       "g:EDS", "s:top", "s:nodes"]
    ∧ Verif.Tables.c03SkelPenEscape = ["a:replace", "s:\\", "s:\\\\", "a:replace", "s:\"", "s:\\\""]
    ∧ Verif.Tables.c03SkelPenUnescape =
      ["i:0", "g:len", "o:COMPARE_OP:<", "s:\\", "o:COMPARE_OP:==", "i:1", "g:len", "o:COMPARE_OP:<",
       "a:append", "i:1", "i:2", "a:append", "i:1", "g:len", "o:COMPARE_OP:<", "s:", "a:join"]
    ∧ Verif.Tables.c03SkelPenEncode =
      ["c:True", "o:IS_OP:0", "i:-1", "c:False", "o:IS_OP:0", "c:None", "g:to_triples", "s:properties", "s:lnk",
       "g:penman", "a:Graph", "g:penman", "a:encode", "s:indent", "g:penman", "a:PenmanError",
       "g:PyDelphinException", "c:None"]
    ∧ Verif.Tables.c03SkelPenDumps =
      ["c:True", "o:IS_OP:0", "i:-1", "c:False", "o:IS_OP:0", "c:None", "g:penman", "a:Graph", "g:to_triples",
       "s:properties", "s:lnk", "g:penman", "a:dumps", "s:indent", "g:penman", "a:PenmanError",
       "g:PyDelphinException", "c:None"]
    ∧ Verif.Tables.c03SkelPenDecode =
      ["g:penman", "a:decode", "g:from_triples", "a:triples", "g:penman", "a:PenmanError",
       "g:PyDelphinException", "c:None"]
    ∧ Verif.Tables.c03SkelPenLoads =
      ["g:penman", "a:loads", "g:from_triples", "a:triples", "g:penman", "a:PenmanError",
       "g:PyDelphinException", "c:None"]
    ∧ Verif.Tables.c03SkelUtilBfs =
      ["g:set", "g:set", "g:next", "g:iter", "g:deque", "a:popleft", "o:CONTAINS_OP:1", "a:add", "a:extend",
       "o:CONTAINS_OP:1", "a:get"]
    ∧ Verif.Tables.c03SkelUtilPeek =
      ["a:_buffer", "a:popleft", "c:None", "a:append", "i:0", "o:COMPARE_OP:>=", "i:1", "i:0",
       "o:COMPARE_OP:>=", "a:extendleft", "g:reversed", "a:_buffer_fill", "i:1", "g:StopIteration",
       "g:IndexError", "a:_buffer_fill", "g:StopIteration", "c:None"]
    ∧ Verif.Tables.c03SkelUtilNext =
      ["a:_buffer", "a:popleft", "i:0", "g:IndexError", "a:_buffer_fill", "g:StopIteration", "c:None",
       "g:IndexError", "a:_buffer_fill", "g:StopIteration", "c:None"]
    ∧ Verif.Tables.c03SkelUtilBufferFill =
      ["a:_n", "a:_iterable", "a:_buffer", "a:append", "g:range", "g:max", "g:len", "i:0", "g:next", "c:True",
       "g:StopIteration", "g:len", "i:0", "o:COMPARE_OP:==", "c:False", "c:True"]
    ∧ Verif.Tables.c03SkelUtilExpect =
      ["a:next", "s:skip", "c:None", "o:COMPARE_OP:!=", "g:str", "o:COMPARE_OP:!=", "g:repr", "a:_errcls",
       "s:expected: ", "s:lineno", "s:offset", "s:text", "a:append", "g:len", "i:1", "o:COMPARE_OP:==", "i:0"]
    ∧ Verif.Tables.c03SkelUtilAccept = ["a:peek", "s:skip", "s:drop", "o:COMPARE_OP:==", "o:COMPARE_OP:==", "a:next", "s:skip"]
    ∧ Verif.Tables.c03SkelUtilPrelex =
      ["a:_re", "a:finditer", "a:tokentypes", "a:UNEXPECTED", "g:enumerate", "i:1", "i:0", "a:lastindex",
       "a:start", "o:COMPARE_OP:==", "a:_errcls", "s:unexpected input", "s:lineno", "s:offset", "s:text",
       "a:group", "g:StopIteration"]
    ∧ Verif.Tables.c03SkelRolePriority = ["a:upper", "s:LBL", "o:COMPARE_OP:!=", "s:BODY", "s:CARG", "o:CONTAINS_OP:0"]
    ∧ Verif.Tables.c03SkelPropertyPriority = ["g:_COMMON_PROPERTY_INDEX", "a:get", "a:upper", "g:len", "g:_COMMON_PROPERTIES"]
    ∧ Verif.Tables.c03SkelLnkInit =
      ["g:Lnk", "a:UNSPECIFIED", "a:type", "c:None", "a:data", "c:None", "i:1", "i:-1", "c:None", "s:<", "s:>",
       "o:COMPARE_OP:==", "i:1", "i:-1", "a:startswith", "s:@", "g:Lnk", "a:EDGE", "a:type", "g:int", "i:1",
       "c:None", "a:data", "s::", "o:CONTAINS_OP:0", "a:split", "s::", "g:Lnk", "a:CHARSPAN", "a:type", "g:int",
       "g:int", "a:data", "s:#", "o:CONTAINS_OP:0", "a:split", "s:#", "g:Lnk", "a:CHARTSPAN", "a:type", "g:int",
       "g:int", "a:data", "g:Lnk", "a:TOKENS", "a:type", "g:tuple", "g:map", "g:int", "a:split", "a:data",
       "g:Lnk", "a:CHARSPAN", "g:Lnk", "a:CHARTSPAN", "g:Lnk", "a:TOKENS", "g:Lnk", "a:EDGE", "o:CONTAINS_OP:0",
       "a:type", "a:data", "g:LnkError", "a:format"]
    ∧ Verif.Tables.c03SkelLnkStr =
      ["a:type", "g:Lnk", "a:UNSPECIFIED", "o:COMPARE_OP:==", "s:", "a:type", "g:Lnk", "a:CHARSPAN",
       "o:COMPARE_OP:==", "s:<{}:{}>", "a:format", "a:data", "i:0", "a:data", "i:1", "a:type", "g:Lnk",
       "a:CHARTSPAN", "o:COMPARE_OP:==", "s:<{}#{}>", "a:format", "a:data", "i:0", "a:data", "i:1", "a:type",
       "g:Lnk", "a:EDGE", "o:COMPARE_OP:==", "s:<@{}>", "a:format", "a:data", "a:type", "g:Lnk", "a:TOKENS",
       "o:COMPARE_OP:==", "s:<{}>", "a:format", "s: ", "a:join", "g:map", "g:str", "a:data"]
    ∧ Verif.Tables.c03SkelLnkBool =
      ["a:type", "g:Lnk", "a:UNSPECIFIED", "o:COMPARE_OP:==", "c:False", "a:type", "g:Lnk", "a:CHARSPAN",
       "o:COMPARE_OP:==", "a:data", "i:-1", "i:-1", "o:COMPARE_OP:==", "c:False", "c:True"]
    ∧ Verif.Tables.c03SkelLnkCfrom =
      ["i:-1", "a:lnk", "a:type", "g:Lnk", "a:CHARSPAN", "o:COMPARE_OP:==", "a:lnk", "a:data", "i:0",
       "g:AttributeError"]
    ∧ Verif.Tables.c03SkelLnkCto =
      ["i:-1", "a:lnk", "a:type", "g:Lnk", "a:CHARSPAN", "o:COMPARE_OP:==", "a:lnk", "a:data", "i:1",
       "g:AttributeError"]
    ∧ Verif.Tables.c03SkelNodeInit = ["g:super", "a:edges", "a:properties", "a:carg"]
    ∧ Verif.Tables.c03SkelEdsInit = ["g:super", "g:list"] := by
  refine ⟨?_, ?_, ?_, ?_, ?_, ?_, ?_, ?_, ?_, ?_, ?_, ?_, ?_, ?_, ?_, ?_, ?_, ?_, ?_, ?_, ?_, ?_, ?_, ?_, ?_, ?_, ?_, ?_, ?_, ?_, ?_, ?_, ?_, ?_, ?_, ?_, ?_, ?_, ?_, ?_, ?_, ?_, ?_, ?_, ?_, ?_, ?_⟩ <;> rfl

end Verif.C03
