/-
C03 — property theorems: EDS serialisations are lossless and stable (native EDS, EDS-JSON, EDS-PENMAN).

Only statements live here; the proofs are in Lemmas.lean (native token round trip, top detection),
StableLemmas.lean (the view is a fixed point of the encoder), StatusLemmas.lean (status markers against
reachability), JsonLemmas.lean and PenmanLemmas.lean.

Level of the statements: the native codec is stated on the TOKEN stream (`toksE o e` is the token view of the
text `textE o e`; that the real lexer turns the real text into exactly these tokens is checked by the
correspondence run, not proved); JSON on the dictionary `to_dict` builds; PENMAN on the triple list (the json and
penman libraries are identity parameters).
-/
import Verif.C03.Lemmas
import Verif.C03.StableLemmas
import Verif.C03.StatusLemmas
import Verif.C03.PenmanLemmas

namespace Verif.C03
open Verif.Codec Verif.Sem

/-! ## "The top-detection lookahead of the native decoder … only go[es] wrong for particular shapes (no top, a first
node that looks like a top …)" -/

/-- [core] For every EDS with at least one node and every option vector, the decoder's 2–3 token look-ahead, run on
what the encoder printed after `{` (followed by anything), returns exactly the graph's top — `none` for a graph
without top, also when the first node "looks like a top" — and leaves the stream at the first node. -/
theorem top_detection (o : Opts) (e : EDS) (hne : e.nodes ≠ []) (rest : List Token) :
    detectTop (e.topToks o ++ (e.bodyToks o ++ tRbrace :: rest)) = .ok (e.top, e.bodyToks o ++ tRbrace :: rest) :=
  detectTop_toks o e hne rest

/-- the look-ahead on the empty graph `{}` -/
theorem top_detection_empty (rest : List Token) : detectTop (tRbrace :: rest) = .ok (none, tRbrace :: rest) :=
  detectTop_empty rest

/-! ## "For every EDS, decoding its native … encoding yields the same top, node identifiers, predicates, types,
properties, constants, alignments and role-labelled edges … with and without indentation, with the status markers
… shown or hidden, for graphs with no top" -/

/-- [core] Token round trip with remainder, no hypothesis on the strings: whatever the graph (any top or none, no
nodes, cycles, self loops, several components, any option vector, anything following), the decoder reads the
encoder's tokens back as `normE o e` — the same graph with the decoder's case normalisation applied — and stops
exactly after the closing brace.  The only hypothesis: an empty graph has no top (there is no place to print it). -/
theorem native_roundtrip_tokens (o : Opts) (e : EDS) (h : e.nodes = [] → e.top = none) (rest : List Token) :
    decodeEds (toksE o e ++ rest) = .ok (normE o e, rest) :=
  decodeEds_toksE o e h rest

/-- [core] The same for a graph the format can express (`Expressible`: case-stable names, distinct keys): what comes
back is the view the property describes (`viewE`: same top, identifiers, predicates, constants; the two maps in
printed order; type and properties when `properties`, alignment when `lnk`). -/
theorem native_roundtrip (o : Opts) (e : EDS) (hx : Expressible e) (rest : List Token) :
    decodeEds (toksE o e ++ rest) = .ok (viewE o e, rest) := by
  rw [decodeEds_toksE o e hx.top rest, normE_eq_viewE o e hx]

/-- node-wise "the same": identifier, predicate, type, constant equal; edges and properties the same maps (as lists:
permutations); the alignment equal, or both "false" (unspecified / `<-1:-1>`). -/
def SameNode (a b : Node) : Prop :=
  b.id = a.id ∧ b.pred = a.pred ∧ b.type = a.type ∧ b.carg = a.carg
  ∧ b.edges.Perm a.edges ∧ b.props.Perm a.props
  ∧ (b.lnk = a.lnk ∨ (a.lnk.truthy = false ∧ b.lnk = .unspec))

theorem sameNode_viewNode (s i : Bool) (n : Node) (h : n.type = none → n.props = []) :
    SameNode n (viewNode ⟨true, true, s, i⟩ n) := by
  refine ⟨rfl, rfl, ?_, rfl, sortStable_perm _ _, sortStable_perm _ _, ?_⟩
  · simp only [viewNode, if_true, typeView]
    cases ht : n.type with
    | none => simp [h ht]
    | some t => rfl
  · simp only [viewNode, Bool.true_and]
    cases hl : n.lnk.truthy <;> simp

-- FULL STATEMENT (not proved, false — F38): the theorem below without the hypothesis `NoUntypedProps e`.
/-- [core] The property's main clause for the native format, with all information printed: the decoded graph has the
same top and identifier and, node by node in the same order, the same identifier, predicate, type, properties,
constant, alignment and edges.  `NoUntypedProps` (no untyped node has properties) is forced by the format: the
property block cannot be written without a type, the encoder writes the placeholder `u` (known finding F38,
counter-example below). -/
theorem native_roundtrip_partial (s i : Bool) (e : EDS) (hx : Expressible e) (hu : NoUntypedProps e)
    (rest : List Token) :
    ∃ d, decodeEds (toksE ⟨true, true, s, i⟩ e ++ rest) = .ok (d, rest)
      ∧ d.top = e.top ∧ d.identifier = e.identifier
      ∧ ∃ f : Node → Node, d.nodes = e.nodes.map f ∧ ∀ n ∈ e.nodes, SameNode n (f n) :=
  ⟨viewE ⟨true, true, s, i⟩ e, native_roundtrip _ e hx rest, rfl, rfl, viewNode ⟨true, true, s, i⟩, rfl,
    fun n hn => sameNode_viewNode s i n (hu n hn)⟩

/-- F38 counter-example (replayed on the implementation by corpus/C03): an untyped node with a property comes back
with the type `u`. -/
theorem native_roundtrip_cex_untyped_props :
    let n : Node := ⟨"e2".toList, "_rain_v_1".toList, none, [], [("TENSE".toList, "past".toList)], none, .unspec⟩
    let e : EDS := ⟨some "e2".toList, [n], none⟩
    (match decodeEds (toksE ⟨true, true, false, true⟩ e) with
     | .ok r => r.1.nodes.map (·.type)
     | .error _ => []) = [some "u".toList] := by
  decide

/-! ## "suppressing properties (together with the node type where the format stores it with them) or alignments
removes exactly that information" -/

/-- native format: without `properties` the node comes back without properties and without type — the format stores
the type inside the property block — and otherwise as with them. -/
theorem suppress_properties_native (l s i : Bool) (n : Node) :
    viewNode ⟨false, l, s, i⟩ n = { viewNode ⟨true, l, s, i⟩ n with type := none, props := [] } := rfl

/-- without `lnk` the node comes back without alignment and otherwise as with it. -/
theorem suppress_lnk_native (p s i : Bool) (n : Node) :
    viewNode ⟨p, false, s, i⟩ n = { viewNode ⟨p, true, s, i⟩ n with lnk := .unspec } := rfl

/-- JSON and PENMAN store the type on its own: suppressing properties leaves it. -/
theorem suppress_properties_json (l : Bool) (n : Node) :
    viewJNode false l n = { viewJNode true l n with props := [] } := rfl
theorem suppress_properties_penman (l : Bool) (n : Node) :
    viewPRec false l n = { viewPRec true l n with props := [] } := rfl
theorem suppress_lnk_penman (p : Bool) (n : Node) :
    viewPRec p false n = { viewPRec p true n with lnk := .unspec } := rfl

/-! ## "re-encoding the decoded graph in the native format reproduces the text" -/

/-- [core] Text stability for every option vector: the decoded graph re-encodes to the same text (and the same
tokens). -/
theorem reencode_stable (o : Opts) (e : EDS) (hx : Expressible e) :
    ∃ d, decodeEds (toksE o e) = .ok (d, []) ∧ textE o d = textE o e ∧ toksE o d = toksE o e := by
  refine ⟨viewE o e, ?_, textE_viewE o e hx, toksE_viewE o e hx⟩
  have := native_roundtrip o e hx []
  simpa using this

/-- indentation only changes white space: the token stream does not depend on it. -/
theorem tokens_indent_independent (p l s : Bool) (e : EDS) :
    toksE ⟨p, l, s, true⟩ e = toksE ⟨p, l, s, false⟩ e := rfl

/-! ## "for multi-graph documents" -/

/-- [core] A document of any number of graphs (also none) is read back graph by graph. -/
theorem docs_roundtrip (o : Opts) (es : List EDS) (hx : ∀ e ∈ es, Expressible e) :
    loadsToks (es.flatMap (toksE o)) = .ok (es.map (viewE o)) := by
  unfold loadsToks
  rw [decodeAll_docs o es _ (by have := docs_length o es; omega) (fun e he => (hx e he).top)]
  congr 1
  exact List.map_congr_left (fun e he => normE_eq_viewE o e (hx e he))

/-! ## "with the status markers for disconnected or fragmented graphs shown or hidden" -/

/-- [core] a node is printed with `|` exactly when markers are shown and the node is not connected to the top (the
first node when there is no top) in the undirected edge graph. -/
theorem status_marker (o : Opts) (e : EDS) (n : Node) :
    e.statusToks o n = [tNstatus] ↔ (o.showStatus = true ∧ ¬ e.Connected n.id) := statusToks_iff o e n

theorem status_marker_text (o : Opts) (e : EDS) (n : Node) :
    e.membership o n = ['|'] ↔ (o.showStatus = true ∧ ¬ e.Connected n.id) := membership_bar_iff o e n

/-- [core] `(fragmented)` is printed exactly when markers are shown and some node is not connected to the top. -/
theorem fragmented_marker (o : Opts) (e : EDS) (ht : e.targetsOk = true) (hs : e.start ∈ e.ids) :
    tFragmented ∈ e.topToks o ↔ (o.showStatus = true ∧ ∃ n ∈ e.nodes, ¬ e.Connected n.id) := by
  rw [topToks_fragmented_iff, fragmented_iff e ht hs]

/-! ## EDS-JSON: "(JSON up to node order)" -/

/-- [core] through the dictionary form the graph comes back with the same top and exactly the nodes of the JSON view,
stably ordered by span `(cfrom, -cto)`. -/
theorem json_roundtrip (p l : Bool) (e : EDS) (h : e.ids.Nodup) :
    fromDict (toDict p l e)
      = { top := e.top, nodes := sortStable spanLt (e.nodes.map (viewJNode p l)), identifier := none } :=
  fromDict_toDict p l e h

/-- … i.e. the same top and the same multiset of nodes, in span order. -/
theorem json_roundtrip_multiset (p l : Bool) (e : EDS) (h : e.ids.Nodup) :
    (fromDict (toDict p l e)).top = e.top
    ∧ (fromDict (toDict p l e)).nodes.Perm (e.nodes.map (viewJNode p l))
    ∧ (fromDict (toDict p l e)).nodes.Pairwise (fun a b => spanLt b a = false) :=
  fromDict_toDict_perm p l e h

/-- JSON re-encoding stability at the dictionary level: the decoded graph is a fixed point of the round trip (a second
encode/decode changes nothing, in particular not the node order) … -/
theorem json_reencode_stable (p l : Bool) (e : EDS) (h : e.ids.Nodup) :
    fromDict (toDict p l (fromDict (toDict p l e))) = fromDict (toDict p l e) :=
  fromDict_toDict_fixed p l e h

/-- … so re-encoding what was decoded from the re-encoded dictionary reproduces that dictionary. -/
theorem json_redict_stable (p l : Bool) (e : EDS) (h : e.ids.Nodup) :
    toDict p l (fromDict (toDict p l (fromDict (toDict p l e)))) = toDict p l (fromDict (toDict p l e)) := by
  rw [fromDict_toDict_fixed p l e h]

/-! ## "EDS-PENMAN does the same for graphs connected from the top" -/

/-- [core] for a graph whose top is a node from which every node is reachable: the triples read back give the top
and every node (top first) with the same predicate, type, edges, properties, constant and alignment. -/
theorem penman_roundtrip (p l : Bool) (e : EDS) (t : Str)
    (htop : e.top = some t) (hmem : t ∈ e.ids) (hnd : e.ids.Nodup)
    (hconn : ∀ n ∈ e.nodes, e.Connected n.id)
    (hexp : ∀ n ∈ e.nodes, PenExpressible n) :
    fromTriples (toTriples p l e) = .ok (some t, (topFirst e).map (fun n => (n.id, viewPRec p l n))) := by
  refine fromTriples_toTriples p l e t htop hmem hnd ?_ hexp
  intro i hi
  obtain ⟨n, hn, rfl⟩ := List.mem_map.1 hi
  exact (mem_reach_iff e n.id).2 (hconn n hn)

/-! ## non-vacuity and concrete instances (tests, labelled as such) -/

example : Expressible ⟨some "e2".toList,
    [⟨"x1".toList, "pron".toList, some "x".toList, [], [("PERS".toList, "3".toList)], none, .charspan 0 2⟩,
     ⟨"e2".toList, "_rain_v_1".toList, some "e".toList, [("ARG1".toList, "x1".toList)], [], some "a\"b".toList, .unspec⟩],
    none⟩ := by
  constructor <;> decide

example : (match decodeEds (toksE ⟨true, true, true, false⟩ ⟨none, [], none⟩) with
    | .ok r => decide (r.1 = ⟨none, [], none⟩ ∧ r.2 = [])
    | .error _ => false) = true := by decide

end Verif.C03
