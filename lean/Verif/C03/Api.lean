/-
C03 — executable model of the public API glue around the modelled core (round 6).

Anchors in /repo:
  delphin/codecs/eds.py        encode / dumps (the `indent` argument: `indent is None or indent is False`),
                               dump (`print(string, file=…)`: the text plus a line feed), load (the lexer is
                               fed the lines of the file object — broken at `\n` only, not `str.splitlines()`),
                               loads / decode (`s.splitlines()`)
  delphin/codecs/edsjson.py    encode / dumps / dump (`False -> None`, `True -> 2`), decode / loads / load
  delphin/codecs/edspenman.py  encode / dumps / dump (`True -> -1`, `False -> None`), decode / loads / load,
                               from_triples' `Node(nid, nd[nid]['pred'], …)` construction
and the cross-codec composition the property names ("re-encoding the decoded graph in the native format"):
native `encode` of what `edsjson.decode` / `edspenman.decode` returned.

Parameters (as in Model.lean): the json and penman libraries (identity on dictionaries / triples), the text
encoding of real files (UTF-8 both ways).
-/
import Verif.C03.Lexer

namespace Verif.C03
open Verif.Codec Verif.LnkLex

/-! ### the `indent` argument -/

/-- what callers pass as `indent`: `None`, a Boolean, an integer -/
inductive IndentArg where
  | none
  | bool (b : Bool)
  | int (n : Int)
deriving Repr, DecidableEq

/-- `eds.encode` / `eds.dumps`: `if indent is None or indent is False: indent = False else: indent = True`
(identity tests: the integer `0` is neither, so it indents). -/
def nativeIndent : IndentArg → Bool
  | .none => false
  | .bool b => b
  | .int _ => true

/-- `edsjson.encode/dumps/dump`: `False -> None`, `True -> 2`, everything else passed on to `json.dumps`. -/
def jsonIndent : IndentArg → Option Int
  | .none => Option.none
  | .bool false => Option.none
  | .bool true => some 2
  | .int n => some n

/-- `edspenman.encode/dumps`: `True -> -1`, `False -> None`, everything else passed on to `penman`. -/
def penmanIndent : IndentArg → Option Int
  | .none => Option.none
  | .bool false => Option.none
  | .bool true => some (-1)
  | .int n => some n

def apiOpts (p l s : Bool) (ia : IndentArg) : Opts := ⟨p, l, s, nativeIndent ia⟩

/-- `eds.encode(e, properties, lnk, show_status, indent)` -/
def encodeApi (p l s : Bool) (ia : IndentArg) (e : EDS) : Except Err Str := encode (apiOpts p l s ia) e

/-- `eds.dumps(es, …)`: the joined single encodings; the KeyError of any graph propagates. -/
def dumpsApi (p l s : Bool) (ia : IndentArg) (es : List EDS) : Except Err Str :=
  if es.any (fun e => !e.nodes.isEmpty && !e.targetsOk) then .error .keyError
  else .ok (dumpsText (apiOpts p l s ia) es)

/-- what `eds.dump(es, destination, …)` writes: `print(string, file=…)` appends a line feed. -/
def dumpText (o : Opts) (es : List EDS) : Str := dumpsText o es ++ ['\n']

def dumpApi (p l s : Bool) (ia : IndentArg) (es : List EDS) : Except Err Str :=
  match dumpsApi p l s ia es with
  | .ok t => .ok (t ++ ['\n'])
  | .error e => .error e

namespace Lex

/-- the lines a text-mode file object yields: broken at `\n` only (the terminator itself is dropped here: it is
the last character of the line, no token class but the skipped white space can match it, and `$` of the
IDENTIFIER class matches before it as it does at the end). -/
def splitNL : Str → List Str
  | [] => [[]]
  | c :: r =>
    if c = '\n' then [] :: splitNL r
    else match splitNL r with
      | [] => [[c]]
      | l :: ls => (c :: l) :: ls

/-- `_EDSLexer.prelex(fh)` for a file object (`io.StringIO`, or a file opened without newline translation). -/
def lexFile (s : Str) : Option (List Token) :=
  (splitNL s).foldr (fun l acc => match lexLine (l.length + 1) l, acc with
    | some a, some b => some (a ++ b)
    | _, _ => none) (some [])

/-- `load(fh)` from the text of the file object. -/
def loadFileText (s : Str) : Except Err (List EDS) :=
  match lexFile s with
  | none => .error .syntax
  | some ts => loadsToks ts

/-- universal-newline translation of `Path.open()` (text mode, `newline=None`): `\r\n` and `\r` become `\n`
(`prevCR`: the previous character was a `\r`, already written as `\n`). -/
def univNLaux : Bool → Str → Str
  | _, [] => []
  | prevCR, c :: r =>
    if c = '\r' then '\n' :: univNLaux true r
    else if c = '\n' && prevCR then univNLaux false r
    else c :: univNLaux false r

def univNL (s : Str) : Str := univNLaux false s

/-- `load(path)` from the characters stored in the file. -/
def loadPathText (s : Str) : Except Err (List EDS) := loadFileText (univNL s)

end Lex

/-! ### JSON / PENMAN API at the level the model has (dictionary, triples) -/

/-- `edsjson.loads(edsjson.dumps(es, properties, lnk, indent))` (json an identity parameter; `indent` has no
influence on the dictionary). -/
def jsonApi (p l : Bool) (es : List EDS) : List EDS := es.map (fun e => fromDict (toDict p l e))

/-- the `Node(nid, nd[nid]['pred'], …)` construction at the end of `from_triples`; a record without `:instance`
gives a node whose predicate is `None` (outside this model's `Node`, hence `none`). -/
def recNode (r : Str × PRec) : Option Node :=
  match r.2.pred with
  | some pr => some { id := r.1, pred := pr, type := r.2.type, edges := r.2.edges, props := r.2.props,
                      carg := r.2.carg, lnk := r.2.lnk }
  | none => none

def recNodes : List (Str × PRec) → Option (List Node)
  | [] => some []
  | r :: rs =>
    match recNode r, recNodes rs with
    | some n, some ns => some (n :: ns)
    | _, _ => none

/-- `from_triples` up to the `EDS(top=…, nodes=…)` it returns (`none`: some node has no predicate). -/
def fromTriplesE (ts : List Triple) : Except Err (Option EDS) :=
  match fromTriples ts with
  | .error e => .error e
  | .ok (top, recs) => .ok ((recNodes recs).map (fun ns => { top := top, nodes := ns, identifier := none }))

/-- the node that comes back through PENMAN, as a node -/
def viewPNode (p l : Bool) (n : Node) : Node :=
  { id := n.id, pred := n.pred, type := n.type, edges := sortEdges n.edges,
    props := if p then sortProps n.props else [], carg := n.carg,
    lnk := if l && n.lnk.truthy then n.lnk else .unspec }

/-- the node order `edsjson.from_dict` produces from the order of the graph: by span when alignments are
written, unchanged when they are suppressed (every node then has the span (-1, -1); the sort is stable). -/
def jsonOrder (l : Bool) (ns : List Node) : List Node := if l then sortStable spanLt ns else ns

/-- what the JSON codec keeps of an alignment: nothing but a character span -/
def lnkJsonOK : Lnk → Bool
  | .unspec => true
  | .charspan _ _ => true
  | _ => false

/-- native `encode` of the graph `edsjson.decode(edsjson.encode(e))` returns -/
def nativeOfJson (p l s i : Bool) (e : EDS) : Except Err Str := encode ⟨p, l, s, i⟩ (fromDict (toDict p l e))

/-- native `encode` of the graph `edspenman.decode(edspenman.encode(e))` returns (`none`: a node without a
predicate — the real `encode` raises a TypeError there). -/
def nativeOfPenman (p l s i : Bool) (e : EDS) : Except Err (Option Str) :=
  match fromTriplesE (toTriples p l e) with
  | .error er => .error er
  | .ok none => .ok none
  | .ok (some d) =>
    match encode ⟨p, l, s, i⟩ d with
    | .ok t => .ok (some t)
    | .error er => .error er

end Verif.C03
