/-
C03 — the native EDS format: the decoder's view of the encoder's output (`normE`) is the view the
property describes (`viewE`), and that view is a fixed point of the encoder.  Core Lean only.
-/
import Verif.C03.View
import Verif.C03.JsonLemmas
import Verif.Common.SemLemmas

namespace Verif.C03
open Verif.Codec

/-! ### rebuilding the dictionaries from the printed order -/

/-- under case-stability and distinct keys the decoder's dictionary rebuilding is the identity on
the printed order -/
theorem mkProps_sortProps (d : Dict) (hk : ∀ p ∈ d, upper p.1 = p.1 ∧ lower p.2 = p.2)
    (hnd : (d.map (·.1)).Nodup) :
    mkProps (sortProps d) = sortProps d := by
  have hperm : (sortProps d).Perm d := sortStable_perm _ d
  have hmem : ∀ p ∈ sortProps d, upper p.1 = p.1 ∧ lower p.2 = p.2 :=
    fun p hp => hk p (hperm.mem_iff.1 hp)
  have hmap : (sortProps d).map (fun p => upper p.1) = (sortProps d).map (·.1) :=
    List.map_congr_left (fun p hp => (hmem p hp).1)
  have hnd' : ((sortProps d).map (fun p => upper p.1)).Nodup := by
    rw [hmap]; exact (hperm.map _).nodup_iff.2 hnd
  have h := foldl_dset_fresh (fun p : Str × Str => upper p.1) (fun p => lower p.2)
    (sortProps d) [] hnd' (by simp)
  unfold mkProps dictSet
  rw [h, List.nil_append]
  have : (sortProps d).map (fun p => (upper p.1, lower p.2)) = (sortProps d).map id :=
    List.map_congr_left (fun p hp => by
      obtain ⟨h1, h2⟩ := hmem p hp
      show (upper p.1, lower p.2) = p
      rw [h1, h2])
  rw [this, List.map_id]

theorem mkEdges_sortEdges (d : Dict) (hk : ∀ p ∈ d, upper p.1 = p.1)
    (hnd : (d.map (·.1)).Nodup) :
    mkEdges (sortEdges d) = sortEdges d := by
  have hperm : (sortEdges d).Perm d := sortStable_perm _ d
  have hmem : ∀ p ∈ sortEdges d, upper p.1 = p.1 :=
    fun p hp => hk p (hperm.mem_iff.1 hp)
  have hmap : (sortEdges d).map (fun p => upper p.1) = (sortEdges d).map (·.1) :=
    List.map_congr_left (fun p hp => hmem p hp)
  have hnd' : ((sortEdges d).map (fun p => upper p.1)).Nodup := by
    rw [hmap]; exact (hperm.map _).nodup_iff.2 hnd
  have h := foldl_dset_fresh (fun p : Str × Str => upper p.1) (fun p => p.2)
    (sortEdges d) [] hnd' (by simp)
  unfold mkEdges dictSet
  rw [h, List.nil_append]
  have : (sortEdges d).map (fun p => (upper p.1, p.2)) = (sortEdges d).map id :=
    List.map_congr_left (fun p hp => by
      show (upper p.1, p.2) = p
      rw [hmem p hp])
  rw [this, List.map_id]

/-! ### `normE` is `viewE` -/

theorem normNode_eq_viewNode (o : Opts) (n : Node)
    (hpred : lower n.pred = n.pred)
    (hprops : ∀ p ∈ n.props, upper p.1 = p.1 ∧ lower p.2 = p.2)
    (hroles : ∀ p ∈ n.edges, upper p.1 = p.1)
    (hpn : (n.props.map (·.1)).Nodup) (hen : (n.edges.map (·.1)).Nodup)
    (hty : n.type ≠ some []) :
    normNode o n = viewNode o n := by
  obtain ⟨id, pred, type, edges, props, carg, lnk⟩ := n
  obtain ⟨pr, lk, ss, ind⟩ := o
  simp only at hpred hprops hroles hpn hen hty
  simp only [normNode, viewNode, hpred, mkEdges_sortEdges edges hroles hen,
    mkProps_sortProps props hprops hpn, Node.showBlock, Node.typeOrU, typeView]
  cases pr
  · simp
  · cases type with
    | none =>
      cases props with
      | nil => simp [truthyStr, sortProps, sortStable]
      | cons p ps => simp [truthyStr]
    | some t =>
      cases t with
      | nil => exact absurd rfl hty
      | cons c cs => simp [truthyStr]

/-- what the native decoder returns on the encoder's output (`normE`) is the view the property
describes -/
theorem normE_eq_viewE (o : Opts) (e : EDS) (hx : Expressible e) : normE o e = viewE o e := by
  unfold normE viewE
  have hn : e.nodes.map (normNode o) = e.nodes.map (viewNode o) :=
    List.map_congr_left (fun n hn => normNode_eq_viewNode o n (hx.preds n hn) (hx.props n hn)
      (hx.roles n hn) (hx.propsNodup n hn) (hx.edgesNodup n hn) (hx.typed n hn))
  have hi : (if truthyStr e.identifier then e.identifier else none) = e.identifier := by
    have := hx.ident
    cases h : e.identifier with
    | none => simp [truthyStr]
    | some t =>
      cases t with
      | nil => exact absurd h this
      | cons c cs => simp [truthyStr]
  rw [hn, hi]

/-! ### reachability -/

theorem viewE_start (o : Opts) (e : EDS) : (viewE o e).start = e.start := by
  obtain ⟨top, nodes, ident⟩ := e
  cases top with
  | some t => rfl
  | none =>
    cases nodes with
    | nil => rfl
    | cons n ns => rfl

theorem viewE_ids (o : Opts) (e : EDS) : (viewE o e).ids = e.ids := by
  simp only [EDS.ids, viewE, List.map_map]
  exact List.map_congr_left (fun n _ => rfl)

theorem mem_viewE_edgePairs (o : Opts) (e : EDS) (p : Str × Str) :
    p ∈ (viewE o e).edgePairs ↔ p ∈ e.edgePairs := by
  simp only [EDS.edgePairs, viewE, List.flatMap_map, List.mem_flatMap, List.mem_map, viewNode,
    sortEdges, mem_sortStable]

theorem reach_congr_mem {α : Type} [DecidableEq α] (E1 E2 : List (α × α))
    (h : ∀ p, p ∈ E1 → p ∈ E2) (s x : α) :
    Verif.Sem.Reach (Verif.Sem.adjOf (Verif.Sem.symm E1)) s x →
      Verif.Sem.Reach (Verif.Sem.adjOf (Verif.Sem.symm E2)) s x := by
  intro hr
  induction hr with
  | refl => exact Verif.Sem.Reach.refl _
  | tail _ hc ih =>
    refine Verif.Sem.Reach.tail ih ?_
    rw [Verif.Sem.mem_adjOf, Verif.Sem.mem_symm] at hc ⊢
    exact hc.imp (h _) (h _)

/-- reachability only depends on which edges exist -/
theorem reach_viewE (o : Opts) (e : EDS) (x : Str) : x ∈ (viewE o e).reach ↔ x ∈ e.reach := by
  unfold EDS.reach
  rw [Verif.Sem.bfs_correct, Verif.Sem.bfs_correct, viewE_start]
  exact ⟨reach_congr_mem _ _ (fun p => (mem_viewE_edgePairs o e p).1) _ _,
    reach_congr_mem _ _ (fun p => (mem_viewE_edgePairs o e p).2) _ _⟩

/-! ### the two priority orders are strict weak orders; sorting is idempotent -/

theorem ltStr_cons_true (a b : Char) (as bs : Str) :
    ltStr (a :: as) (b :: bs) = true ↔
      a.toNat < b.toNat ∨ (a.toNat = b.toNat ∧ ltStr as bs = true) := by
  simp only [ltStr]
  grind

theorem ltStr_cons_false (a b : Char) (as bs : Str) :
    ltStr (a :: as) (b :: bs) = false ↔
      ¬ a.toNat < b.toNat ∧ (a.toNat = b.toNat → ltStr as bs = false) := by
  simp only [ltStr]
  grind

theorem ltStr_asymm : ∀ (a b : Str), ltStr a b = true → ltStr b a = false := by
  intro a
  induction a with
  | nil => intro b; cases b <;> simp [ltStr]
  | cons x xs ih =>
    intro b
    cases b with
    | nil => simp [ltStr]
    | cons y ys =>
      rw [ltStr_cons_true, ltStr_cons_false]
      intro h
      rcases h with h | ⟨h, h'⟩
      · exact ⟨by omega, fun e => by omega⟩
      · exact ⟨by omega, fun _ => ih ys h'⟩

theorem ltStr_ntrans : ∀ (a b c : Str), ltStr b a = false → ltStr c b = false → ltStr c a = false := by
  intro a
  induction a with
  | nil => intro b c; cases b <;> cases c <;> simp [ltStr]
  | cons x xs ih =>
    intro b c
    cases b with
    | nil => cases c <;> simp [ltStr]
    | cons y ys =>
      cases c with
      | nil => simp [ltStr]
      | cons z zs =>
        rw [ltStr_cons_false, ltStr_cons_false, ltStr_cons_false]
        intro h1 h2
        refine ⟨by omega, fun e => ?_⟩
        exact ih ys zs (h1.2 (by omega)) (h2.2 (by omega))

structure StrictWeak {α : Type} (lt : α → α → Bool) : Prop where
  asymm : ∀ a b, lt a b = true → lt b a = false
  ntrans : ∀ a b c, lt b a = false → lt c b = false → lt c a = false

theorem StrictWeak.irrefl {α : Type} {lt : α → α → Bool} (h : StrictWeak lt) (a : α) :
    lt a a = false := by
  cases hh : lt a a with
  | false => rfl
  | true => have := h.asymm a a hh; rw [hh] at this; exact this

theorem StrictWeak.comap {α β : Type} {lt : β → β → Bool} (h : StrictWeak lt) (g : α → β) :
    StrictWeak (fun a b => lt (g a) (g b)) :=
  ⟨fun a b => h.asymm (g a) (g b), fun a b c => h.ntrans (g a) (g b) (g c)⟩

theorem lex_false_iff {α κ : Type} [BEq κ] [LawfulBEq κ] (lt1 : κ → κ → Bool) (lt2 : α → α → Bool)
    (f : α → κ) (a b : α) :
    (lt1 (f a) (f b) || (f a == f b && lt2 a b)) = false ↔
      lt1 (f a) (f b) = false ∧ (f a = f b → lt2 a b = false) := by
  by_cases e : f a = f b <;> simp [e]

theorem StrictWeak.lex {α κ : Type} [BEq κ] [LawfulBEq κ] {lt1 : κ → κ → Bool}
    {lt2 : α → α → Bool} (h1 : StrictWeak lt1)
    (htot : ∀ x y, lt1 x y = false → lt1 y x = false → x = y)
    (h2 : StrictWeak lt2) (f : α → κ) :
    StrictWeak (fun a b => lt1 (f a) (f b) || (f a == f b && lt2 a b)) := by
  constructor
  · intro a b h
    simp only [Bool.or_eq_true, Bool.and_eq_true, beq_iff_eq] at h
    show (lt1 (f b) (f a) || (f b == f a && lt2 b a)) = false
    rw [lex_false_iff]
    rcases h with h | ⟨he, h⟩
    · refine ⟨h1.asymm _ _ h, fun e => ?_⟩
      rw [e, h1.irrefl] at h
      cases h
    · refine ⟨?_, fun _ => h2.asymm _ _ h⟩
      rw [he]; exact h1.irrefl _
  · intro a b c
    show (lt1 (f b) (f a) || (f b == f a && lt2 b a)) = false →
      (lt1 (f c) (f b) || (f c == f b && lt2 c b)) = false →
      (lt1 (f c) (f a) || (f c == f a && lt2 c a)) = false
    rw [lex_false_iff, lex_false_iff, lex_false_iff]
    intro hba hcb
    refine ⟨h1.ntrans _ _ _ hba.1 hcb.1, fun e => ?_⟩
    have e1 : f b = f a := htot _ _ hba.1 (by rw [← e]; exact hcb.1)
    have e2 : f c = f b := by rw [e, e1]
    exact h2.ntrans _ _ _ (hba.2 e1) (hcb.2 e2)

theorem strictWeak_ltStr : StrictWeak ltStr := ⟨ltStr_asymm, ltStr_ntrans⟩

theorem strictWeak_ltBool : StrictWeak ltBool :=
  ⟨by intro a b; cases a <;> cases b <;> simp [ltBool],
   by intro a b c; cases a <;> cases b <;> cases c <;> simp [ltBool]⟩

theorem ltBool_total (x y : Bool) : ltBool x y = false → ltBool y x = false → x = y := by
  cases x <;> cases y <;> simp [ltBool]

theorem strictWeak_ltNat : StrictWeak (fun x y : Nat => decide (x < y)) :=
  ⟨by intro a b; simp; omega, by intro a b c; simp; omega⟩

theorem ltNat_total (x y : Nat) : decide (x < y) = false → decide (y < x) = false → x = y := by
  simp; omega

theorem strictWeak_roleLt : StrictWeak roleLt := by
  have inner := StrictWeak.lex strictWeak_ltBool ltBool_total strictWeak_ltStr
    (fun u : Str => u == "BODY".toList || u == "CARG".toList)
  have outer := StrictWeak.lex strictWeak_ltBool ltBool_total inner
    (fun u : Str => u != "LBL".toList)
  exact outer.comap upper

theorem strictWeak_propLt : StrictWeak propLt :=
  StrictWeak.lex strictWeak_ltNat ltNat_total strictWeak_ltStr propIndex

/-- sorting is idempotent (the printed order is a fixed point) -/
theorem sortEdges_idem (d : Dict) : sortEdges (sortEdges d) = sortEdges d := by
  have h := strictWeak_roleLt.comap (fun p : Str × Str => p.1)
  exact sortStable_of_sorted _ _ (sortStable_sorted _ h.ntrans h.asymm d)

theorem sortProps_idem (d : Dict) : sortProps (sortProps d) = sortProps d := by
  have h := strictWeak_propLt.comap (fun p : Str × Str => p.1)
  exact sortStable_of_sorted _ _ (sortStable_sorted _ h.ntrans h.asymm d)

/-! ### the view is a fixed point of the encoder -/

theorem sortProps_isEmpty (d : Dict) : (sortProps d).isEmpty = d.isEmpty := by
  cases d with
  | nil => rfl
  | cons p ps =>
    have h := sortStable_length (fun a b : Str × Str => propLt a.1 b.1) (p :: ps)
    unfold sortProps
    cases hs : sortStable (fun a b : Str × Str => propLt a.1 b.1) (p :: ps) with
    | nil => rw [hs] at h; simp at h
    | cons => rfl

theorem viewNode_id (o : Opts) (n : Node) : (viewNode o n).id = n.id := rfl
theorem viewNode_pred (o : Opts) (n : Node) : (viewNode o n).pred = n.pred := rfl
theorem viewNode_carg (o : Opts) (n : Node) : (viewNode o n).carg = n.carg := rfl
theorem viewNode_edges (o : Opts) (n : Node) : (viewNode o n).edges = sortEdges n.edges := rfl

theorem viewNode_lnkText (o : Opts) (n : Node) :
    (if o.lnk && (viewNode o n).lnk.truthy then (viewNode o n).lnk.str else [])
      = (if o.lnk && n.lnk.truthy then n.lnk.str else []) := by
  show (if o.lnk && (if o.lnk && n.lnk.truthy then n.lnk else Lnk.unspec).truthy
      then (if o.lnk && n.lnk.truthy then n.lnk else Lnk.unspec).str else []) = _
  cases h : (o.lnk && n.lnk.truthy)
  · simp [Lnk.truthy]
  · simp only [if_true, h]

theorem viewNode_lnkToks (o : Opts) (n : Node) :
    (if o.lnk && (viewNode o n).lnk.truthy then [tk .lnk (viewNode o n).lnk.str] else [])
      = (if o.lnk && n.lnk.truthy then [tk .lnk n.lnk.str] else []) := by
  show (if o.lnk && (if o.lnk && n.lnk.truthy then n.lnk else Lnk.unspec).truthy
      then [tk .lnk (if o.lnk && n.lnk.truthy then n.lnk else Lnk.unspec).str] else []) = _
  cases h : (o.lnk && n.lnk.truthy)
  · simp [Lnk.truthy]
  · simp only [if_true, h]

theorem typeOrU_unspecific (n : Node) (h : n.type = some unspecific) : n.typeOrU = unspecific := by
  unfold Node.typeOrU
  rw [h]
  cases unspecific <;> simp

theorem viewNode_block (o : Opts) (n : Node) :
    (viewNode o n).showBlock o = n.showBlock o ∧
      (n.showBlock o = true →
        (viewNode o n).typeOrU = n.typeOrU ∧ (viewNode o n).props.isEmpty = n.props.isEmpty ∧
          sortProps (viewNode o n).props = sortProps n.props) := by
  obtain ⟨id, pred, type, edges, props, carg, lnk⟩ := n
  obtain ⟨pr, lk, ss, ind⟩ := o
  cases pr
  · simp [Node.showBlock]
  · simp only [viewNode, Node.showBlock, if_true, Bool.true_and, sortProps_isEmpty, sortProps_idem,
      and_true]
    cases type with
    | none =>
      cases props with
      | nil => simp [typeView, truthyStr]
      | cons p ps =>
        simp only [typeView, truthyStr, List.isEmpty_cons, Bool.not_false, Bool.true_or,
          Bool.or_false, true_and, forall_const]
        exact typeOrU_unspecific _ rfl
    | some t =>
      cases t with
      | nil => simp [typeView, truthyStr, Node.typeOrU]
      | cons c cs => simp [typeView, truthyStr, Node.typeOrU]

theorem nodeText_viewNode (o : Opts) (n : Node) : nodeText o (viewNode o n) = nodeText o n := by
  obtain ⟨hs, hb⟩ := viewNode_block o n
  simp only [nodeText, viewNode_id, viewNode_pred, viewNode_carg, viewNode_edges, sortEdges_idem,
    viewNode_lnkText, hs]
  cases hb' : n.showBlock o
  · rfl
  · obtain ⟨h1, h2, h3⟩ := hb hb'
    simp only [if_true, h1, h2, h3]

theorem nodeToks_viewNode (o : Opts) (n : Node) : nodeToks o (viewNode o n) = nodeToks o n := by
  obtain ⟨hs, hb⟩ := viewNode_block o n
  simp only [nodeToks, viewNode_id, viewNode_pred, viewNode_carg, viewNode_edges, sortEdges_idem,
    viewNode_lnkToks, hs]
  cases hb' : n.showBlock o
  · rfl
  · obtain ⟨h1, h2, h3⟩ := hb hb'
    simp only [if_true, h1, h3]


theorem viewE_fragmented (o : Opts) (e : EDS) : (viewE o e).fragmented = e.fragmented := by
  unfold EDS.fragmented
  rw [viewE_ids]
  congr 1
  rw [Bool.eq_iff_iff]
  simp only [Bool.and_eq_true, List.all_eq_true, decide_eq_true_eq, reach_viewE]

theorem viewE_membership (o : Opts) (e : EDS) (n : Node) :
    (viewE o e).membership o (viewNode o n) = e.membership o n := by
  unfold EDS.membership
  simp only [viewNode_id, reach_viewE]

theorem viewE_statusToks (o : Opts) (e : EDS) (n : Node) :
    (viewE o e).statusToks o (viewNode o n) = e.statusToks o n := by
  unfold EDS.statusToks
  simp only [viewNode_id, reach_viewE]

theorem viewE_topParts (o : Opts) (e : EDS) : (viewE o e).topParts o = e.topParts o := by
  unfold EDS.topParts
  rw [viewE_fragmented]
  rfl

theorem viewE_topToks (o : Opts) (e : EDS) : (viewE o e).topToks o = e.topToks o := by
  unfold EDS.topToks
  rw [viewE_fragmented]
  rfl

theorem viewE_bodyToks (o : Opts) (e : EDS) : (viewE o e).bodyToks o = e.bodyToks o := by
  unfold EDS.bodyToks
  show (e.nodes.map (viewNode o)).flatMap _ = _
  rw [List.flatMap_map]
  congr 1
  funext n
  rw [viewE_statusToks, nodeToks_viewNode]

theorem viewE_nodes_isEmpty (o : Opts) (e : EDS) : (viewE o e).nodes.isEmpty = e.nodes.isEmpty := by
  show (e.nodes.map (viewNode o)).isEmpty = _
  rw [List.isEmpty_map]

set_option linter.unusedVariables false in
/-- [core] "re-encoding the decoded graph in the native format reproduces the text": the view is a
fixed point of the encoder, as text and as tokens, for every option vector (the hypothesis `hx`
is not needed: the equalities hold for every graph) -/
theorem textE_viewE (o : Opts) (e : EDS) (hx : Expressible e) : textE o (viewE o e) = textE o e := by
  have hstart : (viewE o e).startText o = e.startText o := rfl
  have hmap : (viewE o e).nodes.map (fun n => (viewE o e).membership o n ++ nodeText o n)
      = e.nodes.map (fun n => e.membership o n ++ nodeText o n) := by
    show (e.nodes.map (viewNode o)).map _ = _
    rw [List.map_map]
    apply List.map_congr_left
    intro n _
    show (viewE o e).membership o (viewNode o n) ++ nodeText o (viewNode o n) = _
    rw [viewE_membership, nodeText_viewNode]
  simp only [textE, viewE_nodes_isEmpty, hstart, viewE_topParts, hmap]

set_option linter.unusedVariables false in
theorem toksE_viewE (o : Opts) (e : EDS) (hx : Expressible e) : toksE o (viewE o e) = toksE o e := by
  have hid : (viewE o e).identToks = e.identToks := rfl
  simp only [toksE, viewE_nodes_isEmpty, hid, viewE_topToks, viewE_bodyToks]

end Verif.C03

