/-
C03 — EDS-JSON round trip (`to_dict` / `from_dict`) and the stable insertion sort it relies on.
Core Lean only.
-/
import Verif.C03.Model

namespace Verif.C03
open Verif.Codec

/-! ### `insertSorted` / `sortStable` -/

theorem insertSorted_perm {α} (lt : α → α → Bool) (x : α) (ys : List α) :
    (insertSorted lt x ys).Perm (x :: ys) := by
  induction ys with
  | nil => exact List.Perm.refl _
  | cons y ys ih =>
    simp only [insertSorted]
    split
    · exact ((List.Perm.cons y ih).trans (List.Perm.swap x y ys))
    · exact List.Perm.refl _

theorem mem_insertSorted {α} (lt : α → α → Bool) (x z : α) (ys : List α) :
    z ∈ insertSorted lt x ys ↔ z = x ∨ z ∈ ys := by
  rw [(insertSorted_perm lt x ys).mem_iff, List.mem_cons]

theorem insertSorted_length {α} (lt : α → α → Bool) (x : α) (ys : List α) :
    (insertSorted lt x ys).length = ys.length + 1 := by
  rw [(insertSorted_perm lt x ys).length_eq, List.length_cons]

theorem sortStable_nil {α} (lt : α → α → Bool) : sortStable lt ([] : List α) = [] := rfl

theorem sortStable_cons {α} (lt : α → α → Bool) (x : α) (xs : List α) :
    sortStable lt (x :: xs) = insertSorted lt x (sortStable lt xs) := rfl

/-- insertion sort returns a permutation of its input -/
theorem sortStable_perm {α} (lt : α → α → Bool) (xs : List α) : (sortStable lt xs).Perm xs := by
  induction xs with
  | nil => exact List.Perm.refl _
  | cons x xs ih =>
    rw [sortStable_cons]
    exact (insertSorted_perm lt x _).trans (List.Perm.cons x ih)

theorem sortStable_length {α} (lt : α → α → Bool) (xs : List α) :
    (sortStable lt xs).length = xs.length :=
  (sortStable_perm lt xs).length_eq

theorem mem_sortStable {α} (lt : α → α → Bool) (z : α) (xs : List α) :
    z ∈ sortStable lt xs ↔ z ∈ xs :=
  (sortStable_perm lt xs).mem_iff

theorem insertSorted_sorted {α} (lt : α → α → Bool)
    (htrans : ∀ a b c, lt b a = false → lt c b = false → lt c a = false)
    (htotal : ∀ a b, lt a b = true → lt b a = false)
    (x : α) (ys : List α) (h : ys.Pairwise (fun a b => lt b a = false)) :
    (insertSorted lt x ys).Pairwise (fun a b => lt b a = false) := by
  induction ys with
  | nil => simp [insertSorted]
  | cons y ys ih =>
    rw [List.pairwise_cons] at h
    simp only [insertSorted]
    split
    · rename_i hyx
      rw [List.pairwise_cons]
      refine ⟨?_, ih h.2⟩
      intro z hz
      rw [mem_insertSorted] at hz
      cases hz with
      | inl hzx => subst hzx; exact htotal _ _ hyx
      | inr hzy => exact h.1 z hzy
    · rename_i hyx
      have hyx' : lt y x = false := by simpa using hyx
      rw [List.pairwise_cons]
      refine ⟨?_, List.pairwise_cons.mpr h⟩
      intro z hz
      rw [List.mem_cons] at hz
      cases hz with
      | inl hzy => subst hzy; exact hyx'
      | inr hzy => exact htrans x y z hyx' (h.1 z hzy)

/-- the result is ordered whenever "not less" is total-and-transitive in the following sense -/
theorem sortStable_sorted {α} (lt : α → α → Bool)
    (htrans : ∀ a b c, lt b a = false → lt c b = false → lt c a = false)
    (htotal : ∀ a b, lt a b = true → lt b a = false)
    (xs : List α) : (sortStable lt xs).Pairwise (fun a b => lt b a = false) := by
  induction xs with
  | nil => exact List.Pairwise.nil
  | cons x xs ih =>
    rw [sortStable_cons]
    exact insertSorted_sorted lt htrans htotal x _ ih

/-- an already ordered list is left alone (stability / idempotence) -/
theorem sortStable_of_sorted {α} (lt : α → α → Bool) (xs : List α)
    (h : xs.Pairwise (fun a b => lt b a = false)) : sortStable lt xs = xs := by
  induction xs with
  | nil => rfl
  | cons x xs ih =>
    rw [List.pairwise_cons] at h
    rw [sortStable_cons, ih h.2]
    cases xs with
    | nil => rfl
    | cons y ys =>
      have : lt y x = false := h.1 y (List.mem_cons_self ..)
      simp [insertSorted, this]

/-! ### `spanLt` -/

theorem spanLt_eq_false_iff (a b : Node) :
    spanLt a b = false ↔
      ¬ a.lnk.cfrom < b.lnk.cfrom ∧ (a.lnk.cfrom = b.lnk.cfrom → ¬ -a.lnk.cto < -b.lnk.cto) := by
  simp only [spanLt, Bool.or_eq_false_iff, Bool.and_eq_false_iff, decide_eq_false_iff_not,
    beq_eq_false_iff_ne, ne_eq]
  constructor
  · rintro ⟨h1, h2⟩
    refine ⟨h1, fun he => ?_⟩
    cases h2 with
    | inl h => exact absurd he h
    | inr h => exact h
  · rintro ⟨h1, h2⟩
    refine ⟨h1, ?_⟩
    by_cases he : a.lnk.cfrom = b.lnk.cfrom
    · exact Or.inr (h2 he)
    · exact Or.inl he

theorem spanLt_eq_true_iff (a b : Node) :
    spanLt a b = true ↔
      a.lnk.cfrom < b.lnk.cfrom ∨ (a.lnk.cfrom = b.lnk.cfrom ∧ -a.lnk.cto < -b.lnk.cto) := by
  simp only [spanLt, Bool.or_eq_true, Bool.and_eq_true, decide_eq_true_eq, beq_iff_eq]

theorem spanLt_trans (a b c : Node) :
    spanLt b a = false → spanLt c b = false → spanLt c a = false := by
  simp only [spanLt_eq_false_iff]
  intro h1 h2
  refine ⟨by omega, fun he => ?_⟩
  have e1 : b.lnk.cfrom = a.lnk.cfrom := by omega
  have e2 : c.lnk.cfrom = b.lnk.cfrom := by omega
  have := h1.2 e1
  have := h2.2 e2
  omega

theorem spanLt_asymm (a b : Node) : spanLt a b = true → spanLt b a = false := by
  rw [spanLt_eq_true_iff, spanLt_eq_false_iff]
  intro h
  refine ⟨by omega, fun he => ?_⟩
  omega

/-! ### `dset` on a fresh key, `to_dict` -/

theorem dset_fresh {κ ν : Type} [DecidableEq κ] (k : κ) (v : ν) (d : List (κ × ν))
    (h : k ∉ d.map (·.1)) : Verif.Sem.dset k v d = d ++ [(k, v)] := by
  induction d with
  | nil => rfl
  | cons p d ih =>
    obtain ⟨k', v'⟩ := p
    simp only [List.map_cons, List.mem_cons, not_or] at h
    have hne : ¬ k' = k := fun e => h.1 e.symm
    simp only [Verif.Sem.dset, hne, if_false, List.cons_append, ih h.2]

/-- folding `dset` over entries with pairwise distinct keys that are not in the accumulator
appends them in order -/
theorem foldl_dset_fresh {κ ν β : Type} [DecidableEq κ] (key : β → κ) (val : β → ν)
    (ns : List β) (acc : List (κ × ν))
    (hnd : (ns.map key).Nodup) (hdis : ∀ n ∈ ns, key n ∉ acc.map (·.1)) :
    ns.foldl (fun d n => Verif.Sem.dset (key n) (val n) d) acc
      = acc ++ ns.map (fun n => (key n, val n)) := by
  induction ns generalizing acc with
  | nil => simp
  | cons n ns ih =>
    rw [List.map_cons, List.nodup_cons] at hnd
    rw [List.foldl_cons, dset_fresh _ _ _ (hdis n (List.mem_cons_self ..))]
    rw [ih _ hnd.2]
    · simp
    · intro m hm
      simp only [List.map_append, List.map_cons, List.map_nil, List.mem_append, List.mem_singleton,
        not_or]
      refine ⟨hdis m (List.mem_cons_of_mem _ hm), ?_⟩
      intro e
      exact hnd.1 (e ▸ List.mem_map_of_mem hm)

/-- `to_dict` keyed by distinct ids is just the list of nodes in order -/
theorem toDict_nodes (p l : Bool) (e : EDS) (h : e.ids.Nodup) :
    (toDict p l e).nodes = e.nodes.map (fun n => (n.id, toJNode p l n)) := by
  have := foldl_dset_fresh (fun n : Node => n.id) (toJNode p l) e.nodes [] h (by simp)
  simpa [toDict] using this

theorem toDict_top (p l : Bool) (e : EDS) : (toDict p l e).top = e.top := rfl

theorem ofJNode_toJNode (p l : Bool) (n : Node) :
    ofJNode n.id (toJNode p l n) = viewJNode p l n := by
  obtain ⟨id, pred, type, edges, props, carg, lnk⟩ := n
  cases p <;> cases l <;> cases props <;> simp [ofJNode, toJNode, viewJNode]

/-- [core] "decoding its … JSON encoding yields the same top, node identifiers, predicates, types,
properties, constants, alignments and role-labelled edges (JSON up to node order)" -/
theorem fromDict_toDict (p l : Bool) (e : EDS) (h : e.ids.Nodup) :
    fromDict (toDict p l e)
      = { top := e.top, nodes := sortStable spanLt (e.nodes.map (viewJNode p l)),
          identifier := none } := by
  simp only [fromDict, toDict_nodes p l e h, toDict_top, List.map_map]
  congr 2
  apply List.map_congr_left
  intro n _
  exact ofJNode_toJNode p l n

theorem fromDict_toDict_perm (p l : Bool) (e : EDS) (h : e.ids.Nodup) :
    (fromDict (toDict p l e)).top = e.top
    ∧ (fromDict (toDict p l e)).nodes.Perm (e.nodes.map (viewJNode p l))
    ∧ (fromDict (toDict p l e)).nodes.Pairwise (fun a b => spanLt b a = false) := by
  rw [fromDict_toDict p l e h]
  exact ⟨rfl, sortStable_perm _ _, sortStable_sorted spanLt spanLt_trans spanLt_asymm _⟩

end Verif.C03
