/-
C03 — character-level model of `_EDSLexer` (delphin/codecs/eds.py; delphin/util.py Lexer.prelex): the thirteen
token classes pinned in `c03LexerTokens`, tried in the source's order at every position of every line;
`finditer` skips what no class matches (only the blank: every other character is caught by a class, at the
latest by UNEXPECTED, which is an error).

  IDENTIFIER  \#([^\s\{]+)\s*(?=\{|$)            `mIdent`   (group 1 is the token text)
  LBRACE \{   RBRACE \}   NODESTATUS \|   COLON :   COMMA ,   LBRACKET \[   RBRACKET \]
  GRAPHSTATUS \((?:cyclic *)?(?:fragmented)?\)   `mGStatus` (whole match is the token text)
  LNK         <(?:-?\d+[:#]-?\d+|@\d+|\d+(?: +\d+)*)>   `LnkLex.mLnk` (shared with SimpleMRS)
  CARG        \("([^"\\]*(?:\\.[^"\\]*)*)"\)     `mCarg`    (`Codec.scanDQ`; group 1 is the token text)
  SYMBOL      [^ \n:,<\(\[\]\{\}]+               `symOk`
  UNEXPECTED  [^\s]

None of the patterns needs backtracking to be modelled: the character classes that follow one another are
disjoint, and a shorter match of a greedy part never makes the continuation succeed (argued at each matcher).
`\d` is modelled for ASCII digits, `\s` is `isPySpace`, lines are split as `str.splitlines()` does.
-/
import Verif.C03.Model
import Verif.Common.LnkLex

namespace Verif.C03.Lex
open Verif.Codec Verif.LnkLex Verif.C03

/-- the SYMBOL class `[^ \n:,<\(\[\]\{\}]` -/
def symOk (c : Char) : Bool :=
  c ≠ ' ' && c ≠ '\n' && c ≠ ':' && c ≠ ',' && c ≠ '<' && c ≠ '(' && c ≠ '[' && c ≠ ']' && c ≠ '{' && c ≠ '}'

/-- `[^\s\{]` -/
def identOk (c : Char) : Bool := !isPySpace c && c ≠ '{'

/-- IDENTIFIER after the `#`: the longest run of `[^\s\{]`, then all white space, then `{` or the end of the line.
(Giving back characters of the run or of the white space leaves a character that is neither `{` nor the end.) -/
def mIdent (r : Str) : Option (Str × Str) :=
  let run := r.takeWhile identOk
  if run.isEmpty then none else
  let rest := (r.dropWhile identOk).dropWhile isPySpace
  match rest with
  | [] => some (run, [])
  | '{' :: _ => some (run, rest)
  | _ => none

def stripPrefix (p s : Str) : Option Str := if s.take p.length = p then some (s.drop p.length) else none

/-- GRAPHSTATUS after the `(`; returns the whole token text.  (Without the optional `cyclic *` the next character
would have to be `f` or `)`, without `fragmented` it would have to be `)`: no second way to match.) -/
def mGStatus (r : Str) : Option (Str × Str) :=
  let (c, r1) : Str × Str :=
    match stripPrefix "cyclic".toList r with
    | some r' => ("cyclic".toList ++ r'.takeWhile (· = ' '), r'.dropWhile (· = ' '))
    | none => ([], r)
  let (f, r2) : Str × Str :=
    match stripPrefix "fragmented".toList r1 with
    | some r' => ("fragmented".toList, r')
    | none => ([], r1)
  match r2 with
  | ')' :: r3 => some ('(' :: c ++ f ++ [')'], r3)
  | _ => none

/-- CARG after the `(`: `"`, the quoted body up to the first unescaped quote, then `)`. -/
def mCarg (r : Str) : Option (Str × Str) :=
  match r with
  | '"' :: r1 =>
    match scanDQ r1 with
    | some (g, ')' :: r2) => some (g, r2)
    | _ => none
  | _ => none

inductive Step where
  | tok (t : Token) (rest : Str)
  | skip (rest : Str)
  | unexpected
deriving Repr

/-- one `finditer` step at the head `c` of a non-empty line remainder `c :: r`. -/
def step (c : Char) (r : Str) : Step :=
  match (if c = '#' then mIdent r else none) with
  | some (t, r') => .tok (tk .ident t) r'
  | none =>
  if c = '{' then .tok tLbrace r
  else if c = '}' then .tok tRbrace r
  else if c = '(' then
    match mGStatus r with
    | some (t, r') => .tok (tk .gstatus t) r'
    | none =>
      match mCarg r with
      | some (t, r') => .tok (tk .carg t) r'
      | none => .unexpected
  else if c = '|' then .tok tNstatus r
  else if c = '<' then
    match mLnk r with
    | some (t, r') => .tok (tk .lnk t) r'
    | none => .unexpected
  else if c = ':' then .tok tColon r
  else if c = ',' then .tok tComma r
  else if c = '[' then .tok tLbracket r
  else if c = ']' then .tok tRbracket r
  else if symOk c then .tok (tSym ((c :: r).takeWhile symOk)) ((c :: r).dropWhile symOk)
  else .skip r      -- the blank (a line feed cannot occur inside a line)

/-- all tokens of one line (`none`: UNEXPECTED, i.e. EDSSyntaxError). -/
def lexLine : Nat → Str → Option (List Token)
  | 0, _ => some []
  | _ + 1, [] => some []
  | fuel + 1, c :: r =>
    match step c r with
    | .tok t rest => (lexLine fuel rest).map (t :: ·)
    | .skip rest => lexLine fuel rest
    | .unexpected => none

/-- `_EDSLexer.prelex(text.splitlines())`. -/
def lex (s : Str) : Option (List Token) :=
  (splitLines s).foldr (fun l acc => match lexLine (l.length + 1) l, acc with
    | some a, some b => some (a ++ b)
    | _, _ => none) (some [])

/-- `decode(s)` from the text: the lexer error is EDSSyntaxError. -/
def decodeText (s : Str) : Except Err EDS :=
  match lex s with
  | none => .error .syntax
  | some ts => decodeOne ts

/-- `loads(s)` from the text. -/
def loadsText (s : Str) : Except Err (List EDS) :=
  match lex s with
  | none => .error .syntax
  | some ts => loadsToks ts

end Verif.C03.Lex
