/-
C03 — lemmas for the native token round trip: the decoder of `Model.lean` run on the token view
of the encoder's output.
-/
import Verif.C03.Model
import Verif.C03.JsonLemmas
import Verif.Common.CodecLemmas
import Verif.Common.SemLemmas

namespace Verif.C03
open Verif.Codec

/-! ### lexer operations on a known head -/

theorem acceptK_hit (k : K) (s : Str) (ts : List Token) : acceptK k (⟨k, s⟩ :: ts) = .ok (some s, ts) := by
  simp [acceptK]

theorem acceptK_miss (k : K) (t : Token) (ts : List Token) (h : t.kind ≠ k) :
    acceptK k (t :: ts) = .ok (none, t :: ts) := by
  simp [acceptK, h]

theorem expectK_hit (k : K) (s : Str) (ts : List Token) : expectK k (⟨k, s⟩ :: ts) = .ok (s, ts) := by
  simp [expectK]

/-! ### `k v, k v, …` -/

theorem pairToks_cons_cons (p q : Str × Str) (ps : Dict) :
    pairToks (p :: q :: ps) = tSym p.1 :: tSym p.2 :: tComma :: pairToks (q :: ps) := rfl

theorem pairsLoop_pairToks (d : Dict) (hne : d ≠ []) (t : Token) (r : List Token) (ht : t.kind ≠ .comma) :
    ∀ fuel, d.length ≤ fuel → pairsLoop fuel (pairToks d ++ t :: r) = .ok (d, t :: r) := by
  induction d with
  | nil => exact absurd rfl hne
  | cons p ps ih =>
    intro fuel hf
    cases fuel with
    | zero => simp at hf
    | succ fuel =>
      cases ps with
      | nil =>
        simp only [pairToks, List.cons_append, List.nil_append, pairsLoop, tSym, expectK_hit, bind, Except.bind,
          acceptK_miss .comma t r ht, pure, Except.pure]
      | cons q qs =>
        have h := ih (by simp) fuel (by simpa using hf)
        rw [pairToks_cons_cons]
        simp only [List.cons_append, pairsLoop, tSym, tComma, expectK_hit, acceptK_hit, bind, Except.bind]
        rw [h]
        rfl

theorem pairToks_length (d : Dict) : d.length ≤ (pairToks d).length := by
  induction d with
  | nil => simp [pairToks]
  | cons p ps ih =>
    cases ps with
    | nil => simp [pairToks]
    | cons q qs =>
      rw [pairToks_cons_cons]
      simp only [List.length_cons] at ih ⊢
      omega

theorem pairToks_head_sym (p : Str × Str) (ps : Dict) :
    ∃ r, pairToks (p :: ps) = tSym p.1 :: r := by
  cases ps with
  | nil => exact ⟨_, rfl⟩
  | cons q qs => exact ⟨_, rfl⟩

/-! ### property block and edge list -/

theorem decodeEdges_toks (d : Dict) (rest : List Token) :
    decodeEdges (tLbracket :: (pairToks d ++ tRbracket :: rest)) = .ok (mkEdges d, rest) := by
  cases d with
  | nil =>
    simp [decodeEdges, pairToks, tLbracket, tRbracket, expectK, peekAt, bind, Except.bind, mkEdges, pure, Except.pure]
  | cons p ps =>
    obtain ⟨r, hr⟩ := pairToks_head_sym p ps
    have hloop := pairsLoop_pairToks (p :: ps) (by simp) tRbracket rest (by simp [tRbracket])
      ((pairToks (p :: ps) ++ tRbracket :: rest).length + 1)
      (by have := pairToks_length (p :: ps); simp only [List.length_append] ; omega)
    simp only [decodeEdges, tLbracket, expectK_hit, bind, Except.bind]
    rw [hr] at hloop ⊢
    simp only [List.cons_append, peekAt, tSym, List.getElem?_cons_zero] at hloop ⊢
    simp only [ne_eq, reduceCtorEq, not_false_eq_true, if_true]
    rw [hloop]
    simp [tRbracket, expectK, pure, Except.pure]

theorem decodeProps_block (ty : Str) (d : Dict) (rest : List Token) :
    decodeProps (tLbrace :: tSym ty :: (pairToks d ++ tRbrace :: rest)) = .ok ((some ty, mkProps d), rest) := by
  cases d with
  | nil =>
    simp [decodeProps, pairToks, tLbrace, tRbrace, tSym, acceptK, expectK, peekAt, bind, Except.bind, mkProps, pure,
      Except.pure]
  | cons p ps =>
    obtain ⟨r, hr⟩ := pairToks_head_sym p ps
    have hloop := pairsLoop_pairToks (p :: ps) (by simp) tRbrace rest (by simp [tRbrace])
      ((pairToks (p :: ps) ++ tRbrace :: rest).length + 1)
      (by have := pairToks_length (p :: ps); simp only [List.length_append] ; omega)
    simp only [decodeProps, tLbrace, tSym, acceptK_hit, expectK_hit, bind, Except.bind]
    rw [hr] at hloop ⊢
    simp only [List.cons_append, peekAt, tSym, List.getElem?_cons_zero] at hloop ⊢
    simp only [ne_eq, reduceCtorEq, not_false_eq_true, if_true]
    rw [hloop]
    simp [tRbrace, expectK, pure, Except.pure]

theorem decodeProps_none (ts : List Token) :
    decodeProps (tLbracket :: ts) = .ok ((none, []), tLbracket :: ts) := by
  simp [decodeProps, tLbracket, acceptK, bind, Except.bind, pure, Except.pure]

/-! ### one node -/

/-- the optional tokens of a node, in order -/
def lnkToks (o : Opts) (n : Node) : List Token := if o.lnk && n.lnk.truthy then [tk .lnk n.lnk.str] else []
def cargToks (n : Node) : List Token := match n.carg with | some c => [tk .carg (escapeDQ c)] | none => []
def blockToks (o : Opts) (n : Node) : List Token :=
  if n.showBlock o then tLbrace :: tSym n.typeOrU :: pairToks (sortProps n.props) ++ [tRbrace] else []
def edgeToks (n : Node) : List Token := tLbracket :: pairToks (sortEdges n.edges) ++ [tRbracket]

theorem nodeToks_eq (o : Opts) (n : Node) :
    nodeToks o n = tSym n.id :: tColon :: tSym n.pred :: (lnkToks o n ++ (cargToks n ++ (blockToks o n ++ edgeToks n))) := by
  cases hc : n.carg <;> simp [nodeToks, lnkToks, cargToks, blockToks, edgeToks, hc]

/-- the first token after the predicate (and after each optional part) is never of an earlier optional class -/
theorem tail_shape (o : Opts) (n : Node) (rest : List Token) :
    ∃ t r, blockToks o n ++ edgeToks n ++ rest = t :: r ∧ t.kind ≠ .lnk ∧ t.kind ≠ .carg ∧ t.kind ≠ .colon := by
  unfold blockToks edgeToks
  by_cases h : n.showBlock o
  · exact ⟨tLbrace, _, by simp only [h, if_true, List.cons_append]; rfl, by simp [tLbrace], by simp [tLbrace],
      by simp [tLbrace]⟩
  · exact ⟨tLbracket, _, by simp only [h, Bool.false_eq_true, if_false, List.nil_append, List.cons_append]; rfl,
      by simp [tLbracket], by simp [tLbracket], by simp [tLbracket]⟩

theorem decodeProps_blockToks (o : Opts) (n : Node) (rest : List Token) :
    decodeProps (blockToks o n ++ (edgeToks n ++ rest))
      = .ok ((if n.showBlock o then some n.typeOrU else none,
              if n.showBlock o then mkProps (sortProps n.props) else []), edgeToks n ++ rest) := by
  unfold blockToks
  by_cases h : n.showBlock o
  · simp only [h, if_true, List.cons_append, List.append_assoc, List.nil_append]
    rw [decodeProps_block]
  · simp only [h, Bool.false_eq_true, if_false, List.nil_append]
    unfold edgeToks
    simp only [List.cons_append]
    rw [decodeProps_none]

theorem decodeEdges_edgeToks (n : Node) (rest : List Token) :
    decodeEdges (edgeToks n ++ rest) = .ok (mkEdges (sortEdges n.edges), rest) := by
  unfold edgeToks
  simp only [List.cons_append, List.append_assoc, List.nil_append]
  rw [decodeEdges_toks]

theorem decodeNode_toks (o : Opts) (n : Node) (rest : List Token) :
    decodeNode n.id (tSym n.pred :: (lnkToks o n ++ (cargToks n ++ (blockToks o n ++ edgeToks n))) ++ rest)
      = .ok (normNode o n, rest) := by
  obtain ⟨t, r, htr, h1, h2, _⟩ := tail_shape o n rest
  have hassoc : blockToks o n ++ (edgeToks n ++ rest) = t :: r := by rw [← List.append_assoc]; exact htr
  simp only [decodeNode, tSym, List.cons_append, expectK_hit, bind, Except.bind, List.append_assoc]
  unfold lnkToks cargToks
  by_cases hl : (o.lnk && n.lnk.truthy) = true
  · simp only [hl, if_true, List.cons_append, List.nil_append, tk, acceptK_hit, Option.getD_some, lnk_roundtrip, liftLnk]
    cases hc : n.carg with
    | none =>
      simp only [List.nil_append]
      rw [hassoc, acceptK_miss .carg t r h2, ← hassoc]
      simp only [decodeProps_blockToks, decodeEdges_edgeToks]
      simp [pure, Except.pure, normNode, hl, hc]
    | some c =>
      simp only [List.cons_append, List.nil_append, acceptK_hit]
      simp only [decodeProps_blockToks, decodeEdges_edgeToks]
      simp [pure, Except.pure, normNode, hl, hc, unescapeDQ_escapeDQ]
  · simp only [hl, Bool.false_eq_true, if_false, List.nil_append]
    cases hc : n.carg with
    | none =>
      simp only [List.nil_append]
      rw [hassoc, acceptK_miss .lnk t r h1]
      simp only [Option.getD_none, Lnk.parse, liftLnk]
      rw [acceptK_miss .carg t r h2, ← hassoc]
      simp only [decodeProps_blockToks, decodeEdges_edgeToks]
      simp [pure, Except.pure, normNode, hl, hc]
    | some c =>
      simp only [List.cons_append, List.nil_append, tk]
      rw [acceptK_miss .lnk _ _ (by simp)]
      simp only [Option.getD_none, Lnk.parse, liftLnk, acceptK_hit]
      simp only [decodeProps_blockToks, decodeEdges_edgeToks]
      simp [pure, Except.pure, normNode, hl, hc, unescapeDQ_escapeDQ]

/-! ### the node loop -/

/-- a status prefix is empty or the single `|` token -/
def IsStatus (st : List Token) : Prop := st = [] ∨ st = [tNstatus]

theorem statusToks_isStatus (o : Opts) (e : EDS) (n : Node) : IsStatus (e.statusToks o n) := by
  unfold EDS.statusToks IsStatus
  by_cases h1 : n.id ∈ e.reach
  · simp [h1]
  · by_cases h2 : o.showStatus = true <;> simp [h1, h2]

theorem decodeNodes_toks (o : Opts) (st : Node → List Token) (hst : ∀ n, IsStatus (st n)) (rest : List Token) :
    ∀ (ns : List Node) (fuel : Nat), ns.length < fuel →
      decodeNodes fuel (ns.flatMap (fun n => st n ++ nodeToks o n) ++ tRbrace :: rest)
        = .ok (ns.map (normNode o), tRbrace :: rest) := by
  intro ns
  induction ns with
  | nil =>
    intro fuel hf
    cases fuel with
    | zero => simp at hf
    | succ fuel => simp [decodeNodes, peekAt, tRbrace, bind, Except.bind, pure, Except.pure]
  | cons n ns ih =>
    intro fuel hf
    cases fuel with
    | zero => simp at hf
    | succ fuel =>
      have ih' := ih fuel (by simpa using hf)
      have hnode := decodeNode_toks o n
        (ns.flatMap (fun n => st n ++ nodeToks o n) ++ tRbrace :: rest)
      simp only [List.flatMap_cons, List.append_assoc]
      generalize ns.flatMap (fun n => st n ++ nodeToks o n) ++ tRbrace :: rest = tailT at ih' hnode ⊢
      simp only [tSym, List.cons_append, List.append_assoc] at hnode
      rw [nodeToks_eq]
      simp only [List.append_assoc, List.cons_append]
      rcases hst n with h | h
      · simp only [h, List.nil_append, decodeNodes, peekAt, tSym, tColon, List.getElem?_cons_zero, bind, Except.bind,
          reduceCtorEq, if_false]
        rw [acceptK_miss .nstatus _ _ (by simp)]
        simp only [expectK_hit]
        rw [hnode]
        simp only [ih']
        rfl
      · simp only [h, List.cons_append, List.nil_append, decodeNodes, peekAt, tNstatus, tSym, tColon,
          List.getElem?_cons_zero, bind, Except.bind, reduceCtorEq, if_false, acceptK_hit, expectK_hit]
        rw [hnode]
        simp only [ih']
        rfl

theorem flatMap_length_ge (o : Opts) (st : Node → List Token) (ns : List Node) :
    ns.length ≤ (ns.flatMap (fun n => st n ++ nodeToks o n)).length := by
  induction ns with
  | nil => simp
  | cons n ns ih =>
    have h : 1 ≤ (nodeToks o n).length := by rw [nodeToks_eq]; simp
    simp only [List.flatMap_cons, List.length_append, List.length_cons]
    omega

/-! ### top detection -/

/-- the first tokens of the body of a non-empty graph -/
theorem bodyToks_shape (o : Opts) (e : EDS) (n : Node) (ns : List Node) (hn : e.nodes = n :: ns) :
    ∃ t r', e.bodyToks o = e.statusToks o n ++ tSym n.id :: tColon :: tSym n.pred :: t :: r' ∧ t.kind ≠ .colon := by
  obtain ⟨t, r', htr, _, _, h3⟩ := tail_shape o n (ns.flatMap (fun n => e.statusToks o n ++ nodeToks o n))
  have hb : e.bodyToks o = e.statusToks o n ++ tSym n.id :: tColon :: tSym n.pred ::
      (lnkToks o n ++ (cargToks n ++ (blockToks o n ++ edgeToks n ++
        ns.flatMap (fun n => e.statusToks o n ++ nodeToks o n)))) := by
    unfold EDS.bodyToks
    rw [hn, List.flatMap_cons, nodeToks_eq]
    simp only [List.append_assoc, List.cons_append]
  rw [hb, htr]
  by_cases hl : (o.lnk && n.lnk.truthy) = true
  · exact ⟨tk .lnk n.lnk.str, cargToks n ++ t :: r', by simp [lnkToks, hl], by simp [tk]⟩
  · cases hc : n.carg with
    | some c => exact ⟨tk .carg (escapeDQ c), t :: r', by simp [lnkToks, hl, cargToks, hc], by simp [tk]⟩
    | none => exact ⟨t, r', by simp [lnkToks, hl, cargToks, hc], h3⟩

/-- without a top the search starts at the first node, so the first node is never marked -/
theorem first_not_marked (o : Opts) (e : EDS) (n : Node) (ns : List Node) (hn : e.nodes = n :: ns)
    (ht : e.top = none) : e.statusToks o n = [] := by
  have hs : e.start = n.id := by simp [EDS.start, ht, hn]
  have : n.id ∈ e.reach := by
    unfold EDS.reach
    rw [hs]
    exact (Verif.Sem.bfs_closed _ _).1
  simp [EDS.statusToks, this]

/-- [core] top detection is exact on encoder output: for every graph with at least one node and every
`(indent, show_status)` (indentation does not exist at the token level), the look-ahead returns the graph's top and
leaves the stream at the first node -/
theorem detectTop_toks (o : Opts) (e : EDS) (hne : e.nodes ≠ []) (rest : List Token) :
    detectTop (e.topToks o ++ (e.bodyToks o ++ tRbrace :: rest))
      = .ok (e.top, e.bodyToks o ++ tRbrace :: rest) := by
  cases hn : e.nodes with
  | nil => exact absurd hn hne
  | cons n ns =>
    obtain ⟨t, r', hb, ht⟩ := bodyToks_shape o e n ns hn
    have hst := statusToks_isStatus o e n
    rw [hb]
    unfold EDS.topToks
    cases htop : e.top with
    | some top =>
      by_cases hf : (o.showStatus && e.fragmented) = true
      · simp [hf, detectTop, peekAt, tSym, tColon, tFragmented, expectK, acceptK, bind, Except.bind, pure, Except.pure]
      · rcases hst with h | h
        · simp [hf, h, detectTop, peekAt, tSym, tColon, expectK, acceptK, bind, Except.bind, pure, Except.pure]
        · simp [hf, h, detectTop, peekAt, tSym, tColon, tNstatus, expectK, acceptK, bind, Except.bind, pure,
            Except.pure]
    | none =>
      by_cases hf : (o.showStatus && e.fragmented) = true
      · simp [hf, detectTop, peekAt, tFragmented, acceptK, bind, Except.bind, pure, Except.pure]
      · have h := first_not_marked o e n ns hn htop
        simp [hf, h, detectTop, peekAt, tSym, tColon, ht, bind, Except.bind, pure, Except.pure]

/-- the look-ahead on an empty graph -/
theorem detectTop_empty (rest : List Token) : detectTop (tRbrace :: rest) = .ok (none, tRbrace :: rest) := by
  simp [detectTop, peekAt, tRbrace, acceptK, bind, Except.bind, pure, Except.pure]

/-! ### one graph, a document -/

theorem identToks_cases (e : EDS) :
    (e.identToks = [] ∧ (if truthyStr e.identifier then e.identifier else none) = none)
    ∨ (∃ s, e.identToks = [tk .ident s] ∧ (if truthyStr e.identifier then e.identifier else none) = some s) := by
  unfold EDS.identToks
  cases hi : e.identifier with
  | none => simp [truthyStr]
  | some s =>
    cases s with
    | nil => simp [truthyStr]
    | cons c cs => simp [truthyStr]

theorem decodeEds_toksE (o : Opts) (e : EDS) (h : e.nodes = [] → e.top = none) (rest : List Token) :
    decodeEds (toksE o e ++ rest) = .ok (normE o e, rest) := by
  have hid : ∀ ts : List Token, acceptK .ident (e.identToks ++ tLbrace :: ts)
      = .ok (if truthyStr e.identifier then e.identifier else none, tLbrace :: ts) := by
    intro ts
    rcases identToks_cases e with ⟨h1, h2⟩ | ⟨s, h1, h2⟩
    · rw [h1, h2]; simp [acceptK, tLbrace]
    · rw [h1, h2]; simp [acceptK, tk]
  unfold toksE
  by_cases hne : e.nodes = []
  · have htop := h hne
    simp only [hne, List.isEmpty_nil, if_true, List.append_assoc, List.cons_append, List.nil_append]
    simp only [decodeEds, bind, Except.bind, hid]
    simp only [tLbrace, expectK_hit]
    rw [detectTop_empty]
    simp [decodeNodes, peekAt, tRbrace, expectK, bind, Except.bind, pure, Except.pure, normE, hne, htop]
  · have hemp : e.nodes.isEmpty = false := by
      cases hn : e.nodes with
      | nil => exact absurd hn hne
      | cons _ _ => rfl
    simp only [hemp, Bool.false_eq_true, if_false, List.append_assoc, List.cons_append, List.nil_append]
    simp only [decodeEds, bind, Except.bind, hid]
    simp only [tLbrace, expectK_hit]
    rw [detectTop_toks o e hne rest]
    simp only []
    have hloop := decodeNodes_toks o (e.statusToks o) (statusToks_isStatus o e) rest e.nodes
      ((e.bodyToks o ++ tRbrace :: rest).length + 1)
      (by have := flatMap_length_ge o (e.statusToks o) e.nodes
          simp only [EDS.bodyToks, List.length_append]; omega)
    unfold EDS.bodyToks at hloop ⊢
    rw [hloop]
    simp [tRbrace, expectK, pure, Except.pure, normE]

theorem toksE_ne_nil (o : Opts) (e : EDS) : ∃ t r, toksE o e = t :: r := by
  unfold toksE
  rcases identToks_cases e with ⟨h1, _⟩ | ⟨s, h1, _⟩ <;> by_cases hn : e.nodes.isEmpty = true <;>
    simp [h1, hn]

theorem decodeAll_docs (o : Opts) :
    ∀ (es : List EDS) (fuel : Nat), es.length < fuel → (∀ e ∈ es, e.nodes = [] → e.top = none) →
      decodeAll fuel (es.flatMap (toksE o)) = .ok (es.map (normE o)) := by
  intro es
  induction es with
  | nil =>
    intro fuel hf _
    cases fuel with
    | zero => simp at hf
    | succ fuel => simp [decodeAll]
  | cons e es ih =>
    intro fuel hf h
    cases fuel with
    | zero => simp at hf
    | succ fuel =>
      have h1 := decodeEds_toksE o e (h e (by simp)) (es.flatMap (toksE o))
      have h2 := ih fuel (by simpa using hf) (fun x hx => h x (by simp [hx]))
      obtain ⟨t, r, htr⟩ := toksE_ne_nil o e
      simp only [List.flatMap_cons]
      rw [htr] at h1 ⊢
      simp only [List.cons_append] at h1 ⊢
      simp only [decodeAll, h1, h2, bind, Except.bind, pure, Except.pure, List.map_cons]

theorem docs_length (o : Opts) (es : List EDS) : es.length ≤ (es.flatMap (toksE o)).length := by
  induction es with
  | nil => simp
  | cons e es ih =>
    obtain ⟨t, r, htr⟩ := toksE_ne_nil o e
    simp only [List.flatMap_cons, List.length_append, List.length_cons, htr]
    omega

/-! ### JSON: the decoded graph is a fixed point of the dictionary round trip -/

theorem viewJNode_idem (p l : Bool) (n : Node) : viewJNode p l (viewJNode p l n) = viewJNode p l n := by
  cases p <;> cases l <;> simp [viewJNode, Lnk.cfrom, Lnk.cto]

theorem fromDict_toDict_fixed (p l : Bool) (e : EDS) (h : e.ids.Nodup) :
    fromDict (toDict p l (fromDict (toDict p l e))) = fromDict (toDict p l e) := by
  have h1 := fromDict_toDict p l e h
  have hperm : (sortStable spanLt (e.nodes.map (viewJNode p l))).Perm (e.nodes.map (viewJNode p l)) :=
    sortStable_perm _ _
  have hids : (fromDict (toDict p l e)).ids.Nodup := by
    rw [h1]
    simp only [EDS.ids]
    have hp := hperm.map (fun n : Node => n.id)
    rw [hp.nodup_iff]
    have : (e.nodes.map (viewJNode p l)).map (fun n => n.id) = e.ids := by
      simp only [EDS.ids, List.map_map]
      apply List.map_congr_left
      intro n _
      rfl
    rw [this]
    exact h
  rw [fromDict_toDict p l _ hids]
  rw [h1]
  simp only
  have hmap : (sortStable spanLt (e.nodes.map (viewJNode p l))).map (viewJNode p l)
      = sortStable spanLt (e.nodes.map (viewJNode p l)) := by
    conv => rhs; rw [← List.map_id (sortStable spanLt (e.nodes.map (viewJNode p l)))]
    apply List.map_congr_left
    intro m hm
    rw [mem_sortStable] at hm
    obtain ⟨n, _, rfl⟩ := List.mem_map.1 hm
    simp [viewJNode_idem]
  rw [hmap]
  rw [sortStable_of_sorted spanLt _ (sortStable_sorted spanLt spanLt_trans spanLt_asymm _)]

end Verif.C03
