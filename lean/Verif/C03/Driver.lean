/- C03 line-protocol driver: `lake env lean --run Verif/C03/Driver.lean` -/
import Verif.Common.Proto
import Verif.C03.Model
import Verif.C03.LexSpec
import Verif.C03.Api
open Lean Verif.Proto Verif.C03 Verif.Codec

namespace Verif.C03.Driver

def errTag : Err → String
  | .syntax => "EDSSyntaxError"
  | .stop => "StopIteration"
  | .index => "IndexError"
  | .keyError => "KeyError"
  | .lnkError => "LnkError"
  | .valueError => "ValueError"
  | .fuel => "fuel"

def kName : K → String
  | .ident => "IDENTIFIER" | .lbrace => "LBRACE" | .rbrace => "RBRACE" | .gstatus => "GRAPHSTATUS"
  | .nstatus => "NODESTATUS" | .lnk => "LNK" | .carg => "CARG" | .colon => "COLON" | .comma => "COMMA"
  | .lbracket => "LBRACKET" | .rbracket => "RBRACKET" | .sym => "SYMBOL"

def ofKName (s : String) : Except String K :=
  match s with
  | "IDENTIFIER" => pure .ident | "LBRACE" => pure .lbrace | "RBRACE" => pure .rbrace
  | "GRAPHSTATUS" => pure .gstatus | "NODESTATUS" => pure .nstatus | "LNK" => pure .lnk
  | "CARG" => pure .carg | "COLON" => pure .colon | "COMMA" => pure .comma
  | "LBRACKET" => pure .lbracket | "RBRACKET" => pure .rbracket | "SYMBOL" => pure .sym
  | _ => throw s!"bad token kind {s}"

def jTok (t : Token) : Json := Json.arr #[Json.str (kName t.kind), cps t.text]

def ofTok (j : Json) : Except String Token := do
  let a ← j.getArr?
  match a.toList with
  | [k, t] => do pure ⟨← ofKName (← k.getStr?), ← ofCps t⟩
  | _ => throw "bad token"

def jLnk : Lnk → Json
  | .unspec => Json.null
  | .charspan a b => Json.mkObj [("k", "c"), ("d", jList jInt [a, b])]
  | .chartspan a b => Json.mkObj [("k", "v"), ("d", jList jInt [a, b])]
  | .tokens ts => Json.mkObj [("k", "t"), ("d", jList jInt ts)]
  | .edge n => Json.mkObj [("k", "e"), ("d", jList jInt [n])]

def ofLnk (j : Json) : Except String Lnk :=
  match j with
  | Json.null => pure .unspec
  | _ => do
    let k ← getStr j "k"
    let d ← (← getArr j "d").mapM (·.getInt?)
    match k, d with
    | "c", [a, b] => pure (.charspan a b)
    | "v", [a, b] => pure (.chartspan a b)
    | "t", ts => pure (.tokens ts)
    | "e", [n] => pure (.edge n)
    | _, _ => throw "bad lnk"

def jDict (d : Dict) : Json := jList (fun p => Json.arr #[cps p.1, cps p.2]) d

def ofDict (j : Json) : Except String Dict := do
  (← j.getArr?).toList.mapM (fun p => do
    let a ← p.getArr?
    match a.toList with
    | [k, v] => do pure (← ofCps k, ← ofCps v)
    | _ => throw "bad pair")

def jNode (n : Node) : Json :=
  Json.mkObj [("id", cps n.id), ("pred", cps n.pred), ("type", optCps n.type), ("edges", jDict n.edges),
    ("props", jDict n.props), ("carg", optCps n.carg), ("lnk", jLnk n.lnk)]

def ofNode (j : Json) : Except String Node := do
  pure { id := ← getCps j "id", pred := ← getCps j "pred", type := ← getOptCps j "type",
         edges := ← ofDict (← j.getObjVal? "edges"), props := ← ofDict (← j.getObjVal? "props"),
         carg := ← getOptCps j "carg", lnk := ← ofLnk (← j.getObjVal? "lnk") }

def jEds (e : EDS) : Json :=
  Json.mkObj [("top", optCps e.top), ("nodes", jList jNode e.nodes), ("ident", optCps e.identifier)]

def ofEds (j : Json) : Except String EDS := do
  pure { top := ← getOptCps j "top", nodes := ← (← getArr j "nodes").mapM ofNode,
         identifier := ← getOptCps j "ident" }

def ofOpts (j : Json) : Except String Opts := do
  pure { properties := ← getBool j "properties", lnk := ← getBool j "lnk",
         showStatus := ← getBool j "show_status", indent := ← getBool j "indent" }

def jRes {α} (f : α → Json) : Except Err α → Json
  | .ok a => jOk (f a)
  | .error e => jErr (errTag e)

def jJNode (p : Str × JNode) : Json :=
  Json.mkObj [("id", cps p.1), ("label", cps p.2.label), ("edges", jDict p.2.edges),
    ("lnk", match p.2.lnk with | some (a, b) => jList jInt [a, b] | none => Json.null),
    ("type", optCps p.2.type),
    ("props", match p.2.props with | some d => jDict d | none => Json.null),
    ("carg", optCps p.2.carg)]

def jTriple (t : Triple) : Json := Json.arr #[cps t.1, cps t.2.1, cps t.2.2]

def ofTriple (j : Json) : Except String Triple := do
  match (← j.getArr?).toList with
  | [a, b, c] => do pure (← ofCps a, ← ofCps b, ← ofCps c)
  | _ => throw "bad triple"

def jPRec (p : Str × PRec) : Json :=
  Json.mkObj [("id", cps p.1), ("pred", optCps p.2.pred), ("type", optCps p.2.type), ("edges", jDict p.2.edges),
    ("props", jDict p.2.props), ("carg", optCps p.2.carg), ("lnk", jLnk p.2.lnk)]

def jPen (r : Option Str × List (Str × PRec)) : Json :=
  Json.mkObj [("top", optCps r.1), ("nodes", jList jPRec r.2)]

def handle (j : Json) : Except String Json := do
  let op ← getStr j "op"
  match op with
  | "native" => do
    -- encode, the token view of the text, decode of the tokens, re-encode of the decoded graph
    let e ← ofEds (← j.getObjVal? "eds")
    let o ← ofOpts (← j.getObjVal? "opts")
    match encode o e with
    | .error er => pure (jErr (errTag er))
    | .ok text =>
      let toks := toksE o e
      let dec := decodeOne toks
      let re : Json := match dec with
        | .ok d => jRes cps (encode o d)
        | .error er => jErr (errTag er)
      let ltoks : Json := match Verif.C03.Lex.lex text with
        | some ts => jList jTok ts
        | none => jErr "EDSSyntaxError"
      pure (Json.mkObj [("text", cps text), ("toks", jList jTok toks), ("dec", jRes jEds dec), ("re", re),
                        ("ltoks", ltoks), ("ldec", jRes jEds (Verif.C03.Lex.decodeText text)),
                        ("lexok", Json.bool (Verif.C03.Lex.lexOKb o e))])
  | "docs" => do
    let es ← (← getArr j "docs").mapM ofEds
    let o ← ofOpts (← j.getObjVal? "opts")
    if es.any (fun e => !e.nodes.isEmpty && !e.targetsOk) then pure (jErr "KeyError") else
    let toks := es.flatMap (toksE o)
    pure (Json.mkObj [("text", cps (dumpsText o es)), ("dec", jRes (jList jEds) (loadsToks toks)),
                      ("ldec", jRes (jList jEds) (Verif.C03.Lex.loadsText (dumpsText o es)))])
  | "parse" => do
    let toks ← (← getArr j "toks").mapM ofTok
    let api ← getStr j "api"
    if api = "decode" then pure (jRes jEds (decodeOne toks))
    else pure (jRes (jList jEds) (loadsToks toks))
  | "lextext" => do
    -- text level: the model's lexer, then the model's parser
    let text ← getCps j "text"
    let api ← getStr j "api"
    let ltoks : Json := match Verif.C03.Lex.lex text with
      | some ts => jList jTok ts
      | none => jErr "EDSSyntaxError"
    let dec : Json := if api = "decode" then jRes jEds (Verif.C03.Lex.decodeText text)
      else if api = "load" then jRes (jList jEds) (Verif.C03.Lex.loadFileText text)
      else if api = "loadpath" then jRes (jList jEds) (Verif.C03.Lex.loadPathText text)
      else jRes (jList jEds) (Verif.C03.Lex.loadsText text)
    pure (Json.mkObj [("toks", ltoks), ("dec", dec)])
  | "json" => do
    let e ← ofEds (← j.getObjVal? "eds")
    let p ← getBool j "properties"
    let l ← getBool j "lnk"
    let d := toDict p l e
    let i ← getBool j "indent"
    pure (Json.mkObj [("dict", Json.mkObj [("top", optCps d.top), ("nodes", jList jJNode d.nodes)]),
                      ("dec", jEds (fromDict d)),
                      ("native", jRes cps (nativeOfJson p l true i e))])
  | "penman" => do
    let e ← ofEds (← j.getObjVal? "eds")
    let p ← getBool j "properties"
    let l ← getBool j "lnk"
    if !e.targetsOk then pure (jErr "KeyError") else
    let ts := toTriples p l e
    let i ← getBool j "indent"
    pure (Json.mkObj [("triples", jList jTriple ts), ("dec", jRes jPen (fromTriples ts)),
                      ("native", jRes optCps (nativeOfPenman p l true i e))])
  | "churn" => do
    -- a sequence of different graphs, each through all three codecs (the model is pure: no state between them)
    let es ← (← getArr j "docs").mapM ofEds
    let o ← ofOpts (← j.getObjVal? "opts")
    if es.any (fun e => !e.targetsOk) then pure (jErr "KeyError") else
    pure (jList (fun e =>
      let d := toDict o.properties o.lnk e
      Json.mkObj [("text", cps (textE o e)),
                  ("dict", Json.mkObj [("top", optCps d.top), ("nodes", jList jJNode d.nodes)]),
                  ("triples", jList jTriple (toTriples o.properties o.lnk e))]) es)
  | "api" => do
    -- the public functions: write path x read path x the `indent` argument
    let es ← (← getArr j "docs").mapM ofEds
    let p ← getBool j "properties"
    let l ← getBool j "lnk"
    let fmt ← getStr j "fmt"
    let read ← getStr j "read"
    if fmt = "json" then
      let ds := jsonApi p l es
      if read = "decode" then
        match ds with
        | d :: _ => pure (Json.mkObj [("dec", jOk (jEds d))])
        | [] => throw "decode of no graph"
      else pure (Json.mkObj [("dec", jOk (jList jEds ds))])
    else if fmt = "penman" then
      if es.any (fun e => !e.targetsOk) then pure (jErr "KeyError") else
      let rs := es.mapM (fun e => fromTriples (toTriples p l e))
      if read = "decode" then
        match rs with
        | .ok (r :: _) => pure (Json.mkObj [("dec", jOk (jPen r))])
        | .ok [] => throw "decode of no graph"
        | .error er => pure (Json.mkObj [("dec", jErr (errTag er))])
      else pure (Json.mkObj [("dec", jRes (jList jPen) rs)])
    else
    let s ← getBool j "show_status"
    let ia : IndentArg ← (match j.getObjVal? "indent" with
      | .ok Json.null => pure IndentArg.none
      | .ok (Json.bool b) => pure (IndentArg.bool b)
      | .ok v => do pure (IndentArg.int (← v.getInt?))
      | .error e => throw e)
    let write ← getStr j "write"
    let text : Except Err Str ←
      (if write = "encode" then
        match es with
        | [e] => pure (encodeApi p l s ia e)
        | _ => throw "encode needs one graph"
      else if write = "dumps" then pure (dumpsApi p l s ia es)
      else pure (dumpApi p l s ia es))
    match text with
    | .error er => pure (jErr (errTag er))
    | .ok t =>
      let dec : Json :=
        if read = "decode" then jRes jEds (Verif.C03.Lex.decodeText t)
        else if read = "loads" then jRes (jList jEds) (Verif.C03.Lex.loadsText t)
        else if read = "load" then jRes (jList jEds) (Verif.C03.Lex.loadFileText t)
        else jRes (jList jEds) (Verif.C03.Lex.loadPathText t)
      pure (Json.mkObj [("text", cps t), ("dec", dec)])
  | "triples" => do
    let ts ← (← getArr j "triples").mapM ofTriple
    pure (jRes jPen (fromTriples ts))
  | _ => throw s!"bad op {op}"

end Verif.C03.Driver

def main : IO Unit := Verif.Proto.serve Verif.C03.Driver.handle
