/-
C03 — the lexer reads the single-line layout of a lexable graph back as its token view
(`Lexes (textE o e) (toksE o e)`), composed from the per-token lemmas of LexPrim.lean.
-/
import Verif.C03.LexPrim
import Verif.C03.NoLB
import Verif.C03.Lemmas

set_option linter.unusedSimpArgs false

namespace Verif.C03.Lex
open Verif.Codec Verif.LnkLex Verif.C03

theorem joinStr_cons_cons (sep p q : Str) (qs : List Str) :
    joinStr sep (p :: q :: qs) = p ++ sep ++ joinStr sep (q :: qs) := rfl

/-! ### `k v, k v, …` -/

theorem lexes_pairs (c : Char) (rest : Str) (ts : List Token) (hc : symOk c = false) (h : Lexes (c :: rest) ts) :
    ∀ d : Dict, (∀ p ∈ d, SymOK p.1 ∧ SymOK p.2) →
      Lexes (joinStr [',', ' '] (d.map pairText) ++ c :: rest) (pairToks d ++ ts) := by
  intro d
  induction d with
  | nil => intro _; simpa [joinStr, pairToks] using h
  | cons p ps ih =>
    intro hd
    have hp := hd p (by simp)
    cases ps with
    | nil =>
      simp only [List.map_cons, List.map_nil, joinStr, pairText, pairToks, List.append_assoc, List.cons_append,
        List.nil_append]
      exact lexes_sym hp.1 (boundary_cons (by decide))
        (lexes_blank (lexes_sym hp.2 (boundary_cons hc) h))
    | cons q qs =>
      have ih' := ih (fun x hx => hd x (by simp [hx]))
      rw [List.map_cons, List.map_cons, joinStr_cons_cons, pairToks_cons_cons]
      rw [show pairText p = p.1 ++ ' ' :: p.2 from rfl]
      simp only [List.append_assoc, List.cons_append, List.nil_append]
      refine lexes_sym hp.1 (boundary_cons (by decide))
        (lexes_blank (lexes_sym hp.2 (boundary_cons (by decide)) (lexes_comma (lexes_blank ?_))))
      simpa [List.append_assoc] using ih'

/-! ### one node -/

def lnkText (o : Opts) (n : Node) : Str := if o.lnk && n.lnk.truthy then n.lnk.str else []
def cargText (n : Node) : Str := match n.carg with | some c => '(' :: '"' :: escapeDQ c ++ ['"', ')'] | none => []
def blockText (o : Opts) (n : Node) : Str :=
  if n.showBlock o then
    '{' :: n.typeOrU
      ++ (if n.props.isEmpty then [] else ' ' :: joinStr [',', ' '] ((sortProps n.props).map pairText)) ++ ['}']
  else []
def edgeText (n : Node) : Str := '[' :: joinStr [',', ' '] ((sortEdges n.edges).map pairText) ++ [']']

theorem nodeText_eq (o : Opts) (n : Node) (rest : Str) :
    nodeText o n ++ rest
      = n.id ++ ':' :: (n.pred ++ (lnkText o n ++ (cargText n ++ (blockText o n ++ (edgeText n ++ rest))))) := by
  cases hc : n.carg <;> simp [nodeText, lnkText, cargText, blockText, edgeText, hc]

theorem all_pairs {d : Dict} (h : d.all pairOKb = true) : ∀ p ∈ d, SymOK p.1 ∧ SymOK p.2 := by
  intro p hp
  have := List.all_eq_true.1 h p hp
  simp only [pairOKb, Bool.and_eq_true] at this
  exact ⟨symOK_of_b this.1, symOK_of_b this.2⟩

theorem lexes_edgeText (n : Node) (hn : n.edges.all pairOKb = true) {rest : Str} {ts : List Token}
    (h : Lexes rest ts) : Lexes (edgeText n ++ rest) (edgeToks n ++ ts) := by
  unfold edgeText edgeToks
  simp only [List.cons_append, List.append_assoc, List.nil_append]
  refine lexes_lbracket ?_
  refine lexes_pairs ']' rest _ (by decide) (lexes_rbracket h) _ ?_
  intro p hp
  exact all_pairs hn p ((mem_sortStable _ _ _).1 hp)

theorem lexes_blockText (o : Opts) (n : Node)
    (hn : n.showBlock o = true → symOKb n.typeOrU = true ∧ n.props.all pairOKb = true)
    {rest : Str} {ts : List Token} (h : Lexes rest ts) :
    Lexes (blockText o n ++ rest) (blockToks o n ++ ts) := by
  unfold blockText blockToks
  by_cases hb : n.showBlock o = true
  · obtain ⟨hty, hps⟩ := hn hb
    simp only [hb, if_true, List.cons_append, List.append_assoc, List.nil_append]
    refine lexes_lbrace ?_
    have hpairs := lexes_pairs '}' rest _ (by decide) (lexes_rbrace h) (sortProps n.props)
      (fun p hp => all_pairs hps p ((mem_sortStable _ _ _).1 hp))
    cases hp : n.props with
    | nil =>
      simp only [List.isEmpty_nil, if_true, List.nil_append]
      have : sortProps ([] : Dict) = [] := rfl
      rw [this]
      simp only [pairToks, List.nil_append]
      exact lexes_sym (symOK_of_b hty) (boundary_cons (by decide)) (lexes_rbrace h)
    | cons q qs =>
      rw [hp] at hpairs
      simp only [List.isEmpty_cons, Bool.false_eq_true, if_false, List.cons_append, List.append_assoc]
      exact lexes_sym (symOK_of_b hty) (boundary_cons (by decide)) (lexes_blank hpairs)
  · simp only [hb, if_false, List.nil_append]
    exact h

theorem lexes_cargText (n : Node) {rest : Str} {ts : List Token} (h : Lexes rest ts) :
    Lexes (cargText n ++ rest) (cargToks n ++ ts) := by
  unfold cargText cargToks
  cases hc : n.carg with
  | none => simpa using h
  | some c =>
    simp only [List.cons_append, List.append_assoc, List.nil_append]
    exact lexes_carg c h

theorem lexes_lnkText (o : Opts) (n : Node) (hn : (o.lnk && n.lnk.truthy) = true → lnkOKb n.lnk = true)
    {rest : Str} {ts : List Token} (h : Lexes rest ts) :
    Lexes (lnkText o n ++ rest) (lnkToks o n ++ ts) := by
  unfold lnkText lnkToks
  by_cases hl : (o.lnk && n.lnk.truthy) = true
  · simp only [hl, if_true, List.cons_append, List.nil_append]
    exact lexes_lnk (lnkOK_of_b (hn hl)) h
  · simp only [hl, if_false, List.nil_append]
    exact h

/-- whatever follows the predicate starts with `<`, `(`, `{` or `[` -/
theorem after_pred_boundary (o : Opts) (n : Node) (hn : (o.lnk && n.lnk.truthy) = true → lnkOKb n.lnk = true)
    (rest : Str) : Boundary (lnkText o n ++ (cargText n ++ (blockText o n ++ (edgeText n ++ rest)))) := by
  unfold lnkText
  by_cases hl : (o.lnk && n.lnk.truthy) = true
  · obtain ⟨inner, hs, _, _⟩ := lnk_shape n.lnk (lnkOK_of_b (hn hl))
    simp only [hl, if_true, hs, List.cons_append]
    exact boundary_cons (by decide)
  · simp only [hl, if_false, List.nil_append]
    unfold cargText
    cases hc : n.carg with
    | some c => simp only [List.cons_append]; exact boundary_cons (by decide)
    | none =>
      simp only [List.nil_append]
      unfold blockText
      by_cases hb : n.showBlock o = true
      · simp only [hb, if_true, List.cons_append]; exact boundary_cons (by decide)
      · simp only [hb, if_false, List.nil_append, edgeText, List.cons_append]; exact boundary_cons (by decide)

theorem nodeOKb_parts {o : Opts} {n : Node} (h : nodeOKb o n = true) :
    SymOK n.id ∧ SymOK n.pred ∧ ((o.lnk && n.lnk.truthy) = true → lnkOKb n.lnk = true)
    ∧ (n.showBlock o = true → symOKb n.typeOrU = true ∧ n.props.all pairOKb = true)
    ∧ n.edges.all pairOKb = true := by
  simp only [nodeOKb, Bool.and_eq_true, Bool.or_eq_true, Bool.not_eq_true'] at h
  obtain ⟨⟨⟨⟨⟨h1, h2⟩, h3⟩, _⟩, h5⟩, h6⟩ := h
  refine ⟨symOK_of_b h1, symOK_of_b h2, ?_, ?_, h6⟩
  · intro hl
    rcases h3 with h3 | h3
    · rw [hl] at h3; cases h3
    · exact h3
  · intro hb
    rcases h5 with h5 | h5
    · rw [hb] at h5; cases h5
    · exact h5

theorem lexes_node (o : Opts) (n : Node) (hn : nodeOKb o n = true) {rest : Str} {ts : List Token}
    (h : Lexes rest ts) : Lexes (nodeText o n ++ rest) (nodeToks o n ++ ts) := by
  obtain ⟨hid, hpred, hl, hb, he⟩ := nodeOKb_parts hn
  rw [nodeText_eq, nodeToks_eq]
  simp only [List.cons_append, List.append_assoc]
  refine lexes_sym hid (boundary_cons (by decide)) (lexes_colon ?_)
  refine lexes_sym hpred (after_pred_boundary o n hl rest) ?_
  exact lexes_lnkText o n hl (lexes_cargText n (lexes_blockText o n hb (lexes_edgeText n he h)))

/-! ### the node list, the graph, the document (single-line layout) -/

theorem lexes_member (o : Opts) (e : EDS) (n : Node) (hi : o.indent = false) {x : Str} {ts : List Token}
    (h : Lexes x ts) : Lexes (e.membership o n ++ x) (e.statusToks o n ++ ts) := by
  unfold EDS.membership EDS.statusToks
  by_cases hr : n.id ∈ e.reach
  · simp only [hr, if_true, hi, Bool.false_eq_true, if_false, List.nil_append]; exact h
  · by_cases hs : o.showStatus = true
    · simp only [hr, if_false, hs, if_true, List.cons_append, List.nil_append]; exact lexes_nstatus h
    · simp only [hr, if_false, hs, List.cons_append, List.nil_append]; exact lexes_blank h

theorem lexes_nodeparts (o : Opts) (e : EDS) (hi : o.indent = false) {rest : Str} {ts : List Token}
    (h : Lexes rest ts) :
    ∀ ns : List Node, ns ≠ [] → (∀ n ∈ ns, nodeOKb o n = true) →
      Lexes (joinStr [' '] (ns.map (fun n => e.membership o n ++ nodeText o n)) ++ rest)
        (ns.flatMap (fun n => e.statusToks o n ++ nodeToks o n) ++ ts) := by
  intro ns
  induction ns with
  | nil => intro hne; exact absurd rfl hne
  | cons n ns ih =>
    intro _ hok
    cases ns with
    | nil =>
      simp only [List.map_cons, List.map_nil, joinStr, List.flatMap_cons, List.flatMap_nil, List.append_nil,
        List.append_assoc]
      exact lexes_member o e n hi (lexes_node o n (hok n (by simp)) h)
    | cons m ms =>
      have ih' := ih (by simp) (fun x hx => hok x (by simp [hx]))
      rw [List.map_cons, List.map_cons, joinStr_cons_cons, List.flatMap_cons]
      simp only [List.append_assoc, List.cons_append, List.nil_append]
      refine lexes_member o e n hi (lexes_node o n (hok n (by simp)) (lexes_blank ?_))
      simpa [List.append_assoc] using ih'

theorem lexOKb_parts {o : Opts} {e : EDS} (h : lexOKb o e = true) :
    (∀ s, e.identifier = some s → identOKb s = true) ∧ (∀ t, e.top = some t → SymOK t)
    ∧ ∀ n ∈ e.nodes, nodeOKb o n = true := by
  simp only [lexOKb, Bool.and_eq_true] at h
  obtain ⟨⟨h1, h2⟩, h3⟩ := h
  refine ⟨?_, ?_, fun n hn => List.all_eq_true.1 h3 n hn⟩
  · intro s hs; rw [hs] at h1; exact h1
  · intro t ht; rw [ht] at h2; exact symOK_of_b h2

/-- the text after the opening brace: top part, node parts, closing brace -/
theorem lexes_body (o : Opts) (e : EDS) (hi : o.indent = false) (hok : lexOKb o e = true) (hne : e.nodes ≠ [])
    {rest : Str} {ts : List Token} (h : Lexes rest ts) :
    Lexes (joinStr [' '] ((if !(e.topParts o).isEmpty || o.indent then [joinStr [' '] (e.topParts o)] else [])
        ++ e.nodes.map (fun n => e.membership o n ++ nodeText o n)) ++ ('}' :: rest))
      (e.topToks o ++ (e.bodyToks o ++ tRbrace :: ts)) := by
  obtain ⟨_, htop, hnodes⟩ := lexOKb_parts hok
  have hnp := lexes_nodeparts o e hi (lexes_rbrace h) e.nodes hne hnodes
  obtain ⟨n, ns, hn⟩ : ∃ n ns, e.nodes = n :: ns := by
    cases hx : e.nodes with
    | nil => exact absurd hx hne
    | cons n ns => exact ⟨n, ns, rfl⟩
  have hjoin : ∀ p : Str, joinStr [' '] (p :: e.nodes.map (fun n => e.membership o n ++ nodeText o n))
      = p ++ ' ' :: joinStr [' '] (e.nodes.map (fun n => e.membership o n ++ nodeText o n)) := by
    intro p; rw [hn, List.map_cons, joinStr_cons_cons]; simp
  unfold EDS.topParts EDS.topToks EDS.bodyToks
  cases ht : e.top with
  | none =>
    by_cases hf : (o.showStatus && e.fragmented) = true
    · simp only [hf, if_true, List.nil_append, List.isEmpty_cons, Bool.not_false, Bool.true_or, List.cons_append,
        joinStr, hjoin, List.append_assoc]
      exact lexes_fragmented (lexes_blank hnp)
    · simp only [hf, if_false, List.nil_append, List.append_nil, List.isEmpty_nil, Bool.not_true, hi, Bool.or_self,
        Bool.false_eq_true]
      exact hnp
  | some t =>
    have hts := htop t ht
    by_cases hf : (o.showStatus && e.fragmented) = true
    · simp only [hf, if_true, List.cons_append, List.nil_append, List.isEmpty_cons, Bool.not_false, Bool.true_or,
        joinStr, hjoin, List.append_assoc, Bool.false_eq_true, if_false]
      exact lexes_sym hts (boundary_cons (by decide)) (lexes_colon (lexes_blank (lexes_fragmented (lexes_blank hnp))))
    · simp only [hf, if_false, List.cons_append, List.nil_append, List.append_nil, List.isEmpty_cons, Bool.not_false,
        Bool.true_or, if_true, joinStr, hjoin, List.append_assoc, Bool.false_eq_true]
      exact lexes_sym hts (boundary_cons (by decide)) (lexes_colon (lexes_blank hnp))

/-- [core of the text level] the single-line text of a lexable graph, followed by anything that lexes, is read as the
graph's token view followed by those tokens -/
theorem lexes_textE (o : Opts) (e : EDS) (hi : o.indent = false) (hok : lexOKb o e = true)
    {rest : Str} {ts : List Token} (h : Lexes rest ts) :
    Lexes (textE o e ++ rest) (toksE o e ++ ts) := by
  obtain ⟨hident, _, _⟩ := lexOKb_parts hok
  have hstart : ∀ (x : Str) (tx : List Token), Lexes x tx →
      Lexes (e.startText o ++ x) (e.identToks ++ tLbrace :: tx) := by
    intro x tx hx
    unfold EDS.startText EDS.identToks
    cases hid : e.identifier with
    | none => simp only [truthyStr, Bool.false_eq_true, if_false, List.cons_append, List.nil_append]; exact lexes_lbrace hx
    | some s =>
      cases s with
      | nil => simp only [truthyStr, Bool.false_eq_true, if_false, List.cons_append, List.nil_append]; exact lexes_lbrace hx
      | cons c cs =>
        simp only [truthyStr, if_true, Option.getD_some, hi, Bool.false_eq_true, if_false, List.cons_append,
          List.append_assoc, List.nil_append]
        exact lexes_ident (by simp) (hident _ hid) (lexes_lbrace hx)
  unfold textE toksE
  by_cases hne : e.nodes = []
  · simp only [hne, List.isEmpty_nil, if_true, endText, hi, Bool.false_eq_true, if_false, List.append_assoc,
      List.cons_append, List.nil_append]
    exact hstart _ _ (lexes_rbrace h)
  · have hemp : e.nodes.isEmpty = false := by
      cases hn : e.nodes with
      | nil => exact absurd hn hne
      | cons _ _ => rfl
    simp only [hemp, Bool.false_eq_true, if_false, endText, hi, List.append_assoc, List.cons_append, List.nil_append]
    refine hstart _ _ ?_
    have := lexes_body o e hi hok hne h
    simpa [hi] using this

theorem lexes_dumps (o : Opts) (hi : o.indent = false) :
    ∀ es : List EDS, (∀ e ∈ es, lexOKb o e = true) →
      Lexes (joinStr [' '] (es.map (textE o))) (es.flatMap (toksE o)) := by
  intro es
  induction es with
  | nil => intro _; exact Lexes.nil
  | cons e es ih =>
    intro hok
    cases es with
    | nil =>
      have := lexes_textE o e hi (hok e (by simp)) Lexes.nil
      simpa [joinStr] using this
    | cons f fs =>
      have ih' := ih (fun x hx => hok x (by simp [hx]))
      rw [List.map_cons, List.map_cons, joinStr_cons_cons, List.flatMap_cons]
      simp only [List.append_assoc, List.cons_append, List.nil_append]
      exact lexes_textE o e hi (hok e (by simp)) (lexes_blank (by simpa using ih'))

/-! ### from one line to the text -/

theorem lex_noLB (s : Str) (h : NoLB s) : lex s = lexLine (s.length + 1) s := by
  unfold lex
  rw [splitLines_noLB s h]
  simp only [List.foldr]
  cases lexLine (s.length + 1) s <;> simp

/-- [core] the model lexer reads the single-line text of a lexable graph as exactly its token view -/
theorem lex_textE (o : Opts) (e : EDS) (hi : o.indent = false) (hok : lexOKb o e = true) :
    lex (textE o e) = some (toksE o e) := by
  rw [lex_noLB _ (textE_noLB o e hi hok)]
  have := lexes_textE o e hi hok Lexes.nil
  simp only [List.append_nil] at this
  exact lexLine_of_lexes this _ (Nat.lt_succ_self _)

/-- … and a single-line document of lexable graphs as the concatenation of their token views -/
theorem lex_dumpsText (o : Opts) (es : List EDS) (hi : o.indent = false) (hok : ∀ e ∈ es, lexOKb o e = true) :
    lex (dumpsText o es) = some (es.flatMap (toksE o)) := by
  rw [lex_noLB _ (dumpsText_noLB o es hi hok)]
  have := lexes_dumps o hi es hok
  have hd : dumpsText o es = joinStr [' '] (es.map (textE o)) := by simp [dumpsText, hi]
  rw [hd]
  exact lexLine_of_lexes this _ (Nat.lt_succ_self _)

end Verif.C03.Lex
