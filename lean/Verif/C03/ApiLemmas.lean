/-
C03 — lemmas for the API layer (Api.lean): the native text only depends on what the encoder reads of a node
(`textE_mapNodes`), hence the native text of the JSON- and PENMAN-decoded graph; the file variants
(`dump` adds a line feed, `load` breaks lines at `\n` only) read the encoder's text as `loads` does.
-/
import Verif.C03.Api
import Verif.C03.StableLemmas
import Verif.C03.PenmanLemmas
import Verif.C03.LexIndent

set_option linter.unusedSimpArgs false
set_option linter.unusedVariables false

namespace Verif.C03
open Verif.Codec Verif.Sem

/-! ### sorting commutes with a map that the order does not see -/

theorem insertSorted_map {α β} (lt : β → β → Bool) (f : α → β) (x : α) (ys : List α) :
    insertSorted lt (f x) (ys.map f) = (insertSorted (fun a b => lt (f a) (f b)) x ys).map f := by
  induction ys with
  | nil => rfl
  | cons y ys ih =>
    simp only [List.map_cons, insertSorted]
    by_cases h : lt (f y) (f x) = true <;> simp [h, ih]

theorem sortStable_map {α β} (lt : β → β → Bool) (f : α → β) (xs : List α) :
    sortStable lt (xs.map f) = (sortStable (fun a b => lt (f a) (f b)) xs).map f := by
  induction xs with
  | nil => rfl
  | cons x xs ih => rw [List.map_cons, sortStable_cons, ih, insertSorted_map, sortStable_cons]

theorem sortStable_const_false {α} (lt : α → α → Bool) (h : ∀ a b, lt a b = false) (xs : List α) :
    sortStable lt xs = xs := by
  apply sortStable_of_sorted
  induction xs with
  | nil => exact List.Pairwise.nil
  | cons x xs ih => exact List.pairwise_cons.2 ⟨fun y _ => h y x, ih⟩

/-! ### the text depends on a node only through its identifier, its edge set and its own text -/

def mapNodes (f : Node → Node) (e : EDS) : EDS := { e with nodes := e.nodes.map f }

section mapNodes
variable (o : Opts) (e : EDS) (f : Node → Node)
  (hid : ∀ n, (f n).id = n.id) (hed : ∀ n q, q ∈ (f n).edges ↔ q ∈ n.edges)

include hid in
theorem mapNodes_ids : (mapNodes f e).ids = e.ids := by
  simp only [mapNodes, EDS.ids, List.map_map]
  exact List.map_congr_left (fun n _ => hid n)

include hid in
theorem mapNodes_start : (mapNodes f e).start = e.start := by
  obtain ⟨top, nodes, ident⟩ := e
  cases top with
  | some t => rfl
  | none =>
    cases nodes with
    | nil => rfl
    | cons n ns => exact hid n

include hid hed in
theorem mem_mapNodes_edgePairs (q : Str × Str) : q ∈ (mapNodes f e).edgePairs ↔ q ∈ e.edgePairs := by
  simp only [EDS.edgePairs, mapNodes, List.flatMap_map, List.mem_flatMap, List.mem_map]
  constructor
  · rintro ⟨n, hn, p, hp, rfl⟩
    exact ⟨n, hn, p, (hed n p).1 hp, by rw [hid]⟩
  · rintro ⟨n, hn, p, hp, rfl⟩
    exact ⟨n, hn, p, (hed n p).2 hp, by rw [hid]⟩

include hid hed in
theorem reach_mapNodes (x : Str) : x ∈ (mapNodes f e).reach ↔ x ∈ e.reach := by
  unfold EDS.reach
  rw [Verif.Sem.bfs_correct, Verif.Sem.bfs_correct, mapNodes_start e f hid]
  exact ⟨reach_congr_mem _ _ (fun p => (mem_mapNodes_edgePairs e f hid hed p).1) _ _,
    reach_congr_mem _ _ (fun p => (mem_mapNodes_edgePairs e f hid hed p).2) _ _⟩

include hid hed in
theorem mapNodes_fragmented : (mapNodes f e).fragmented = e.fragmented := by
  unfold EDS.fragmented
  rw [mapNodes_ids e f hid]
  congr 1
  rw [Bool.eq_iff_iff]
  simp only [Bool.and_eq_true, List.all_eq_true, decide_eq_true_eq, reach_mapNodes e f hid hed]

include hid hed in
theorem mapNodes_membership (n : Node) : (mapNodes f e).membership o (f n) = e.membership o n := by
  unfold EDS.membership
  simp only [hid, reach_mapNodes e f hid hed]

include hid hed in
theorem mapNodes_topParts : (mapNodes f e).topParts o = e.topParts o := by
  unfold EDS.topParts
  rw [mapNodes_fragmented e f hid hed]
  rfl

include hid hed in
/-- the encoder's text of a graph whose nodes were replaced by nodes with the same identifier, the same edges (as
a set) and the same node text -/
theorem textE_mapNodes (htx : ∀ n ∈ e.nodes, nodeText o (f n) = nodeText o n) :
    textE o (mapNodes f e) = textE o e := by
  have hstart : (mapNodes f e).startText o = e.startText o := rfl
  have hemp : (mapNodes f e).nodes.isEmpty = e.nodes.isEmpty := by
    show (e.nodes.map f).isEmpty = _
    rw [List.isEmpty_map]
  have hmap : (mapNodes f e).nodes.map (fun n => (mapNodes f e).membership o n ++ nodeText o n)
      = e.nodes.map (fun n => e.membership o n ++ nodeText o n) := by
    show (e.nodes.map f).map _ = _
    rw [List.map_map]
    apply List.map_congr_left
    intro n hn
    show (mapNodes f e).membership o (f n) ++ nodeText o (f n) = _
    rw [mapNodes_membership o e f hid hed, htx n hn]
  simp only [textE, hemp, hstart, mapNodes_topParts o e f hid hed, hmap]

end mapNodes

/-- edge targets stay nodes when the nodes are re-ordered / replaced by nodes with the same identifiers and edges -/
theorem targetsOk_of (e e' : EDS) (hids : ∀ x, x ∈ e.ids → x ∈ e'.ids)
    (hn : ∀ m ∈ e'.nodes, ∃ n ∈ e.nodes, ∀ q ∈ m.edges, q ∈ n.edges) (ht : e.targetsOk = true) :
    e'.targetsOk = true := by
  simp only [EDS.targetsOk, List.all_eq_true, decide_eq_true_eq] at ht ⊢
  intro m hm q hq
  obtain ⟨n, hn', hsub⟩ := hn m hm
  exact hids _ (ht n hn' q (hsub q hq))

/-! ### native text of the JSON-decoded graph -/

theorem nodeText_viewJNode (p l s i : Bool) (n : Node) (h : l = true → lnkJsonOK n.lnk = true) :
    nodeText ⟨p, l, s, i⟩ (viewJNode p l n) = nodeText ⟨p, l, s, i⟩ n := by
  obtain ⟨id, pred, type, edges, props, carg, lnk⟩ := n
  cases p <;> cases l <;> cases lnk <;>
    simp [nodeText, viewJNode, Node.showBlock, Node.typeOrU, Lnk.truthy, Lnk.cfrom, Lnk.cto, Lnk.str, lnkJsonOK] at h ⊢

theorem spanLt_viewJNode_true (p : Bool) (a b : Node) :
    spanLt (viewJNode p true a) (viewJNode p true b) = spanLt a b := by
  obtain ⟨_, _, _, _, _, _, la⟩ := a
  obtain ⟨_, _, _, _, _, _, lb⟩ := b
  cases la <;> cases lb <;> rfl

theorem spanLt_viewJNode_false (p : Bool) (a b : Node) :
    spanLt (viewJNode p false a) (viewJNode p false b) = false := by
  simp [spanLt, viewJNode, Lnk.cfrom, Lnk.cto]

theorem sortStable_viewJ (p l : Bool) (ns : List Node) :
    sortStable (fun a b => spanLt (viewJNode p l a) (viewJNode p l b)) ns = jsonOrder l ns := by
  cases l with
  | true =>
    have : (fun a b => spanLt (viewJNode p true a) (viewJNode p true b)) = spanLt := by
      funext a b
      exact spanLt_viewJNode_true p a b
    rw [this]
    rfl
  | false => exact sortStable_const_false _ (spanLt_viewJNode_false p) ns

theorem mem_jsonOrder (l : Bool) (ns : List Node) (n : Node) : n ∈ jsonOrder l ns ↔ n ∈ ns := by
  cases l
  · rfl
  · exact mem_sortStable _ n ns

theorem textE_fromDict_toDict (p l s i : Bool) (e : EDS) (hnd : e.ids.Nodup)
    (hl : ∀ n ∈ e.nodes, l = true → lnkJsonOK n.lnk = true) :
    textE ⟨p, l, s, i⟩ (fromDict (toDict p l e))
      = textE ⟨p, l, s, i⟩ { top := e.top, nodes := jsonOrder l e.nodes, identifier := none } := by
  rw [fromDict_toDict p l e hnd, sortStable_map, sortStable_viewJ]
  exact textE_mapNodes ⟨p, l, s, i⟩ { top := e.top, nodes := jsonOrder l e.nodes, identifier := none }
    (viewJNode p l) (fun _ => rfl) (fun _ _ => Iff.rfl)
    (fun n hn => nodeText_viewJNode p l s i n (hl n ((mem_jsonOrder l e.nodes n).1 hn)))

theorem jsonOrder_ids_perm (l : Bool) (ns : List Node) :
    ((jsonOrder l ns).map (·.id)).Perm (ns.map (·.id)) := by
  cases l
  · exact List.Perm.refl _
  · exact (sortStable_perm _ ns).map _

theorem fromDict_targetsOk (p l : Bool) (e : EDS) (hnd : e.ids.Nodup) (ht : e.targetsOk = true) :
    (fromDict (toDict p l e)).targetsOk = true := by
  rw [fromDict_toDict p l e hnd]
  refine targetsOk_of e _ ?_ ?_ ht
  · intro x hx
    simp only [EDS.ids, List.mem_map] at hx ⊢
    obtain ⟨n, hn, rfl⟩ := hx
    exact ⟨viewJNode p l n, (mem_sortStable _ _ _).2 (List.mem_map.2 ⟨n, hn, rfl⟩), rfl⟩
  · intro m hm
    rw [mem_sortStable] at hm
    obtain ⟨n, hn, rfl⟩ := List.mem_map.1 hm
    exact ⟨n, hn, fun q hq => hq⟩

theorem penView_targetsOk (p l : Bool) (e : EDS) (t : Str) (ht : e.targetsOk = true) :
    (EDS.mk (some t) ((topFirst e).map (viewPNode p l)) none).targetsOk = true := by
  refine targetsOk_of e _ ?_ ?_ ht
  · intro x hx
    simp only [EDS.ids, List.mem_map] at hx ⊢
    obtain ⟨n, hn, rfl⟩ := hx
    exact ⟨viewPNode p l n, ⟨n, (topFirst_perm e).mem_iff.2 hn, rfl⟩, rfl⟩
  · intro m hm
    obtain ⟨n, hn, rfl⟩ := List.mem_map.1 hm
    exact ⟨n, (topFirst_perm e).mem_iff.1 hn, fun q hq => (mem_sortStable _ q n.edges).1 hq⟩

/-! ### native text of the PENMAN-decoded graph -/

theorem recNodes_view (p l : Bool) (ns : List Node) :
    recNodes (ns.map (fun n => (n.id, viewPRec p l n))) = some (ns.map (viewPNode p l)) := by
  induction ns with
  | nil => rfl
  | cons n ns ih =>
    simp only [List.map_cons, recNodes, ih]
    rfl

theorem nodeText_viewPNode (p l s i : Bool) (n : Node) :
    nodeText ⟨p, l, s, i⟩ (viewPNode p l n) = nodeText ⟨p, l, s, i⟩ n := by
  obtain ⟨id, pred, type, edges, props, carg, lnk⟩ := n
  have hl : (if l && (if l && lnk.truthy then lnk else Lnk.unspec).truthy
      then (if l && lnk.truthy then lnk else Lnk.unspec).str else [])
      = (if l && lnk.truthy then lnk.str else []) := by
    cases h : (l && lnk.truthy)
    · simp [Lnk.truthy]
    · simp only [if_true, h]
  cases p
  · simp only [nodeText, viewPNode, Node.showBlock, sortEdges_idem, hl, Bool.false_and, Bool.false_eq_true, if_false]
  · simp only [nodeText, viewPNode, Node.showBlock, Node.typeOrU, sortEdges_idem, hl, if_true, Bool.true_and,
      sortProps_isEmpty, sortProps_idem]

theorem mem_sortEdges (d : Dict) (q : Str × Str) : q ∈ sortEdges d ↔ q ∈ d := mem_sortStable _ q d

theorem fromTriplesE_toTriples (p l : Bool) (e : EDS) (t : Str)
    (htop : e.top = some t) (hmem : t ∈ e.ids) (hnd : e.ids.Nodup)
    (hconn : ∀ i ∈ e.ids, i ∈ e.reach) (hexp : ∀ n ∈ e.nodes, PenExpressible n) :
    fromTriplesE (toTriples p l e)
      = .ok (some { top := some t, nodes := (topFirst e).map (viewPNode p l), identifier := none }) := by
  unfold fromTriplesE
  rw [fromTriples_toTriples p l e t htop hmem hnd hconn hexp]
  simp only [recNodes_view, Option.map_some]

theorem textE_penman (p l s i : Bool) (e : EDS) (t : Str) :
    textE ⟨p, l, s, i⟩ { top := some t, nodes := (topFirst e).map (viewPNode p l), identifier := none }
      = textE ⟨p, l, s, i⟩ { top := some t, nodes := topFirst e, identifier := none } :=
  textE_mapNodes ⟨p, l, s, i⟩ { top := some t, nodes := topFirst e, identifier := none }
    (viewPNode p l) (fun _ => rfl) (fun n q => mem_sortEdges n.edges q)
    (fun n _ => nodeText_viewPNode p l s i n)

namespace Lex
open Verif.LnkLex

/-! ### file variants: only `\n` breaks lines in what the encoder writes -/

def OnlyNL (s : Str) : Prop := ∀ c ∈ s, isLineBreak c = true → c = '\n'

theorem onlyNL_of_noLB {s : Str} (h : NoLB s) : OnlyNL s := by
  intro c hc hb
  rw [h c hc] at hb
  cases hb

theorem onlyNL_nil : OnlyNL [] := onlyNL_of_noLB noLB_nil

theorem onlyNL_append {a b : Str} (ha : OnlyNL a) (hb : OnlyNL b) : OnlyNL (a ++ b) := by
  intro x hx
  rcases List.mem_append.1 hx with hx | hx
  · exact ha x hx
  · exact hb x hx

theorem onlyNL_cons_nl {s : Str} (hs : OnlyNL s) : OnlyNL ('\n' :: s) := by
  intro x hx _
  rcases List.mem_cons.1 hx with rfl | hx
  · rfl
  · exact hs x hx ‹_›

theorem onlyNL_nl : OnlyNL ['\n'] := onlyNL_cons_nl onlyNL_nil

theorem onlyNL_joinStr {sep : Str} {ps : List Str} (hs : OnlyNL sep) (hp : ∀ p ∈ ps, OnlyNL p) :
    OnlyNL (joinStr sep ps) := by
  intro c hc
  rcases mem_joinStr hc with h | ⟨p, hp', h⟩
  · exact hs c h
  · exact hp p hp' c h

theorem onlyNL_sep (b : Bool) : OnlyNL (if b = true then ['\n'] else [' ']) := by
  cases b
  · exact onlyNL_of_noLB (noLB_single (by decide))
  · exact onlyNL_nl

theorem endText_onlyNL (o : Opts) : OnlyNL (endText o) := by
  unfold endText
  cases o.indent
  · exact onlyNL_of_noLB (noLB_single (by decide))
  · exact onlyNL_cons_nl (onlyNL_of_noLB (noLB_single (by decide)))

theorem startText_onlyNL (o : Opts) (e : EDS)
    (h : (match e.identifier with | some s => identOKb s | none => true) = true) :
    OnlyNL (e.startText o) := by
  unfold EDS.startText
  cases ht : truthyStr e.identifier with
  | false => simp only [Bool.false_eq_true, if_false]; exact onlyNL_of_noLB (noLB_single (by decide))
  | true =>
    simp only [if_true]
    cases hid : e.identifier with
    | none => rw [hid] at ht; cases ht
    | some s =>
      rw [hid] at h
      exact onlyNL_append (onlyNL_append (onlyNL_of_noLB (noLB_cons (by decide) (noLB_of_ident h)))
        (onlyNL_sep o.indent)) (onlyNL_of_noLB (noLB_single (by decide)))

theorem membership_noLB' (o : Opts) (e : EDS) (n : Node) : NoLB (e.membership o n) := by
  unfold EDS.membership
  split
  · split
    · exact noLB_single (by decide)
    · exact noLB_nil
  · split
    · exact noLB_single (by decide)
    · exact noLB_single (by decide)

/-- what the encoder writes for a lexable graph contains no line-breaking character but its own `\n` -/
theorem textE_onlyNL (o : Opts) (e : EDS) (h : lexOKb o e = true) : OnlyNL (textE o e) := by
  simp only [lexOKb, Bool.and_eq_true, List.all_eq_true] at h
  obtain ⟨⟨hident, htop⟩, hnodes⟩ := h
  unfold textE
  split
  · exact onlyNL_append (startText_onlyNL o e hident) (endText_onlyNL o)
  · refine onlyNL_append (onlyNL_append (startText_onlyNL o e hident) ?_) (endText_onlyNL o)
    refine onlyNL_joinStr (onlyNL_sep o.indent) ?_
    intro p hp
    rcases List.mem_append.1 hp with hp | hp
    · split at hp
      · simp only [List.mem_singleton] at hp
        subst hp
        exact onlyNL_of_noLB (noLB_joinStr (noLB_single (by decide)) (topParts_noLB o e htop))
      · cases hp
    · obtain ⟨n, hn, rfl⟩ := List.mem_map.1 hp
      exact onlyNL_of_noLB (noLB_append (membership_noLB' o e n) (nodeText_noLB o n (hnodes n hn)))

theorem dumpsText_onlyNL (o : Opts) (es : List EDS) (h : ∀ e ∈ es, lexOKb o e = true) :
    OnlyNL (dumpsText o es) := by
  unfold dumpsText
  refine onlyNL_joinStr ?_ ?_
  · cases o.indent
    · exact onlyNL_of_noLB (noLB_single (by decide))
    · exact onlyNL_cons_nl onlyNL_nl
  · intro p hp
    obtain ⟨e, he, rfl⟩ := List.mem_map.1 hp
    exact textE_onlyNL o e (h e he)

theorem dumpText_onlyNL (o : Opts) (es : List EDS) (h : ∀ e ∈ es, lexOKb o e = true) :
    OnlyNL (dumpText o es) :=
  onlyNL_append (dumpsText_onlyNL o es h) onlyNL_nl

theorem splitNL_eq_splitLines (s : Str) (h : OnlyNL s) : splitNL s = splitLines s := by
  induction s with
  | nil => rfl
  | cons c r ih =>
    have hr : OnlyNL r := fun x hx => h x (List.mem_cons_of_mem _ hx)
    by_cases hc : c = '\n'
    · subst hc
      have : isLineBreak '\n' = true := by decide
      simp [splitNL, splitLines, ih hr, this]
    · have hb : isLineBreak c = false := by
        cases hb : isLineBreak c with
        | false => rfl
        | true => exact absurd (h c (List.mem_cons_self ..) hb) hc
      simp only [splitNL, splitLines, ih hr, hc, hb, if_false, Bool.false_eq_true]
      cases splitLines r <;> rfl

theorem lexFile_eq_lex (s : Str) (h : OnlyNL s) : lexFile s = lex s := by
  unfold lexFile lex
  rw [splitNL_eq_splitLines s h]
  rfl

theorem univNL_id (s : Str) (h : '\r' ∉ s) : univNL s = s := by
  unfold univNL
  induction s with
  | nil => rfl
  | cons c r ih =>
    have hc : c ≠ '\r' := fun e => h (e ▸ List.mem_cons_self ..)
    have hr : '\r' ∉ r := fun hm => h (List.mem_cons_of_mem _ hm)
    simp [univNLaux, hc, ih hr]

theorem onlyNL_no_cr {s : Str} (h : OnlyNL s) : '\r' ∉ s := by
  intro hm
  have := h '\r' hm (by decide)
  exact absurd this (by decide)

/-- the lexer reads what `dump` wrote (the document and a final line feed) as it reads the document -/
theorem lex_dumpText (o : Opts) (es : List EDS) (ts : List Token) (h : lex (dumpsText o es) = some ts) :
    lex (dumpText o es) = some ts := by
  have := lex_append_nl h lex_nil
  simpa [dumpText] using this

end Lex

end Verif.C03
