/-
C03 — EDS serialisations (native EDS, EDS-JSON, EDS-PENMAN): executable model.  Core Lean only.

Anchors in /repo (modelled line by line, quirks included):
  delphin/codecs/eds.py        _encode_eds, _encode_node, _escape/_unescape (shared: Codec.escapeDQ),
                               _decode_eds (top detection by look-ahead), _decode_node,
                               _decode_properties, _decode_edges, _decode (multi-graph loop), dumps
  delphin/codecs/edsjson.py    to_dict, from_dict
  delphin/codecs/edspenman.py  to_triples, from_triples
  delphin/eds/_eds.py          Node.__init__ (None edges/properties become {}), EDS
  delphin/util.py              _bfs (shared: Sem.bfs), LookaheadLexer.peek/accept_type/expect_type
  delphin/sembase.py           role_priority, property_priority (table generated from the code)
  delphin/lnk.py               Lnk (shared: Codec.Lnk)

What is NOT modelled here (parameters, see harness/c03.py):
  * the regex lexer `_EDSLexer`: the native decoder is modelled from the token list on; the
    correspondence check compares `toksE` with what the real lexer returns on the real encoder's
    text, and feeds the real lexer's tokens of arbitrary texts to `decodeEds`/`decodeAll`;
  * `json.dumps/loads` and the `penman` library (identity on the dict / triple fragments);
  * `str.upper()/lower()/islower()` outside ASCII (the generators keep cased characters ASCII).
-/
import Verif.Common.Codec
import Verif.Common.Sem
import Verif.Generated.TablesC03

namespace Verif.C03
open Verif.Codec

/-! ### strings -/

def upper (s : Str) : Str := s.map Char.toUpper
def lower (s : Str) : Str := s.map Char.toLower

/-- `str.islower()` (ASCII): at least one cased character and no upper-case one. -/
def isLowerPy (s : Str) : Bool := s.any Char.isLower && !s.any Char.isUpper

/-- `a < b` on `str` (lexicographic by code point). -/
def ltStr : Str → Str → Bool
  | [], [] => false
  | [], _ :: _ => true
  | _ :: _, [] => false
  | a :: as, b :: bs =>
    if a.toNat < b.toNat then true else if b.toNat < a.toNat then false else ltStr as bs

/-- `sep.join(parts)`. -/
def joinStr (sep : Str) : List Str → Str
  | [] => []
  | [p] => p
  | p :: ps => p ++ sep ++ joinStr sep ps

/-- stable insertion sort (`sorted(xs, key=…)`): `x` comes from an earlier position than the
elements of the already sorted tail, so it goes in front of everything that is not smaller. -/
def insertSorted {α} (lt : α → α → Bool) (x : α) : List α → List α
  | [] => [x]
  | y :: ys => if lt y x then y :: insertSorted lt x ys else x :: y :: ys

def sortStable {α} (lt : α → α → Bool) (xs : List α) : List α := xs.foldr (insertSorted lt) []

/-- `False < True`. -/
def ltBool (a b : Bool) : Bool := !a && b

/-- `role_priority(a) < role_priority(b)`: key `(ROLE != 'LBL', ROLE in ('BODY','CARG'), ROLE)`. -/
def roleLt (a b : Str) : Bool :=
  let ua := upper a
  let ub := upper b
  let a1 := ua != "LBL".toList
  let b1 := ub != "LBL".toList
  let a2 := ua == "BODY".toList || ua == "CARG".toList
  let b2 := ub == "BODY".toList || ub == "CARG".toList
  ltBool a1 b1 || (a1 == b1 && (ltBool a2 b2 || (a2 == b2 && ltStr ua ub)))

/-- `property_priority(prop)[0]` (a missing entry gets the length of the table). -/
def propIndex (p : Str) : Nat := (Verif.Tables.edsCommonProperties.map String.toList).idxOf (upper p)

/-- `property_priority(a) < property_priority(b)`: key `(index, prop)`. -/
def propLt (a b : Str) : Bool :=
  propIndex a < propIndex b || (propIndex a == propIndex b && ltStr a b)

abbrev Dict := List (Str × Str)

/-- `for k in sorted(d, key=role_priority)` with the values. -/
def sortEdges (d : Dict) : Dict := sortStable (fun a b => roleLt a.1 b.1) d
def sortProps (d : Dict) : Dict := sortStable (fun a b => propLt a.1 b.1) d

/-- `variable.UNSPECIFIC` -/
def unspecific : Str := Verif.Tables.edsUnspecific.toList

/-! ### EDS -/

structure Node where
  id : Str
  pred : Str
  type : Option Str
  edges : Dict
  props : Dict
  carg : Option Str
  lnk : Lnk
deriving Repr, DecidableEq

structure EDS where
  top : Option Str
  nodes : List Node
  identifier : Option Str
deriving Repr, DecidableEq

structure Opts where
  properties : Bool
  lnk : Bool
  showStatus : Bool
  indent : Bool
deriving Repr, DecidableEq

inductive Err where
  | syntax      -- EDSSyntaxError
  | stop        -- StopIteration (end of the token stream)
  | index       -- IndexError (peek beyond a non-empty buffer)
  | keyError    -- an edge target that is not a node (encoder)
  | lnkError    -- LnkError
  | valueError  -- ValueError
  | fuel        -- never returned for fuel = length of the input (each step consumes a token)
deriving Repr, DecidableEq

def EDS.ids (e : EDS) : List Str := e.nodes.map (·.id)

/-- the directed edges `(source, target)`; `_encode_eds` and `to_triples` enter both directions
into the adjacency sets. -/
def EDS.edgePairs (e : EDS) : List (Str × Str) :=
  e.nodes.flatMap (fun n => n.edges.map (fun p => (n.id, p.2)))

/-- `g[target]` exists for every edge target. -/
def EDS.targetsOk (e : EDS) : Bool := e.nodes.all (fun n => n.edges.all (fun p => p.2 ∈ e.ids))

/-- the start of `_bfs(g, start=e.top)`: the top, else the first key of `g`. -/
def EDS.start (e : EDS) : Str :=
  match e.top with
  | some t => t
  | none => match e.nodes with
    | n :: _ => n.id
    | [] => []

/-- `nidgrp` / `main_component` -/
def EDS.reach (e : EDS) : List Str := Verif.Sem.bfs (Verif.Sem.symm e.edgePairs) e.start

/-- `nidgrp != set(g)` -/
def EDS.fragmented (e : EDS) : Bool :=
  !(e.ids.all (fun i => i ∈ e.reach) && e.reach.all (fun i => i ∈ e.ids))

def truthyStr : Option Str → Bool
  | some (_ :: _) => true
  | _ => false

/-- `properties and (node.properties or node.type)` -/
def Node.showBlock (o : Opts) (n : Node) : Bool := o.properties && (!n.props.isEmpty || truthyStr n.type)

/-- `node.type or variable.UNSPECIFIC` -/
def Node.typeOrU (n : Node) : Str :=
  match n.type with
  | some (c :: cs) => c :: cs
  | _ => unspecific

/-! ### native encoder: text (`_encode_eds`, `_encode_node`) -/

def pairText (p : Str × Str) : Str := p.1 ++ ' ' :: p.2

def nodeText (o : Opts) (n : Node) : Str :=
  n.id ++ ':' :: n.pred
  ++ (if o.lnk && n.lnk.truthy then n.lnk.str else [])
  ++ (match n.carg with
      | some c => '(' :: '"' :: escapeDQ c ++ ['"', ')']
      | none => [])
  ++ (if n.showBlock o then
        '{' :: n.typeOrU
        ++ (if n.props.isEmpty then [] else ' ' :: joinStr [',', ' '] ((sortProps n.props).map pairText))
        ++ ['}']
      else [])
  ++ '[' :: joinStr [',', ' '] ((sortEdges n.edges).map pairText) ++ [']']

def EDS.topParts (o : Opts) (e : EDS) : List Str :=
  (match e.top with | some t => [t ++ [':']] | none => [])
  ++ (if o.showStatus && e.fragmented then ["(fragmented)".toList] else [])

def EDS.membership (o : Opts) (e : EDS) (n : Node) : Str :=
  if n.id ∈ e.reach then (if o.indent then [' '] else [])
  else (if o.showStatus then ['|'] else [' '])

def EDS.startText (o : Opts) (e : EDS) : Str :=
  if truthyStr e.identifier then
    '#' :: (e.identifier.getD []) ++ (if o.indent then ['\n'] else [' ']) ++ ['{']
  else ['{']

def endText (o : Opts) : Str := if o.indent then ['\n', '}'] else ['}']

/-- `_encode_eds` (for a graph whose edge targets are nodes). -/
def textE (o : Opts) (e : EDS) : Str :=
  if e.nodes.isEmpty then e.startText o ++ endText o
  else
    let tp := e.topParts o
    let parts := (if !tp.isEmpty || o.indent then [joinStr [' '] tp] else [])
      ++ e.nodes.map (fun n => e.membership o n ++ nodeText o n)
    e.startText o ++ joinStr (if o.indent then ['\n'] else [' ']) parts ++ endText o

/-- `encode`: `g[target]` raises KeyError for an edge to a node that does not exist. -/
def encode (o : Opts) (e : EDS) : Except Err Str :=
  if !e.nodes.isEmpty && !e.targetsOk then .error .keyError else .ok (textE o e)

/-- `dumps`: `' '` or two newlines between the graphs. -/
def dumpsText (o : Opts) (es : List EDS) : Str :=
  joinStr (if o.indent then ['\n', '\n'] else [' ']) (es.map (textE o))

/-! ### native encoder: token view of the same text

Token classes of `_EDSLexer`; the token text is the text of the class's group. -/

inductive K where
  | ident | lbrace | rbrace | gstatus | nstatus | lnk | carg | colon | comma | lbracket | rbracket | sym
deriving Repr, DecidableEq

abbrev Token := Tok K

def tk (k : K) (s : Str) : Token := ⟨k, s⟩
def tLbrace : Token := ⟨.lbrace, ['{']⟩
def tRbrace : Token := ⟨.rbrace, ['}']⟩
def tColon : Token := ⟨.colon, [':']⟩
def tComma : Token := ⟨.comma, [',']⟩
def tLbracket : Token := ⟨.lbracket, ['[']⟩
def tRbracket : Token := ⟨.rbracket, [']']⟩
def tNstatus : Token := ⟨.nstatus, ['|']⟩
def tFragmented : Token := ⟨.gstatus, "(fragmented)".toList⟩
def tSym (s : Str) : Token := ⟨.sym, s⟩

/-- `k v, k v, …` -/
def pairToks : Dict → List Token
  | [] => []
  | [p] => [tSym p.1, tSym p.2]
  | p :: ps => tSym p.1 :: tSym p.2 :: tComma :: pairToks ps

def nodeToks (o : Opts) (n : Node) : List Token :=
  [tSym n.id, tColon, tSym n.pred]
  ++ (if o.lnk && n.lnk.truthy then [tk .lnk n.lnk.str] else [])
  ++ (match n.carg with
      | some c => [tk .carg (escapeDQ c)]
      | none => [])
  ++ (if n.showBlock o then tLbrace :: tSym n.typeOrU :: pairToks (sortProps n.props) ++ [tRbrace] else [])
  ++ tLbracket :: pairToks (sortEdges n.edges) ++ [tRbracket]

def EDS.identToks (e : EDS) : List Token :=
  if truthyStr e.identifier then [tk .ident (e.identifier.getD [])] else []

def EDS.topToks (o : Opts) (e : EDS) : List Token :=
  (match e.top with | some t => [tSym t, tColon] | none => [])
  ++ (if o.showStatus && e.fragmented then [tFragmented] else [])

def EDS.statusToks (o : Opts) (e : EDS) (n : Node) : List Token :=
  if n.id ∈ e.reach then [] else (if o.showStatus then [tNstatus] else [])

def EDS.bodyToks (o : Opts) (e : EDS) : List Token :=
  e.nodes.flatMap (fun n => e.statusToks o n ++ nodeToks o n)

/-- the tokens of `textE o e` -/
def toksE (o : Opts) (e : EDS) : List Token :=
  if e.nodes.isEmpty then e.identToks ++ [tLbrace, tRbrace]
  else e.identToks ++ tLbrace :: e.topToks o ++ e.bodyToks o ++ [tRbrace]

/-! ### native decoder on a token list (`LookaheadLexer` operations, `_decode_eds`) -/

abbrev P (α : Type) := List Token → Except Err (α × List Token)

/-- `lexer.peek(n)`: StopIteration when nothing is left, IndexError when something but not
enough is left (`_buffer_fill` returns True and `buffer[n]` fails). -/
def peekAt (n : Nat) (ts : List Token) : Except Err Token :=
  match ts with
  | [] => .error .stop
  | _ => match ts[n]? with
    | some t => .ok t
    | none => .error .index

/-- `lexer.accept_type(k)` -/
def acceptK (k : K) : P (Option Str)
  | [] => .error .stop
  | t :: ts => if t.kind = k then .ok (some t.text, ts) else .ok (none, t :: ts)

/-- `lexer.expect_type(k)` -/
def expectK (k : K) : P Str
  | [] => .error .stop
  | t :: ts => if t.kind = k then .ok (t.text, ts) else .error .syntax

/-- the look-ahead that decides whether the graph has a top (the eight-row table of
`_decode_eds`): returns the top and the stream positioned at the first node. -/
def detectTop (ts : List Token) : Except Err (Option Str × List Token) := do
  let t0 ← peekAt 0 ts
  if t0.kind = .colon ∨ t0.kind = .gstatus ∨ t0.kind = .rbrace ∨ t0.kind = .nstatus then
    let (_, ts) ← acceptK .colon ts
    let (_, ts) ← acceptK .gstatus ts
    pure (none, ts)
  else
    let t2 ← peekAt 2 ts
    let isTop ← (if t2.kind = .gstatus ∨ t2.kind = .nstatus then pure true
                 else do
                   let t3 ← peekAt 3 ts
                   pure (decide (t3.kind = .colon)) : Except Err Bool)
    if isTop then
      let (top, ts) ← expectK .sym ts
      let (_, ts) ← expectK .colon ts
      let (_, ts) ← acceptK .gstatus ts
      pure (some top, ts)
    else pure (none, ts)

/-- `d[k] = v` -/
def dictSet (k v : Str) (d : Dict) : Dict := Verif.Sem.dset k v d

/-- the `while True: … if not lexer.accept_type(COMMA): break` loop of `_decode_properties` and
`_decode_edges`: the raw `(SYMBOL, SYMBOL)` pairs in order. -/
def pairsLoop : Nat → P (List (Str × Str))
  | 0, _ => .error .fuel
  | fuel + 1, ts => do
    let (a, ts) ← expectK .sym ts
    let (b, ts) ← expectK .sym ts
    let (c, ts) ← acceptK .comma ts
    match c with
    | none => pure ([(a, b)], ts)
    | some _ => do
      let (r, ts) ← pairsLoop fuel ts
      pure ((a, b) :: r, ts)

/-- `properties[prop.upper()] = val.lower()` in order. -/
def mkProps (ps : List (Str × Str)) : Dict := ps.foldl (fun d p => dictSet (upper p.1) (lower p.2) d) []
/-- `edges[role.upper()] = end` in order. -/
def mkEdges (ps : List (Str × Str)) : Dict := ps.foldl (fun d p => dictSet (upper p.1) p.2 d) []

/-- `_decode_properties` -/
def decodeProps (ts : List Token) : Except Err ((Option Str × Dict) × List Token) := do
  let (b, ts) ← acceptK .lbrace ts
  match b with
  | none => pure ((none, []), ts)
  | some _ => do
    let (ty, ts) ← expectK .sym ts
    let t ← peekAt 0 ts
    if t.kind ≠ .rbrace then
      let (ps, ts) ← pairsLoop (ts.length + 1) ts
      let (_, ts) ← expectK .rbrace ts
      pure ((some ty, mkProps ps), ts)
    else
      let (_, ts) ← expectK .rbrace ts
      pure ((some ty, []), ts)

/-- `_decode_edges` -/
def decodeEdges (ts : List Token) : Except Err (Dict × List Token) := do
  let (_, ts) ← expectK .lbracket ts
  let t ← peekAt 0 ts
  if t.kind ≠ .rbracket then
    let (ps, ts) ← pairsLoop (ts.length + 1) ts
    let (_, ts) ← expectK .rbracket ts
    pure (mkEdges ps, ts)
  else
    let (_, ts) ← expectK .rbracket ts
    pure ([], ts)

def liftLnk : Except LnkErr Lnk → Except Err Lnk
  | .ok l => .ok l
  | .error .lnkError => .error .lnkError
  | .error .valueError => .error .valueError

/-- `_decode_node` -/
def decodeNode (start : Str) (ts : List Token) : Except Err (Node × List Token) := do
  let (p, ts) ← expectK .sym ts
  let (l, ts) ← acceptK .lnk ts
  let lnk ← liftLnk (Lnk.parse (l.getD []))
  let (c, ts) ← acceptK .carg ts
  let ((ty, props), ts) ← decodeProps ts
  let (edges, ts) ← decodeEdges ts
  pure ({ id := start, pred := lower p, type := ty, edges := edges, props := props,
          carg := c.map unescapeDQ, lnk := lnk }, ts)

/-- the `while lexer.peek()[0] != RBRACE:` loop of `_decode_eds` -/
def decodeNodes : Nat → P (List Node)
  | 0, _ => .error .fuel
  | fuel + 1, ts => do
    let t ← peekAt 0 ts
    if t.kind = .rbrace then pure ([], ts)
    else
      let (_, ts) ← acceptK .nstatus ts
      let (start, ts) ← expectK .sym ts
      let (_, ts) ← expectK .colon ts
      let (n, ts) ← decodeNode start ts
      let (ns, ts) ← decodeNodes fuel ts
      pure (n :: ns, ts)

/-- `_decode_eds` -/
def decodeEds (ts : List Token) : Except Err (EDS × List Token) := do
  let (ident, ts) ← acceptK .ident ts
  let (_, ts) ← expectK .lbrace ts
  let (top, ts) ← detectTop ts
  let (nodes, ts) ← decodeNodes (ts.length + 1) ts
  let (_, ts) ← expectK .rbrace ts
  pure ({ top := top, nodes := nodes, identifier := ident }, ts)

/-- `decode(s)` after lexing: the first graph of the stream. -/
def decodeOne (ts : List Token) : Except Err EDS := do
  let (e, _) ← decodeEds ts
  pure e

/-- `list(_decode(lines))`: graphs until the stream is empty; a StopIteration in the middle of a
graph ends the list silently, every other error propagates. -/
def decodeAll : Nat → List Token → Except Err (List EDS)
  | 0, _ => .error .fuel
  | _ + 1, [] => .ok []
  | fuel + 1, t :: ts =>
    match decodeEds (t :: ts) with
    | .error .stop => .ok []
    | .error e => .error e
    | .ok (e, rest) => do
      let es ← decodeAll fuel rest
      pure (e :: es)

def loadsToks (ts : List Token) : Except Err (List EDS) := decodeAll (ts.length + 1) ts

/-! ### what `decode (encode o e)` is -/

/-- a node as the native decoder returns it from the encoder's output: predicates lower-cased,
roles / property names upper-cased and values lower-cased while the dictionaries are rebuilt from
the printed (sorted) order, suppressed parts absent. -/
def normNode (o : Opts) (n : Node) : Node :=
  { id := n.id
    pred := lower n.pred
    type := if n.showBlock o then some n.typeOrU else none
    edges := mkEdges (sortEdges n.edges)
    props := if n.showBlock o then mkProps (sortProps n.props) else []
    carg := n.carg
    lnk := if o.lnk && n.lnk.truthy then n.lnk else .unspec }

def normE (o : Opts) (e : EDS) : EDS :=
  { top := e.top
    nodes := e.nodes.map (normNode o)
    identifier := if truthyStr e.identifier then e.identifier else none }

/-! ### EDS-JSON (`to_dict`, `from_dict`) -/

structure JNode where
  label : Str
  edges : Dict
  lnk : Option (Int × Int)
  type : Option Str
  props : Option Dict
  carg : Option Str
deriving Repr, DecidableEq

structure JEds where
  top : Option Str
  nodes : List (Str × JNode)
deriving Repr, DecidableEq

def toJNode (properties lnk : Bool) (n : Node) : JNode :=
  { label := n.pred
    edges := n.edges
    lnk := if lnk then some (n.lnk.cfrom, n.lnk.cto) else none
    type := n.type
    props := if properties && !n.props.isEmpty then some n.props else none
    carg := n.carg }

/-- `to_dict`: `nodes[node.id] = nd` in node order. -/
def toDict (properties lnk : Bool) (e : EDS) : JEds :=
  { top := e.top
    nodes := e.nodes.foldl (fun d n => Verif.Sem.dset n.id (toJNode properties lnk n) d) [] }

def ofJNode (id : Str) (j : JNode) : Node :=
  { id := id
    pred := j.label
    type := j.type
    edges := j.edges
    props := j.props.getD []
    carg := j.carg
    lnk := match j.lnk with
      | some (a, b) => .charspan a b
      | none => .unspec }

/-- `(n.cfrom, -n.cto)` compared as tuples. -/
def spanLt (a b : Node) : Bool :=
  a.lnk.cfrom < b.lnk.cfrom || (a.lnk.cfrom == b.lnk.cfrom && -a.lnk.cto < -b.lnk.cto)

/-- `from_dict`: nodes in dictionary order, then `nodes.sort(key=(cfrom, -cto))` (stable). -/
def fromDict (d : JEds) : EDS :=
  { top := d.top
    nodes := sortStable spanLt (d.nodes.map (fun p => ofJNode p.1 p.2))
    identifier := none }

/-- a node after the JSON round trip: the alignment is reduced to its character span; properties
are absent when suppressed; the type is kept (it is stored outside the property map). -/
def viewJNode (properties lnk : Bool) (n : Node) : Node :=
  { n with
    props := if properties then n.props else []
    lnk := if lnk then .charspan n.lnk.cfrom n.lnk.cto else .unspec }

/-! ### EDS-PENMAN (`to_triples`, `from_triples`) -/

abbrev Triple := Str × Str × Str

def quoted (s : Str) : Str := '"' :: s ++ ['"']

def nodeTriples (properties lnk : Bool) (n : Node) : List Triple :=
  [(n.id, ":instance".toList, n.pred)]
  ++ (if lnk && n.lnk.truthy then [(n.id, ":lnk".toList, quoted n.lnk.str)] else [])
  ++ (match n.carg with | some c => [(n.id, ":carg".toList, quoted (escapeDQ c))] | none => [])
  ++ (match n.type with | some t => [(n.id, ":type".toList, t)] | none => [])
  ++ (if properties then (sortProps n.props).map (fun p => (n.id, ':' :: lower p.1, p.2)) else [])
  ++ (sortEdges n.edges).map (fun p => (n.id, ':' :: p.1, p.2))

/-- `sorted(e.nodes, key=lambda n: n.id != e.top)`: stable sort on a Boolean key. -/
def topFirst (e : EDS) : List Node :=
  e.nodes.filter (fun n => some n.id == e.top) ++ e.nodes.filter (fun n => !(some n.id == e.top))

/-- `to_triples` (for a graph whose edge targets are nodes). -/
def toTriples (properties lnk : Bool) (e : EDS) : List Triple :=
  (topFirst e).flatMap (fun n => if n.id ∈ e.reach then nodeTriples properties lnk n else [])

structure PRec where
  pred : Option Str
  type : Option Str
  edges : Dict
  props : Dict
  lnk : Lnk
  carg : Option Str
deriving Repr, DecidableEq

def PRec.empty : PRec := { pred := none, type := none, edges := [], props := [], lnk := .unspec, carg := none }

/-- `s.strip('"')` -/
def stripQ (s : Str) : Str := ((s.dropWhile (· = '"')).reverse.dropWhile (· = '"')).reverse

/-- update of the record of `src` (created at the end when missing) -/
def recUpdate (src : Str) (f : PRec → PRec) : List (Str × PRec) → List (Str × PRec)
  | [] => [(src, f PRec.empty)]
  | (k, r) :: d => if k = src then (k, f r) :: d else (k, r) :: recUpdate src f d

/-- one iteration of the loop of `from_triples` -/
def tripleStep (d : List (Str × PRec)) (t : Triple) : Except Err (List (Str × PRec)) :=
  let src := t.1
  let rel := t.2.1.dropWhile (· = ':')
  let tgt := t.2.2
  if rel = "instance".toList then .ok (recUpdate src (fun r => { r with pred := some tgt }) d)
  else if rel = "lnk".toList then
    match liftLnk (Lnk.parse (stripQ tgt)) with
    | .ok l => .ok (recUpdate src (fun r => { r with lnk := l }) d)
    | .error e => .error e
  else if rel = "carg".toList then
    match tgt with
    | [] => .error .index
    | c :: cs =>
      let v := if c = '"' ∧ (c :: cs).getLast? = some '"' then unescapeDQ cs.dropLast else tgt
      .ok (recUpdate src (fun r => { r with carg := some v }) d)
  else if rel = "type".toList then .ok (recUpdate src (fun r => { r with type := some tgt }) d)
  else if isLowerPy rel then
    .ok (recUpdate src (fun r => { r with props := dictSet (upper rel) tgt r.props }) d)
  else .ok (recUpdate src (fun r => { r with edges := dictSet rel tgt r.edges }) d)

/-- `from_triples`: the records in order of first appearance as a source; the top is the first. -/
def fromTriples (ts : List Triple) : Except Err (Option Str × List (Str × PRec)) := do
  let d ← ts.foldlM tripleStep []
  pure ((d.head?.map (·.1)), d)

/-- the record a node comes back as through PENMAN -/
def viewPRec (properties lnk : Bool) (n : Node) : PRec :=
  { pred := some n.pred
    type := n.type
    edges := sortEdges n.edges
    props := if properties then sortProps n.props else []
    lnk := if lnk && n.lnk.truthy then n.lnk else .unspec
    carg := n.carg }

end Verif.C03
