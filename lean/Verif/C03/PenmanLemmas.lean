/-
C03 — EDS-PENMAN: reading back the triples of a graph connected from its top (`fromTriples_toTriples`).
Core Lean only.
-/
import Verif.C03.Model
import Verif.Common.CodecLemmas

namespace Verif.C03
open Verif.Codec

def reservedRels : List Str := ["instance".toList, "lnk".toList, "carg".toList, "type".toList]

/-- what EDS-PENMAN can carry for one node: property names are upper-case words with at least one letter
(they are written lower-cased and recognised by `islower()`), roles are not all-lower-case, neither collides with
the four reserved relations nor starts with a colon, and both maps have distinct keys. -/
structure PenExpressible (n : Node) : Prop where
  propKeys : ∀ p ∈ n.props, isLowerPy (lower p.1) = true ∧ upper (lower p.1) = p.1
      ∧ lower p.1 ∉ reservedRels ∧ (lower p.1).head? ≠ some ':'
  roles : ∀ p ∈ n.edges, isLowerPy p.1 = false ∧ p.1 ∉ reservedRels ∧ p.1.head? ≠ some ':'
  propsNodup : (n.props.map (·.1)).Nodup
  edgesNodup : (n.edges.map (·.1)).Nodup

/-! ### the stable sort is a permutation -/

theorem insertSorted_perm' {α} (lt : α → α → Bool) (x : α) (ys : List α) :
    (insertSorted lt x ys).Perm (x :: ys) := by
  induction ys with
  | nil => exact List.Perm.refl _
  | cons y ys ih =>
    simp only [insertSorted]
    split
    · exact (List.Perm.cons y ih).trans (List.Perm.swap x y ys)
    · exact List.Perm.refl _

theorem sortStable_perm' {α} (lt : α → α → Bool) (xs : List α) : (sortStable lt xs).Perm xs := by
  induction xs with
  | nil => exact List.Perm.refl _
  | cons x xs ih =>
    show (insertSorted lt x (sortStable lt xs)).Perm (x :: xs)
    exact (insertSorted_perm' lt x _).trans (List.Perm.cons x ih)

/-! ### dictionaries built key by key -/

theorem dictSet_fresh (k v : Str) (d : Dict) (h : k ∉ d.map (·.1)) : dictSet k v d = d ++ [(k, v)] := by
  induction d with
  | nil => rfl
  | cons a d ih =>
    obtain ⟨k', v'⟩ := a
    simp only [List.map_cons, List.mem_cons, not_or] at h
    show (if k' = k then (k', v) :: d else (k', v') :: dictSet k v d) = _
    rw [if_neg (Ne.symm h.1), ih h.2]; rfl

theorem foldl_dictSet (ps acc : Dict) (hnd : ((acc ++ ps).map (·.1)).Nodup) :
    ps.foldl (fun a p => dictSet p.1 p.2 a) acc = acc ++ ps := by
  induction ps generalizing acc with
  | nil => simp
  | cons p ps ih =>
    have hfresh : p.1 ∉ acc.map (·.1) := by
      intro hm
      simp only [List.map_append, List.map_cons] at hnd
      have := (List.nodup_append.1 hnd).2.2 p.1 hm p.1 (by simp)
      exact this rfl
    simp only [List.foldl_cons]
    rw [dictSet_fresh _ _ _ hfresh, ih]
    · simp
    · simpa using hnd

/-! ### record updates -/

theorem recUpdate_fresh (src : Str) (f : PRec → PRec) (d : List (Str × PRec)) (h : src ∉ d.map (·.1)) :
    recUpdate src f d = d ++ [(src, f PRec.empty)] := by
  induction d with
  | nil => rfl
  | cons a d ih =>
    obtain ⟨k, r⟩ := a
    simp only [List.map_cons, List.mem_cons, not_or] at h
    simp only [recUpdate]
    rw [if_neg (Ne.symm h.1), ih h.2]; rfl

theorem recUpdate_last (src : Str) (f : PRec → PRec) (d : List (Str × PRec)) (r : PRec)
    (h : src ∉ d.map (·.1)) :
    recUpdate src f (d ++ [(src, r)]) = d ++ [(src, f r)] := by
  induction d with
  | nil => simp [recUpdate]
  | cons a d ih =>
    obtain ⟨k, r'⟩ := a
    simp only [List.map_cons, List.mem_cons, not_or] at h
    simp only [List.cons_append, recUpdate]
    rw [if_neg (Ne.symm h.1), ih h.2]

/-! ### strings -/

theorem dropColon (s : Str) (h : s.head? ≠ some ':') : (':' :: s).dropWhile (· = ':') = s := by
  cases s with
  | nil => simp [List.dropWhile]
  | cons c s =>
    have hc : c ≠ ':' := by simpa using h
    simp [List.dropWhile, hc]

theorem dropWhile_head {α} (p : α → Bool) (l : List α) (h : ∀ c, l.head? = some c → p c = false) :
    l.dropWhile p = l := by
  cases l with
  | nil => rfl
  | cons c l => simp [List.dropWhile, h c rfl]

theorem stripQ_quoted (s : Str) (h1 : s.head? ≠ some '"') (h2 : s.getLast? ≠ some '"') :
    stripQ (quoted s) = s := by
  cases s with
  | nil => simp [stripQ, quoted, List.dropWhile]
  | cons c s =>
    have hc : c ≠ '"' := by simpa using h1
    have e1 : (quoted (c :: s)).dropWhile (· = '"') = (c :: s) ++ ['"'] := by
      simp [quoted, List.dropWhile, hc]
    have e2 : ((c :: s) ++ ['"']).reverse = '"' :: (c :: s).reverse := by simp
    have e3 : ('"' :: (c :: s).reverse).dropWhile (· = '"') = (c :: s).reverse := by
      show ((c :: s).reverse).dropWhile (· = '"') = _
      apply dropWhile_head
      intro x hx
      rw [List.head?_reverse] at hx
      have : x ≠ '"' := by
        intro hq; subst hq; exact h2 hx
      simpa using this
    unfold stripQ
    rw [e1, e2, e3, List.reverse_reverse]

theorem lnkStr_shape (l : Lnk) (h : l.truthy = true) :
    ∃ x, l.str = '<' :: x ++ ['>'] := by
  cases l with
  | unspec => cases h
  | charspan a b => exact ⟨intStr a ++ ':' :: intStr b, by simp [Lnk.str]⟩
  | chartspan a b => exact ⟨intStr a ++ '#' :: intStr b, by simp [Lnk.str]⟩
  | edge n => exact ⟨'@' :: intStr n, by simp [Lnk.str]⟩
  | tokens ts => exact ⟨_, rfl⟩

theorem stripQ_lnk (l : Lnk) (h : l.truthy = true) : stripQ (quoted l.str) = l.str := by
  obtain ⟨x, hx⟩ := lnkStr_shape l h
  rw [hx]
  apply stripQ_quoted
  · simp
  · have : ('<' :: x ++ ['>']).getLast? = some '>' := by
      show ('<' :: (x ++ ['>'])).getLast? = some '>'
      rw [← List.cons_append, List.getLast?_concat]
    rw [this]; decide

/-! ### single steps -/

theorem foldlM_append_ok {α β} (f : β → α → Except Err β) (l1 l2 : List α) (a b : β)
    (h : l1.foldlM f a = .ok b) : (l1 ++ l2).foldlM f a = l2.foldlM f b := by
  rw [List.foldlM_append, h]; rfl

theorem step_instance (d : List (Str × PRec)) (src tgt : Str) :
    tripleStep d (src, ":instance".toList, tgt)
      = .ok (recUpdate src (fun r => { r with pred := some tgt }) d) := by
  have : ":instance".toList.dropWhile (· = ':') = "instance".toList := by decide
  simp only [tripleStep, this, if_true]

theorem step_lnk (d : List (Str × PRec)) (src : Str) (l : Lnk) (h : l.truthy = true) :
    tripleStep d (src, ":lnk".toList, quoted l.str)
      = .ok (recUpdate src (fun r => { r with lnk := l }) d) := by
  have e : ":lnk".toList.dropWhile (· = ':') = "lnk".toList := by decide
  have n1 : "lnk".toList ≠ "instance".toList := by decide
  simp only [tripleStep, e, if_neg n1, if_true, stripQ_lnk l h, lnk_roundtrip, liftLnk]

theorem step_carg (d : List (Str × PRec)) (src c : Str) :
    tripleStep d (src, ":carg".toList, quoted (escapeDQ c))
      = .ok (recUpdate src (fun r => { r with carg := some c }) d) := by
  have e : ":carg".toList.dropWhile (· = ':') = "carg".toList := by decide
  have n1 : "carg".toList ≠ "instance".toList := by decide
  have n2 : "carg".toList ≠ "lnk".toList := by decide
  have q : quoted (escapeDQ c) = '"' :: (escapeDQ c ++ ['"']) := rfl
  have hl : ('"' :: (escapeDQ c ++ ['"'])).getLast? = some '"' := by
    rw [← List.cons_append, List.getLast?_concat]
  have hd : (escapeDQ c ++ ['"']).dropLast = escapeDQ c := by simp
  simp only [tripleStep, e, if_neg n1, if_neg n2, if_true, q, hl, hd, and_self, unescapeDQ_escapeDQ]

theorem step_type (d : List (Str × PRec)) (src tgt : Str) :
    tripleStep d (src, ":type".toList, tgt)
      = .ok (recUpdate src (fun r => { r with type := some tgt }) d) := by
  have e : ":type".toList.dropWhile (· = ':') = "type".toList := by decide
  have n1 : "type".toList ≠ "instance".toList := by decide
  have n2 : "type".toList ≠ "lnk".toList := by decide
  have n3 : "type".toList ≠ "carg".toList := by decide
  simp only [tripleStep, e, if_neg n1, if_neg n2, if_neg n3, if_true]

theorem notReserved (r : Str) (h : r ∉ reservedRels) :
    r ≠ "instance".toList ∧ r ≠ "lnk".toList ∧ r ≠ "carg".toList ∧ r ≠ "type".toList := by
  simp only [reservedRels, List.mem_cons, List.not_mem_nil, or_false, not_or] at h
  exact h

theorem step_prop (d : List (Str × PRec)) (src r tgt : Str)
    (hres : r ∉ reservedRels) (hc : r.head? ≠ some ':') (hl : isLowerPy r = true) :
    tripleStep d (src, ':' :: r, tgt)
      = .ok (recUpdate src (fun x => { x with props := dictSet (upper r) tgt x.props }) d) := by
  obtain ⟨n1, n2, n3, n4⟩ := notReserved r hres
  simp only [tripleStep, dropColon r hc, if_neg n1, if_neg n2, if_neg n3, if_neg n4, hl, if_true]

theorem step_edge (d : List (Str × PRec)) (src r tgt : Str)
    (hres : r ∉ reservedRels) (hc : r.head? ≠ some ':') (hl : isLowerPy r = false) :
    tripleStep d (src, ':' :: r, tgt)
      = .ok (recUpdate src (fun x => { x with edges := dictSet r tgt x.edges }) d) := by
  obtain ⟨n1, n2, n3, n4⟩ := notReserved r hres
  simp only [tripleStep, dropColon r hc, if_neg n1, if_neg n2, if_neg n3, if_neg n4, hl]
  rfl

/-! ### the groups of one node -/

theorem group_props (d : List (Str × PRec)) (id : Str) (hid : id ∉ d.map (·.1)) (ps : Dict) (r : PRec)
    (hk : ∀ p ∈ ps, isLowerPy (lower p.1) = true ∧ upper (lower p.1) = p.1
      ∧ lower p.1 ∉ reservedRels ∧ (lower p.1).head? ≠ some ':') :
    (ps.map (fun p => ((id, ':' :: lower p.1, p.2) : Triple))).foldlM tripleStep (d ++ [(id, r)])
      = .ok (d ++ [(id, { r with props := ps.foldl (fun a p => dictSet p.1 p.2 a) r.props })]) := by
  induction ps generalizing r with
  | nil => rfl
  | cons p ps ih =>
    obtain ⟨h1, h2, h3, h4⟩ := hk p (by simp)
    simp only [List.map_cons, List.foldlM_cons, List.foldl_cons]
    rw [step_prop _ _ _ _ h3 h4 h1, recUpdate_last _ _ _ _ hid, h2]
    exact ih _ (fun q hq => hk q (by simp [hq]))

theorem group_edges (d : List (Str × PRec)) (id : Str) (hid : id ∉ d.map (·.1)) (ps : Dict) (r : PRec)
    (hk : ∀ p ∈ ps, isLowerPy p.1 = false ∧ p.1 ∉ reservedRels ∧ p.1.head? ≠ some ':') :
    (ps.map (fun p => ((id, ':' :: p.1, p.2) : Triple))).foldlM tripleStep (d ++ [(id, r)])
      = .ok (d ++ [(id, { r with edges := ps.foldl (fun a p => dictSet p.1 p.2 a) r.edges })]) := by
  induction ps generalizing r with
  | nil => rfl
  | cons p ps ih =>
    obtain ⟨h1, h2, h3⟩ := hk p (by simp)
    simp only [List.map_cons, List.foldlM_cons, List.foldl_cons]
    rw [step_edge _ _ _ _ h2 h3 h1, recUpdate_last _ _ _ _ hid]
    exact ih _ (fun q hq => hk q (by simp [hq]))

theorem group_lnk (d : List (Str × PRec)) (id : Str) (hid : id ∉ d.map (·.1)) (l : Bool) (k : Lnk) (r : PRec) :
    (if l && k.truthy then [((id, ":lnk".toList, quoted k.str) : Triple)] else []).foldlM tripleStep (d ++ [(id, r)])
      = .ok (d ++ [(id, { r with lnk := if l && k.truthy then k else r.lnk })]) := by
  by_cases h : (l && k.truthy) = true
  · have hk : k.truthy = true := by
      rw [Bool.and_eq_true] at h; exact h.2
    simp only [if_pos h, List.foldlM_cons, List.foldlM_nil]
    rw [step_lnk _ _ _ hk, recUpdate_last _ _ _ _ hid]; rfl
  · simp only [if_neg h]; rfl

theorem group_carg (d : List (Str × PRec)) (id : Str) (hid : id ∉ d.map (·.1)) (c : Option Str) (r : PRec) :
    (match c with
      | some c => [((id, ":carg".toList, quoted (escapeDQ c)) : Triple)]
      | none => []).foldlM tripleStep (d ++ [(id, r)])
      = .ok (d ++ [(id, { r with carg := match c with | some c => some c | none => r.carg })]) := by
  cases c with
  | none => rfl
  | some c =>
    simp only [List.foldlM_cons, List.foldlM_nil]
    rw [step_carg, recUpdate_last _ _ _ _ hid]; rfl

theorem group_type (d : List (Str × PRec)) (id : Str) (hid : id ∉ d.map (·.1)) (c : Option Str) (r : PRec) :
    (match c with
      | some t => [((id, ":type".toList, t) : Triple)]
      | none => []).foldlM tripleStep (d ++ [(id, r)])
      = .ok (d ++ [(id, { r with type := match c with | some c => some c | none => r.type })]) := by
  cases c with
  | none => rfl
  | some c =>
    simp only [List.foldlM_cons, List.foldlM_nil]
    rw [step_type, recUpdate_last _ _ _ _ hid]; rfl

theorem group_props_if (d : List (Str × PRec)) (id : Str) (hid : id ∉ d.map (·.1)) (b : Bool) (ps : Dict) (r : PRec)
    (hk : ∀ p ∈ ps, isLowerPy (lower p.1) = true ∧ upper (lower p.1) = p.1
      ∧ lower p.1 ∉ reservedRels ∧ (lower p.1).head? ≠ some ':') :
    (if b then ps.map (fun p => ((id, ':' :: lower p.1, p.2) : Triple)) else []).foldlM tripleStep (d ++ [(id, r)])
      = .ok (d ++ [(id, { r with props := if b then ps.foldl (fun a p => dictSet p.1 p.2 a) r.props else r.props })]) := by
  cases b with
  | false => rfl
  | true => exact group_props d id hid ps r hk

/-! ### one node -/

theorem sortProps_perm (d : Dict) : (sortProps d).Perm d := sortStable_perm' _ d
theorem sortEdges_perm (d : Dict) : (sortEdges d).Perm d := sortStable_perm' _ d

theorem node_fold (p l : Bool) (n : Node) (hexp : PenExpressible n) (d : List (Str × PRec))
    (hid : n.id ∉ d.map (·.1)) :
    (nodeTriples p l n).foldlM tripleStep d = .ok (d ++ [(n.id, viewPRec p l n)]) := by
  have hpk : ∀ q ∈ sortProps n.props, isLowerPy (lower q.1) = true ∧ upper (lower q.1) = q.1
      ∧ lower q.1 ∉ reservedRels ∧ (lower q.1).head? ≠ some ':' :=
    fun q hq => hexp.propKeys q ((sortProps_perm n.props).mem_iff.1 hq)
  have hek : ∀ q ∈ sortEdges n.edges, isLowerPy q.1 = false ∧ q.1 ∉ reservedRels ∧ q.1.head? ≠ some ':' :=
    fun q hq => hexp.roles q ((sortEdges_perm n.edges).mem_iff.1 hq)
  have hpn : ((([] : Dict) ++ sortProps n.props).map (·.1)).Nodup := by
    rw [List.nil_append]
    exact (((sortProps_perm n.props).map (·.1)).nodup_iff).2 hexp.propsNodup
  have hen : ((([] : Dict) ++ sortEdges n.edges).map (·.1)).Nodup := by
    rw [List.nil_append]
    exact (((sortEdges_perm n.edges).map (·.1)).nodup_iff).2 hexp.edgesNodup
  have h0 : [((n.id, ":instance".toList, n.pred) : Triple)].foldlM tripleStep d
      = .ok (d ++ [(n.id, { PRec.empty with pred := some n.pred })]) := by
    simp only [List.foldlM_cons, List.foldlM_nil]
    rw [step_instance, recUpdate_fresh _ _ _ hid]; rfl
  have h1 := (foldlM_append_ok tripleStep _ _ _ _ h0).trans (group_lnk d n.id hid l n.lnk _)
  have h2 := (foldlM_append_ok tripleStep _ _ _ _ h1).trans (group_carg d n.id hid n.carg _)
  have h3 := (foldlM_append_ok tripleStep _ _ _ _ h2).trans (group_type d n.id hid n.type _)
  have h4 := (foldlM_append_ok tripleStep _ _ _ _ h3).trans (group_props_if d n.id hid p (sortProps n.props) _ hpk)
  have h5 := (foldlM_append_ok tripleStep _ _ _ _ h4).trans (group_edges d n.id hid (sortEdges n.edges) _ hek)
  unfold nodeTriples
  refine h5.trans (congrArg (fun r => Except.ok (d ++ [(n.id, r)])) ?_)
  clear h0 h1 h2 h3 h4 h5
  obtain ⟨id, pred, type, edges, props, carg, lnk⟩ := n
  simp only [viewPRec, PRec.empty, foldl_dictSet _ [] hpn, foldl_dictSet _ [] hen, List.nil_append]
  cases type <;> cases carg <;> rfl

/-! ### a list of nodes with distinct identifiers (key lemma) -/

theorem nodes_fold (p l : Bool) (ns : List Node) (hexp : ∀ n ∈ ns, PenExpressible n)
    (hnd : (ns.map (·.id)).Nodup) (d : List (Str × PRec))
    (hdis : ∀ n ∈ ns, n.id ∉ d.map (·.1)) :
    (ns.flatMap (nodeTriples p l)).foldlM tripleStep d
      = .ok (d ++ ns.map (fun n => (n.id, viewPRec p l n))) := by
  induction ns generalizing d with
  | nil => simp only [List.flatMap_nil, List.map_nil, List.append_nil]; rfl
  | cons n ns ih =>
    simp only [List.map_cons, List.nodup_cons] at hnd
    simp only [List.flatMap_cons, List.map_cons]
    rw [foldlM_append_ok _ _ _ _ _ (node_fold p l n (hexp n (by simp)) d (hdis n (by simp)))]
    rw [ih (fun m hm => hexp m (by simp [hm])) hnd.2]
    · simp
    · intro m hm
      simp only [List.map_append, List.map_cons, List.map_nil, List.mem_append, List.mem_cons,
        List.not_mem_nil, or_false, not_or]
      refine ⟨hdis m (by simp [hm]), ?_⟩
      intro heq
      exact hnd.1 (heq ▸ List.mem_map_of_mem hm)

/-! ### `topFirst` and `toTriples` -/

theorem topFirst_perm (e : EDS) : (topFirst e).Perm e.nodes :=
  List.filter_append_perm _ _

theorem topFirst_head_aux (t : Str) (ns rest : List Node) (hmem : t ∈ ns.map (·.id)) :
    ((ns.filter (fun n => some n.id == some t) ++ rest).head?.map (·.id)) = some t := by
  induction ns with
  | nil => simp at hmem
  | cons n ns ih =>
    by_cases h : n.id = t
    · simp [h]
    · have hm : t ∈ ns.map (·.id) := by
        simp only [List.map_cons, List.mem_cons] at hmem
        rcases hmem with hm | hm
        · exact absurd hm.symm h
        · exact hm
      simp only [List.filter_cons]
      have : (some n.id == some t) = false := by simp [h]
      rw [this]
      exact ih hm

theorem topFirst_head (e : EDS) (t : Str) (htop : e.top = some t) (hmem : t ∈ e.ids) :
    ((topFirst e).head?.map (·.id)) = some t := by
  unfold topFirst
  rw [htop]
  exact topFirst_head_aux t e.nodes _ hmem

theorem toTriples_eq (p l : Bool) (e : EDS) (hconn : ∀ i ∈ e.ids, i ∈ e.reach) :
    toTriples p l e = (topFirst e).flatMap (nodeTriples p l) := by
  have hall : ∀ n ∈ topFirst e, n.id ∈ e.reach := fun n hn =>
    hconn n.id (List.mem_map_of_mem ((topFirst_perm e).mem_iff.1 hn))
  unfold toTriples
  generalize topFirst e = ns at hall
  induction ns with
  | nil => rfl
  | cons n ns ih =>
    simp only [List.flatMap_cons]
    rw [if_pos (hall n (by simp)), ih (fun m hm => hall m (by simp [hm]))]

/-! ### the round trip -/

/-- [core] "EDS-PENMAN does the same for graphs connected from the top" (penman library = identity on triples):
reading back the triples of a graph that is connected from its top gives the top and, for every node (top first, then
the others in order), the same predicate, type, role-labelled edges, properties, constant and alignment; with
`properties = false` the properties are absent (the type stays: PENMAN stores it as its own triple), with
`lnk = false` the alignment is absent. -/
theorem fromTriples_toTriples (p l : Bool) (e : EDS) (t : Str)
    (htop : e.top = some t) (hmem : t ∈ e.ids) (hnd : e.ids.Nodup)
    (hconn : ∀ i ∈ e.ids, i ∈ e.reach)
    (hexp : ∀ n ∈ e.nodes, PenExpressible n) :
    fromTriples (toTriples p l e) = .ok (some t, (topFirst e).map (fun n => (n.id, viewPRec p l n))) := by
  have hperm := topFirst_perm e
  have h := nodes_fold p l (topFirst e) (fun n hn => hexp n (hperm.mem_iff.1 hn))
    (((hperm.map (fun n : Node => n.id)).nodup_iff).2 hnd) [] (by simp)
  have hh := topFirst_head e t htop hmem
  unfold fromTriples
  rw [toTriples_eq p l e hconn, h, List.nil_append]
  show Except.ok (_, _) = _
  rw [List.head?_map, Option.map_map]
  exact congrArg (fun x => Except.ok (x, _)) hh

end Verif.C03
