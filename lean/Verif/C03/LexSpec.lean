/-
C03 — specification-side definitions for the text-level theorems of the native format: which strings the
lexer reads back as the encoder wrote them (`lexOKb`, a decidable predicate), and the big-step relation
`Lexes line tokens` the proofs are organised around.
-/
import Verif.C03.Lexer

namespace Verif.C03.Lex
open Verif.Codec Verif.LnkLex Verif.C03

/-- no character at which `str.splitlines()` breaks a line -/
def noLBb (s : Str) : Bool := s.all (fun c => !isLineBreak c)

/-- what a SYMBOL token can carry so that the lexer reads it back as ONE symbol wherever the encoder puts it:
not empty; none of the ten characters the class excludes (blank, line feed, `: , < ( [ ] { }`); no line break;
not starting with `|` (read as a status marker) nor with `#` (may be read as the start of an IDENTIFIER — exactly
when `{` or the end of the line follows the run, e.g. a predicate `#p` before a property block, or a top `#t` at
the end of the first line of the indented layout). -/
def symOKb (s : Str) : Bool :=
  !s.isEmpty && s.all (fun c => symOk c && !isLineBreak c) && s.head? != some '|' && s.head? != some '#'

/-- the alignments the LNK token class can carry: character and chart spans with any integers, a non-empty list of
non-negative token ids, a non-negative edge id. -/
def lnkOKb : Lnk → Bool
  | .unspec => false
  | .charspan _ _ => true
  | .chartspan _ _ => true
  | .tokens ts => !ts.isEmpty && ts.all (fun t => decide (0 ≤ t))
  | .edge n => decide (0 ≤ n)

/-- `[^\s\{]+` -/
def identOKb (s : Str) : Bool := s.all identOk

def pairOKb (p : Str × Str) : Bool := symOKb p.1 && symOKb p.2

def nodeOKb (o : Opts) (n : Node) : Bool :=
  symOKb n.id && symOKb n.pred
  && (!(o.lnk && n.lnk.truthy) || lnkOKb n.lnk)
  && (match n.carg with | some c => noLBb c | none => true)
  && (!n.showBlock o || (symOKb n.typeOrU && n.props.all pairOKb))
  && n.edges.all pairOKb

/-- [the explicit decidable predicate] everything the encoder prints for this graph under these options is read back
by the lexer as the token it was printed as: identifiers, predicates, top, types, property names and values, roles
and targets are symbols (`symOKb`); printed alignments are of a kind the LNK class carries; constants are
arbitrary strings without line breaks (quotes and backslashes are escaped); the graph identifier has no white
space and no `{`. -/
def lexOKb (o : Opts) (e : EDS) : Bool :=
  (match e.identifier with | some s => identOKb s | none => true)
  && (match e.top with | some t => symOKb t | none => true)
  && e.nodes.all (nodeOKb o)

/-- big-step reading of one line: `Lexes s ts` — the successive `finditer` matches on `s` are the tokens `ts`
(blanks skipped, no UNEXPECTED). -/
inductive Lexes : Str → List Token → Prop
  | nil : Lexes [] []
  | skip {r : Str} {ts : List Token} : Lexes r ts → Lexes (' ' :: r) ts
  | tok {c : Char} {r r' : Str} {t : Token} {ts : List Token} :
      step c r = .tok t r' → r'.length ≤ r.length → Lexes r' ts → Lexes (c :: r) (t :: ts)

/-- what may follow a symbol: the end of the line or a character outside the SYMBOL class -/
def Boundary (rest : Str) : Prop := ∀ x r, rest = x :: r → symOk x = false

/-- Prop form of `symOKb` -/
def SymOK (s : Str) : Prop :=
  s ≠ [] ∧ (∀ c ∈ s, symOk c = true ∧ isLineBreak c = false) ∧ s.head? ≠ some '|' ∧ s.head? ≠ some '#'

end Verif.C03.Lex
