/-
C03 — specification-side definitions used by the theorems (no executable content of the model):
what an EDS must look like for the native format to carry it (`Expressible`), and the graph the
property says comes back (`viewE`).
-/
import Verif.C03.Model

namespace Verif.C03
open Verif.Codec

/-- What the native EDS format can express of a graph.  Every clause is forced by the decoder:
predicates and property values are lower-cased on reading, roles and property names upper-cased
(two names that differ in case only would collapse), the empty string is not a node type (it is
printed as the placeholder), an empty graph has no place for a top, an empty identifier is not
printed.  Lexical well-formedness (identifiers, predicates, … are SYMBOL tokens) is not a
hypothesis at the token level; it is what the correspondence with the real lexer checks. -/
structure Expressible (e : EDS) : Prop where
  preds : ∀ n ∈ e.nodes, lower n.pred = n.pred
  props : ∀ n ∈ e.nodes, ∀ p ∈ n.props, upper p.1 = p.1 ∧ lower p.2 = p.2
  roles : ∀ n ∈ e.nodes, ∀ p ∈ n.edges, upper p.1 = p.1
  propsNodup : ∀ n ∈ e.nodes, (n.props.map (·.1)).Nodup
  edgesNodup : ∀ n ∈ e.nodes, (n.edges.map (·.1)).Nodup
  typed : ∀ n ∈ e.nodes, n.type ≠ some []
  top : e.nodes = [] → e.top = none
  ident : e.identifier ≠ some []

/-- F38: the hypothesis the native format forces beyond the property's quantifier — no node is
untyped and has properties (the property block cannot be written without a type). -/
def NoUntypedProps (e : EDS) : Prop := ∀ n ∈ e.nodes, n.type = none → n.props = []

/-- the type that comes back through the native format when properties are printed: the
placeholder `u` for an untyped node with properties (F38), else the type. -/
def typeView (n : Node) : Option Str :=
  match n.type with
  | none => if n.props.isEmpty then none else some unspecific
  | some t => some t

/-- a node as the property says it comes back: same identifier, predicate, constant and edges;
type and properties when `properties`, alignment when `lnk` (an alignment that is "false" —
unspecified or `<-1:-1>` — is the unspecified one); the two dictionaries in printed order. -/
def viewNode (o : Opts) (n : Node) : Node :=
  { id := n.id
    pred := n.pred
    type := if o.properties then typeView n else none
    edges := sortEdges n.edges
    props := if o.properties then sortProps n.props else []
    carg := n.carg
    lnk := if o.lnk && n.lnk.truthy then n.lnk else .unspec }

def viewE (o : Opts) (e : EDS) : EDS :=
  { top := e.top, nodes := e.nodes.map (viewNode o), identifier := e.identifier }

end Verif.C03
