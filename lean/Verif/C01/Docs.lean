/-
C01 — multi-item documents of the tree/dictionary codecs (the list API: dumps/loads, dump/load).

  MRX       `_encode(ms, …)`: an `mrs-list` element with one `mrs` child per item;
            `_decode(fh)`: every element with the tag `mrs` that `iterparse` closes, in document order
            (on trees in which `mrs` elements do not nest — all trees the encoder builds — that is
            `Xml.iter "mrs"`).
  MRS-JSON  `dumps`: the list of the items' dictionaries; `loads`: `from_dict` of every member.
-/
import Verif.C01.Model

namespace Verif.C01
open Verif.Codec Verif.Tables

/-- `mrx._encode(ms, properties, lnk)`. -/
def toXmlList (o : Opts) (ms : List MRS) : Xml := xEl "mrs-list" [] (ms.map (toXml o))

/-- `mrx._decode` (loads/load) on the parsed document (`none`: some exception). -/
def ofXmlList (x : Xml) : Option (List MRS) := mapMOpt ofXml (Xml.iter "mrs" x)

/-- the `data` of `mrsjson.dumps/dump`. -/
def toDictList (o : Opts) (ms : List MRS) : J := .arr (ms.map (toDict o))

/-- `mrsjson.loads/load` on the parsed document (`none`: TypeError/KeyError). -/
def fromDictList (j : J) : Option (List MRS) :=
  match j with
  | .arr xs => mapMOpt fromDict xs
  | .obj kvs => mapMOpt (fun (kv : Str × J) => fromDict (.str kv.1)) kvs   -- iterating a dict yields its keys
  | _ => none

end Verif.C01
