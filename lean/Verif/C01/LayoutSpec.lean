/-
C01 — the indented layout of `_encode_mrs` (indent=True) as a text, built from the same token groups
as `toks`:  "[ " ++ "\n  ".join(parts) ++ " ]" with parts = surface info, TOP line, INDEX line,
"RELS: < " ++ ("\n" ++ 10 blanks).join(one line per EP) ++ " >", the HCONS section, the ICONS section
(empty parts left out); inside a part tokens are laid out as in the single-line layout (`Lex.render`).
-/
import Verif.C01.LexSpec
import Verif.C01.SimpleLemmas

namespace Verif.C01.Lex
open Verif.Codec Verif.Tables Verif.C01

/-- `sep.join(parts)`. -/
def joinStr (sep : Str) : List Str → Str
  | [] => []
  | [p] => p
  | p :: ps => p ++ sep ++ joinStr sep ps

/-- the token list of every EP (the groups `encRels` concatenates), with the threaded `varprops`. -/
def relGroups (o : Opts) : Dict Props → List EP → List (List T) × Dict Props
  | vp, [] => ([], vp)
  | vp, ep :: rest =>
    let (t1, vp1) := encRel o vp ep
    let (ts, vp') := relGroups o vp1 rest
    (t1 :: ts, vp')

def relsSep : Str := '\n' :: List.replicate 10 ' '
def partSep : Str := ['\n', ' ', ' ']

/-- the text parts of `_encode_mrs` with `indent=True`, empty ones left out. -/
def partsInd (o : Opts) (m : MRS) : List Str :=
  let vp0 := SimpleL.vp0 o m
  let vp1 := SimpleL.ixVp vp0 m.index
  let (groups, vp2) := relGroups o vp1 m.rels
  let relsPart : Str :=
    if groups.isEmpty then [] else "RELS: < ".toList ++ joinStr relsSep (groups.map render) ++ " >".toList
  ([render (SimpleL.surfT o m), render (SimpleL.topT m.top), render (SimpleL.ixT vp0 m.index), relsPart,
    render (section_ "HCONS" (encHcons m.hcons)), render (section_ "ICONS" (encIcons vp2 m.icons).1)]).filter
      (fun p => !p.isEmpty)

/-- `simplemrs.encode(m, properties, lnk, indent=True)`. -/
def renderInd (o : Opts) (m : MRS) : Str :=
  '[' :: ' ' :: joinStr partSep (partsInd o m) ++ [' ', ']']

/-- `simplemrs.dumps(ms, …, indent=True)`: items on separate lines. -/
def renderIndMany (o : Opts) (ms : List MRS) : Str := joinStr ['\n'] (ms.map (renderInd o))

end Verif.C01.Lex
