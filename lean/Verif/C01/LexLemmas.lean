/-
C01 — the lexer reads back the single-line layout of any list of lexically expressible tokens.
-/
import Verif.Common.CodecLemmas
import Verif.C01.LexSpec

namespace Verif.C01.LexL
open Verif.Codec Verif.Tables Verif.C01 Verif.C01.Lex

/-! ### characters -/

theorem isDigit_isD {c : Char} (h : c.isDigit = true) : isD c = true := by
  simp only [Char.isDigit, Bool.and_eq_true, decide_eq_true_eq] at h
  simp only [isD, decide_eq_true_eq, Char.le_def]
  exact ⟨h.1, h.2⟩

theorem lb_space {c : Char} (h : isLineBreak c = true) : isPySpace c = true := by
  simp only [isLineBreak, Bool.or_eq_true, decide_eq_true_eq] at h
  simp only [isPySpace, Bool.or_eq_true, Bool.and_eq_true, decide_eq_true_eq]
  omega

theorem plain_space {c : Char} (h : plain c = true) : isPySpace c = false := by
  simp [plain] at h
  exact h.1.1.1.1.1.1.1

theorem plain_noLB {c : Char} (h : plain c = true) : isLineBreak c = false := by
  cases hh : isLineBreak c with
  | false => rfl
  | true => have := lb_space hh; rw [plain_space h] at this; cases this

/-! ### takeWhile / dropWhile -/

theorem tw_stop (p : Char → Bool) (a rest : Str) (ha : ∀ c ∈ a, p c = true)
    (h : ∀ x r, rest = x :: r → p x = false) :
    (a ++ rest).takeWhile p = a ∧ (a ++ rest).dropWhile p = rest := by
  induction a with
  | nil =>
    cases rest with
    | nil => simp
    | cons x r => simp [h x r rfl]
  | cons c a ih =>
    have hc := ha c (by simp)
    have := ih (fun c hc => ha c (by simp [hc]))
    simp [hc, this.1, this.2]

/-- non-empty ASCII digit strings -/
def Dig (D : Str) : Prop := D ≠ [] ∧ ∀ c ∈ D, isD c = true

theorem dig_natStr (n : Nat) : Dig (natStr n) :=
  ⟨natStr_ne_nil n, fun _ hc => isDigit_isD (mem_natStr_isDigit hc)⟩

/-- what may follow a digit string -/
def NoD (rest : Str) : Prop := ∀ x r, rest = x :: r → isD x = false

theorem digits1_dig {D rest : Str} (hD : Dig D) (h : NoD rest) :
    digits1 (D ++ rest) = some (D, rest) := by
  have := tw_stop isD D rest hD.2 h
  unfold digits1
  simp [this.1, this.2, hD.1]

theorem optMinus_ne (d : Char) (r : Str) (h : d ≠ '-') : optMinus (d :: r) = ([], d :: r) := by
  unfold optMinus; split <;> simp_all

theorem sInt_dig {D rest : Str} (hD : Dig D) (h : NoD rest) :
    sInt (D ++ rest) = some (D, rest) := by
  obtain ⟨hne, hall⟩ := hD
  cases D with
  | nil => exact absurd rfl hne
  | cons d ds =>
    have hd : d ≠ '-' := by
      intro e; have := hall d (by simp); rw [e] at this; revert this; decide
    have h1 := digits1_dig (D := d :: ds) ⟨hne, hall⟩ h
    simp only [List.cons_append] at h1 ⊢
    simp [sInt, optMinus_ne _ _ hd, h1]

theorem sInt_minus_dig {D rest : Str} (hD : Dig D) (h : NoD rest) :
    sInt ('-' :: D ++ rest) = some ('-' :: D, rest) := by
  have h1 := digits1_dig hD h
  simp [sInt, optMinus, h1]

/-- `-?\d+` strings -/
def SInt (A : Str) : Prop := Dig A ∨ ∃ D, Dig D ∧ A = '-' :: D

theorem sint_intStr (i : Int) : SInt (intStr i) := by
  cases i with
  | ofNat n => exact Or.inl (dig_natStr n)
  | negSucc n => exact Or.inr ⟨_, dig_natStr (n + 1), rfl⟩

theorem sInt_sint {A rest : Str} (hA : SInt A) (h : NoD rest) : sInt (A ++ rest) = some (A, rest) := by
  rcases hA with hA | ⟨D, hD, rfl⟩
  · exact sInt_dig hA h
  · exact sInt_minus_dig hD h

theorem noD_cons {c : Char} {r : Str} (h : isD c = false) : NoD (c :: r) := by
  intro x r' e; cases e; exact h

/-! ### the LNK class -/

theorem mLnk_span {A B : Str} (c : Char) (rest : Str) (hc : c = ':' ∨ c = '#') (hA : SInt A) (hB : SInt B) :
    mLnk (A ++ (c :: (B ++ ('>' :: rest)))) = some ('<' :: (A ++ (c :: (B ++ ['>']))), rest) := by
  have hcd : isD c = false := by rcases hc with rfl | rfl <;> decide
  have h1 := sInt_sint (rest := c :: (B ++ ('>' :: rest))) hA (noD_cons hcd)
  have h2 := sInt_sint (rest := '>' :: rest) hB (noD_cons (by decide))
  simp [mLnk, h1, h2, hc]

theorem sInt_at (r : Str) : sInt ('@' :: r) = none := by
  have : isD '@' = false := by decide
  simp [sInt, optMinus, digits1, this]

theorem mLnk_edge {D : Str} (rest : Str) (hD : Dig D) :
    mLnk ('@' :: (D ++ ('>' :: rest))) = some ('<' :: '@' :: (D ++ ['>']), rest) := by
  have h2 := digits1_dig (rest := '>' :: rest) hD (noD_cons (by decide))
  simp [mLnk, sInt_at, h2]

def tailStr : List Str → Str
  | [] => []
  | D :: Ds => ' ' :: (D ++ tailStr Ds)

theorem joinSp_tail (D : Str) (Ds : List Str) : joinSp (D :: Ds) = D ++ tailStr Ds := by
  induction Ds generalizing D with
  | nil => simp [joinSp, tailStr]
  | cons E Ds ih => simp [joinSp, tailStr, ih E]

theorem noD_tail (Ds : List Str) (rest : Str) : NoD (tailStr Ds ++ ('>' :: rest)) := by
  cases Ds with
  | nil => exact noD_cons (by decide)
  | cons D Ds => exact noD_cons (by decide)

theorem tokTail_ok (Ds : List Str) (hDs : ∀ D ∈ Ds, Dig D) : ∀ (fuel : Nat) (rest : Str),
    (tailStr Ds ++ ('>' :: rest)).length < fuel →
    tokTail fuel (tailStr Ds ++ ('>' :: rest)) = some (tailStr Ds ++ ['>'], rest) := by
  induction Ds with
  | nil =>
    intro fuel rest hf
    cases fuel with
    | zero => cases hf
    | succ f => simp [tailStr, tokTail]
  | cons D Ds ih =>
    intro fuel rest hf
    cases fuel with
    | zero => cases hf
    | succ f =>
      have hD := hDs D (by simp)
      have hd := digits1_dig (rest := tailStr Ds ++ ('>' :: rest)) hD (noD_tail Ds rest)
      have hsp := tw_stop (fun c => decide (c = ' ')) [] (D ++ (tailStr Ds ++ ('>' :: rest))) (by simp)
        (by
          intro x r e
          obtain ⟨hne, hall⟩ := hD
          cases D with
          | nil => exact absurd rfl hne
          | cons d ds =>
            simp only [List.cons_append, List.cons.injEq] at e
            have := hall d (by simp)
            rw [e.1] at this
            cases hx : decide (x = ' ') with
            | false => rfl
            | true => simp at hx; rw [hx] at this; revert this; decide)
      have hih := ih (fun E hE => hDs E (by simp [hE])) f rest (by
        simp [tailStr] at hf ⊢; omega)
      simp only [List.nil_append] at hsp
      simp [tailStr, tokTail, hsp.1, hsp.2, hd, hih]

theorem mLnk_tokens {D : Str} (Ds : List Str) (rest : Str) (hD : Dig D) (hDs : ∀ E ∈ Ds, Dig E) :
    mLnk (D ++ (tailStr Ds ++ ('>' :: rest))) = some ('<' :: (D ++ (tailStr Ds ++ ['>'])), rest) := by
  have h1 := sInt_dig (rest := tailStr Ds ++ ('>' :: rest)) hD (noD_tail Ds rest)
  have h2 := digits1_dig (rest := tailStr Ds ++ ('>' :: rest)) hD (noD_tail Ds rest)
  have h3 := tokTail_ok Ds hDs ((tailStr Ds ++ ('>' :: rest)).length + 1) rest (Nat.lt_succ_self _)
  obtain ⟨hne, hall⟩ := hD
  cases D with
  | nil => exact absurd rfl hne
  | cons d ds =>
    have hd : d ≠ '@' := by
      intro e; have := hall d (by simp); rw [e] at this; revert this; decide
    unfold mLnk
    cases Ds with
    | nil =>
      simp only [tailStr, List.nil_append] at h1 h2 h3 ⊢
      simp only [h1]
      simp only [List.cons_append] at h2 ⊢
      split
      · rename_i x hx; simp at hx
      · split
        · rename_i r hx; simp at hx; exact absurd hx.1 hd
        · simp at h2 h3; simp [h2, h3]
    | cons E Es =>
      simp only [tailStr, List.cons_append] at h1 h2 h3 ⊢
      simp only [h1]
      split
      · rename_i x hx; simp at hx
      · split
        · rename_i r hx; simp at hx; exact absurd hx.1 hd
        · simp at h2 h3; simp [h2, h3]

/-- the class `[-0-9:#@ ]` -/
def cls (c : Char) : Bool := c = '-' || isD c || c = ':' || c = '#' || c = '@' || c = ' '

theorem cls_sint {A : Str} (hA : SInt A) : ∀ c ∈ A, cls c = true := by
  intro c hc
  rcases hA with hA | ⟨D, hD, rfl⟩
  · simp [cls, hA.2 c hc]
  · rcases List.mem_cons.1 hc with rfl | hc
    · decide
    · simp [cls, hD.2 c hc]

theorem cls_tail (Ds : List Str) (hDs : ∀ E ∈ Ds, Dig E) : ∀ c ∈ tailStr Ds, cls c = true := by
  induction Ds with
  | nil => intro c hc; simp [tailStr] at hc
  | cons E Es ih =>
    intro c hc
    simp only [tailStr, List.mem_cons, List.mem_append] at hc
    rcases hc with rfl | hc | hc
    · decide
    · simp [cls, (hDs E (by simp)).2 c hc]
    · exact ih (fun F hF => hDs F (by simp [hF])) c hc

theorem intStr_nonneg {i : Int} (h : 0 ≤ i) : Dig (intStr i) := by
  cases i with
  | ofNat n => exact dig_natStr n
  | negSucc n => exact absurd h (by omega)

/-- shape of an expressible alignment: `<inner>` over the class, read back by `mLnk`. -/
theorem lnk_shape (l : Lnk) (hl : LnkOK l) : ∃ inner, l.str = '<' :: (inner ++ ['>']) ∧
    (∀ c ∈ inner, cls c = true) ∧ ∀ rest, mLnk (inner ++ ('>' :: rest)) = some (l.str, rest) := by
  cases l with
  | unspec => exact absurd hl (by simp [LnkOK])
  | charspan a b =>
    refine ⟨intStr a ++ (':' :: intStr b), by simp [Lnk.str], ?_, ?_⟩
    · intro c hc
      simp only [List.mem_append, List.mem_cons] at hc
      rcases hc with hc | rfl | hc
      · exact cls_sint (sint_intStr a) c hc
      · decide
      · exact cls_sint (sint_intStr b) c hc
    · intro rest
      have := mLnk_span ':' rest (Or.inl rfl) (sint_intStr a) (sint_intStr b)
      simpa [Lnk.str] using this
  | chartspan a b =>
    refine ⟨intStr a ++ ('#' :: intStr b), by simp [Lnk.str], ?_, ?_⟩
    · intro c hc
      simp only [List.mem_append, List.mem_cons] at hc
      rcases hc with hc | rfl | hc
      · exact cls_sint (sint_intStr a) c hc
      · decide
      · exact cls_sint (sint_intStr b) c hc
    · intro rest
      have := mLnk_span '#' rest (Or.inr rfl) (sint_intStr a) (sint_intStr b)
      simpa [Lnk.str] using this
  | edge n =>
    have hn : Dig (intStr n) := intStr_nonneg hl
    refine ⟨'@' :: intStr n, by simp [Lnk.str], ?_, ?_⟩
    · intro c hc
      rcases List.mem_cons.1 hc with rfl | hc
      · decide
      · simp [cls, hn.2 c hc]
    · intro rest
      have := mLnk_edge rest hn
      simpa [Lnk.str] using this
  | tokens ts =>
    obtain ⟨hne, hpos⟩ := hl
    cases ts with
    | nil => exact absurd rfl hne
    | cons t ts =>
      have hD : Dig (intStr t) := intStr_nonneg (hpos t (by simp))
      have hDs : ∀ E ∈ ts.map intStr, Dig E := by
        intro E hE
        obtain ⟨u, hu, rfl⟩ := List.mem_map.1 hE
        exact intStr_nonneg (hpos u (by simp [hu]))
      have hstr : (Lnk.tokens (t :: ts)).str = '<' :: (intStr t ++ (tailStr (ts.map intStr) ++ ['>'])) := by
        simp [Lnk.str, joinSp_tail]
      refine ⟨intStr t ++ tailStr (ts.map intStr), by simp [hstr], ?_, ?_⟩
      · intro c hc
        rcases List.mem_append.1 hc with hc | hc
        · simp [cls, hD.2 c hc]
        · exact cls_tail _ hDs c hc
      · intro rest
        have := mLnk_tokens (ts.map intStr) rest hD hDs
        rw [hstr]
        simpa using this

/-! ### what follows a token in the layout -/

def Glued (rest : Str) : Prop := ∃ l r, LnkOK l ∧ rest = l.str ++ (' ' :: r)

def Stop (rest : Str) : Prop := rest = [] ∨ (∃ r, rest = ' ' :: r) ∨ Glued rest

def NextOK (t : T) (rest : Str) : Prop :=
  rest = [] ∨ (∃ r, rest = ' ' :: r) ∨ ((t.kind = K.dq ∨ t.kind = K.pred ∨ t.kind = K.symbol) ∧ Glued rest)

theorem NextOK.stop {t : T} {rest : Str} (h : NextOK t rest) : Stop rest := by
  rcases h with h | h | ⟨_, h⟩
  · exact Or.inl h
  · exact Or.inr (Or.inl h)
  · exact Or.inr (Or.inr h)

theorem lnkish_glued (inner r : Str) (h : ∀ c ∈ inner, cls c = true) :
    lnkish (inner ++ ('>' :: ' ' :: r)) = true := by
  have := tw_stop cls inner ('>' :: ' ' :: r) h (by intro x r' e; cases e; decide)
  show (match List.dropWhile cls (inner ++ ('>' :: ' ' :: r)) with
    | '>' :: c :: _ => isPySpace c | _ => false) = true
  rw [this.2]
  show isPySpace ' ' = true
  decide

theorem glued_shape {rest : Str} (h : Glued rest) : ∃ r, rest = '<' :: r ∧ lnkish r = true := by
  obtain ⟨l, r, hl, rfl⟩ := h
  obtain ⟨inner, hstr, hcls, _⟩ := lnk_shape l hl
  refine ⟨inner ++ ('>' :: ' ' :: r), by simp [hstr], lnkish_glued inner r hcls⟩

theorem stop_head {rest : Str} (h : Stop rest) : rest = [] ∨ ∃ r, rest = ' ' :: r ∨ rest = '<' :: r := by
  rcases h with h | ⟨r, h⟩ | h
  · exact Or.inl h
  · exact Or.inr ⟨r, Or.inl h⟩
  · obtain ⟨r, h, _⟩ := glued_shape h
    exact Or.inr ⟨r, Or.inr h⟩

theorem runLt_stop (ok : Char → Bool) (a rest : Str) (ha : ∀ c ∈ a, ok c = true ∧ c ≠ '<')
    (hs : Stop rest) (hsp : ok ' ' = false) : runLt ok (a ++ rest) = (a, rest) := by
  induction a with
  | nil =>
    rcases hs with rfl | ⟨r, rfl⟩ | h
    · simp [runLt]
    · simp [runLt, hsp]
    · obtain ⟨r, rfl, hr⟩ := glued_shape h
      simp [runLt, hr]
  | cons c a ih =>
    have hc := ha c (by simp)
    have := ih (fun c hc => ha c (by simp [hc]))
    simp [runLt, hc.1, hc.2, this]

/-! ### one `finditer` step per token class -/

theorem mLnk_nil : mLnk [] = none := by
  simp [mLnk, sInt, optMinus, digits1]

theorem mLnk_blank (r : Str) : mLnk (' ' :: r) = none := by
  have : isD ' ' = false := by decide
  simp [mLnk, sInt, optMinus, digits1, this]

theorem step_blank (r : Str) : step ' ' r = .skip r := by
  have h1 : featOk ' ' = false := by decide
  have h2 : symOk ' ' = false := by decide
  have h3 : isPySpace ' ' = true := by decide
  simp [step, runLt, h1, h2, h3]

theorem step_lbrack (r : Str) : step '[' r = .tok tLB r := by simp [step]
theorem step_rbrack (r : Str) : step ']' r = .tok tRB r := by simp [step]
theorem step_rangle (r : Str) : step '>' r = .tok tRA r := by simp [step]
theorem step_langle (r : Str) (h : r = [] ∨ ∃ r', r = ' ' :: r') : step '<' r = .tok tLA r := by
  rcases h with rfl | ⟨r', rfl⟩
  · simp [step, mLnk_nil]
  · simp [step, mLnk_blank]

theorem step_lnk (l : Lnk) (hl : LnkOK l) (rest : Str) :
    ∃ r, l.str = '<' :: r ∧ step '<' (r ++ rest) = .tok (tk .lnk l.str) rest := by
  obtain ⟨inner, hstr, _, hm⟩ := lnk_shape l hl
  refine ⟨inner ++ ['>'], hstr, ?_⟩
  have := hm rest
  simp [step, this]

theorem step_dq (s rest : Str) : step '"' (escapeDQ s ++ ('"' :: rest)) = .tok (tk .dq (escapeDQ s)) rest := by
  simp [step, scanDQ_escapeDQ]

theorem plain_facts {c : Char} (h : plain c = true) :
    isPySpace c = false ∧ c ≠ '"' ∧ c ≠ '\'' ∧ c ≠ ':' ∧ c ≠ '<' ∧ c ≠ '>' ∧ c ≠ '[' ∧ c ≠ ']' := by
  simpa [plain, and_assoc] using h

theorem plain_featOk {c : Char} (h : plain c = true) : featOk c = true := by
  obtain ⟨h1, _, _, h4, h5, h6, h7, h8⟩ := plain_facts h
  simp [featOk, h1, h4, h5, h6, h7, h8]

theorem plain_symOk {c : Char} (h : plain c = true) : symOk c = true := by
  obtain ⟨h1, _, _, _, _, _, _, h8⟩ := plain_facts h
  have a : c ≠ ' ' := by intro e; rw [e] at h1; revert h1; decide
  have b : c ≠ '\n' := by intro e; rw [e] at h1; revert h1; decide
  simp [symOk, a, b, h8]

theorem stop_featOk {rest : Str} (hs : Stop rest) : ∀ x r, rest = x :: r → featOk x = false := by
  intro x r e
  rcases stop_head hs with h | ⟨r', h | h⟩
  · rw [h] at e; cases e
  · rw [h] at e; cases e; decide
  · rw [h] at e; cases e; decide

theorem step_feature (c : Char) (tx rest : Str) (hall : ∀ x ∈ c :: tx, plain x = true) (hc : c ≠ '_') :
    step c (tx ++ (':' :: rest)) = .tok (tF (c :: tx)) rest := by
  obtain ⟨h1, h2, h3, h4, h5, h6, h7, h8⟩ := plain_facts (hall c (by simp))
  have hf := plain_featOk (hall c (by simp))
  have htw := tw_stop featOk tx (':' :: rest) (fun x hx => plain_featOk (hall x (by simp [hx])))
    (by intro x r e; cases e; decide)
  simp [step, h2, h3, h5, h6, h7, h8, hc, hf, htw.1, htw.2, tF]

theorem step_symbol (c : Char) (tx rest : Str) (hall : ∀ x ∈ c :: tx, plain x = true) (hc : c ≠ '_')
    (hs : Stop rest) : step c (tx ++ rest) = .tok (tS (c :: tx)) rest := by
  obtain ⟨h1, h2, h3, h4, h5, h6, h7, h8⟩ := plain_facts (hall c (by simp))
  have hf := plain_featOk (hall c (by simp))
  have htw := tw_stop featOk tx rest (fun x hx => plain_featOk (hall x (by simp [hx]))) (stop_featOk hs)
  have hrun := runLt_stop symOk (c :: tx) rest
    (fun x hx => ⟨plain_symOk (hall x hx), (plain_facts (hall x hx)).2.2.2.2.1⟩) hs (by decide)
  simp only [List.cons_append] at hrun
  rcases stop_head hs with rfl | ⟨r', rfl | rfl⟩ <;>
    (try simp only [List.append_nil] at htw hrun) <;>
    simp [step, h2, h3, h5, h6, h7, h8, hc, hf, htw.1, htw.2, hrun, tS]

theorem rel_chars : "_rel".toList = ['_', 'r', 'e', 'l'] := by decide

theorem sw_rel_stop {rest : Str} (hs : Stop rest) : startsWith "_rel".toList rest = false := by
  rw [rel_chars]
  rcases stop_head hs with rfl | ⟨r', rfl | rfl⟩ <;> simp [startsWith]

theorem mPred_nosense (l : Str) (p : Char) (rest : Str) (hl : l ≠ [])
    (hall : ∀ c ∈ l, plain c = true ∧ c ≠ '_') (hp : p ∈ posChars) (hs : Stop rest) :
    mPred (l ++ ('_' :: p :: rest)) = some ('_' :: (l ++ ['_', p]), rest) := by
  have htw := tw_stop (fun c => !isPySpace c && c ≠ '_') l ('_' :: p :: rest)
    (fun c hc => by simp [(plain_facts (hall c hc).1).1, (hall c hc).2])
    (by intro x r e; cases e; decide)
  have hsw := sw_rel_stop hs
  rw [rel_chars] at hsw
  unfold mPred
  simp only [htw.1, htw.2]
  rcases stop_head hs with rfl | ⟨r', rfl | rfl⟩ <;> simp [hl, hp, hsw]

theorem mPred_sense (l : Str) (p : Char) (sn rest : Str) (hl : l ≠ [])
    (hall : ∀ c ∈ l, plain c = true ∧ c ≠ '_') (hp : p ∈ posChars)
    (hsn : sn ≠ []) (hsall : ∀ c ∈ sn, plain c = true ∧ c ≠ '_') (hs : Stop rest) :
    mPred (l ++ ('_' :: p :: '_' :: (sn ++ rest))) = some ('_' :: (l ++ ('_' :: p :: '_' :: sn)), rest) := by
  have htw := tw_stop (fun c => !isPySpace c && c ≠ '_') l ('_' :: p :: '_' :: (sn ++ rest))
    (fun c hc => by simp [(plain_facts (hall c hc).1).1, (hall c hc).2])
    (by intro x r e; cases e; decide)
  have hrun := runLt_stop (fun c => !isPySpace c && c ≠ '_') sn rest
    (fun c hc => ⟨by simp [(plain_facts (hsall c hc).1).1, (hsall c hc).2],
      (plain_facts (hsall c hc).1).2.2.2.2.1⟩) hs (by decide)
  have hsw := sw_rel_stop hs
  rw [rel_chars] at hsw
  simp at hrun
  unfold mPred
  simp only [htw.1, htw.2]
  simp [hl, hp, hsw, hrun, hsn]

theorem step_pred (tx rest : Str) (h : SurfaceText tx) (hs : Stop rest) :
    ∃ r, tx = '_' :: r ∧ step '_' (r ++ rest) = .tok (tk .pred tx) rest := by
  obtain ⟨l, p, hl, hall, hp, h | ⟨sn, hsn, hsall, h⟩⟩ := h
  · refine ⟨l ++ ['_', p], h, ?_⟩
    have := mPred_nosense l p rest hl hall hp hs
    simp [step, this, h]
  · refine ⟨l ++ ('_' :: p :: '_' :: sn), h, ?_⟩
    have := mPred_sense l p sn rest hl hall hp hsn hsall hs
    simp [step, this, h]

/-- the key lemma: at the head of `tokText t ++ rest` one `finditer` step yields exactly `t`. -/
theorem step_tok (t : T) (rest : Str) (ht : TokOK t) (hn : NextOK t rest) :
    ∃ c r, tokText t = c :: r ∧ step c (r ++ rest) = .tok t rest := by
  have hs := hn.stop
  obtain ⟨k, tx⟩ := t
  cases k <;> simp only [TokOK] at ht
  · subst ht; exact ⟨'[', [], rfl, step_lbrack _⟩
  · subst ht; exact ⟨']', [], rfl, step_rbrack _⟩
  · obtain ⟨l, hl, rfl⟩ := ht
    obtain ⟨r, hr, hst⟩ := step_lnk l hl rest
    exact ⟨'<', r, hr, hst⟩
  · obtain ⟨s, rfl, _⟩ := ht
    exact ⟨'"', escapeDQ s ++ ['"'], rfl, by simpa [tk] using step_dq s rest⟩
  · obtain ⟨r, hr, hst⟩ := step_pred tx rest ht hs
    exact ⟨'_', r, hr, hst⟩
  · subst ht
    refine ⟨'<', [], rfl, ?_⟩
    rcases hn with h | h | ⟨h, _⟩
    · exact step_langle _ (Or.inl h)
    · exact step_langle _ (Or.inr h)
    · simp at h
  · subst ht; exact ⟨'>', [], rfl, step_rangle _⟩
  · obtain ⟨hne, hall, hh⟩ := ht
    cases tx with
    | nil => exact absurd rfl hne
    | cons c tx =>
      have hc : c ≠ '_' := by intro e; apply hh; simp [e]
      exact ⟨c, tx ++ [':'], rfl, by simpa [tF, tk] using step_feature c tx rest hall hc⟩
  · obtain ⟨hne, hall, hh⟩ := ht
    cases tx with
    | nil => exact absurd rfl hne
    | cons c tx =>
      have hc : c ≠ '_' := by intro e; apply hh; simp [e]
      exact ⟨c, tx, rfl, step_symbol c tx rest hall hc hs⟩

/-! ### the line -/

theorem render_lnk_glued (u : T) (rs : List T) (hok : ∀ t ∈ u :: rs, TokOK t) (hp : LnkPlaced (u :: rs))
    (hk : u.kind = K.lnk) : Glued (render (u :: rs)) := by
  have hu := hok u (by simp)
  simp only [TokOK, hk] at hu
  obtain ⟨l, hl, htx⟩ := hu
  have htt : tokText u = l.str := by simp [tokText, hk, htx]
  cases rs with
  | nil => exact absurd hk hp
  | cons v rs' =>
    have hv : ¬ (v.kind = K.lnk ∧ u.kind ≠ K.lbrack) := by
      intro ⟨h1, _⟩
      have := hp.1 h1
      rw [hk] at this
      simp at this
    refine ⟨l, render (v :: rs'), hl, ?_⟩
    simp [render, hv, htt]

theorem lexLine_nil (fuel : Nat) : lexLine fuel [] = some [] := by
  cases fuel <;> simp [lexLine]

theorem lexLine_render : ∀ (ts : List T), (∀ t ∈ ts, TokOK t) → LnkPlaced ts →
    ∀ fuel, (render ts).length < fuel → lexLine fuel (render ts) = some ts
  | [], _, _, fuel, _ => by simp [render, lexLine_nil]
  | [t], hok, _, fuel, hf => by
    obtain ⟨c, r, htt, hst⟩ := step_tok t [] (hok t (by simp)) (Or.inl rfl)
    simp only [render, htt] at hf ⊢
    cases fuel with
    | zero => cases hf
    | succ f =>
      simp only [List.append_nil] at hst
      simp [lexLine, hst, lexLine_nil]
  | t :: u :: rs, hok, hp, fuel, hf => by
    have ih := lexLine_render (u :: rs) (fun x hx => hok x (by simp [hx])) hp.2
    by_cases hg : u.kind = K.lnk ∧ t.kind ≠ K.lbrack
    · have hgl := render_lnk_glued u rs (fun x hx => hok x (by simp [hx])) hp.2 hg.1
      have hkind : t.kind = K.dq ∨ t.kind = K.pred ∨ t.kind = K.symbol := by
        rcases hp.1 hg.1 with h | h
        · exact absurd h hg.2
        · exact h
      obtain ⟨c, r, htt, hst⟩ := step_tok t (render (u :: rs)) (hok t (by simp))
        (Or.inr (Or.inr ⟨hkind, hgl⟩))
      have hr : render (t :: u :: rs) = tokText t ++ render (u :: rs) := by
        simp only [render]; exact if_pos hg
      rw [hr] at hf ⊢
      simp only [htt, List.cons_append] at hf ⊢
      cases fuel with
      | zero => cases hf
      | succ f =>
        have := ih f (by simp at hf; omega)
        simp [lexLine, hst, this]
    · obtain ⟨c, r, htt, hst⟩ := step_tok t (' ' :: render (u :: rs)) (hok t (by simp))
        (Or.inr (Or.inl ⟨_, rfl⟩))
      have hr : render (t :: u :: rs) = tokText t ++ (' ' :: render (u :: rs)) := by
        simp only [render]; exact if_neg hg
      rw [hr] at hf ⊢
      simp only [htt, List.cons_append] at hf ⊢
      cases fuel with
      | zero => cases hf
      | succ f =>
        cases f with
        | zero => simp at hf
        | succ f' =>
          have := ih f' (by simp at hf; omega)
          simp [lexLine, hst, step_blank, this]

/-! ### no line break in the layout -/

theorem splitLines_noLB (s : Str) (h : ∀ c ∈ s, isLineBreak c = false) : splitLines s = [s] := by
  induction s with
  | nil => rfl
  | cons c r ih =>
    have := ih (fun x hx => h x (by simp [hx]))
    simp [splitLines, h c (by simp), this]

theorem lex_noLB (s : Str) (h : ∀ c ∈ s, isLineBreak c = false) : lex s = lexLine (s.length + 1) s := by
  unfold lex
  rw [splitLines_noLB s h]
  simp only [List.foldr]
  cases lexLine (s.length + 1) s <;> simp

theorem isD_noLB {c : Char} (h : isD c = true) : isLineBreak c = false := by
  simp only [isD, decide_eq_true_eq, Char.le_def, UInt32.le_iff_toNat_le] at h
  have h1 : 48 ≤ c.toNat := h.1
  have h2 : c.toNat ≤ 57 := h.2
  simp only [isLineBreak, Bool.or_eq_false_iff, decide_eq_false_iff_not]
  omega

theorem cls_noLB {c : Char} (h : cls c = true) : isLineBreak c = false := by
  simp only [cls, Bool.or_eq_true, decide_eq_true_eq] at h
  rcases h with ((((rfl | h) | rfl) | rfl) | rfl) | rfl
  · decide
  · exact isD_noLB h
  · decide
  · decide
  · decide
  · decide

theorem mem_escapeDQ {s : Str} {c : Char} (h : c ∈ escapeDQ s) : c = '\\' ∨ c ∈ s := by
  induction s with
  | nil => simp [escapeDQ] at h
  | cons d s ih =>
    simp only [escapeDQ] at h
    split at h
    · simp only [List.mem_cons] at h
      rcases h with h | h | h
      · exact Or.inl h
      · exact Or.inr (by simp [h])
      · rcases ih h with h | h
        · exact Or.inl h
        · exact Or.inr (by simp [h])
    · simp only [List.mem_cons] at h
      rcases h with h | h
      · exact Or.inr (by simp [h])
      · rcases ih h with h | h
        · exact Or.inl h
        · exact Or.inr (by simp [h])

theorem posChars_noLB : ∀ p ∈ posChars, isLineBreak p = false := by decide

theorem tokText_noLB (t : T) (ht : TokOK t) : ∀ c ∈ tokText t, isLineBreak c = false := by
  obtain ⟨k, tx⟩ := t
  cases k <;> simp only [TokOK] at ht <;> simp only [tokText]
  · subst ht; decide
  · subst ht; decide
  · obtain ⟨l, hl, rfl⟩ := ht
    obtain ⟨inner, hstr, hcls, _⟩ := lnk_shape l hl
    rw [hstr]
    intro c hc
    simp only [List.mem_cons, List.mem_append, List.not_mem_nil, or_false] at hc
    rcases hc with rfl | hc | rfl
    · decide
    · exact cls_noLB (hcls c hc)
    · decide
  · obtain ⟨s, rfl, hs⟩ := ht
    intro c hc
    simp only [List.mem_cons, List.mem_append, List.not_mem_nil, or_false] at hc
    rcases hc with (rfl | hc) | rfl
    · decide
    · rcases mem_escapeDQ hc with rfl | h
      · decide
      · exact hs c h
    · decide
  · obtain ⟨l, p, _, hall, hp, rfl | ⟨sn, _, hsall, rfl⟩⟩ := ht
    · intro c hc
      simp only [List.mem_cons, List.mem_append, List.not_mem_nil, or_false] at hc
      rcases hc with (rfl | hc) | rfl | rfl
      · decide
      · exact plain_noLB (hall c hc).1
      · decide
      · exact posChars_noLB c hp
    · intro c hc
      simp only [List.mem_cons, List.mem_append] at hc
      rcases hc with (rfl | hc) | rfl | rfl | rfl | hc
      · decide
      · exact plain_noLB (hall c hc).1
      · decide
      · exact posChars_noLB c hp
      · decide
      · exact plain_noLB (hsall c hc).1
  · subst ht; decide
  · subst ht; decide
  · intro c hc
    simp only [List.mem_cons, List.mem_append, List.not_mem_nil, or_false] at hc
    rcases hc with hc | rfl
    · exact plain_noLB (ht.2.1 c hc)
    · decide
  · intro c hc
    exact plain_noLB (ht.2.1 c hc)

theorem render_noLB : ∀ (ts : List T), (∀ t ∈ ts, TokOK t) → ∀ c ∈ render ts, isLineBreak c = false
  | [], _, c, hc => by simp [render] at hc
  | [t], hok, c, hc => tokText_noLB t (hok t (by simp)) c (by simpa [render] using hc)
  | t :: u :: rs, hok, c, hc => by
    have ih := render_noLB (u :: rs) (fun x hx => hok x (by simp [hx])) c
    have ht := tokText_noLB t (hok t (by simp)) c
    simp only [render] at hc
    split at hc
    · rcases List.mem_append.1 hc with h | h
      · exact ht h
      · exact ih h
    · rcases List.mem_append.1 hc with h | h
      · exact ht h
      · rcases List.mem_cons.1 h with rfl | h
        · decide
        · exact ih h

end Verif.C01.LexL

namespace Verif.C01.Lex
open Verif.Codec Verif.Tables Verif.C01 Verif.C01.LexL

/-- the lexer reads back the single-line layout of any list of lexically expressible tokens. -/
theorem lex_render (ts : List T) (hok : ∀ t ∈ ts, TokOK t) (hp : LnkPlaced ts) :
    lex (render ts) = some ts := by
  rw [lex_noLB _ (render_noLB ts hok)]
  exact lexLine_render ts hok hp _ (Nat.lt_succ_self _)

end Verif.C01.Lex
