/-
C01 — MRX at the TEXT level, the part pydelphin owns plus the writer it calls:

  `xmlText`   what `etree.tostring(e, encoding='unicode')` writes for the trees the encoder builds: attributes in
              insertion order, `&<>` escaped in text, `&<>"` and CR/LF/TAB escaped in attribute values, ` />` for an
              element without text and children (the library's writer, modelled so that the text can be compared);
  `indentGo`  the `re.sub` of `mrx._tostring`: at every position where one of
              `</mrs-list>` (group 1) | `<mrs[^-]` `</mrs>` (2) | `<ep[>\s]` `<fvpair>` `<extrapair>` `<hcons\s` `<icons\s>` (3)
              matches, a line feed and indent*(group+offset) blanks are written before the match;
  `mrxText`   `_tostring(e, indent, offset)`: no indentation for None/False, width 0 for True, then `.strip()`.

Compared with the real `encode`/`dumps` text on every generated MRX case (indent off, True, one integer width).
Reading the text back (`etree.fromstring` / `iterparse`) stays a library parameter.
-/
import Verif.C01.Docs

namespace Verif.C01.MrxT
open Verif.Codec Verif.Tables Verif.C01

def escCdata (s : Str) : Str :=
  s.flatMap (fun c => if c = '&' then "&amp;".toList else if c = '<' then "&lt;".toList
                      else if c = '>' then "&gt;".toList else [c])

def escAttr (s : Str) : Str :=
  s.flatMap (fun c => if c = '&' then "&amp;".toList else if c = '<' then "&lt;".toList
                      else if c = '>' then "&gt;".toList else if c = '"' then "&quot;".toList
                      else if c = '\r' then "&#13;".toList else if c = '\n' then "&#10;".toList
                      else if c = '\t' then "&#09;".toList else [c])

mutual
def xmlText : Xml → Str
  | .node tag attrs text cs =>
    let open_ := '<' :: tag.toList ++ attrs.flatMap (fun kv => ' ' :: kv.1.toList ++ '=' :: '"' :: escAttr kv.2 ++ ['"'])
    let tx := text.getD []
    if tx.isEmpty && cs.isEmpty then open_ ++ " />".toList
    else open_ ++ '>' :: escCdata tx ++ xmlTextL cs ++ '<' :: '/' :: tag.toList ++ ['>']
def xmlTextL : List Xml → Str
  | [] => []
  | c :: cs => xmlText c ++ xmlTextL cs
end

/-- the rest after a literal prefix. -/
def pre (p : String) (s : Str) : Option Str :=
  if p.toList.isPrefixOf s then some (s.drop p.toList.length) else none

/-- a literal followed by one character of a class (the character belongs to the match). -/
def preCls (p : String) (cls : Char → Bool) (s : Str) : Option (Str × Str) :=
  match pre p s with
  | some (c :: r) => if cls c then some (p.toList ++ [c], r) else none
  | _ => none

def lit (g : Nat) (p : String) (s : Str) : Option (Nat × Str × Str) := (pre p s).map (fun r => (g, p.toList, r))
def cls (g : Nat) (p : String) (f : Char → Bool) (s : Str) : Option (Nat × Str × Str) :=
  (preCls p f s).map (fun mr => (g, mr.1, mr.2))

/-- `<icons\s>`: the literal, one white-space character, `>`. -/
def iconsAlt (s : Str) : Option (Nat × Str × Str) :=
  match preCls "<icons" isPySpace s with
  | some (m, '>' :: r) => some (3, m ++ ['>'], r)
  | _ => none

/-- the alternatives of the pattern in order: group number, matched text, rest. -/
def matchAt (s : Str) : Option (Nat × Str × Str) :=
  lit 1 "</mrs-list>" s <|> cls 2 "<mrs" (· ≠ '-') s <|> lit 2 "</mrs>" s
    <|> cls 3 "<ep" (fun c => c = '>' || isPySpace c) s <|> lit 3 "<fvpair>" s <|> lit 3 "<extrapair>" s
    <|> cls 3 "<hcons" isPySpace s <|> iconsAlt s

def blanks (n : Nat) : Str := List.replicate n ' '

def indentGo (n off : Nat) : Nat → Str → Str
  | 0, s => s
  | _ + 1, [] => []
  | f + 1, c :: r =>
    match matchAt (c :: r) with
    | some (g, m, rest) => '\n' :: blanks (n * (g + off)) ++ m ++ indentGo n off f rest
    | none => c :: indentGo n off f r

def stripWs (s : Str) : Str :=
  ((s.dropWhile isPySpace).reverse.dropWhile isPySpace).reverse

/-- `_tostring(e, indent, offset)`; `ind = none`: indent None/False, `some n`: width n (True is 0). -/
def mrxText (ind : Option Nat) (off : Nat) (x : Xml) : Str :=
  match ind with
  | none => stripWs (xmlText x)
  | some n => stripWs (indentGo n off ((xmlText x).length + 1) (xmlText x))

end Verif.C01.MrxT
