/-
C01 — character-level model of `_IndexedMRSLexer` (delphin/codecs/indexedmrs.py), the twelve token
classes in the source's order (pinned by `c01_pins_indexedmrs`), the text of a token, the
un-indented layout, and which tokens are lexically expressible.
-/
import Verif.C01.Indexed
import Verif.C01.Lexer

namespace Verif.C01.IxLex
open Verif.Codec Verif.Tables Verif.C01 Verif.C01.Ix

/-- the SYMBOL class `[^\s"'()\/,:;<=>[\]{}]+`. -/
def symOkI (c : Char) : Bool :=
  !isPySpace c && c ≠ '"' && c ≠ '\'' && c ≠ '(' && c ≠ ')' && c ≠ '/' && c ≠ ',' && c ≠ ':' && c ≠ ';'
    && c ≠ '<' && c ≠ '=' && c ≠ '>' && c ≠ '[' && c ≠ ']' && c ≠ '{' && c ≠ '}'

/-- the LNK class `<-?\d+:-?\d+>` at a `<` (input: after the `<`): whole token text and rest. -/
def mLnkI (s : Str) : Option (Str × Str) :=
  match Lex.sInt s with
  | some (a, ':' :: r) =>
    match Lex.sInt r with
    | some (b, '>' :: r') => some ('<' :: a ++ ':' :: b ++ ['>'], r')
    | _ => none
  | _ => none

inductive StepI where
  | tok (t : TI) (rest : Str)
  | skip (rest : Str)
  | unexpected
deriving Repr

/-- one `finditer` step at the head of a non-empty line remainder. -/
def stepI (c : Char) (r : Str) : StepI :=
  match (if c = '<' then mLnkI r else none) with
  | some (t, r') => .tok (ti .lnk t) r'
  | none =>
  match (if c = '"' then scanDQ r else none) with
  | some (t, r') => .tok (ti .dq t) r'
  | none =>
  if c = '<' then .tok iLA r
  else if c = '>' then .tok iRA r
  else if c = '{' then .tok iLB r
  else if c = '}' then .tok iRB r
  else if c = '(' then .tok iLP r
  else if c = ')' then .tok iRP r
  else if c = ',' then .tok iCM r
  else if c = ':' then .tok iCL r
  else
    let sy := (c :: r).takeWhile symOkI
    if !sy.isEmpty then .tok (iS sy) ((c :: r).dropWhile symOkI)
    else if isPySpace c then .skip r
    else .unexpected

def lexLineI : Nat → Str → Option (List TI)
  | 0, _ => some []
  | _ + 1, [] => some []
  | fuel + 1, c :: r =>
    match stepI c r with
    | .tok t rest => (lexLineI fuel rest).map (t :: ·)
    | .skip rest => lexLineI fuel rest
    | .unexpected => none

/-- `_IndexedMRSLexer.prelex(text.splitlines())` (`none`: MRSSyntaxError). -/
def lexIx (s : Str) : Option (List TI) :=
  (Lex.splitLines s).foldr (fun l acc => match lexLineI (l.length + 1) l, acc with
    | some a, some b => some (a ++ b)
    | _, _ => none) (some [])

/-- the characters a token contributes to the text. -/
def tokTextI (t : TI) : Str :=
  match t.kind with
  | .dq => '"' :: t.text ++ ['"']
  | _ => t.text

/-- `_encode_indexed` layout without indentation: tokens simply concatenated; the only blanks are
those between the three symbols of a constraint (`h0 qeq h1`), i.e. between adjacent symbols. -/
def renderIx : List TI → Str
  | [] => []
  | [t] => tokTextI t
  | t :: u :: r =>
    if t.kind = KI.symbol ∧ u.kind = KI.symbol then tokTextI t ++ ' ' :: renderIx (u :: r)
    else tokTextI t ++ renderIx (u :: r)

/-- lexically expressible Indexed MRS tokens. -/
def TokOKI (t : TI) : Prop :=
  match t.kind with
  | .lnk => ∃ a b : Int, t.text = (Lnk.charspan a b).str
  | .dq => ∃ s, t.text = escapeDQ s ∧ ∀ c ∈ s, Lex.isLineBreak c = false
  | .langle => t.text = ['<'] | .rangle => t.text = ['>'] | .lbrace => t.text = ['{'] | .rbrace => t.text = ['}']
  | .lparen => t.text = ['('] | .rparen => t.text = [')'] | .comma => t.text = [','] | .colon => t.text = [':']
  | .symbol => t.text ≠ [] ∧ ∀ c ∈ t.text, symOkI c = true

/-- an opening angle bracket is followed by a symbol and a comma (`<h0,…`), so that it can never be
the beginning of an alignment `<5:6>`. -/
def LaOK : List TI → Prop
  | [] => True
  | [t] => t.kind ≠ KI.langle
  | [t, u] => t.kind ≠ KI.langle ∧ u.kind ≠ KI.langle
  | t :: u :: v :: r => (t.kind = KI.langle → u.kind = KI.symbol ∧ v.kind = KI.comma) ∧ LaOK (u :: v :: r)

/-- an unquoted atom of Indexed MRS. -/
def AtomI (s : Str) : Prop := s ≠ [] ∧ ∀ c ∈ s, symOkI c = true

def NoBreakI (s : Str) : Prop := ∀ c ∈ s, Lex.isLineBreak c = false

/-- Expressible in Indexed MRS at the character level relative to `semi` and the options:
top, index, labels, predicate symbols, argument variables, the relations and handles of the
constraints are symbols; constants have no line break; alignments are character spans; every
property value that is written (upper-cased) is a symbol. -/
structure LexExprI (semi : SemI) (o : Opts) (m : MRS) : Prop where
  top : ∀ t, m.top = some t → AtomI t
  index : ∀ i, m.index = some i → AtomI i
  preds : ∀ e ∈ m.rels, AtomI e.pred
  labels : ∀ e ∈ m.rels, AtomI e.label
  vals : ∀ e ∈ m.rels, ∀ a ∈ e.args, if a.1 = CARG then NoBreakI a.2 else AtomI a.2
  eplnk : o.lnk = true → ∀ e ∈ m.rels, e.lnk = .unspec ∨ ∃ a b, e.lnk = .charspan a b
  hcons : ∀ c ∈ m.hcons, AtomI c.lhs ∧ AtomI c.rel ∧ AtomI c.rhs
  icons : ∀ c ∈ m.icons, AtomI c.lhs ∧ AtomI c.rel ∧ AtomI c.rhs
  props : ∀ vp0, (if o.properties then prepProps semi m.vars else .ok []) = .ok vp0 →
            ∀ p ∈ vp0, p.2 ≠ [] ∧ ∀ x ∈ p.2, AtomI x

end Verif.C01.IxLex
