/-
C01 — multi-item documents of MRX (tree level) and MRS-JSON (dictionary level) as corollaries of the
single-item round trips.
-/
import Verif.C01.Docs
import Verif.C01.JsonLemmas
import Verif.C01.MrxLemmas
import Verif.C01.MrxStableLemmas

namespace Verif.C01
open Verif.Codec Verif.Tables Verif.C01.MrxL

theorem iterL_mrs_map (o : Opts) (ms : List MRS) : Xml.iterL "mrs" (ms.map (toXml o)) = ms.map (toXml o) := by
  induction ms with
  | nil => rfl
  | cons m ms ih => simp [Xml.iterL, iter_mrs_toXml, ih]

theorem ofXmlList_toXmlList (o : Opts) (ms : List MRS) (h : ∀ m ∈ ms, ExprX m) :
    ofXmlList (toXmlList o ms) = some (ms.map (decodedX o)) := by
  unfold ofXmlList toXmlList
  have : Xml.iter "mrs" (xEl "mrs-list" [] (ms.map (toXml o))) = ms.map (toXml o) := by
    simp [xEl, Xml.iter, iterL_mrs_map]
  rw [this]
  exact Verif.C01.mapMOpt_map ofXml (toXml o) (decodedX o) ms (fun m hm => ofXml_toXml o m (h m hm))

/-- a single `mrs` document read through the list API (`loads(encode(m))`). -/
theorem ofXmlList_toXml (o : Opts) (m : MRS) (h : ExprX m) : ofXmlList (toXml o m) = some [decodedX o m] := by
  unfold ofXmlList
  rw [iter_mrs_toXml]
  simp [mapMOpt, ofXml_toXml o m h]

theorem toXmlList_decodedX (o : Opts) (ms : List MRS)
    (h : ∀ m ∈ ms, (m.vars.map (·.1)).Nodup ∧ ∀ vp ∈ m.vars, (vp.2.map (·.1)).Nodup) :
    toXmlList o (ms.map (decodedX o)) = toXmlList o ms := by
  unfold toXmlList
  congr 1
  rw [List.map_map]
  apply List.map_congr_left
  intro m hm
  exact toXml_decodedX o m (h m hm).1 (h m hm).2

theorem fromDictList_toDictList (o : Opts) (ms : List MRS) (h : ∀ m ∈ ms, Filled m) :
    fromDictList (toDictList o ms) = some (ms.map (viewJ o)) := by
  unfold fromDictList toDictList
  exact mapMOpt_map fromDict (toDict o) (viewJ o) ms (fun m hm => fromDict_toDict o m (h m hm))

theorem toDictList_viewJ (o : Opts) (ms : List MRS)
    (hc : ∀ m ∈ ms, ∀ e ∈ m.rels, e.lnk = .unspec ∨ ∃ a b, e.lnk = .charspan a b) :
    toDictList o (ms.map (viewJ o)) = toDictList o ms := by
  unfold toDictList
  congr 1
  rw [List.map_map]
  apply List.map_congr_left
  intro m hm
  exact toDict_viewJ o m (lnkCarried_of_charspan o m (hc m hm))

end Verif.C01
