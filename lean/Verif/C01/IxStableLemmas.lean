/-
C01 — Indexed MRS, token level: re-encoding a structure that is "decoded as" `m` gives the tokens of
`m` again.
-/
import Verif.C01.IxPropsLemmas
import Verif.C01.StableLemmas

namespace Verif.C01.IxS
open Verif.Codec Verif.Tables Verif.C01 Verif.C01.Ix Verif.C01.IxL Verif.C01.IxP

/-! ### layer 1: the encoder reads the prepared dictionary only at the variables it writes -/

def RelI (vs : List Str) (vp vp' : Dict (List Str)) : Prop :=
  (vp.map (·.1)).Nodup ∧ (vp'.map (·.1)).Nodup ∧ ∀ w ∈ vs, dget vp w = dget vp' w

theorem dget_encVarI (vp : Dict (List Str)) (v w : Str) (hn : (vp.map (·.1)).Nodup) :
    dget (encVarI vp v).2 w = if w = v then none else dget vp w := by
  unfold encVarI
  cases hd : dget vp v with
  | none =>
    by_cases hw : w = v
    · subst hw; simp [hd]
    · simp [hw]
  | some vals =>
    by_cases hw : w = v
    · subst hw; simp [dget_ddel_same vp w hn]
    · simp [hw, dget_ddel_other vp v w hw]

theorem encVarI_fst_congr (vp vp' : Dict (List Str)) (v : Str) (h : dget vp v = dget vp' v) :
    (encVarI vp v).1 = (encVarI vp' v).1 := by
  unfold encVarI
  rw [← h]
  cases dget vp v <;> rfl

theorem encVarI_congr (vs : List Str) (vp vp' : Dict (List Str)) (v : Str) (h : RelI vs vp vp') (hv : v ∈ vs) :
    (encVarI vp v).1 = (encVarI vp' v).1 ∧ RelI vs (encVarI vp v).2 (encVarI vp' v).2 := by
  obtain ⟨h1, h2, h3⟩ := h
  refine ⟨encVarI_fst_congr vp vp' v (h3 v hv), nodup_encVarI vp v h1, nodup_encVarI vp' v h2, ?_⟩
  intro w hw
  rw [dget_encVarI vp v w h1, dget_encVarI vp' v w h2, h3 w hw]

theorem encVarsI_congr (vs : List Str) : ∀ (l : List Str) (vp vp' : Dict (List Str)), RelI vs vp vp' →
    (∀ w ∈ l, w ∈ vs) →
    (encVarsI vp l).1 = (encVarsI vp' l).1 ∧ RelI vs (encVarsI vp l).2 (encVarsI vp' l).2
  | [], vp, vp', h, _ => ⟨rfl, h⟩
  | v :: l, vp, vp', h, hl => by
    obtain ⟨e1, r1⟩ := encVarI_congr vs vp vp' v h (hl v List.mem_cons_self)
    obtain ⟨e2, r2⟩ := encVarsI_congr vs l _ _ r1 (fun w hw => hl w (List.mem_cons_of_mem _ hw))
    simp only [encVarsI]
    exact ⟨by rw [e1, e2], r2⟩

/-- the tokens of one relation, given the tokens of its variable arguments. -/
def relTok (o : Opts) (label pred : Str) (lnk : Lnk) (cp : Option Str) (as : List (List TI)) : List TI :=
  iS label :: iCL :: iS pred :: ((if o.lnk then (if lnk.str.isEmpty then [] else [ti .lnk lnk.str]) else []) ++ iLP ::
    (sepBy iCM (as ++ cpToks cp) ++ [iRP]))

theorem encRelI_eq (semi : SemI) (o : Opts) (vp : Dict (List Str)) (e : EP) (syn : Synopsis)
    (hE : findEnc semi e.pred (epRoles e) = .ok syn) :
    encRelI semi o vp e = .ok (relTok o e.label e.pred e.lnk (dget e.args CARG)
        (encVarsI vp ((writtenArgs syn e.args).map (·.2))).1,
      (encVarsI vp ((writtenArgs syn e.args).map (·.2))).2) := by
  have hE' := hE
  unfold epRoles at hE'
  unfold encRelI
  simp only [hE', encArgsI_gen, bind, Except.bind, pure, Except.pure, relTok]
  cases dget e.args CARG <;> simp [cpToks]

theorem encRelI_congr (semi : SemI) (o : Opts) (vs : List Str) (vp vp' : Dict (List Str)) (e : EP)
    (syn : Synopsis) (hE : findEnc semi e.pred (epRoles e) = .ok syn) (h : RelI vs vp vp')
    (hw : ∀ w ∈ writtenVarsEP semi e, w ∈ vs) :
    ∃ tk s s', encRelI semi o vp e = .ok (tk, s) ∧ encRelI semi o vp' e = .ok (tk, s') ∧ RelI vs s s' := by
  have hw' : ∀ w ∈ (writtenArgs syn e.args).map (·.2), w ∈ vs := by
    intro w hm; apply hw; simp only [writtenVarsEP, hE]; exact hm
  obtain ⟨e1, r1⟩ := encVarsI_congr vs _ vp vp' h hw'
  refine ⟨_, _, _, encRelI_eq semi o vp e syn hE, ?_, r1⟩
  rw [encRelI_eq semi o vp' e syn hE, e1]

theorem encRelsI_congr (semi : SemI) (o : Opts) (vs : List Str) : ∀ (rels : List EP) (vp vp' : Dict (List Str))
    (tks : List (List TI)) (s : Dict (List Str)), RelI vs vp vp' →
    (∀ e ∈ rels, ∃ syn, findEnc semi e.pred (epRoles e) = .ok syn) →
    (∀ e ∈ rels, ∀ w ∈ writtenVarsEP semi e, w ∈ vs) →
    encRelsI semi o vp rels = .ok (tks, s) →
    ∃ s', encRelsI semi o vp' rels = .ok (tks, s')
  | [], vp, vp', tks, s, _, _, _, ht => by
    simp only [encRelsI, Except.ok.injEq, Prod.mk.injEq] at ht
    exact ⟨vp', by simp [encRelsI, ht.1]⟩
  | e :: rels, vp, vp', tks, s, h, hf, hw, ht => by
    obtain ⟨syn, hE⟩ := hf e List.mem_cons_self
    obtain ⟨tk, s1, s1', h1, h1', r1⟩ := encRelI_congr semi o vs vp vp' e syn hE h (hw e List.mem_cons_self)
    simp only [encRelsI, h1, bind, Except.bind] at ht
    cases hr : encRelsI semi o s1 rels with
    | error x => rw [hr] at ht; simp at ht
    | ok p =>
      obtain ⟨tks1, s2⟩ := p
      rw [hr] at ht
      simp only [pure, Except.pure, Except.ok.injEq, Prod.mk.injEq] at ht
      obtain ⟨s2', h2⟩ := encRelsI_congr semi o vs rels s1 s1' tks1 s2 r1
        (fun e he => hf e (List.mem_cons_of_mem _ he)) (fun e he => hw e (List.mem_cons_of_mem _ he)) hr
      refine ⟨s2', ?_⟩
      simp only [encRelsI, h1', h2, bind, Except.bind, pure, Except.pure, ht.1]

/-! ### layer 3: the view of a covered EP is encoded like the EP -/

theorem mem_epRoles_iff (x : EP) (r : Str) : r ∈ epRoles x ↔ r ≠ CARG ∧ dget x.args r ≠ none := by
  simp only [epRoles, List.mem_map, List.mem_filter]
  constructor
  · rintro ⟨a, ⟨ha, hc⟩, rfl⟩
    refine ⟨by simpa using hc, ?_⟩
    intro hnone
    exact StableL.not_mem_of_dget_none _ _ hnone (List.mem_map.mpr ⟨a, ha, rfl⟩)
  · rintro ⟨hc, hs⟩
    cases hd : dget x.args r with
    | none => exact absurd hd hs
    | some v => exact ⟨(r, v), ⟨SimpleL.dget_mem _ _ _ hd, by simpa using hc⟩, rfl⟩

theorem nodup_epRoles (x : EP) (h : (x.args.map (·.1)).Nodup) : (epRoles x).Nodup :=
  List.Nodup.sublist (List.Sublist.map _ List.filter_sublist) h

theorem findEnc_congr (semi : SemI) (p : Str) (R R' : List Str) (hn : R.Nodup) (hn' : R'.Nodup)
    (hm : ∀ r, r ∈ R ↔ r ∈ R') : findEnc semi p R = findEnc semi p R' := by
  have hperm : R.Perm R' := (List.perm_ext_iff_of_nodup hn hn').mpr hm
  have hlen : R.length = R'.length := hperm.length_eq
  have hemp : R.isEmpty = R'.isEmpty := by
    cases R <;> cases R' <;> simp_all
  have hf : (fun s : Synopsis => R.isEmpty || fitsMap s R) = (fun s => R'.isEmpty || fitsMap s R') := by
    funext s
    have hall : R.all (fun r => s.any (fun d => d.name = upper r)) = R'.all (fun r => s.any (fun d => d.name = upper r)) := by
      rw [Bool.eq_iff_iff, List.all_eq_true, List.all_eq_true]
      exact ⟨fun h r hr => h r ((hm r).mpr hr), fun h r hr => h r ((hm r).mp hr)⟩
    simp only [fitsMap, hemp, hlen, hall]
  unfold findEnc
  rw [hf]

theorem writtenArgs_congr (syn : Synopsis) (a b : Dict Str) (h : ∀ r, dget a r = dget b r) :
    writtenArgs syn a = writtenArgs syn b := by
  unfold writtenArgs
  have : (fun d : SynRole => (dget a d.name).map (fun v => (d.name, v))) =
      (fun d : SynRole => (dget b d.name).map (fun v => (d.name, v))) := by
    funext d; rw [h]
  rw [this]

theorem view_args_split (semi : SemI) (o : Opts) (e : EP) (syn : Synopsis)
    (hE : findEnc semi e.pred (epRoles e) = .ok syn) :
    ∃ tl, (epViewI semi o e).args = writtenArgs syn e.args ++ tl ∧ tl.filter (fun a => a.1 ≠ CARG) = [] := by
  simp only [epViewI, hE]
  refine ⟨_, rfl, ?_⟩
  cases dget e.args CARG <;> simp

theorem epRoles_view (semi : SemI) (o : Opts) (e : EP) (syn : Synopsis)
    (hE : findEnc semi e.pred (epRoles e) = .ok syn) :
    epRoles (epViewI semi o e) = (writtenArgs syn e.args).map (·.1) := by
  have hk : ∀ a ∈ writtenArgs syn e.args, a.1 ≠ CARG := by
    intro a ha hc
    exact carg_not_written syn e.args (List.mem_map.mpr ⟨a, ha, hc⟩)
  obtain ⟨tl, hv, htl⟩ := view_args_split semi o e syn hE
  unfold epRoles at hE ⊢
  rw [hv, List.filter_append, htl]
  have h1 : (writtenArgs syn e.args).filter (fun a => a.1 ≠ CARG) = writtenArgs syn e.args := by
    rw [List.filter_eq_self]
    intro a ha; simpa using hk a ha
  rw [h1, List.append_nil]

theorem view_fields (semi : SemI) (o : Opts) (e : EP) (syn : Synopsis)
    (hE : findEnc semi e.pred (epRoles e) = .ok syn) :
    (epViewI semi o e).pred = e.pred ∧ (epViewI semi o e).label = e.label ∧
      (epViewI semi o e).lnk = (if o.lnk then e.lnk else .unspec) := by
  simp only [epViewI, hE, and_self]

theorem findEnc_view (semi : SemI) (o : Opts) (e : EP) (h : CoverEP semi e) (syn : Synopsis)
    (hE : findEnc semi e.pred (epRoles e) = .ok syn) :
    findEnc semi (epViewI semi o e).pred (epRoles (epViewI semi o e)) = .ok syn := by
  obtain ⟨synE, _, hE0, _, hnd, _, _⟩ := h.look
  rw [hE] at hE0; cases hE0
  rw [(view_fields semi o e syn hE).1, ← hE]
  apply findEnc_congr
  · rw [epRoles_view semi o e syn hE]; exact hnd
  · exact nodup_epRoles e h.rolesNodup
  · intro r
    rw [mem_epRoles_iff, mem_epRoles_iff, epViewI_args semi o e h r]

theorem encRelI_view (semi : SemI) (o : Opts) (vp : Dict (List Str)) (e : EP) (h : CoverEP semi e) :
    encRelI semi o vp (epViewI semi o e) = encRelI semi o vp e := by
  obtain ⟨syn, _, hE, _⟩ := h.look
  rw [encRelI_eq semi o vp e syn hE, encRelI_eq semi o vp _ syn (findEnc_view semi o e h syn hE)]
  obtain ⟨f1, f2, f3⟩ := view_fields semi o e syn hE
  rw [f1, f2, f3, writtenArgs_congr syn _ _ (epViewI_args semi o e h), epViewI_args semi o e h CARG]
  have : ∀ cp as, relTok o e.label e.pred (if o.lnk then e.lnk else .unspec) cp as = relTok o e.label e.pred e.lnk cp as := by
    intro cp as
    unfold relTok
    cases o.lnk <;> simp
  rw [this]

theorem encRelsI_view (semi : SemI) (o : Opts) : ∀ (rels : List EP) (vp : Dict (List Str)),
    (∀ e ∈ rels, CoverEP semi e) → encRelsI semi o vp (rels.map (epViewI semi o)) = encRelsI semi o vp rels
  | [], _, _ => rfl
  | e :: rels, vp, hc => by
    simp only [List.map_cons, encRelsI, encRelI_view semi o vp e (hc e List.mem_cons_self)]
    cases encRelI semi o vp e with
    | error x => rfl
    | ok p =>
      simp only [bind, Except.bind]
      rw [encRelsI_view semi o rels p.2 (fun e he => hc e (List.mem_cons_of_mem _ he))]

/-! ### layer 2: the prepared dictionaries agree on the written variables -/

theorem ofNat_sub32 : ∀ n < 123, 97 ≤ n → (Char.ofNat (n - 32)).toNat = n - 32 := by decide

theorem rangeC (x : Char) : ('a' ≤ x ∧ x ≤ 'z') ↔ (97 ≤ x.toNat ∧ x.toNat ≤ 122) := by
  rw [Char.le_def, Char.le_def, UInt32.le_iff_toNat_le, UInt32.le_iff_toNat_le]
  exact Iff.rfl

theorem upperC_idem (c : Char) : upperC (upperC c) = upperC c := by
  unfold upperC
  simp only [rangeC]
  by_cases h : 97 ≤ c.toNat ∧ c.toNat ≤ 122
  · have := ofNat_sub32 c.toNat (by omega) h.1
    simp only [h, and_self, if_true, this]
    split
    · omega
    · rfl
  · simp [h]

theorem upper_idem (s : Str) : upper (upper s) = upper s := by
  unfold upper
  rw [List.map_map]
  apply List.map_congr_left
  intro c _
  exact upperC_idem c

/-- the property map given back for a variable with map `ps0` whose sort has the list `sps`. -/
def viewOf (ps0 : Props) (sps : List (Str × Str)) : Props := sps.map (fun kv => (kv.1, pval ps0 kv))

theorem pval_viewOf (ps0 : Props) (sps : List (Str × Str)) (hnd : (sps.map (·.1)).Nodup) (kv : Str × Str)
    (hkv : kv ∈ sps) : pval (viewOf ps0 sps) kv = pval ps0 kv := by
  have hk : ((viewOf ps0 sps).map (·.1)).Nodup := by
    simpa [viewOf, List.map_map, Function.comp_def] using hnd
  have hg : dget (viewOf ps0 sps) kv.1 = some (pval ps0 kv) :=
    dget_of_mem_nodup _ kv.1 _ hk (List.mem_map.mpr ⟨kv, hkv, rfl⟩)
  show upper ((dget (viewOf ps0 sps) kv.1).getD kv.2) = _
  rw [hg, Option.getD_some]
  exact upper_idem _

theorem view_cases (semi : SemI) (o : Opts) (m : MRS) (hcov : Cov semi m.vars) (v : Str) :
    propsViewI semi o m v = [] ∨ ∃ ps0 sps, dget m.vars v = some ps0 ∧ ps0 ≠ [] ∧
      dget semi.vprops (varSort v) = some sps ∧ propsViewI semi o m v = viewOf ps0 sps ∧ EntryCov semi v ps0 := by
  unfold propsViewI
  by_cases hc : o.properties = true ∧ v ∈ writtenVars semi m
  · rw [if_pos hc]
    cases hd : dget m.vars v with
    | none => left; rfl
    | some ps0 =>
      by_cases he : ps0.isEmpty = true
      · left; simp [he]
      · have hne : ps0 ≠ [] := by intro e; subst e; simp at he
        cases hs : dget semi.vprops (varSort v) with
        | none => left; simp [he]
        | some sps =>
          right
          exact ⟨ps0, sps, rfl, hne, rfl, by simp [he, viewOf, pval], hcov v ps0 (SimpleL.dget_mem _ _ _ hd) hne⟩
  · left; rw [if_neg hc]

theorem cov_decoded (semi : SemI) (o : Opts) (m : MRS) (dv : Dict Props) (hcov : Cov semi m.vars) (F : List Str)
    (hget : ∀ v ∈ F, dget dv v = some (propsViewI semi o m v)) (hdn : (dv.map (·.1)).Nodup)
    (hdk : ∀ vp ∈ dv, vp.1 ∈ F) : Cov semi dv := by
  intro v ps hm hne
  have h1 := dget_of_mem_nodup _ v ps hdn hm
  rw [hget v (hdk _ hm)] at h1
  cases h1
  rcases view_cases semi o m hcov v with h0 | ⟨ps0, sps, _, _, hs, hv, hval, sps', hs', hne', hnd, hall⟩
  · exact absurd h0 hne
  · rw [hs] at hs'; cases hs'
    rw [hv]
    exact ⟨hval, sps, hs, hne', hnd, fun kv hkv => by rw [pval_viewOf _ _ hnd kv hkv]; exact hall kv hkv⟩

theorem prep_agree (semi : SemI) (o : Opts) (m : MRS) (dv : Dict Props) (ho : o.properties = true)
    (hcov : Cov semi m.vars) (hn : (m.vars.map (·.1)).Nodup) (hdn : (dv.map (·.1)).Nodup) (w : Str)
    (hw : w ∈ writtenVars semi m) (hget : dget dv w = some (propsViewI semi o m w)) :
    dget (prepOf semi m.vars) w = dget (prepOf semi dv) w := by
  rw [dget_prepOf semi w _ hdn, dget_prepOf semi w _ hn, hget]
  unfold propsViewI
  rw [if_pos ⟨ho, hw⟩]
  cases hd : dget m.vars w with
  | none => simp
  | some ps0 =>
    by_cases he : ps0.isEmpty = true
    · simp [he]
    · have hne : ps0 ≠ [] := by intro e; subst e; simp at he
      obtain ⟨hval, sps, hs, hne', hnd, hall⟩ := hcov w ps0 (SimpleL.dget_mem _ _ _ hd) hne
      have he' : (sps.map (fun kv => (kv.1, upper ((dget ps0 kv.1).getD kv.2)))).isEmpty = false := by
        cases sps <;> simp_all
      simp only [he, hs, he', Bool.false_eq_true, if_false, Option.map_some, Option.some.injEq]
      apply List.map_congr_left
      intro kv hkv
      exact (pval_viewOf ps0 sps hnd kv hkv).symm

theorem writtenVars_sub (semi : SemI) (o : Opts) (m : MRS) (w : Str) (hw : w ∈ writtenVars semi m) :
    w ∈ fillOrder m.top m.index (m.rels.map (epViewI semi o)) m.hcons m.icons := by
  unfold writtenVars at hw
  unfold fillOrder
  rcases List.mem_append.mp hw with h | h
  · simp [h]
  · obtain ⟨e, he, hwe⟩ := List.mem_flatMap.mp h
    have hin : w ∈ epArgVars (epViewI semi o e) := by
      unfold writtenVarsEP at hwe
      cases hE : findEnc semi e.pred (epRoles e) with
      | error x => rw [hE] at hwe; simp at hwe
      | ok syn =>
        rw [hE] at hwe
        obtain ⟨a, ha, rfl⟩ := List.mem_map.mp hwe
        obtain ⟨tl, hv, _⟩ := view_args_split semi o e syn hE
        unfold epArgVars
        rw [hv]
        refine List.mem_map.mpr ⟨a, List.mem_filter.mpr ⟨List.mem_append_left _ ha, ?_⟩, rfl⟩
        have : a.1 ≠ CARG := fun hc => carg_not_written syn e.args (List.mem_map.mpr ⟨a, ha, hc⟩)
        simpa using this
    simp only [List.mem_append, List.mem_flatMap, List.mem_map]
    left; left; right
    exact ⟨epViewI semi o e, ⟨e, he, rfl⟩, List.mem_cons_of_mem _ hin⟩

/-! ### layer 4: assembly -/

def toksCore (semi : SemI) (o : Opts) (vp0 : Dict (List Str)) (top index : Option Str) (rels : List EP)
    (hcons icons : List Cons) : Except EI (List TI) :=
  match index with
  | none => .error .type_
  | some ix =>
    match encRelsI semi o (encVarI vp0 ix).2 rels with
    | .error e => .error e
    | .ok p =>
      .ok (iLA :: iS (top.getD (S "None")) :: iCM :: (encVarI vp0 ix).1 ++ iCM :: iLB :: sepBy iCM p.1 ++ iRB :: iCM
            :: iLB :: encConsI hcons ++ iRB
            :: (if icons.isEmpty then [] else iCM :: iLB :: encConsI icons ++ [iRB]) ++ [iRA])

theorem toksIx_eq (semi : SemI) (o : Opts) (m : MRS) (vp0 : Dict (List Str))
    (h : (if o.properties then prepProps semi m.vars else .ok []) = .ok vp0) :
    toksIx semi o m = toksCore semi o vp0 m.top m.index m.rels m.hcons m.icons := by
  unfold toksIx toksCore
  by_cases hp : o.properties = true
  · simp only [hp, ↓reduceIte] at h
    simp only [hp, h, ↓reduceIte, bind, Except.bind, pure, Except.pure]
    cases m.index with
    | none => rfl
    | some ix =>
      simp only
      cases encRelsI semi o (encVarI vp0 ix).2 m.rels with
      | error e => rfl
      | ok p => rfl
  · simp only [hp, Bool.false_eq_true, ↓reduceIte, Except.ok.injEq] at h
    subst h
    simp only [hp, Bool.false_eq_true, ↓reduceIte, bind, Except.bind, pure, Except.pure]
    cases m.index with
    | none => rfl
    | some ix =>
      simp only
      cases encRelsI semi o (encVarI [] ix).2 m.rels with
      | error e => rfl
      | ok p => rfl

end Verif.C01.IxS

namespace Verif.C01.Ix
open Verif.Codec Verif.Tables Verif.C01 Verif.C01.IxL Verif.C01.IxP Verif.C01.IxS

/-- "encoding that result again reproduces the text exactly" (Indexed MRS, token level): any
structure that is decoded as `m` and whose variable dictionary has distinct keys, all of them
variables of the structure, is encoded to the tokens of `m`. -/
theorem toksIx_stable (semi : SemI) (o : Opts) (m d : MRS) (ts : List TI)
    (hc : ∀ e ∈ m.rels, CoverEP semi e) (hp : propsCover semi m = true) (hn : (m.vars.map (·.1)).Nodup)
    (ht : toksIx semi o m = .ok ts)
    (hd : d.top = m.top ∧ d.index = m.index ∧ d.rels = m.rels.map (epViewI semi o) ∧ d.hcons = m.hcons
          ∧ d.icons = m.icons
          ∧ ∀ v, v ∈ fillOrder m.top m.index (m.rels.map (epViewI semi o)) m.hcons m.icons →
              dget d.vars v = some (propsViewI semi o m v))
    (hdn : (d.vars.map (·.1)).Nodup)
    (hdk : ∀ vp ∈ d.vars, vp.1 ∈ fillOrder m.top m.index (m.rels.map (epViewI semi o)) m.hcons m.icons) :
    toksIx semi o d = .ok ts := by
  obtain ⟨htop, hidx, hrels, hhc, hic, hget⟩ := hd
  have hcov := cov_of_propsCover semi m hp
  have hcovd : Cov semi d.vars := cov_decoded semi o m d.vars hcov _ hget hdn hdk
  obtain ⟨vp0, vp0', h0, h0', hrel⟩ : ∃ vp0 vp0',
      (if o.properties then prepProps semi m.vars else .ok []) = .ok vp0 ∧
      (if o.properties then prepProps semi d.vars else .ok []) = .ok vp0' ∧
      RelI (writtenVars semi m) vp0 vp0' := by
    by_cases ho : o.properties = true
    · refine ⟨prepOf semi m.vars, prepOf semi d.vars, by simp [ho, prepProps_eq semi _ hcov],
        by simp [ho, prepProps_eq semi _ hcovd], nodup_prepOf semi _ hn, nodup_prepOf semi _ hdn, ?_⟩
      intro w hw
      exact prep_agree semi o m d.vars ho hcov hn hdn w hw (hget w (writtenVars_sub semi o m w hw))
    · exact ⟨[], [], by simp [ho], by simp [ho], by simp, by simp, fun _ _ => rfl⟩
  rw [toksIx_eq semi o m vp0 h0] at ht
  rw [toksIx_eq semi o d vp0' h0', htop, hidx, hrels, hhc, hic]
  unfold toksCore at ht ⊢
  cases hix : m.index with
  | none => rw [hix] at ht; cases ht
  | some ix =>
    rw [hix] at ht
    simp only at ht ⊢
    have hixw : ix ∈ writtenVars semi m := by simp [writtenVars, hix]
    obtain ⟨e1, r1⟩ := encVarI_congr _ vp0 vp0' ix hrel hixw
    rw [encRelsI_view semi o m.rels _ hc]
    cases hr : encRelsI semi o (encVarI vp0 ix).2 m.rels with
    | error x => rw [hr] at ht; cases ht
    | ok p =>
      obtain ⟨s', h2⟩ := encRelsI_congr semi o _ m.rels _ _ p.1 p.2 r1
        (fun e he => let ⟨a, _, h, _⟩ := (hc e he).look; ⟨a, h⟩)
        (fun e he w hw => by
          unfold writtenVars
          exact List.mem_append_right _ (List.mem_flatMap.mpr ⟨e, he, hw⟩)) hr
      rw [hr] at ht
      rw [h2, ← e1]
      exact ht

end Verif.C01.Ix

/-! ### the decoder's output is a dictionary over the variables of the structure -/
namespace Verif.C01.IxS
open Verif.Codec Verif.Tables Verif.C01 Verif.C01.Ix Verif.C01.IxL Verif.C01.IxP

theorem nodup_foldl_dset {β} : ∀ (asg : List (Str × β)) (acc : Dict β), (acc.map (·.1)).Nodup →
    ((asg.foldl (fun d a => dset d a.1 a.2) acc).map (·.1)).Nodup
  | [], _, h => h
  | a :: asg, acc, h => by
    rw [List.foldl_cons]
    exact nodup_foldl_dset asg _ (StableL.nodup_dset acc a.1 a.2 h)

theorem nodup_assignAll (asg : List Assign) : ((assignAll asg).map (·.1)).Nodup :=
  nodup_foldl_dset asg [] (by simp)

theorem asgVars_key : ∀ (vs : List Str) (vp : Dict (List Str)) (p : Assign), p ∈ asgVars vp vs → p.1 ∈ vs
  | [], vp, p, h => by simp [asgVars] at h
  | v :: vs, vp, p, h => by
    simp only [asgVars, List.mem_append] at h
    rcases h with h | h
    · unfold asgVar at h
      cases hd : dget vp v with
      | none => rw [hd] at h; simp at h
      | some vals =>
        rw [hd] at h
        simp only [List.mem_singleton] at h
        subst h
        exact List.mem_cons_self
    · exact List.mem_cons_of_mem _ (asgVars_key vs _ p h)

theorem mem_foldl_declare : ∀ (vs : List Str) (d : Dict Props) (p : Str × Props),
    p ∈ vs.foldl declare d → p ∈ d ∨ p.1 ∈ vs
  | [], d, p, h => Or.inl h
  | v :: vs, d, p, h => by
    rw [List.foldl_cons] at h
    rcases mem_foldl_declare vs _ p h with h | h
    · unfold declare at h
      split at h
      · exact Or.inl h
      · rcases List.mem_append.mp h with h | h
        · exact Or.inl h
        · simp only [List.mem_singleton] at h
          subst h
          exact Or.inr List.mem_cons_self
    · exact Or.inr (List.mem_cons_of_mem _ h)

/-- the explicit result of the decoder on the encoder's tokens. -/
theorem parseIx_toksIx_explicit (semi : SemI) (o : Opts) (m : MRS) (ts rest : List TI)
    (htop : m.top.isSome = true)
    (hc : ∀ e ∈ m.rels, CoverEP semi e)
    (hp : propsCover semi m = true)
    (ht : toksIx semi o m = .ok ts) :
    ∃ vp0 : Dict (List Str), parseIx semi (ts ++ rest) =
      .ok (mkMRS m.top m.index (m.rels.map (epViewI semi o)) m.hcons m.icons
        ((assignAll (asgVars vp0 (writtenVars semi m))).map (fun p => (p.1, mp semi p.1 p.2))) .unspec none none,
        rest) := by
  have hcov := cov_of_propsCover semi m hp
  obtain ⟨vp0, hprep, hgood, hE⟩ : ∃ vp0 : Dict (List Str),
      (if o.properties then prepProps semi m.vars else .ok []) = .ok vp0 ∧ GoodVp vp0 ∧
      (∀ p ∈ vp0, GoodE semi p) := by
    by_cases ho : o.properties = true
    · exact ⟨prepOf semi m.vars, by simp [ho, prepProps_eq semi _ hcov], goodVp_prepOf semi _ hcov,
        goodE_prepOf semi _ hcov⟩
    · exact ⟨[], by simp [ho], fun p hp => by simp at hp, fun p hp => by simp at hp⟩
  obtain ⟨ix, hix, hparse⟩ := parseIx_toksIx_props semi o m ts rest vp0 htop hprep hgood hc ht
  have hasg : asgVar vp0 ix ++ asgRels semi (encVarI vp0 ix).2 m.rels = asgVars vp0 (writtenVars semi m) := by
    unfold writtenVars
    rw [hix, asgRels_eq, wvars_eq]
    rfl
  have hraw : ∀ p ∈ assignAll (asgVars vp0 (writtenVars semi m)), GoodE semi p :=
    fun p hp => hE p (mem_assignAll_asgVars _ _ p hp)
  rw [hasg, matchAll_good semi _ hraw] at hparse
  exact ⟨vp0, hparse⟩

end Verif.C01.IxS

namespace Verif.C01.Ix
open Verif.Codec Verif.Tables Verif.C01 Verif.C01.IxL Verif.C01.IxP Verif.C01.IxS

/-- what the decoder makes of the encoder's tokens has a variable dictionary with distinct keys,
all of them variables of the structure (`hdn` and `hdk` of `toksIx_stable`). -/
theorem parseIx_output_keys (semi : SemI) (o : Opts) (m d : MRS) (ts rest rest' : List TI)
    (htop : m.top.isSome = true)
    (hc : ∀ e ∈ m.rels, CoverEP semi e)
    (hp : propsCover semi m = true)
    (ht : toksIx semi o m = .ok ts)
    (hpar : parseIx semi (ts ++ rest) = .ok (d, rest')) :
    (d.vars.map (·.1)).Nodup ∧
      ∀ vp ∈ d.vars, vp.1 ∈ fillOrder m.top m.index (m.rels.map (epViewI semi o)) m.hcons m.icons := by
  obtain ⟨vp0, hE⟩ := parseIx_toksIx_explicit semi o m ts rest htop hc hp ht
  rw [hE] at hpar
  simp only [Except.ok.injEq, Prod.mk.injEq] at hpar
  obtain ⟨rfl, _⟩ := hpar
  have hkn : (((assignAll (asgVars vp0 (writtenVars semi m))).map
      (fun p => (p.1, mp semi p.1 p.2))).map (·.1)).Nodup := by
    rw [List.map_map]
    exact nodup_assignAll _
  refine ⟨StableL.nodup_foldl_declare _ _ hkn, ?_⟩
  intro vp hvp
  rcases mem_foldl_declare _ _ vp hvp with h | h
  · obtain ⟨p, hp', rfl⟩ := List.mem_map.mp h
    unfold assignAll at hp'
    rcases mem_foldl_dset _ _ p hp' with h' | h'
    · simp at h'
    · exact writtenVars_sub semi o m _ (asgVars_key _ _ p h')
  · exact h

/-- the decoded structure is encoded to the same tokens (`parseIx_toksIx`, `parseIx_output_keys`
and `toksIx_stable` put together). -/
theorem toksIx_parseIx_toksIx (semi : SemI) (o : Opts) (m d : MRS) (ts rest rest' : List TI)
    (htop : m.top.isSome = true)
    (hc : ∀ e ∈ m.rels, CoverEP semi e)
    (hp : propsCover semi m = true)
    (hn : (m.vars.map (·.1)).Nodup)
    (ht : toksIx semi o m = .ok ts)
    (hpar : parseIx semi (ts ++ rest) = .ok (d, rest')) :
    toksIx semi o d = .ok ts := by
  obtain ⟨hdn, hdk⟩ := parseIx_output_keys semi o m d ts rest rest' htop hc hp ht hpar
  obtain ⟨d', hpar', h1, h2, h3, h4, h5, _, _, _, h6⟩ := parseIx_toksIx semi o m ts rest htop hc hp hn ht
  rw [hpar'] at hpar
  simp only [Except.ok.injEq, Prod.mk.injEq] at hpar
  obtain ⟨rfl, _⟩ := hpar
  exact toksIx_stable semi o m d' ts hc hp hn ht ⟨h1, h2, h3, h4, h5, h6⟩ hdn hdk

end Verif.C01.Ix
