/-
C01 — SimpleMRS: "encoding that result again reproduces the text exactly" at the token level:
`toks o (decodedS o m) = toks o m`.
-/
import Verif.C01.Lemmas
import Verif.C01.SimpleLemmas

namespace Verif.C01.StableL
open Verif.Codec Verif.Tables Verif.C01.SimpleL

/-! ### (d) key distinctness of the dictionaries the decoder builds -/

theorem not_mem_of_dget_none {β} (d : Dict β) (k : Str) (h : dget d k = none) : k ∉ d.map (·.1) := by
  induction d with
  | nil => simp
  | cons a r ih =>
    obtain ⟨k2, v2⟩ := a
    simp only [dget] at h
    by_cases hk : k2 = k
    · simp [hk] at h
    · simp only [hk, if_false] at h
      simp only [List.map_cons, List.mem_cons, not_or]
      exact ⟨fun e => hk e.symm, ih h⟩

theorem nodup_declare {β} [Inhabited β] (d : Dict β) (k : Str) (hn : (d.map (·.1)).Nodup) :
    ((declare d k).map (·.1)).Nodup := by
  unfold declare dhas
  cases hd : dget d k with
  | some x => simpa using hn
  | none =>
    have hk := not_mem_of_dget_none d k hd
    simp only [Option.isSome_none, Bool.false_eq_true, if_false, List.map_append, List.map_cons,
      List.map_nil]
    rw [List.nodup_append]
    refine ⟨hn, by simp, ?_⟩
    intro a ha b hb
    simp only [List.mem_singleton] at hb
    subst hb
    intro e; subst e; exact hk ha

theorem mem_keys_dset {β} (d : Dict β) (k : Str) (x : β) (a : Str) :
    a ∈ (dset d k x).map (·.1) → a = k ∨ a ∈ d.map (·.1) := by
  induction d with
  | nil => intro h; simp [dset] at h; exact Or.inl h
  | cons p r ih =>
    obtain ⟨k2, v2⟩ := p
    intro h
    by_cases hk : k2 = k
    · simp only [dset, hk, if_true, List.map_cons, List.mem_cons] at h
      rcases h with h | h
      · exact Or.inl h
      · exact Or.inr (by simp [h])
    · simp only [dset, hk, if_false, List.map_cons, List.mem_cons] at h
      rcases h with h | h
      · exact Or.inr (by simp [h])
      · rcases ih h with h | h
        · exact Or.inl h
        · exact Or.inr (by simp [h])

theorem nodup_dset {β} (d : Dict β) (k : Str) (x : β) (hn : (d.map (·.1)).Nodup) :
    ((dset d k x).map (·.1)).Nodup := by
  induction d with
  | nil => simp [dset]
  | cons p r ih =>
    obtain ⟨k2, v2⟩ := p
    rw [List.map_cons, List.nodup_cons] at hn
    by_cases hk : k2 = k
    · subst hk
      simp only [dset, if_true, List.map_cons, List.nodup_cons]
      exact hn
    · simp only [dset, hk, if_false, List.map_cons, List.nodup_cons]
      refine ⟨fun hm => ?_, ih hn.2⟩
      rcases mem_keys_dset r k x k2 hm with h | h
      · exact hk h
      · exact hn.1 h

theorem nodup_applyMention (d : Dict Props) (m : Mention) (hn : (d.map (·.1)).Nodup) :
    ((applyMention d m).map (·.1)).Nodup := by
  unfold applyMention
  exact nodup_dset _ _ _ (nodup_declare _ _ hn)

theorem nodup_foldl_applyMention (ms : List Mention) (d : Dict Props) (hn : (d.map (·.1)).Nodup) :
    ((ms.foldl applyMention d).map (·.1)).Nodup := by
  induction ms generalizing d with
  | nil => exact hn
  | cons m ms ih => exact ih _ (nodup_applyMention d m hn)

theorem nodup_foldl_declare (vs : List Str) (d : Dict Props) (hn : (d.map (·.1)).Nodup) :
    ((vs.foldl declare d).map (·.1)).Nodup := by
  induction vs generalizing d with
  | nil => exact hn
  | cons v vs ih => exact ih _ (nodup_declare d v hn)

theorem nodup_decodedS (o : Opts) (m : MRS) : ((decodedS o m).vars.map (·.1)).Nodup := by
  unfold decodedS mkMRS fillVars varsOfMentions
  exact nodup_foldl_declare _ _ (nodup_foldl_applyMention _ _ (by simp))

/-! ### (a) the block a variable would be written with -/

def blockOf (vp : Dict Props) (v : Str) : Props :=
  match dget vp v with
  | some ps => sortProps ps
  | none => []

def varToks (v : Str) (b : Props) : List T :=
  if b.isEmpty then [tS v]
  else tS v :: tLB :: tS (varSort v) :: b.flatMap (fun kv => [tF kv.1, tS kv.2]) ++ [tRB]

theorem sortProps_isEmpty (ps : Props) : (sortProps ps).isEmpty = ps.isEmpty := by
  have h := (sortProps_perm ps).length_eq
  cases ps with
  | nil => rfl
  | cons p ps =>
    cases hs : sortProps (p :: ps) with
    | nil => rw [hs] at h; simp at h
    | cons q qs => rfl

theorem encVar_fst (vp : Dict Props) (v : Str) : (encVar vp v).1 = varToks v (blockOf vp v) := by
  unfold encVar blockOf varToks
  cases hd : dget vp v with
  | none => rfl
  | some ps =>
    simp only [sortProps_isEmpty]
    by_cases hp : ps.isEmpty = true
    · simp [hp]
    · simp [hp, propToks]

theorem blockOf_encVar (vp : Dict Props) (v w : Str) (hn : (vp.map (·.1)).Nodup) :
    blockOf (encVar vp v).2 w = if w = v then [] else blockOf vp w := by
  unfold blockOf
  rw [encVar_snd, dget_mentVar _ _ _ hn]
  by_cases h : w = v
  · subst h
    cases hd : dget vp w with
    | none => simp
    | some ps =>
      cases ps with
      | nil => simp [sortProps_nil]
      | cons p ps => simp
  · have h' : ¬ v = w := fun e => h e.symm
    cases hd : dget vp w with
    | none => simp [h]
    | some ps => simp [h, h']

theorem nodup_encVar (vp : Dict Props) (v : Str) (hn : (vp.map (·.1)).Nodup) :
    ((encVar vp v).2.map (·.1)).Nodup := by
  rw [encVar_snd]; exact nodup_mentVar vp v hn

/-! ### (b) congruence of the threaded encoder pieces -/

/-- both dictionaries have distinct keys and give every variable of `vs` the same block. -/
def Rel (vs : List Str) (vp vp' : Dict Props) : Prop :=
  (vp.map (·.1)).Nodup ∧ (vp'.map (·.1)).Nodup ∧ ∀ w ∈ vs, blockOf vp w = blockOf vp' w

theorem encVar_congr (vs : List Str) (vp vp' : Dict Props) (v : Str) (h : Rel vs vp vp')
    (hv : v ∈ vs) :
    (encVar vp v).1 = (encVar vp' v).1 ∧ Rel vs (encVar vp v).2 (encVar vp' v).2 := by
  obtain ⟨h1, h2, h3⟩ := h
  refine ⟨?_, nodup_encVar _ _ h1, nodup_encVar _ _ h2, ?_⟩
  · rw [encVar_fst, encVar_fst, h3 v hv]
  · intro w hw
    rw [blockOf_encVar _ _ _ h1, blockOf_encVar _ _ _ h2, h3 w hw]

theorem encArgs_congr (vs : List Str) : ∀ (as : Dict Str) (vp vp' : Dict Props), Rel vs vp vp' →
    (∀ a ∈ as, a.1 ≠ CARG → a.2 ∈ vs) →
    (encArgs vp as).1 = (encArgs vp' as).1 ∧ Rel vs (encArgs vp as).2 (encArgs vp' as).2 := by
  intro as
  induction as with
  | nil => intro vp vp' h _; exact ⟨rfl, h⟩
  | cons a rest ih =>
    intro vp vp' h hs
    obtain ⟨role, val⟩ := a
    have hrest : ∀ a ∈ rest, a.1 ≠ CARG → a.2 ∈ vs := fun a ha => hs a (List.mem_cons_of_mem _ ha)
    by_cases hc : role = CARG
    · subst hc
      rw [encArgs_carg, encArgs_carg]
      obtain ⟨i1, i2⟩ := ih vp vp' h hrest
      exact ⟨by simp only [i1], i2⟩
    · rw [encArgs_var _ _ _ _ hc, encArgs_var _ _ _ _ hc]
      obtain ⟨e1, e2⟩ := encVar_congr vs vp vp' val h (hs (role, val) List.mem_cons_self hc)
      obtain ⟨i1, i2⟩ := ih _ _ e2 hrest
      exact ⟨by simp only [e1, i1], i2⟩

theorem mem_epVarPos (e : EP) (a : Str × Str) (ha : a ∈ sortArgs e.args) (hc : a.1 ≠ CARG) :
    a.2 ∈ epVarPos e := by
  unfold epVarPos
  exact List.mem_map.2 ⟨a, List.mem_filter.2 ⟨ha, by simpa using hc⟩, rfl⟩

theorem encRel_congr (o : Opts) (vs : List Str) (vp vp' : Dict Props) (e : EP) (h : Rel vs vp vp')
    (hs : ∀ w ∈ epVarPos e, w ∈ vs) :
    (encRel o vp e).1 = (encRel o vp' e).1 ∧ Rel vs (encRel o vp e).2 (encRel o vp' e).2 := by
  rw [encRel_eq, encRel_eq]
  obtain ⟨i1, i2⟩ := encArgs_congr vs (sortArgs e.args) vp vp' h
    (fun a ha hc => hs _ (mem_epVarPos e a ha hc))
  exact ⟨by simp only [i1], i2⟩

theorem encRels_congr (o : Opts) (vs : List Str) : ∀ (eps : List EP) (vp vp' : Dict Props),
    Rel vs vp vp' → (∀ e ∈ eps, ∀ w ∈ epVarPos e, w ∈ vs) →
    (encRels o vp eps).1 = (encRels o vp' eps).1 ∧ Rel vs (encRels o vp eps).2 (encRels o vp' eps).2 := by
  intro eps
  induction eps with
  | nil => intro vp vp' h _; exact ⟨rfl, h⟩
  | cons e rest ih =>
    intro vp vp' h hs
    rw [encRels_cons, encRels_cons]
    obtain ⟨e1, e2⟩ := encRel_congr o vs vp vp' e h (hs e List.mem_cons_self)
    obtain ⟨i1, i2⟩ := ih _ _ e2 (fun e he => hs e (List.mem_cons_of_mem _ he))
    exact ⟨by simp only [e1, i1], i2⟩

theorem encIcons_congr (vs : List Str) : ∀ (cs : List Cons) (vp vp' : Dict Props),
    Rel vs vp vp' → (∀ c ∈ cs, c.lhs ∈ vs ∧ c.rhs ∈ vs) →
    (encIcons vp cs).1 = (encIcons vp' cs).1 ∧ Rel vs (encIcons vp cs).2 (encIcons vp' cs).2 := by
  intro cs
  induction cs with
  | nil => intro vp vp' h _; exact ⟨rfl, h⟩
  | cons c rest ih =>
    intro vp vp' h hs
    rw [encIcons_cons, encIcons_cons]
    have hc := hs c List.mem_cons_self
    obtain ⟨a1, a2⟩ := encVar_congr vs vp vp' c.lhs h hc.1
    obtain ⟨b1, b2⟩ := encVar_congr vs _ _ c.rhs a2 hc.2
    obtain ⟨i1, i2⟩ := ih _ _ b2 (fun c hc => hs c (List.mem_cons_of_mem _ hc))
    exact ⟨by simp only [a1, b1, i1], i2⟩

/-! ### (e) the EP view is invisible to the encoder -/

theorem roleLe_total (a b : Str) : roleLe a b = false → roleLe b a = true := by
  unfold roleLe
  generalize roleKey a = ka
  generalize roleKey b = kb
  obtain ⟨a1, a2, a3⟩ := ka
  obtain ⟨b1, b2, b3⟩ := kb
  simp only
  cases a1 <;> cases a2 <;> cases b1 <;> cases b2 <;> simp [boolLt, strLe] <;>
    exact fun h => strLt_asymm _ _ h

theorem sortArgs_idem (as : Dict Str) : sortArgs (sortArgs as) = sortArgs as :=
  sortBy_of_chain _ _ (sortBy_chain _ (fun a b => roleLe_total a.1 b.1) as)

theorem encRel_view (o : Opts) (vp : Dict Props) (e : EP) :
    encRel o vp (epViewS o e) = encRel o vp e := by
  rw [encRel_eq, encRel_eq]
  simp only [epViewS, sortArgs_idem]
  cases o.lnk <;> simp

theorem encRels_view (o : Opts) : ∀ (eps : List EP) (vp : Dict Props),
    encRels o vp (eps.map (epViewS o)) = encRels o vp eps := by
  intro eps
  induction eps with
  | nil => intro vp; rfl
  | cons e rest ih =>
    intro vp
    rw [List.map_cons, encRels_cons, encRels_cons, encRel_view, ih]

/-! ### (c) initial agreement -/

theorem varPositions_sub_fillOrder (o : Opts) (m : MRS) (w : Str) (hw : w ∈ varPositions m) :
    w ∈ fillOrder m.top m.index (m.rels.map (epViewS o)) m.hcons m.icons := by
  unfold varPositions at hw
  unfold fillOrder
  simp only [List.mem_append] at hw ⊢
  rcases hw with (hw | hw) | hw
  · exact Or.inl (Or.inl (Or.inl (Or.inr hw)))
  · refine Or.inl (Or.inl (Or.inr ?_))
    rw [List.mem_flatMap] at hw ⊢
    obtain ⟨e, he, hwe⟩ := hw
    exact ⟨epViewS o e, List.mem_map.2 ⟨e, he, rfl⟩, List.mem_cons_of_mem _ hwe⟩
  · exact Or.inr hw

theorem blockOf_nil (w : Str) : blockOf [] w = [] := rfl

theorem rel_init (o : Opts) (m : MRS)
    (hn : (m.vars.map (·.1)).Nodup) (hp : ∀ vp ∈ m.vars, (vp.2.map (·.1)).Nodup) :
    Rel (varPositions m) (vp0 o (decodedS o m)) (vp0 o m) := by
  unfold vp0
  cases hprop : o.properties with
  | false => exact ⟨by simp, by simp, fun w _ => rfl⟩
  | true =>
    simp only [if_true]
    refine ⟨nodup_decodedS o m, hn, ?_⟩
    intro w hw
    have hd := decodedS_vars o m w hn hp (varPositions_sub_fillOrder o m w hw)
    unfold blockOf
    rw [hd]
    unfold propsView
    simp only [hprop, hw, and_self, if_true]
    cases dget m.vars w with
    | none => rfl
    | some ps => exact sortProps_idem ps

theorem surfT_decodedS (o : Opts) (m : MRS) : surfT o (decodedS o m) = surfT o m := by
  unfold surfT decodedS mkMRS
  cases o.lnk
  · rfl
  · have hu : Lnk.truthy .unspec = false := rfl
    cases h : m.lnk.truthy <;> simp [h, hu]

end Verif.C01.StableL

namespace Verif.C01
open Verif.Codec Verif.Tables Verif.C01.SimpleL Verif.C01.StableL

/-- "encoding that result again reproduces the text exactly" (SimpleMRS, token level). -/
theorem toks_decodedS (o : Opts) (m : MRS)
    (hn : (m.vars.map (·.1)).Nodup) (hp : ∀ vp ∈ m.vars, (vp.2.map (·.1)).Nodup) :
    toks o (decodedS o m) = toks o m := by
  have hD : toks o (decodedS o m) =
      tLB :: surfT o (decodedS o m) ++ topT m.top ++ ixT (vp0 o (decodedS o m)) m.index
        ++ section_ "RELS" (encRels o (ixVp (vp0 o (decodedS o m)) m.index) (m.rels.map (epViewS o))).1
        ++ section_ "HCONS" (encHcons m.hcons)
        ++ section_ "ICONS" (encIcons
            (encRels o (ixVp (vp0 o (decodedS o m)) m.index) (m.rels.map (epViewS o))).2 m.icons).1
        ++ [tRB] := toks_eq o (decodedS o m)
  rw [hD, toks_eq o m, surfT_decodedS, encRels_view]
  have h0 := rel_init o m hn hp
  have hix : ixT (vp0 o (decodedS o m)) m.index = ixT (vp0 o m) m.index ∧
      Rel (varPositions m) (ixVp (vp0 o (decodedS o m)) m.index) (ixVp (vp0 o m) m.index) := by
    cases hi : m.index with
    | none => exact ⟨rfl, h0⟩
    | some i =>
      have hmem : i ∈ varPositions m := by simp [varPositions, hi]
      obtain ⟨a1, a2⟩ := encVar_congr _ _ _ i h0 hmem
      exact ⟨by simp only [ixT, a1], a2⟩
  obtain ⟨x1, x2⟩ := hix
  obtain ⟨r1, r2⟩ := encRels_congr o (varPositions m) m.rels _ _ x2 (by
    intro e he w hw
    unfold varPositions
    simp only [List.mem_append]
    exact Or.inl (Or.inr (List.mem_flatMap.2 ⟨e, he, hw⟩)))
  obtain ⟨c1, _⟩ := encIcons_congr (varPositions m) m.icons _ _ r2 (by
    intro c hc
    unfold varPositions
    simp only [List.mem_append]
    exact ⟨Or.inr (List.mem_flatMap.2 ⟨c, hc, by simp⟩), Or.inr (List.mem_flatMap.2 ⟨c, hc, by simp⟩)⟩)
  rw [x1, r1, c1]

end Verif.C01
