/-
C01 — the tokens the SimpleMRS encoder (`toks`) produces from a lexically expressible MRS are
lexically expressible tokens (`TokOK`), and alignments are placed where the layout glues them
(`LnkPlaced`).
-/
import Verif.C01.LexSpec
import Verif.C01.SimpleLemmas

namespace Verif.C01.LexT
open Verif.Codec Verif.Tables Verif.C01 Verif.C01.Lex Verif.C01.SimpleL

/-! ### placement of alignment tokens -/

def okPrev (k : K) : Prop := k = K.lbrack ∨ k = K.dq ∨ k = K.pred ∨ k = K.symbol

/-- every alignment token of `l` follows an opening bracket / string / predicate / symbol (`p` is
the kind of the token before `l`), and the last token is not an alignment. -/
def Placed : K → List T → Prop
  | p, [] => p ≠ K.lnk
  | p, t :: r => (t.kind = K.lnk → okPrev p) ∧ Placed t.kind r

theorem lnkPlaced_of_placed : ∀ (r : List T) (t : T), Placed t.kind r → LnkPlaced (t :: r)
  | [], _, h => h
  | u :: r, _, h => ⟨h.1, lnkPlaced_of_placed r u h.2⟩

def Seg (l : List T) : Prop := ∀ p, p ≠ K.lnk → Placed p l
def Seg2 (l : List T) : Prop := ∀ p, Placed p l
def NoLnk (l : List T) : Prop := ∀ t ∈ l, t.kind ≠ K.lnk

theorem Seg2.seg {l : List T} (h : Seg2 l) : Seg l := fun p _ => h p

theorem placed_append_seg : ∀ (a : List T) (p : K) (b : List T), Placed p a → Seg b → Placed p (a ++ b)
  | [], p, _, h, hb => hb p h
  | t :: r, _, b, h, hb => ⟨h.1, placed_append_seg r t.kind b h.2 hb⟩

theorem Seg.append {a b : List T} (ha : Seg a) (hb : Seg b) : Seg (a ++ b) :=
  fun p hp => placed_append_seg a p b (ha p hp) hb

theorem Seg2.append_seg {a b : List T} (ha : Seg2 a) (hb : Seg b) : Seg2 (a ++ b) :=
  fun p => placed_append_seg a p b (ha p) hb

theorem seg_nil : Seg [] := fun _ hp => hp

theorem seg_of_noLnk : ∀ (l : List T), NoLnk l → Seg l
  | [], _, _, hp => hp
  | t :: r, h, _, _ =>
    ⟨fun e => absurd e (h t (List.mem_cons_self ..)),
     seg_of_noLnk r (fun u hu => h u (List.mem_cons_of_mem _ hu)) t.kind (h t (List.mem_cons_self ..))⟩

theorem seg2_cons {t : T} {l : List T} (ht : t.kind ≠ K.lnk) (h : Seg l) : Seg2 (t :: l) :=
  fun _ => ⟨fun e => absurd e ht, h t.kind ht⟩

theorem seg2_noLnk_append : ∀ (a : List T) {b : List T}, NoLnk a → Seg2 b → Seg2 (a ++ b)
  | [], _, _, hb => hb
  | t :: r, _, h, hb => fun _ =>
    ⟨fun e => absurd e (h t (List.mem_cons_self ..)),
     seg2_noLnk_append r (fun u hu => h u (List.mem_cons_of_mem _ hu)) hb t.kind⟩

theorem okPrev_ne {k : K} (h : okPrev k) : k ≠ K.lnk := by
  rcases h with h | h | h | h <;> simp [h]

theorem lnkToks_cases (l : Lnk) : lnkToks l = [] ∨ lnkToks l = [tk .lnk l.str] := by
  unfold lnkToks; split <;> simp

theorem seg2_glue {t : T} (l : Lnk) {rest : List T} (ht : okPrev t.kind) (hr : Seg2 rest) :
    Seg2 (t :: (lnkToks l ++ rest)) := by
  have htn := okPrev_ne ht
  rcases lnkToks_cases l with e | e <;> rw [e]
  · exact seg2_cons htn hr.seg
  · intro p
    exact ⟨fun e => absurd e htn, fun _ => ht, hr K.lnk⟩

/-! ### expressible tokens -/

def AllOK (l : List T) : Prop := ∀ t ∈ l, TokOK t
def OKN (l : List T) : Prop := ∀ t ∈ l, TokOK t ∧ t.kind ≠ K.lnk

theorem OKN.allOK {l : List T} (h : OKN l) : AllOK l := fun t ht => (h t ht).1
theorem OKN.noLnk {l : List T} (h : OKN l) : NoLnk l := fun t ht => (h t ht).2
theorem OKN.seg {l : List T} (h : OKN l) : Seg l := seg_of_noLnk l h.noLnk

theorem OKN_nil : OKN [] := fun _ ht => by cases ht
theorem OKN_cons {t : T} {l : List T} (h1 : TokOK t) (h2 : t.kind ≠ K.lnk) (h : OKN l) : OKN (t :: l) := by
  intro u hu
  rcases List.mem_cons.mp hu with rfl | hu
  · exact ⟨h1, h2⟩
  · exact h u hu
theorem OKN_append {a b : List T} (ha : OKN a) (hb : OKN b) : OKN (a ++ b) := by
  intro u hu
  rcases List.mem_append.mp hu with hu | hu
  · exact ha u hu
  · exact hb u hu

theorem AllOK_nil : AllOK [] := fun _ ht => by cases ht
theorem AllOK_cons {t : T} {l : List T} (h1 : TokOK t) (h : AllOK l) : AllOK (t :: l) := by
  intro u hu
  rcases List.mem_cons.mp hu with rfl | hu
  · exact h1
  · exact h u hu
theorem AllOK_append {a b : List T} (ha : AllOK a) (hb : AllOK b) : AllOK (a ++ b) := by
  intro u hu
  rcases List.mem_append.mp hu with hu | hu
  · exact ha u hu
  · exact hb u hu

theorem tokOK_tS {s : Str} (h : Atom s) : TokOK (tS s) := h
theorem tokOK_tF {s : Str} (h : Atom s) : TokOK (tF s) := h
theorem tokOK_tDQ {s : Str} (h : NoBreak s) : TokOK (tDQ s) := ⟨s, rfl, h⟩
theorem tokOK_lnk {l : Lnk} (h : LnkOK l) : TokOK (tk .lnk l.str) := ⟨l, h, rfl⟩
theorem tokOK_tLB : TokOK tLB := rfl
theorem tokOK_tRB : TokOK tRB := rfl
theorem tokOK_tLA : TokOK tLA := rfl
theorem tokOK_tRA : TokOK tRA := rfl

theorem atom_LBL : Atom (S "LBL") := by unfold Atom; decide
theorem atom_TOP : Atom (S c01TopFeature) := by unfold Atom; decide
theorem atom_INDEX : Atom (S "INDEX") := by unfold Atom; decide
theorem atom_RELS : Atom (S "RELS") := by unfold Atom; decide
theorem atom_HCONS : Atom (S "HCONS") := by unfold Atom; decide
theorem atom_ICONS : Atom (S "ICONS") := by unfold Atom; decide
theorem atom_CARG : Atom CARG := by unfold Atom; decide

theorem OKN_tS {s : Str} (h : Atom s) {l : List T} (hl : OKN l) : OKN (tS s :: l) :=
  OKN_cons (tokOK_tS h) (by simp [tS, tk]) hl
theorem OKN_tF {s : Str} (h : Atom s) {l : List T} (hl : OKN l) : OKN (tF s :: l) :=
  OKN_cons (tokOK_tF h) (by simp [tF, tk]) hl
theorem OKN_tDQ {s : Str} (h : NoBreak s) {l : List T} (hl : OKN l) : OKN (tDQ s :: l) :=
  OKN_cons (tokOK_tDQ h) (by simp [tDQ, tk]) hl

theorem allOK_lnkToks {l : Lnk} (h : l = .unspec ∨ LnkOK l) : AllOK (lnkToks l) := by
  rcases h with rfl | h
  · exact AllOK_nil
  · rcases lnkToks_cases l with e | e <;> rw [e]
    · exact AllOK_nil
    · exact AllOK_cons (tokOK_lnk h) AllOK_nil

theorem OKN_optDQ {s : Option Str} (h : ∀ x, s = some x → NoBreak x) : OKN (optDQ s) := by
  cases s with
  | none => exact OKN_nil
  | some x => exact OKN_tDQ (h x rfl) OKN_nil

theorem predTok_ok {p : Str} (h : PredOK p) : TokOK (predTok p) ∧ okPrev (predTok p).kind := by
  unfold predTok
  by_cases h1 : needsQuote p = true
  · rw [if_pos h1]
    exact ⟨tokOK_tDQ h.1, Or.inr (Or.inl rfl)⟩
  · rw [if_neg h1]
    have h1' : needsQuote p = false := by simpa using h1
    rcases h.2 h1' with ⟨h2, h3⟩ | ⟨h2, h3⟩
    · rw [if_pos h2]
      exact ⟨h3, Or.inr (Or.inr (Or.inl rfl))⟩
    · rw [if_neg (by simp [h2])]
      exact ⟨tokOK_tS h3, Or.inr (Or.inr (Or.inr rfl))⟩

/-- glue lemma: a token that may carry an alignment, the alignment, the optional string, the rest. -/
theorem glue_ok (t : T) (l : Lnk) (s : Option Str) (rest : List T)
    (hl : l = .unspec ∨ LnkOK l) (hs : ∀ x, s = some x → NoBreak x)
    (ht : TokOK t) (hk : okPrev t.kind) (hrO : AllOK rest) (hrS : Seg2 rest) :
    AllOK (t :: ((lnkToks l ++ optDQ s) ++ rest)) ∧ Seg2 (t :: ((lnkToks l ++ optDQ s) ++ rest)) := by
  refine ⟨AllOK_cons ht (AllOK_append (AllOK_append (allOK_lnkToks hl) (OKN_optDQ hs).allOK) hrO), ?_⟩
  rw [List.append_assoc]
  exact seg2_glue l hk (seg2_noLnk_append _ (OKN_optDQ hs).noLnk hrS)

/-! ### the threaded variable-property dictionary -/

def VP (vp : Dict Props) : Prop :=
  ∀ p ∈ vp, (∀ kv ∈ p.2, Atom kv.1 ∧ Atom kv.2) ∧ (p.2 ≠ [] → Atom (varSort p.1))

theorem VP_nil : VP [] := fun _ hp => by cases hp

theorem VP_ddel {vp : Dict Props} (h : VP vp) (v : Str) : VP (ddel vp v) :=
  fun p hp => h p (mem_ddel vp v p hp)

theorem OKN_propToks {ps : Props} (h : ∀ kv ∈ ps, Atom kv.1 ∧ Atom kv.2) : OKN (propToks ps) := by
  intro t ht
  unfold propToks at ht
  rcases List.mem_flatMap.mp ht with ⟨kv, hkv, hm⟩
  have hkv' := h kv (mem_sortProps.mp hkv)
  exact OKN_tF hkv'.1 (OKN_tS hkv'.2 OKN_nil) t hm

theorem OKN_tRB : OKN [tRB] := OKN_cons tokOK_tRB (by simp [tRB, tk]) OKN_nil

theorem encVar_ok {vp : Dict Props} {v : Str} (hvp : VP vp) (hv : Atom v) :
    OKN (encVar vp v).1 ∧ VP (encVar vp v).2 := by
  unfold encVar
  cases hd : dget vp v with
  | none => exact ⟨OKN_tS hv OKN_nil, hvp⟩
  | some ps =>
    by_cases he : ps.isEmpty = true
    · simp only [he, if_true]
      exact ⟨OKN_tS hv OKN_nil, hvp⟩
    · simp only [he]
      have hp := hvp _ (dget_mem vp v ps hd)
      have hne : ps ≠ [] := by
        intro e; apply he; rw [e]; rfl
      refine ⟨?_, VP_ddel hvp v⟩
      exact OKN_tS hv (OKN_cons tokOK_tLB (by simp [tLB, tk])
        (OKN_tS (hp.2 hne) (OKN_append (OKN_propToks hp.1) OKN_tRB)))

def ArgOK (a : Str × Str) : Prop := Atom a.1 ∧ (if a.1 = CARG then NoBreak a.2 else Atom a.2)

theorem encArgs_ok : ∀ (as : Dict Str) (vp : Dict Props), VP vp → (∀ a ∈ as, ArgOK a) →
    OKN (encArgs vp as).1 ∧ VP (encArgs vp as).2 := by
  intro as
  induction as with
  | nil => intro vp hvp _; exact ⟨OKN_nil, hvp⟩
  | cons a rest ih =>
    intro vp hvp has
    obtain ⟨role, val⟩ := a
    have ha := has (role, val) (List.mem_cons_self ..)
    have hrest : ∀ a ∈ rest, ArgOK a := fun a h => has a (List.mem_cons_of_mem _ h)
    by_cases hr : role = CARG
    · subst hr
      rw [encArgs_carg]
      have hi := ih vp hvp hrest
      have hv : NoBreak val := by simpa [ArgOK] using ha.2
      exact ⟨OKN_tF atom_CARG (OKN_tDQ hv hi.1), hi.2⟩
    · rw [encArgs_var _ _ _ _ hr]
      have hv : Atom val := by
        have := ha.2
        simpa [hr] using this
      have h1 := encVar_ok (v := val) hvp hv
      have hi := ih _ h1.2 hrest
      exact ⟨OKN_tF ha.1 (OKN_append h1.1 hi.1), hi.2⟩

structure EPOK (e : EP) : Prop where
  pred : PredOK e.pred
  label : Atom e.label
  args : ∀ a ∈ e.args, ArgOK a
  lnk : e.lnk = .unspec ∨ LnkOK e.lnk
  surf : ∀ s, e.surface = some s → NoBreak s

theorem surf_cases (b : Bool) (l : Lnk) (s : Option Str) :
    ∃ l' s', (if b = true then lnkToks l ++ optDQ s else []) = lnkToks l' ++ optDQ s' ∧
      (l' = .unspec ∨ l' = l) ∧ (s' = none ∨ s' = s) := by
  cases b with
  | true => exact ⟨l, s, by simp, Or.inr rfl, Or.inr rfl⟩
  | false => exact ⟨.unspec, none, by simp [lnkToks, optDQ, Lnk.str], Or.inl rfl, Or.inl rfl⟩

theorem encRel_ok (o : Opts) {vp : Dict Props} {ep : EP} (hvp : VP vp) (he : EPOK ep) :
    AllOK (encRel o vp ep).1 ∧ Seg2 (encRel o vp ep).1 ∧ VP (encRel o vp ep).2 := by
  rw [encRel_eq]
  have ha := encArgs_ok (sortArgs ep.args) vp hvp (fun a h => he.args a (mem_sortArgs.mp h))
  refine ⟨?_, ?_, ha.2⟩
  all_goals
    simp only [List.cons_append, List.append_assoc]
    obtain ⟨l', s', e, hl, hs⟩ := surf_cases o.lnk ep.lnk ep.surface
    have hl' : l' = .unspec ∨ LnkOK l' := by
      rcases hl with rfl | rfl
      · exact Or.inl rfl
      · exact he.lnk
    have hs' : ∀ x, s' = some x → NoBreak x := by
      rcases hs with rfl | rfl
      · intro x hx; cases hx
      · exact he.surf
    have htail : OKN (tF (S "LBL") :: tS ep.label :: ((encArgs vp (sortArgs ep.args)).1 ++ [tRB])) :=
      OKN_tF atom_LBL (OKN_tS he.label (OKN_append ha.1 OKN_tRB))
    have hp := predTok_ok he.pred
    have hg := glue_ok (predTok ep.pred) l' s' _ hl' hs' hp.1 hp.2 htail.allOK
      (seg2_cons (by simp [tF, tk]) (OKN_tS he.label (OKN_append ha.1 OKN_tRB)).seg)
    rw [e]
  · exact AllOK_cons tokOK_tLB hg.1
  · exact seg2_cons (by simp [tLB, tk]) hg.2.seg

theorem encRels_ok (o : Opts) : ∀ (eps : List EP) (vp : Dict Props), VP vp → (∀ e ∈ eps, EPOK e) →
    AllOK (encRels o vp eps).1 ∧ Seg (encRels o vp eps).1 ∧ VP (encRels o vp eps).2 := by
  intro eps
  induction eps with
  | nil => intro vp hvp _; exact ⟨AllOK_nil, seg_nil, hvp⟩
  | cons e rest ih =>
    intro vp hvp hes
    rw [encRels_cons]
    have h1 := encRel_ok o hvp (hes e (List.mem_cons_self ..))
    have h2 := ih _ h1.2.2 (fun e' h => hes e' (List.mem_cons_of_mem _ h))
    exact ⟨AllOK_append h1.1 h2.1, h1.2.1.seg.append h2.2.1, h2.2.2⟩

def ConsOK (c : Cons) : Prop := Atom c.lhs ∧ Atom c.rel ∧ Atom c.rhs

theorem encHcons_ok {hs : List Cons} (h : ∀ c ∈ hs, ConsOK c) : OKN (encHcons hs) := by
  intro t ht
  unfold encHcons at ht
  rcases List.mem_flatMap.mp ht with ⟨c, hc, hm⟩
  have := h c hc
  exact OKN_tS this.1 (OKN_tS this.2.1 (OKN_tS this.2.2 OKN_nil)) t hm

theorem encIcons_ok : ∀ (cs : List Cons) (vp : Dict Props), VP vp → (∀ c ∈ cs, ConsOK c) →
    OKN (encIcons vp cs).1 ∧ VP (encIcons vp cs).2 := by
  intro cs
  induction cs with
  | nil => intro vp hvp _; exact ⟨OKN_nil, hvp⟩
  | cons c rest ih =>
    intro vp hvp hcs
    rw [encIcons_cons]
    have hc := hcs c (List.mem_cons_self ..)
    have h1 := encVar_ok (v := c.lhs) hvp hc.1
    have h2 := encVar_ok (v := c.rhs) h1.2 hc.2.2
    have h3 := ih _ h2.2 (fun c' h => hcs c' (List.mem_cons_of_mem _ h))
    refine ⟨?_, h3.2⟩
    simp only [List.append_assoc, List.cons_append]
    exact OKN_append h1.1 (OKN_tS hc.2.1 (OKN_append h2.1 h3.1))

theorem section_ok (name : String) (hn : Atom (S name)) {ts rest : List T}
    (h1 : AllOK ts) (h2 : Seg ts) (r1 : AllOK rest) (r2 : Seg2 rest) :
    AllOK (section_ name ts ++ rest) ∧ Seg2 (section_ name ts ++ rest) := by
  unfold section_
  by_cases he : ts.isEmpty = true
  · rw [if_pos he]; exact ⟨r1, r2⟩
  · rw [if_neg he]
    have hra : OKN [tRA] := OKN_cons tokOK_tRA (by simp [tRA, tk]) OKN_nil
    refine ⟨AllOK_append (AllOK_cons (tokOK_tF hn) (AllOK_cons tokOK_tLA (AllOK_append h1 hra.allOK))) r1, ?_⟩
    refine Seg2.append_seg ?_ r2.seg
    refine seg2_cons (by simp [tF, tk]) (seg2_cons (by simp [tLA, tk]) (h2.append hra.seg)).seg

theorem topT_ok {top : Option Str} (h : ∀ t, top = some t → Atom t) : OKN (topT top) := by
  cases top with
  | none => exact OKN_nil
  | some t => exact OKN_tF atom_TOP (OKN_tS (h t rfl) OKN_nil)

theorem ix_ok {vp : Dict Props} {ix : Option Str} (hvp : VP vp) (h : ∀ i, ix = some i → Atom i) :
    OKN (ixT vp ix) ∧ VP (ixVp vp ix) := by
  cases ix with
  | none => exact ⟨OKN_nil, hvp⟩
  | some i =>
    have := encVar_ok (v := i) hvp (h i rfl)
    exact ⟨OKN_tF atom_INDEX this.1, this.2⟩

theorem top_surf_cases (b : Bool) (l : Lnk) (s : Option Str) (hl : l.truthy = true → LnkOK l) :
    ∃ l' s', (if b = true then (if l.truthy = true then lnkToks l else []) ++ optDQ s else [])
        = lnkToks l' ++ optDQ s' ∧
      (l' = .unspec ∨ LnkOK l') ∧ (s' = none ∨ s' = s) := by
  cases b with
  | true =>
    by_cases ht : l.truthy = true
    · exact ⟨l, s, by simp [ht], Or.inr (hl ht), Or.inr rfl⟩
    · exact ⟨.unspec, s, by simp [ht, lnkToks, Lnk.str], Or.inl rfl, Or.inr rfl⟩
  | false => exact ⟨.unspec, none, by simp [lnkToks, optDQ, Lnk.str], Or.inl rfl, Or.inl rfl⟩

theorem toks_all (o : Opts) (m : MRS) (h : LexExprS m) :
    AllOK (toks o m) ∧ Seg2 (toks o m) := by
  rw [toks_eq]
  have hvp0 : VP (vp0 o m) := by
    unfold vp0
    split
    · exact fun p hp => ⟨h.props p hp, h.sorts p hp⟩
    · exact VP_nil
  have hix := ix_ok (ix := m.index) hvp0 h.index
  have hrels := encRels_ok o m.rels _ hix.2 (fun e he =>
    ⟨h.preds e he, h.labels e he, fun a ha => ⟨h.roles e he a ha, h.vals e he a ha⟩,
     h.eplnk e he, h.epsurf e he⟩)
  have hic := encIcons_ok m.icons _ hrels.2.2 h.icons
  have hhc : OKN (encHcons m.hcons) := encHcons_ok h.hcons
  have s3 := section_ok "ICONS" atom_ICONS hic.1.allOK hic.1.seg OKN_tRB.allOK
    (seg2_cons (by simp [tRB, tk]) seg_nil)
  have s2 := section_ok "HCONS" atom_HCONS hhc.allOK hhc.seg s3.1 s3.2
  have s1 := section_ok "RELS" atom_RELS hrels.1 hrels.2.1 s2.1 s2.2
  have htop : OKN (topT m.top) := topT_ok h.top
  have r1 : AllOK (topT m.top ++ (ixT (vp0 o m) m.index ++ _)) :=
    AllOK_append htop.allOK (AllOK_append hix.1.allOK s1.1)
  have r2 : Seg2 (topT m.top ++ (ixT (vp0 o m) m.index ++ _)) :=
    seg2_noLnk_append _ htop.noLnk (seg2_noLnk_append _ hix.1.noLnk s1.2)
  obtain ⟨l', s', e, hl, hs⟩ := top_surf_cases o.lnk m.lnk m.surface h.lnk
  have hs' : ∀ x, s' = some x → NoBreak x := by
    rcases hs with rfl | rfl
    · intro x hx; cases hx
    · exact h.surf
  have hg := glue_ok tLB l' s' _ hl hs' tokOK_tLB (Or.inl rfl) r1 r2
  unfold surfT
  rw [e]
  simp only [List.cons_append, List.append_assoc] at hg ⊢
  exact hg

end Verif.C01.LexT

namespace Verif.C01.Lex
open Verif.Codec Verif.Tables Verif.C01 Verif.C01.LexT

/-- first conjunct on its own: every token of `toks o m` is lexically expressible. -/
theorem toks_tokOK (o : Opts) (m : MRS) (h : LexExprS m) : ∀ t ∈ toks o m, TokOK t :=
  (toks_all o m h).1

/-- the tokens the SimpleMRS encoder produces from a lexically expressible MRS are lexically
expressible tokens, and alignments are placed where the layout glues them. -/
theorem toks_ok (o : Opts) (m : MRS) (h : LexExprS m) :
    (∀ t ∈ toks o m, TokOK t) ∧ LnkPlaced (toks o m) := by
  have hh := toks_all o m h
  refine ⟨hh.1, ?_⟩
  have e := SimpleL.toks_head o m
  obtain ⟨r, hr⟩ := e
  rw [hr] at hh ⊢
  exact lnkPlaced_of_placed r tLB (hh.2 K.lbrack).2

end Verif.C01.Lex
