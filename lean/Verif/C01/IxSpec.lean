/-
C01 — specification-side definitions for the Indexed MRS token round trip.
-/
import Verif.C01.Indexed

namespace Verif.C01.Ix
open Verif.Codec Verif.Tables Verif.C01

/-- the roles of an EP that go into the SEM-I lookup of the encoder. -/
def epRoles (e : EP) : List Str := (e.args.filter (fun a => a.1 ≠ CARG)).map (·.1)

/-- the (role, variable) pairs `_encode_rel` writes, in synopsis order. -/
def writtenArgs (syn : Synopsis) (args : Dict Str) : List (Str × Str) :=
  (noCarg syn).filterMap (fun d => (dget args d.name).map (fun v => (d.name, v)))

/-- an EP as Indexed MRS gives it back: arguments in the order of the synopsis, the constant
last; alignment only when `lnk` is on; no surface/base (the format carries neither). -/
def epViewI (semi : SemI) (o : Opts) (e : EP) : EP :=
  match findEnc semi e.pred (epRoles e) with
  | .ok syn =>
    { pred := e.pred, label := e.label,
      args := writtenArgs syn e.args ++ (match dget e.args CARG with | some c => [(CARG, c)] | none => []),
      lnk := if o.lnk then e.lnk else .unspec, surface := none, base := none }
  | .error _ => e

/-- the decoded structure when no property list is written. -/
def decodedI0 (semi : SemI) (o : Opts) (m : MRS) : MRS :=
  mkMRS m.top m.index (m.rels.map (epViewI semi o)) m.hcons m.icons [] .unspec none none

/-- "a SEM-I that covers the structure" for one EP: the encoder finds a synopsis with all the EP's
roles; what it writes are valid variables; the positional reading of their sorts (with or
without a constant) selects a synopsis whose first roles are the written ones. -/
structure CoverEP (semi : SemI) (e : EP) : Prop where
  rolesUpper : ∀ a ∈ e.args, upper a.1 = a.1
  rolesNodup : (e.args.map (·.1)).Nodup
  cargNonempty : ∀ c, dget e.args CARG = some c → c ≠ []
  look : ∃ synE synD, findEnc semi e.pred (epRoles e) = .ok synE
      ∧ ((writtenArgs synE e.args).map (·.2)).all validVar = true
      ∧ ((writtenArgs synE e.args).map (·.1)).Nodup
      ∧ findDec semi e.pred ((writtenArgs synE e.args).map (fun a => varSort a.2)) (dget e.args CARG).isSome = .ok synD
      ∧ ((noCarg synD).map (·.name)).take (writtenArgs synE e.args).length = (writtenArgs synE e.args).map (·.1)

end Verif.C01.Ix
