/-
C01 — specification-side definitions for the Indexed MRS token round trip.
-/
import Verif.C01.Indexed

namespace Verif.C01.Ix
open Verif.Codec Verif.Tables Verif.C01

/-- the roles of an EP that go into the SEM-I lookup of the encoder. -/
def epRoles (e : EP) : List Str := (e.args.filter (fun a => a.1 ≠ CARG)).map (·.1)

/-- the (role, variable) pairs `_encode_rel` writes, in synopsis order. -/
def writtenArgs (syn : Synopsis) (args : Dict Str) : List (Str × Str) :=
  (noCarg syn).filterMap (fun d => (dget args d.name).map (fun v => (d.name, v)))

/-- an EP as Indexed MRS gives it back: arguments in the order of the synopsis, the constant
last; alignment only when `lnk` is on; no surface/base (the format carries neither). -/
def epViewI (semi : SemI) (o : Opts) (e : EP) : EP :=
  match findEnc semi e.pred (epRoles e) with
  | .ok syn =>
    { pred := e.pred, label := e.label,
      args := writtenArgs syn e.args ++ (match dget e.args CARG with | some c => [(CARG, c)] | none => []),
      lnk := if o.lnk then e.lnk else .unspec, surface := none, base := none }
  | .error _ => e

/-- the decoded structure when no property list is written. -/
def decodedI0 (semi : SemI) (o : Opts) (m : MRS) : MRS :=
  mkMRS m.top m.index (m.rels.map (epViewI semi o)) m.hcons m.icons [] .unspec none none

/-- "a SEM-I that covers the structure" for one EP: the encoder finds a synopsis with all the EP's
roles; what it writes are valid variables; the positional reading of their sorts (with or
without a constant) selects a synopsis whose first roles are the written ones. -/
structure CoverEP (semi : SemI) (e : EP) : Prop where
  rolesUpper : ∀ a ∈ e.args, upper a.1 = a.1
  rolesNodup : (e.args.map (·.1)).Nodup
  cargNonempty : ∀ c, dget e.args CARG = some c → c ≠ []
  look : ∃ synE synD, findEnc semi e.pred (epRoles e) = .ok synE
      ∧ ((writtenArgs synE e.args).map (·.2)).all validVar = true
      ∧ ((writtenArgs synE e.args).map (·.1)).Nodup
      ∧ findDec semi e.pred ((writtenArgs synE e.args).map (fun a => varSort a.2)) (dget e.args CARG).isSome = .ok synD
      ∧ ((noCarg synD).map (·.name)).take (writtenArgs synE e.args).length = (writtenArgs synE e.args).map (·.1)

end Verif.C01.Ix

/-! ## property lists (round 4) -/
namespace Verif.C01.Ix
open Verif.Codec Verif.Tables Verif.C01

/-- the variables an EP writes, in synopsis order. -/
def writtenVarsEP (semi : SemI) (e : EP) : List Str :=
  match findEnc semi e.pred (epRoles e) with
  | .ok syn => (writtenArgs syn e.args).map (·.2)
  | .error _ => []

/-- the positions at which Indexed MRS writes a variable with its property list: the index and
the arguments (not the constraints). -/
def writtenVars (semi : SemI) (m : MRS) : List Str :=
  m.index.toList ++ m.rels.flatMap (writtenVarsEP semi)

/-- the decidable covering condition on property lists: every variable that has properties is a
valid variable whose sort has a non-empty property list with distinct names in the SEM-I, and each
value that will be written (the variable's own value for the property, or the SEM-I's value when the
variable lacks the property), upper-cased, is subsumed in the property hierarchy by the value the
SEM-I declares for that property. -/
def propsCover (semi : SemI) (m : MRS) : Bool :=
  m.vars.all (fun vp => vp.2.isEmpty || (validVar vp.1 &&
    (match dget semi.vprops (varSort vp.1) with
     | none => false
     | some sps => !sps.isEmpty && decide ((sps.map (·.1)).Nodup) &&
         sps.all (fun kv => hsub semi.psub kv.2 (upper ((dget vp.2 kv.1).getD kv.2))))))

/-- the property map Indexed MRS gives back for `v`: the SEM-I's property names in the SEM-I's
order with the written (upper-cased) values, when properties are on, `v` has properties and is
written at the index or as an argument; the empty map otherwise. -/
def propsViewI (semi : SemI) (o : Opts) (m : MRS) (v : Str) : Props :=
  if o.properties = true ∧ v ∈ writtenVars semi m then
    match dget m.vars v with
    | some ps =>
      if ps.isEmpty then []
      else match dget semi.vprops (varSort v) with
        | some sps => sps.map (fun kv => (kv.1, upper ((dget ps kv.1).getD kv.2)))
        | none => []
    | none => []
  else []

end Verif.C01.Ix
