/-
C01 — the indented text layout of Indexed MRS (`indexedmrs._encode_indexed` / `_encode` with
indent = True or an integer) as white space written after each token of the encoder's token list.

`gapsInd n` walks the token list with a three-flag state (inside the parentheses of an argument
list / inside braces / the next top-level comma is the one of the hook) and yields, for every token,
the blanks and line feeds the real encoder writes between it and the next token:

  start `< `, end ` >`, hook `top, index`; `,\n` + n blanks before each `{`; `{` + (n-1) blanks;
  a blank before every `}`; `,\n` + 2n blanks between the items of a brace; `, ` between arguments;
  a blank between the three symbols of a constraint; a line feed between the items of a document.

`indent=True` is n = 2.  Compared with the real `encode(…, indent=…)`/`dumps` text on every
generated Indexed MRS case; `IxLayoutLemmas.lean` proves that the lexer model reads it back.
-/
import Verif.C01.IxLexer

namespace Verif.C01.IxLex
open Verif.Codec Verif.Tables Verif.C01 Verif.C01.Ix

/-- tokens, each followed by its white space. -/
def renderG : List (TI × Str) → Str
  | [] => []
  | p :: r => tokTextI p.1 ++ p.2 ++ renderG r

def sp (n : Nat) : Str := List.replicate n ' '

structure LSt where
  paren : Bool := false
  brace : Bool := false
  first : Bool := true
deriving Repr, DecidableEq

/-- the state after token `t`. -/
def stAfter (st : LSt) (t : TI) : LSt :=
  match t.kind with
  | .comma => if !st.paren && !st.brace then { st with first := false } else st
  | .lbrace => { st with brace := true }
  | .rbrace => { st with brace := false }
  | .lparen => { st with paren := true }
  | .rparen => { st with paren := false }
  | .rangle => { st with first := true }
  | _ => st

/-- the white space the format strings of `_encode_indexed` put after token `t` itself. -/
def ownGap (n : Nat) (st : LSt) (t : TI) (next : Option TI) : Str :=
  match t.kind with
  | .langle => [' ']
  | .comma =>
    if st.paren then [' ']
    else if st.brace then '\n' :: sp (2 * n)
    else if st.first then [' ']
    else '\n' :: sp n
  | .lbrace => sp (n - 1)
  | .rangle => (match next with | some _ => ['\n'] | none => [])
  | .symbol => (match next with | some u => if u.kind = KI.symbol then [' '] else [] | none => [])
  | _ => []

/-- the blank before a closing brace / the closing angle bracket. -/
def closeGap (next : Option TI) : Str :=
  match next with
  | some u => if u.kind = KI.rbrace ∨ u.kind = KI.rangle then [' '] else []
  | none => []

def gapsInd (n : Nat) : LSt → List TI → List (TI × Str)
  | _, [] => []
  | st, t :: r => (t, ownGap n st t r.head? ++ closeGap r.head?) :: gapsInd n (stAfter st t) r

/-- the text of `encode(m, semi, indent=n)` (one item) / `dumps(ms, semi, indent=n)` (the items' tokens in a row). -/
def renderIxInd (n : Nat) (ts : List TI) : Str := renderG (gapsInd n {} ts)

/-- the un-indented layout of a DOCUMENT (`_encode` with indent None/False: the items' texts joined by one blank):
a blank between two adjacent symbols (the constraints) and after every closing angle bracket that is not the last token. -/
def gapsFlat : List TI → List (TI × Str)
  | [] => []
  | t :: r =>
    (t, match r.head? with
        | some u => if (t.kind = KI.symbol ∧ u.kind = KI.symbol) ∨ t.kind = KI.rangle then [' '] else []
        | none => []) :: gapsFlat r

/-- the text of `dumps(ms, semi)` (indent off) for the items' tokens in a row; for one item it is `renderIx`. -/
def renderIxDoc (ts : List TI) : Str := renderG (gapsFlat ts)

end Verif.C01.IxLex
