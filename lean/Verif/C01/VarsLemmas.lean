/-
C01 — "first-mention" lemmas: dictionary facts (dget/dset/ddel/declare), the decoder's fold of the
mentions (`varsOfMentions`), the encoder-side walk (`mentVars`), `fillVars`, and `sortProps`.
-/
import Verif.C01.Spec

namespace Verif.C01
open Verif.Codec Verif.Tables

/-! ## dictionary facts -/

theorem dget_dset_same {β} (d : Dict β) (k : Str) (x : β) : dget (dset d k x) k = some x := by
  induction d with
  | nil => simp [dset, dget]
  | cons a r ih =>
    obtain ⟨k', v'⟩ := a
    by_cases h : k' = k
    · simp [dset, dget, h]
    · simp [dset, dget, h, ih]

theorem dget_dset_other {β} (d : Dict β) (k k' : Str) (x : β) (h : k' ≠ k) :
    dget (dset d k x) k' = dget d k' := by
  induction d with
  | nil => simp [dset, dget, Ne.symm h]
  | cons a r ih =>
    obtain ⟨k2, v2⟩ := a
    by_cases h2 : k2 = k
    · subst h2; simp [dset, dget, Ne.symm h]
    · by_cases h3 : k2 = k'
      · subst h3; simp [dset, dget, h2]
      · simp [dset, dget, h2, h3, ih]

theorem dget_append {β} (d e : Dict β) (k : Str) :
    dget (d ++ e) k = (dget d k).or (dget e k) := by
  induction d with
  | nil => simp [dget]
  | cons a r ih =>
    obtain ⟨k2, v2⟩ := a
    by_cases h : k2 = k
    · simp [dget, h]
    · simp [dget, h, ih]

theorem dget_declare {β} [Inhabited β] (d : Dict β) (k k' : Str) :
    dget (declare d k) k' = if k' = k ∧ dget d k = none then some default else dget d k' := by
  unfold declare dhas
  cases hd : dget d k with
  | some x => simp
  | none =>
    simp [dget_append, dget]
    by_cases h : k' = k
    · subst h; simp [hd]
    · simp [h, Ne.symm h]

theorem setAll_append (d : Props) (a b : List (Str × Str)) :
    setAll d (a ++ b) = setAll (setAll d a) b := by
  simp [setAll, List.foldl_append]

theorem blocksOf_cons (v : Str) (m : Mention) (ms : List Mention) :
    blocksOf v (m :: ms) = (if m.1 = v then m.2 else []) ++ blocksOf v ms := by
  unfold blocksOf
  by_cases h : m.1 = v <;> simp [h]

theorem blocksOf_append (v : Str) (a b : List Mention) :
    blocksOf v (a ++ b) = blocksOf v a ++ blocksOf v b := by
  simp [blocksOf]

theorem blocksOf_not_any (v : Str) (ms : List Mention) (h : ms.any (fun m => m.1 = v) = false) :
    blocksOf v ms = [] := by
  induction ms with
  | nil => rfl
  | cons m ms ih =>
    simp [List.any_cons] at h
    rw [blocksOf_cons]
    have : ms.any (fun m => m.1 = v) = false := by simpa using h.2
    simp [h.1, ih this]

/-! ## (A) the decoder's dictionary -/

theorem dget_applyMention (d : Dict Props) (m : Mention) (v : Str) :
    dget (applyMention d m) v =
      if m.1 = v then some (setAll ((dget d v).getD []) m.2) else dget d v := by
  unfold applyMention
  by_cases h : m.1 = v
  · subst h
    simp only [if_true]
    rw [dget_dset_same, dget_declare]
    cases hd : dget d m.1 with
    | none => simp [setAll]; rfl
    | some x => simp [setAll]
  · simp only [h, if_false]
    rw [dget_dset_other _ _ _ _ (Ne.symm h), dget_declare]
    simp [Ne.symm h]

theorem dget_foldl_applyMention (ms : List Mention) (d : Dict Props) (v : Str) :
    dget (ms.foldl applyMention d) v =
      if ms.any (fun m => m.1 = v) then some (setAll ((dget d v).getD []) (blocksOf v ms))
      else dget d v := by
  induction ms generalizing d with
  | nil => simp
  | cons m ms ih =>
    rw [List.foldl_cons, ih, dget_applyMention, blocksOf_cons]
    by_cases h : m.1 = v
    · simp only [h, if_true, List.any_cons, decide_true, Bool.true_or, Option.getD_some,
        setAll_append]
      cases h2 : ms.any (fun m => m.1 = v) with
      | true => simp
      | false => simp [blocksOf_not_any v ms h2, setAll]
    · simp only [h, if_false, List.any_cons, decide_false, Bool.false_or, List.nil_append]

theorem dget_varsOfMentions (ms : List Mention) (v : Str) :
    dget (varsOfMentions ms) v =
      if ms.any (fun m => m.1 = v) then some (setAll [] (blocksOf v ms)) else none := by
  unfold varsOfMentions
  rw [dget_foldl_applyMention]
  simp [dget]

/-! ## (B) assigning distinct keys in order -/

theorem dset_of_not_mem {β} (d : Dict β) (k : Str) (x : β) (h : ∀ p ∈ d, p.1 ≠ k) :
    dset d k x = d ++ [(k, x)] := by
  induction d with
  | nil => rfl
  | cons a r ih =>
    obtain ⟨k2, v2⟩ := a
    have h1 : k2 ≠ k := h (k2, v2) (List.mem_cons_self)
    have h2 : ∀ p ∈ r, p.1 ≠ k := fun p hp => h p (List.mem_cons_of_mem _ hp)
    simp [dset, h1, ih h2]

theorem setAll_cons (d : Props) (p : Str × Str) (ps : List (Str × Str)) :
    setAll d (p :: ps) = setAll (dset d p.1 p.2) ps := rfl

theorem setAll_disjoint_nodup (ps : List (Str × Str)) (d : Props)
    (hn : (ps.map (·.1)).Nodup) (hd : ∀ p ∈ d, ∀ q ∈ ps, p.1 ≠ q.1) :
    setAll d ps = d ++ ps := by
  induction ps generalizing d with
  | nil => simp [setAll]
  | cons q ps ih =>
    rw [setAll_cons, dset_of_not_mem d q.1 q.2 (fun p hp => hd p hp q List.mem_cons_self)]
    rw [List.map_cons, List.nodup_cons] at hn
    rw [ih (d ++ [(q.1, q.2)]) hn.2]
    · simp
    · intro p hp r hr
      rw [List.mem_append] at hp
      cases hp with
      | inl hp => exact hd p hp r (List.mem_cons_of_mem _ hr)
      | inr hp =>
        simp only [List.mem_singleton] at hp
        subst hp
        intro he
        exact hn.1 (List.mem_map.2 ⟨r, hr, he.symm⟩)

theorem setAll_nil_nodup (ps : List (Str × Str)) (h : (ps.map (·.1)).Nodup) : setAll [] ps = ps := by
  rw [setAll_disjoint_nodup ps [] h (fun p hp => by cases hp)]
  rfl

/-! ## (D) `fillVars` -/

theorem dget_foldl_declare (vs : List Str) (d : Dict Props) (v : Str) :
    dget (vs.foldl declare d) v =
      (match dget d v with
       | some ps => some ps
       | none => if v ∈ vs then some [] else none) := by
  induction vs generalizing d with
  | nil => cases hd : dget d v <;> simp [hd]
  | cons k vs ih =>
    rw [List.foldl_cons, ih, dget_declare]
    by_cases hk : v = k
    · subst hk
      cases hd : dget d v with
      | none => simp; rfl
      | some ps => simp
    · cases hd : dget d v with
      | none => simp [hk]
      | some ps => simp [hk]

theorem dget_fillVars (vars : Dict Props) (top index : Option Str) (rels : List EP)
    (hcons icons : List Cons) (v : Str) :
    dget (fillVars vars top index rels hcons icons) v =
      (match dget vars v with
       | some ps => some ps
       | none => if v ∈ fillOrder top index rels hcons icons then some [] else none) := by
  unfold fillVars
  exact dget_foldl_declare _ _ _

/-! ## (C) the encoder-side walk: first mention -/

theorem dget_ddel_other {β} (d : Dict β) (k k' : Str) (h : k' ≠ k) :
    dget (ddel d k) k' = dget d k' := by
  induction d with
  | nil => rfl
  | cons a r ih =>
    obtain ⟨k2, v2⟩ := a
    by_cases h2 : k2 = k
    · subst h2; simp [ddel, dget, Ne.symm h]
    · by_cases h3 : k2 = k'
      · subst h3; simp [ddel, dget, h2]
      · simp [ddel, dget, h2, h3, ih]

theorem dget_eq_none_of_not_mem {β} (d : Dict β) (k : Str) (h : k ∉ d.map (·.1)) :
    dget d k = none := by
  induction d with
  | nil => rfl
  | cons a r ih =>
    obtain ⟨k2, v2⟩ := a
    rw [List.map_cons, List.mem_cons, not_or] at h
    simp [dget, Ne.symm h.1, ih h.2]

theorem dget_ddel_same {β} (d : Dict β) (k : Str) (hn : (d.map (·.1)).Nodup) :
    dget (ddel d k) k = none := by
  induction d with
  | nil => rfl
  | cons a r ih =>
    obtain ⟨k2, v2⟩ := a
    rw [List.map_cons, List.nodup_cons] at hn
    by_cases h2 : k2 = k
    · subst h2; simp only [ddel, if_true]; exact dget_eq_none_of_not_mem _ _ hn.1
    · simp [ddel, dget, h2, ih hn.2]

theorem ddel_sublist {β} (d : Dict β) (k : Str) : (ddel d k).Sublist d := by
  induction d with
  | nil => exact List.Sublist.refl _
  | cons a r ih =>
    obtain ⟨k2, v2⟩ := a
    by_cases h2 : k2 = k
    · simp [ddel, h2]
    · simp [ddel, h2, ih]

theorem nodup_ddel {β} (d : Dict β) (k : Str) (hn : (d.map (·.1)).Nodup) :
    ((ddel d k).map (·.1)).Nodup :=
  List.Nodup.sublist ((ddel_sublist d k).map _) hn

theorem sortProps_nil : sortProps [] = [] := rfl

theorem mentVar_fst (vp : Dict Props) (v : Str) :
    (mentVar vp v).1 = (v, match dget vp v with | some ps => sortProps ps | none => []) := by
  unfold mentVar
  cases hd : dget vp v with
  | none => rfl
  | some ps =>
    cases ps with
    | nil => rfl
    | cons p ps => rfl

theorem mentVar_snd_cases (vp : Dict Props) (w : Str) :
    (mentVar vp w).2 = vp ∨ (mentVar vp w).2 = ddel vp w := by
  unfold mentVar
  cases hd : dget vp w with
  | none => exact Or.inl rfl
  | some ps =>
    cases ps with
    | nil => exact Or.inl rfl
    | cons p ps => exact Or.inr rfl

theorem nodup_mentVar (vp : Dict Props) (w : Str) (hn : (vp.map (·.1)).Nodup) :
    ((mentVar vp w).2.map (·.1)).Nodup := by
  cases mentVar_snd_cases vp w with
  | inl h => rw [h]; exact hn
  | inr h => rw [h]; exact nodup_ddel _ _ hn

theorem dget_mentVar_other (vp : Dict Props) (w v : Str) (h : w ≠ v) :
    dget (mentVar vp w).2 v = dget vp v := by
  cases mentVar_snd_cases vp w with
  | inl h' => rw [h']
  | inr h' => rw [h', dget_ddel_other _ _ _ (Ne.symm h)]

theorem dget_mentVar_same (vp : Dict Props) (v : Str) (hn : (vp.map (·.1)).Nodup) :
    dget (mentVar vp v).2 v =
      (match dget vp v with
       | some ps => if ps ≠ [] then none else some ps
       | none => none) := by
  unfold mentVar
  cases hd : dget vp v with
  | none => simp [hd]
  | some ps =>
    cases ps with
    | nil => simp [hd]
    | cons p ps => simp [dget_ddel_same _ _ hn]

theorem dget_mentVar (vp : Dict Props) (w v : Str) (hn : (vp.map (·.1)).Nodup) :
    dget (mentVar vp w).2 v =
      (match dget vp v with
       | some ps => if w = v ∧ ps ≠ [] then none else some ps
       | none => none) := by
  by_cases h : w = v
  · subst h
    rw [dget_mentVar_same _ _ hn]
    cases dget vp w <;> simp
  · rw [dget_mentVar_other _ _ _ h]
    cases dget vp v <;> simp [h]

theorem mentVars_cons (vp : Dict Props) (v : Str) (vs : List Str) :
    mentVars vp (v :: vs) =
      ((mentVar vp v).1 :: (mentVars (mentVar vp v).2 vs).1, (mentVars (mentVar vp v).2 vs).2) := rfl

theorem nodup_mentVars (vp : Dict Props) (vs : List Str) (hn : (vp.map (·.1)).Nodup) :
    ((mentVars vp vs).2.map (·.1)).Nodup := by
  induction vs generalizing vp with
  | nil => exact hn
  | cons w vs ih =>
    rw [mentVars_cons]
    exact ih _ (nodup_mentVar vp w hn)

theorem mentVars_append (vp : Dict Props) (a b : List Str) :
    mentVars vp (a ++ b) =
      (let r := mentVars vp a; let s := mentVars r.2 b; (r.1 ++ s.1, s.2)) := by
  induction a generalizing vp with
  | nil => rfl
  | cons w a ih =>
    rw [List.cons_append, mentVars_cons, ih, mentVars_cons]
    rfl

/-- the after-state: a variable is removed exactly when it was mentioned with a non-empty block. -/
theorem dget_mentVars_snd (vp : Dict Props) (vs : List Str) (v : Str) (hn : (vp.map (·.1)).Nodup) :
    dget (mentVars vp vs).2 v =
      (match dget vp v with
       | some ps => if v ∈ vs ∧ ps ≠ [] then none else some ps
       | none => none) := by
  induction vs generalizing vp with
  | nil => cases hd : dget vp v <;> simp [mentVars, hd]
  | cons w vs ih =>
    rw [mentVars_cons]
    simp only []
    rw [ih _ (nodup_mentVar vp w hn), dget_mentVar _ _ _ hn]
    cases hd : dget vp v with
    | none => rfl
    | some ps =>
      by_cases hw : w = v
      · subst hw
        by_cases hp : ps = []
        · subst hp; simp
        · simp [hp]
      · have : ¬ v = w := fun e => hw e.symm
        simp [hw, this]

/-- all mentions of `v` together carry exactly its sorted property list, once. -/
theorem blocksOf_mentVars (vp : Dict Props) (vs : List Str) (v : Str) (hn : (vp.map (·.1)).Nodup) :
    blocksOf v (mentVars vp vs).1 =
      if v ∈ vs then (match dget vp v with | some ps => sortProps ps | none => []) else [] := by
  induction vs generalizing vp with
  | nil => simp [mentVars, blocksOf]
  | cons w vs ih =>
    rw [mentVars_cons]
    simp only []
    rw [blocksOf_cons, ih _ (nodup_mentVar vp w hn), mentVar_fst]
    simp only []
    by_cases hw : w = v
    · subst hw
      rw [dget_mentVar_same _ _ hn]
      cases hd : dget vp w with
      | none => simp
      | some ps =>
        cases ps with
        | nil => simp [sortProps_nil]
        | cons p ps => simp
    · have : ¬ v = w := fun e => hw e.symm
      rw [dget_mentVar_other _ _ _ hw]
      simp [hw, this]

/-- the after-state lemma in `if … ∃ …` form (for any decidability instance of the condition). -/
theorem dget_mentVars_snd' (vp : Dict Props) (vs : List Str) (v : Str) (hn : (vp.map (·.1)).Nodup)
    [Decidable (v ∈ vs ∧ (∃ ps, dget vp v = some ps ∧ ps ≠ []))] :
    dget (mentVars vp vs).2 v =
      if v ∈ vs ∧ (∃ ps, dget vp v = some ps ∧ ps ≠ []) then none else dget vp v := by
  rw [dget_mentVars_snd _ _ _ hn]
  by_cases hc : v ∈ vs ∧ (∃ ps, dget vp v = some ps ∧ ps ≠ [])
  · rw [if_pos hc]
    obtain ⟨h1, ps, h2, h3⟩ := hc
    rw [h2]
    simp [h1, h3]
  · rw [if_neg hc]
    cases hd : dget vp v with
    | none => rfl
    | some ps =>
      have : ¬ (v ∈ vs ∧ ps ≠ []) := fun h => hc ⟨h.1, ps, hd, h.2⟩
      simp only [if_neg this]

/-! ## (E) `sortProps` -/

theorem insertBy_perm {α} (le : α → α → Bool) (x : α) (l : List α) :
    (insertBy le x l).Perm (x :: l) := by
  induction l with
  | nil => exact List.Perm.refl _
  | cons y ys ih =>
    unfold insertBy
    by_cases h : le x y = true
    · rw [if_pos h]
    · rw [if_neg h]
      exact ((List.Perm.cons y ih).trans (List.Perm.swap x y ys))

theorem sortBy_perm {α} (le : α → α → Bool) (l : List α) : (sortBy le l).Perm l := by
  induction l with
  | nil => exact List.Perm.refl _
  | cons x xs ih =>
    exact (insertBy_perm le x (sortBy le xs)).trans (List.Perm.cons x ih)

theorem sortProps_perm (ps : Props) : (sortProps ps).Perm ps := sortBy_perm _ ps

/-- adjacent-pairs sortedness. -/
def ChainLe {α} (le : α → α → Bool) : List α → Prop
  | [] => True
  | x :: r => (∀ y ∈ r.head?, le x y = true) ∧ ChainLe le r

theorem head?_insertBy {α} (le : α → α → Bool) (x : α) (l : List α) :
    ∀ h ∈ (insertBy le x l).head?, h = x ∨ h ∈ l.head? := by
  intro h hh
  cases l with
  | nil => simp [insertBy] at hh; exact Or.inl hh.symm
  | cons y ys =>
    unfold insertBy at hh
    by_cases hle : le x y = true
    · rw [if_pos hle] at hh; simp at hh; exact Or.inl hh.symm
    · rw [if_neg hle] at hh; exact Or.inr hh

theorem insertBy_chain {α} (le : α → α → Bool) (htot : ∀ a b, le a b = false → le b a = true)
    (x : α) (l : List α) (h : ChainLe le l) : ChainLe le (insertBy le x l) := by
  induction l with
  | nil => exact ⟨fun y hy => by simp at hy, trivial⟩
  | cons y ys ih =>
    unfold insertBy
    by_cases hle : le x y = true
    · rw [if_pos hle]
      exact ⟨fun z hz => by simp at hz; subst hz; exact hle, h⟩
    · rw [if_neg hle]
      refine ⟨fun z hz => ?_, ih h.2⟩
      cases head?_insertBy le x ys z hz with
      | inl e => subst e; exact htot _ _ (by simpa using hle)
      | inr e => exact h.1 z e

theorem sortBy_chain {α} (le : α → α → Bool) (htot : ∀ a b, le a b = false → le b a = true)
    (l : List α) : ChainLe le (sortBy le l) := by
  induction l with
  | nil => trivial
  | cons x xs ih => exact insertBy_chain le htot x _ ih

theorem sortBy_of_chain {α} (le : α → α → Bool) (l : List α) (h : ChainLe le l) :
    sortBy le l = l := by
  induction l with
  | nil => rfl
  | cons x xs ih =>
    show insertBy le x (sortBy le xs) = x :: xs
    rw [ih h.2]
    cases xs with
    | nil => rfl
    | cons y ys =>
      have : le x y = true := h.1 y (by simp)
      simp [insertBy, this]

theorem strLt_asymm (a b : Str) : strLt a b = true → strLt b a = false := by
  induction a generalizing b with
  | nil => cases b <;> simp [strLt]
  | cons x xs ih =>
    cases b with
    | nil => simp [strLt]
    | cons y ys =>
      unfold strLt
      by_cases h1 : x.toNat < y.toNat
      · have : ¬ y.toNat < x.toNat := by omega
        simp [h1, this]
      · by_cases h2 : y.toNat < x.toNat
        · simp [h1, h2]
        · simp only [h1, h2, if_false]
          exact ih ys

theorem propLe_total (a b : Str) : propLe a b = false → propLe b a = true := by
  unfold propLe strLe
  intro h
  simp only [Bool.or_eq_false_iff, Bool.and_eq_false_iff, decide_eq_false_iff_not] at h
  by_cases hlt : propIndex b < propIndex a
  · simp [hlt]
  · have heq : propIndex a = propIndex b := by omega
    have h2 := h.2
    simp only [heq, beq_self_eq_true] at h2
    have h3 : strLt b a = true := by
      cases h2 with
      | inl h2 => exact absurd h2 (by simp)
      | inr h2 => simpa using h2
    simp [heq, strLt_asymm b a h3]

theorem sortProps_chain (ps : Props) : ChainLe (fun a b : Str × Str => propLe a.1 b.1) (sortProps ps) :=
  sortBy_chain _ (fun a b => propLe_total a.1 b.1) ps

/-- sorting a sorted property list is the identity (no distinctness needed: the sort is stable). -/
theorem sortProps_idem (ps : Props) : sortProps (sortProps ps) = sortProps ps :=
  sortBy_of_chain _ _ (sortProps_chain ps)

theorem sortProps_sortProps (ps : Props) (_h : (ps.map (·.1)).Nodup) :
    sortProps (sortProps ps) = sortProps ps := sortProps_idem ps

end Verif.C01
