/-
C01 — Indexed MRS: the decoder run on the encoder's tokens (`parseIx_toksIx_partial`), and the
companion statement that every argument of an EP is written (`epViewI_args`).
-/
import Verif.Common.CodecLemmas
import Verif.C01.IxSpec
import Verif.C01.SimpleLemmas
import Verif.C01.VarsLemmas

namespace Verif.C01.IxL
open Verif.Codec Verif.Tables Verif.C01 Verif.C01.Ix

/-! ### tokens -/

@[simp] theorem iS_kind (s : Str) : (iS s).kind = KI.symbol := rfl
@[simp] theorem iS_text (s : Str) : (iS s).text = s := rfl
@[simp] theorem iDQ_kind (s : Str) : (iDQ s).kind = KI.dq := rfl
@[simp] theorem iDQ_text (s : Str) : (iDQ s).text = escapeDQ s := rfl
@[simp] theorem iLA_kind : iLA.kind = KI.langle := rfl
@[simp] theorem iRA_kind : iRA.kind = KI.rangle := rfl
@[simp] theorem iLB_kind : iLB.kind = KI.lbrace := rfl
@[simp] theorem iRB_kind : iRB.kind = KI.rbrace := rfl
@[simp] theorem iLP_kind : iLP.kind = KI.lparen := rfl
@[simp] theorem iRP_kind : iRP.kind = KI.rparen := rfl
@[simp] theorem iCM_kind : iCM.kind = KI.comma := rfl
@[simp] theorem iCL_kind : iCL.kind = KI.colon := rfl
@[simp] theorem ti_kind (k : KI) (s : Str) : (ti k s).kind = k := rfl
@[simp] theorem ti_text (k : KI) (s : Str) : (ti k s).text = s := rfl

theorem accI_eq (k : KI) (t : TI) (ts : List TI) (h : t.kind = k) :
    accI k (t :: ts) = .ok (some t.text, ts) := by simp [accI, h]

theorem accI_ne (k : KI) (t : TI) (ts : List TI) (h : t.kind ≠ k) :
    accI k (t :: ts) = .ok (none, t :: ts) := by simp [accI, h]

theorem expI_eq (k : KI) (t : TI) (ts : List TI) (h : t.kind = k) :
    expI k (t :: ts) = .ok (t.text, ts) := by simp [expI, h]

/-! ### sepBy -/

theorem sepBy_cons_ne (sep : TI) (x : List TI) (xs : List (List TI)) (h : xs ≠ []) :
    sepBy sep (x :: xs) = x ++ sep :: sepBy sep xs := by
  cases xs with
  | nil => exact absurd rfl h
  | cons y ys => rfl

theorem sepBy_single (sep : TI) (x : List TI) : sepBy sep [x] = x := rfl

theorem sepBy_length (sep : TI) : ∀ (xs : List (List TI)), (∀ x ∈ xs, x ≠ []) →
    xs.length ≤ (sepBy sep xs).length := by
  intro xs
  induction xs with
  | nil => intro _; simp [sepBy]
  | cons x xs ih =>
    intro h
    have hx : 1 ≤ x.length := by
      have := h x (by simp)
      cases x with
      | nil => exact absurd rfl this
      | cons _ _ => simp
    cases xs with
    | nil => simpa [sepBy] using hx
    | cons y ys =>
      have := ih (fun z hz => h z (by simp [hz]))
      rw [sepBy_cons_ne sep x (y :: ys) (by simp)]
      simp only [List.length_append, List.length_cons] at this ⊢
      omega

theorem sepBy_head (sep : TI) (a : TI) (x : List TI) (xs : List (List TI)) :
    ∃ X, sepBy sep ((a :: x) :: xs) = a :: X := by
  cases xs with
  | nil => exact ⟨x, rfl⟩
  | cons y ys => exact ⟨x ++ sep :: sepBy sep (y :: ys), rfl⟩

/-! ### (a) a bare variable -/

theorem parseVarI_bare (v : Str) (t : TI) (r : List TI) (ht : t.kind ≠ KI.colon) :
    parseVarI (iS v :: t :: r) = .ok (v, none, t :: r) := by
  simp [parseVarI, expI, accI, ht, bind, Except.bind, pure, Except.pure]

/-! ### (b) the argument list -/

def cpToks : Option Str → List (List TI)
  | some c => [[iDQ c]]
  | none => []

def varToks (vs : List Str) : List (List TI) := vs.map (fun v => [iS v])

theorem argLoop_var_last (f : Nat) (v : Str) (t : TI) (r : List TI)
    (h1 : t.kind ≠ KI.comma) (h2 : t.kind ≠ KI.colon) :
    parseArgLoop (f + 1) (iS v :: t :: r) = .ok ([v], none, [], t :: r) := by
  simp [parseArgLoop, parseVarI_bare v t r h2, accI, h1, bind, Except.bind, pure, Except.pure]

theorem argLoop_var_more (f : Nat) (v : Str) (ts ts' : List TI) (as : List Str) (c2 : Option Str)
    (h : parseArgLoop f ts = .ok (as, c2, [], ts')) :
    parseArgLoop (f + 1) (iS v :: iCM :: ts) = .ok (v :: as, c2, [], ts') := by
  simp [parseArgLoop, parseVarI_bare v iCM ts (by simp), accI, h, bind, Except.bind, pure, Except.pure]
  cases c2 <;> rfl

theorem argLoop_items : ∀ (vs : List Str) (cp : Option Str) (fuel : Nat) (t : TI) (r : List TI),
    varToks vs ++ cpToks cp ≠ [] → (varToks vs ++ cpToks cp).length ≤ fuel →
    t.kind ≠ KI.comma → t.kind ≠ KI.colon →
    parseArgLoop fuel (sepBy iCM (varToks vs ++ cpToks cp) ++ t :: r) = .ok (vs, cp, [], t :: r) := by
  intro vs
  induction vs with
  | nil =>
    intro cp fuel t r hne hf h1 h2
    cases cp with
    | none => simp [varToks, cpToks] at hne
    | some c =>
      obtain ⟨f, rfl⟩ : ∃ f, fuel = f + 1 := ⟨fuel - 1, by simp [varToks, cpToks] at hf; omega⟩
      simp [varToks, cpToks, sepBy, parseArgLoop, accI, h1, unescapeDQ_escapeDQ, bind, Except.bind,
        pure, Except.pure]
  | cons v vs ih =>
    intro cp fuel t r _ hf h1 h2
    obtain ⟨f, rfl⟩ : ∃ f, fuel = f + 1 := ⟨fuel - 1, by simp [varToks] at hf; omega⟩
    have hf' : (varToks vs ++ cpToks cp).length ≤ f := by
      simp [varToks] at hf ⊢; omega
    have hcons : varToks (v :: vs) ++ cpToks cp = [iS v] :: (varToks vs ++ cpToks cp) := by
      simp [varToks]
    rw [hcons]
    by_cases hrest : varToks vs ++ cpToks cp = []
    · have hvs : vs = [] := by
        cases vs with
        | nil => rfl
        | cons _ _ => simp [varToks] at hrest
      subst hvs
      have hcp : cp = none := by
        cases cp with
        | none => rfl
        | some _ => simp [varToks, cpToks] at hrest
      subst hcp
      rw [hrest, sepBy_single]
      exact argLoop_var_last f v t r h1 h2
    · rw [sepBy_cons_ne _ _ _ hrest]
      have := ih cp f t r hrest hf' h1 h2
      have := argLoop_var_more f v _ _ _ _ this
      simpa using this

theorem items_nonempty (vs : List Str) (cp : Option Str) : ∀ x ∈ varToks vs ++ cpToks cp, x ≠ [] := by
  intro x hx
  simp only [List.mem_append, varToks, List.mem_map] at hx
  rcases hx with ⟨v, _, rfl⟩ | hx
  · simp
  · cases cp with
    | none => simp [cpToks] at hx
    | some c => simp [cpToks] at hx; subst hx; simp

theorem items_head (vs : List Str) (cp : Option Str) (h : varToks vs ++ cpToks cp ≠ []) :
    ∃ a X, sepBy iCM (varToks vs ++ cpToks cp) = a :: X ∧ a.kind ≠ KI.rparen := by
  cases vs with
  | nil =>
    cases cp with
    | none => simp [varToks, cpToks] at h
    | some c => exact ⟨iDQ c, [], rfl, by simp⟩
  | cons v vs =>
    obtain ⟨X, hX⟩ := sepBy_head iCM (iS v) [] (varToks vs ++ cpToks cp)
    exact ⟨iS v, X, by simpa [varToks] using hX, by simp⟩

theorem parseArgList_step (t : TI) (r' : List TI) (hk : t.kind ≠ KI.rparen) (as : List Str)
    (c : Option Str) (asg : List Assign) (r : List TI)
    (h : parseArgLoop (t :: r').length (t :: r') = .ok (as, c, asg, iRP :: r)) :
    parseArgList (iLP :: t :: r') = .ok (as, c, asg, r) := by
  simp only [parseArgList, expI, iLP_kind, bind, Except.bind, hk, h, pure, Except.pure, ↓reduceIte,
    iRP_kind]

theorem parseArgList_items (vs : List Str) (cp : Option Str) (r : List TI) :
    parseArgList (iLP :: (sepBy iCM (varToks vs ++ cpToks cp) ++ iRP :: r)) = .ok (vs, cp, [], r) := by
  by_cases hne : varToks vs ++ cpToks cp = []
  · have hvs : vs = [] := by
      cases vs with
      | nil => rfl
      | cons _ _ => simp [varToks] at hne
    subst hvs
    have hcp : cp = none := by
      cases cp with
      | none => rfl
      | some _ => simp [varToks, cpToks] at hne
    subst hcp
    simp [varToks, cpToks, sepBy, parseArgList, expI, bind, Except.bind, pure, Except.pure]
  · obtain ⟨a, X, hX, hk⟩ := items_head vs cp hne
    have hlen := sepBy_length iCM _ (items_nonempty vs cp)
    have hl2 : (sepBy iCM (varToks vs ++ cpToks cp) ++ iRP :: r).length
        = (sepBy iCM (varToks vs ++ cpToks cp)).length + (iRP :: r).length := List.length_append
    have hloop := argLoop_items vs cp (sepBy iCM (varToks vs ++ cpToks cp) ++ iRP :: r).length iRP r hne
      (by omega) (by simp) (by simp)
    rw [hX] at hloop
    rw [hX]
    simp only [List.cons_append] at hloop ⊢
    exact parseArgList_step a _ hk _ _ _ _ hloop

/-! ### (c) one relation -/

theorem encVarI_nil (v : Str) : encVarI [] v = ([iS v], []) := rfl

theorem writtenArgs_nil (args : Dict Str) : writtenArgs [] args = [] := rfl

theorem writtenArgs_cons_carg (d : SynRole) (ds : Synopsis) (args : Dict Str) (h : d.name = CARG) :
    writtenArgs (d :: ds) args = writtenArgs ds args := by
  simp [writtenArgs, noCarg, h]

theorem writtenArgs_cons_none (d : SynRole) (ds : Synopsis) (args : Dict Str) (h : d.name ≠ CARG)
    (h2 : dget args d.name = none) : writtenArgs (d :: ds) args = writtenArgs ds args := by
  simp [writtenArgs, noCarg, h, h2]

theorem writtenArgs_cons_some (d : SynRole) (ds : Synopsis) (args : Dict Str) (v : Str) (h : d.name ≠ CARG)
    (h2 : dget args d.name = some v) : writtenArgs (d :: ds) args = (d.name, v) :: writtenArgs ds args := by
  simp [writtenArgs, noCarg, h, h2]

theorem encArgsI_nil (args : Dict Str) : ∀ syn : Synopsis,
    encArgsI [] args syn = (varToks ((writtenArgs syn args).map (·.2)), []) := by
  intro syn
  induction syn with
  | nil => rfl
  | cons d ds ih =>
    by_cases h : d.name = CARG
    · simp only [encArgsI, h, if_true]
      rw [ih, writtenArgs_cons_carg d ds args h]
    · cases h2 : dget args d.name with
      | none =>
        simp only [encArgsI, h, if_false, h2]
        rw [ih, writtenArgs_cons_none d ds args h h2]
      | some v =>
        simp only [encArgsI, h, if_false, h2, encVarI_nil]
        rw [ih, writtenArgs_cons_some d ds args v h h2]
        simp [varToks]

def lnkToksI (o : Opts) (e : EP) : List TI :=
  if o.lnk then (if e.lnk.str.isEmpty then [] else [ti .lnk e.lnk.str]) else []

def relToksI (o : Opts) (e : EP) (syn : Synopsis) : List TI :=
  iS e.label :: iCL :: iS e.pred :: (lnkToksI o e ++ iLP ::
    (sepBy iCM (varToks ((writtenArgs syn e.args).map (·.2)) ++ cpToks (dget e.args CARG)) ++ [iRP]))

theorem encRelI_nil (semi : SemI) (o : Opts) (e : EP) (syn : Synopsis)
    (h : findEnc semi e.pred (epRoles e) = .ok syn) :
    encRelI semi o [] e = .ok (relToksI o e syn, []) := by
  unfold epRoles at h
  unfold encRelI
  simp only [h, encArgsI_nil, bind, Except.bind, pure, Except.pure, relToksI, lnkToksI]
  cases dget e.args CARG <;> simp [cpToks]

theorem zipArgs_take : ∀ (names vals : List Str), zipArgs names vals = zipArgs (names.take vals.length) vals := by
  intro names
  induction names with
  | nil => intro vals; simp [zipArgs]
  | cons n ns ih =>
    intro vals
    cases vals with
    | nil => simp [zipArgs]
    | cons v vs => simp only [zipArgs, List.length_cons, List.take_succ_cons]; rw [← ih]

theorem zipArgs_unzip : ∀ (w : List (Str × Str)), zipArgs (w.map (·.1)) (w.map (·.2)) = w := by
  intro w
  induction w with
  | nil => rfl
  | cons p w ih => simp [zipArgs, ih]

theorem writtenArgs_mem (syn : Synopsis) (args : Dict Str) (p : Str × Str) (h : p ∈ writtenArgs syn args) :
    ∃ d ∈ syn, d.name ≠ CARG ∧ d.name = p.1 ∧ dget args p.1 = some p.2 := by
  simp only [writtenArgs, noCarg, List.mem_filterMap, List.mem_filter] at h
  obtain ⟨d, ⟨hd, hn⟩, hp⟩ := h
  cases hg : dget args d.name with
  | none => rw [hg] at hp; simp at hp
  | some v =>
    rw [hg] at hp
    simp at hp
    subst hp
    exact ⟨d, hd, by simpa using hn, rfl, hg⟩

theorem carg_not_written (syn : Synopsis) (args : Dict Str) : CARG ∉ (writtenArgs syn args).map (·.1) := by
  intro h
  simp only [List.mem_map] at h
  obtain ⟨p, hp, he⟩ := h
  obtain ⟨d, _, hn, hd, _⟩ := writtenArgs_mem syn args p hp
  exact hn (hd.trans he)

def cargSet (args : Dict Str) : Option Str → Dict Str
  | some c => if c.isEmpty then args else dset args CARG c
  | none => args

theorem parseRelI_core (semi : SemI) (label pred : Str) (lk : List TI) (l : Lnk) (vs : List Str)
    (cp : Option Str) (synD : Synopsis) (r : List TI)
    (hl : (lk = [] ∧ l = .unspec) ∨ (∃ s, lk = [ti .lnk s] ∧ Lnk.parse s = .ok l))
    (hv : vs.all validVar = true)
    (hd : findDec semi pred (vs.map varSort) cp.isSome = .ok synD) :
    parseRelI semi (iS label :: iCL :: iS pred :: (lk ++ iLP ::
        (sepBy iCM (varToks vs ++ cpToks cp) ++ iRP :: r)))
      = .ok ({ pred := pred, label := label,
               args := cargSet (mkArgs (zipArgs ((noCarg synD).map (·.name)) vs)) cp,
               lnk := l, surface := none, base := none }, [], r) := by
  rcases hl with ⟨rfl, rfl⟩ | ⟨s, rfl, hs⟩
  · cases cp <;> simp only [Option.isSome_none, Option.isSome_some] at hd <;>
      simp [parseRelI, expI, accI, parseArgList_items, hv, hd, cargSet, bind, Except.bind, pure, Except.pure]
  · cases cp <;> simp only [Option.isSome_none, Option.isSome_some] at hd <;>
      simp [parseRelI, expI, accI, parseArgList_items, hv, hd, hs, cargSet, bind, Except.bind, pure,
        Except.pure]

theorem parseRelI_encRelI (semi : SemI) (o : Opts) (e : EP) (h : CoverEP semi e) :
    ∃ tk, encRelI semi o [] e = .ok (tk, []) ∧ (∃ a X, tk = a :: X ∧ a.kind = KI.symbol) ∧
      ∀ r, parseRelI semi (tk ++ r) = .ok (epViewI semi o e, [], r) := by
  obtain ⟨synE, synD, hE, hval, hnd, hD, htake⟩ := h.look
  refine ⟨relToksI o e synE, encRelI_nil semi o e synE hE, ⟨_, _, rfl, rfl⟩, ?_⟩
  intro r
  have hl : (lnkToksI o e = [] ∧ (if o.lnk then e.lnk else Lnk.unspec) = .unspec) ∨
      (∃ s, lnkToksI o e = [ti .lnk s] ∧ Lnk.parse s = .ok (if o.lnk then e.lnk else Lnk.unspec)) := by
    unfold lnkToksI
    by_cases ho : o.lnk = true
    · by_cases hs : e.lnk.str.isEmpty = true
      · left
        have : e.lnk.str = [] := by simpa using hs
        refine ⟨by simp [ho, hs], ?_⟩
        rw [if_pos ho]
        exact SimpleL.lnk_str_nil e.lnk this
      · right
        exact ⟨e.lnk.str, by simp [ho, hs], by simp [ho, lnk_roundtrip]⟩
    · left; simp [ho]
  have hcore := parseRelI_core semi e.label e.pred (lnkToksI o e) (if o.lnk then e.lnk else .unspec)
    ((writtenArgs synE e.args).map (·.2)) (dget e.args CARG) synD r hl
    (by simpa using hval) (by rw [List.map_map]; exact hD)
  have e1 : relToksI o e synE ++ r = iS e.label :: iCL :: iS e.pred :: (lnkToksI o e ++ iLP ::
      (sepBy iCM (varToks ((writtenArgs synE e.args).map (·.2)) ++ cpToks (dget e.args CARG)) ++ iRP :: r)) := by
    simp [relToksI]
  rw [e1, hcore]
  have hargs : mkArgs (zipArgs ((noCarg synD).map (·.name)) ((writtenArgs synE e.args).map (·.2)))
      = writtenArgs synE e.args := by
    rw [zipArgs_take, List.length_map, htake, zipArgs_unzip]
    exact SimpleL.mkArgs_nodup _ hnd
  rw [hargs]
  simp only [epViewI, hE]
  cases hc : dget e.args CARG with
  | none => simp [cargSet]
  | some c =>
    have hne : c ≠ [] := h.cargNonempty c hc
    have : c.isEmpty = false := by
      cases c with
      | nil => exact absurd rfl hne
      | cons _ _ => rfl
    simp [cargSet, this, SimpleL.dset_new _ CARG c (carg_not_written synE e.args)]

/-! ### (d) the relation list -/

theorem relLoop (semi : SemI) (o : Opts) : ∀ (rels : List EP) (tks : List (List TI)) (vp' : Dict (List Str)),
    (∀ e ∈ rels, CoverEP semi e) → encRelsI semi o [] rels = .ok (tks, vp') →
    (tks.length = rels.length ∧ (∀ x ∈ tks, ∃ a X, x = a :: X ∧ a.kind = KI.symbol)) ∧
    (rels ≠ [] → ∀ (fuel : Nat) (t : TI) (r : List TI), rels.length ≤ fuel → t.kind ≠ KI.comma →
      parseRelLoop semi fuel (sepBy iCM tks ++ t :: r) = .ok (rels.map (epViewI semi o), [], t :: r)) := by
  intro rels
  induction rels with
  | nil =>
    intro tks vp' _ h
    simp [encRelsI] at h
    obtain ⟨rfl, _⟩ := h
    simp
  | cons e rest ih =>
    intro tks vp' hc h
    obtain ⟨tk, hEnc, hhead, hparse⟩ := parseRelI_encRelI semi o e (hc e (by simp))
    simp only [encRelsI, hEnc, bind, Except.bind] at h
    cases hrest : encRelsI semi o [] rest with
    | error err => rw [hrest] at h; simp at h
    | ok p =>
      obtain ⟨tks', vp''⟩ := p
      rw [hrest] at h
      simp [pure, Except.pure] at h
      obtain ⟨rfl, _⟩ := h
      obtain ⟨⟨hlen, hheads⟩, hloop⟩ := ih tks' vp'' (fun x hx => hc x (by simp [hx])) hrest
      refine ⟨⟨by simp [hlen], ?_⟩, ?_⟩
      · intro x hx
        simp only [List.mem_cons] at hx
        rcases hx with rfl | hx
        · exact hhead
        · exact hheads x hx
      · intro _ fuel t r hf ht
        obtain ⟨f, rfl⟩ : ∃ f, fuel = f + 1 := ⟨fuel - 1, by simp at hf; omega⟩
        by_cases hr : rest = []
        · subst hr
          have : tks' = [] := by simpa using hlen
          subst this
          rw [sepBy_single]
          simp [parseRelLoop, hparse, accI, ht, bind, Except.bind, pure, Except.pure]
        · have hne : tks' ≠ [] := by
            intro h0; subst h0
            cases rest with
            | nil => exact hr rfl
            | cons _ _ => simp at hlen
          rw [sepBy_cons_ne _ _ _ hne]
          have := hloop hr f t r (by simp at hf; omega) ht
          simp [parseRelLoop, hparse, accI, this, bind, Except.bind, pure, Except.pure]

/-! ### (e) constraints -/

theorem consLoop : ∀ (cs : List Cons) (fuel : Nat) (t : TI) (r : List TI), cs ≠ [] → cs.length ≤ fuel →
    t.kind ≠ KI.comma →
    parseConsLoop fuel (sepBy iCM (cs.map (fun c => [iS c.lhs, iS c.rel, iS c.rhs])) ++ t :: r)
      = .ok (cs, t :: r) := by
  intro cs
  induction cs with
  | nil => intro _ _ _ h; exact absurd rfl h
  | cons c cs ih =>
    intro fuel t r _ hf ht
    obtain ⟨f, rfl⟩ : ∃ f, fuel = f + 1 := ⟨fuel - 1, by simp at hf; omega⟩
    by_cases hr : cs = []
    · subst hr
      simp [sepBy, parseConsLoop, expI, accI, ht, bind, Except.bind, pure, Except.pure]
    · have hne : cs.map (fun c => [iS c.lhs, iS c.rel, iS c.rhs]) ≠ [] := by simpa using hr
      rw [List.map_cons, sepBy_cons_ne _ _ _ hne]
      have := ih f t r hr (by simp at hf; omega) ht
      simp [parseConsLoop, expI, accI, this, bind, Except.bind, pure, Except.pure]

theorem parseConsI_enc (cs : List Cons) (r : List TI) :
    parseConsI (iLB :: (encConsI cs ++ iRB :: r)) = .ok (cs, r) := by
  cases cs with
  | nil => simp [encConsI, sepBy, parseConsI, expI, bind, Except.bind, pure, Except.pure]
  | cons c cs =>
    have hloop : ∀ fuel, (c :: cs).length ≤ fuel → parseConsLoop fuel (encConsI (c :: cs) ++ iRB :: r)
        = .ok (c :: cs, iRB :: r) := fun fuel hf => consLoop (c :: cs) fuel iRB r (by simp) hf (by simp)
    have hlen := sepBy_length iCM ((c :: cs).map (fun c => [iS c.lhs, iS c.rel, iS c.rhs]))
      (by intro x hx; simp at hx; rcases hx with rfl | ⟨_, _, rfl⟩ <;> simp)
    obtain ⟨X, hX⟩ := sepBy_head iCM (iS c.lhs) [iS c.rel, iS c.rhs]
      (cs.map (fun c => [iS c.lhs, iS c.rel, iS c.rhs]))
    have hX' : encConsI (c :: cs) = iS c.lhs :: X := by simpa [encConsI] using hX
    have hl2 : (encConsI (c :: cs) ++ iRB :: r).length
        = (encConsI (c :: cs)).length + (iRB :: r).length := List.length_append
    have h1 := hloop (encConsI (c :: cs) ++ iRB :: r).length (by
      rw [hl2]; unfold encConsI; simp only [List.length_map] at hlen; omega)
    rw [hX'] at h1 ⊢
    simp only [List.cons_append] at h1 ⊢
    simp only [parseConsI, expI, iLB_kind, iS_kind, bind, Except.bind, h1, pure, Except.pure, ↓reduceIte,
      iRB_kind, reduceCtorEq]

/-! ### (f) the whole structure -/

theorem prepProps_empty (semi : SemI) : ∀ (vars : Dict Props), (∀ vp ∈ vars, vp.2 = []) →
    prepProps semi vars = .ok [] := by
  intro vars
  induction vars with
  | nil => intro _; rfl
  | cons p rest ih =>
    intro h
    obtain ⟨v, ps⟩ := p
    have hp : ps = [] := h (v, ps) (by simp)
    subst hp
    simp [prepProps, ih (fun x hx => h x (by simp [hx])), bind, Except.bind, pure, Except.pure]

def relsPart (semi : SemI) (ts : List TI) : Except EI (List EP × List Assign × List TI) :=
  match ts with
  | [] => .error .eof
  | t :: r =>
    if t.kind = KI.rbrace then pure ([], [], t :: r)
    else parseRelLoop semi (t :: r).length (t :: r)

theorem parseIx_eq (semi : SemI) (ts : List TI) : parseIx semi ts = (do
  let (_, ts) ← expI .langle ts
  let (top, ts) ← expI .symbol ts
  let (_, ts) ← expI .comma ts
  let (index, ixp, ts) ← parseVarI ts
  let (_, ts) ← expI .comma ts
  let (_, ts) ← expI .lbrace ts
  let (rels, asg, ts) ← relsPart semi ts
  let (_, ts) ← expI .rbrace ts
  let (_, ts) ← expI .comma ts
  let (hcons, ts) ← parseConsI ts
  let (cm, ts) ← accI .comma ts
  let (icons, ts) ← (match cm with
    | none => pure ([], ts)
    | some _ => parseConsI ts : Except EI (List Cons × List TI))
  let (_, ts) ← expI .rangle ts
  let raw := assignAll ((match ixp with | some p => [(index, p)] | none => []) ++ asg)
  let vars ← matchAll semi raw
  pure (mkMRS (some top) (some index) rels hcons icons vars .unspec none none, ts)) := rfl

theorem relsPart_enc (semi : SemI) (o : Opts) (rels : List EP) (tks : List (List TI)) (vp' : Dict (List Str))
    (hc : ∀ e ∈ rels, CoverEP semi e) (h : encRelsI semi o [] rels = .ok (tks, vp')) (r : List TI) :
    relsPart semi (sepBy iCM tks ++ iRB :: r) = .ok (rels.map (epViewI semi o), [], iRB :: r) := by
  obtain ⟨⟨hlen, hheads⟩, hloop⟩ := relLoop semi o rels tks vp' hc h
  cases rels with
  | nil =>
    have : tks = [] := by simpa using hlen
    subst this
    simp [sepBy, relsPart, pure, Except.pure]
  | cons e rest =>
    cases tks with
    | nil => simp at hlen
    | cons tk tks' =>
      obtain ⟨a, X, rfl, ha⟩ := hheads tk (by simp)
      obtain ⟨Y, hY⟩ := sepBy_head iCM a X tks'
      have hsl := sepBy_length iCM ((a :: X) :: tks') (by
        intro x hx
        obtain ⟨b, Z, rfl, _⟩ := hheads x hx
        simp)
      have hl2 : (sepBy iCM ((a :: X) :: tks') ++ iRB :: r).length
          = (sepBy iCM ((a :: X) :: tks')).length + (iRB :: r).length := List.length_append
      have h1 := hloop (by simp) (sepBy iCM ((a :: X) :: tks') ++ iRB :: r).length iRB r
        (by rw [hl2, ← hlen]; omega) (by simp)
      rw [hY] at h1 ⊢
      simp only [List.cons_append] at h1 ⊢
      simp only [relsPart, ha, h1, reduceCtorEq, ↓reduceIte]

/-! ### the arguments of the view -/

theorem firstThat_ok (f : Synopsis → Bool) : ∀ (l : List Synopsis) (s : Synopsis),
    firstThat f l = .ok s → f s = true := by
  intro l
  induction l with
  | nil => intro s h; simp [firstThat] at h
  | cons x xs ih =>
    intro s h
    simp only [firstThat] at h
    split at h
    · rename_i hx; cases h; exact hx
    · exact ih s h

theorem findEnc_fits (semi : SemI) (p : Str) (roles : List Str) (syn : Synopsis)
    (h : findEnc semi p roles = .ok syn) : roles = [] ∨ fitsMap syn roles = true := by
  unfold findEnc at h
  cases hl : lookupPred semi p with
  | error e => rw [hl] at h; simp [bind, Except.bind] at h
  | ok syns =>
    rw [hl] at h
    simp only [bind, Except.bind] at h
    have := firstThat_ok _ syns syn h
    simpa using this

theorem dget_of_mem_nodup {β} : ∀ (d : Dict β) (k : Str) (v : β), (d.map (·.1)).Nodup → (k, v) ∈ d →
    dget d k = some v := by
  intro d
  induction d with
  | nil => intro k v _ h; simp at h
  | cons p d ih =>
    intro k v hn h
    obtain ⟨k', v'⟩ := p
    simp only [List.map_cons, List.nodup_cons] at hn
    simp only [List.mem_cons, Prod.mk.injEq] at h
    rcases h with ⟨rfl, rfl⟩ | h
    · simp [dget]
    · have hne : k' ≠ k := by
        intro e; subst e
        exact hn.1 (List.mem_map.mpr ⟨(k', v), h, rfl⟩)
      simp [dget, hne, ih k v hn.2 h]

theorem mem_writtenArgs (syn : Synopsis) (args : Dict Str) (d : SynRole) (v : Str) (hd : d ∈ syn)
    (hn : d.name ≠ CARG) (hg : dget args d.name = some v) : (d.name, v) ∈ writtenArgs syn args := by
  simp only [writtenArgs, noCarg, List.mem_filterMap, List.mem_filter]
  exact ⟨d, ⟨hd, by simpa using hn⟩, by simp [hg]⟩

/-! ### property lists written -/

/-- every property list the encoder may write has at least one value. -/
def GoodVp (vp : Dict (List Str)) : Prop := ∀ p ∈ vp, p.2 ≠ []

theorem GoodVp_encVarI {vp : Dict (List Str)} (h : GoodVp vp) (v : Str) : GoodVp (encVarI vp v).2 := by
  unfold encVarI
  cases dget vp v with
  | none => exact h
  | some vals => exact fun p hp => h p (SimpleL.mem_ddel _ _ _ hp)

theorem parsePropTail_vals : ∀ (vals : List Str) (t : TI) (r : List TI), t.kind ≠ KI.colon →
    parsePropTail (vals.flatMap (fun x => [iCL, iS x]) ++ t :: r) = .ok (vals, t :: r) := by
  intro vals
  induction vals with
  | nil =>
    intro t r ht
    simp only [List.flatMap_nil, List.nil_append]
    rw [parsePropTail.eq_def]; simp [ht]
  | cons x xs ih =>
    intro t r ht
    simp only [List.flatMap_cons, List.cons_append, List.nil_append]
    rw [parsePropTail.eq_def]; simp [ih t r ht]

def asgVar (vp : Dict (List Str)) (v : Str) : List Assign :=
  match dget vp v with
  | some vals => [(v, vals)]
  | none => []

theorem parseVarI_encVarI (vp : Dict (List Str)) (v : Str) (t : TI) (r : List TI) (hg : GoodVp vp)
    (ht : t.kind ≠ KI.colon) :
    parseVarI ((encVarI vp v).1 ++ t :: r) = .ok (v, dget vp v, t :: r) := by
  unfold encVarI
  cases hd : dget vp v with
  | none => exact parseVarI_bare v t r ht
  | some vals =>
    have hne : vals ≠ [] := hg (v, vals) (SimpleL.dget_mem _ _ _ hd)
    cases vals with
    | nil => exact absurd rfl hne
    | cons x xs =>
      simp [parseVarI, parsePropList, expI, accI, parsePropTail_vals xs t r ht, bind, Except.bind, pure,
        Except.pure]

theorem encVarI_head (vp : Dict (List Str)) (v : Str) : ∃ X, (encVarI vp v).1 = iS v :: X := by
  unfold encVarI
  cases dget vp v with
  | none => exact ⟨[], rfl⟩
  | some vals => exact ⟨_, rfl⟩

theorem argLoop_gvar_last (f : Nat) (vp : Dict (List Str)) (v : Str) (t : TI) (r : List TI) (hg : GoodVp vp)
    (h1 : t.kind ≠ KI.comma) (h2 : t.kind ≠ KI.colon) :
    parseArgLoop (f + 1) ((encVarI vp v).1 ++ t :: r) = .ok ([v], none, asgVar vp v, t :: r) := by
  obtain ⟨X, hX⟩ := encVarI_head vp v
  have hp := parseVarI_encVarI vp v t r hg h2
  rw [hX] at hp ⊢
  simp only [List.cons_append] at hp ⊢
  simp [parseArgLoop, hp, accI, h1, asgVar, bind, Except.bind, pure, Except.pure]
  cases dget vp v <;> rfl

theorem argLoop_gvar_more (f : Nat) (vp : Dict (List Str)) (v : Str) (ts ts' : List TI) (as : List Str)
    (c2 : Option Str) (asg2 : List Assign) (hg : GoodVp vp)
    (h : parseArgLoop f ts = .ok (as, c2, asg2, ts')) :
    parseArgLoop (f + 1) ((encVarI vp v).1 ++ iCM :: ts) = .ok (v :: as, c2, asgVar vp v ++ asg2, ts') := by
  obtain ⟨X, hX⟩ := encVarI_head vp v
  have hp := parseVarI_encVarI vp v iCM ts hg (by simp)
  rw [hX] at hp ⊢
  simp only [List.cons_append] at hp ⊢
  simp [parseArgLoop, hp, accI, h, asgVar, bind, Except.bind, pure, Except.pure]
  cases c2 <;> cases dget vp v <;> simp

def encVarsI : Dict (List Str) → List Str → List (List TI) × Dict (List Str)
  | vp, [] => ([], vp)
  | vp, v :: vs => ((encVarI vp v).1 :: (encVarsI (encVarI vp v).2 vs).1, (encVarsI (encVarI vp v).2 vs).2)

def asgVars : Dict (List Str) → List Str → List Assign
  | _, [] => []
  | vp, v :: vs => asgVar vp v ++ asgVars (encVarI vp v).2 vs

theorem GoodVp_encVarsI : ∀ (vs : List Str) {vp : Dict (List Str)}, GoodVp vp → GoodVp (encVarsI vp vs).2 := by
  intro vs
  induction vs with
  | nil => intro vp h; exact h
  | cons v vs ih => intro vp h; exact ih (GoodVp_encVarI h v)

theorem argLoop_gitems : ∀ (vs : List Str) (vp : Dict (List Str)) (cp : Option Str) (fuel : Nat) (t : TI)
    (r : List TI), GoodVp vp →
    (encVarsI vp vs).1 ++ cpToks cp ≠ [] → ((encVarsI vp vs).1 ++ cpToks cp).length ≤ fuel →
    t.kind ≠ KI.comma → t.kind ≠ KI.colon →
    parseArgLoop fuel (sepBy iCM ((encVarsI vp vs).1 ++ cpToks cp) ++ t :: r)
      = .ok (vs, cp, asgVars vp vs, t :: r) := by
  intro vs
  induction vs with
  | nil =>
    intro vp cp fuel t r _ hne hf h1 h2
    exact argLoop_items [] cp fuel t r hne hf h1 h2
  | cons v vs ih =>
    intro vp cp fuel t r hg _ hf h1 h2
    obtain ⟨f, rfl⟩ : ∃ f, fuel = f + 1 := ⟨fuel - 1, by simp [encVarsI] at hf; omega⟩
    have hf' : ((encVarsI (encVarI vp v).2 vs).1 ++ cpToks cp).length ≤ f := by
      simp [encVarsI] at hf ⊢; omega
    have hcons : (encVarsI vp (v :: vs)).1 ++ cpToks cp
        = (encVarI vp v).1 :: ((encVarsI (encVarI vp v).2 vs).1 ++ cpToks cp) := by
      simp [encVarsI]
    rw [hcons]
    by_cases hrest : (encVarsI (encVarI vp v).2 vs).1 ++ cpToks cp = []
    · have hvs : vs = [] := by
        cases vs with
        | nil => rfl
        | cons _ _ => simp [encVarsI] at hrest
      subst hvs
      have hcp : cp = none := by
        cases cp with
        | none => rfl
        | some _ => simp [encVarsI, cpToks] at hrest
      subst hcp
      rw [hrest, sepBy_single]
      simpa [asgVars] using argLoop_gvar_last f vp v t r hg h1 h2
    · rw [sepBy_cons_ne _ _ _ hrest]
      have := ih (encVarI vp v).2 cp f t r (GoodVp_encVarI hg v) hrest hf' h1 h2
      have := argLoop_gvar_more f vp v _ _ _ _ _ hg this
      simpa [asgVars] using this

theorem gitems_nonempty : ∀ (vs : List Str) (vp : Dict (List Str)) (cp : Option Str),
    ∀ x ∈ (encVarsI vp vs).1 ++ cpToks cp, x ≠ [] := by
  intro vs
  induction vs with
  | nil => intro vp cp x hx; exact items_nonempty [] cp x hx
  | cons v vs ih =>
    intro vp cp x hx
    simp only [encVarsI, List.cons_append, List.mem_cons] at hx
    rcases hx with rfl | hx
    · obtain ⟨X, hX⟩ := encVarI_head vp v
      rw [hX]; simp
    · exact ih _ cp x hx

theorem gitems_head (vs : List Str) (vp : Dict (List Str)) (cp : Option Str)
    (h : (encVarsI vp vs).1 ++ cpToks cp ≠ []) :
    ∃ a X, sepBy iCM ((encVarsI vp vs).1 ++ cpToks cp) = a :: X ∧ a.kind ≠ KI.rparen := by
  cases vs with
  | nil => exact items_head [] cp h
  | cons v vs =>
    obtain ⟨Y, hY⟩ := encVarI_head vp v
    obtain ⟨X, hX⟩ := sepBy_head iCM (iS v) Y ((encVarsI (encVarI vp v).2 vs).1 ++ cpToks cp)
    exact ⟨iS v, X, by simpa [encVarsI, hY] using hX, by simp⟩

theorem parseArgList_gitems (vs : List Str) (vp : Dict (List Str)) (cp : Option Str) (r : List TI)
    (hg : GoodVp vp) :
    parseArgList (iLP :: (sepBy iCM ((encVarsI vp vs).1 ++ cpToks cp) ++ iRP :: r))
      = .ok (vs, cp, asgVars vp vs, r) := by
  by_cases hne : (encVarsI vp vs).1 ++ cpToks cp = []
  · have hvs : vs = [] := by
      cases vs with
      | nil => rfl
      | cons _ _ => simp [encVarsI] at hne
    subst hvs
    exact parseArgList_items [] cp r
  · obtain ⟨a, X, hX, hk⟩ := gitems_head vs vp cp hne
    have hlen := sepBy_length iCM _ (gitems_nonempty vs vp cp)
    have hl2 : (sepBy iCM ((encVarsI vp vs).1 ++ cpToks cp) ++ iRP :: r).length
        = (sepBy iCM ((encVarsI vp vs).1 ++ cpToks cp)).length + (iRP :: r).length := List.length_append
    have hloop := argLoop_gitems vs vp cp (sepBy iCM ((encVarsI vp vs).1 ++ cpToks cp) ++ iRP :: r).length
      iRP r hg hne (by omega) (by simp) (by simp)
    rw [hX] at hloop
    rw [hX]
    simp only [List.cons_append] at hloop ⊢
    exact parseArgList_step a _ hk _ _ _ _ hloop

theorem encArgsI_gen (args : Dict Str) : ∀ (syn : Synopsis) (vp : Dict (List Str)),
    encArgsI vp args syn = encVarsI vp ((writtenArgs syn args).map (·.2)) := by
  intro syn
  induction syn with
  | nil => intro vp; rfl
  | cons d ds ih =>
    intro vp
    by_cases h : d.name = CARG
    · simp only [encArgsI, h, if_true]
      rw [ih, writtenArgs_cons_carg d ds args h]
    · cases h2 : dget args d.name with
      | none =>
        simp only [encArgsI, h, if_false, h2]
        rw [ih, writtenArgs_cons_none d ds args h h2]
      | some v =>
        simp only [encArgsI, h, if_false, h2]
        rw [ih, writtenArgs_cons_some d ds args v h h2]
        simp [encVarsI]

theorem parseRelI_gcore (semi : SemI) (label pred : Str) (lk : List TI) (l : Lnk) (A : List TI)
    (vs : List Str) (asg : List Assign)
    (cp : Option Str) (synD : Synopsis) (r : List TI)
    (hA : parseArgList (iLP :: (A ++ iRP :: r)) = .ok (vs, cp, asg, r))
    (hl : (lk = [] ∧ l = .unspec) ∨ (∃ s, lk = [ti .lnk s] ∧ Lnk.parse s = .ok l))
    (hv : vs.all validVar = true)
    (hd : findDec semi pred (vs.map varSort) cp.isSome = .ok synD) :
    parseRelI semi (iS label :: iCL :: iS pred :: (lk ++ iLP :: (A ++ iRP :: r)))
      = .ok ({ pred := pred, label := label,
               args := cargSet (mkArgs (zipArgs ((noCarg synD).map (·.name)) vs)) cp,
               lnk := l, surface := none, base := none }, asg, r) := by
  rcases hl with ⟨rfl, rfl⟩ | ⟨s, rfl, hs⟩
  · cases cp <;> simp only [Option.isSome_none, Option.isSome_some] at hd <;>
      simp [parseRelI, expI, accI, hA, hv, hd, cargSet, bind, Except.bind, pure, Except.pure]
  · cases cp <;> simp only [Option.isSome_none, Option.isSome_some] at hd <;>
      simp [parseRelI, expI, accI, hA, hv, hd, hs, cargSet, bind, Except.bind, pure,
        Except.pure]

/-- the variables an EP writes, in synopsis order. -/
def wvars (semi : SemI) (e : EP) : List Str :=
  match findEnc semi e.pred (epRoles e) with
  | .ok syn => (writtenArgs syn e.args).map (·.2)
  | .error _ => []

theorem parseRelI_gencRelI (semi : SemI) (o : Opts) (vp : Dict (List Str)) (e : EP) (h : CoverEP semi e)
    (hg : GoodVp vp) :
    ∃ tk, encRelI semi o vp e = .ok (tk, (encVarsI vp (wvars semi e)).2) ∧
      (∃ a X, tk = a :: X ∧ a.kind = KI.symbol) ∧
      ∀ r, parseRelI semi (tk ++ r) = .ok (epViewI semi o e, asgVars vp (wvars semi e), r) := by
  obtain ⟨synE, synD, hE, hval, hnd, hD, htake⟩ := h.look
  have hw : wvars semi e = (writtenArgs synE e.args).map (·.2) := by simp [wvars, hE]
  rw [hw]
  refine ⟨iS e.label :: iCL :: iS e.pred :: (lnkToksI o e ++ iLP ::
    (sepBy iCM ((encVarsI vp ((writtenArgs synE e.args).map (·.2))).1 ++ cpToks (dget e.args CARG)) ++ [iRP])),
    ?_, ⟨_, _, rfl, rfl⟩, ?_⟩
  · have hE' := hE
    unfold epRoles at hE'
    unfold encRelI
    simp only [hE', encArgsI_gen, bind, Except.bind, pure, Except.pure, lnkToksI]
    cases dget e.args CARG <;> simp [cpToks]
  intro r
  have hl : (lnkToksI o e = [] ∧ (if o.lnk then e.lnk else Lnk.unspec) = .unspec) ∨
      (∃ s, lnkToksI o e = [ti .lnk s] ∧ Lnk.parse s = .ok (if o.lnk then e.lnk else Lnk.unspec)) := by
    unfold lnkToksI
    by_cases ho : o.lnk = true
    · by_cases hs : e.lnk.str.isEmpty = true
      · left
        have : e.lnk.str = [] := by simpa using hs
        refine ⟨by simp [ho, hs], ?_⟩
        rw [if_pos ho]
        exact SimpleL.lnk_str_nil e.lnk this
      · right
        exact ⟨e.lnk.str, by simp [ho, hs], by simp [ho, lnk_roundtrip]⟩
    · left; simp [ho]
  have hcore := parseRelI_gcore semi e.label e.pred (lnkToksI o e) (if o.lnk then e.lnk else .unspec) _
    ((writtenArgs synE e.args).map (·.2)) _ (dget e.args CARG) synD r
    (parseArgList_gitems ((writtenArgs synE e.args).map (·.2)) vp (dget e.args CARG) r hg) hl
    (by simpa using hval) (by rw [List.map_map]; exact hD)
  have e1 : ∀ (L S : List TI), (iS e.label :: iCL :: iS e.pred :: (L ++ iLP :: (S ++ [iRP]))) ++ r
      = iS e.label :: iCL :: iS e.pred :: (L ++ iLP :: (S ++ iRP :: r)) := by
    intro L S; simp
  rw [e1, hcore]
  have hargs : mkArgs (zipArgs ((noCarg synD).map (·.name)) ((writtenArgs synE e.args).map (·.2)))
      = writtenArgs synE e.args := by
    rw [zipArgs_take, List.length_map, htake, zipArgs_unzip]
    exact SimpleL.mkArgs_nodup _ hnd
  rw [hargs]
  simp only [epViewI, hE]
  cases hc : dget e.args CARG with
  | none => simp [cargSet]
  | some c =>
    have hne : c ≠ [] := h.cargNonempty c hc
    have : c.isEmpty = false := by
      cases c with
      | nil => exact absurd rfl hne
      | cons _ _ => rfl
    simp [cargSet, this, SimpleL.dset_new _ CARG c (carg_not_written synE e.args)]

def vpRels (semi : SemI) : Dict (List Str) → List EP → Dict (List Str)
  | vp, [] => vp
  | vp, e :: es => vpRels semi (encVarsI vp (wvars semi e)).2 es

def asgRels (semi : SemI) : Dict (List Str) → List EP → List Assign
  | _, [] => []
  | vp, e :: es => asgVars vp (wvars semi e) ++ asgRels semi (encVarsI vp (wvars semi e)).2 es

theorem grelLoop (semi : SemI) (o : Opts) : ∀ (rels : List EP) (vp : Dict (List Str)) (tks : List (List TI))
    (vp' : Dict (List Str)), GoodVp vp →
    (∀ e ∈ rels, CoverEP semi e) → encRelsI semi o vp rels = .ok (tks, vp') →
    (tks.length = rels.length ∧ (∀ x ∈ tks, ∃ a X, x = a :: X ∧ a.kind = KI.symbol)) ∧
    (rels ≠ [] → ∀ (fuel : Nat) (t : TI) (r : List TI), rels.length ≤ fuel → t.kind ≠ KI.comma →
      parseRelLoop semi fuel (sepBy iCM tks ++ t :: r)
        = .ok (rels.map (epViewI semi o), asgRels semi vp rels, t :: r)) := by
  intro rels
  induction rels with
  | nil =>
    intro vp tks vp' _ _ h
    simp [encRelsI] at h
    obtain ⟨rfl, _⟩ := h
    simp
  | cons e rest ih =>
    intro vp tks vp' hg hc h
    obtain ⟨tk, hEnc, hhead, hparse⟩ := parseRelI_gencRelI semi o vp e (hc e (by simp)) hg
    simp only [encRelsI, hEnc, bind, Except.bind] at h
    cases hrest : encRelsI semi o (encVarsI vp (wvars semi e)).2 rest with
    | error err => rw [hrest] at h; simp at h
    | ok p =>
      obtain ⟨tks', vp''⟩ := p
      rw [hrest] at h
      simp [pure, Except.pure] at h
      obtain ⟨rfl, _⟩ := h
      obtain ⟨⟨hlen, hheads⟩, hloop⟩ := ih _ tks' vp'' (GoodVp_encVarsI _ hg)
        (fun x hx => hc x (by simp [hx])) hrest
      refine ⟨⟨by simp [hlen], ?_⟩, ?_⟩
      · intro x hx
        simp only [List.mem_cons] at hx
        rcases hx with rfl | hx
        · exact hhead
        · exact hheads x hx
      · intro _ fuel t r hf ht
        obtain ⟨f, rfl⟩ : ∃ f, fuel = f + 1 := ⟨fuel - 1, by simp at hf; omega⟩
        by_cases hr : rest = []
        · subst hr
          have : tks' = [] := by simpa using hlen
          subst this
          rw [sepBy_single]
          simp [parseRelLoop, hparse, accI, ht, asgRels, bind, Except.bind, pure, Except.pure]
        · have hne : tks' ≠ [] := by
            intro h0; subst h0
            cases rest with
            | nil => exact hr rfl
            | cons _ _ => simp at hlen
          rw [sepBy_cons_ne _ _ _ hne]
          have := hloop hr f t r (by simp at hf; omega) ht
          simp [parseRelLoop, hparse, accI, this, asgRels, bind, Except.bind, pure, Except.pure]

theorem grelsPart_enc (semi : SemI) (o : Opts) (rels : List EP) (vp : Dict (List Str)) (tks : List (List TI))
    (vp' : Dict (List Str)) (hg : GoodVp vp)
    (hc : ∀ e ∈ rels, CoverEP semi e) (h : encRelsI semi o vp rels = .ok (tks, vp')) (r : List TI) :
    relsPart semi (sepBy iCM tks ++ iRB :: r)
      = .ok (rels.map (epViewI semi o), asgRels semi vp rels, iRB :: r) := by
  obtain ⟨⟨hlen, hheads⟩, hloop⟩ := grelLoop semi o rels vp tks vp' hg hc h
  cases rels with
  | nil =>
    have : tks = [] := by simpa using hlen
    subst this
    simp [sepBy, relsPart, asgRels, pure, Except.pure]
  | cons e rest =>
    cases tks with
    | nil => simp at hlen
    | cons tk tks' =>
      obtain ⟨a, X, rfl, ha⟩ := hheads tk (by simp)
      obtain ⟨Y, hY⟩ := sepBy_head iCM a X tks'
      have hsl := sepBy_length iCM ((a :: X) :: tks') (by
        intro x hx
        obtain ⟨b, Z, rfl, _⟩ := hheads x hx
        simp)
      have hl2 : (sepBy iCM ((a :: X) :: tks') ++ iRB :: r).length
          = (sepBy iCM ((a :: X) :: tks')).length + (iRB :: r).length := List.length_append
      have h1 := hloop (by simp) (sepBy iCM ((a :: X) :: tks') ++ iRB :: r).length iRB r
        (by rw [hl2, ← hlen]; omega) (by simp)
      rw [hY] at h1 ⊢
      simp only [List.cons_append] at h1 ⊢
      simp only [relsPart, ha, h1, reduceCtorEq, ↓reduceIte]

end Verif.C01.IxL

namespace Verif.C01.Ix
open Verif.Codec Verif.Tables Verif.C01 Verif.C01.IxL

/-- Indexed MRS token round trip when no property list is written. -/
theorem parseIx_toksIx_partial (semi : SemI) (o : Opts) (m : MRS) (ts rest : List TI)
    (htop : m.top.isSome = true)
    (hnp : o.properties = false ∨ ∀ vp ∈ m.vars, vp.2 = [])
    (hc : ∀ e ∈ m.rels, CoverEP semi e)
    (ht : toksIx semi o m = .ok ts) :
    parseIx semi (ts ++ rest) = .ok (decodedI0 semi o m, rest) := by
  have hprep : o.properties = true → prepProps semi m.vars = .ok [] := by
    intro hp
    rcases hnp with h | h
    · rw [hp] at h; cases h
    · exact prepProps_empty semi m.vars h
  obtain ⟨top, htop'⟩ : ∃ top, m.top = some top := Option.isSome_iff_exists.mp htop
  have hinv : ∃ ix tks vp', m.index = some ix ∧ encRelsI semi o [] m.rels = .ok (tks, vp') ∧
      ts = iLA :: iS top :: iCM :: iS ix :: iCM :: iLB :: (sepBy iCM tks ++ iRB :: iCM :: iLB ::
        (encConsI m.hcons ++ iRB :: ((if m.icons.isEmpty then [] else iCM :: iLB :: (encConsI m.icons ++ [iRB]))
          ++ [iRA]))) := by
    unfold toksIx at ht
    by_cases hp : o.properties = true
    all_goals
      simp only [hp, hprep, Bool.false_eq_true, ↓reduceIte, bind, Except.bind, pure,
        Except.pure] at ht
      cases hix : m.index with
      | none => rw [hix] at ht; simp at ht
      | some ix =>
        rw [hix] at ht
        simp only [encVarI_nil] at ht
        cases hr : encRelsI semi o [] m.rels with
        | error err => rw [hr] at ht; simp at ht
        | ok p =>
          obtain ⟨tks, vp'⟩ := p
          rw [hr] at ht
          simp only [Except.ok.injEq, htop', Option.getD_some] at ht
          exact ⟨ix, tks, vp', rfl, rfl, by rw [← ht]; simp⟩
  obtain ⟨ix, tks, vp', hix, hr, rfl⟩ := hinv
  · ·
      have hrels := relsPart_enc semi o m.rels tks vp' hc hr
      have hdec : decodedI0 semi o m
          = mkMRS (some top) (some ix) (m.rels.map (epViewI semi o)) m.hcons m.icons [] .unspec none none := by
        simp [decodedI0, htop', hix]
      rw [hdec, parseIx_eq]
      by_cases hi : m.icons = []
      · simp [hi, expI, accI, parseVarI_bare ix iCM _ (by simp), hrels, parseConsI_enc, assignAll, matchAll, bind, Except.bind,
          pure, Except.pure]
      · have hi' : m.icons.isEmpty = false := by
          cases hm : m.icons with
          | nil => exact absurd hm hi
          | cons _ _ => rfl
        simp [hi', expI, accI, parseVarI_bare ix iCM _ (by simp), hrels, parseConsI_enc, assignAll, matchAll, bind, Except.bind,
          pure, Except.pure]

/-- "the same arguments": every role of the EP is written, with its value. -/
theorem epViewI_args (semi : SemI) (o : Opts) (e : EP) (h : CoverEP semi e) :
    ∀ r, dget (epViewI semi o e).args r = dget e.args r := by
  intro r
  obtain ⟨synE, synD, hE, _, hnd, _, _⟩ := h.look
  simp only [epViewI, hE]
  rw [dget_append]
  by_cases hr : r = CARG
  · subst hr
    rw [dget_eq_none_of_not_mem _ _ (carg_not_written synE e.args)]
    cases dget e.args CARG <;> simp [dget]
  · have hor : ∀ l : Dict Str, (∀ p ∈ l, p.1 = CARG) →
        (dget (writtenArgs synE e.args) r).or (dget l r) = dget (writtenArgs synE e.args) r := by
      intro l hl
      rw [dget_eq_none_of_not_mem l r (by
        intro hm
        simp only [List.mem_map] at hm
        obtain ⟨p, hp, rfl⟩ := hm
        exact hr (hl p hp)), Option.or_none]
    rw [hor]
    rotate_left
    · cases dget e.args CARG <;> simp
    cases hg : dget e.args r with
    | none =>
      cases hw : dget (writtenArgs synE e.args) r with
      | none => rfl
      | some v =>
        obtain ⟨d, _, _, _, hd⟩ := writtenArgs_mem synE e.args (r, v) (SimpleL.dget_mem _ _ _ hw)
        simp only at hd
        rw [hg] at hd; cases hd
    | some v =>
      have hmem : (r, v) ∈ e.args := SimpleL.dget_mem _ _ _ hg
      have hrole : r ∈ epRoles e := by
        simp only [epRoles, List.mem_map, List.mem_filter]
        exact ⟨(r, v), ⟨hmem, by simpa using hr⟩, rfl⟩
      have hfit : fitsMap synE (epRoles e) = true := by
        rcases findEnc_fits semi e.pred (epRoles e) synE hE with h0 | h0
        · rw [h0] at hrole; simp at hrole
        · exact h0
      simp only [fitsMap, Bool.and_eq_true, List.all_eq_true, List.any_eq_true, decide_eq_true_eq] at hfit
      obtain ⟨d, hd, hname⟩ := hfit.2 r hrole
      have hup : upper r = r := h.rolesUpper (r, v) hmem
      rw [hup] at hname
      have := mem_writtenArgs synE e.args d v hd (by rw [hname]; exact hr) (by rw [hname]; exact hg)
      rw [hname] at this
      exact dget_of_mem_nodup _ r v hnd this

/-- Indexed MRS token round trip with property lists written: the decoder yields the view of the
relations and the property maps `_match_properties` makes of the first-mention value lists. -/
theorem parseIx_toksIx_props (semi : SemI) (o : Opts) (m : MRS) (ts rest : List TI) (vp0 : Dict (List Str))
    (htop : m.top.isSome = true)
    (hprep : (if o.properties then prepProps semi m.vars else .ok []) = .ok vp0)
    (hgood : GoodVp vp0)
    (hc : ∀ e ∈ m.rels, CoverEP semi e)
    (ht : toksIx semi o m = .ok ts) :
    ∃ ix, m.index = some ix ∧
      parseIx semi (ts ++ rest) =
        (match matchAll semi (assignAll (asgVar vp0 ix ++ asgRels semi (encVarI vp0 ix).2 m.rels)) with
         | .ok vars => .ok (mkMRS m.top m.index (m.rels.map (epViewI semi o)) m.hcons m.icons vars
                              .unspec none none, rest)
         | .error err => .error err) := by
  obtain ⟨top, htop'⟩ : ∃ top, m.top = some top := Option.isSome_iff_exists.mp htop
  have hinv : ∃ ix tks vp', m.index = some ix ∧ encRelsI semi o (encVarI vp0 ix).2 m.rels = .ok (tks, vp') ∧
      ts = iLA :: iS top :: iCM :: ((encVarI vp0 ix).1 ++ iCM :: iLB :: (sepBy iCM tks ++ iRB :: iCM :: iLB ::
        (encConsI m.hcons ++ iRB :: ((if m.icons.isEmpty then [] else iCM :: iLB :: (encConsI m.icons ++ [iRB]))
          ++ [iRA])))) := by
    unfold toksIx at ht
    by_cases hp : o.properties = true
    · simp only [hp, ↓reduceIte] at hprep
      simp only [hp, hprep, ↓reduceIte, bind, Except.bind, pure, Except.pure] at ht
      cases hix : m.index with
      | none => rw [hix] at ht; simp at ht
      | some ix =>
        rw [hix] at ht
        simp only at ht
        split at ht
        · cases ht
        · rename_i v heq
          simp only [Except.ok.injEq, htop', Option.getD_some] at ht
          exact ⟨ix, v.1, v.2, rfl, heq, by rw [← ht]; simp⟩
    · simp only [hp, Bool.false_eq_true, ↓reduceIte, Except.ok.injEq] at hprep
      subst hprep
      simp only [hp, Bool.false_eq_true, ↓reduceIte, bind, Except.bind, pure, Except.pure] at ht
      cases hix : m.index with
      | none => rw [hix] at ht; simp at ht
      | some ix =>
        rw [hix] at ht
        simp only at ht
        split at ht
        · cases ht
        · rename_i v heq
          simp only [Except.ok.injEq, htop', Option.getD_some] at ht
          exact ⟨ix, v.1, v.2, rfl, heq, by rw [← ht]; simp⟩
  obtain ⟨ix, tks, vp', hix, hr, rfl⟩ := hinv
  refine ⟨ix, hix, ?_⟩
  have hrels := grelsPart_enc semi o m.rels _ tks vp' (GoodVp_encVarI hgood ix) hc hr
  obtain ⟨Y, hY⟩ := encVarI_head vp0 ix
  have hvar := fun r => parseVarI_encVarI vp0 ix iCM r hgood (by simp)
  rw [hY] at hvar
  simp only [List.cons_append] at hvar
  rw [parseIx_eq, htop', hix, hY]
  have hi' : m.icons ≠ [] → m.icons.isEmpty = false := by
    intro hi
    cases hm : m.icons with
    | nil => exact absurd hm hi
    | cons _ _ => rfl
  cases hdg : dget vp0 ix with
  | none =>
    simp only [hdg] at hvar
    have hav : asgVar vp0 ix = [] := by simp [asgVar, hdg]
    rw [hav]
    by_cases hi : m.icons = []
    · simp [hi, expI, accI, hvar, hrels, parseConsI_enc, bind, Except.bind, pure, Except.pure]
      cases matchAll semi (assignAll (asgRels semi (encVarI vp0 ix).2 m.rels)) <;> rfl
    · simp [hi' hi, expI, accI, hvar, hrels, parseConsI_enc, bind, Except.bind, pure, Except.pure]
      cases matchAll semi (assignAll (asgRels semi (encVarI vp0 ix).2 m.rels)) <;> rfl
  | some p =>
    simp only [hdg] at hvar
    have hav : asgVar vp0 ix = [(ix, p)] := by simp [asgVar, hdg]
    rw [hav]
    by_cases hi : m.icons = []
    · simp [hi, expI, accI, hvar, hrels, parseConsI_enc, bind, Except.bind, pure, Except.pure]
      cases matchAll semi (assignAll ((ix, p) :: asgRels semi (encVarI vp0 ix).2 m.rels)) <;> rfl
    · simp [hi' hi, expI, accI, hvar, hrels, parseConsI_enc, bind, Except.bind, pure, Except.pure]
      cases matchAll semi (assignAll ((ix, p) :: asgRels semi (encVarI vp0 ix).2 m.rels)) <;> rfl

end Verif.C01.Ix
