/-
C01 — the model of `_IndexedMRSLexer` reads back any layout that puts blanks and line feeds after
the tokens (`renderG`), provided two adjacent symbols are separated and an opening angle bracket is
followed by white space; the indented layout `renderIxInd n` is such a layout for every n.
-/
import Verif.C01.IxLayout
import Verif.C01.IxLexLemmas
import Verif.C01.LayoutLemmas

namespace Verif.C01.IxLayL
open Verif.Codec Verif.Tables Verif.C01 Verif.C01.Ix Verif.C01.Lex Verif.C01.IxLex Verif.C01.IxLexL
open Verif.C01.LayL (splitLines_exists splitLines_cons_noLB splitLines_append_noLB splitLines_nl Blk)

def lexLinesI (ls : List Str) : Option (List TI) :=
  ls.foldr (fun l acc => match lexLineI (l.length + 1) l, acc with
    | some a, some b => some (a ++ b)
    | _, _ => none) (some [])

theorem lexIx_eq (s : Str) : lexIx s = lexLinesI (splitLines s) := rfl

theorem lexLinesI_cons (l : Str) (rest : List Str) :
    lexLinesI (l :: rest) = (match lexLineI (l.length + 1) l, lexLinesI rest with
      | some a, some b => some (a ++ b)
      | _, _ => none) := rfl

def LRI (l : Str) (ts : List TI) : Prop := ∀ fuel, l.length < fuel → lexLineI fuel l = some ts

/-- a text the lexer reads as `ts`: first line, remaining lines. -/
def TRI (s : Str) (ts : List TI) : Prop :=
  ∃ l rest a b, splitLines s = l :: rest ∧ LRI l a ∧ lexLinesI rest = some b ∧ ts = a ++ b

theorem lexIx_of_TRI {s : Str} {ts : List TI} (h : TRI s ts) : lexIx s = some ts := by
  obtain ⟨l, rest, a, b, hs, hl, hr, rfl⟩ := h
  rw [lexIx_eq, hs, lexLinesI_cons, hl _ (Nat.lt_succ_self _), hr]

theorem TRI_nil : TRI [] [] := ⟨[], [], [], [], rfl, fun f _ => lexLineI_nil f, rfl, rfl⟩

theorem TRI_blank {s : Str} {ts : List TI} (h : TRI s ts) : TRI (' ' :: s) ts := by
  obtain ⟨l, rest, a, b, hs, hl, hr, e⟩ := h
  refine ⟨' ' :: l, rest, a, b, splitLines_cons_noLB ' ' (by decide) hs, ?_, hr, e⟩
  intro fuel hf
  cases fuel with
  | zero => cases hf
  | succ f =>
    simp only [lexLineI, stepI_blank]
    exact hl f (by simp at hf; omega)

theorem TRI_nl {s : Str} {ts : List TI} (h : TRI s ts) : TRI ('\n' :: s) ts := by
  obtain ⟨l, rest, a, b, hs, hl, hr, e⟩ := h
  refine ⟨[], l :: rest, [], a ++ b, ?_, fun f _ => lexLineI_nil f, ?_, by simpa using e⟩
  · rw [splitLines_nl, hs]
  · rw [lexLinesI_cons, hl _ (Nat.lt_succ_self _), hr]

theorem TRI_blk : ∀ (g : Str), Blk g → ∀ {s : Str} {ts : List TI}, TRI s ts → TRI (g ++ s) ts
  | [], _, _, _, h => h
  | c :: g, hb, s, ts, h => by
    have ih := TRI_blk g (fun x hx => hb x (by simp [hx])) h
    rcases hb c (by simp) with rfl | rfl
    · exact TRI_blank ih
    · exact TRI_nl ih

/-- what follows a token: nothing, a blank or a line feed. -/
def SepS (s : Str) : Prop := s = [] ∨ (∃ r, s = ' ' :: r) ∨ (∃ r, s = '\n' :: r)

theorem head_of_split {s l : Str} {rest : List Str} {x : Char} (hs : splitLines s = (x :: l) :: rest) :
    ∃ r, s = x :: r := by
  cases s with
  | nil => simp [splitLines] at hs
  | cons c r =>
    by_cases hc : isLineBreak c = true
    · simp [splitLines, hc] at hs
    · obtain ⟨l', rest', h'⟩ := splitLines_exists r
      rw [splitLines_cons_noLB c (by simpa using hc) h'] at hs
      simp at hs
      exact ⟨r, by rw [hs.1.1]⟩

theorem nx_line {s l : Str} {rest : List Str} (hs : splitLines s = l :: rest) (h : Nx s) : Nx l := by
  intro x r e
  subst e
  obtain ⟨r', rfl⟩ := head_of_split hs
  exact h x r' rfl

theorem mLnkI_nil : mLnkI [] = none := by decide

theorem mLnkI_blank (r : Str) : mLnkI (' ' :: r) = none := by
  simp [mLnkI, sInt, optMinus, digits1, isD]

theorem mlnk_line {s l : Str} {rest : List Str} (hs : splitLines s = l :: rest) (h : SepS s) : mLnkI l = none := by
  rcases h with rfl | ⟨r, rfl⟩ | ⟨r, rfl⟩
  · simp [splitLines] at hs
    rw [hs.1]; exact mLnkI_nil
  · obtain ⟨l', rest', h'⟩ := splitLines_exists r
    rw [splitLines_cons_noLB ' ' (by decide) h'] at hs
    simp at hs
    rw [← hs.1]; exact mLnkI_blank l'
  · rw [splitLines_nl] at hs
    simp at hs
    rw [hs.1]; exact mLnkI_nil

/-- what may follow an opening angle bracket: white space / nothing, or a symbol and a comma (`<h0,`). -/
def LaS (s : Str) : Prop := SepS s ∨ ∃ sym X, (∀ c ∈ sym, symOkI c = true) ∧ s = sym ++ ',' :: X

theorem mlnk_line' {s l : Str} {rest : List Str} (hs : splitLines s = l :: rest) (h : LaS s) : mLnkI l = none := by
  rcases h with h | ⟨sym, X, hsym, rfl⟩
  · exact mlnk_line hs h
  · obtain ⟨l', rest', h'⟩ := splitLines_exists X
    have h1 := splitLines_cons_noLB ',' (by decide) h'
    have h2 := splitLines_append_noLB sym (fun c hc => symOkI_noLB (hsym c hc)) h1
    rw [h2] at hs
    simp at hs
    rw [← hs.1]
    exact mLnkI_sym sym l' hsym

theorem TRI_tok {t : TI} {s : Str} {ts : List TI} (ht : TokOKI t) (hn : t.kind = KI.symbol → Nx s)
    (hl : t.kind = KI.langle → LaS s) (h : TRI s ts) : TRI (tokTextI t ++ s) (t :: ts) := by
  obtain ⟨l, rest, a, b, hs, hlr, hr, e⟩ := h
  obtain ⟨c, r, htt, hst⟩ := stepI_tok t l ht (fun hk => nx_line hs (hn hk)) (fun hk => mlnk_line' hs (hl hk))
  refine ⟨tokTextI t ++ l, rest, t :: a, b, splitLines_append_noLB _ (tokTextI_noLB t ht) hs, ?_, hr,
    by simp [e]⟩
  intro fuel hf
  rw [htt] at hf ⊢
  cases fuel with
  | zero => cases hf
  | succ f =>
    have := hlr f (by simp at hf; omega)
    simp [lexLineI, hst, this]

/-- a gapped token list the lexer can read: expressible tokens, gaps of blanks and line feeds, white
space after an opening angle bracket, and between two adjacent symbols. -/
def GapOK : List (TI × Str) → Prop
  | [] => True
  | p :: r => TokOKI p.1 ∧ Blk p.2 ∧
      (p.1.kind = KI.langle → p.2 ≠ [] ∨
        ∃ u v r', r = u :: v :: r' ∧ u.1.kind = KI.symbol ∧ u.2 = [] ∧ v.1.kind = KI.comma) ∧
      (p.1.kind = KI.symbol → p.2 = [] → ∀ q ∈ r.head?, q.1.kind ≠ KI.symbol) ∧ GapOK r

theorem sepS_of_blk {g : Str} (hne : g ≠ []) (hb : Blk g) (s : Str) : SepS (g ++ s) := by
  cases g with
  | nil => exact absurd rfl hne
  | cons c g =>
    rcases hb c (by simp) with rfl | rfl
    · exact Or.inr (Or.inl ⟨g ++ s, rfl⟩)
    · exact Or.inr (Or.inr ⟨g ++ s, rfl⟩)

theorem nx_of_sepS {s : Str} (h : SepS s) : Nx s := by
  rcases h with rfl | ⟨r, rfl⟩ | ⟨r, rfl⟩
  · exact nx_nil
  · exact nx_cons (by decide)
  · exact nx_cons (by decide)

theorem TRI_renderG : ∀ (l : List (TI × Str)), GapOK l → TRI (renderG l) (l.map (·.1))
  | [], _ => TRI_nil
  | p :: r, h => by
    obtain ⟨hok, hb, hla, hsy, hr⟩ := h
    have ih := TRI_renderG r hr
    simp only [renderG, List.map_cons, List.append_assoc]
    refine TRI_tok hok ?_ ?_ (TRI_blk p.2 hb ih)
    · intro hk
      by_cases hg : p.2 = []
      · rw [hg, List.nil_append]
        cases r with
        | nil => exact nx_nil
        | cons q r' =>
          have hq := hsy hk hg q (by simp)
          obtain ⟨x, X, hx, hs⟩ := first_nonsym q.1 hr.1 hq
          simp only [renderG, hx, List.cons_append]
          exact nx_cons hs
      · exact nx_of_sepS (sepS_of_blk hg hb _)
    · intro hk
      rcases hla hk with hne | ⟨u, v, r', rfl, hu, hug, hv⟩
      · exact Or.inl (sepS_of_blk hne hb _)
      · by_cases hg : p.2 = []
        · refine Or.inr ⟨u.1.text, v.2 ++ renderG r', ?_, ?_⟩
          · have := hr.1
            simp only [TokOKI, hu] at this
            exact this.2
          · have h1 : tokTextI u.1 = u.1.text := by simp [tokTextI, hu]
            have hv' := hr.2.2.2.2.1
            simp only [TokOKI, hv] at hv'
            have h2 : tokTextI v.1 = [','] := by simp [tokTextI, hv, hv']
            simp [renderG, hg, hug, h1, h2]
        · exact Or.inl (sepS_of_blk hg hb _)

/-- the lexer reads back every such layout. -/
theorem lexIx_renderG (l : List (TI × Str)) (h : GapOK l) : lexIx (renderG l) = some (l.map (·.1)) :=
  lexIx_of_TRI (TRI_renderG l h)

/-! ### the indented layout is one -/

theorem blk_sp (n : Nat) : Blk (sp n) := by
  intro c hc
  simp only [sp, List.mem_replicate] at hc
  exact Or.inl hc.2

theorem blk_nl_sp (n : Nat) : Blk ('\n' :: sp n) := by
  intro c hc
  rcases List.mem_cons.1 hc with rfl | h
  · exact Or.inr rfl
  · exact blk_sp n c h

theorem blk_one : Blk [' '] := by intro c hc; simp at hc; exact Or.inl hc
theorem blk_nil : Blk [] := by intro c hc; cases hc
theorem blk_nl : Blk ['\n'] := by intro c hc; simp at hc; exact Or.inr hc

theorem blk_append {a b : Str} (ha : Blk a) (hb : Blk b) : Blk (a ++ b) := by
  intro c hc
  rcases List.mem_append.1 hc with h | h
  · exact ha c h
  · exact hb c h

theorem blk_ownGap (n : Nat) (st : LSt) (t : TI) (next : Option TI) : Blk (ownGap n st t next) := by
  unfold ownGap
  split
  · exact blk_one
  · split
    · exact blk_one
    · split
      · exact blk_nl_sp _
      · split
        · exact blk_one
        · exact blk_nl_sp _
  · exact blk_sp _
  · split
    · exact blk_nl
    · exact blk_nil
  · split
    · split
      · exact blk_one
      · exact blk_nil
    · exact blk_nil
  · exact blk_nil

theorem blk_closeGap (next : Option TI) : Blk (closeGap next) := by
  unfold closeGap
  split
  · split
    · exact blk_one
    · exact blk_nil
  · exact blk_nil

theorem gapsInd_map (n : Nat) : ∀ (ts : List TI) (st : LSt), (gapsInd n st ts).map (·.1) = ts
  | [], _ => rfl
  | t :: r, st => by simp [gapsInd, gapsInd_map n r]

theorem gapsInd_head (n : Nat) (st : LSt) (ts : List TI) :
    (gapsInd n st ts).head? = ts.head?.map (fun t => (t, ownGap n st t ts.tail.head? ++ closeGap ts.tail.head?)) := by
  cases ts <;> simp [gapsInd]

theorem gapsInd_ok (n : Nat) : ∀ (ts : List TI) (st : LSt), (∀ t ∈ ts, TokOKI t) → GapOK (gapsInd n st ts)
  | [], _, _ => trivial
  | t :: r, st, h => by
    refine ⟨h t (by simp), blk_append (blk_ownGap n st t _) (blk_closeGap _), ?_, ?_,
      gapsInd_ok n r _ (fun x hx => h x (by simp [hx]))⟩
    · intro hk
      have hk' : t.kind = KI.langle := hk
      exact Or.inl (by simp [ownGap, hk'])
    · intro hk hg q hq
      have hk' : t.kind = KI.symbol := hk
      cases r with
      | nil => simp [gapsInd] at hq
      | cons u r' =>
        simp only [gapsInd, List.head?_cons, Option.mem_def, Option.some.injEq] at hq
        subst hq
        intro hu
        have hu' : u.kind = KI.symbol := hu
        simp [ownGap, hk', hu'] at hg

/-! ### the un-indented document layout is one -/

theorem LaOK_cons {t : TI} (ht : t.kind ≠ KI.langle) : ∀ {l : List TI}, LaOK l → LaOK (t :: l)
  | [], _ => ht
  | [_], h => ⟨ht, h⟩
  | [_, _], h => ⟨fun hk => absurd hk ht, h⟩
  | _ :: _ :: _ :: _, h => ⟨fun hk => absurd hk ht, h⟩

/-- the concatenation of item token lists keeps "every `<` is followed by a symbol and a comma". -/
theorem LaOK_append : ∀ (a : List TI) {b : List TI}, LaOK a → LaOK b → LaOK (a ++ b)
  | [], _, _, hb => hb
  | [t], _, ha, hb => LaOK_cons ha hb
  | [t, u], _, ha, hb => LaOK_cons ha.1 (LaOK_cons ha.2 hb)
  | t :: u :: v :: r, b, ha, hb => by
    have ih := LaOK_append (u :: v :: r) ha.2 hb
    exact ⟨ha.1, ih⟩

theorem LaOK_flatten : ∀ (tss : List (List TI)), (∀ ts ∈ tss, LaOK ts) → LaOK tss.flatten
  | [], _ => trivial
  | ts :: r, h => by
    simp only [List.flatten_cons]
    exact LaOK_append ts (h ts (by simp)) (LaOK_flatten r (fun x hx => h x (by simp [hx])))

theorem LaOK_tl : ∀ (t : TI) (l : List TI), LaOK (t :: l) → LaOK l
  | _, [], _ => trivial
  | _, [_], h => h.2
  | _, [_, _], h => h.2
  | _, _ :: _ :: _ :: _, h => h.2

theorem gapsFlat_map : ∀ (ts : List TI), (gapsFlat ts).map (·.1) = ts
  | [] => rfl
  | t :: r => by simp [gapsFlat, gapsFlat_map r]

theorem gapsFlat_ok : ∀ (ts : List TI), (∀ t ∈ ts, TokOKI t) → LaOK ts → GapOK (gapsFlat ts)
  | [], _, _ => trivial
  | t :: r, h, hla => by
    refine ⟨h t (by simp), ?_, ?_, ?_, gapsFlat_ok r (fun x hx => h x (by simp [hx])) (LaOK_tl t r hla)⟩
    · show Blk (match r.head? with
        | some u => if (t.kind = KI.symbol ∧ u.kind = KI.symbol) ∨ t.kind = KI.rangle then [' '] else []
        | none => [])
      split
      · split
        · exact blk_one
        · exact blk_nil
      · exact blk_nil
    · intro hk
      have hk' : t.kind = KI.langle := hk
      right
      match r, hla with
      | [], hla => exact absurd hk' hla
      | [_], hla => exact absurd hk' hla.1
      | u :: v :: r', hla =>
        obtain ⟨hu, hv⟩ := hla.1 hk'
        refine ⟨_, _, _, rfl, hu, ?_, hv⟩
        cases r' <;> simp [gapsFlat, hu, hv]
    · intro hk hg q hq
      have hk' : t.kind = KI.symbol := hk
      cases r with
      | nil => simp [gapsFlat] at hq
      | cons u r' =>
        simp only [gapsFlat, List.head?_cons, Option.mem_def, Option.some.injEq] at hq
        subst hq
        intro hu
        have hu' : u.kind = KI.symbol := hu
        simp [hk', hu'] at hg

end Verif.C01.IxLayL

namespace Verif.C01.IxLex
open Verif.Codec Verif.Tables Verif.C01 Verif.C01.Ix Verif.C01.IxLayL

/-- the lexer reads the indented layout of any list of lexically expressible tokens back, for every
indentation width. -/
theorem lexIx_renderIxInd (n : Nat) (ts : List TI) (hok : ∀ t ∈ ts, TokOKI t) :
    lexIx (renderIxInd n ts) = some ts := by
  unfold renderIxInd
  rw [lexIx_renderG _ (gapsInd_ok n ts {} hok), gapsInd_map]

/-- the lexer reads the un-indented DOCUMENT layout (items joined by one blank) back, for any list of lexically
expressible tokens in which every opening angle bracket is followed by a symbol and a comma. -/
theorem lexIx_renderIxDoc (ts : List TI) (hok : ∀ t ∈ ts, TokOKI t) (hla : LaOK ts) :
    lexIx (renderIxDoc ts) = some ts := by
  unfold renderIxDoc
  rw [lexIx_renderG _ (gapsFlat_ok ts hok hla), gapsFlat_map]

end Verif.C01.IxLex
