/-
C01 — Indexed MRS token round trip including the property maps: the `matchAll` hypothesis of
`parseIx_toksIx_props` is discharged from `propsCover`.
-/
import Verif.C01.IxLemmas

namespace Verif.C01.IxP
open Verif.Codec Verif.Tables Verif.C01 Verif.C01.Ix Verif.C01.IxL

/-- the value written for the SEM-I property `kv` of a variable with property map `ps`. -/
def pval (ps : Props) : Str × Str → Str := fun kv => upper ((dget ps kv.1).getD kv.2)

def EntryCov (semi : SemI) (v : Str) (ps : Props) : Prop :=
  validVar v = true ∧ ∃ sps, dget semi.vprops (varSort v) = some sps ∧ sps ≠ [] ∧ (sps.map (·.1)).Nodup ∧
    ∀ kv ∈ sps, hsub semi.psub kv.2 (pval ps kv) = true

def Cov (semi : SemI) (vars : Dict Props) : Prop :=
  ∀ v ps, (v, ps) ∈ vars → ps ≠ [] → EntryCov semi v ps

theorem cov_of_propsCover (semi : SemI) (m : MRS) (hp : propsCover semi m = true) : Cov semi m.vars := by
  intro v ps hm hne
  unfold propsCover at hp
  rw [List.all_eq_true] at hp
  have h := hp (v, ps) hm
  have hne' : ps.isEmpty = false := by cases ps <;> simp_all
  simp only [hne', Bool.false_or, Bool.and_eq_true] at h
  obtain ⟨hv, h⟩ := h
  refine ⟨hv, ?_⟩
  cases hd : dget semi.vprops (varSort v) with
  | none => rw [hd] at h; simp at h
  | some sps =>
    rw [hd] at h
    simp only [Bool.and_eq_true, decide_eq_true_eq, List.all_eq_true, Bool.not_eq_true'] at h
    obtain ⟨⟨h1, h2⟩, h3⟩ := h
    exact ⟨sps, rfl, by cases sps <;> simp_all, h2, fun kv hkv => h3 kv hkv⟩

/-- the explicit result of `prepProps`. -/
def prepOf (semi : SemI) : Dict Props → Dict (List Str)
  | [] => []
  | (v, ps) :: rest =>
    if ps.isEmpty then prepOf semi rest
    else match dget semi.vprops (varSort v) with
      | some sps => (v, sps.map (pval ps)) :: prepOf semi rest
      | none => prepOf semi rest

theorem prepProps_eq (semi : SemI) : ∀ vars, Cov semi vars → prepProps semi vars = .ok (prepOf semi vars)
  | [], _ => rfl
  | (v, ps) :: rest, h => by
    have ih := prepProps_eq semi rest (fun v ps hm => h v ps (List.mem_cons_of_mem _ hm))
    simp only [prepProps, ih, prepOf, bind, Except.bind, pure, Except.pure]
    by_cases he : ps.isEmpty = true
    · simp [he]
    · have hne : ps ≠ [] := by intro e; subst e; simp at he
      obtain ⟨hv, sps, hs, -⟩ := h v ps List.mem_cons_self hne
      simp [he, hv, hs, pval]

theorem mem_prepOf (semi : SemI) : ∀ (vars : Dict Props) (p : Str × List Str), p ∈ prepOf semi vars →
    ∃ ps sps, (p.1, ps) ∈ vars ∧ ps ≠ [] ∧ dget semi.vprops (varSort p.1) = some sps ∧ p.2 = sps.map (pval ps)
  | [], p, h => by simp [prepOf] at h
  | (v, ps) :: rest, p, h => by
    have ih := mem_prepOf semi rest p
    have lift : (∃ ps sps, (p.1, ps) ∈ rest ∧ ps ≠ [] ∧ dget semi.vprops (varSort p.1) = some sps ∧
        p.2 = sps.map (pval ps)) → ∃ ps' sps, (p.1, ps') ∈ (v, ps) :: rest ∧ ps' ≠ [] ∧
        dget semi.vprops (varSort p.1) = some sps ∧ p.2 = sps.map (pval ps') := by
      rintro ⟨a, b, h1, h2⟩
      exact ⟨a, b, List.mem_cons_of_mem _ h1, h2⟩
    unfold prepOf at h
    by_cases he : ps.isEmpty = true
    · simp only [he, ↓reduceIte] at h
      exact lift (ih h)
    · have hne : ps ≠ [] := by intro e; subst e; simp at he
      simp only [he, Bool.false_eq_true, ↓reduceIte] at h
      cases hs : dget semi.vprops (varSort v) with
      | none => rw [hs] at h; exact lift (ih h)
      | some sps =>
        rw [hs] at h
        simp only [List.mem_cons] at h
        rcases h with rfl | h
        · exact ⟨ps, sps, List.mem_cons_self, hne, hs, rfl⟩
        · exact lift (ih h)

theorem keys_prepOf_sublist (semi : SemI) : ∀ (vars : Dict Props),
    ((prepOf semi vars).map (·.1)).Sublist (vars.map (·.1))
  | [] => List.Sublist.refl _
  | (v, ps) :: rest => by
    have ih := keys_prepOf_sublist semi rest
    unfold prepOf
    by_cases he : ps.isEmpty = true
    · simp only [he, ↓reduceIte, List.map_cons]
      exact List.Sublist.cons _ ih
    · simp only [he, Bool.false_eq_true, ↓reduceIte]
      cases hs : dget semi.vprops (varSort v) with
      | none => simp only [List.map_cons]; exact List.Sublist.cons _ ih
      | some sps => simp only [List.map_cons]; exact List.Sublist.cons_cons _ ih

theorem nodup_prepOf (semi : SemI) (vars : Dict Props) (hn : (vars.map (·.1)).Nodup) :
    ((prepOf semi vars).map (·.1)).Nodup :=
  List.Nodup.sublist (keys_prepOf_sublist semi vars) hn

theorem dget_prepOf (semi : SemI) (v : Str) : ∀ (vars : Dict Props), (vars.map (·.1)).Nodup →
    dget (prepOf semi vars) v =
      (match dget vars v with
       | some ps => if ps.isEmpty then none else (dget semi.vprops (varSort v)).map (fun sps => sps.map (pval ps))
       | none => none)
  | [], _ => rfl
  | (k, ps) :: rest, hn => by
    rw [List.map_cons, List.nodup_cons] at hn
    have ih := dget_prepOf semi v rest hn.2
    by_cases hk : k = v
    · subst hk
      have hnone : dget (prepOf semi rest) k = none :=
        dget_eq_none_of_not_mem _ _ (fun hmem => hn.1 ((keys_prepOf_sublist semi rest).subset hmem))
      unfold prepOf
      by_cases he : ps.isEmpty = true
      · simp [he, dget, hnone]
      · simp only [he, Bool.false_eq_true, ↓reduceIte]
        cases hs : dget semi.vprops (varSort k) with
        | none => simp [dget, hnone]
        | some sps =>
          have hne : ps ≠ [] := by intro e; subst e; simp at he
          simp [dget, hne]
    · unfold prepOf
      by_cases he : ps.isEmpty = true
      · simp only [he, ↓reduceIte, ih]; simp [dget, hk]
      · simp only [he, Bool.false_eq_true, ↓reduceIte]
        cases hs : dget semi.vprops (varSort k) with
        | none => simp only [ih]; simp [dget, hk]
        | some sps => simp only [dget, hk, ↓reduceIte, ih]

/-! ### the assignments -/

theorem asgVars_append : ∀ (a b : List Str) (vp : Dict (List Str)),
    asgVars vp (a ++ b) = asgVars vp a ++ asgVars (encVarsI vp a).2 b
  | [], b, vp => by simp [asgVars, encVarsI]
  | w :: a, b, vp => by
    simp only [List.cons_append, asgVars, encVarsI, List.append_assoc]
    rw [asgVars_append a b]

theorem asgRels_eq (semi : SemI) : ∀ (es : List EP) (vp : Dict (List Str)),
    asgRels semi vp es = asgVars vp (es.flatMap (wvars semi))
  | [], vp => by simp [asgRels, asgVars]
  | e :: es, vp => by
    simp only [asgRels, List.flatMap_cons]
    rw [asgVars_append, asgRels_eq semi es]

theorem wvars_eq (semi : SemI) : wvars semi = writtenVarsEP semi := by
  funext e; rfl

theorem nodup_encVarI (vp : Dict (List Str)) (w : Str) (hn : (vp.map (·.1)).Nodup) :
    ((encVarI vp w).2.map (·.1)).Nodup := by
  unfold encVarI
  cases dget vp w with
  | none => exact hn
  | some vals => exact nodup_ddel vp w hn

/-- first mention: each variable is assigned at most once, with its list in `vp`. -/
theorem dget_foldl_asgVars (v : Str) : ∀ (vs : List Str) (vp acc : Dict (List Str)), (vp.map (·.1)).Nodup →
    dget ((asgVars vp vs).foldl (fun d a => dset d a.1 a.2) acc) v =
      if v ∈ vs then (dget vp v).or (dget acc v) else dget acc v
  | [], vp, acc, _ => by simp [asgVars]
  | w :: vs, vp, acc, hn => by
    simp only [asgVars, List.foldl_append]
    rw [dget_foldl_asgVars v vs _ _ (nodup_encVarI vp w hn)]
    unfold asgVar encVarI
    cases hd : dget vp w with
    | none =>
      simp only [List.foldl_nil]
      by_cases hvw : v = w
      · subst hvw; simp [hd]
      · simp [hvw]
    | some vals =>
      simp only [List.foldl_cons, List.foldl_nil]
      by_cases hvw : v = w
      · subst hvw
        simp [dget_ddel_same vp v hn, dget_dset_same, hd]
      · simp [hvw, dget_ddel_other vp w v hvw, dget_dset_other acc w v vals hvw]

theorem dget_assignAll_asgVars (v : Str) (vs : List Str) (vp : Dict (List Str)) (hn : (vp.map (·.1)).Nodup) :
    dget (assignAll (asgVars vp vs)) v = if v ∈ vs then dget vp v else none := by
  unfold assignAll
  rw [dget_foldl_asgVars v vs vp [] hn]
  simp [dget]

theorem mem_dset {β} (d : Dict β) (k : Str) (x : β) (p : Str × β) (h : p ∈ dset d k x) :
    p ∈ d ∨ p = (k, x) := by
  induction d with
  | nil => simp [dset] at h; exact Or.inr h
  | cons q r ih =>
    obtain ⟨k', v'⟩ := q
    unfold dset at h
    by_cases hk : k' = k
    · simp only [hk, ↓reduceIte, List.mem_cons] at h
      rcases h with h | h
      · exact Or.inr h
      · exact Or.inl (List.mem_cons_of_mem _ h)
    · simp only [hk, ↓reduceIte, List.mem_cons] at h
      rcases h with h | h
      · exact Or.inl (h ▸ List.mem_cons_self)
      · rcases ih h with h | h
        · exact Or.inl (List.mem_cons_of_mem _ h)
        · exact Or.inr h

theorem mem_foldl_dset {β} : ∀ (asg : List (Str × β)) (acc : Dict β) (p : Str × β),
    p ∈ asg.foldl (fun d a => dset d a.1 a.2) acc → p ∈ acc ∨ p ∈ asg
  | [], acc, p, h => Or.inl h
  | a :: asg, acc, p, h => by
    rw [List.foldl_cons] at h
    rcases mem_foldl_dset asg _ p h with h | h
    · rcases mem_dset acc a.1 a.2 p h with h | h
      · exact Or.inl h
      · exact Or.inr (h ▸ List.mem_cons_self)
    · exact Or.inr (List.mem_cons_of_mem _ h)

theorem mem_encVarI (vp : Dict (List Str)) (w : Str) (p : Str × List Str) (h : p ∈ (encVarI vp w).2) :
    p ∈ vp := by
  unfold encVarI at h
  cases hd : dget vp w with
  | none => rw [hd] at h; exact h
  | some vals => rw [hd] at h; exact SimpleL.mem_ddel _ _ _ h

theorem mem_asgVars : ∀ (vs : List Str) (vp : Dict (List Str)) (p : Str × List Str),
    p ∈ asgVars vp vs → p ∈ vp
  | [], vp, p, h => by simp [asgVars] at h
  | w :: vs, vp, p, h => by
    simp only [asgVars, List.mem_append] at h
    rcases h with h | h
    · unfold asgVar at h
      cases hd : dget vp w with
      | none => rw [hd] at h; simp at h
      | some vals =>
        rw [hd] at h
        simp only [List.mem_singleton] at h
        subst h
        exact SimpleL.dget_mem _ _ _ hd
    · exact mem_encVarI vp w p (mem_asgVars vs _ p h)

theorem mem_assignAll_asgVars (vs : List Str) (vp : Dict (List Str)) (p : Str × List Str)
    (h : p ∈ assignAll (asgVars vp vs)) : p ∈ vp := by
  unfold assignAll at h
  rcases mem_foldl_dset _ _ p h with h | h
  · simp at h
  · exact mem_asgVars vs vp p h

/-! ### `_match_properties` on the assigned lists -/

theorem zip_map_self {α β} (f : α → β) : ∀ (l : List α), l.zip (l.map f) = l.map (fun a => (a, f a))
  | [] => rfl
  | a :: l => by simp [zip_map_self f l]

/-- the property map `_match_properties` makes of a value list. -/
def mp (semi : SemI) (v : Str) (vals : List Str) : Props :=
  match dget semi.vprops (varSort v) with
  | some sps => (sps.zip vals).map (fun p => (p.1.1, p.2))
  | none => []

def GoodE (semi : SemI) (p : Str × List Str) : Prop :=
  validVar p.1 = true ∧ ∃ sps, dget semi.vprops (varSort p.1) = some sps ∧ sps ≠ [] ∧ (sps.map (·.1)).Nodup ∧
    ∃ f : Str × Str → Str, p.2 = sps.map f ∧ ∀ kv ∈ sps, hsub semi.psub kv.2 (f kv) = true

theorem matchProps_good (semi : SemI) (v : Str) (vals : List Str) (h : GoodE semi (v, vals)) :
    matchProps semi v vals = .ok (mp semi v vals) := by
  obtain ⟨hv, sps, hs, hne, hnd, f, hf, hall⟩ := h
  simp only at hv hs hf
  subst hf
  have he : (sps.map f).isEmpty = false := by cases sps <;> simp_all
  have hall' : ((sps.zip (sps.map f)).all (fun p => hsub semi.psub p.1.2 p.2)) = true := by
    rw [zip_map_self, List.all_eq_true]
    intro q hq
    obtain ⟨kv, hkv, rfl⟩ := List.mem_map.mp hq
    exact hall kv hkv
  have hk : (((sps.zip (sps.map f)).map (fun p => (p.1.1, p.2))).map (·.1)).Nodup := by
    rw [zip_map_self]; simpa [List.map_map, Function.comp_def] using hnd
  unfold matchProps mp
  simp only [he, hv, hs, hall', List.length_map]
  simp [SimpleL.mkArgs_nodup _ hk]

theorem matchAll_good (semi : SemI) : ∀ (raw : Dict (List Str)), (∀ p ∈ raw, GoodE semi p) →
    matchAll semi raw = .ok (raw.map (fun p => (p.1, mp semi p.1 p.2)))
  | [], _ => rfl
  | (v, vals) :: rest, h => by
    have ih := matchAll_good semi rest (fun p hp => h p (List.mem_cons_of_mem _ hp))
    simp [matchAll, matchProps_good semi v vals (h (v, vals) List.mem_cons_self), ih, bind, Except.bind, pure,
      Except.pure]

theorem dget_map_val {β γ} (g : Str → β → γ) (v : Str) : ∀ (raw : Dict β),
    dget (raw.map (fun p => (p.1, g p.1 p.2))) v = (dget raw v).map (g v)
  | [] => rfl
  | (k, x) :: rest => by
    by_cases hk : k = v
    · subst hk; simp [dget]
    · simp [dget, hk, dget_map_val g v rest]

theorem goodE_prepOf (semi : SemI) (vars : Dict Props) (hc : Cov semi vars) :
    ∀ p ∈ prepOf semi vars, GoodE semi p := by
  intro p hp
  obtain ⟨ps, sps, hm, hne, hs, hv⟩ := mem_prepOf semi vars p hp
  obtain ⟨hval, sps', hs', hne', hnd, hall⟩ := hc p.1 ps hm hne
  rw [hs] at hs'
  cases hs'
  exact ⟨hval, sps, hs, hne', hnd, pval ps, hv, hall⟩

theorem goodVp_prepOf (semi : SemI) (vars : Dict Props) (hc : Cov semi vars) : GoodVp (prepOf semi vars) := by
  intro p hp
  obtain ⟨_, sps, _, hne, _, f, hf, _⟩ := goodE_prepOf semi vars hc p hp
  rw [hf]
  cases sps with
  | nil => exact absurd rfl hne
  | cons _ _ => simp

theorem mp_pval (semi : SemI) (v : Str) (ps : Props) (sps : List (Str × Str))
    (hs : dget semi.vprops (varSort v) = some sps) :
    mp semi v (sps.map (pval ps)) = sps.map (fun kv => (kv.1, upper ((dget ps kv.1).getD kv.2))) := by
  unfold mp
  rw [hs]
  simp only [zip_map_self, List.map_map, Function.comp_def, pval]

end Verif.C01.IxP

namespace Verif.C01.Ix
open Verif.Codec Verif.Tables Verif.C01 Verif.C01.IxL Verif.C01.IxP

/-- the full Indexed MRS token round trip, property maps included. -/
theorem parseIx_toksIx (semi : SemI) (o : Opts) (m : MRS) (ts rest : List TI)
    (htop : m.top.isSome = true)
    (hc : ∀ e ∈ m.rels, CoverEP semi e)
    (hp : propsCover semi m = true)
    (hn : (m.vars.map (·.1)).Nodup)
    (ht : toksIx semi o m = .ok ts) :
    ∃ d, parseIx semi (ts ++ rest) = .ok (d, rest)
      ∧ d.top = m.top ∧ d.index = m.index ∧ d.rels = m.rels.map (epViewI semi o)
      ∧ d.hcons = m.hcons ∧ d.icons = m.icons ∧ d.lnk = .unspec ∧ d.surface = none ∧ d.ident = none
      ∧ ∀ v, v ∈ fillOrder m.top m.index (m.rels.map (epViewI semi o)) m.hcons m.icons →
          dget d.vars v = some (propsViewI semi o m v) := by
  have hcov := cov_of_propsCover semi m hp
  obtain ⟨vp0, hprep, hgood, hnd, hE, hdg⟩ : ∃ vp0 : Dict (List Str),
      (if o.properties then prepProps semi m.vars else .ok []) = .ok vp0 ∧ GoodVp vp0 ∧
      (vp0.map (·.1)).Nodup ∧ (∀ p ∈ vp0, GoodE semi p) ∧
      (∀ v, dget vp0 v = if o.properties = true then
        (match dget m.vars v with
         | some ps => if ps.isEmpty then none
            else (dget semi.vprops (varSort v)).map (fun sps => sps.map (pval ps))
         | none => none) else none) := by
    by_cases ho : o.properties = true
    · refine ⟨prepOf semi m.vars, ?_, goodVp_prepOf semi _ hcov, nodup_prepOf semi _ hn,
        goodE_prepOf semi _ hcov, ?_⟩
      · simp [ho, prepProps_eq semi _ hcov]
      · intro v; simp only [ho, if_true]; exact dget_prepOf semi v _ hn
    · refine ⟨[], ?_, ?_, ?_, ?_, ?_⟩
      · simp [ho]
      · intro p hp; simp at hp
      · simp
      · intro p hp; simp at hp
      · intro v; simp [ho, dget]
  obtain ⟨ix, hix, hparse⟩ := parseIx_toksIx_props semi o m ts rest vp0 htop hprep hgood hc ht
  have hasg : asgVar vp0 ix ++ asgRels semi (encVarI vp0 ix).2 m.rels = asgVars vp0 (writtenVars semi m) := by
    unfold writtenVars
    rw [hix, asgRels_eq, wvars_eq]
    rfl
  have hraw : ∀ p ∈ assignAll (asgVars vp0 (writtenVars semi m)), GoodE semi p :=
    fun p hp => hE p (mem_assignAll_asgVars _ _ p hp)
  rw [hasg, matchAll_good semi _ hraw] at hparse
  refine ⟨_, hparse, rfl, rfl, rfl, rfl, rfl, rfl, rfl, rfl, ?_⟩
  intro v hv
  show dget (fillVars _ _ _ _ _ _) v = _
  rw [dget_fillVars, dget_map_val (mp semi), dget_assignAll_asgVars v _ vp0 hnd, hdg]
  simp only [hv, if_true]
  unfold propsViewI
  by_cases ho : o.properties = true
  · by_cases hw : v ∈ writtenVars semi m
    · cases hd : dget m.vars v with
      | none => simp [ho, hw]
      | some ps =>
        by_cases he : ps.isEmpty = true
        · simp [ho, hw, he]
        · cases hs : dget semi.vprops (varSort v) with
          | none => simp [ho, hw, he]
          | some sps => simp [ho, hw, he, mp_pval semi v ps sps hs]
    · simp [ho, hw]
  · simp [ho]

/-- when the variable carries exactly the SEM-I's property names, the property map given back is
the original one up to the case of the values. -/
theorem propsViewI_same (semi : SemI) (o : Opts) (m : MRS) (v : Str) (ps : Props) (sps : List (Str × Str))
    (ho : o.properties = true) (hw : v ∈ writtenVars semi m)
    (hps : dget m.vars v = some ps) (hne : ps ≠ []) (hs : dget semi.vprops (varSort v) = some sps)
    (hnd : (sps.map (·.1)).Nodup) (hfull : ∀ K, (dget ps K).isSome = true ↔ K ∈ sps.map (·.1)) :
    ∀ K, dget (propsViewI semi o m v) K = (dget ps K).map upper := by
  intro K
  have he : ps.isEmpty = false := by cases ps <;> simp_all
  unfold propsViewI
  simp only [ho, hw, and_self, if_true, hps, he, hs, Bool.false_eq_true, if_false]
  have hk : ((sps.map (fun kv => (kv.1, upper ((dget ps kv.1).getD kv.2)))).map (·.1)).Nodup := by
    simpa [List.map_map, Function.comp_def] using hnd
  by_cases hK : K ∈ sps.map (·.1)
  · obtain ⟨x, hx⟩ := Option.isSome_iff_exists.mp ((hfull K).mpr hK)
    obtain ⟨kv, hkv, rfl⟩ := List.mem_map.mp hK
    rw [dget_of_mem_nodup _ kv.1 (upper ((dget ps kv.1).getD kv.2)) hk
      (List.mem_map.mpr ⟨kv, hkv, rfl⟩)]
    simp [hx]
  · have hnone : dget ps K = none := by
      cases hd : dget ps K with
      | none => rfl
      | some x => exact absurd ((hfull K).mp (by simp [hd])) hK
    rw [hnone, dget_eq_none_of_not_mem]
    · rfl
    · simpa [List.map_map, Function.comp_def] using hK

end Verif.C01.Ix
