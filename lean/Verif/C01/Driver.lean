/- C01 line-protocol driver: `lake env lean --run Verif/C01/Driver.lean` -/
import Verif.Common.Proto
import Verif.C01.Model
import Verif.C01.Indexed
import Verif.C01.Lexer
import Verif.C01.LexSpec
import Verif.C01.IxLexer
import Verif.C01.LayoutSpec
import Verif.C01.Docs
import Verif.C01.IxLayout
import Verif.C01.MrxText
open Lean Verif.Proto Verif.Codec Verif.C01

namespace Verif.C01.Driver

def jLnkOut : Lnk → Json
  | .unspec => Json.null
  | .charspan a b => Json.mkObj [("c", jList jInt [a, b])]
  | .chartspan a b => Json.mkObj [("v", jList jInt [a, b])]
  | .tokens ts => Json.mkObj [("t", jList jInt ts)]
  | .edge n => Json.mkObj [("e", jInt n)]

def ofLnk (j : Json) : Except String Lnk :=
  match j with
  | Json.null => pure .unspec
  | _ =>
    match j.getObjVal? "c" with
    | .ok v => do
      let a ← v.getArr?
      match a.toList with
      | [x, y] => pure (.charspan (← x.getInt?) (← y.getInt?))
      | _ => throw "bad c"
    | .error _ =>
      match j.getObjVal? "v" with
      | .ok v => do
        let a ← v.getArr?
        match a.toList with
        | [x, y] => pure (.chartspan (← x.getInt?) (← y.getInt?))
        | _ => throw "bad v"
      | .error _ =>
        match j.getObjVal? "t" with
        | .ok v => do pure (.tokens (← (← v.getArr?).toList.mapM (·.getInt?)))
        | .error _ => do pure (.edge (← (← j.getObjVal? "e").getInt?))

def jPairs (d : Dict Str) : Json := jList (fun kv => Json.arr #[cps kv.1, cps kv.2]) d

def ofPairs (j : Json) : Except String (Dict Str) := do
  (← j.getArr?).toList.mapM (fun p => do
    let a ← p.getArr?
    match a.toList with
    | [k, v] => pure (← ofCps k, ← ofCps v)
    | _ => throw "bad pair")

def jEP (e : EP) : Json :=
  Json.mkObj [("pred", cps e.pred), ("label", cps e.label), ("args", jPairs e.args), ("lnk", jLnkOut e.lnk),
              ("surface", optCps e.surface), ("base", optCps e.base)]

def ofEP (j : Json) : Except String EP := do
  pure { pred := ← getCps j "pred", label := ← getCps j "label", args := ← ofPairs (← j.getObjVal? "args"),
         lnk := ← ofLnk (← j.getObjVal? "lnk"), surface := ← getOptCps j "surface", base := ← getOptCps j "base" }

def jCons (c : Cons) : Json := Json.arr #[cps c.lhs, cps c.rel, cps c.rhs]

def ofCons (j : Json) : Except String Cons := do
  match (← j.getArr?).toList with
  | [a, b, c] => pure { lhs := ← ofCps a, rel := ← ofCps b, rhs := ← ofCps c }
  | _ => throw "bad cons"

def jMRS (m : MRS) : Json :=
  Json.mkObj [("top", optCps m.top), ("index", optCps m.index), ("rels", jList jEP m.rels),
              ("hcons", jList jCons m.hcons), ("icons", jList jCons m.icons),
              ("vars", jList (fun vp => Json.arr #[cps vp.1, jPairs vp.2]) m.vars),
              ("lnk", jLnkOut m.lnk), ("surface", optCps m.surface), ("ident", optCps m.ident)]

def ofMRS (j : Json) : Except String MRS := do
  let vars ← (← getArr j "vars").mapM (fun p => do
    match (← p.getArr?).toList with
    | [k, v] => pure (← ofCps k, ← ofPairs v)
    | _ => throw "bad var")
  -- the wire form lists the constructor arguments; the object is what `MRS.__init__` makes of them
  pure (mkMRS (← getOptCps j "top") (← getOptCps j "index")
         (← (← getArr j "rels").mapM ofEP) (← (← getArr j "hcons").mapM ofCons)
         (← (← getArr j "icons").mapM ofCons) vars
         (← ofLnk (← j.getObjVal? "lnk")) (← getOptCps j "surface") (← getOptCps j "ident"))

def kName : K → String
  | .lbrack => "LBRACK" | .rbrack => "RBRACK" | .lnk => "LNK" | .dq => "DQSTRING" | .sq => "SQSYMBOL"
  | .pred => "PREDICATE" | .langle => "LANGLE" | .rangle => "RANGLE" | .feature => "FEATURE" | .symbol => "SYMBOL"

def ofK (s : String) : Except String K :=
  match s with
  | "LBRACK" => pure .lbrack | "RBRACK" => pure .rbrack | "LNK" => pure .lnk | "DQSTRING" => pure .dq
  | "SQSYMBOL" => pure .sq | "PREDICATE" => pure .pred | "LANGLE" => pure .langle | "RANGLE" => pure .rangle
  | "FEATURE" => pure .feature | "SYMBOL" => pure .symbol | _ => throw s!"bad kind {s}"

def jTok (t : T) : Json := Json.arr #[Json.str (kName t.kind), cps t.text]
def jToks (ts : List T) : Json := jList jTok ts

def ofTok (j : Json) : Except String T := do
  match (← j.getArr?).toList with
  | [k, s] => pure ⟨← ofK (← k.getStr?), ← ofCps s⟩
  | _ => throw "bad tok"

def eName : E → String
  | .syntax => "MRSSyntaxError" | .eof => "StopIteration" | .value => "ValueError"

partial def jJ : J → Json
  | .null => Json.null
  | .str s => Json.mkObj [("s", cps s)]
  | .int i => Json.mkObj [("i", jInt i)]
  | .arr xs => Json.mkObj [("a", Json.arr (xs.map jJ).toArray)]
  | .obj kvs => Json.mkObj [("o", Json.arr (kvs.map (fun kv => Json.arr #[cps kv.1, jJ kv.2])).toArray)]

partial def jXml : Xml → Json
  | .node tag attrs text cs =>
    Json.mkObj [("t", Json.str tag),
                ("a", Json.arr (attrs.map (fun kv => Json.arr #[Json.str kv.1, cps kv.2])).toArray),
                ("x", match text with | some (c :: r) => cps (c :: r) | _ => Json.null),
                ("c", Json.arr (cs.map jXml).toArray)]

def kiName : Ix.KI → String
  | .lnk => "LNK" | .dq => "DQSTRING" | .langle => "LANGLE" | .rangle => "RANGLE" | .lbrace => "LBRACE"
  | .rbrace => "RBRACE" | .lparen => "LPAREN" | .rparen => "RPAREN" | .comma => "COMMA" | .colon => "COLON"
  | .symbol => "SYMBOL"

def jToksI (ts : List Ix.TI) : Json := jList (fun t => Json.arr #[Json.str (kiName t.kind), cps t.text]) ts

def eiName : Ix.EI → String
  | .syntax => "MRSSyntaxError" | .eof => "StopIteration" | .semi => "SemIError" | .key => "KeyError"
  | .value => "ValueError" | .assertion => "AssertionError" | .type_ => "TypeError"

def ofStrLists (j : Json) : Except String (Dict (List Str)) := do
  (← j.getArr?).toList.mapM (fun p => do
    match (← p.getArr?).toList with
    | [k, v] => pure (← ofCps k, ← (← v.getArr?).toList.mapM ofCps)
    | _ => throw "bad pair")

def ofSemI (j : Json) : Except String Ix.SemI := do
  let preds ← (← getArr j "preds").mapM (fun p => do
    match (← p.getArr?).toList with
    | [k, syns] => do
      let ss ← (← syns.getArr?).toList.mapM (fun syn => do
        (← syn.getArr?).toList.mapM (fun r => do
          match (← r.getArr?).toList with
          | [n, v, o] => pure ({ name := ← ofCps n, value := ← ofCps v, optional := ← o.getBool? } : Ix.SynRole)
          | _ => throw "bad role"))
      pure (← ofCps k, ss)
    | _ => throw "bad pred")
  let vprops ← (← getArr j "vprops").mapM (fun p => do
    match (← p.getArr?).toList with
    | [k, v] => pure (← ofCps k, ← ofPairs v)
    | _ => throw "bad vprops")
  pure { preds, vprops, sub := ← ofStrLists (← j.getObjVal? "sub"), psub := ← ofStrLists (← j.getObjVal? "psub") }

/-- the items of a list-API request (`ms`; absent in old replays: no list part). -/
def getMs (j : Json) : Except String (Option (List MRS)) :=
  match j.getObjVal? "ms" with
  | .ok v => do pure (some (← (← v.getArr?).toList.mapM ofMRS))
  | .error _ => pure none

def withList (base : Json) (l : Option Json) : Json :=
  match l with
  | none => base
  | some l => base.setObjVal! "list" l

/-- dumps/loads (SimpleMRS): the tokens of all items in a row, the single-line text, the list decoder. -/
def simpleList (o : Opts) (ms : List MRS) : Json :=
  if !(ms.all (simpleEncodable o)) then jErr "ValueError" else
  let ts := ms.flatMap (toks o)
  Json.mkObj [("toks", jToks ts), ("text", cps (Lex.render ts)),
              ("textind", cps (Lex.renderIndMany o ms)),
              ("dec", match parseMany (ts.length + 1) ts with
                      | .ok ds => jList jMRS ds
                      | .error e => jErr (eName e))]

def jsonList (o : Opts) (ms : List MRS) : Json :=
  if !(ms.all jsonEncodable) then jErr "ValueError" else
  let d := toDictList o ms
  Json.mkObj [("dict", jJ d), ("dec", match fromDictList d with
                                      | some rs => jList jMRS rs
                                      | none => jErr "Exception")]

def mrxTexts (off n : Nat) (x : Xml) : List (String × Json) :=
  [("text", cps (MrxT.mrxText none off x)), ("textind", cps (MrxT.mrxText (some 0) off x)),
   ("textindn", cps (MrxT.mrxText (some n) off x))]

def mrxList (o : Opts) (n : Nat) (ms : List MRS) : Json :=
  if !(ms.all mrxEncodable) then jErr "ValueError" else
  let x := toXmlList o ms
  Json.mkObj (mrxTexts 1 n x ++ [("xml", jXml x), ("dec", match ofXmlList x with
                                       | some rs => jList jMRS rs
                                       | none => jErr "Exception"),
              -- `loads` of a single-item text (`encode`): the root is the `mrs` element itself
              ("dec1", match ms with
                       | m :: _ => (match ofXmlList (toXml o m) with
                                    | some rs => jList jMRS rs
                                    | none => jErr "Exception")
                       | [] => Json.null)])

def indexedList (semi : Ix.SemI) (o : Opts) (n : Nat) (ms : List MRS) : Json :=
  match ms.mapM (Ix.toksIx semi o) with
  | .error e => jErr (eiName e)
  | .ok tss =>
    let ts := tss.flatten
    Json.mkObj [("toks", jToksI ts), ("text", cps (IxLex.renderIxDoc ts)),
                ("textind", cps (IxLex.renderIxInd 2 ts)), ("textindn", cps (IxLex.renderIxInd n ts)),
                ("dec", match Ix.parseManyIx semi (ts.length + 1) ts with
                        | .ok ds => jList jMRS ds
                        | .error e => jErr (eiName e))]

def firstM (j : Json) (ms : Option (List MRS)) : Except String (Option MRS) :=
  match j.getObjVal? "m" with
  | .ok v => do pure (some (← ofMRS v))
  | .error _ => pure (ms.bind List.head?)

def getOpts (j : Json) : Except String Opts := do
  pure { properties := ← getBool j "props", lnk := ← getBool j "lnk" }

def handle (j : Json) : Except String Json := do
  let op ← getStr j "op"
  match op with
  | "simple" => do
    let ms ← getMs j
    let o ← getOpts j
    let l := ms.map (simpleList o)
    match (← firstM j ms) with
    | none => pure (withList (Json.mkObj [("empty", Json.bool true)]) l)
    | some m =>
    if !simpleEncodable o m then pure (withList (jErr "ValueError") l) else
    let ts := toks o m
    match parse ts with
    | .error e => pure (withList (Json.mkObj [("toks", jToks ts), ("text", cps (Lex.render ts)), ("textind", cps (Lex.renderInd o m)), ("dec", jErr (eName e))]) l)
    | .ok (d, rest) =>
      pure (withList (Json.mkObj [("toks", jToks ts), ("text", cps (Lex.render ts)), ("textind", cps (Lex.renderInd o m)), ("dec", jMRS d), ("rest", jNat rest.length),
                        ("retoks", if simpleEncodable o d then jToks (toks o d) else jErr "ValueError")]) l)
  | "parse" => do
    let ts ← (← getArr j "toks").mapM ofTok
    let one := match parse ts with
      | .ok (d, _) => jOk (jMRS d)
      | .error e => jErr (eName e)
    let many := match parseMany (ts.length + 1) ts with
      | .ok ds => jOk (jList jMRS ds)
      | .error e => jErr (eName e)
    pure (Json.mkObj [("one", one), ("many", many)])
  | "json" => do
    let ms ← getMs j
    let o ← getOpts j
    let l := ms.map (jsonList o)
    match (← firstM j ms) with
    | none => pure (withList (Json.mkObj [("empty", Json.bool true)]) l)
    | some m =>
    if !jsonEncodable m then pure (withList (jErr "ValueError") l) else
    let d := toDict o m
    match fromDict d with
    | none => pure (withList (Json.mkObj [("dict", jJ d), ("dec", jErr "Exception")]) l)
    | some r => pure (withList (Json.mkObj [("dict", jJ d), ("dec", jMRS r),
                                   ("redict", if jsonEncodable r then jJ (toDict o r) else jErr "ValueError")]) l)
  | "mrx" => do
    let ms ← getMs j
    let o ← getOpts j
    let n := (match j.getObjVal? "n" with | .ok v => (v.getNat?.toOption.getD 3) | .error _ => 3)
    let l := ms.map (mrxList o n)
    match (← firstM j ms) with
    | none => pure (withList (Json.mkObj [("empty", Json.bool true)]) l)
    | some m =>
    if !mrxEncodable m then pure (withList (jErr "ValueError") l) else
    let x := toXml o m
    match ofXml x with
    | none => pure (withList (Json.mkObj (mrxTexts 0 n x ++ [("xml", jXml x), ("dec", jErr "Exception")])) l)
    | some r => pure (withList (Json.mkObj (mrxTexts 0 n x ++ [("xml", jXml x), ("dec", jMRS r),
                                   ("rexml", if mrxEncodable r then jXml (toXml o r) else jErr "ValueError")])) l)
  | "indexed" => do
    let ms ← getMs j
    let o ← getOpts j
    let semi ← ofSemI (← j.getObjVal? "semi")
    let n := (match j.getObjVal? "n" with | .ok v => (v.getNat?.toOption.getD 3) | .error _ => 3)
    let l := ms.map (indexedList semi o n)
    match (← firstM j ms) with
    | none => pure (withList (Json.mkObj [("empty", Json.bool true)]) l)
    | some m =>
    match Ix.toksIx semi o m with
    | .error e => pure (withList (jErr (eiName e)) l)
    | .ok ts =>
      match Ix.parseIx semi ts with
      | .error e => pure (withList (Json.mkObj [("toks", jToksI ts), ("text", cps (IxLex.renderIx ts)),
                                               ("textind", cps (IxLex.renderIxInd 2 ts)), ("textindn", cps (IxLex.renderIxInd n ts)),
                                               ("dec", jErr (eiName e))]) l)
      | .ok (d, rest) =>
        pure (withList (Json.mkObj [("toks", jToksI ts), ("text", cps (IxLex.renderIx ts)),
                          ("textind", cps (IxLex.renderIxInd 2 ts)), ("textindn", cps (IxLex.renderIxInd n ts)),
                          ("dec", jMRS d), ("rest", jNat rest.length),
                          ("retoks", match Ix.toksIx semi o d with
                                     | .ok ts2 => jToksI ts2
                                     | .error e => jErr (eiName e))]) l)
  | "lexix" => do
    let s ← getCps j "s"
    match IxLex.lexIx s with
    | some ts => pure (jOk (jToksI ts))
    | none => pure (jErr "MRSSyntaxError")
  | "lex" => do
    let s ← getCps j "s"
    match Lex.lex s with
    | some ts => pure (jOk (jToks ts))
    | none => pure (jErr "MRSSyntaxError")
  | "lnk" => do
    let s ← getCps j "s"
    match Lnk.parse s with
    | .ok l => pure (Json.mkObj [("ok", jLnkOut l), ("str", cps l.str)])
    | .error .lnkError => pure (jErr "LnkError")
    | .error .valueError => pure (jErr "ValueError")
  | "esc" => do
    let s ← getCps j "s"
    pure (Json.mkObj [("esc", cps (escapeDQ s)), ("unesc", cps (unescapeDQ s)),
                      ("scan", match scanDQ s with
                               | some (a, r) => Json.arr #[cps a, cps r]
                               | none => Json.null),
                      ("norm", cps (normalizePred s)), ("quote", Json.bool (needsQuote s)),
                      ("surface", Json.bool (isSurface (stripPred s))), ("abstract", Json.bool (isAbstract (stripPred s)))])
  | _ => throw s!"bad op {op}"

end Verif.C01.Driver

def main : IO Unit := Verif.Proto.serve Verif.C01.Driver.handle
