/-
C01 — re-encode stability of MRX at tree level: `toXml o (decodedX o m) = toXml o m`
(the analogue of `toks_decodedS`, reusing its congruence machinery).
-/
import Verif.C01.MrxLemmas
import Verif.C01.StableLemmas

namespace Verif.C01.MrxS
open Verif.Codec Verif.Tables Verif.C01 Verif.C01.SimpleL Verif.C01.StableL Verif.C01.MrxL

/-- the property list MRX gives back for `v`. -/
def propsViewX (o : Opts) (m : MRS) (v : Str) : Props :=
  if o.properties = true ∧ v ∈ varPositionsX m then
    (match dget m.vars v with | some ps => sortProps ps | none => [])
  else []

theorem blocksOf_mentionsX (o : Opts) (m : MRS) (v : Str) (hn : (m.vars.map (·.1)).Nodup) :
    blocksOf v (mentionsX o m) = propsViewX o m v := by
  unfold mentionsX propsViewX
  cases hp : o.properties with
  | true =>
    simp only [if_true, true_and]
    rw [blocksOf_mentVars m.vars (varPositionsX m) v hn]
    by_cases hc : v ∈ varPositionsX m
    · rw [if_pos hc, if_pos hc]; cases dget m.vars v <;> rfl
    · rw [if_neg hc, if_neg hc]
  | false =>
    simp only [Bool.false_eq_true, if_false, false_and]
    rw [blocksOf_mentVars [] (varPositionsX m) v (by simp)]
    split <;> simp [dget]

theorem propsViewX_keys_nodup (o : Opts) (m : MRS) (v : Str)
    (hp : ∀ vp ∈ m.vars, (vp.2.map (·.1)).Nodup) : ((propsViewX o m v).map (·.1)).Nodup := by
  unfold propsViewX
  split
  · split
    · rename_i ps hd
      exact sortProps_keys_nodup ps (hp _ (mem_of_dget _ _ _ hd))
    · exact List.nodup_nil
  · exact List.nodup_nil

theorem decodedX_vars (o : Opts) (m : MRS) (v : Str)
    (hn : (m.vars.map (·.1)).Nodup) (hp : ∀ vp ∈ m.vars, (vp.2.map (·.1)).Nodup)
    (hv : v ∈ fillOrder m.top m.index (m.rels.map (epViewX o)) m.hcons m.icons) :
    dget (decodedX o m).vars v = some (propsViewX o m v) := by
  unfold decodedX mkMRS
  simp only
  rw [dget_fillVars, dget_varsOfMentions]
  have hb := blocksOf_mentionsX o m v hn
  by_cases hany : (mentionsX o m).any (fun x => x.1 = v) = true
  · simp only [hany, if_true]
    rw [hb, setAll_nil_nodup _ (propsViewX_keys_nodup o m v hp)]
  · have hany' : (mentionsX o m).any (fun x => x.1 = v) = false := by
      cases h : (mentionsX o m).any (fun x => x.1 = v) with
      | true => exact absurd h hany
      | false => rfl
    have h0 := blocksOf_not_any v (mentionsX o m) hany'
    rw [hb] at h0
    simp only [hany', Bool.false_eq_true, if_false, hv, if_true, h0]

theorem nodup_decodedX (o : Opts) (m : MRS) : ((decodedX o m).vars.map (·.1)).Nodup := by
  unfold decodedX mkMRS fillVars varsOfMentions
  exact nodup_foldl_declare _ _ (nodup_foldl_applyMention _ _ (by simp))

/-! ### congruence of the tree encoder in the property dictionary -/

theorem mentVar_block (vp : Dict Props) (v : Str) : (mentVar vp v).1.2 = blockOf vp v := by
  unfold mentVar blockOf
  cases h : dget vp v with
  | none => rfl
  | some ps =>
    cases ps with
    | nil => rfl
    | cons a b => rfl

theorem xVar_congr (vs : List Str) (vp vp' : Dict Props) (v : Str) (h : Rel vs vp vp') (hv : v ∈ vs) :
    (xVar vp v).1 = (xVar vp' v).1 ∧ Rel vs (xVar vp v).2 (xVar vp' v).2 := by
  have hc := encVar_congr vs vp vp' v h hv
  refine ⟨?_, ?_⟩
  · rw [xVar_fst, xVar_fst, mentVar_block, mentVar_block, h.2.2 v hv]
  · rw [xVar_snd, xVar_snd, ← encVar_snd, ← encVar_snd]; exact hc.2

theorem xArgs_congr (vs : List Str) : ∀ (as : Dict Str) (vp vp' : Dict Props), Rel vs vp vp' →
    (∀ a ∈ as, a.1 ≠ CARG → a.2 ∈ vs) →
    (xArgs vp as).1 = (xArgs vp' as).1 ∧ Rel vs (xArgs vp as).2 (xArgs vp' as).2 := by
  intro as
  induction as with
  | nil => intro vp vp' h _; exact ⟨rfl, h⟩
  | cons a rest ih =>
    intro vp vp' h hs
    obtain ⟨role, val⟩ := a
    have hrest : ∀ a ∈ rest, a.1 ≠ CARG → a.2 ∈ vs := fun a ha => hs a (List.mem_cons_of_mem _ ha)
    by_cases hc : role = CARG
    · subst hc
      rw [xArgs_carg, xArgs_carg]
      obtain ⟨i1, i2⟩ := ih vp vp' h hrest
      exact ⟨by simp only [i1], i2⟩
    · rw [xArgs_var _ _ _ _ hc, xArgs_var _ _ _ _ hc]
      obtain ⟨e1, e2⟩ := xVar_congr vs vp vp' val h (hs (role, val) List.mem_cons_self hc)
      obtain ⟨i1, i2⟩ := ih _ _ e2 hrest
      exact ⟨by simp only [e1, i1], i2⟩

theorem xEp_congr (o : Opts) (vs : List Str) (vp vp' : Dict Props) (e : EP) (h : Rel vs vp vp')
    (hs : ∀ w ∈ epVarPos e, w ∈ vs) :
    (xEp o vp e).1 = (xEp o vp' e).1 ∧ Rel vs (xEp o vp e).2 (xEp o vp' e).2 := by
  rw [xEp_eq, xEp_eq]
  obtain ⟨i1, i2⟩ := xArgs_congr vs (sortArgs e.args) vp vp' h
    (fun a ha hc => hs _ (mem_epVarPos e a ha hc))
  exact ⟨by simp only [i1], i2⟩

theorem xEps_congr (o : Opts) (vs : List Str) : ∀ (eps : List EP) (vp vp' : Dict Props), Rel vs vp vp' →
    (∀ e ∈ eps, ∀ w ∈ epVarPos e, w ∈ vs) →
    (xEps o vp eps).1 = (xEps o vp' eps).1 ∧ Rel vs (xEps o vp eps).2 (xEps o vp' eps).2 := by
  intro eps
  induction eps with
  | nil => intro vp vp' h _; exact ⟨rfl, h⟩
  | cons e rest ih =>
    intro vp vp' h hs
    rw [xEps_cons, xEps_cons]
    obtain ⟨e1, e2⟩ := xEp_congr o vs vp vp' e h (hs e List.mem_cons_self)
    obtain ⟨i1, i2⟩ := ih _ _ e2 (fun x hx => hs x (List.mem_cons_of_mem _ hx))
    exact ⟨by simp only [e1, i1], i2⟩

theorem xHcons_congr (vs : List Str) : ∀ (cs : List Cons) (vp vp' : Dict Props), Rel vs vp vp' →
    (∀ c ∈ cs, c.lhs ∈ vs) →
    (xHcons vp cs).1 = (xHcons vp' cs).1 ∧ Rel vs (xHcons vp cs).2 (xHcons vp' cs).2 := by
  intro cs
  induction cs with
  | nil => intro vp vp' h _; exact ⟨rfl, h⟩
  | cons c rest ih =>
    intro vp vp' h hs
    rw [xHcons_cons, xHcons_cons]
    obtain ⟨e1, e2⟩ := xVar_congr vs vp vp' c.lhs h (hs c List.mem_cons_self)
    obtain ⟨i1, i2⟩ := ih _ _ e2 (fun x hx => hs x (List.mem_cons_of_mem _ hx))
    exact ⟨by simp only [e1, i1], i2⟩

theorem xIcons_congr (vs : List Str) : ∀ (cs : List Cons) (vp vp' : Dict Props), Rel vs vp vp' →
    (∀ c ∈ cs, c.lhs ∈ vs ∧ c.rhs ∈ vs) →
    (xIcons vp cs).1 = (xIcons vp' cs).1 := by
  intro cs
  induction cs with
  | nil => intro vp vp' _ _; rfl
  | cons c rest ih =>
    intro vp vp' h hs
    rw [xIcons_cons, xIcons_cons]
    obtain ⟨e1, e2⟩ := xVar_congr vs vp vp' c.lhs h (hs c List.mem_cons_self).1
    obtain ⟨f1, f2⟩ := xVar_congr vs _ _ c.rhs e2 (hs c List.mem_cons_self).2
    have i1 := ih _ _ f2 (fun x hx => hs x (List.mem_cons_of_mem _ hx))
    simp only [e1, f1, i1]

/-! ### the EP view is invisible to the encoder -/

theorem xEp_view (o : Opts) (vp : Dict Props) (e : EP) : xEp o vp (epViewX o e) = xEp o vp e := by
  rw [xEp_eq, xEp_eq]
  unfold epViewX
  simp only [sortArgs_idem]
  cases ho : o.lnk with
  | false => simp [lnkAttrs, ho]
  | true => simp [lnkAttrs, ho, Lnk.cfrom, Lnk.cto]

theorem xEps_view (o : Opts) : ∀ (eps : List EP) (vp : Dict Props),
    xEps o vp (eps.map (epViewX o)) = xEps o vp eps := by
  intro eps
  induction eps with
  | nil => intro vp; rfl
  | cons e rest ih =>
    intro vp
    rw [List.map_cons, xEps_cons, xEps_cons, xEp_view, ih]

theorem varPositionsX_sub_fillOrder (o : Opts) (m : MRS) (w : Str) (hw : w ∈ varPositionsX m) :
    w ∈ fillOrder m.top m.index (m.rels.map (epViewX o)) m.hcons m.icons := by
  unfold varPositionsX at hw
  unfold fillOrder
  simp only [List.mem_append, List.mem_flatMap, List.mem_map] at hw ⊢
  rcases hw with ((hw | ⟨e, he, hwe⟩) | ⟨c, hc, rfl⟩) | ⟨c, hc, hwc⟩
  · exact Or.inl (Or.inl (Or.inl (Or.inr hw)))
  · refine Or.inl (Or.inl (Or.inr ⟨epViewX o e, ⟨e, he, rfl⟩, ?_⟩))
    exact List.mem_cons_of_mem _ hwe
  · exact Or.inl (Or.inr ⟨c, hc, by simp⟩)
  · exact Or.inr ⟨c, hc, hwc⟩

theorem rel_initX (o : Opts) (m : MRS)
    (hn : (m.vars.map (·.1)).Nodup) (hp : ∀ vp ∈ m.vars, (vp.2.map (·.1)).Nodup) :
    Rel (varPositionsX m) (if o.properties then (decodedX o m).vars else []) (if o.properties then m.vars else []) := by
  cases hprop : o.properties with
  | false => exact ⟨by simp, by simp, fun w _ => rfl⟩
  | true =>
    simp only [if_true]
    refine ⟨nodup_decodedX o m, hn, ?_⟩
    intro w hw
    have hd := decodedX_vars o m w hn hp (varPositionsX_sub_fillOrder o m w hw)
    unfold blockOf
    rw [hd]
    unfold propsViewX
    simp only [hprop, hw, and_self, if_true]
    cases dget m.vars w with
    | none => rfl
    | some ps => exact sortProps_idem ps

end Verif.C01.MrxS

namespace Verif.C01
open Verif.Codec Verif.Tables Verif.C01.SimpleL Verif.C01.StableL Verif.C01.MrxL Verif.C01.MrxS

/-- "encoding that result again reproduces the text exactly" (MRX, tree level). -/
theorem toXml_decodedX (o : Opts) (m : MRS)
    (hn : (m.vars.map (·.1)).Nodup) (hp : ∀ vp ∈ m.vars, (vp.2.map (·.1)).Nodup) :
    toXml o (decodedX o m) = toXml o m := by
  rw [toXml_eq o (decodedX o m) _ rfl, toXml_eq o m _ rfl]
  have hr := rel_initX o m hn hp
  have htop : (decodedX o m).top = m.top := rfl
  have hix : (decodedX o m).index = m.index := rfl
  have hrels : (decodedX o m).rels = m.rels.map (epViewX o) := rfl
  have hhc : (decodedX o m).hcons = m.hcons := rfl
  have hic : (decodedX o m).icons = m.icons := rfl
  have hattr : mrsAttrs o (decodedX o m) = mrsAttrs o m := by
    unfold mrsAttrs decodedX mkMRS
    cases ho : o.lnk <;> simp [ho, Lnk.cfrom, Lnk.cto]
  rw [htop, hix, hrels, hhc, hic, hattr, xEps_view]
  -- index
  have hixc : (ixPair (if o.properties then (decodedX o m).vars else []) m.index).1
        = (ixPair (if o.properties then m.vars else []) m.index).1
      ∧ Rel (varPositionsX m) (ixPair (if o.properties then (decodedX o m).vars else []) m.index).2
          (ixPair (if o.properties then m.vars else []) m.index).2 := by
    cases hi : m.index with
    | none => exact ⟨rfl, hr⟩
    | some i =>
      have hmem : i ∈ varPositionsX m := by unfold varPositionsX; simp [hi]
      obtain ⟨a, b⟩ := xVar_congr _ _ _ i hr hmem
      exact ⟨by simp only [ixPair, a], b⟩
  obtain ⟨i1, i2⟩ := hixc
  obtain ⟨r1, r2⟩ := xEps_congr o (varPositionsX m) m.rels _ _ i2
    (fun e he w hw => by unfold varPositionsX; simp only [List.mem_append, List.mem_flatMap]; exact Or.inl (Or.inl (Or.inr ⟨e, he, hw⟩)))
  obtain ⟨h1, h2⟩ := xHcons_congr (varPositionsX m) m.hcons _ _ r2
    (fun c hc => by unfold varPositionsX; simp only [List.mem_append, List.mem_map]; exact Or.inl (Or.inr ⟨c, hc, rfl⟩))
  have c1 := xIcons_congr (varPositionsX m) m.icons _ _ h2
    (fun c hc => by
      unfold varPositionsX
      simp only [List.mem_append, List.mem_flatMap]
      exact ⟨Or.inr ⟨c, hc, by simp⟩, Or.inr ⟨c, hc, by simp⟩⟩)
  rw [i1, r1, h1, c1]

end Verif.C01
