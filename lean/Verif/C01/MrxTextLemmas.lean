/-
C01 — MRX text level: what the writer's escaping guarantees and what `_tostring`'s indentation may change.
-/
import Verif.C01.MrxText

namespace Verif.C01.MrxT
open Verif.Codec Verif.Tables Verif.C01

theorem escCdata_no_markup (s : Str) : ∀ c ∈ escCdata s, c ≠ '<' ∧ c ≠ '>' := by
  intro c hc
  simp only [escCdata, List.mem_flatMap] at hc
  obtain ⟨x, _, hx⟩ := hc
  split at hx
  · have : c ∈ ['&', 'a', 'm', 'p', ';'] := hx
    simp at this; rcases this with rfl | rfl | rfl | rfl | rfl <;> decide
  · split at hx
    · have : c ∈ ['&', 'l', 't', ';'] := hx
      simp at this; rcases this with rfl | rfl | rfl | rfl <;> decide
    · split at hx
      · have : c ∈ ['&', 'g', 't', ';'] := hx
        simp at this; rcases this with rfl | rfl | rfl | rfl <;> decide
      · simp at hx; subst hx
        rename_i h1 h2 h3
        exact ⟨h2, h3⟩

theorem escAttr_no_markup (s : Str) : ∀ c ∈ escAttr s, c ≠ '<' ∧ c ≠ '>' ∧ c ≠ '"' := by
  intro c hc
  simp only [escAttr, List.mem_flatMap] at hc
  obtain ⟨x, _, hx⟩ := hc
  split at hx
  · have : c ∈ ['&', 'a', 'm', 'p', ';'] := hx
    simp at this; rcases this with rfl | rfl | rfl | rfl | rfl <;> decide
  · split at hx
    · have : c ∈ ['&', 'l', 't', ';'] := hx
      simp at this; rcases this with rfl | rfl | rfl | rfl <;> decide
    · split at hx
      · have : c ∈ ['&', 'g', 't', ';'] := hx
        simp at this; rcases this with rfl | rfl | rfl | rfl <;> decide
      · split at hx
        · have : c ∈ ['&', 'q', 'u', 'o', 't', ';'] := hx
          simp at this; rcases this with rfl | rfl | rfl | rfl | rfl | rfl <;> decide
        · split at hx
          · have : c ∈ ['&', '#', '1', '3', ';'] := hx
            simp at this; rcases this with rfl | rfl | rfl | rfl | rfl <;> decide
          · split at hx
            · have : c ∈ ['&', '#', '1', '0', ';'] := hx
              simp at this; rcases this with rfl | rfl | rfl | rfl | rfl <;> decide
            · split at hx
              · have : c ∈ ['&', '#', '0', '9', ';'] := hx
                simp at this; rcases this with rfl | rfl | rfl | rfl | rfl <;> decide
              · simp at hx; subst hx
                rename_i h1 h2 h3 h4 h5 h6 h7
                exact ⟨h2, h3, h4⟩

/-! ### the indentation only inserts white space directly before a `<` -/

def Blk (g : Str) : Prop := ∀ c ∈ g, c = ' ' ∨ c = '\n'

/-- `Ins s t`: `t` is `s` with runs of blanks and line feeds inserted directly before some `<` characters. -/
inductive Ins : Str → Str → Prop where
  | nil : Ins [] []
  | keep (c : Char) {s t : Str} : Ins s t → Ins (c :: s) (c :: t)
  | ins {g s t : Str} : Blk g → Ins ('<' :: s) t → Ins ('<' :: s) (g ++ t)

theorem Ins.refl : ∀ s : Str, Ins s s
  | [] => .nil
  | c :: s => .keep c (Ins.refl s)

theorem Ins.keeps : ∀ (m : Str) {s t : Str}, Ins s t → Ins (m ++ s) (m ++ t)
  | [], _, _, h => h
  | c :: m, _, _, h => .keep c (Ins.keeps m h)

theorem pre_spec {p : String} {s r : Str} (h : pre p s = some r) : s = p.toList ++ r := by
  unfold pre at h
  split at h
  · rename_i hp
    simp only [Option.some.injEq] at h
    rw [List.isPrefixOf_iff_prefix, List.prefix_iff_eq_append] at hp
    rw [← h]; exact hp.symm
  · cases h

theorem preCls_spec {p : String} {f : Char → Bool} {s m r : Str} (h : preCls p f s = some (m, r)) :
    s = m ++ r ∧ ∃ c, m = p.toList ++ [c] := by
  unfold preCls at h
  split at h
  · rename_i c r0 hp
    split at h
    · simp only [Option.some.injEq, Prod.mk.injEq] at h
      obtain ⟨rfl, rfl⟩ := h
      exact ⟨by rw [pre_spec hp]; simp, c, rfl⟩
    · cases h
  · cases h

/-- a match is a prefix of the text and begins with `<`. -/
def Good (s : Str) (x : Nat × Str × Str) : Prop := s = x.2.1 ++ x.2.2 ∧ ∃ m', x.2.1 = '<' :: m'

theorem lit_good {g : Nat} {p : String} {s : Str} {x : Nat × Str × Str} (hp : ∃ m', p.toList = '<' :: m')
    (h : lit g p s = some x) : Good s x := by
  unfold lit at h
  cases hq : pre p s with
  | none => rw [hq] at h; cases h
  | some r =>
    rw [hq] at h
    simp only [Option.map_some, Option.some.injEq] at h
    subst h
    exact ⟨pre_spec hq, hp⟩

theorem cls_good {g : Nat} {p : String} {f : Char → Bool} {s : Str} {x : Nat × Str × Str}
    (hp : ∃ m', p.toList = '<' :: m') (h : cls g p f s = some x) : Good s x := by
  unfold cls at h
  cases hq : preCls p f s with
  | none => rw [hq] at h; cases h
  | some mr =>
    rw [hq] at h
    simp only [Option.map_some, Option.some.injEq] at h
    subst h
    obtain ⟨h1, c, h2⟩ := preCls_spec (m := mr.1) (r := mr.2) hq
    obtain ⟨m', hm⟩ := hp
    exact ⟨h1, m' ++ [c], by simp [h2, hm]⟩

theorem icons_good {s : Str} {x : Nat × Str × Str} (h : iconsAlt s = some x) : Good s x := by
  unfold iconsAlt at h
  split at h
  · rename_i m r hq
    simp only [Option.some.injEq] at h
    subst h
    obtain ⟨h1, c, h2⟩ := preCls_spec hq
    exact ⟨by simp [h1], "icons".toList ++ [c] ++ ['>'], by simp [h2]⟩
  · cases h

theorem orElse_good {s : Str} {a b : Option (Nat × Str × Str)} {x : Nat × Str × Str}
    (ha : ∀ y, a = some y → Good s y) (hb : ∀ y, b = some y → Good s y) (h : (a <|> b) = some x) : Good s x := by
  cases a with
  | none => exact hb x (by simpa using h)
  | some y => exact ha x (by simpa using h)

theorem matchAt_good {s : Str} {x : Nat × Str × Str} (h : matchAt s = some x) : Good s x := by
  unfold matchAt at h
  refine orElse_good (fun y hy => lit_good ⟨_, rfl⟩ hy) (fun y hy => ?_) h
  refine orElse_good (fun y hy => cls_good ⟨_, rfl⟩ hy) (fun y hy => ?_) hy
  refine orElse_good (fun y hy => lit_good ⟨_, rfl⟩ hy) (fun y hy => ?_) hy
  refine orElse_good (fun y hy => cls_good ⟨_, rfl⟩ hy) (fun y hy => ?_) hy
  refine orElse_good (fun y hy => lit_good ⟨_, rfl⟩ hy) (fun y hy => ?_) hy
  refine orElse_good (fun y hy => lit_good ⟨_, rfl⟩ hy) (fun y hy => ?_) hy
  exact orElse_good (fun y hy => cls_good ⟨_, rfl⟩ hy) (fun y hy => icons_good hy) hy

theorem blk_nl_blanks (k : Nat) : Blk ('\n' :: blanks k) := by
  intro c hc
  rcases List.mem_cons.1 hc with rfl | h
  · exact Or.inr rfl
  · simp only [blanks, List.mem_replicate] at h
    exact Or.inl h.2

/-- whatever the width and offset: the indented text is the flat text with white space inserted directly before
some `<` characters, and nothing else changed. -/
theorem indentGo_ins (n off : Nat) : ∀ (f : Nat) (s : Str), Ins s (indentGo n off f s)
  | 0, s => Ins.refl s
  | _ + 1, [] => .nil
  | f + 1, c :: r => by
    unfold indentGo
    cases hm : matchAt (c :: r) with
    | none => exact .keep c (indentGo_ins n off f r)
    | some x =>
      obtain ⟨g, m, rest⟩ := x
      obtain ⟨h1, m', h2⟩ := matchAt_good hm
      simp only at h1 h2 ⊢
      have ih := indentGo_ins n off f rest
      have hk : Ins (m ++ rest) (m ++ indentGo n off f rest) := Ins.keeps m ih
      rw [h1]
      rw [h2] at hk ⊢
      have := Ins.ins (blk_nl_blanks (n * (g + off))) hk
      simpa using this

end Verif.C01.MrxT
