/-
C01 — the variable-properties clause for the SimpleMRS decoder result `decodedS`, assembled from
VarsLemmas (first-mention lemma, dictionary folding, `_fill_variables`).
-/
import Verif.C01.VarsLemmas

namespace Verif.C01
open Verif.Codec Verif.Tables

/-- the positions at which the SimpleMRS encoder may write a property block, in its traversal order. -/
def varPositions (m : MRS) : List Str :=
  m.index.toList ++ m.rels.flatMap epVarPos ++ m.icons.flatMap (fun c => [c.lhs, c.rhs])

/-- the property list the decoder ends up with for `v`. -/
def propsView (o : Opts) (m : MRS) (v : Str) : Props :=
  if o.properties = true ∧ v ∈ varPositions m then
    (match dget m.vars v with | some ps => sortProps ps | none => [])
  else []

theorem blocksOf_hcons (v : Str) (hs : List Cons) :
    blocksOf v (hs.flatMap (fun c => [((c.lhs, []) : Mention), (c.rhs, [])])) = [] := by
  induction hs with
  | nil => rfl
  | cons c cs ih =>
    rw [List.flatMap_cons, blocksOf_append, ih]
    simp [blocksOf]

theorem mentions_eq (o : Opts) (m : MRS) :
    mentions o m =
      (let vp0 : Dict Props := if o.properties then m.vars else []
       let a := mentVars vp0 m.index.toList
       let b := mentVars a.2 (m.rels.flatMap epVarPos)
       let c := mentVars b.2 (m.icons.flatMap (fun c => [c.lhs, c.rhs]))
       a.1 ++ b.1 ++ m.hcons.flatMap (fun c => [((c.lhs, []) : Mention), (c.rhs, [])]) ++ c.1) := by
  rfl

/-- First-mention lemma, SimpleMRS form: over the whole token list the property blocks written for
`v` are exactly its property list in `property_priority` order, once — when properties are on and
`v` occurs in a variable position — and nothing otherwise. -/
theorem blocksOf_mentions (o : Opts) (m : MRS) (v : Str) (hn : (m.vars.map (·.1)).Nodup) :
    blocksOf v (mentions o m) = propsView o m v := by
  rw [mentions_eq]
  simp only
  generalize hvp : (if o.properties then m.vars else ([] : Dict Props)) = vp0
  have hn0 : (vp0.map (·.1)).Nodup := by
    rw [← hvp]; split
    · exact hn
    · simp
  have hw := blocksOf_mentVars vp0 (varPositions m) v hn0
  unfold varPositions at hw
  rw [mentVars_append, mentVars_append] at hw
  simp only at hw
  rw [blocksOf_append, blocksOf_append] at hw
  rw [blocksOf_append, blocksOf_append, blocksOf_append, blocksOf_hcons, List.append_nil]
  rw [hw]
  unfold propsView varPositions
  cases hp : o.properties with
  | true =>
    rw [hp] at hvp; simp only [if_true] at hvp; subst hvp
    simp only [true_and]
    by_cases hc : v ∈ m.index.toList ++ List.flatMap epVarPos m.rels ++ List.flatMap (fun c => [c.lhs, c.rhs]) m.icons
    · rw [if_pos hc, if_pos hc]
      cases dget m.vars v <;> rfl
    · rw [if_neg hc, if_neg hc]
  | false =>
    rw [hp] at hvp; simp only [Bool.false_eq_true, if_false] at hvp; subst hvp
    simp [dget]

theorem sortProps_keys_nodup (ps : Props) (h : (ps.map (·.1)).Nodup) : ((sortProps ps).map (·.1)).Nodup :=
  ((sortProps_perm ps).map (·.1)).nodup_iff.mpr h

theorem mem_of_dget {β} (d : Dict β) (k : Str) (x : β) (h : dget d k = some x) : (k, x) ∈ d := by
  induction d with
  | nil => simp [dget] at h
  | cons kv r ih =>
    obtain ⟨k', x'⟩ := kv
    simp only [dget] at h
    split at h
    · rename_i hk; cases h; subst hk; simp
    · exact List.mem_cons_of_mem _ (ih h)

theorem propsView_keys_nodup (o : Opts) (m : MRS) (v : Str)
    (hp : ∀ vp ∈ m.vars, (vp.2.map (·.1)).Nodup) : ((propsView o m v).map (·.1)).Nodup := by
  unfold propsView
  split
  · split
    · rename_i ps hd
      exact sortProps_keys_nodup ps (hp _ (mem_of_dget _ _ _ hd))
    · exact List.nodup_nil
  · exact List.nodup_nil

/-- "decoding the encoded text yields an MRS with the same … variable properties … when properties
… are suppressed the decoded structure equals the original with exactly that information removed":
every variable of the structure is a key of the decoded `variables`, mapped to its property list
(in `property_priority` order) when properties are on and the variable occurs in a variable
position, and to the empty map otherwise. -/
theorem decodedS_vars (o : Opts) (m : MRS) (v : Str)
    (hn : (m.vars.map (·.1)).Nodup) (hp : ∀ vp ∈ m.vars, (vp.2.map (·.1)).Nodup)
    (hv : v ∈ fillOrder m.top m.index (m.rels.map (epViewS o)) m.hcons m.icons) :
    dget (decodedS o m).vars v = some (propsView o m v) := by
  unfold decodedS mkMRS
  simp only
  rw [dget_fillVars, dget_varsOfMentions]
  have hb := blocksOf_mentions o m v hn
  by_cases hany : (mentions o m).any (fun x => x.1 = v) = true
  · simp only [hany, if_true]
    rw [hb, setAll_nil_nodup _ (propsView_keys_nodup o m v hp)]
  · have hany' : (mentions o m).any (fun x => x.1 = v) = false := by
      cases h : (mentions o m).any (fun x => x.1 = v) with
      | true => exact absurd h hany
      | false => rfl
    have h0 := blocksOf_not_any v (mentions o m) hany'
    rw [hb] at h0
    simp only [hany', Bool.false_eq_true, if_false, hv, if_true, h0]

/-- a variable that does not occur in the structure is not a key of the decoded `variables`. -/
theorem decodedS_vars_none (o : Opts) (m : MRS) (v : Str)
    (hv : v ∉ fillOrder m.top m.index (m.rels.map (epViewS o)) m.hcons m.icons)
    (hm : (mentions o m).any (fun x => x.1 = v) = false) :
    dget (decodedS o m).vars v = none := by
  unfold decodedS mkMRS
  simp only
  rw [dget_fillVars, dget_varsOfMentions]
  simp [hm, hv]

end Verif.C01
