/-
C01 — MRX tree round trip: `ofXml (toXml o m) = some (decodedX o m)` for `ExprX m`.
-/
import Verif.Common.CodecLemmas
import Verif.C01.Spec
import Verif.C01.SimpleLemmas

namespace Verif.C01.MrxL
open Verif.Codec Verif.Tables Verif.Py Verif.C01.SimpleL

/-! ### layer 1: variables -/

theorem varSplit_append (v : Str) : varSort v ++ varVid v = v := by
  have h : (v.reverse.dropWhile isDigitC).reverse ++ (v.reverse.takeWhile isDigitC).reverse = v := by
    rw [← List.reverse_append, List.takeWhile_append_dropWhile, List.reverse_reverse]
  unfold varSort varVid varSplit
  simp only []
  generalize hb : (v.reverse.takeWhile isDigitC).reverse = B at h ⊢
  generalize (v.reverse.dropWhile isDigitC).reverse = A at h
  subst h
  simp

theorem lower_append (a b : Str) : lower (a ++ b) = lower a ++ lower b := by
  simp [lower]

theorem lower_left (a b : Str) (h : lower (a ++ b) = a ++ b) : lower a = a := by
  rw [lower_append] at h
  exact (List.append_inj h (by simp [lower])).1

theorem lower_varSort (v : Str) (h : lower v = v) : lower (varSort v) ++ varVid v = v := by
  have h1 := varSplit_append v
  rw [← h1] at h
  rw [lower_left _ _ h, h1]

theorem label_vid (l : Str) (h : varSort l = ['h']) : 'h' :: varVid l = l := by
  have h1 := varSplit_append l
  rw [h] at h1
  simpa using h1

/-! ### layer 2: dVar ∘ xVar -/

theorem iterL_extrapair (ps : List (Str × Str)) :
    Xml.iterL "extrapair" (ps.map xExtrapair) = ps.map xExtrapair := by
  induction ps with
  | nil => simp [Xml.iterL]
  | cons p ps ih =>
    simp only [List.map_cons, Xml.iterL, ih]
    simp [xExtrapair, xEl, xTx, Xml.iter, Xml.iterL]

theorem mapMOpt_map {α β γ} (f : β → Option γ) (g : α → β) (k : α → γ) (l : List α)
    (h : ∀ x, f (g x) = some (k x)) : mapMOpt f (l.map g) = some (l.map k) := by
  induction l with
  | nil => rfl
  | cons x xs ih => simp [mapMOpt, h, ih]

theorem dVar_node (a b : Str) (ps : List (Str × Str)) :
    dVar (xEl "var" [("vid", a), ("sort", b)] (ps.map xExtrapair))
      = some (lower b ++ a, ps.map (fun kv => (upper kv.1, lower kv.2))) := by
  unfold dVar
  have hi : Xml.iter "extrapair" (xEl "var" [("vid", a), ("sort", b)] (ps.map xExtrapair))
      = ps.map xExtrapair := by
    simp [xEl, Xml.iter, iterL_extrapair]
  rw [hi, mapMOpt_map _ xExtrapair (fun kv => (upper kv.1, lower kv.2)) ps
    (by intro kv; simp [xExtrapair, xEl, xTx, Xml.find, Xml.children, Xml.tag, Xml.text])]
  simp [Xml.attr, xEl, Xml.attrs]

theorem xVar_fst (vp : Dict Props) (v : Str) :
    (xVar vp v).1 = xEl "var" [("vid", varVid v), ("sort", varSort v)] ((mentVar vp v).1.2.map xExtrapair) := by
  unfold xVar mentVar
  cases h : dget vp v with
  | none => rfl
  | some ps => cases ps <;> rfl

theorem xVar_snd (vp : Dict Props) (v : Str) : (xVar vp v).2 = (mentVar vp v).2 := by
  unfold xVar mentVar
  cases h : dget vp v with
  | none => rfl
  | some ps => cases ps <;> rfl

theorem mentVar_pairsOK {vp : Dict Props} (h : PropsOK vp) (v : Str) : PairsOK (mentVar vp v).1.2 := by
  unfold mentVar
  cases hd : dget vp v with
  | none => intro kv hkv; simp at hkv
  | some ps =>
    cases ps with
    | nil => intro kv hkv; simp at hkv
    | cons p q =>
      have := h _ (dget_mem vp v _ hd)
      intro kv hkv
      simp only [List.isEmpty_cons, Bool.false_eq_true, if_false] at hkv
      exact this kv (mem_sortProps.mp hkv)

theorem map_pairsOK (ps : List (Str × Str)) (h : PairsOK ps) :
    ps.map (fun kv => (upper kv.1, lower kv.2)) = ps := by
  induction ps with
  | nil => rfl
  | cons p ps ih =>
    have hp := h p (by simp)
    simp only [List.map_cons, hp.1, hp.2]
    rw [ih (fun kv hkv => h kv (by simp [hkv]))]

theorem dVar_xVar (vp : Dict Props) (v : Str) (hvp : PropsOK vp) (hv : lower v = v) :
    dVar (xVar vp v).1 = some (mentVar vp v).1 := by
  rw [xVar_fst, dVar_node, lower_varSort v hv, map_pairsOK _ (mentVar_pairsOK hvp v)]
  have := mentVar_fst_fst vp v
  cases hm : (mentVar vp v).1 with
  | mk a b => rw [hm] at this; simp at this; simp [this]

theorem xVar_tag (vp : Dict Props) (v : Str) : (xVar vp v).1.tag = "var" := by
  rw [xVar_fst]; rfl

/-! ### layer 3: dPred ∘ xPred -/

theorem splitOn_ne_nil (c : Char) (s : Str) : splitOn c s ≠ [] := by
  induction s with
  | nil => simp [splitOn]
  | cons x xs ih =>
    unfold splitOn
    split
    · simp
    · cases h : splitOn c xs with
      | nil => exact absurd h ih
      | cons p ps => simp [consHead]

theorem joinWith_splitOn (c : Char) (s : Str) : joinWith c (splitOn c s) = s := by
  induction s with
  | nil => rfl
  | cons x xs ih =>
    unfold splitOn
    cases h : splitOn c xs with
    | nil => exact absurd h (splitOn_ne_nil c xs)
    | cons p ps =>
      rw [h] at ih
      split
      · next hx => subst hx; simp [joinWith, ih]
      · cases ps with
        | nil => simp [consHead, joinWith] at ih ⊢; exact ih
        | cons q qs => simp [consHead, joinWith] at ih ⊢; exact ih

theorem splitOn_mem (c : Char) (s : Str) : ∀ p ∈ splitOn c s, c ∉ p := by
  induction s with
  | nil => intro p hp; simp [splitOn] at hp; subst hp; simp
  | cons x xs ih =>
    unfold splitOn
    cases h : splitOn c xs with
    | nil => exact absurd h (splitOn_ne_nil c xs)
    | cons q qs =>
      rw [h] at ih
      split
      · intro p hp
        simp at hp
        rcases hp with hp | hp | hp
        · subst hp; simp
        · subst hp; exact ih _ (by simp)
        · exact ih _ (by simp [hp])
      · next hx =>
        intro p hp
        simp [consHead] at hp
        rcases hp with hp | hp
        · subst hp
          have := ih q (by simp)
          simp only [List.mem_cons, not_or]
          exact ⟨fun e => hx e.symm, this⟩
        · exact ih _ (by simp [hp])

theorem all_ne_of_not_mem (c : Char) (l : Str) (h : c ∉ l) : l.all (· ≠ c) = true := by
  simp only [List.all_eq_true, decide_eq_true_eq]
  intro x hx e
  exact h (e ▸ hx)

theorem dPred_xPred (p : Str) (h : stripPred p = p) : dPred (xPred p) = some p := by
  unfold xPred
  rw [h]
  cases hs : isSurface p with
  | true =>
    have hj := joinWith_splitOn '_' p
    have hm := splitOn_mem '_' p
    unfold isSurface at hs
    simp only [if_true]
    unfold splitSurface
    unfold splitU at hs ⊢
    split at hs
    · next l c heq =>
      rw [heq] at hj hm
      simp only [Bool.and_eq_true] at hs
      simp [dPred, xEl, Xml.tag, Xml.attr, Xml.attrs, createPred, hs.1, hs.2, joinWith] at hj ⊢
      exact ⟨hm l (by simp), hj⟩
    · next l c s heq =>
      rw [heq] at hj hm
      simp only [Bool.and_eq_true] at hs
      simp [dPred, xEl, Xml.tag, Xml.attr, Xml.attrs, createPred, hs.1.1, hs.1.2, hs.2, joinWith] at hj ⊢
      exact ⟨hm l (by simp), hm s (by simp), hj⟩
    · simp at hs
  | false =>
    simp only [Bool.false_eq_true, if_false]
    cases isAbstract p <;> simp [dPred, xTx, Xml.tag, Xml.text]

theorem xPred_tag (p : Str) : (xPred p).tag = "realpred" ∨ (xPred p).tag = "pred" ∨ (xPred p).tag = "spred" := by
  unfold xPred
  split
  · exact Or.inl rfl
  · split
    · exact Or.inr (Or.inl rfl)
    · exact Or.inr (Or.inr rfl)

/-! ### layer 4: lnk -/

theorem dLnk_intStr (a b : Int) : dLnk (some (intStr a)) (some (intStr b)) = some (.charspan a b) := by
  simp [dLnk, parseInt_intStr]

theorem dLabel_xLabel (l : Str) (h : varSort l = ['h']) : dLabel (xLabel l) = some l := by
  simp [dLabel, xLabel, xEl, Xml.attr, Xml.attrs, label_vid l h]

/-! ### layer 5: dArgs -/

/-- the fold step of `dArgs`. -/
def argStep (acc : List (Str × Str) × List Mention) (e : Xml) : Option (List (Str × Str) × List Mention) := do
  let r := upper (← (← e.find "rargname").text)
  match e.find "constant" with
  | some c => pure (acc.1 ++ [(r, ← c.text)], acc.2)
  | none => match e.find "var" with
    | some v => do let m ← dVar v; pure (acc.1 ++ [(r, m.1)], acc.2 ++ [m])
    | none => none

theorem dArgs_eq (ep : Xml) : dArgs ep = (ep.findall "fvpair").foldlM argStep ([], []) := rfl

theorem argStep_carg (acc : List (Str × Str) × List Mention) (val : Str) :
    argStep acc (xEl "fvpair" [] [xTx "rargname" CARG, xTx "constant" val])
      = some (acc.1 ++ [(CARG, val)], acc.2) := by
  simp [argStep, xEl, xTx, Xml.find, Xml.children, Xml.tag, Xml.text, upper_CARG]

theorem argStep_var (acc : List (Str × Str) × List Mention) (role : Str) (x : Xml) (m : Mention)
    (hx : x.tag = "var") (hd : dVar x = some m) :
    argStep acc (xEl "fvpair" [] [xTx "rargname" role, x])
      = some (acc.1 ++ [(upper role, m.1)], acc.2 ++ [m]) := by
  cases x with
  | node t a tx cs =>
    simp only [Xml.tag] at hx
    subst hx
    simp [argStep, xEl, xTx, Xml.find, Xml.children, Xml.tag, Xml.text, hd]

theorem xArgs_carg (vp : Dict Props) (val : Str) (rest : Dict Str) :
    xArgs vp ((CARG, val) :: rest)
      = (xEl "fvpair" [] [xTx "rargname" CARG, xTx "constant" val] :: (xArgs vp rest).1, (xArgs vp rest).2) := by
  simp [xArgs]

theorem xArgs_var (vp : Dict Props) (role val : Str) (rest : Dict Str) (h : role ≠ CARG) :
    xArgs vp ((role, val) :: rest)
      = (xEl "fvpair" [] [xTx "rargname" role, (xVar vp val).1] :: (xArgs (xVar vp val).2 rest).1,
         (xArgs (xVar vp val).2 rest).2) := by
  simp [xArgs, h]

theorem xArgs_tags : ∀ (as : Dict Str) (vp : Dict Props), ∀ x ∈ (xArgs vp as).1, x.tag = "fvpair" := by
  intro as
  induction as with
  | nil => intro vp x hx; simp [xArgs] at hx
  | cons a rest ih =>
    intro vp x hx
    obtain ⟨role, val⟩ := a
    by_cases hr : role = CARG
    · subst hr
      rw [xArgs_carg] at hx
      simp only [List.mem_cons] at hx
      rcases hx with hx | hx
      · subst hx; rfl
      · exact ih vp x hx
    · rw [xArgs_var _ _ _ _ hr] at hx
      simp only [List.mem_cons] at hx
      rcases hx with hx | hx
      · subst hx; rfl
      · exact ih _ x hx

theorem foldlM_xArgs : ∀ (as : Dict Str) (vp : Dict Props) (acc : List (Str × Str) × List Mention),
    PropsOK vp → ArgsOK as →
    (xArgs vp as).1.foldlM argStep acc
        = some (acc.1 ++ as, acc.2 ++ (mentVars vp ((as.filter (·.1 ≠ CARG)).map (·.2))).1)
      ∧ (xArgs vp as).2 = (mentVars vp ((as.filter (·.1 ≠ CARG)).map (·.2))).2 := by
  intro as
  induction as with
  | nil => intro vp acc _ _; simp [xArgs, mentVars]
  | cons a rest ih =>
    intro vp acc hvp has
    obtain ⟨role, val⟩ := a
    have hrest : ArgsOK rest := fun a ha => has a (by simp [ha])
    have ha := has (role, val) (by simp)
    by_cases hr : role = CARG
    · subst hr
      have ih' := ih vp (acc.1 ++ [(CARG, val)], acc.2) hvp hrest
      rw [xArgs_carg]
      simp only [List.foldlM_cons, argStep_carg, Option.bind_eq_bind, Option.bind_some]
      rw [ih'.1, ih'.2]
      simp
    · have hv : lower val = val := ha.2 hr
      have hvp' : PropsOK (xVar vp val).2 := by rw [xVar_snd]; exact PropsOK_mentVar hvp val
      have ih' := ih (xVar vp val).2 (acc.1 ++ [(upper role, (mentVar vp val).1.1)], acc.2 ++ [(mentVar vp val).1])
        hvp' hrest
      rw [xArgs_var _ _ _ _ hr]
      simp only [List.foldlM_cons, argStep_var acc role _ _ (xVar_tag vp val) (dVar_xVar vp val hvp hv),
        Option.bind_eq_bind, Option.bind_some]
      rw [ih'.1, ih'.2]
      have hf : List.filter (fun a => decide (a.1 ≠ CARG)) ((role, val) :: rest)
          = (role, val) :: List.filter (fun a => decide (a.1 ≠ CARG)) rest := by
        simp [hr]
      rw [hf]
      simp only [List.map_cons, SimpleL.mentVars_cons, xVar_snd]
      have h1 : upper role = role := ha.1
      simp [mentVar_fst_fst, h1]

theorem xPred_tag_ne (p : Str) (t : String) (h1 : t ≠ "realpred") (h2 : t ≠ "pred") (h3 : t ≠ "spred") :
    ¬ ((xPred p).tag = t) := by
  intro h
  rcases xPred_tag p with h' | h' | h' <;> rw [h'] at h
  · exact h1 h.symm
  · exact h2 h.symm
  · exact h3 h.symm

theorem dArgs_ep (at_ : List (String × Str)) (p l : Str) (as : List Xml) (h : ∀ x ∈ as, x.tag = "fvpair") :
    dArgs (xEl "ep" at_ (xPred p :: xLabel l :: as)) = as.foldlM argStep ([], []) := by
  rw [dArgs_eq]
  have : (xEl "ep" at_ (xPred p :: xLabel l :: as)).findall "fvpair" = as := by
    simp only [Xml.findall, xEl, Xml.children]
    rw [List.filter_cons_of_neg (by simpa using xPred_tag_ne p "fvpair" (by decide) (by decide) (by decide))]
    rw [List.filter_cons_of_neg (by simp [xLabel, xEl, Xml.tag])]
    rw [List.filter_eq_self]
    intro x hx
    simp [h x hx]
  rw [this]

/-! ### layer 6: dEp, dHcons, dIcons -/

theorem lnkAttrs_look (o : Opts) (l : Lnk) (s b : Option Str) (tg : String) (cs : List Xml) :
    dLnk ((xEl tg (lnkAttrs o l s b) cs).attr "cfrom") ((xEl tg (lnkAttrs o l s b) cs).attr "cto")
        = some (if o.lnk then .charspan l.cfrom l.cto else .unspec)
      ∧ (xEl tg (lnkAttrs o l s b) cs).attr "surface" = (if o.lnk then s else none)
      ∧ (xEl tg (lnkAttrs o l s b) cs).attr "base" = (if o.lnk then b else none) := by
  obtain ⟨pr, lk⟩ := o
  cases lk <;> cases s <;> cases b <;>
    simp [lnkAttrs, Xml.attr, xEl, Xml.attrs, dLnk, parseInt_intStr]

theorem xEp_eq (o : Opts) (vp : Dict Props) (e : EP) :
    xEp o vp e = (xEl "ep" (lnkAttrs o e.lnk e.surface e.base)
        (xPred e.pred :: xLabel e.label :: (xArgs vp (sortArgs e.args)).1), (xArgs vp (sortArgs e.args)).2) := rfl

theorem dEp_xEp (o : Opts) (vp : Dict Props) (e : EP) (hvp : PropsOK vp)
    (hl : varSort e.label = ['h']) (hp : stripPred e.pred = e.pred)
    (hr : ∀ a ∈ e.args, upper a.1 = a.1) (hn : (e.args.map (·.1)).Nodup)
    (hv : ∀ a ∈ e.args, a.1 ≠ CARG → lower a.2 = a.2) :
    dEp (xEp o vp e).1 = some (epViewX o e, (mentVars vp (epVarPos e)).1)
      ∧ (xEp o vp e).2 = (mentVars vp (epVarPos e)).2 := by
  have hok : ArgsOK (sortArgs e.args) := fun a ha =>
    ⟨hr a (mem_sortArgs.mp ha), hv a (mem_sortArgs.mp ha)⟩
  have hf := foldlM_xArgs (sortArgs e.args) vp ([], []) hvp hok
  rw [xEp_eq]
  refine ⟨?_, hf.2⟩
  have hA := dArgs_ep (lnkAttrs o e.lnk e.surface e.base) e.pred e.label _ (xArgs_tags (sortArgs e.args) vp)
  rw [hf.1] at hA
  obtain ⟨h1, h2, h3⟩ := lnkAttrs_look o e.lnk e.surface e.base "ep"
    (xPred e.pred :: xLabel e.label :: (xArgs vp (sortArgs e.args)).1)
  have hfind : (xEl "ep" (lnkAttrs o e.lnk e.surface e.base)
      (xPred e.pred :: xLabel e.label :: (xArgs vp (sortArgs e.args)).1)).find "label" = some (xLabel e.label) := by
    simp only [Xml.find, xEl, Xml.children]
    rw [List.find?_cons_of_neg (by simpa using xPred_tag_ne e.pred "label" (by decide) (by decide) (by decide))]
    simp [xLabel, xEl, Xml.tag]
  unfold dEp
  rw [hA, hfind, h1, h2, h3]
  simp only [xEl, Xml.children, List.head?_cons, Option.bind_eq_bind, Option.bind_some, dPred_xPred _ hp,
    Option.pure_def]
  simp only [dLabel_xLabel _ hl, Option.bind_some, List.nil_append, mkArgs_nodup _ (sortArgs_nodup hn)]
  rfl

end Verif.C01.MrxL
