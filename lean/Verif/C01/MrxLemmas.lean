/-
C01 — MRX tree round trip: `ofXml (toXml o m) = some (decodedX o m)` for `ExprX m`.
-/
import Verif.Common.CodecLemmas
import Verif.C01.Spec
import Verif.C01.SimpleLemmas

namespace Verif.C01.MrxL
open Verif.Codec Verif.Tables Verif.Py Verif.C01.SimpleL

/-! ### layer 1: variables -/

theorem varSplit_append (v : Str) : varSort v ++ varVid v = v := by
  have h : (v.reverse.dropWhile isDigitC).reverse ++ (v.reverse.takeWhile isDigitC).reverse = v := by
    rw [← List.reverse_append, List.takeWhile_append_dropWhile, List.reverse_reverse]
  unfold varSort varVid varSplit
  simp only []
  generalize hb : (v.reverse.takeWhile isDigitC).reverse = B at h ⊢
  generalize (v.reverse.dropWhile isDigitC).reverse = A at h
  subst h
  simp

theorem lower_append (a b : Str) : lower (a ++ b) = lower a ++ lower b := by
  simp [lower]

theorem lower_left (a b : Str) (h : lower (a ++ b) = a ++ b) : lower a = a := by
  rw [lower_append] at h
  exact (List.append_inj h (by simp [lower])).1

theorem lower_varSort (v : Str) (h : lower v = v) : lower (varSort v) ++ varVid v = v := by
  have h1 := varSplit_append v
  rw [← h1] at h
  rw [lower_left _ _ h, h1]

theorem label_vid (l : Str) (h : varSort l = ['h']) : 'h' :: varVid l = l := by
  have h1 := varSplit_append l
  rw [h] at h1
  simpa using h1

/-! ### layer 2: dVar ∘ xVar -/

theorem iterL_extrapair (ps : List (Str × Str)) :
    Xml.iterL "extrapair" (ps.map xExtrapair) = ps.map xExtrapair := by
  induction ps with
  | nil => simp [Xml.iterL]
  | cons p ps ih =>
    simp only [List.map_cons, Xml.iterL, ih]
    simp [xExtrapair, xEl, xTx, Xml.iter, Xml.iterL]

theorem mapMOpt_map {α β γ} (f : β → Option γ) (g : α → β) (k : α → γ) (l : List α)
    (h : ∀ x, f (g x) = some (k x)) : mapMOpt f (l.map g) = some (l.map k) := by
  induction l with
  | nil => rfl
  | cons x xs ih => simp [mapMOpt, h, ih]

theorem dVar_node (a b : Str) (ps : List (Str × Str)) :
    dVar (xEl "var" [("vid", a), ("sort", b)] (ps.map xExtrapair))
      = some (lower b ++ a, ps.map (fun kv => (upper kv.1, lower kv.2))) := by
  unfold dVar
  have hi : Xml.iter "extrapair" (xEl "var" [("vid", a), ("sort", b)] (ps.map xExtrapair))
      = ps.map xExtrapair := by
    simp [xEl, Xml.iter, iterL_extrapair]
  rw [hi, mapMOpt_map _ xExtrapair (fun kv => (upper kv.1, lower kv.2)) ps
    (by intro kv; simp [xExtrapair, xEl, xTx, Xml.find, Xml.children, Xml.tag, Xml.text])]
  simp [Xml.attr, xEl, Xml.attrs]

theorem xVar_fst (vp : Dict Props) (v : Str) :
    (xVar vp v).1 = xEl "var" [("vid", varVid v), ("sort", varSort v)] ((mentVar vp v).1.2.map xExtrapair) := by
  unfold xVar mentVar
  cases h : dget vp v with
  | none => rfl
  | some ps => cases ps <;> rfl

theorem xVar_snd (vp : Dict Props) (v : Str) : (xVar vp v).2 = (mentVar vp v).2 := by
  unfold xVar mentVar
  cases h : dget vp v with
  | none => rfl
  | some ps => cases ps <;> rfl

theorem mentVar_pairsOK {vp : Dict Props} (h : PropsOK vp) (v : Str) : PairsOK (mentVar vp v).1.2 := by
  unfold mentVar
  cases hd : dget vp v with
  | none => intro kv hkv; simp at hkv
  | some ps =>
    cases ps with
    | nil => intro kv hkv; simp at hkv
    | cons p q =>
      have := h _ (dget_mem vp v _ hd)
      intro kv hkv
      simp only [List.isEmpty_cons, Bool.false_eq_true, if_false] at hkv
      exact this kv (mem_sortProps.mp hkv)

theorem map_pairsOK (ps : List (Str × Str)) (h : PairsOK ps) :
    ps.map (fun kv => (upper kv.1, lower kv.2)) = ps := by
  induction ps with
  | nil => rfl
  | cons p ps ih =>
    have hp := h p (by simp)
    simp only [List.map_cons, hp.1, hp.2]
    rw [ih (fun kv hkv => h kv (by simp [hkv]))]

theorem dVar_xVar (vp : Dict Props) (v : Str) (hvp : PropsOK vp) (hv : lower v = v) :
    dVar (xVar vp v).1 = some (mentVar vp v).1 := by
  rw [xVar_fst, dVar_node, lower_varSort v hv, map_pairsOK _ (mentVar_pairsOK hvp v)]
  have := mentVar_fst_fst vp v
  cases hm : (mentVar vp v).1 with
  | mk a b => rw [hm] at this; simp at this; simp [this]

theorem xVar_tag (vp : Dict Props) (v : Str) : (xVar vp v).1.tag = "var" := by
  rw [xVar_fst]; rfl

/-! ### layer 3: dPred ∘ xPred -/

theorem splitOn_ne_nil (c : Char) (s : Str) : splitOn c s ≠ [] := by
  induction s with
  | nil => simp [splitOn]
  | cons x xs ih =>
    unfold splitOn
    split
    · simp
    · cases h : splitOn c xs with
      | nil => exact absurd h ih
      | cons p ps => simp [consHead]

theorem joinWith_splitOn (c : Char) (s : Str) : joinWith c (splitOn c s) = s := by
  induction s with
  | nil => rfl
  | cons x xs ih =>
    unfold splitOn
    cases h : splitOn c xs with
    | nil => exact absurd h (splitOn_ne_nil c xs)
    | cons p ps =>
      rw [h] at ih
      split
      · next hx => subst hx; simp [joinWith, ih]
      · cases ps with
        | nil => simp [consHead, joinWith] at ih ⊢; exact ih
        | cons q qs => simp [consHead, joinWith] at ih ⊢; exact ih

theorem splitOn_mem (c : Char) (s : Str) : ∀ p ∈ splitOn c s, c ∉ p := by
  induction s with
  | nil => intro p hp; simp [splitOn] at hp; subst hp; simp
  | cons x xs ih =>
    unfold splitOn
    cases h : splitOn c xs with
    | nil => exact absurd h (splitOn_ne_nil c xs)
    | cons q qs =>
      rw [h] at ih
      split
      · intro p hp
        simp at hp
        rcases hp with hp | hp | hp
        · subst hp; simp
        · subst hp; exact ih _ (by simp)
        · exact ih _ (by simp [hp])
      · next hx =>
        intro p hp
        simp [consHead] at hp
        rcases hp with hp | hp
        · subst hp
          have := ih q (by simp)
          simp only [List.mem_cons, not_or]
          exact ⟨fun e => hx e.symm, this⟩
        · exact ih _ (by simp [hp])

theorem all_ne_of_not_mem (c : Char) (l : Str) (h : c ∉ l) : l.all (· ≠ c) = true := by
  simp only [List.all_eq_true, decide_eq_true_eq]
  intro x hx e
  exact h (e ▸ hx)

theorem dPred_xPred (p : Str) (h : stripPred p = p) : dPred (xPred p) = some p := by
  unfold xPred
  rw [h]
  cases hs : isSurface p with
  | true =>
    have hj := joinWith_splitOn '_' p
    have hm := splitOn_mem '_' p
    unfold isSurface at hs
    simp only [if_true]
    unfold splitSurface
    unfold splitU at hs ⊢
    split at hs
    · next l c heq =>
      rw [heq] at hj hm
      simp only [Bool.and_eq_true] at hs
      simp [dPred, xEl, Xml.tag, Xml.attr, Xml.attrs, createPred, hs.1, hs.2, joinWith] at hj ⊢
      exact ⟨hm l (by simp), hj⟩
    · next l c s heq =>
      rw [heq] at hj hm
      simp only [Bool.and_eq_true] at hs
      simp [dPred, xEl, Xml.tag, Xml.attr, Xml.attrs, createPred, hs.1.1, hs.1.2, hs.2, joinWith] at hj ⊢
      exact ⟨hm l (by simp), hm s (by simp), hj⟩
    · simp at hs
  | false =>
    simp only [Bool.false_eq_true, if_false]
    cases isAbstract p <;> simp [dPred, xTx, Xml.tag, Xml.text]

theorem xPred_tag (p : Str) : (xPred p).tag = "realpred" ∨ (xPred p).tag = "pred" ∨ (xPred p).tag = "spred" := by
  unfold xPred
  split
  · exact Or.inl rfl
  · split
    · exact Or.inr (Or.inl rfl)
    · exact Or.inr (Or.inr rfl)

/-! ### layer 4: lnk -/

theorem dLnk_intStr (a b : Int) : dLnk (some (intStr a)) (some (intStr b)) = some (.charspan a b) := by
  simp [dLnk, parseInt_intStr]

theorem dLabel_xLabel (l : Str) (h : varSort l = ['h']) : dLabel (xLabel l) = some l := by
  simp [dLabel, xLabel, xEl, Xml.attr, Xml.attrs, label_vid l h]

/-! ### layer 5: dArgs -/

/-- the fold step of `dArgs`. -/
def argStep (acc : List (Str × Str) × List Mention) (e : Xml) : Option (List (Str × Str) × List Mention) := do
  let r := upper (← (← e.find "rargname").text)
  match e.find "constant" with
  | some c => pure (acc.1 ++ [(r, ← c.text)], acc.2)
  | none => match e.find "var" with
    | some v => do let m ← dVar v; pure (acc.1 ++ [(r, m.1)], acc.2 ++ [m])
    | none => none

theorem dArgs_eq (ep : Xml) : dArgs ep = (ep.findall "fvpair").foldlM argStep ([], []) := rfl

theorem argStep_carg (acc : List (Str × Str) × List Mention) (val : Str) :
    argStep acc (xEl "fvpair" [] [xTx "rargname" CARG, xTx "constant" val])
      = some (acc.1 ++ [(CARG, val)], acc.2) := by
  simp [argStep, xEl, xTx, Xml.find, Xml.children, Xml.tag, Xml.text, upper_CARG]

theorem argStep_var (acc : List (Str × Str) × List Mention) (role : Str) (x : Xml) (m : Mention)
    (hx : x.tag = "var") (hd : dVar x = some m) :
    argStep acc (xEl "fvpair" [] [xTx "rargname" role, x])
      = some (acc.1 ++ [(upper role, m.1)], acc.2 ++ [m]) := by
  cases x with
  | node t a tx cs =>
    simp only [Xml.tag] at hx
    subst hx
    simp [argStep, xEl, xTx, Xml.find, Xml.children, Xml.tag, Xml.text, hd]

theorem xArgs_carg (vp : Dict Props) (val : Str) (rest : Dict Str) :
    xArgs vp ((CARG, val) :: rest)
      = (xEl "fvpair" [] [xTx "rargname" CARG, xTx "constant" val] :: (xArgs vp rest).1, (xArgs vp rest).2) := by
  simp [xArgs]

theorem xArgs_var (vp : Dict Props) (role val : Str) (rest : Dict Str) (h : role ≠ CARG) :
    xArgs vp ((role, val) :: rest)
      = (xEl "fvpair" [] [xTx "rargname" role, (xVar vp val).1] :: (xArgs (xVar vp val).2 rest).1,
         (xArgs (xVar vp val).2 rest).2) := by
  simp [xArgs, h]

theorem xArgs_tags : ∀ (as : Dict Str) (vp : Dict Props), ∀ x ∈ (xArgs vp as).1, x.tag = "fvpair" := by
  intro as
  induction as with
  | nil => intro vp x hx; simp [xArgs] at hx
  | cons a rest ih =>
    intro vp x hx
    obtain ⟨role, val⟩ := a
    by_cases hr : role = CARG
    · subst hr
      rw [xArgs_carg] at hx
      simp only [List.mem_cons] at hx
      rcases hx with hx | hx
      · subst hx; rfl
      · exact ih vp x hx
    · rw [xArgs_var _ _ _ _ hr] at hx
      simp only [List.mem_cons] at hx
      rcases hx with hx | hx
      · subst hx; rfl
      · exact ih _ x hx

theorem foldlM_xArgs : ∀ (as : Dict Str) (vp : Dict Props) (acc : List (Str × Str) × List Mention),
    PropsOK vp → ArgsOK as →
    (xArgs vp as).1.foldlM argStep acc
        = some (acc.1 ++ as, acc.2 ++ (mentVars vp ((as.filter (·.1 ≠ CARG)).map (·.2))).1)
      ∧ (xArgs vp as).2 = (mentVars vp ((as.filter (·.1 ≠ CARG)).map (·.2))).2 := by
  intro as
  induction as with
  | nil => intro vp acc _ _; simp [xArgs, mentVars]
  | cons a rest ih =>
    intro vp acc hvp has
    obtain ⟨role, val⟩ := a
    have hrest : ArgsOK rest := fun a ha => has a (by simp [ha])
    have ha := has (role, val) (by simp)
    by_cases hr : role = CARG
    · subst hr
      have ih' := ih vp (acc.1 ++ [(CARG, val)], acc.2) hvp hrest
      rw [xArgs_carg]
      simp only [List.foldlM_cons, argStep_carg, Option.bind_eq_bind, Option.bind_some]
      rw [ih'.1, ih'.2]
      simp
    · have hv : lower val = val := ha.2 hr
      have hvp' : PropsOK (xVar vp val).2 := by rw [xVar_snd]; exact PropsOK_mentVar hvp val
      have ih' := ih (xVar vp val).2 (acc.1 ++ [(upper role, (mentVar vp val).1.1)], acc.2 ++ [(mentVar vp val).1])
        hvp' hrest
      rw [xArgs_var _ _ _ _ hr]
      simp only [List.foldlM_cons, argStep_var acc role _ _ (xVar_tag vp val) (dVar_xVar vp val hvp hv),
        Option.bind_eq_bind, Option.bind_some]
      rw [ih'.1, ih'.2]
      have hf : List.filter (fun a => decide (a.1 ≠ CARG)) ((role, val) :: rest)
          = (role, val) :: List.filter (fun a => decide (a.1 ≠ CARG)) rest := by
        simp [hr]
      rw [hf]
      simp only [List.map_cons, SimpleL.mentVars_cons, xVar_snd]
      have h1 : upper role = role := ha.1
      simp [mentVar_fst_fst, h1]

theorem xPred_tag_ne (p : Str) (t : String) (h1 : t ≠ "realpred") (h2 : t ≠ "pred") (h3 : t ≠ "spred") :
    ¬ ((xPred p).tag = t) := by
  intro h
  rcases xPred_tag p with h' | h' | h' <;> rw [h'] at h
  · exact h1 h.symm
  · exact h2 h.symm
  · exact h3 h.symm

theorem dArgs_ep (at_ : List (String × Str)) (p l : Str) (as : List Xml) (h : ∀ x ∈ as, x.tag = "fvpair") :
    dArgs (xEl "ep" at_ (xPred p :: xLabel l :: as)) = as.foldlM argStep ([], []) := by
  rw [dArgs_eq]
  have : (xEl "ep" at_ (xPred p :: xLabel l :: as)).findall "fvpair" = as := by
    simp only [Xml.findall, xEl, Xml.children]
    rw [List.filter_cons_of_neg (by simpa using xPred_tag_ne p "fvpair" (by decide) (by decide) (by decide))]
    rw [List.filter_cons_of_neg (by simp [xLabel, xEl, Xml.tag])]
    rw [List.filter_eq_self]
    intro x hx
    simp [h x hx]
  rw [this]

/-! ### layer 6: dEp, dHcons, dIcons -/

theorem lnkAttrs_look (o : Opts) (l : Lnk) (s b : Option Str) (tg : String) (cs : List Xml) :
    dLnk ((xEl tg (lnkAttrs o l s b) cs).attr "cfrom") ((xEl tg (lnkAttrs o l s b) cs).attr "cto")
        = some (if o.lnk then .charspan l.cfrom l.cto else .unspec)
      ∧ (xEl tg (lnkAttrs o l s b) cs).attr "surface" = (if o.lnk then s else none)
      ∧ (xEl tg (lnkAttrs o l s b) cs).attr "base" = (if o.lnk then b else none) := by
  obtain ⟨pr, lk⟩ := o
  cases lk <;> cases s <;> cases b <;>
    simp [lnkAttrs, Xml.attr, xEl, Xml.attrs, dLnk, parseInt_intStr]

theorem xEp_eq (o : Opts) (vp : Dict Props) (e : EP) :
    xEp o vp e = (xEl "ep" (lnkAttrs o e.lnk e.surface e.base)
        (xPred e.pred :: xLabel e.label :: (xArgs vp (sortArgs e.args)).1), (xArgs vp (sortArgs e.args)).2) := rfl

theorem dEp_xEp (o : Opts) (vp : Dict Props) (e : EP) (hvp : PropsOK vp)
    (hl : varSort e.label = ['h']) (hp : stripPred e.pred = e.pred)
    (hr : ∀ a ∈ e.args, upper a.1 = a.1) (hn : (e.args.map (·.1)).Nodup)
    (hv : ∀ a ∈ e.args, a.1 ≠ CARG → lower a.2 = a.2) :
    dEp (xEp o vp e).1 = some (epViewX o e, (mentVars vp (epVarPos e)).1)
      ∧ (xEp o vp e).2 = (mentVars vp (epVarPos e)).2 := by
  have hok : ArgsOK (sortArgs e.args) := fun a ha =>
    ⟨hr a (mem_sortArgs.mp ha), hv a (mem_sortArgs.mp ha)⟩
  have hf := foldlM_xArgs (sortArgs e.args) vp ([], []) hvp hok
  rw [xEp_eq]
  refine ⟨?_, hf.2⟩
  have hA := dArgs_ep (lnkAttrs o e.lnk e.surface e.base) e.pred e.label _ (xArgs_tags (sortArgs e.args) vp)
  rw [hf.1] at hA
  obtain ⟨h1, h2, h3⟩ := lnkAttrs_look o e.lnk e.surface e.base "ep"
    (xPred e.pred :: xLabel e.label :: (xArgs vp (sortArgs e.args)).1)
  have hfind : (xEl "ep" (lnkAttrs o e.lnk e.surface e.base)
      (xPred e.pred :: xLabel e.label :: (xArgs vp (sortArgs e.args)).1)).find "label" = some (xLabel e.label) := by
    simp only [Xml.find, xEl, Xml.children]
    rw [List.find?_cons_of_neg (by simpa using xPred_tag_ne e.pred "label" (by decide) (by decide) (by decide))]
    simp [xLabel, xEl, Xml.tag]
  unfold dEp
  rw [hA, hfind, h1, h2, h3]
  simp only [xEl, Xml.children, List.head?_cons, Option.bind_eq_bind, Option.bind_some, dPred_xPred _ hp,
    Option.pure_def]
  simp only [dLabel_xLabel _ hl, Option.bind_some, List.nil_append, mkArgs_nodup _ (sortArgs_nodup hn)]
  rfl

theorem xLabel_tag (l : Str) : (xLabel l).tag = "label" := rfl

theorem dHcons_node' (rel rhs : Str) (x y : Xml) (mh : Mention) (hx : x.tag = "var") (hd : dVar x = some mh)
    (hy : y.tag = "label") (hdy : dLabel y = some rhs) :
    dHcons (xEl "hcons" [("hreln", rel)] [xEl "hi" [] [x], xEl "lo" [] [y]])
      = some ({ lhs := mh.1, rel := rel, rhs := rhs }, [mh]) := by
  cases x with
  | node t a tx cs =>
    cases y with
    | node t' a' tx' cs' =>
      simp only [Xml.tag] at hx hy
      subst hx; subst hy
      simp [dHcons, xEl, Xml.find, Xml.children, Xml.tag, Xml.attr, Xml.attrs, hd, hdy]

theorem dHcons_node (rel rhs : Str) (x : Xml) (mh : Mention) (hx : x.tag = "var") (hd : dVar x = some mh)
    (hr : varSort rhs = ['h']) :
    dHcons (xEl "hcons" [("hreln", rel)] [xEl "hi" [] [x], xEl "lo" [] [xLabel rhs]])
      = some ({ lhs := mh.1, rel := rel, rhs := rhs }, [mh]) :=
  dHcons_node' rel rhs x _ mh hx hd rfl (dLabel_xLabel _ hr)

theorem dIcons_node (rel : Str) (x y : Xml) (ml mr : Mention) (hx : x.tag = "var") (hy : y.tag = "var")
    (hdx : dVar x = some ml) (hdy : dVar y = some mr) :
    dIcons (xEl "icons" [("ireln", rel)] [xEl "left" [] [x], xEl "right" [] [y]])
      = some ({ lhs := ml.1, rel := rel, rhs := mr.1 }, [ml, mr]) := by
  cases x with
  | node t a tx cs =>
    cases y with
    | node t' a' tx' cs' =>
      simp only [Xml.tag] at hx hy
      subst hx; subst hy
      simp [dIcons, xEl, Xml.find, Xml.children, Xml.tag, Xml.attr, Xml.attrs, hdx, hdy]

theorem xEps_cons (o : Opts) (vp : Dict Props) (e : EP) (rest : List EP) :
    xEps o vp (e :: rest) = ((xEp o vp e).1 :: (xEps o (xEp o vp e).2 rest).1, (xEps o (xEp o vp e).2 rest).2) := rfl

theorem xHcons_cons (vp : Dict Props) (c : Cons) (rest : List Cons) :
    xHcons vp (c :: rest) =
      (xEl "hcons" [("hreln", c.rel)] [xEl "hi" [] [(xVar vp c.lhs).1], xEl "lo" [] [xLabel c.rhs]]
          :: (xHcons (xVar vp c.lhs).2 rest).1, (xHcons (xVar vp c.lhs).2 rest).2) := rfl

theorem xIcons_cons (vp : Dict Props) (c : Cons) (rest : List Cons) :
    xIcons vp (c :: rest) =
      (xEl "icons" [("ireln", c.rel)] [xEl "left" [] [(xVar vp c.lhs).1], xEl "right" [] [(xVar (xVar vp c.lhs).2 c.rhs).1]]
          :: (xIcons (xVar (xVar vp c.lhs).2 c.rhs).2 rest).1, (xIcons (xVar (xVar vp c.lhs).2 c.rhs).2 rest).2) := rfl

def EpOK (e : EP) : Prop :=
  varSort e.label = ['h'] ∧ stripPred e.pred = e.pred ∧ (∀ a ∈ e.args, upper a.1 = a.1)
    ∧ (e.args.map (·.1)).Nodup ∧ (∀ a ∈ e.args, a.1 ≠ CARG → lower a.2 = a.2)

theorem mapMOpt_xEps (o : Opts) : ∀ (es : List EP) (vp : Dict Props), PropsOK vp → (∀ e ∈ es, EpOK e) →
    ∃ L, mapMOpt dEp (xEps o vp es).1 = some L ∧ L.map (·.1) = es.map (epViewX o)
      ∧ L.flatMap (·.2) = (mentVars vp (es.flatMap epVarPos)).1
      ∧ (xEps o vp es).2 = (mentVars vp (es.flatMap epVarPos)).2 := by
  intro es
  induction es with
  | nil => intro vp _ _; exact ⟨[], rfl, rfl, rfl, rfl⟩
  | cons e rest ih =>
    intro vp hvp hes
    obtain ⟨h1, h2, h3, h4, h5⟩ := hes e (by simp)
    have hd := dEp_xEp o vp e hvp h1 h2 h3 h4 h5
    have hvp' : PropsOK (xEp o vp e).2 := by rw [hd.2]; exact PropsOK_mentVars _ _ hvp
    obtain ⟨L, hL1, hL2, hL3, hL4⟩ := ih (xEp o vp e).2 hvp' (fun e he => hes e (by simp [he]))
    refine ⟨(epViewX o e, (mentVars vp (epVarPos e)).1) :: L, ?_, ?_, ?_, ?_⟩
    · rw [xEps_cons]; simp only [mapMOpt, hd.1, hL1]
    · simp [hL2]
    · simp only [List.flatMap_cons, hL3, SimpleL.mentVars_append, hd.2]
    · rw [xEps_cons]
      show (xEps o (xEp o vp e).2 rest).2 = _
      rw [hL4, hd.2]; simp only [List.flatMap_cons, SimpleL.mentVars_append]

theorem mapMOpt_xHcons : ∀ (cs : List Cons) (vp : Dict Props), PropsOK vp →
    (∀ c ∈ cs, lower c.lhs = c.lhs ∧ varSort c.rhs = ['h']) →
    ∃ L, mapMOpt dHcons (xHcons vp cs).1 = some L ∧ L.map (·.1) = cs
      ∧ L.flatMap (·.2) = (mentVars vp (cs.map (·.lhs))).1
      ∧ (xHcons vp cs).2 = (mentVars vp (cs.map (·.lhs))).2 := by
  intro cs
  induction cs with
  | nil => intro vp _ _; exact ⟨[], rfl, rfl, rfl, rfl⟩
  | cons c rest ih =>
    intro vp hvp hcs
    obtain ⟨h1, h2⟩ := hcs c (by simp)
    have hd := dHcons_node c.rel c.rhs _ _ (xVar_tag vp c.lhs) (dVar_xVar vp c.lhs hvp h1) h2
    have hvp' : PropsOK (xVar vp c.lhs).2 := by rw [xVar_snd]; exact PropsOK_mentVar hvp _
    obtain ⟨L, hL1, hL2, hL3, hL4⟩ := ih (xVar vp c.lhs).2 hvp' (fun c hc => hcs c (by simp [hc]))
    refine ⟨({ lhs := (mentVar vp c.lhs).1.1, rel := c.rel, rhs := c.rhs }, [(mentVar vp c.lhs).1]) :: L, ?_, ?_, ?_, ?_⟩
    · rw [xHcons_cons]; simp only [mapMOpt, hd, hL1]
    · simp [hL2, mentVar_fst_fst]
    · simp only [List.flatMap_cons, hL3, List.map_cons, SimpleL.mentVars_cons, xVar_snd]; rfl
    · rw [xHcons_cons]
      show (xHcons (xVar vp c.lhs).2 rest).2 = _
      rw [hL4, xVar_snd]; rfl

theorem mapMOpt_xIcons : ∀ (cs : List Cons) (vp : Dict Props), PropsOK vp →
    (∀ c ∈ cs, lower c.lhs = c.lhs ∧ lower c.rhs = c.rhs) →
    ∃ L, mapMOpt dIcons (xIcons vp cs).1 = some L ∧ L.map (·.1) = cs
      ∧ L.flatMap (·.2) = (mentVars vp (cs.flatMap (fun c => [c.lhs, c.rhs]))).1 := by
  intro cs
  induction cs with
  | nil => intro vp _ _; exact ⟨[], rfl, rfl, rfl⟩
  | cons c rest ih =>
    intro vp hvp hcs
    obtain ⟨h1, h2⟩ := hcs c (by simp)
    have hvp1 : PropsOK (xVar vp c.lhs).2 := by rw [xVar_snd]; exact PropsOK_mentVar hvp _
    have hvp2 : PropsOK (xVar (xVar vp c.lhs).2 c.rhs).2 := by rw [xVar_snd]; exact PropsOK_mentVar hvp1 _
    have hd := dIcons_node c.rel _ _ _ _ (xVar_tag vp c.lhs) (xVar_tag (xVar vp c.lhs).2 c.rhs)
      (dVar_xVar vp c.lhs hvp h1) (dVar_xVar _ c.rhs hvp1 h2)
    obtain ⟨L, hL1, hL2, hL3⟩ := ih _ hvp2 (fun c hc => hcs c (by simp [hc]))
    refine ⟨({ lhs := (mentVar vp c.lhs).1.1, rel := c.rel, rhs := (mentVar (xVar vp c.lhs).2 c.rhs).1.1 },
        [(mentVar vp c.lhs).1, (mentVar (xVar vp c.lhs).2 c.rhs).1]) :: L, ?_, ?_, ?_⟩
    · rw [xIcons_cons]; simp only [mapMOpt, hd, hL1]
    · simp [hL2, mentVar_fst_fst]
    · simp only [List.flatMap_cons, hL3, List.cons_append, List.nil_append, SimpleL.mentVars_cons, xVar_snd]

/-! ### layer 7: iter / find on the mrs node -/

def T3 (t : String) : Prop := t = "ep" ∨ t = "hcons" ∨ t = "icons" ∨ t = "mrs"

theorem iterL_append (t : String) (a b : List Xml) : Xml.iterL t (a ++ b) = Xml.iterL t a ++ Xml.iterL t b := by
  induction a with
  | nil => simp [Xml.iterL]
  | cons x xs ih => simp [Xml.iterL, ih]

theorem iterL_extrapair_nil (t : String) (ht : T3 t) (ps : List (Str × Str)) :
    Xml.iterL t (ps.map xExtrapair) = [] := by
  induction ps with
  | nil => simp [Xml.iterL]
  | cons p ps ih =>
    simp only [List.map_cons, Xml.iterL, ih]
    rcases ht with rfl | rfl | rfl | rfl <;> simp [xExtrapair, xEl, xTx, Xml.iter, Xml.iterL]

theorem iter_xVar (t : String) (ht : T3 t) (vp : Dict Props) (v : Str) : Xml.iter t (xVar vp v).1 = [] := by
  rw [xVar_fst]
  simp only [xEl, Xml.iter, iterL_extrapair_nil t ht]
  rcases ht with rfl | rfl | rfl | rfl <;> simp

theorem iter_xLabel (t : String) (ht : T3 t) (l : Str) : Xml.iter t (xLabel l) = [] := by
  rcases ht with rfl | rfl | rfl | rfl <;> simp [xLabel, xEl, Xml.iter, Xml.iterL]

theorem iter_xPred (t : String) (ht : T3 t) (p : Str) : Xml.iter t (xPred p) = [] := by
  unfold xPred
  split
  · rcases ht with rfl | rfl | rfl | rfl <;> simp [xEl, Xml.iter, Xml.iterL]
  · split <;> rcases ht with rfl | rfl | rfl | rfl <;> simp [xTx, Xml.iter, Xml.iterL]

theorem iterL_xArgs (t : String) (ht : T3 t) : ∀ (as : Dict Str) (vp : Dict Props), Xml.iterL t (xArgs vp as).1 = [] := by
  intro as
  induction as with
  | nil => intro vp; simp [xArgs, Xml.iterL]
  | cons a rest ih =>
    intro vp
    obtain ⟨role, val⟩ := a
    by_cases hr : role = CARG
    · subst hr
      rw [xArgs_carg]
      simp only [Xml.iterL, ih]
      rcases ht with rfl | rfl | rfl | rfl <;> simp [xEl, xTx, Xml.iter, Xml.iterL]
    · rw [xArgs_var _ _ _ _ hr]
      simp only [Xml.iterL, ih]
      have hx := iter_xVar t ht vp val
      rcases ht with rfl | rfl | rfl | rfl <;> simp [xEl, xTx, Xml.iter, Xml.iterL, hx]

theorem iter_xEp (t : String) (ht : T3 t) (o : Opts) (vp : Dict Props) (e : EP) :
    Xml.iter t (xEp o vp e).1 = if t = "ep" then [(xEp o vp e).1] else [] := by
  rw [xEp_eq]
  simp only [xEl, Xml.iter, Xml.iterL, iter_xPred t ht, iter_xLabel t ht, iterL_xArgs t ht]
  rcases ht with rfl | rfl | rfl | rfl <;> simp

theorem iterL_xEps (t : String) (ht : T3 t) (o : Opts) : ∀ (es : List EP) (vp : Dict Props),
    Xml.iterL t (xEps o vp es).1 = if t = "ep" then (xEps o vp es).1 else [] := by
  intro es
  induction es with
  | nil => intro vp; simp [xEps, Xml.iterL]
  | cons e rest ih =>
    intro vp
    rw [xEps_cons]
    simp only [Xml.iterL, ih, iter_xEp t ht]
    split <;> simp

theorem iterL_xHcons (t : String) (ht : T3 t) : ∀ (cs : List Cons) (vp : Dict Props),
    Xml.iterL t (xHcons vp cs).1 = if t = "hcons" then (xHcons vp cs).1 else [] := by
  intro cs
  induction cs with
  | nil => intro vp; simp [xHcons, Xml.iterL]
  | cons c rest ih =>
    intro vp
    rw [xHcons_cons]
    simp only [Xml.iterL, ih]
    have hx := iter_xVar t ht vp c.lhs
    have hl := iter_xLabel t ht c.rhs
    rcases ht with rfl | rfl | rfl | rfl <;> simp [xEl, Xml.iter, Xml.iterL, hx, hl]

theorem iterL_xIcons (t : String) (ht : T3 t) : ∀ (cs : List Cons) (vp : Dict Props),
    Xml.iterL t (xIcons vp cs).1 = if t = "icons" then (xIcons vp cs).1 else [] := by
  intro cs
  induction cs with
  | nil => intro vp; simp [xIcons, Xml.iterL]
  | cons c rest ih =>
    intro vp
    rw [xIcons_cons]
    simp only [Xml.iterL, ih]
    have hx := iter_xVar t ht vp c.lhs
    have hy := iter_xVar t ht (xVar vp c.lhs).2 c.rhs
    rcases ht with rfl | rfl | rfl | rfl <;> simp [xEl, Xml.iter, Xml.iterL, hx, hy]

theorem xEps_tags (o : Opts) : ∀ (es : List EP) (vp : Dict Props), ∀ x ∈ (xEps o vp es).1, x.tag = "ep" := by
  intro es
  induction es with
  | nil => intro vp x hx; simp [xEps] at hx
  | cons e rest ih =>
    intro vp x hx
    rw [xEps_cons] at hx
    simp only [List.mem_cons] at hx
    rcases hx with hx | hx
    · subst hx; rfl
    · exact ih _ x hx

theorem xHcons_tags : ∀ (cs : List Cons) (vp : Dict Props), ∀ x ∈ (xHcons vp cs).1, x.tag = "hcons" := by
  intro cs
  induction cs with
  | nil => intro vp x hx; simp [xHcons] at hx
  | cons c rest ih =>
    intro vp x hx
    rw [xHcons_cons] at hx
    simp only [List.mem_cons] at hx
    rcases hx with hx | hx
    · subst hx; rfl
    · exact ih _ x hx

theorem xIcons_tags : ∀ (cs : List Cons) (vp : Dict Props), ∀ x ∈ (xIcons vp cs).1, x.tag = "icons" := by
  intro cs
  induction cs with
  | nil => intro vp x hx; simp [xIcons] at hx
  | cons c rest ih =>
    intro vp x hx
    rw [xIcons_cons] at hx
    simp only [List.mem_cons] at hx
    rcases hx with hx | hx
    · subst hx; rfl
    · exact ih _ x hx

theorem find_none (l : List Xml) (s t : String) (h : ∀ x ∈ l, x.tag = s) (hne : s ≠ t) :
    l.find? (fun x => decide (x.tag = t)) = none := by
  rw [List.find?_eq_none]
  intro x hx
  simp [h x hx, hne]

/-! ### layer 8: assembly -/

def ixPair (vp0 : Dict Props) (ix : Option Str) : List Xml × Dict Props :=
  match ix with
  | none => ([], vp0)
  | some i => ([(xVar vp0 i).1], (xVar vp0 i).2)

def topX (top : Option Str) : List Xml := match top with | none => [] | some t => [xLabel t]

def mrsAttrs (o : Opts) (m : MRS) : List (String × Str) :=
  (if o.lnk then [("cfrom", intStr m.lnk.cfrom), ("cto", intStr m.lnk.cto)]
      ++ (match m.surface with | none => [] | some s => [("surface", s)]) else [])
    ++ (match m.ident with | none => [] | some s => [("ident", s)])

theorem toXml_eq (o : Opts) (m : MRS) (vp0 : Dict Props) (hvp : vp0 = if o.properties then m.vars else []) :
    toXml o m = xEl "mrs" (mrsAttrs o m)
      (topX m.top ++ (ixPair vp0 m.index).1 ++ (xEps o (ixPair vp0 m.index).2 m.rels).1
        ++ (xHcons (xEps o (ixPair vp0 m.index).2 m.rels).2 m.hcons).1
        ++ (xIcons (xHcons (xEps o (ixPair vp0 m.index).2 m.rels).2 m.hcons).2 m.icons).1) := by
  subst hvp
  unfold toXml ixPair mrsAttrs topX
  cases m.index <;> rfl

theorem ixPair_snd (vp0 : Dict Props) (ix : Option Str) : (ixPair vp0 ix).2 = (mentVars vp0 ix.toList).2 := by
  cases ix with
  | none => rfl
  | some i => exact xVar_snd vp0 i

theorem ixPair_tags (vp0 : Dict Props) (ix : Option Str) : ∀ x ∈ (ixPair vp0 ix).1, x.tag = "var" := by
  cases ix with
  | none => intro x hx; simp [ixPair] at hx
  | some i => intro x hx; simp [ixPair] at hx; subst hx; exact xVar_tag vp0 i

theorem ixPair_iter (t : String) (ht : T3 t) (vp0 : Dict Props) (ix : Option Str) :
    Xml.iterL t (ixPair vp0 ix).1 = [] := by
  cases ix with
  | none => simp [ixPair, Xml.iterL]
  | some i => simp [ixPair, Xml.iterL, iter_xVar t ht]

theorem topX_tags (top : Option Str) : ∀ x ∈ topX top, x.tag = "label" := by
  cases top with
  | none => intro x hx; simp [topX] at hx
  | some t => intro x hx; simp [topX] at hx; subst hx; rfl

theorem topX_iter (t : String) (ht : T3 t) (top : Option Str) : Xml.iterL t (topX top) = [] := by
  cases top with
  | none => simp [topX, Xml.iterL]
  | some i => simp [topX, Xml.iterL, iter_xLabel t ht]

theorem mrsAttrs_look (o : Opts) (m : MRS) (cs : List Xml) :
    dLnk ((xEl "mrs" (mrsAttrs o m) cs).attr "cfrom") ((xEl "mrs" (mrsAttrs o m) cs).attr "cto")
        = some (if o.lnk then .charspan m.lnk.cfrom m.lnk.cto else .unspec)
      ∧ (xEl "mrs" (mrsAttrs o m) cs).attr "surface" = (if o.lnk then m.surface else none)
      ∧ (xEl "mrs" (mrsAttrs o m) cs).attr "ident" = m.ident := by
  obtain ⟨pr, lk⟩ := o
  obtain ⟨_, _, _, _, _, _, ml, ms, mi⟩ := m
  cases lk <;> cases ms <;> cases mi <;>
    simp [mrsAttrs, Xml.attr, xEl, Xml.attrs, dLnk, parseInt_intStr]

theorem find_label (at_ : List (String × Str)) (top : Option Str) (B E H I : List Xml)
    (hB : ∀ x ∈ B, x.tag = "var") (hE : ∀ x ∈ E, x.tag = "ep") (hH : ∀ x ∈ H, x.tag = "hcons")
    (hI : ∀ x ∈ I, x.tag = "icons") :
    (xEl "mrs" at_ (topX top ++ B ++ E ++ H ++ I)).find "label" = top.map xLabel := by
  simp only [Xml.find, xEl, Xml.children, List.find?_append, find_none B "var" "label" hB (by decide),
    find_none E "ep" "label" hE (by decide), find_none H "hcons" "label" hH (by decide),
    find_none I "icons" "label" hI (by decide), Option.or_none]
  cases top with
  | none => simp [topX]
  | some t => simp [topX, xLabel_tag]

theorem find_var (at_ : List (String × Str)) (top ix : Option Str) (vp0 : Dict Props) (E H I : List Xml)
    (hE : ∀ x ∈ E, x.tag = "ep") (hH : ∀ x ∈ H, x.tag = "hcons")
    (hI : ∀ x ∈ I, x.tag = "icons") :
    (xEl "mrs" at_ (topX top ++ (ixPair vp0 ix).1 ++ E ++ H ++ I)).find "var"
      = ix.map (fun i => (xVar vp0 i).1) := by
  simp only [Xml.find, xEl, Xml.children, List.find?_append,
    find_none (topX top) "label" "var" (topX_tags top) (by decide),
    find_none E "ep" "var" hE (by decide), find_none H "hcons" "var" hH (by decide),
    find_none I "icons" "var" hI (by decide), Option.or_none, Option.none_or]
  cases ix with
  | none => simp [ixPair]
  | some i => simp [ixPair, xVar_tag]

/-- no element below the `mrs` node the encoder builds has the tag `mrs`. -/
theorem iter_mrs_toXml (o : Opts) (m : MRS) : Xml.iter "mrs" (toXml o m) = [toXml o m] := by
  have e4 : T3 "mrs" := Or.inr (Or.inr (Or.inr rfl))
  rw [toXml_eq o m _ rfl]
  have a1 := iterL_xEps "mrs" e4 o m.rels (ixPair (if o.properties = true then m.vars else []) m.index).2
  have a2 := iterL_xHcons "mrs" e4 m.hcons (xEps o (ixPair (if o.properties = true then m.vars else []) m.index).2 m.rels).2
  have a3 := iterL_xIcons "mrs" e4 m.icons
    (xHcons (xEps o (ixPair (if o.properties = true then m.vars else []) m.index).2 m.rels).2 m.hcons).2
  simp [xEl, Xml.iter, iterL_append, topX_iter "mrs" e4, ixPair_iter "mrs" e4, a1, a2, a3]

end Verif.C01.MrxL

namespace Verif.C01
open Verif.Codec Verif.Tables Verif.C01.SimpleL Verif.C01.MrxL

theorem ofXml_toXml (o : Opts) (m : MRS) (h : ExprX m) : ofXml (toXml o m) = some (decodedX o m) := by
  have hvp0 : PropsOK (if o.properties = true then m.vars else []) := by
    cases o.properties
    · intro p hp; simp at hp
    · exact fun p hp => h.props p hp
  rw [toXml_eq o m _ rfl]
  unfold decodedX mentionsX varPositionsX
  generalize (if o.properties = true then m.vars else []) = vp0 at hvp0 ⊢
  have hvp1 : PropsOK (ixPair vp0 m.index).2 := by rw [ixPair_snd]; exact PropsOK_mentVars _ _ hvp0
  obtain ⟨LE, hE1, hE2, hE3, hE4⟩ := mapMOpt_xEps o m.rels (ixPair vp0 m.index).2 hvp1
    (fun e he => ⟨h.labels e he, h.preds e he, h.roles e he, h.rolesNodup e he, h.vals e he⟩)
  have hvp2 : PropsOK (xEps o (ixPair vp0 m.index).2 m.rels).2 := by rw [hE4]; exact PropsOK_mentVars _ _ hvp1
  obtain ⟨LH, hH1, hH2, hH3, hH4⟩ := mapMOpt_xHcons m.hcons _ hvp2 h.hcons
  have hvp3 : PropsOK (xHcons (xEps o (ixPair vp0 m.index).2 m.rels).2 m.hcons).2 := by
    rw [hH4]; exact PropsOK_mentVars _ _ hvp2
  obtain ⟨LI, hI1, hI2, hI3⟩ := mapMOpt_xIcons m.icons _ hvp3 h.icons
  have tE := xEps_tags o m.rels (ixPair vp0 m.index).2
  have tH := xHcons_tags m.hcons (xEps o (ixPair vp0 m.index).2 m.rels).2
  have tI := xIcons_tags m.icons (xHcons (xEps o (ixPair vp0 m.index).2 m.rels).2 m.hcons).2
  have e1 : T3 "ep" := Or.inl rfl
  have e2 : T3 "hcons" := Or.inr (Or.inl rfl)
  have e3 : T3 "icons" := Or.inr (Or.inr (Or.inl rfl))
  generalize hEd : (xEps o (ixPair vp0 m.index).2 m.rels).1 = E at *
  generalize hHd : (xHcons (xEps o (ixPair vp0 m.index).2 m.rels).2 m.hcons).1 = H at *
  generalize hId : (xIcons (xHcons (xEps o (ixPair vp0 m.index).2 m.rels).2 m.hcons).2 m.icons).1 = I at *
  have iterE : Xml.iter "ep" (xEl "mrs" (mrsAttrs o m) (topX m.top ++ (ixPair vp0 m.index).1 ++ E ++ H ++ I)) = E := by
    have a1 := iterL_xEps "ep" e1 o m.rels (ixPair vp0 m.index).2
    have a2 := iterL_xHcons "ep" e1 m.hcons (xEps o (ixPair vp0 m.index).2 m.rels).2
    have a3 := iterL_xIcons "ep" e1 m.icons (xHcons (xEps o (ixPair vp0 m.index).2 m.rels).2 m.hcons).2
    rw [hEd] at a1; rw [hHd] at a2; rw [hId] at a3
    simp [xEl, Xml.iter, iterL_append, topX_iter "ep" e1, ixPair_iter "ep" e1, a1, a2, a3]
  have iterH : Xml.iter "hcons" (xEl "mrs" (mrsAttrs o m) (topX m.top ++ (ixPair vp0 m.index).1 ++ E ++ H ++ I)) = H := by
    have a1 := iterL_xEps "hcons" e2 o m.rels (ixPair vp0 m.index).2
    have a2 := iterL_xHcons "hcons" e2 m.hcons (xEps o (ixPair vp0 m.index).2 m.rels).2
    have a3 := iterL_xIcons "hcons" e2 m.icons (xHcons (xEps o (ixPair vp0 m.index).2 m.rels).2 m.hcons).2
    rw [hEd] at a1; rw [hHd] at a2; rw [hId] at a3
    simp [xEl, Xml.iter, iterL_append, topX_iter "hcons" e2, ixPair_iter "hcons" e2, a1, a2, a3]
  have iterI : Xml.iter "icons" (xEl "mrs" (mrsAttrs o m) (topX m.top ++ (ixPair vp0 m.index).1 ++ E ++ H ++ I)) = I := by
    have a1 := iterL_xEps "icons" e3 o m.rels (ixPair vp0 m.index).2
    have a2 := iterL_xHcons "icons" e3 m.hcons (xEps o (ixPair vp0 m.index).2 m.rels).2
    have a3 := iterL_xIcons "icons" e3 m.icons (xHcons (xEps o (ixPair vp0 m.index).2 m.rels).2 m.hcons).2
    rw [hEd] at a1; rw [hHd] at a2; rw [hId] at a3
    simp [xEl, Xml.iter, iterL_append, topX_iter "icons" e3, ixPair_iter "icons" e3, a1, a2, a3]
  obtain ⟨k1, k2, k3⟩ := mrsAttrs_look o m (topX m.top ++ (ixPair vp0 m.index).1 ++ E ++ H ++ I)
  have fl := find_label (mrsAttrs o m) m.top (ixPair vp0 m.index).1 E H I (ixPair_tags vp0 m.index) tE tH tI
  have fv := find_var (mrsAttrs o m) m.top m.index vp0 E H I tE tH tI
  have i2 : (Option.map (fun i => (mentVar vp0 i).1) m.index).toList = (mentVars vp0 m.index.toList).1 := by
    cases m.index <;> rfl
  have hm : (mentVars vp0 (m.index.toList ++ List.flatMap epVarPos m.rels ++ List.map (fun x => x.lhs) m.hcons
        ++ List.flatMap (fun c => [c.lhs, c.rhs]) m.icons)).1
      = (Option.map (fun i => (mentVar vp0 i).1) m.index).toList ++ LE.flatMap (·.2) ++ LH.flatMap (·.2)
          ++ LI.flatMap (·.2) := by
    rw [hE3, hH3, hI3, hH4, hE4, ixPair_snd, i2]; simp only [SimpleL.mentVars_append]
  have hl' : ∀ t, m.top = some t → dLabel (xLabel t) = some t := fun t ht => dLabel_xLabel t (h.top t ht)
  have hv' : ∀ i, m.index = some i → dVar (xVar vp0 i).1 = some (mentVar vp0 i).1 :=
    fun i hi => dVar_xVar vp0 i hvp0 (h.index i hi)
  unfold ofXml
  rw [fl, fv, iterE, iterH, iterI, hE1, hH1, hI1, k1, k2, k3, hm]
  generalize m.top = top at hl' ⊢
  generalize m.index = index at hv' ⊢
  cases top <;> cases index <;>
    simp [hl', hv', hE2, hH2, hI2, mentVar_fst_fst]

end Verif.C01
