/-
C01 — model of the MRS codecs of /repo (delphin/codecs/simplemrs.py, mrsjson.py, mrx.py) at the
level of their intermediate forms:

  SimpleMRS  token list of `SimpleMRSLexer` (kind + group text)   `toks` / `parse` / `parseMany`
  MRS-JSON   the dictionary of `to_dict`                          `toDict` / `fromDict`
  MRX        the ElementTree built by `_encode_mrs`               `toXml` / `ofXml`

Character level: `escapeDQ`/`unescapeDQ`/`scanDQ` and `Lnk` live in Verif/Common/Codec.lean.
The text layout of the encoders (blanks, line breaks, indentation) and the regex lexer itself are
not modelled here: the harness ties `toks` to the real code by running the real lexer on the real
encoder's output, and ties `parse` to the real decoder on real token streams.

Python dicts are insertion-ordered association lists (`Dict`); the decoders' insertion order is
modelled exactly (it is observable through MRS-JSON re-encoding).
-/
import Verif.Common.Codec
import Verif.Generated.TablesC01

namespace Verif.C01
open Verif.Codec Verif.Tables

/-! ## Python helpers -/

abbrev Dict (β : Type) := List (Str × β)

def dget {β} (d : Dict β) (k : Str) : Option β :=
  match d with
  | [] => none
  | (k', v) :: r => if k' = k then some v else dget r k

def dhas {β} (d : Dict β) (k : Str) : Bool := (dget d k).isSome

/-- `d[k] = v`: overwrite in place or append. -/
def dset {β} : Dict β → Str → β → Dict β
  | [], k, v => [(k, v)]
  | (k', v') :: r, k, v => if k' = k then (k, v) :: r else (k', v') :: dset r k v

/-- `del d[k]` (for a key that may be absent: no-op). -/
def ddel {β} : Dict β → Str → Dict β
  | [], _ => []
  | (k', v') :: r, k => if k' = k then r else (k', v') :: ddel r k

def dkeys {β} (d : Dict β) : List Str := d.map (·.1)

/-- `variables.setdefault(v, {})` / `if v not in vars: vars[v] = {}`. -/
def declare {β} [Inhabited β] (d : Dict β) (k : Str) : Dict β :=
  if dhas d k then d else d ++ [(k, default)]

def lowerC (c : Char) : Char := if 'A' ≤ c ∧ c ≤ 'Z' then Char.ofNat (c.toNat + 32) else c
def upperC (c : Char) : Char := if 'a' ≤ c ∧ c ≤ 'z' then Char.ofNat (c.toNat - 32) else c
/-- `str.lower()` / `str.upper()` on the ASCII range (generated atoms that get case-folded are
restricted to characters on which Python agrees with this). -/
def lower (s : Str) : Str := s.map lowerC
def upper (s : Str) : Str := s.map upperC

/-- Python `\s` (str patterns): `str.isspace()` characters. -/
def isPySpace (c : Char) : Bool :=
  let n := c.toNat
  (9 ≤ n && n ≤ 13) || (28 ≤ n && n ≤ 32) || n = 0x85 || n = 0xA0 || n = 0x1680
  || (0x2000 ≤ n && n ≤ 0x200A) || n = 0x2028 || n = 0x2029 || n = 0x202F || n = 0x205F || n = 0x3000

def strLt : Str → Str → Bool
  | [], [] => false
  | [], _ :: _ => true
  | _ :: _, [] => false
  | a :: as, b :: bs => if a.toNat < b.toNat then true else if b.toNat < a.toNat then false else strLt as bs

def strLe (a b : Str) : Bool := !strLt b a

/-- stable insertion sort (`sorted(xs, key=…)` with `le` = key comparison `≤`). -/
def insertBy {α} (le : α → α → Bool) (x : α) : List α → List α
  | [] => [x]
  | y :: ys => if le x y then x :: y :: ys else y :: insertBy le x ys

def sortBy {α} (le : α → α → Bool) : List α → List α
  | [] => []
  | x :: xs => insertBy le x (sortBy le xs)

def S (s : String) : Str := s.toList

/-! ## sembase.role_priority / property_priority -/

def roleKey (r : Str) : Bool × Bool × Str :=
  let u := upper r
  (u ≠ S "LBL", u = S "BODY" ∨ u = S "CARG", u)

def boolLt (a b : Bool) : Bool := !a && b

def roleLe (a b : Str) : Bool :=
  let (a1, a2, a3) := roleKey a
  let (b1, b2, b3) := roleKey b
  boolLt a1 b1 || (a1 == b1 && (boolLt a2 b2 || (a2 == b2 && strLe a3 b3)))

def propIndex (p : Str) : Nat :=
  (c01CommonProperties.map S).idxOf (upper p)

def propLe (a b : Str) : Bool :=
  propIndex a < propIndex b || (propIndex a == propIndex b && strLe a b)

abbrev Props := Dict Str

def sortProps (ps : Props) : Props := sortBy (fun a b => propLe a.1 b.1) ps
def sortArgs (as : Dict Str) : Dict Str := sortBy (fun a b => roleLe a.1 b.1) as

/-! ## variable.split / predicate.* -/

def isDigitC (c : Char) : Bool := '0' ≤ c ∧ c ≤ '9'

/-- `variable.split(v)` on variables whose trailing digits are ASCII: (sort, vid). -/
def varSplit (v : Str) : Str × Str :=
  let vid := (v.reverse.takeWhile isDigitC).reverse
  (v.take (v.length - vid.length), vid)

def varSort (v : Str) : Str := (varSplit v).1
def varVid (v : Str) : Str := (varSplit v).2

/-- conservative `variable.is_valid`: sort is a non-empty string of ASCII letters, `-`, `_` followed
by a non-empty run of digits (sub-language of `^([-\w]*[^\s\d])(\d+)$`). -/
def validVar (v : Str) : Bool :=
  let (s, d) := varSplit v
  !s.isEmpty && !d.isEmpty && s.all (fun c => c.isAlpha || c = '-' || c = '_')

/-- `predicate._strip_predicate` then `.lower()` = `predicate.normalize`. -/
def stripPred (s : Str) : Str :=
  let s1 :=
    if s.head? = some '"' ∧ s.getLast? = some '"' then s.tail.dropLast
    else if s.head? = some '\'' then s.tail
    else s
  if lower (s1.drop (s1.length - 4)) = S "_rel" then s1.take (s1.length - 4) else s1

def normalizePred (s : Str) : Str := lower (stripPred s)

def splitU : Str → List Str := Verif.Py.splitOn '_'

def isPos (c : Char) : Bool := c01Pos.contains (lowerC c)

def goodPart (p : Str) : Bool := !p.isEmpty && p.all (fun c => !isPySpace c)

/-- `predicate.is_surface` on a string that `_strip_predicate` leaves unchanged:
`_lemma_pos(_sense)?` with underscore-free, blank-free, non-empty lemma and sense. -/
def isSurface (p : Str) : Bool :=
  match splitU p with
  | [[], l, [c]] => goodPart l && isPos c
  | [[], l, [c], s] => goodPart l && isPos c && goodPart s
  | _ => false

/-- `predicate.is_abstract` (same proviso): `[^\s_]\S*`. -/
def isAbstract (p : Str) : Bool :=
  match p with
  | [] => false
  | c :: _ => c ≠ '_' && p.all (fun c => !isPySpace c)

/-- `predicate.split` for a surface predicate: (lemma, pos, sense). -/
def splitSurface (p : Str) : Option (Str × Str × Option Str) :=
  match splitU p with
  | [[], l, [c]] => some (l, [c], none)
  | [[], l, [c], s] => some (l, [c], some s)
  | _ => none

/-- `predicate.create(lemma, pos, sense)` (`none` = PredicateError). -/
def createPred (l pos : Str) (sense : Option Str) : Option Str :=
  if !(goodPart l && l.all (· ≠ '_')) then none
  else match pos with
    | [c] =>
      if !isPos c then none
      else match sense with
        | none => some ('_' :: l ++ '_' :: pos)
        | some s =>
          if !(goodPart s && s.all (· ≠ '_')) then none
          else some ('_' :: l ++ '_' :: pos ++ '_' :: s)
    | _ => none

/-! ## the MRS object -/

structure EP where
  pred : Str
  label : Str
  args : Dict Str
  lnk : Lnk := .unspec
  surface : Option Str := none
  base : Option Str := none
deriving Repr, DecidableEq

structure Cons where
  lhs : Str
  rel : Str
  rhs : Str
deriving Repr, DecidableEq

structure MRS where
  top : Option Str
  index : Option Str
  rels : List EP
  hcons : List Cons
  icons : List Cons
  vars : Dict Props
  lnk : Lnk := .unspec
  surface : Option Str := none
  ident : Option Str := none
deriving Repr, DecidableEq

structure Opts where
  properties : Bool
  lnk : Bool
deriving Repr, DecidableEq

def CARG : Str := S c01ConstantRole

def declOpt (d : Dict Props) : Option Str → Dict Props
  | none => d
  | some v => declare d v

/-- the non-constant argument values of an EP in dict order. -/
def epArgVars (ep : EP) : List Str := (ep.args.filter (fun a => a.1 ≠ CARG)).map (·.2)

/-- the variables `_fill_variables` visits, in its order. -/
def fillOrder (top index : Option Str) (rels : List EP) (hcons icons : List Cons) : List Str :=
  top.toList ++ index.toList ++ rels.flatMap (fun ep => ep.label :: epArgVars ep)
    ++ hcons.flatMap (fun c => [c.rhs, c.lhs]) ++ icons.flatMap (fun c => [c.lhs, c.rhs])

/-- `_fill_variables`. -/
def fillVars (vars : Dict Props) (top index : Option Str) (rels : List EP) (hcons icons : List Cons) : Dict Props :=
  (fillOrder top index rels hcons icons).foldl declare vars

/-- `MRS(top, index, rels, hcons, icons, variables, lnk, surface, identifier)`. -/
def mkMRS (top index : Option Str) (rels : List EP) (hcons icons : List Cons) (vars : Dict Props)
    (lnk : Lnk) (surface ident : Option Str) : MRS :=
  { top, index, rels, hcons, icons, vars := fillVars vars top index rels hcons icons, lnk, surface, ident }

/-! ## SimpleMRS: tokens -/

inductive K where
  | lbrack | rbrack | lnk | dq | sq | pred | langle | rangle | feature | symbol
deriving Repr, DecidableEq

abbrev T := Tok K

def tk (k : K) (s : Str) : T := ⟨k, s⟩
def tLB : T := tk .lbrack ['[']
def tRB : T := tk .rbrack [']']
def tLA : T := tk .langle ['<']
def tRA : T := tk .rangle ['>']
def tF (s : Str) : T := tk .feature s
def tS (s : Str) : T := tk .symbol s
def tDQ (s : Str) : T := tk .dq (escapeDQ s)

/-- `re.search(r"[\s\"':<>[\]]", predicate)`. -/
def needsQuote (p : Str) : Bool :=
  p.any (fun c => isPySpace c || c = '"' || c = '\'' || c = ':' || c = '<' || c = '>' || c = '[' || c = ']')

/-- `_encode_predicate`, as the token the lexer makes of it (an unquoted surface predicate is a
PREDICATE token, any other unquoted one a SYMBOL token). -/
def predTok (p : Str) : T :=
  if needsQuote p then tDQ p else if isSurface p then tk .pred p else tS p

def propToks (ps : Props) : List T := (sortProps ps).flatMap (fun kv => [tF kv.1, tS kv.2])

/-- `_encode_variable(var, varprops)`: tokens and the remaining `varprops`. -/
def encVar (vp : Dict Props) (v : Str) : List T × Dict Props :=
  match dget vp v with
  | none => ([tS v], vp)
  | some ps =>
    if ps.isEmpty then ([tS v], vp)
    else (tS v :: tLB :: tS (varSort v) :: propToks ps ++ [tRB], ddel vp v)

def lnkToks (l : Lnk) : List T := if l.str.isEmpty then [] else [tk .lnk l.str]

def optDQ : Option Str → List T
  | none => []
  | some s => [tDQ s]

/-- role/value pairs of one EP in `sorted(rel.args, key=role_priority)` order. -/
def encArgs : Dict Props → Dict Str → List T × Dict Props
  | vp, [] => ([], vp)
  | vp, (role, val) :: rest =>
    if role = CARG then
      let (ts, vp') := encArgs vp rest
      (tF role :: tDQ val :: ts, vp')
    else
      let (t1, vp1) := encVar vp val
      let (ts, vp') := encArgs vp1 rest
      (tF role :: t1 ++ ts, vp')

def encRel (o : Opts) (vp : Dict Props) (ep : EP) : List T × Dict Props :=
  let (as, vp') := encArgs vp (sortArgs ep.args)
  (tLB :: predTok ep.pred :: (if o.lnk then lnkToks ep.lnk ++ optDQ ep.surface else [])
     ++ tF (S "LBL") :: tS ep.label :: as ++ [tRB], vp')

def encRels (o : Opts) : Dict Props → List EP → List T × Dict Props
  | vp, [] => ([], vp)
  | vp, ep :: rest =>
    let (t1, vp1) := encRel o vp ep
    let (ts, vp') := encRels o vp1 rest
    (t1 ++ ts, vp')

def encHcons (hs : List Cons) : List T := hs.flatMap (fun c => [tS c.lhs, tS c.rel, tS c.rhs])

def encIcons : Dict Props → List Cons → List T × Dict Props
  | vp, [] => ([], vp)
  | vp, c :: rest =>
    let (t1, vp1) := encVar vp c.lhs
    let (t2, vp2) := encVar vp1 c.rhs
    let (ts, vp') := encIcons vp2 rest
    (t1 ++ tS c.rel :: t2 ++ ts, vp')

def section_ (name : String) (ts : List T) : List T :=
  if ts.isEmpty then [] else tF (S name) :: tLA :: ts ++ [tRA]

/-- `_encode_mrs` as a token list. -/
def toks (o : Opts) (m : MRS) : List T :=
  let vp0 : Dict Props := if o.properties then m.vars else []
  let surf := if o.lnk then (if m.lnk.truthy then lnkToks m.lnk else []) ++ optDQ m.surface else []
  let topT := match m.top with | none => [] | some t => [tF (S c01TopFeature), tS t]
  let (ixT, vp1) := match m.index with
    | none => (([] : List T), vp0)
    | some i => let (t, vp) := encVar vp0 i; (tF (S "INDEX") :: t, vp)
  let (relT, vp2) := encRels o vp1 m.rels
  let (icT, _) := encIcons vp2 m.icons
  tLB :: surf ++ topT ++ ixT ++ section_ "RELS" relT ++ section_ "HCONS" (encHcons m.hcons)
    ++ section_ "ICONS" icT ++ [tRB]

/-- what makes `_encode_mrs` raise ValueError: `variable.type` of a variable whose properties
are written.  (`true` = no exception.) -/
def simpleEncodable (o : Opts) (m : MRS) : Bool :=
  !o.properties || m.vars.all (fun vp => vp.2.isEmpty || validVar vp.1 || !(
    (m.index.toList ++ m.rels.flatMap epArgVars ++ m.icons.flatMap (fun c => [c.lhs, c.rhs])).contains vp.1))

/-! ## SimpleMRS: recursive-descent decoder on tokens -/

inductive E where
  | syntax   -- MRSSyntaxError from expect/choice
  | eof      -- StopIteration: the token stream ended
  | value    -- ValueError('invalid feature')
deriving Repr, DecidableEq

/-- a call of `_decode_variable`: the variable and the feature/value pairs of its bracket (if any). -/
abbrev Mention := Str × List (Str × Str)

def acc (k : K) : List T → Except E (Option Str × List T)
  | [] => .error .eof
  | t :: ts => if t.kind = k then .ok (some t.text, ts) else .ok (none, t :: ts)

def exp (k : K) : List T → Except E (Str × List T)
  | [] => .error .eof
  | t :: ts => if t.kind = k then .ok (t.text, ts) else .error .syntax

/-- the `while feature is not None` loop of `_decode_variable`. -/
def parseProps : List T → Except E (List (Str × Str) × List T)
  | [] => .error .eof
  | t :: ts =>
    if t.kind = K.feature then
      match ts with
      | [] => .error .eof
      | t2 :: ts2 =>
        if t2.kind = K.symbol then
          match parseProps ts2 with
          | .ok (ps, r) => .ok ((upper t.text, lower t2.text) :: ps, r)
          | .error e => .error e
        else .error .syntax
    else .ok ([], t :: ts)

/-- `_decode_variable`. -/
def parseVar (ts : List T) : Except E (Mention × List T) := do
  let (v, ts) ← exp .symbol ts
  let v := lower v
  let (lb, ts) ← acc .lbrack ts
  match lb with
  | none => pure ((v, []), ts)
  | some _ =>
    let (_, ts) ← acc .symbol ts
    let (ps, ts) ← parseProps ts
    let (_, ts) ← exp .rbrack ts
    pure ((v, ps), ts)

/-- the argument loop of `_decode_rel`; `fuel` bounds the number of iterations. -/
def parseArgs : Nat → List T → Except E (Dict Str × List Mention × List T)
  | 0, _ => .error .eof
  | fuel + 1, ts => do
    let (role, ts) ← acc .feature ts
    match role with
    | none => pure ([], [], ts)
    | some role =>
      let role := upper role
      if role = CARG then
        let (c, ts) ← exp .dq ts
        let (as, ms, ts) ← parseArgs fuel ts
        pure ((role, unescapeDQ c) :: as, ms, ts)
      else
        let (m, ts) ← parseVar ts
        let (as, ms, ts) ← parseArgs fuel ts
        pure ((role, m.1) :: as, m :: ms, ts)

/-- `args[role] = value` over the parsed pairs. -/
def mkArgs (pairs : List (Str × Str)) : Dict Str := pairs.foldl (fun d p => dset d p.1 p.2) []

/-- `_decode_predicate`. -/
def parsePred : List T → Except E (Str × List T)
  | [] => .error .eof
  | t :: ts =>
    if t.kind = K.dq then .ok (normalizePred (unescapeDQ t.text), ts)
    else if t.kind = K.sq ∨ t.kind = K.pred ∨ t.kind = K.symbol then .ok (normalizePred t.text, ts)
    else .error .syntax

def parseLnk (ts : List T) : Except E (Lnk × List T) := do
  let (l, ts) ← acc .lnk ts
  match l with
  | none => pure (.unspec, ts)
  | some s => match Lnk.parse s with
    | .ok l => pure (l, ts)
    | .error _ => .error .value

/-- `_decode_rel`. -/
def parseRel (ts : List T) : Except E (EP × List Mention × List T) := do
  let (_, ts) ← exp .lbrack ts
  let (pred, ts) ← parsePred ts
  let (lnk, ts) ← parseLnk ts
  let (surf, ts) ← acc .dq ts
  let (lbl, ts) ← exp .feature ts
  if lbl ≠ S "LBL" then .error .syntax else
  let (label, ts) ← exp .symbol ts
  let (as, ms, ts) ← parseArgs ts.length ts
  let (_, ts) ← exp .rbrack ts
  pure ({ pred, label := lower label, args := mkArgs as, lnk, surface := surf.map unescapeDQ, base := none }, ms, ts)

/-- `while lexer.peek()[0] == LBRACK: rels.append(_decode_rel(…))`. -/
def parseRels : Nat → List T → Except E (List EP × List Mention × List T)
  | 0, _ => .error .eof
  | _ + 1, [] => .error .eof
  | fuel + 1, t :: ts =>
    if t.kind = K.lbrack then do
      let (ep, m1, ts) ← parseRel (t :: ts)
      let (eps, ms, ts) ← parseRels fuel ts
      pure (ep :: eps, m1 ++ ms, ts)
    else pure ([], [], t :: ts)

/-- `_decode_cons`. -/
def parseCons (ts : List T) : Except E (Cons × List Mention × List T) := do
  let (l, ts) ← parseVar ts
  let (r, ts) ← exp .symbol ts
  let (rh, ts) ← parseVar ts
  pure ({ lhs := l.1, rel := lower r, rhs := rh.1 }, [l, rh], ts)

def parseConsList : Nat → List T → Except E (List Cons × List Mention × List T)
  | 0, _ => .error .eof
  | _ + 1, [] => .error .eof
  | fuel + 1, t :: ts =>
    if t.kind = K.symbol then do
      let (c, m1, ts) ← parseCons (t :: ts)
      let (cs, ms, ts) ← parseConsList fuel ts
      pure (c :: cs, m1 ++ ms, ts)
    else pure ([], [], t :: ts)

structure St where
  top : Option Str := none
  index : Option Str := none
  rels : List EP := []
  hcons : List Cons := []
  icons : List Cons := []
  ments : List Mention := []
deriving Repr

/-- the `while feature is not None` loop of `_decode_mrs` and the closing bracket. -/
def parseFeatures : Nat → St → List T → Except E (St × List T)
  | 0, _, _ => .error .eof
  | fuel + 1, st, ts => do
    let (f, ts) ← acc .feature ts
    match f with
    | none =>
      let (_, ts) ← exp .rbrack ts
      pure (st, ts)
    | some f =>
      let f := upper f
      if f = S "LTOP" ∨ f = S "TOP" then
        let (v, ts) ← exp .symbol ts
        parseFeatures fuel { st with top := some (lower v) } ts
      else if f = S "INDEX" then
        let (m, ts) ← parseVar ts
        parseFeatures fuel { st with index := some m.1, ments := st.ments ++ [m] } ts
      else if f = S "RELS" then
        let (_, ts) ← exp .langle ts
        let (eps, ms, ts) ← parseRels ts.length ts
        let (_, ts) ← exp .rangle ts
        parseFeatures fuel { st with rels := st.rels ++ eps, ments := st.ments ++ ms } ts
      else if f = S "HCONS" then
        let (_, ts) ← exp .langle ts
        let (cs, ms, ts) ← parseConsList ts.length ts
        let (_, ts) ← exp .rangle ts
        parseFeatures fuel { st with hcons := st.hcons ++ cs, ments := st.ments ++ ms } ts
      else if f = S "ICONS" then
        let (_, ts) ← exp .langle ts
        let (cs, ms, ts) ← parseConsList ts.length ts
        let (_, ts) ← exp .rangle ts
        parseFeatures fuel { st with icons := st.icons ++ cs, ments := st.ments ++ ms } ts
      else .error .value

/-- the effect of the `_decode_variable` calls on the `variables` dictionary. -/
def applyMention (vars : Dict Props) (m : Mention) : Dict Props :=
  let vars := declare vars m.1
  let ps := m.2.foldl (fun (d : Props) p => dset d p.1 p.2) ((dget vars m.1).getD [])
  dset vars m.1 ps

def varsOfMentions (ms : List Mention) : Dict Props := ms.foldl applyMention []

/-- `_decode_mrs`: one MRS and the remaining tokens. -/
def parse (ts : List T) : Except E (MRS × List T) := do
  let (_, ts) ← exp .lbrack ts
  let (lnk, ts) ← parseLnk ts
  let (surf, ts) ← acc .dq ts
  let (st, ts) ← parseFeatures ts.length {} ts
  pure (mkMRS st.top st.index st.rels st.hcons st.icons (varsOfMentions st.ments) lnk (surf.map unescapeDQ) none, ts)

/-- `_decode` (loads/load): items until the tokens run out; running out of tokens inside an item
(StopIteration) silently ends the list. -/
def parseMany : Nat → List T → Except E (List MRS)
  | 0, _ => .ok []
  | _ + 1, [] => .ok []
  | fuel + 1, t :: ts =>
    match parse (t :: ts) with
    | .error .eof => .ok []
    | .error e => .error e
    | .ok (m, rest) => match parseMany fuel rest with
      | .ok ms => .ok (m :: ms)
      | .error e => .error e

/-! ## MRS-JSON -/

inductive J where
  | null
  | str (s : Str)
  | int (i : Int)
  | arr (xs : List J)
  | obj (kvs : List (Str × J))
deriving Repr, Inhabited

def jOptStr : Option Str → J
  | none => .null
  | some s => .str s

def jStrDict (d : Dict Str) : J := .obj (d.map (fun kv => (kv.1, J.str kv.2)))

/-- `to_dict`. -/
def toDict (o : Opts) (m : MRS) : J :=
  let ep (e : EP) : J :=
    .obj ([(S "label", .str e.label), (S "predicate", .str e.pred), (S "arguments", jStrDict e.args)]
      ++ (if o.lnk then
            (if e.lnk.truthy then [(S "lnk", J.obj [(S "from", .int e.lnk.cfrom), (S "to", .int e.lnk.cto)])] else [])
            ++ (match e.surface with | none => [] | some s => [(S "surface", J.str s)])
            ++ (match e.base with | none => [] | some s => [(S "base", J.str s)])
          else []))
  let hc (c : Cons) : J := .obj [(S "relation", .str c.rel), (S "high", .str c.lhs), (S "low", .str c.rhs)]
  let ic (c : Cons) : J := .obj [(S "relation", .str c.rel), (S "left", .str c.lhs), (S "right", .str c.rhs)]
  let var (vp : Str × Props) : Str × J :=
    (vp.1, .obj ((S "type", J.str (varSort vp.1))
      :: (if o.properties ∧ !vp.2.isEmpty then [(S "properties", jStrDict vp.2)] else [])))
  .obj [(S "top", jOptStr m.top), (S "index", jOptStr m.index),
        (S "relations", .arr (m.rels.map ep)),
        (S "constraints", .arr (m.hcons.map hc ++ m.icons.map ic)),
        (S "variables", .obj (m.vars.map var))]

/-- `variable.type(v)` is evaluated for every key of `variables`. -/
def jsonEncodable (m : MRS) : Bool := m.vars.all (fun vp => validVar vp.1)

def J.get (j : J) (k : String) : Option J :=
  match j with
  | .obj kvs => dget kvs (S k)
  | _ => none

def J.asStr : J → Option Str
  | .str s => some s
  | _ => none

def J.asOptStr : Option J → Option (Option Str)
  | none => some none
  | some .null => some none
  | some (.str s) => some (some s)
  | _ => none

def J.asStrDict : J → Option (Dict Str)
  | .obj kvs => mapMOpt (fun kv => match kv.2 with | J.str s => some (kv.1, s) | _ => none) kvs
  | _ => none

def J.asArr : J → Option (List J)
  | .arr xs => some xs
  | _ => none

def jLnk : Option J → Option Lnk
  | none => some .unspec
  | some .null => some .unspec
  | some j => match j.get "from", j.get "to" with
    | some (.int a), some (.int b) => some (.charspan a b)
    | _, _ => none

/-- `from_dict` on dictionaries of the shape `to_dict` builds (`none`: a KeyError/TypeError). -/
def fromDict (d : J) : Option MRS := do
  let top ← J.asOptStr (← d.get "top")
  let index ← J.asOptStr (d.get "index")
  let relsJ ← match d.get "relations" with | none => some [] | some r => r.asArr
  let rels ← mapMOpt (fun (e : J) => do
      let pred ← (← e.get "predicate").asStr
      let label ← (← e.get "label").asStr
      let args ← match e.get "arguments" with | none => some [] | some a => a.asStrDict
      let lnk ← jLnk (e.get "lnk")
      let surface ← J.asOptStr (e.get "surface")
      let base ← J.asOptStr (e.get "base")
      pure ({ pred, label, args, lnk, surface, base } : EP)) relsJ
  let consJ ← match d.get "constraints" with | none => some [] | some r => r.asArr
  let hcons ← mapMOpt (fun (c : J) => do
      pure ({ lhs := ← (← c.get "high").asStr, rel := ← (← c.get "relation").asStr, rhs := ← (← c.get "low").asStr } : Cons))
    (consJ.filter (fun c => (c.get "high").isSome))
  let icons ← mapMOpt (fun (c : J) => do
      pure ({ lhs := ← (← c.get "left").asStr, rel := ← (← c.get "relation").asStr, rhs := ← (← c.get "right").asStr } : Cons))
    (consJ.filter (fun c => (c.get "left").isSome))
  let varsJ ← match d.get "variables" with | none => some [] | some (.obj kvs) => some kvs | _ => none
  let vars ← mapMOpt (fun (kv : Str × J) => do
      let ps ← match kv.2.get "properties" with | none => some [] | some p => p.asStrDict
      pure (kv.1, ps)) varsJ
  let lnk ← jLnk (d.get "lnk")
  let surface ← J.asOptStr (d.get "surface")
  let ident ← J.asOptStr (d.get "identifier")
  pure (mkMRS top index rels hcons icons vars lnk surface ident)

/-! ## MRX -/

inductive Xml where
  | node (tag : String) (attrs : List (String × Str)) (text : Option Str) (children : List Xml)
deriving Repr, Inhabited

def Xml.tag : Xml → String | .node t _ _ _ => t
def Xml.attrs : Xml → List (String × Str) | .node _ a _ _ => a
def Xml.text : Xml → Option Str | .node _ _ t _ => t
def Xml.children : Xml → List Xml | .node _ _ _ c => c
def Xml.attr (x : Xml) (k : String) : Option Str := (x.attrs.find? (·.1 = k)).map (·.2)
/-- `elem.find(tag)`: first child with the tag. -/
def Xml.find (x : Xml) (t : String) : Option Xml := x.children.find? (·.tag = t)
def Xml.findall (x : Xml) (t : String) : List Xml := x.children.filter (·.tag = t)

mutual
/-- `elem.iter(tag)`: the element itself and all descendants in document order. -/
def Xml.iter (t : String) : Xml → List Xml
  | .node tag a tx cs => (if tag = t then [Xml.node tag a tx cs] else []) ++ Xml.iterL t cs
def Xml.iterL (t : String) : List Xml → List Xml
  | [] => []
  | c :: cs => Xml.iter t c ++ Xml.iterL t cs
end

def xEl (tag : String) (attrs : List (String × Str)) (children : List Xml) : Xml := .node tag attrs none children
def xTx (tag : String) (text : Str) : Xml := .node tag [] (some text) []

/-- `_encode_label`. -/
def xLabel (l : Str) : Xml := xEl "label" [("vid", varVid l)] []

def xExtrapair (kv : Str × Str) : Xml := xEl "extrapair" [] [xTx "path" kv.1, xTx "value" kv.2]

/-- `_encode_variable` (MRX). -/
def xVar (vp : Dict Props) (v : Str) : Xml × Dict Props :=
  let at_ := [("vid", varVid v), ("sort", varSort v)]
  match dget vp v with
  | none => (xEl "var" at_ [], vp)
  | some ps => if ps.isEmpty then (xEl "var" at_ [], vp)
               else (xEl "var" at_ ((sortProps ps).map xExtrapair), ddel vp v)

/-- `_encode_pred`. -/
def xPred (p : Str) : Xml :=
  match (if isSurface (stripPred p) then splitSurface (stripPred p) else none) with
  | some (l, pos, sense) =>
    xEl "realpred" ([("lemma", l), ("pos", pos)] ++ (match sense with | none => [] | some s => [("sense", s)])) []
  | none => if isAbstract (stripPred p) then xTx "pred" p else xTx "spred" p

def lnkAttrs (o : Opts) (l : Lnk) (surface base : Option Str) : List (String × Str) :=
  if o.lnk then
    [("cfrom", intStr l.cfrom), ("cto", intStr l.cto)]
      ++ (match surface with | none => [] | some s => [("surface", s)])
      ++ (match base with | none => [] | some s => [("base", s)])
  else []

def xArgs : Dict Props → Dict Str → List Xml × Dict Props
  | vp, [] => ([], vp)
  | vp, (role, val) :: rest =>
    if role = CARG then
      let (xs, vp') := xArgs vp rest
      (xEl "fvpair" [] [xTx "rargname" CARG, xTx "constant" val] :: xs, vp')
    else
      let (x1, vp1) := xVar vp val
      let (xs, vp') := xArgs vp1 rest
      (xEl "fvpair" [] [xTx "rargname" role, x1] :: xs, vp')

def xEp (o : Opts) (vp : Dict Props) (ep : EP) : Xml × Dict Props :=
  let (as, vp') := xArgs vp (sortArgs ep.args)
  (xEl "ep" (lnkAttrs o ep.lnk ep.surface ep.base) (xPred ep.pred :: xLabel ep.label :: as), vp')

def xEps (o : Opts) : Dict Props → List EP → List Xml × Dict Props
  | vp, [] => ([], vp)
  | vp, ep :: rest =>
    let (x1, vp1) := xEp o vp ep
    let (xs, vp') := xEps o vp1 rest
    (x1 :: xs, vp')

def xHcons : Dict Props → List Cons → List Xml × Dict Props
  | vp, [] => ([], vp)
  | vp, c :: rest =>
    let (h, vp1) := xVar vp c.lhs
    let (xs, vp') := xHcons vp1 rest
    (xEl "hcons" [("hreln", c.rel)] [xEl "hi" [] [h], xEl "lo" [] [xLabel c.rhs]] :: xs, vp')

def xIcons : Dict Props → List Cons → List Xml × Dict Props
  | vp, [] => ([], vp)
  | vp, c :: rest =>
    let (l, vp1) := xVar vp c.lhs
    let (r, vp2) := xVar vp1 c.rhs
    let (xs, vp') := xIcons vp2 rest
    (xEl "icons" [("ireln", c.rel)] [xEl "left" [] [l], xEl "right" [] [r]] :: xs, vp')

/-- `_encode_mrs` (MRX). -/
def toXml (o : Opts) (m : MRS) : Xml :=
  let vp0 : Dict Props := if o.properties then m.vars else []
  let attrs := (if o.lnk then [("cfrom", intStr m.lnk.cfrom), ("cto", intStr m.lnk.cto)]
                  ++ (match m.surface with | none => [] | some s => [("surface", s)]) else [])
               ++ (match m.ident with | none => [] | some s => [("ident", s)])
  let topX := match m.top with | none => [] | some t => [xLabel t]
  let (ixX, vp1) := match m.index with
    | none => (([] : List Xml), vp0)
    | some i => let (x, vp) := xVar vp0 i; ([x], vp)
  let (epX, vp2) := xEps o vp1 m.rels
  let (hcX, vp3) := xHcons vp2 m.hcons
  let (icX, _) := xIcons vp3 m.icons
  xEl "mrs" attrs (topX ++ ixX ++ epX ++ hcX ++ icX)

/-- every variable and label written by the MRX encoder goes through `variable.split`. -/
def mrxEncodable (m : MRS) : Bool :=
  (m.top.toList ++ m.index.toList ++ m.rels.flatMap (fun ep => ep.label :: epArgVars ep)
    ++ m.hcons.flatMap (fun c => [c.lhs, c.rhs]) ++ m.icons.flatMap (fun c => [c.lhs, c.rhs])).all validVar

/-- `_decode_label`. -/
def dLabel (x : Xml) : Option Str := (x.attr "vid").map (fun v => 'h' :: v)

/-- `_decode_var`: the variable and its mention. -/
def dVar (x : Xml) : Option Mention := do
  let vid ← x.attr "vid"
  let srt ← x.attr "sort"
  let ps ← mapMOpt (fun (e : Xml) => do
      let p ← (← e.find "path").text
      let v ← (← e.find "value").text
      pure (upper p, lower v)) (Xml.iter "extrapair" x)
  pure (lower srt ++ vid, ps)

/-- `_decode_lnk`. -/
def dLnk (cfrom cto : Option Str) : Option Lnk :=
  match cfrom, cto with
  | none, none => some .unspec
  | some a, some b => match parseInt a, parseInt b with
    | some x, some y => some (.charspan x y)
    | _, _ => none
  | _, _ => none

/-- `_decode_pred`. -/
def dPred (x : Xml) : Option Str :=
  if x.tag = "pred" ∨ x.tag = "spred" then x.text
  else if x.tag = "realpred" then do
    createPred (← x.attr "lemma") (← x.attr "pos") (x.attr "sense")
  else none

/-- `_decode_args`. -/
def dArgs (ep : Xml) : Option (List (Str × Str) × List Mention) :=
  (ep.findall "fvpair").foldlM (fun (acc : List (Str × Str) × List Mention) e => do
    let r := upper (← (← e.find "rargname").text)
    match e.find "constant" with
    | some c => pure (acc.1 ++ [(r, ← c.text)], acc.2)
    | none => match e.find "var" with
      | some v => do let m ← dVar v; pure (acc.1 ++ [(r, m.1)], acc.2 ++ [m])
      | none => none) ([], [])

def dEp (x : Xml) : Option (EP × List Mention) := do
  let (as, ms) ← dArgs x
  let pred ← dPred (← x.children.head?)
  let label ← dLabel (← x.find "label")
  let lnk ← dLnk (x.attr "cfrom") (x.attr "cto")
  pure ({ pred, label, args := mkArgs as, lnk, surface := x.attr "surface", base := x.attr "base" }, ms)

def dHcons (x : Xml) : Option (Cons × List Mention) := do
  let hi ← dVar (← (← x.find "hi").find "var")
  let lo ← (← x.find "lo").children.head?
  let rel ← x.attr "hreln"
  if lo.tag = "var" then do
    let l ← dVar lo
    pure ({ lhs := hi.1, rel, rhs := l.1 }, [hi, l])
  else do
    pure ({ lhs := hi.1, rel, rhs := ← dLabel lo }, [hi])

def dIcons (x : Xml) : Option (Cons × List Mention) := do
  let l ← dVar (← (← x.find "left").find "var")
  let r ← dVar (← (← x.find "right").find "var")
  pure ({ lhs := l.1, rel := ← x.attr "ireln", rhs := r.1 }, [l, r])

/-- `_decode_mrs` (MRX) (`none`: some exception). -/
def ofXml (x : Xml) : Option MRS := do
  let top ← match x.find "label" with | none => some none | some l => (dLabel l).map some
  let ix ← match x.find "var" with | none => some none | some v => (dVar v).map some
  let eps ← mapMOpt dEp (Xml.iter "ep" x)
  let hcs ← mapMOpt dHcons (Xml.iter "hcons" x)
  let ics ← mapMOpt dIcons (Xml.iter "icons" x)
  let ments := ix.toList ++ eps.flatMap (·.2) ++ hcs.flatMap (·.2) ++ ics.flatMap (·.2)
  let lnk ← dLnk (x.attr "cfrom") (x.attr "cto")
  pure (mkMRS top (ix.map (·.1)) (eps.map (·.1)) (hcs.map (·.1)) (ics.map (·.1)) (varsOfMentions ments)
          lnk (x.attr "surface") (x.attr "ident"))

end Verif.C01
