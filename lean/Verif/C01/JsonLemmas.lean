/-
C01 — MRS-JSON: `from_dict ∘ to_dict` lemmas.
-/
import Verif.C01.Spec

namespace Verif.C01
open Verif.Codec Verif.Tables

/-! ### generic helpers -/

theorem mapMOpt_map {α β γ} (f : β → Option γ) (g : α → β) (h : α → γ) (xs : List α)
    (H : ∀ x ∈ xs, f (g x) = some (h x)) : mapMOpt f (xs.map g) = some (xs.map h) := by
  induction xs with
  | nil => rfl
  | cons x xs ih =>
    have h1 := H x (by simp)
    have h2 := ih (fun y hy => H y (by simp [hy]))
    simp [mapMOpt, h1, h2]

theorem asStrDict_jStrDict (d : Dict Str) : J.asStrDict (jStrDict d) = some d := by
  unfold jStrDict J.asStrDict
  have := mapMOpt_map (fun (kv : Str × J) => match kv.2 with | J.str s => some (kv.1, s) | _ => none)
    (fun (kv : Str × Str) => (kv.1, J.str kv.2)) id d (by intro x _; rfl)
  rw [List.map_id] at this
  exact this

theorem foldl_declare_of_has (vars : Dict Props) (l : List Str)
    (h : ∀ v ∈ l, dhas vars v = true) : l.foldl declare vars = vars := by
  induction l with
  | nil => rfl
  | cons v vs ih =>
    have hv := h v (by simp)
    simp only [List.foldl, declare, hv, if_true]
    exact ih (fun w hw => h w (by simp [hw]))

theorem fillVars_of_filled (vars : Dict Props) (top index : Option Str) (rels : List EP)
    (hcons icons : List Cons)
    (h : ∀ v ∈ fillOrder top index rels hcons icons, dhas vars v = true) :
    fillVars vars top index rels hcons icons = vars :=
  foldl_declare_of_has vars _ h

theorem epViewJ_label (o : Opts) (e : EP) : (epViewJ o e).label = e.label := by
  unfold epViewJ; split <;> rfl

theorem epViewJ_args (o : Opts) (e : EP) : (epViewJ o e).args = e.args := by
  unfold epViewJ; split <;> rfl

theorem epViewJ_pred (o : Opts) (e : EP) : (epViewJ o e).pred = e.pred := by
  unfold epViewJ; split <;> rfl

theorem fillOrder_map_epViewJ (o : Opts) (top index : Option Str) (rels : List EP)
    (hcons icons : List Cons) :
    fillOrder top index (rels.map (epViewJ o)) hcons icons = fillOrder top index rels hcons icons := by
  unfold fillOrder
  have : (rels.map (epViewJ o)).flatMap (fun ep => ep.label :: epArgVars ep)
      = rels.flatMap (fun ep => ep.label :: epArgVars ep) := by
    rw [List.flatMap_map]
    congr 1
    funext e
    simp [epArgVars, epViewJ_label, epViewJ_args]
  rw [this]

theorem dget_strip_isSome (vars : Dict Props) (v : Str) :
    (dget (vars.map (fun vp => (vp.1, ([] : Props)))) v).isSome = (dget vars v).isSome := by
  induction vars with
  | nil => rfl
  | cons x xs ih =>
    simp only [List.map, dget]
    split <;> simp [ih]

theorem dhas_strip (vars : Dict Props) (v : Str) :
    dhas (vars.map (fun vp => (vp.1, ([] : Props)))) v = dhas vars v := dget_strip_isSome vars v

theorem dhas_viewJ_vars (o : Opts) (m : MRS) (v : Str) : dhas (viewJ o m).vars v = dhas m.vars v := by
  unfold viewJ
  cases o.properties <;> simp [dhas_strip]

/-- (3) -/
theorem viewJ_filled (o : Opts) (m : MRS) (h : Filled m) : Filled (viewJ o m) := by
  intro v hv
  rw [dhas_viewJ_vars]
  apply h
  have : fillOrder (viewJ o m).top (viewJ o m).index (viewJ o m).rels (viewJ o m).hcons (viewJ o m).icons
      = fillOrder m.top m.index m.rels m.hcons m.icons := fillOrder_map_epViewJ o _ _ _ _ _
  rw [← this]; exact hv

/-! ### the pieces of `toDict` / `fromDict` -/

def epJ (o : Opts) (e : EP) : J :=
  .obj ([(S "label", .str e.label), (S "predicate", .str e.pred), (S "arguments", jStrDict e.args)]
      ++ (if o.lnk then
            (if e.lnk.truthy then [(S "lnk", J.obj [(S "from", .int e.lnk.cfrom), (S "to", .int e.lnk.cto)])] else [])
            ++ (match e.surface with | none => [] | some s => [(S "surface", J.str s)])
            ++ (match e.base with | none => [] | some s => [(S "base", J.str s)])
          else []))
def hcJ (c : Cons) : J := .obj [(S "relation", .str c.rel), (S "high", .str c.lhs), (S "low", .str c.rhs)]
def icJ (c : Cons) : J := .obj [(S "relation", .str c.rel), (S "left", .str c.lhs), (S "right", .str c.rhs)]
def varJ (o : Opts) (vp : Str × Props) : Str × J :=
    (vp.1, .obj ((S "type", J.str (varSort vp.1))
      :: (if o.properties ∧ !vp.2.isEmpty then [(S "properties", jStrDict vp.2)] else [])))

theorem toDict_eq (o : Opts) (m : MRS) : toDict o m =
  .obj [(S "top", jOptStr m.top), (S "index", jOptStr m.index),
        (S "relations", .arr (m.rels.map (epJ o))),
        (S "constraints", .arr (m.hcons.map hcJ ++ m.icons.map icJ)),
        (S "variables", .obj (m.vars.map (varJ o)))] := rfl

def decEP (e : J) : Option EP := do
      let pred ← (← e.get "predicate").asStr
      let label ← (← e.get "label").asStr
      let args ← match e.get "arguments" with | none => some [] | some a => a.asStrDict
      let lnk ← jLnk (e.get "lnk")
      let surface ← J.asOptStr (e.get "surface")
      let base ← J.asOptStr (e.get "base")
      pure ({ pred, label, args, lnk, surface, base } : EP)

def decHC (c : J) : Option Cons := do
      pure ({ lhs := ← (← c.get "high").asStr, rel := ← (← c.get "relation").asStr, rhs := ← (← c.get "low").asStr } : Cons)
def decIC (c : J) : Option Cons := do
      pure ({ lhs := ← (← c.get "left").asStr, rel := ← (← c.get "relation").asStr, rhs := ← (← c.get "right").asStr } : Cons)
def decVar (kv : Str × J) : Option (Str × Props) := do
      let ps ← match kv.2.get "properties" with | none => some [] | some p => p.asStrDict
      pure (kv.1, ps)

theorem fromDict_eq (d : J) : fromDict d = (do
  let top ← J.asOptStr (← d.get "top")
  let index ← J.asOptStr (d.get "index")
  let relsJ ← match d.get "relations" with | none => some [] | some r => r.asArr
  let rels ← mapMOpt decEP relsJ
  let consJ ← match d.get "constraints" with | none => some [] | some r => r.asArr
  let hcons ← mapMOpt decHC (consJ.filter (fun c => (c.get "high").isSome))
  let icons ← mapMOpt decIC (consJ.filter (fun c => (c.get "left").isSome))
  let varsJ ← match d.get "variables" with | none => some [] | some (.obj kvs) => some kvs | _ => none
  let vars ← mapMOpt decVar varsJ
  let lnk ← jLnk (d.get "lnk")
  let surface ← J.asOptStr (d.get "surface")
  let ident ← J.asOptStr (d.get "identifier")
  pure (mkMRS top index rels hcons icons vars lnk surface ident)) := rfl

theorem decEP_epJ (o : Opts) (e : EP) : decEP (epJ o e) = some (epViewJ o e) := by
  unfold decEP epJ epViewJ
  cases o.lnk <;> cases e.lnk.truthy <;> cases e.surface <;> cases e.base <;>
    simp [J.get, dget, S, J.asStr, jLnk, J.asOptStr, asStrDict_jStrDict]

theorem decHC_hcJ (c : Cons) : decHC (hcJ c) = some c := by
  simp [decHC, hcJ, J.get, dget, S, J.asStr]
theorem decIC_icJ (c : Cons) : decIC (icJ c) = some c := by
  simp [decIC, icJ, J.get, dget, S, J.asStr]

theorem decVar_varJ (o : Opts) (vp : Str × Props) :
    decVar (varJ o vp) = some (vp.1, if o.properties then vp.2 else []) := by
  unfold decVar varJ
  cases o.properties <;> cases h : vp.2 <;>
    simp [J.get, dget, S, asStrDict_jStrDict]

theorem filter_high (hs is : List Cons) :
    (hs.map hcJ ++ is.map icJ).filter (fun c => (c.get "high").isSome) = hs.map hcJ := by
  rw [List.filter_append]
  have h1 : (hs.map hcJ).filter (fun c => (c.get "high").isSome) = hs.map hcJ := by
    apply List.filter_eq_self.2; intro a ha
    obtain ⟨c, _, rfl⟩ := List.mem_map.1 ha; rfl
  have h2 : (is.map icJ).filter (fun c => (c.get "high").isSome) = [] := by
    apply List.filter_eq_nil_iff.2; intro a ha
    obtain ⟨c, _, rfl⟩ := List.mem_map.1 ha; simp [icJ, J.get, dget, S]
  rw [h1, h2, List.append_nil]

theorem filter_left (hs is : List Cons) :
    (hs.map hcJ ++ is.map icJ).filter (fun c => (c.get "left").isSome) = is.map icJ := by
  rw [List.filter_append]
  have h1 : (is.map icJ).filter (fun c => (c.get "left").isSome) = is.map icJ := by
    apply List.filter_eq_self.2; intro a ha
    obtain ⟨c, _, rfl⟩ := List.mem_map.1 ha; rfl
  have h2 : (hs.map hcJ).filter (fun c => (c.get "left").isSome) = [] := by
    apply List.filter_eq_nil_iff.2; intro a ha
    obtain ⟨c, _, rfl⟩ := List.mem_map.1 ha; simp [hcJ, J.get, dget, S]
  rw [h1, h2, List.nil_append]


theorem asOptStr_jOptStr (x : Option Str) : J.asOptStr (some (jOptStr x)) = some x := by
  cases x <;> rfl

theorem asOptStr_none : J.asOptStr none = some none := rfl

theorem viewJ_vars_eq (o : Opts) (m : MRS) :
    List.map (fun vp => (vp.fst, if o.properties = true then vp.snd else ([] : Props))) m.vars = (viewJ o m).vars := by
  unfold viewJ
  cases o.properties <;> simp

theorem fromDict_toDict (o : Opts) (m : MRS) (h : Filled m) : fromDict (toDict o m) = some (viewJ o m) := by
  have hE := mapMOpt_map decEP (epJ o) (epViewJ o) m.rels (fun e _ => decEP_epJ o e)
  have hH := mapMOpt_map decHC hcJ id m.hcons (fun c _ => decHC_hcJ c)
  have hI := mapMOpt_map decIC icJ id m.icons (fun c _ => decIC_icJ c)
  have hV := mapMOpt_map decVar (varJ o) (fun vp => (vp.1, if o.properties then vp.2 else [])) m.vars
    (fun vp _ => decVar_varJ o vp)
  rw [List.map_id] at hH hI
  rw [viewJ_vars_eq] at hV
  have hF := fillVars_of_filled (viewJ o m).vars m.top m.index (m.rels.map (epViewJ o)) m.hcons m.icons
    (viewJ_filled o m h)
  rw [fromDict_eq, toDict_eq]
  generalize hD : J.obj [(S "top", jOptStr m.top), (S "index", jOptStr m.index),
        (S "relations", .arr (m.rels.map (epJ o))),
        (S "constraints", .arr (m.hcons.map hcJ ++ m.icons.map icJ)),
        (S "variables", .obj (m.vars.map (varJ o)))] = D
  have g1 : D.get "top" = some (jOptStr m.top) := by subst hD; rfl
  have g2 : D.get "index" = some (jOptStr m.index) := by subst hD; rfl
  have g3 : D.get "relations" = some (.arr (m.rels.map (epJ o))) := by subst hD; rfl
  have g4 : D.get "constraints" = some (.arr (m.hcons.map hcJ ++ m.icons.map icJ)) := by subst hD; rfl
  have g5 : D.get "variables" = some (.obj (m.vars.map (varJ o))) := by subst hD; rfl
  have g6 : D.get "lnk" = none := by subst hD; rfl
  have g7 : D.get "surface" = none := by subst hD; rfl
  have g8 : D.get "identifier" = none := by subst hD; rfl
  simp only [g1, g2, g3, g4, g5, g6, g7, g8]
  simp only [J.asArr, filter_high, filter_left, hE, hH, hI, hV, asOptStr_jOptStr, jLnk, asOptStr_none,
    Option.bind_some, bind, pure]
  unfold mkMRS
  rw [hF]
  rfl

/-! ### stability of re-encoding -/

/-- the alignments MRS-JSON carries faithfully: a truthy lnk must still be truthy after being
reduced to its (cfrom, cto) pair (false e.g. for `<@3>` or `<1 2>`: cfrom = cto = -1). -/
def LnkCarried (o : Opts) (m : MRS) : Prop :=
  ∀ e ∈ m.rels, o.lnk = true → e.lnk.truthy = true → (Lnk.charspan e.lnk.cfrom e.lnk.cto).truthy = true

theorem epJ_epViewJ (o : Opts) (e : EP)
    (hl : o.lnk = true → e.lnk.truthy = true → (Lnk.charspan e.lnk.cfrom e.lnk.cto).truthy = true) :
    epJ o (epViewJ o e) = epJ o e := by
  unfold epJ epViewJ
  cases ho : o.lnk
  · simp
  · cases ht : e.lnk.truthy
    · simp [Lnk.truthy]
    · have := hl ho ht
      have hcf : ∀ a b, (Lnk.charspan a b).cfrom = a := fun _ _ => rfl
      have hct : ∀ a b, (Lnk.charspan a b).cto = b := fun _ _ => rfl
      simp [this, hcf, hct]

theorem varJ_strip (o : Opts) (hp : o.properties = false) (vp : Str × Props) :
    varJ o (vp.1, ([] : Props)) = varJ o vp := by
  simp [varJ, hp]

theorem toDict_viewJ (o : Opts) (m : MRS) (hl : LnkCarried o m) : toDict o (viewJ o m) = toDict o m := by
  rw [toDict_eq, toDict_eq]
  have hr : (viewJ o m).rels.map (epJ o) = m.rels.map (epJ o) := by
    show (m.rels.map (epViewJ o)).map (epJ o) = _
    rw [List.map_map]
    apply List.map_congr_left
    intro e he
    exact epJ_epViewJ o e (hl e he)
  have hv : (viewJ o m).vars.map (varJ o) = m.vars.map (varJ o) := by
    unfold viewJ
    cases hp : o.properties
    · simp only [Bool.false_eq_true, if_false, List.map_map]
      apply List.map_congr_left
      intro vp _
      exact varJ_strip o hp vp
    · simp
  rw [hr, hv]
  rfl

theorem epViewJ_lnk_true (o : Opts) (e : EP) (ho : o.lnk = true) :
    (epViewJ o e).lnk = if e.lnk.truthy then .charspan e.lnk.cfrom e.lnk.cto else .unspec := by
  unfold epViewJ; simp [ho]

theorem lnkCarried_viewJ (o : Opts) (m : MRS) : LnkCarried o (viewJ o m) := by
  intro e he ho ht
  obtain ⟨e0, _, rfl⟩ := List.mem_map.1 (show e ∈ m.rels.map (epViewJ o) from he)
  rw [epViewJ_lnk_true o e0 ho] at ht ⊢
  cases h : e0.lnk.truthy <;> rw [h] at ht
  · exact absurd ht (by simp [Lnk.truthy])
  · exact ht

/-- re-encoding is stable from the first decoded structure on, unconditionally. -/
theorem toDict_viewJ_viewJ (o : Opts) (m : MRS) :
    toDict o (viewJ o (viewJ o m)) = toDict o (viewJ o m) :=
  toDict_viewJ o (viewJ o m) (lnkCarried_viewJ o m)

theorem lnkCarried_of_nolnk (o : Opts) (m : MRS) (ho : o.lnk = false) : LnkCarried o m := by
  intro e _ h; rw [ho] at h; cases h

theorem lnkCarried_of_charspan (o : Opts) (m : MRS)
    (hc : ∀ e ∈ m.rels, e.lnk = .unspec ∨ ∃ a b, e.lnk = .charspan a b) : LnkCarried o m := by
  intro e he _ ht
  rcases hc e he with h | ⟨a, b, h⟩
  · rw [h] at ht; cases ht
  · rw [h] at ht ⊢; exact ht

/-- the unconditional statement fails: an EP aligned by `<@0>` is written with
`"lnk": {"from": -1, "to": -1}`, read back as the falsy `<-1:-1>`, and then written without `lnk`. -/
theorem toDict_viewJ_counterexample :
    ∃ (o : Opts) (m : MRS), Filled m ∧ toDict o (viewJ o m) ≠ toDict o m := by
  refine ⟨⟨true, true⟩,
    { top := none, index := none, rels := [{ pred := [], label := [], args := [], lnk := .edge 0 }],
      hcons := [], icons := [], vars := [([], [])] }, ?_, ?_⟩
  · intro v hv
    simp [fillOrder, epArgVars] at hv
    subst hv
    rfl
  · intro h
    have := congrArg fromDict h
    revert this
    decide

/-- (1) iterated: decode ∘ encode on an already decoded structure. -/
theorem fromDict_toDict_viewJ (o : Opts) (m : MRS) (h : Filled m) :
    fromDict (toDict o (viewJ o m)) = some (viewJ o (viewJ o m)) :=
  fromDict_toDict o (viewJ o m) (viewJ_filled o m h)

/-- under `LnkCarried`, decoding is idempotent on structures. -/
theorem viewJ_viewJ (o : Opts) (m : MRS) (h : Filled m) (hl : LnkCarried o m) :
    viewJ o (viewJ o m) = viewJ o m := by
  have h1 := fromDict_toDict_viewJ o m h
  rw [toDict_viewJ o m hl, fromDict_toDict o m h] at h1
  exact (Option.some.inj h1).symm

end Verif.C01
