/-
C01 — model of delphin/codecs/indexedmrs.py at the level of `_IndexedMRSLexer` tokens, relative to a
SEM-I (delphin/semi.py: SemI.find_synopsis, Synopsis.subsumes in both of its forms, the property
lists of the variable sorts, and the two hierarchies as `descendants` tables).

  toksIx  : `_encode_indexed`  (token list; `Except` because the SEM-I lookups can fail)
  parseIx : `_decode_indexed`  (one MRS and the remaining tokens)

The text layout (indentation) and the regex lexer are not modelled (as for SimpleMRS).
-/
import Verif.C01.Model

namespace Verif.C01.Ix
open Verif.Codec Verif.Tables Verif.C01

inductive KI where
  | lnk | dq | langle | rangle | lbrace | rbrace | lparen | rparen | comma | colon | symbol
deriving Repr, DecidableEq

abbrev TI := Tok KI

def ti (k : KI) (s : Str) : TI := ⟨k, s⟩
def iLA : TI := ti .langle ['<']
def iRA : TI := ti .rangle ['>']
def iLB : TI := ti .lbrace ['{']
def iRB : TI := ti .rbrace ['}']
def iLP : TI := ti .lparen ['(']
def iRP : TI := ti .rparen [')']
def iCM : TI := ti .comma [',']
def iCL : TI := ti .colon [':']
def iS (s : Str) : TI := ti .symbol s
def iDQ (s : Str) : TI := ti .dq (escapeDQ s)

structure SynRole where
  name : Str
  value : Str
  optional : Bool
deriving Repr, DecidableEq

abbrev Synopsis := List SynRole

structure SemI where
  /-- predicate ↦ its synopses, in order. -/
  preds : Dict (List Synopsis)
  /-- variable sort ↦ its property list `[(PROP, value)]`. -/
  vprops : Dict (List (Str × Str))
  /-- variable hierarchy: sort ↦ its strict descendants. -/
  sub : Dict (List Str)
  /-- property-value hierarchy: value ↦ its strict descendants. -/
  psub : Dict (List Str)
deriving Repr

inductive EI where
  | syntax      -- MRSSyntaxError
  | eof         -- StopIteration
  | semi        -- SemIError: undefined predicate / no valid synopsis
  | key         -- KeyError: variable sort unknown to the SEM-I
  | value       -- ValueError: variable.type of an invalid variable
  | assertion   -- AssertionError of _match_properties
  | type_       -- TypeError: index is None
deriving Repr, DecidableEq

def STRING : Str := S "string"

/-- `hierarchy.subsumes(a, b)` (both normalised to lower case). -/
def hsub (h : Dict (List Str)) (a b : Str) : Bool :=
  let a := lower a
  let b := lower b
  a = b || ((dget h a).getD []).contains b

/-- one positional check of `Synopsis.subsumes` (sequence form) for a present argument. -/
def roleFits (semi : SemI) (r : SynRole) (arg : Str) : Bool :=
  let arg := lower arg
  if r.value = STRING ∨ arg = STRING then r.value = arg else hsub semi.sub r.value arg

/-- `Synopsis.subsumes(args, variables)` for a sequence of variable sorts. -/
def fitsSeq (semi : SemI) : Synopsis → List Str → Bool
  | [], [] => true
  | [], _ :: _ => false
  | r :: rs, [] => r.optional && fitsSeq semi rs []
  | r :: rs, a :: as => (if a.isEmpty then r.optional else roleFits semi r a) && fitsSeq semi rs as

/-- `Synopsis.subsumes(args)` for a mapping role ↦ None (the encoder's use): every role of the
EP is a role of the synopsis. -/
def fitsMap (syn : Synopsis) (roles : List Str) : Bool :=
  roles.length ≤ syn.length && roles.all (fun r => syn.any (fun d => d.name = upper r))

def lookupPred (semi : SemI) (p : Str) : Except EI (List Synopsis) :=
  match dget semi.preds (normalizePred p) with
  | some s => .ok s
  | none => .error .semi

def firstThat (f : Synopsis → Bool) : List Synopsis → Except EI Synopsis
  | [] => .error .semi
  | s :: ss => if f s then .ok s else firstThat f ss

/-- `semi.find_synopsis(pred, roles)` as called by `_encode_rel`. -/
def findEnc (semi : SemI) (p : Str) (roles : List Str) : Except EI Synopsis := do
  let syns ← lookupPred semi p
  firstThat (fun s => roles.isEmpty || fitsMap s roles) syns

def noCarg (syn : Synopsis) : Synopsis := syn.filter (fun d => d.name ≠ CARG)

/-- `semi.find_synopsis(pred, argtypes)` (sequence form). -/
def findSeq (semi : SemI) (p : Str) (types : List Str) : Except EI Synopsis := do
  let syns ← lookupPred semi p
  firstThat (fun s => types.isEmpty || fitsSeq semi s types) syns

/-- `_find_synopsis(semi, pred, argtypes, carg)` of the decoder. -/
def findDec (semi : SemI) (p : Str) (types : List Str) (hasCarg : Bool) : Except EI Synopsis :=
  if hasCarg then
    match dget semi.preds (normalizePred p) with
    | some syns =>
      match firstThat (fun s => (noCarg s).length < s.length && fitsSeq semi (noCarg s) types) syns with
      | .ok s => .ok s
      | .error _ => findSeq semi p types
    | none => findSeq semi p types
  else findSeq semi p types

/-! ### encoder -/

/-- `_prepare_variable_properties`. -/
def prepProps (semi : SemI) : Dict Props → Except EI (Dict (List Str))
  | [] => .ok []
  | (v, ps) :: rest => do
    let r ← prepProps semi rest
    if ps.isEmpty then pure r
    else if !validVar v then .error .value
    else match dget semi.vprops (varSort v) with
      | none => .error .key
      | some sps => pure ((v, sps.map (fun kv => upper ((dget ps kv.1).getD kv.2))) :: r)

/-- `_encode_variable` (Indexed). -/
def encVarI (vp : Dict (List Str)) (v : Str) : List TI × Dict (List Str) :=
  match dget vp v with
  | none => ([iS v], vp)
  | some vals =>
    (iS v :: (if vals.isEmpty then [iCL] else vals.flatMap (fun x => [iCL, iS x])), ddel vp v)

def sepBy (sep : TI) : List (List TI) → List TI
  | [] => []
  | [x] => x
  | x :: xs => x ++ sep :: sepBy sep xs

/-- the variable arguments of `_encode_rel`, in synopsis order. -/
def encArgsI (vp : Dict (List Str)) (args : Dict Str) : Synopsis → List (List TI) × Dict (List Str)
  | [] => ([], vp)
  | d :: ds =>
    if d.name = CARG then encArgsI vp args ds
    else match dget args d.name with
      | none => encArgsI vp args ds
      | some v =>
        let (t, vp1) := encVarI vp v
        let (ts, vp') := encArgsI vp1 args ds
        (t :: ts, vp')

def encRelI (semi : SemI) (o : Opts) (vp : Dict (List Str)) (ep : EP) : Except EI (List TI × Dict (List Str)) := do
  let roles := (ep.args.filter (fun a => a.1 ≠ CARG)).map (·.1)
  let syn ← findEnc semi ep.pred roles
  let (as, vp') := encArgsI vp ep.args syn
  let as := as ++ (match dget ep.args CARG with | some c => [[iDQ c]] | none => [])
  pure (iS ep.label :: iCL :: iS ep.pred :: (if o.lnk then (if ep.lnk.str.isEmpty then [] else [ti .lnk ep.lnk.str]) else [])
          ++ iLP :: sepBy iCM as ++ [iRP], vp')

def encRelsI (semi : SemI) (o : Opts) : Dict (List Str) → List EP → Except EI (List (List TI) × Dict (List Str))
  | vp, [] => .ok ([], vp)
  | vp, ep :: rest => do
    let (t, vp1) ← encRelI semi o vp ep
    let (ts, vp') ← encRelsI semi o vp1 rest
    pure (t :: ts, vp')

def encConsI (cs : List Cons) : List TI := sepBy iCM (cs.map (fun c => [iS c.lhs, iS c.rel, iS c.rhs]))

/-- `_encode_indexed` as a token list. -/
def toksIx (semi : SemI) (o : Opts) (m : MRS) : Except EI (List TI) := do
  let vp0 ← if o.properties then prepProps semi m.vars else pure []
  match m.index with
  | none => .error .type_
  | some ix =>
    let (ixT, vp1) := encVarI vp0 ix
    let (rels, _) ← encRelsI semi o vp1 m.rels
    pure (iLA :: iS (m.top.getD (S "None")) :: iCM :: ixT ++ iCM :: iLB :: sepBy iCM rels ++ iRB :: iCM
            :: iLB :: encConsI m.hcons ++ iRB
            :: (if m.icons.isEmpty then [] else iCM :: iLB :: encConsI m.icons ++ [iRB]) ++ [iRA])

/-! ### decoder -/

def accI (k : KI) : List TI → Except EI (Option Str × List TI)
  | [] => .error .eof
  | t :: ts => if t.kind = k then .ok (some t.text, ts) else .ok (none, t :: ts)

def expI (k : KI) : List TI → Except EI (Str × List TI)
  | [] => .error .eof
  | t :: ts => if t.kind = k then .ok (t.text, ts) else .error .syntax

/-- the `while lexer.accept_type(COLON)` loop of `_decode_proplist` after its first value. -/
def parsePropTail : List TI → Except EI (List Str × List TI)
  | [] => .error .eof
  | t :: ts =>
    if t.kind = KI.colon then
      match ts with
      | [] => .error .eof
      | t2 :: ts2 =>
        if t2.kind = KI.symbol then
          match parsePropTail ts2 with
          | .ok (vs, r) => .ok (t2.text :: vs, r)
          | .error e => .error e
        else .error .syntax
    else .ok ([], t :: ts)

/-- `_decode_proplist`. -/
def parsePropList (ts : List TI) : Except EI (List Str × List TI) := do
  let (v, ts) ← expI .symbol ts
  let (vs, ts) ← parsePropTail ts
  pure (v :: vs, ts)

/-- a variable with an optional `:`-list (index position and argument positions): the variable and
the assignment `variables[var] = proplist` if there is one. -/
def parseVarI (ts : List TI) : Except EI (Str × Option (List Str) × List TI) := do
  let (v, ts) ← expI .symbol ts
  let (c, ts) ← accI .colon ts
  match c with
  | none => pure (v, none, ts)
  | some _ =>
    let (ps, ts) ← parsePropList ts
    pure (v, some ps, ts)

abbrev Assign := Str × List Str

/-- the loop of `_decode_arglist`. -/
def parseArgLoop : Nat → List TI → Except EI (List Str × Option Str × List Assign × List TI)
  | 0, _ => .error .eof
  | _ + 1, [] => .error .eof
  | fuel + 1, t :: ts => do
    let (arg, carg, asg, ts) ←
      (if t.kind = KI.symbol then do
          let (v, ps, ts) ← parseVarI (t :: ts)
          pure (some v, none, (match ps with | some p => [(v, p)] | none => []), ts)
        else if t.kind = KI.dq then pure (none, some (unescapeDQ t.text), [], ts)
        else .error .syntax : Except EI (Option Str × Option Str × List Assign × List TI))
    let (c, ts) ← accI .comma ts
    match c with
    | none => pure (arg.toList, carg, asg, ts)
    | some _ =>
      let (as, carg2, asg2, ts) ← parseArgLoop fuel ts
      pure (arg.toList ++ as, (match carg2 with | some x => some x | none => carg), asg ++ asg2, ts)

/-- `_decode_arglist`. -/
def parseArgList (ts : List TI) : Except EI (List Str × Option Str × List Assign × List TI) := do
  let (_, ts) ← expI .lparen ts
  match ts with
  | [] => .error .eof
  | t :: r =>
    if t.kind = KI.rparen then pure ([], none, [], r)
    else do
      let (as, carg, asg, ts) ← parseArgLoop (t :: r).length (t :: r)
      let (_, ts) ← expI .rparen ts
      pure (as, carg, asg, ts)

def zipArgs : List Str → List Str → List (Str × Str)
  | r :: rs, a :: as => (r, a) :: zipArgs rs as
  | _, _ => []

/-- `_decode_rel`. -/
def parseRelI (semi : SemI) (ts : List TI) : Except EI (EP × List Assign × List TI) := do
  let (label, ts) ← expI .symbol ts
  let (_, ts) ← expI .colon ts
  let (pred, ts) ← expI .symbol ts
  let (l, ts) ← accI .lnk ts
  let lnk ← (match l with
    | none => pure Lnk.unspec
    | some s => match Lnk.parse s with
      | .ok l => pure l
      | .error _ => .error .value : Except EI Lnk)
  let (as, carg, asg, ts) ← parseArgList ts
  if !(as.all validVar) then .error .value else
  let syn ← findDec semi pred (as.map varSort) carg.isSome
  let roles := (noCarg syn).map (·.name)
  let args := mkArgs (zipArgs roles as)
  let args := match carg with
    | some c => if c.isEmpty then args else dset args CARG c
    | none => args
  pure ({ pred, label, args, lnk, surface := none, base := none }, asg, ts)

/-- the loop of `_decode_rels`. -/
def parseRelLoop (semi : SemI) : Nat → List TI → Except EI (List EP × List Assign × List TI)
  | 0, _ => .error .eof
  | fuel + 1, ts => do
    let (ep, a1, ts) ← parseRelI semi ts
    let (c, ts) ← accI .comma ts
    match c with
    | none => pure ([ep], a1, ts)
    | some _ =>
      let (eps, a2, ts) ← parseRelLoop semi fuel ts
      pure (ep :: eps, a1 ++ a2, ts)

def parseConsLoop : Nat → List TI → Except EI (List Cons × List TI)
  | 0, _ => .error .eof
  | fuel + 1, ts => do
    let (a, ts) ← expI .symbol ts
    let (b, ts) ← expI .symbol ts
    let (c, ts) ← expI .symbol ts
    let (cm, ts) ← accI .comma ts
    match cm with
    | none => pure ([⟨a, b, c⟩], ts)
    | some _ =>
      let (cs, ts) ← parseConsLoop fuel ts
      pure (⟨a, b, c⟩ :: cs, ts)

/-- `_decode_cons`. -/
def parseConsI (ts : List TI) : Except EI (List Cons × List TI) := do
  let (_, ts) ← expI .lbrace ts
  match ts with
  | [] => .error .eof
  | t :: r =>
    if t.kind = KI.rbrace then pure ([], r)
    else do
      let (cs, ts) ← parseConsLoop (t :: r).length (t :: r)
      let (_, ts) ← expI .rbrace ts
      pure (cs, ts)

/-- `_match_properties` for one variable. -/
def matchProps (semi : SemI) (v : Str) (vals : List Str) : Except EI Props :=
  if vals.isEmpty then .ok []
  else if !validVar v then .error .value
  else match dget semi.vprops (varSort v) with
    | none => .error .key
    | some sps =>
      if sps.length ≠ vals.length then .error .assertion
      else if !((sps.zip vals).all (fun p => hsub semi.psub p.1.2 p.2)) then .error .assertion
      else .ok (mkArgs ((sps.zip vals).map (fun p => (p.1.1, p.2))))

def matchAll (semi : SemI) : Dict (List Str) → Except EI (Dict Props)
  | [] => .ok []
  | (v, vals) :: rest => do
    let ps ← matchProps semi v vals
    let r ← matchAll semi rest
    pure ((v, ps) :: r)

/-- `variables[var] = proplist` over all assignments, in order. -/
def assignAll (asg : List Assign) : Dict (List Str) := asg.foldl (fun d a => dset d a.1 a.2) []

/-- `_decode_indexed`: one MRS and the remaining tokens. -/
def parseIx (semi : SemI) (ts : List TI) : Except EI (MRS × List TI) := do
  let (_, ts) ← expI .langle ts
  let (top, ts) ← expI .symbol ts
  let (_, ts) ← expI .comma ts
  let (index, ixp, ts) ← parseVarI ts
  let (_, ts) ← expI .comma ts
  let (_, ts) ← expI .lbrace ts
  let (rels, asg, ts) ← (match ts with
    | [] => .error .eof
    | t :: r =>
      if t.kind = KI.rbrace then pure ([], [], t :: r)
      else parseRelLoop semi (t :: r).length (t :: r) : Except EI (List EP × List Assign × List TI))
  let (_, ts) ← expI .rbrace ts
  let (_, ts) ← expI .comma ts
  let (hcons, ts) ← parseConsI ts
  let (cm, ts) ← accI .comma ts
  let (icons, ts) ← (match cm with
    | none => pure ([], ts)
    | some _ => parseConsI ts : Except EI (List Cons × List TI))
  let (_, ts) ← expI .rangle ts
  let raw := assignAll ((match ixp with | some p => [(index, p)] | none => []) ++ asg)
  let vars ← matchAll semi raw
  pure (mkMRS (some top) (some index) rels hcons icons vars .unspec none none, ts)

/-- `_decode` (loads/load). -/
def parseManyIx (semi : SemI) : Nat → List TI → Except EI (List MRS)
  | 0, _ => .ok []
  | _ + 1, [] => .ok []
  | fuel + 1, t :: ts =>
    match parseIx semi (t :: ts) with
    | .error .eof => .ok []
    | .error e => .error e
    | .ok (m, rest) => match parseManyIx semi fuel rest with
      | .ok ms => .ok (m :: ms)
      | .error e => .error e

end Verif.C01.Ix
