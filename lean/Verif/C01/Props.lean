/-
C01 — property theorems (MRS serialisations are lossless and stable).
Only property statements live here; every proof is a reference to a lemma of CodecLemmas /
SimpleLemmas / VarsLemmas / Lemmas / JsonLemmas, so a statement cannot be weakened quietly.

Not proved (tied by the correspondence run and decided by the direct oracle only): the indented
text layouts of SimpleMRS/Indexed MRS/MRX, the Indexed MRS lexer, the MRX and JSON text level
(library parameters), the decoded property maps of Indexed MRS.
-/
import Verif.Common.CodecLemmas
import Verif.C01.Lemmas
import Verif.C01.JsonLemmas
import Verif.C01.SimpleLemmas
import Verif.C01.StableLemmas
import Verif.C01.MrxLemmas
import Verif.C01.IxLemmas
import Verif.C01.LexToksLemmas
import Verif.C01.LexLemmas

namespace Verif.C01.P
open Verif.Codec Verif.Tables Verif.C01

/-! ## character level: "constants and surface strings over all of Unicode" -/

/-- "decoding the encoded text yields … the same … constant": unescaping an escaped string gives
the string back, for every string. -/
theorem mrsUnescape_escape (s : Str) : unescapeDQ (escapeDQ s) = s := unescapeDQ_escapeDQ s

/-- the string token of the lexers (`"([^"\\]*(?:\\.[^"\\]*)*)"`) ends exactly at the closing quote
of an escaped string, whatever backslashes and quotes the string contains and whatever follows. -/
theorem scanDQ_escape (s rest : Str) : scanDQ (escapeDQ s ++ '"' :: rest) = some (escapeDQ s, rest) :=
  scanDQ_escapeDQ s rest

/-- two different strings never have the same escaped form. -/
theorem escape_injective (a b : Str) (h : escapeDQ a = escapeDQ b) : a = b := escapeDQ_injective a b h

/-- the escape table of the live module is the one the model uses (pins `c01Escapes`). -/
theorem escapes_pinned : c01Escapes = [('\\', ['\\', '\\']), ('"', ['\\', '"'])]
    ∧ ∀ c r, (c, r) ∈ c01Escapes → escapeDQ [c] = r := by
  refine ⟨rfl, ?_⟩
  intro c r h
  simp only [c01Escapes, List.mem_cons, Prod.mk.injEq, List.not_mem_nil, or_false] at h
  rcases h with ⟨rfl, rfl⟩ | ⟨rfl, rfl⟩ <;> decide

/-! ## "every Lnk kind the format carries" -/

/-- `Lnk(str(l)) = l` for all five kinds (the unspecified one is the empty string). -/
theorem lnk_roundtrip (l : Lnk) : Lnk.parse (Lnk.str l) = .ok l := Verif.Codec.lnk_roundtrip l

/-! ## SimpleMRS, token level -/

/-- "decoding the encoded text yields an MRS with the same top, index, predications (predicate,
label, arguments, constant, and the surface alignment and strings the format carries), handle and
individual constraints …; when properties or alignments are suppressed the decoded structure equals
the original with exactly that information removed and nothing else changed" — for the token list
of the encoder followed by ANY further tokens (so that documents of several items follow).
`decodedS o m` is `m` with arguments in `role_priority` order, EP lnk/surface only when `o.lnk`,
no `base`/identifier (SimpleMRS does not carry them), and `variables` rebuilt from the mentions. -/
theorem simplemrs_roundtrip (o : Opts) (m : MRS) (rest : List T) (h : ExprS m) :
    parse (toks o m ++ rest) = .ok (decodedS o m, rest) := parse_toks o m rest h

/-- "This holds for single items and multi-item documents": the token lists of several items in a
row are decoded to the list of their decoded structures (`loads` ∘ `dumps`, token level). -/
theorem simplemrs_roundtrip_many (o : Opts) (ms : List MRS) (h : ∀ m ∈ ms, ExprS m) (fuel : Nat)
    (hf : ms.length + 1 ≤ fuel) : parseMany fuel (toksMany o ms) = .ok (ms.map (decodedS o)) :=
  parseMany_toksMany o ms h fuel hf

/-- "… and variable properties": every variable of the structure is a key of the decoded
`variables`; its value is its property list (in `property_priority` order, a permutation of the
original one) when properties are on and the variable occurs in a variable position (INDEX, an
argument, ICONS), and the empty map otherwise — in particular for every variable when properties
are suppressed. -/
theorem simplemrs_variable_properties (o : Opts) (m : MRS) (v : Str)
    (hn : (m.vars.map (·.1)).Nodup) (hp : ∀ vp ∈ m.vars, (vp.2.map (·.1)).Nodup)
    (hv : v ∈ fillOrder m.top m.index (m.rels.map (epViewS o)) m.hcons m.icons) :
    dget (decodedS o m).vars v = some (propsView o m v)
    ∧ (propsView o m v).Perm (if o.properties = true ∧ v ∈ varPositions m then (dget m.vars v).getD [] else []) := by
  refine ⟨decodedS_vars o m v hn hp hv, ?_⟩
  unfold propsView
  split
  · cases dget m.vars v with
    | none => exact List.Perm.refl _
    | some ps => exact sortProps_perm ps
  · exact List.Perm.refl _

/-- first-mention lemma: over the whole token list the property blocks written for `v` are exactly
its sorted property list, once (at its first occurrence in a variable position), or nothing. -/
theorem first_mention (o : Opts) (m : MRS) (v : Str) (hn : (m.vars.map (·.1)).Nodup) :
    blocksOf v (mentions o m) = propsView o m v := blocksOf_mentions o m v hn

/-- what the decoder makes of the mentions: each mentioned variable is mapped to the result of
assigning all feature/value pairs of all its mentions, in order. -/
theorem decoder_variables (ms : List Mention) (v : Str) :
    dget (varsOfMentions ms) v = if ms.any (fun m => m.1 = v) then some (setAll [] (blocksOf v ms)) else none :=
  dget_varsOfMentions ms v

/-- "encoding that result again reproduces the text exactly" (SimpleMRS, token level): the encoder's
token list of the decoded structure is the token list of the original — for every structure whose
`variables` is a dictionary (distinct keys), whatever the options. -/
theorem simplemrs_stable (o : Opts) (m : MRS)
    (hn : (m.vars.map (·.1)).Nodup) (hp : ∀ vp ∈ m.vars, (vp.2.map (·.1)).Nodup) :
    toks o (decodedS o m) = toks o m := toks_decodedS o m hn hp

/-! ## SimpleMRS, character level (single-line layout) -/

/-- the model of the regex lexer reads back the single-line layout of the encoder's token list:
`lex (render (toks o m)) = toks o m` for every MRS whose atoms are lexically expressible
(`LexExprS`: unquoted atoms over plain characters, strings without line breaks, the Lnk kinds
SimpleMRS carries, predicates surface/abstract or quoted). -/
theorem simplemrs_lex_render (o : Opts) (m : MRS) (h : Lex.LexExprS m) :
    Lex.lex (Lex.render (toks o m)) = some (toks o m) :=
  Lex.lex_render (toks o m) (Lex.toks_ok o m h).1 (Lex.toks_ok o m h).2

/-- text level, single-line layout: lexing the text of the encoder and running the decoder gives
the decoded structure (`decode ∘ encode` with `indent=False`, for the model of the lexer). -/
theorem simplemrs_text_roundtrip (o : Opts) (m : MRS) (h : Lex.LexExprS m) (he : ExprS m) :
    (Lex.lex (Lex.render (toks o m))).map parse = some (.ok (decodedS o m, [])) := by
  rw [simplemrs_lex_render o m h]
  have := parse_toks o m [] he
  simp only [List.append_nil] at this
  simp [this]

/-- sorting by `property_priority` is idempotent (used for "encoding that result again reproduces
the text exactly": the re-encoder sorts an already sorted property list). -/
theorem sortProps_stable (ps : Props) : sortProps (sortProps ps) = sortProps ps := sortProps_idem ps

/-! ## MRX, ElementTree level (etree.tostring/fromstring are the identity on these trees:
assumption, checked on every generated case) -/

/-- "decoding the encoded text yields an MRS with the same top, index, predications …, handle and
individual constraints …; when properties or alignments are suppressed … exactly that information
removed": `decodedX o m` is `m` with arguments in `role_priority` order, alignments as
(cfrom, cto) — `<-1:-1>` for a missing one —, lnk/surface/base only when `o.lnk`, the identifier
kept, and `variables` rebuilt from the `var` elements (properties at the first mention among index,
arguments, `hi` of handle constraints, individual constraints). -/
theorem mrx_roundtrip (o : Opts) (m : MRS) (h : ExprX m) : ofXml (toXml o m) = some (decodedX o m) :=
  ofXml_toXml o m h

/-! ## Indexed MRS, token level, relative to a SEM-I that covers the structure -/

-- FULL STATEMENT (not proved): for a covering SEM-I, also with property lists written, the decoded
-- `variables` equal the original ones up to the case of the values.  Proved: the structure part with
-- property lists (`indexed_roundtrip_props`, the decoded variables given as `matchAll` of the
-- first-mention assignments); missing: that `matchAll` succeeds and returns the original maps (needs
-- reflexivity/subsumption facts of the SEM-I's property hierarchy on the written values).
/-- "… and Indexed MRS relative to a SEM-I that covers the structure": when no property list is
written (properties off, or no variable has properties) the decoder run on the encoder's tokens
followed by any further tokens returns top, index, handle and individual constraints unchanged and
every EP with its arguments in synopsis order and the constant last (`epViewI`), alignment only when
`o.lnk`; `CoverEP` is the covering condition (the encoder finds a synopsis with the EP's roles and
the positional reading of the written sorts selects a synopsis with the same leading role names). -/
theorem indexed_roundtrip_partial (semi : Ix.SemI) (o : Opts) (m : MRS) (ts rest : List Ix.TI)
    (htop : m.top.isSome = true)
    (hnp : o.properties = false ∨ ∀ vp ∈ m.vars, vp.2 = [])
    (hc : ∀ e ∈ m.rels, Ix.CoverEP semi e)
    (ht : Ix.toksIx semi o m = .ok ts) :
    Ix.parseIx semi (ts ++ rest) = .ok (Ix.decodedI0 semi o m, rest) :=
  Ix.parseIx_toksIx_partial semi o m ts rest htop hnp hc ht

/-- "the same … arguments, constant": the EP that comes back has exactly the arguments of the
original, as a map from roles to values. -/
theorem indexed_same_arguments (semi : Ix.SemI) (o : Opts) (e : EP) (h : Ix.CoverEP semi e) :
    ∀ r, dget (Ix.epViewI semi o e).args r = dget e.args r := Ix.epViewI_args semi o e h

/-- the structure part with property lists written: the same EPs and constraints; the decoded
`variables` are `_match_properties` of the first-mention assignments. -/
theorem indexed_roundtrip_props (semi : Ix.SemI) (o : Opts) (m : MRS) (ts rest : List Ix.TI)
    (vp0 : Dict (List Str)) (htop : m.top.isSome = true)
    (hprep : (if o.properties then Ix.prepProps semi m.vars else .ok []) = .ok vp0)
    (hgood : IxL.GoodVp vp0) (hc : ∀ e ∈ m.rels, Ix.CoverEP semi e) (ht : Ix.toksIx semi o m = .ok ts) :
    ∃ ix, m.index = some ix ∧
      Ix.parseIx semi (ts ++ rest) =
        (match Ix.matchAll semi (Ix.assignAll (IxL.asgVar vp0 ix ++ IxL.asgRels semi (Ix.encVarI vp0 ix).2 m.rels)) with
         | .ok vars => .ok (mkMRS m.top m.index (m.rels.map (Ix.epViewI semi o)) m.hcons m.icons vars .unspec none none, rest)
         | .error err => .error err) :=
  Ix.parseIx_toksIx_props semi o m ts rest vp0 htop hprep hgood hc ht

/-! ## MRS-JSON, dictionary level (json.dumps/json.loads are the identity on these dictionaries:
assumption, checked on every generated case) -/

/-- "decoding the encoded text yields an MRS with the same …; when properties or alignments are
suppressed the decoded structure equals the original with exactly that information removed":
`viewJ o m` is `m` without structure-level lnk/surface/identifier (not carried by MRS-JSON), EP
alignments as (from, to), and properties / lnk, surface, base removed when switched off. -/
theorem mrsjson_roundtrip (o : Opts) (m : MRS) (h : Filled m) : fromDict (toDict o m) = some (viewJ o m) :=
  fromDict_toDict o m h

/-- "encoding that result again reproduces the text exactly", for the Lnk kinds MRS-JSON carries
(character spans): the dictionary of the decoded structure is the dictionary of the original. -/
theorem mrsjson_stable (o : Opts) (m : MRS)
    (hc : ∀ e ∈ m.rels, e.lnk = .unspec ∨ ∃ a b, e.lnk = .charspan a b) :
    toDict o (viewJ o m) = toDict o m := toDict_viewJ o m (lnkCarried_of_charspan o m hc)

-- FULL STATEMENT (not true for Lnk kinds MRS-JSON does not carry): toDict o (viewJ o m) = toDict o m for all m.
/-- an edge/token/chart Lnk is written as {"from": -1, "to": -1} and not written at all the second
time: such alignments are outside "every Lnk kind the format carries". -/
theorem mrsjson_stable_needs_charspan : ∃ (o : Opts) (m : MRS), Filled m ∧ toDict o (viewJ o m) ≠ toDict o m :=
  toDict_viewJ_counterexample

/-- from the second encoding on the dictionary is stable for every structure. -/
theorem mrsjson_stable_twice (o : Opts) (m : MRS) : toDict o (viewJ o (viewJ o m)) = toDict o (viewJ o m) :=
  toDict_viewJ_viewJ o m

/-! ## non-vacuity and concrete instances (tests, labelled as such) -/

def exM : MRS :=
  mkMRS (some "h0".toList) (some "e2".toList)
    [{ pred := "_rain_v_1".toList, label := "h1".toList, args := [("ARG0".toList, "e2".toList), ("CARG".toList, "a\"b\\".toList)],
       lnk := .charspan 0 4, surface := some [] }]
    [⟨"h0".toList, "qeq".toList, "h1".toList⟩] []
    [("e2".toList, [("TENSE".toList, "pres".toList), ("SF".toList, "prop".toList)])] (.charspan 0 4) (some "x".toList) none

example : (parse (toks ⟨true, true⟩ exM)).toOption.map (·.1) = some (decodedS ⟨true, true⟩ exM) := by decide
example : dget (decodedS ⟨true, true⟩ exM).vars "e2".toList
    = some [("SF".toList, "prop".toList), ("TENSE".toList, "pres".toList)] := by decide
example : dget (decodedS ⟨false, true⟩ exM).vars "e2".toList = some [] := by decide
example : fromDict (toDict ⟨true, false⟩ exM) = some (viewJ ⟨true, false⟩ exM) := by decide
example : (Lnk.parse "<1 2 3>".toList).toOption = some (.tokens [1, 2, 3]) := by decide
example : scanDQ "a\\\"b\" x".toList = some ("a\\\"b".toList, " x".toList) := by decide

end Verif.C01.P
