/-
C01 — property theorems (MRS serialisations are lossless and stable).
Only property statements live here; every proof is a reference to a lemma of CodecLemmas /
SimpleLemmas / VarsLemmas / Lemmas / JsonLemmas, so a statement cannot be weakened quietly.

Not proved (tied by the correspondence run and decided by the direct oracle only): reading the MRX
text back into a tree (etree.fromstring / iterparse) and the JSON text level (library parameters); the MRX writer and
`_tostring`'s indentation are modelled (MrxText.lean) and compared with the real text.
-/
import Verif.Common.CodecLemmas
import Verif.C01.Lemmas
import Verif.C01.JsonLemmas
import Verif.C01.SimpleLemmas
import Verif.C01.StableLemmas
import Verif.C01.MrxLemmas
import Verif.C01.IxLemmas
import Verif.C01.IxPropsLemmas
import Verif.C01.IxLexLemmas
import Verif.C01.LayoutLemmas
import Verif.C01.MultiLemmas
import Verif.C01.MrxStableLemmas
import Verif.C01.IxStableLemmas
import Verif.C01.LexToksLemmas
import Verif.C01.LexLemmas
import Verif.C01.DocsLemmas
import Verif.C01.IxLayoutLemmas
import Verif.C01.MrxTextLemmas

namespace Verif.C01.P
open Verif.Codec Verif.Tables Verif.C01

/-! ## character level: "constants and surface strings over all of Unicode" -/

/-- "decoding the encoded text yields … the same … constant": unescaping an escaped string gives
the string back, for every string. -/
theorem mrsUnescape_escape (s : Str) : unescapeDQ (escapeDQ s) = s := unescapeDQ_escapeDQ s

/-- the string token of the lexers (`"([^"\\]*(?:\\.[^"\\]*)*)"`) ends exactly at the closing quote
of an escaped string, whatever backslashes and quotes the string contains and whatever follows. -/
theorem scanDQ_escape (s rest : Str) : scanDQ (escapeDQ s ++ '"' :: rest) = some (escapeDQ s, rest) :=
  scanDQ_escapeDQ s rest

/-- two different strings never have the same escaped form. -/
theorem escape_injective (a b : Str) (h : escapeDQ a = escapeDQ b) : a = b := escapeDQ_injective a b h

/-- the escape table of the live module is the one the model uses (pins `c01Escapes`). -/
theorem escapes_pinned : c01Escapes = [('\\', ['\\', '\\']), ('"', ['\\', '"'])]
    ∧ ∀ c r, (c, r) ∈ c01Escapes → escapeDQ [c] = r := by
  refine ⟨rfl, ?_⟩
  intro c r h
  simp only [c01Escapes, List.mem_cons, Prod.mk.injEq, List.not_mem_nil, or_false] at h
  rcases h with ⟨rfl, rfl⟩ | ⟨rfl, rfl⟩ <;> decide

/-! ## "every Lnk kind the format carries" -/

/-- `Lnk(str(l)) = l` for all five kinds (the unspecified one is the empty string). -/
theorem lnk_roundtrip (l : Lnk) : Lnk.parse (Lnk.str l) = .ok l := Verif.Codec.lnk_roundtrip l

/-! ## SimpleMRS, token level -/

/-- "decoding the encoded text yields an MRS with the same top, index, predications (predicate,
label, arguments, constant, and the surface alignment and strings the format carries), handle and
individual constraints …; when properties or alignments are suppressed the decoded structure equals
the original with exactly that information removed and nothing else changed" — for the token list
of the encoder followed by ANY further tokens (so that documents of several items follow).
`decodedS o m` is `m` with arguments in `role_priority` order, EP lnk/surface only when `o.lnk`,
no `base`/identifier (SimpleMRS does not carry them), and `variables` rebuilt from the mentions. -/
theorem simplemrs_roundtrip (o : Opts) (m : MRS) (rest : List T) (h : ExprS m) :
    parse (toks o m ++ rest) = .ok (decodedS o m, rest) := parse_toks o m rest h

/-- "This holds for single items and multi-item documents": the token lists of several items in a
row are decoded to the list of their decoded structures (`loads` ∘ `dumps`, token level). -/
theorem simplemrs_roundtrip_many (o : Opts) (ms : List MRS) (h : ∀ m ∈ ms, ExprS m) (fuel : Nat)
    (hf : ms.length + 1 ≤ fuel) : parseMany fuel (toksMany o ms) = .ok (ms.map (decodedS o)) :=
  parseMany_toksMany o ms h fuel hf

/-- "… and variable properties": every variable of the structure is a key of the decoded
`variables`; its value is its property list (in `property_priority` order, a permutation of the
original one) when properties are on and the variable occurs in a variable position (INDEX, an
argument, ICONS), and the empty map otherwise — in particular for every variable when properties
are suppressed. -/
theorem simplemrs_variable_properties (o : Opts) (m : MRS) (v : Str)
    (hn : (m.vars.map (·.1)).Nodup) (hp : ∀ vp ∈ m.vars, (vp.2.map (·.1)).Nodup)
    (hv : v ∈ fillOrder m.top m.index (m.rels.map (epViewS o)) m.hcons m.icons) :
    dget (decodedS o m).vars v = some (propsView o m v)
    ∧ (propsView o m v).Perm (if o.properties = true ∧ v ∈ varPositions m then (dget m.vars v).getD [] else []) := by
  refine ⟨decodedS_vars o m v hn hp hv, ?_⟩
  unfold propsView
  split
  · cases dget m.vars v with
    | none => exact List.Perm.refl _
    | some ps => exact sortProps_perm ps
  · exact List.Perm.refl _

/-- first-mention lemma: over the whole token list the property blocks written for `v` are exactly
its sorted property list, once (at its first occurrence in a variable position), or nothing. -/
theorem first_mention (o : Opts) (m : MRS) (v : Str) (hn : (m.vars.map (·.1)).Nodup) :
    blocksOf v (mentions o m) = propsView o m v := blocksOf_mentions o m v hn

/-- what the decoder makes of the mentions: each mentioned variable is mapped to the result of
assigning all feature/value pairs of all its mentions, in order. -/
theorem decoder_variables (ms : List Mention) (v : Str) :
    dget (varsOfMentions ms) v = if ms.any (fun m => m.1 = v) then some (setAll [] (blocksOf v ms)) else none :=
  dget_varsOfMentions ms v

/-- "encoding that result again reproduces the text exactly" (SimpleMRS, token level): the encoder's
token list of the decoded structure is the token list of the original — for every structure whose
`variables` is a dictionary (distinct keys), whatever the options. -/
theorem simplemrs_stable (o : Opts) (m : MRS)
    (hn : (m.vars.map (·.1)).Nodup) (hp : ∀ vp ∈ m.vars, (vp.2.map (·.1)).Nodup) :
    toks o (decodedS o m) = toks o m := toks_decodedS o m hn hp

/-! ## SimpleMRS, character level (single-line layout) -/

/-- the model of the regex lexer reads back the single-line layout of the encoder's token list:
`lex (render (toks o m)) = toks o m` for every MRS whose atoms are lexically expressible
(`LexExprS`: unquoted atoms over plain characters, strings without line breaks, the Lnk kinds
SimpleMRS carries, predicates surface/abstract or quoted). -/
theorem simplemrs_lex_render (o : Opts) (m : MRS) (h : Lex.LexExprS m) :
    Lex.lex (Lex.render (toks o m)) = some (toks o m) :=
  Lex.lex_render (toks o m) (Lex.toks_ok o m h).1 (Lex.toks_ok o m h).2

/-- text level, single-line layout: lexing the text of the encoder and running the decoder gives
the decoded structure (`decode ∘ encode` with `indent=False`, for the model of the lexer). -/
theorem simplemrs_text_roundtrip (o : Opts) (m : MRS) (h : Lex.LexExprS m) (he : ExprS m) :
    (Lex.lex (Lex.render (toks o m))).map parse = some (.ok (decodedS o m, [])) := by
  rw [simplemrs_lex_render o m h]
  have := parse_toks o m [] he
  simp only [List.append_nil] at this
  simp [this]

/-- "for every indentation setting" (SimpleMRS, indent=True): the model of the regex lexer reads the
indented text (`renderInd`, compared with the real `encode(indent=True)` on every generated case)
back as the token list of the encoder. -/
theorem simplemrs_lex_indented (o : Opts) (m : MRS) (h : Lex.LexExprS m) :
    Lex.lex (Lex.renderInd o m) = some (toks o m) := Lex.lex_renderInd o m h

/-- text level, indented layout: lexing the indented text and running the decoder gives the decoded
structure. -/
theorem simplemrs_text_roundtrip_indented (o : Opts) (m : MRS) (h : Lex.LexExprS m) (he : ExprS m) :
    (Lex.lex (Lex.renderInd o m)).map parse = some (.ok (decodedS o m, [])) := by
  rw [simplemrs_lex_indented o m h]
  have := parse_toks o m [] he
  simp only [List.append_nil] at this
  simp [this]

/-- "This holds for single items and multi-item documents" (SimpleMRS, TEXT level, `dumps`/`loads` with
indent=True: one indented item after the other, separated by line feeds): the lexer reads the
document back as the concatenation of the items' token lists, and the list decoder returns the list
of decoded structures. -/
theorem simplemrs_text_roundtrip_many (o : Opts) (ms : List MRS) (hl : ∀ m ∈ ms, Lex.LexExprS m)
    (he : ∀ m ∈ ms, ExprS m) :
    Lex.lex (Lex.renderIndMany o ms) = some (toksMany o ms)
    ∧ (Lex.lex (Lex.renderIndMany o ms)).map (parseMany (ms.length + 1)) = some (.ok (ms.map (decodedS o))) :=
  ⟨Lex.lex_renderIndMany o ms hl, Lex.text_roundtrip_many o ms hl he⟩

/-- sorting by `property_priority` is idempotent (used for "encoding that result again reproduces
the text exactly": the re-encoder sorts an already sorted property list). -/
theorem sortProps_stable (ps : Props) : sortProps (sortProps ps) = sortProps ps := sortProps_idem ps

/-! ## MRX, ElementTree level (etree.tostring/fromstring are the identity on these trees:
assumption, checked on every generated case) -/

/-- "decoding the encoded text yields an MRS with the same top, index, predications …, handle and
individual constraints …; when properties or alignments are suppressed … exactly that information
removed": `decodedX o m` is `m` with arguments in `role_priority` order, alignments as
(cfrom, cto) — `<-1:-1>` for a missing one —, lnk/surface/base only when `o.lnk`, the identifier
kept, and `variables` rebuilt from the `var` elements (properties at the first mention among index,
arguments, `hi` of handle constraints, individual constraints). -/
theorem mrx_roundtrip (o : Opts) (m : MRS) (h : ExprX m) : ofXml (toXml o m) = some (decodedX o m) :=
  ofXml_toXml o m h

/-- "encoding that result again reproduces the text exactly" (MRX, tree level): the tree of the
decoded structure is the tree of the original, for every structure whose `variables` is a
dictionary (distinct keys), whatever the options. -/
theorem mrx_stable (o : Opts) (m : MRS)
    (hn : (m.vars.map (·.1)).Nodup) (hp : ∀ vp ∈ m.vars, (vp.2.map (·.1)).Nodup) :
    toXml o (decodedX o m) = toXml o m := toXml_decodedX o m hn hp

/-- "This holds for single items and multi-item documents" (MRX, tree level, `loads` ∘ `dumps`): the
`mrs-list` element `_encode` builds for a list of structures is read back by `_decode` (every element with
the tag `mrs`, in document order) as the list of the decoded structures — one per item, in order. -/
theorem mrx_roundtrip_many (o : Opts) (ms : List MRS) (h : ∀ m ∈ ms, ExprX m) :
    ofXmlList (toXmlList o ms) = some (ms.map (decodedX o)) := ofXmlList_toXmlList o ms h

/-- "single vs. list API" (MRX): the text of a single item (`encode`) read through the list reader
(`loads`/`load`) gives exactly that one structure — the root `mrs` element is the only element with that tag. -/
theorem mrx_loads_single (o : Opts) (m : MRS) (h : ExprX m) : ofXmlList (toXml o m) = some [decodedX o m] :=
  ofXmlList_toXml o m h

/-- "encoding that result again reproduces the text exactly" (MRX documents, tree level). -/
theorem mrx_stable_many (o : Opts) (ms : List MRS)
    (h : ∀ m ∈ ms, (m.vars.map (·.1)).Nodup ∧ ∀ vp ∈ m.vars, (vp.2.map (·.1)).Nodup) :
    toXmlList o (ms.map (decodedX o)) = toXmlList o ms := toXmlList_decodedX o ms h

/-- MRX, TEXT level, "strings over all of Unicode": in the text the writer produces for element content and for
attribute values no raw `<` or `>` (and in attribute values no raw `"`) is left, whatever the string — every `<` of
the serialised text is therefore written by the writer as the start of a tag. -/
theorem mrx_text_escapes (s : Str) :
    (∀ c ∈ MrxT.escCdata s, c ≠ '<' ∧ c ≠ '>') ∧ (∀ c ∈ MrxT.escAttr s, c ≠ '<' ∧ c ≠ '>' ∧ c ≠ '"') :=
  ⟨MrxT.escCdata_no_markup s, MrxT.escAttr_no_markup s⟩

/-- "for every indentation setting" (MRX, TEXT level): for every width, offset and text, the `re.sub` of
`mrx._tostring` (`indentGo`, compared with the real indented `encode`/`dumps` text on every generated case) changes the
serialised text only by inserting runs of blanks and line feeds directly before `<` characters (`Ins`) — no character
is removed, reordered or inserted anywhere else. -/
theorem mrx_indent_only_inserts (n off fuel : Nat) (s : Str) : MrxT.Ins s (MrxT.indentGo n off fuel s) :=
  MrxT.indentGo_ins n off fuel s

/-! ## Indexed MRS, token level, relative to a SEM-I that covers the structure -/

/-- "… and Indexed MRS relative to a SEM-I that covers the structure, where property values compare
case-insensitively": the decoder run on the encoder's tokens followed by any further tokens returns
a structure with the same top, index, handle and individual constraints, every EP with its arguments
in synopsis order and the constant last (`epViewI`; the same arguments as a map:
`indexed_same_arguments`), alignment only when `o.lnk`, and `variables` mapping every variable of the
structure to `propsViewI`: the SEM-I's property names with the written (upper-cased) values when
properties are on and the variable is written at the index or as an argument, the empty map
otherwise.  Hypotheses on the SEM-I, both explicit: `CoverEP` per EP (synopsis lookup) and the
DECIDABLE `propsCover` (every variable with properties is a valid variable whose sort has a
non-empty property list with distinct names, and each written value, upper-cased, is subsumed in the
property hierarchy by the value the SEM-I declares) — these are exactly the facts
`_prepare_variable_properties`/`_match_properties` use. -/
theorem indexed_roundtrip (semi : Ix.SemI) (o : Opts) (m : MRS) (ts rest : List Ix.TI)
    (htop : m.top.isSome = true) (hc : ∀ e ∈ m.rels, Ix.CoverEP semi e)
    (hp : Ix.propsCover semi m = true) (hn : (m.vars.map (·.1)).Nodup)
    (ht : Ix.toksIx semi o m = .ok ts) :
    ∃ d, Ix.parseIx semi (ts ++ rest) = .ok (d, rest)
      ∧ d.top = m.top ∧ d.index = m.index ∧ d.rels = m.rels.map (Ix.epViewI semi o)
      ∧ d.hcons = m.hcons ∧ d.icons = m.icons ∧ d.lnk = .unspec ∧ d.surface = none ∧ d.ident = none
      ∧ ∀ v, v ∈ fillOrder m.top m.index (m.rels.map (Ix.epViewI semi o)) m.hcons m.icons →
          dget d.vars v = some (Ix.propsViewI semi o m v) :=
  Ix.parseIx_toksIx semi o m ts rest htop hc hp hn ht

/-- Indexed MRS, character level: the model of `_IndexedMRSLexer` (the twelve classes pinned in
`c01_pins_indexedmrs`) reads back the un-indented text of the encoder's token list, for every MRS
whose atoms are lexically expressible relative to the SEM-I and the options (`LexExprI`). -/
theorem indexed_lex_render (semi : Ix.SemI) (o : Opts) (m : MRS) (ts : List Ix.TI)
    (h : IxLex.LexExprI semi o m) (ht : Ix.toksIx semi o m = .ok ts) :
    IxLex.lexIx (IxLex.renderIx ts) = some ts := IxLex.lexIx_toksIx semi o m ts h ht

/-- Indexed MRS, text level (un-indented layout): lexing the encoder's text and running the decoder
gives a structure with the same top, index, EPs (`epViewI`), constraints and the property maps
`propsViewI`. -/
theorem indexed_text_roundtrip (semi : Ix.SemI) (o : Opts) (m : MRS) (ts : List Ix.TI)
    (hl : IxLex.LexExprI semi o m) (htop : m.top.isSome = true) (hc : ∀ e ∈ m.rels, Ix.CoverEP semi e)
    (hp : Ix.propsCover semi m = true) (hn : (m.vars.map (·.1)).Nodup)
    (ht : Ix.toksIx semi o m = .ok ts) :
    ∃ d, (IxLex.lexIx (IxLex.renderIx ts)).map (Ix.parseIx semi) = some (.ok (d, []))
      ∧ d.top = m.top ∧ d.index = m.index ∧ d.rels = m.rels.map (Ix.epViewI semi o)
      ∧ d.hcons = m.hcons ∧ d.icons = m.icons
      ∧ ∀ v, v ∈ fillOrder m.top m.index (m.rels.map (Ix.epViewI semi o)) m.hcons m.icons →
          dget d.vars v = some (Ix.propsViewI semi o m v) := by
  obtain ⟨d, hd, h1, h2, h3, h4, h5, _, _, _, h9⟩ := indexed_roundtrip semi o m ts [] htop hc hp hn ht
  refine ⟨d, ?_, h1, h2, h3, h4, h5, h9⟩
  rw [indexed_lex_render semi o m ts hl ht]
  simp only [List.append_nil] at hd
  simp [hd]

/-- "for every indentation setting" (Indexed MRS, character level): ANY layout that writes blanks and line
feeds after the tokens is read back by the model of `_IndexedMRSLexer` as the tokens, provided the tokens
are lexically expressible, two adjacent symbols are separated and an opening angle bracket is followed by
white space (`IxLayL.GapOK`). -/
theorem indexed_lex_any_layout (l : List (Ix.TI × Str)) (h : IxLayL.GapOK l) :
    IxLex.lexIx (IxLex.renderG l) = some (l.map (·.1)) := IxLayL.lexIx_renderG l h

/-- "for every indentation setting" (Indexed MRS): for every indentation width n (`indent=True` is 2) the
indented text of the encoder's tokens (`renderIxInd n`, compared with the real `encode(…, indent=n)` text on
every generated case) is read back as the tokens. -/
theorem indexed_lex_indented (semi : Ix.SemI) (o : Opts) (m : MRS) (ts : List Ix.TI) (n : Nat)
    (h : IxLex.LexExprI semi o m) (ht : Ix.toksIx semi o m = .ok ts) :
    IxLex.lexIx (IxLex.renderIxInd n ts) = some ts :=
  IxLex.lexIx_renderIxInd n ts (IxLex.toksIx_ok semi o m ts h ht).1

/-- Indexed MRS, text level, indented layout of any width: lexing the indented text and running the decoder
gives a structure with the same top, index, EPs (`epViewI`), constraints and the property maps `propsViewI`. -/
theorem indexed_text_roundtrip_indented (semi : Ix.SemI) (o : Opts) (m : MRS) (ts : List Ix.TI) (n : Nat)
    (hl : IxLex.LexExprI semi o m) (htop : m.top.isSome = true) (hc : ∀ e ∈ m.rels, Ix.CoverEP semi e)
    (hp : Ix.propsCover semi m = true) (hn : (m.vars.map (·.1)).Nodup)
    (ht : Ix.toksIx semi o m = .ok ts) :
    ∃ d, (IxLex.lexIx (IxLex.renderIxInd n ts)).map (Ix.parseIx semi) = some (.ok (d, []))
      ∧ d.top = m.top ∧ d.index = m.index ∧ d.rels = m.rels.map (Ix.epViewI semi o)
      ∧ d.hcons = m.hcons ∧ d.icons = m.icons
      ∧ ∀ v, v ∈ fillOrder m.top m.index (m.rels.map (Ix.epViewI semi o)) m.hcons m.icons →
          dget d.vars v = some (Ix.propsViewI semi o m v) := by
  obtain ⟨d, hd, h1, h2, h3, h4, h5, _, _, _, h9⟩ := indexed_roundtrip semi o m ts [] htop hc hp hn ht
  refine ⟨d, ?_, h1, h2, h3, h4, h5, h9⟩
  rw [indexed_lex_indented semi o m ts n hl ht]
  simp only [List.append_nil] at hd
  simp [hd]

/-- "multi-item documents … for every indentation setting" (Indexed MRS, TEXT level, `dumps`/`loads` with an
indentation width n: the items' indented texts separated by line feeds — `renderIxInd n` of the items' tokens
in a row): the lexer reads the document back as the concatenation of the items' token lists, and the list
decoder returns one structure per item, each decoded as its item. -/
theorem indexed_text_roundtrip_many (semi : Ix.SemI) (o : Opts) (items : List (MRS × List Ix.TI)) (n : Nat)
    (hl : ∀ p ∈ items, IxLex.LexExprI semi o p.1) (h : ∀ p ∈ items, Ix.OkItem semi o p.1 p.2) :
    IxLex.lexIx (IxLex.renderIxInd n (items.flatMap (·.2))) = some (items.flatMap (·.2))
    ∧ ∃ ds, (IxLex.lexIx (IxLex.renderIxInd n (items.flatMap (·.2)))).map (Ix.parseManyIx semi (items.length + 1)) = some (.ok ds)
        ∧ Ix.All2 (Ix.DecodedAs semi o) (items.map (·.1)) ds := by
  have hlex : IxLex.lexIx (IxLex.renderIxInd n (items.flatMap (·.2))) = some (items.flatMap (·.2)) := by
    apply IxLex.lexIx_renderIxInd
    intro t ht
    obtain ⟨p, hp, htp⟩ := List.mem_flatMap.1 ht
    exact (IxLex.toksIx_ok semi o p.1 p.2 (hl p hp) (h p hp).2.2.2.2).1 t htp
  refine ⟨hlex, ?_⟩
  obtain ⟨ds, hd, ha⟩ := Ix.parseManyIx_toksIx semi o items h (items.length + 1) (Nat.le_refl _)
  exact ⟨ds, by rw [hlex]; simp [hd], ha⟩

/-- "single items and multi-item documents", indent off (Indexed MRS, TEXT level, `dumps`/`loads` with indent
None/False: the items' un-indented texts joined by one blank — `renderIxDoc` of the items' tokens in a row, compared
with the real `dumps` text on every generated case): the lexer reads the document back as the concatenation of the
items' token lists, and the list decoder returns one structure per item, each decoded as its item. -/
theorem indexed_text_roundtrip_document (semi : Ix.SemI) (o : Opts) (items : List (MRS × List Ix.TI))
    (hl : ∀ p ∈ items, IxLex.LexExprI semi o p.1) (h : ∀ p ∈ items, Ix.OkItem semi o p.1 p.2) :
    IxLex.lexIx (IxLex.renderIxDoc (items.flatMap (·.2))) = some (items.flatMap (·.2))
    ∧ ∃ ds, (IxLex.lexIx (IxLex.renderIxDoc (items.flatMap (·.2)))).map (Ix.parseManyIx semi (items.length + 1)) = some (.ok ds)
        ∧ Ix.All2 (Ix.DecodedAs semi o) (items.map (·.1)) ds := by
  have hlex : IxLex.lexIx (IxLex.renderIxDoc (items.flatMap (·.2))) = some (items.flatMap (·.2)) := by
    apply IxLex.lexIx_renderIxDoc
    · intro t ht
      obtain ⟨p, hp, htp⟩ := List.mem_flatMap.1 ht
      exact (IxLex.toksIx_ok semi o p.1 p.2 (hl p hp) (h p hp).2.2.2.2).1 t htp
    · rw [List.flatMap_def]
      apply IxLayL.LaOK_flatten
      intro ts hts
      obtain ⟨p, hp, rfl⟩ := List.mem_map.1 hts
      exact (IxLex.toksIx_ok semi o p.1 p.2 (hl p hp) (h p hp).2.2.2.2).2
  refine ⟨hlex, ?_⟩
  obtain ⟨ds, hd, ha⟩ := Ix.parseManyIx_toksIx semi o items h (items.length + 1) (Nat.le_refl _)
  exact ⟨ds, by rw [hlex]; simp [hd], ha⟩

/-- "encoding that result again reproduces the text exactly" (Indexed MRS, token level): whatever
the decoder returns for the encoder's tokens (followed by any further tokens) is encoded to the
same token list again. -/
theorem indexed_stable (semi : Ix.SemI) (o : Opts) (m d : MRS) (ts rest rest' : List Ix.TI)
    (htop : m.top.isSome = true) (hc : ∀ e ∈ m.rels, Ix.CoverEP semi e)
    (hp : Ix.propsCover semi m = true) (hn : (m.vars.map (·.1)).Nodup)
    (ht : Ix.toksIx semi o m = .ok ts) (hpar : Ix.parseIx semi (ts ++ rest) = .ok (d, rest')) :
    Ix.toksIx semi o d = .ok ts :=
  Ix.toksIx_parseIx_toksIx semi o m d ts rest rest' htop hc hp hn ht hpar

/-- "multi-item documents" (Indexed MRS, token level, `loads` ∘ `dumps`): the list decoder run on the
token lists of several items in a row returns one structure per item, each decoded as its item
(`Ix.DecodedAs`: the conclusion of `indexed_roundtrip`; `Ix.OkItem`: its hypotheses). -/
theorem indexed_roundtrip_many (semi : Ix.SemI) (o : Opts) (items : List (MRS × List Ix.TI))
    (h : ∀ p ∈ items, Ix.OkItem semi o p.1 p.2) (fuel : Nat) (hf : items.length + 1 ≤ fuel) :
    ∃ ds, Ix.parseManyIx semi fuel (items.flatMap (·.2)) = .ok ds
      ∧ Ix.All2 (Ix.DecodedAs semi o) (items.map (·.1)) ds :=
  Ix.parseManyIx_toksIx semi o items h fuel hf

/-- "property values compare case-insensitively": when the variable carries the full property list
of its sort, the map that comes back has exactly its properties with upper-cased values. -/
theorem indexed_same_properties (semi : Ix.SemI) (o : Opts) (m : MRS) (v : Str) (ps : Props)
    (sps : List (Str × Str)) (ho : o.properties = true) (hw : v ∈ Ix.writtenVars semi m)
    (hps : dget m.vars v = some ps) (hne : ps ≠ []) (hs : dget semi.vprops (varSort v) = some sps)
    (hnd : (sps.map (·.1)).Nodup) (hfull : ∀ K, (dget ps K).isSome = true ↔ K ∈ sps.map (·.1)) :
    ∀ K, dget (Ix.propsViewI semi o m v) K = (dget ps K).map upper :=
  Ix.propsViewI_same semi o m v ps sps ho hw hps hne hs hnd hfull

/-- "… and Indexed MRS relative to a SEM-I that covers the structure": when no property list is
written (properties off, or no variable has properties) the decoder run on the encoder's tokens
followed by any further tokens returns top, index, handle and individual constraints unchanged and
every EP with its arguments in synopsis order and the constant last (`epViewI`), alignment only when
`o.lnk`; `CoverEP` is the covering condition (the encoder finds a synopsis with the EP's roles and
the positional reading of the written sorts selects a synopsis with the same leading role names). -/
theorem indexed_roundtrip_partial (semi : Ix.SemI) (o : Opts) (m : MRS) (ts rest : List Ix.TI)
    (htop : m.top.isSome = true)
    (hnp : o.properties = false ∨ ∀ vp ∈ m.vars, vp.2 = [])
    (hc : ∀ e ∈ m.rels, Ix.CoverEP semi e)
    (ht : Ix.toksIx semi o m = .ok ts) :
    Ix.parseIx semi (ts ++ rest) = .ok (Ix.decodedI0 semi o m, rest) :=
  Ix.parseIx_toksIx_partial semi o m ts rest htop hnp hc ht

/-- "the same … arguments, constant": the EP that comes back has exactly the arguments of the
original, as a map from roles to values. -/
theorem indexed_same_arguments (semi : Ix.SemI) (o : Opts) (e : EP) (h : Ix.CoverEP semi e) :
    ∀ r, dget (Ix.epViewI semi o e).args r = dget e.args r := Ix.epViewI_args semi o e h

/-! ## MRS-JSON, dictionary level (json.dumps/json.loads are the identity on these dictionaries:
assumption, checked on every generated case) -/

/-- "decoding the encoded text yields an MRS with the same …; when properties or alignments are
suppressed the decoded structure equals the original with exactly that information removed":
`viewJ o m` is `m` without structure-level lnk/surface/identifier (not carried by MRS-JSON), EP
alignments as (from, to), and properties / lnk, surface, base removed when switched off. -/
theorem mrsjson_roundtrip (o : Opts) (m : MRS) (h : Filled m) : fromDict (toDict o m) = some (viewJ o m) :=
  fromDict_toDict o m h

/-- "encoding that result again reproduces the text exactly", for the Lnk kinds MRS-JSON carries
(character spans): the dictionary of the decoded structure is the dictionary of the original. -/
theorem mrsjson_stable (o : Opts) (m : MRS)
    (hc : ∀ e ∈ m.rels, e.lnk = .unspec ∨ ∃ a b, e.lnk = .charspan a b) :
    toDict o (viewJ o m) = toDict o m := toDict_viewJ o m (lnkCarried_of_charspan o m hc)

-- FULL STATEMENT (not true for Lnk kinds MRS-JSON does not carry): toDict o (viewJ o m) = toDict o m for all m.
/-- an edge/token/chart Lnk is written as {"from": -1, "to": -1} and not written at all the second
time: such alignments are outside "every Lnk kind the format carries". -/
theorem mrsjson_stable_needs_charspan : ∃ (o : Opts) (m : MRS), Filled m ∧ toDict o (viewJ o m) ≠ toDict o m :=
  toDict_viewJ_counterexample

/-- from the second encoding on the dictionary is stable for every structure. -/
theorem mrsjson_stable_twice (o : Opts) (m : MRS) : toDict o (viewJ o (viewJ o m)) = toDict o (viewJ o m) :=
  toDict_viewJ_viewJ o m


/-- "This holds for single items and multi-item documents" (MRS-JSON, dictionary level, `loads` ∘ `dumps`):
the list of dictionaries is read back as the list of views, one per item, in order. -/
theorem mrsjson_roundtrip_many (o : Opts) (ms : List MRS) (h : ∀ m ∈ ms, Filled m) :
    fromDictList (toDictList o ms) = some (ms.map (viewJ o)) := fromDictList_toDictList o ms h

/-- "encoding that result again reproduces the text exactly" (MRS-JSON documents, character-span Lnks). -/
theorem mrsjson_stable_many (o : Opts) (ms : List MRS)
    (hc : ∀ m ∈ ms, ∀ e ∈ m.rels, e.lnk = .unspec ∨ ∃ a b, e.lnk = .charspan a b) :
    toDictList o (ms.map (viewJ o)) = toDictList o ms := toDictList_viewJ o ms hc

/-! ## pins: the constants of the anchored code that the models hand-code (read from the live code on
every run into Verif/Generated/TablesC01.lean; literal copies here) -/

/-- PINS, delphin/codecs/simplemrs.py.  The (regex, name) pairs of `SimpleMRSLexer.tokens` in order are what
`Lex.step` (Lexer.lean: `mLnk`, `scanDQ`, `sqOk`, `mPred`, `featOk`, `runLt symOk`, `lnkish`, `posChars`) hand-codes,
class by class in this order, and what `K` names; `_ESCAPES`/`_UNESCAPES` and the constants of `_escape`/`_unescape`
are `escapeDQ`/`unescapeDQ`; the character class of `_encode_predicate` is `needsQuote`; the feature names, the
`LTOP`/`TOP` pair, `LBL`, `CARG`, the token-class and method names (`upper`, `lower`, `accept_type`, `expect_type`,
`peek`) of the `_decode_*` functions are what `parse`, `parseFeatures`, `parseRel`, `parseArgs`, `parseVar`,
`parseProps`, `parseCons`, `parsePred`, `parseLnk` mirror; the format strings and section names of the `_encode_*`
functions are what `toks`, `encRel`, `encVar`, `section_`, `encHcons`, `encIcons` and `Lex.render` mirror.
A change to any of them must be followed in the model: this theorem stops checking. -/
theorem c01_pins_simplemrs :
    c01SimpleLexer =
      ["\\[", "LBRACK:[", "\\]", "RBRACK:]", "<(?:-?\\d+[:#]-?\\d+|@\\d+|\\d+(?: +\\d+)*)>",
       "LNK:a lnk value", "\"([^\"\\\\]*(?:\\\\.[^\"\\\\]*)*)\"", "DQSTRING:a string",
       "'([^ \\n:<>\\[\\]]+)", "SQSYMBOL:a quoted symbol",
       "_[^\\s_]+_[nvajrscpqxud](?:_(?:[^\\s_<]|<(?![-0-9:#@ ]*>\\s))+)?(?:_rel)?",
       "PREDICATE:a surface predicate", "<", "LANGLE:<", ">", "RANGLE:>", "([^\\s:<>\\[\\]]+):",
       "FEATURE:a feature", "(?:[^ \\n\\]<]+|<(?![-0-9:#@ ]*>\\s))+", "SYMBOL:a symbol", "[^\\s]",
       "UNEXPECTED"]
    ∧ c01SimpleEscapes =
      ["\\", "\\\\", "\"", "\\\""]
    ∧ c01SimpleUnescapes =
      ["\\\\", "\\", "\\\"", "\""]
    ∧ c01Simple_decode =
      ["|", "SimpleMRSLexer", "lex", "peek", "_decode_mrs", "StopIteration"]
    ∧ c01Simple_decode_mrs =
      ["(LTOP,TOP)", "INDEX", "RELS", "0", "HCONS", "ICONS", "(icons,variables,lnk,surface,identifier)", "|",
       "expect_type", "LBRACK", "_decode_lnk", "_decode_dqstring", "accept_type", "DQSTRING", "FEATURE",
       "upper", "SYMBOL", "lower", "_decode_variable", "LANGLE", "peek", "append", "_decode_rel", "RANGLE",
       "_decode_cons", "HCons", "ICons", "ValueError", "RBRACK", "MRS"]
    ∧ c01Simple_decode_lnk =
      ["|", "accept_type", "LNK", "Lnk"]
    ∧ c01Simple_decode_dqstring =
      ["|", "_unescape"]
    ∧ c01Simple_decode_variable =
      ["|", "expect_type", "SYMBOL", "lower", "accept_type", "LBRACK", "FEATURE", "upper", "RBRACK"]
    ∧ c01Simple_decode_rel =
      ["LBL", "CARG", "(args,lnk,surface,base)", "|", "expect_type", "LBRACK", "_decode_predicate",
       "_decode_lnk", "_decode_dqstring", "accept_type", "DQSTRING", "expect", "FEATURE", "SYMBOL", "upper",
       "_decode_variable", "RBRACK", "EP", "lower"]
    ∧ c01Simple_decode_predicate =
      ["1", "|", "accept_type", "DQSTRING", "_decode_dqstring", "choice_type", "SQSYMBOL", "PREDICATE",
       "SYMBOL", "predicate", "normalize"]
    ∧ c01Simple_decode_cons =
      ["|", "_decode_variable", "expect_type", "SYMBOL", "lower"]
    ∧ c01Simple_encode =
      [" ", "\n"]
    ∧ c01Simple_encode_mrs =
      ["\n  ", " ", "[ {} ]", " "]
    ∧ c01Simple_encode_surface_info =
      ["\"{}\""]
    ∧ c01Simple_encode_hook =
      ["\n  ", " ", "{}: {}", "INDEX: {}"]
    ∧ c01Simple_encode_variable =
      ["[", "(key)", ":", "]", " "]
    ∧ c01Simple_encode_rels =
      ["\n  ", " ", "RELS: < ", "[", "\"{}\"", "LBL:", "(key)", ":", "]", "RELS: <", ">"]
    ∧ c01Simple_encode_predicate =
      ["[\\s\\\"':<>[\\]]", "\""]
    ∧ c01Simple_encode_hcons =
      ["{} {} {}", "HCONS: <", " ", ">"]
    ∧ c01Simple_encode_icons =
      ["{} {} {}", "ICONS: <", " ", ">"]
    ∧ c01Simple_escape =
      [""]
    ∧ c01Simple_unescape =
      ["0", "\\", "1", "2", ""]
    ∧ c01Simpledecode =
      []
    ∧ c01Simpleloads =
      [] := by
  refine ⟨?_, ?_, ?_, ?_, ?_, ?_, ?_, ?_, ?_, ?_, ?_, ?_, ?_, ?_, ?_, ?_, ?_, ?_, ?_, ?_, ?_, ?_, ?_, ?_⟩ <;> rfl

/-- PINS, delphin/codecs/indexedmrs.py.  `_IndexedMRSLexer.tokens` in order is what `Ix.KI` names and what
`IxLex.stepI` (IxLexer.lean: `mLnkI`, `scanDQ`, `symOkI`) hand-codes class by class; the constants and names of
`_decode_indexed`, `_decode_proplist`, `_decode_rels`, `_decode_rel`, `_find_synopsis`, `_decode_arglist`,
`_decode_cons`, `_match_properties` are mirrored by `Ix.parseIx`, `parsePropList`, `parseRelLoop`, `parseRelI`,
`findDec`, `parseArgList`, `parseConsI`, `matchProps`; those of `_encode_indexed` (the un-indented format strings),
`_prepare_variable_properties`, `_encode_variable`, `_encode_rel`, `_encode_hcons/_icons`, `_escape`, `_unescape`
by `Ix.toksIx`, `prepProps`, `encVarI`, `encRelI`, `encConsI`, `escapeDQ`, `unescapeDQ`. -/
theorem c01_pins_indexedmrs :
    c01IndexedLexer =
      ["<-?\\d+:-?\\d+>", "LNK:a lnk value", "\"([^\"\\\\]*(?:\\\\.[^\"\\\\]*)*)\"", "DQSTRING:a string",
       "<", "LANGLE:<", ">", "RANGLE:>", "\\{", "LBRACE:{", "\\}", "RBRACE:}", "\\(", "LPAREN:(", "\\)",
       "RPAREN:)", ",", "COMMA:,", ":", "COLON::", "[^\\s\"\\'()\\/,:;<=>[\\]{}]+", "SYMBOL:a symbol",
       "[^\\s]", "UNEXPECTED"]
    ∧ c01Indexed_decode =
      ["|", "_IndexedMRSLexer", "lex", "peek", "_decode_indexed", "StopIteration"]
    ∧ c01Indexed_decode_indexed =
      ["(top,index,rels,hcons,icons,variables,lnk,surface,identifier)", "|", "expect_type", "LANGLE",
       "SYMBOL", "COMMA", "accept_type", "COLON", "_decode_proplist", "_decode_rels", "_decode_cons",
       "HCons", "ICons", "RANGLE", "_match_properties", "MRS"]
    ∧ c01Indexed_decode_proplist =
      ["|", "expect_type", "SYMBOL", "accept_type", "COLON", "append"]
    ∧ c01Indexed_decode_rels =
      ["0", "|", "expect_type", "LBRACE", "peek", "RBRACE", "append", "_decode_rel", "accept_type", "COMMA"]
    ∧ c01Indexed_decode_rel =
      ["0", "(args,lnk,surface,base)", "|", "expect_type", "SYMBOL", "COLON", "_decode_lnk",
       "_decode_arglist", "variable", "type", "_find_synopsis", "CONSTANT_ROLE", "dict", "zip", "EP"]
    ∧ c01Indexed_decode_lnk =
      ["|", "accept_type", "LNK", "Lnk"]
    ∧ c01Indexed_find_synopsis =
      ["|", "normalize_predicate", "predicates", "name", "CONSTANT_ROLE", "len", "Synopsis", "subsumes",
       "variables", "find_synopsis"]
    ∧ c01Indexed_decode_arglist =
      ["0", "|", "expect_type", "LPAREN", "peek", "RPAREN", "choice_type", "SYMBOL", "DQSTRING",
       "accept_type", "COLON", "_decode_proplist", "append", "_unescape", "COMMA"]
    ∧ c01Indexed_decode_cons =
      ["0", "|", "expect_type", "LBRACE", "peek", "RBRACE", "SYMBOL", "append", "accept_type", "COMMA"]
    ∧ c01Indexed_match_properties =
      ["1", "0", "|", "properties", "subsumes", "items", "variables", "variable", "type", "len", "all", "zip"]
    ∧ c01Indexed_encode =
      [" ", "\n"]
    ∧ c01Indexed_encode_indexed =
      [",{{{}}}", ",", "<", ">", "{},{}", "2", ",\n", " ", "{{", "1", "{} }}", "  ", ", ", "< ", " >",
       "{}, {}", ""]
    ∧ c01Indexed_prepare_variable_properties =
      []
    ∧ c01Indexed_encode_variable =
      [":", ""]
    ∧ c01Indexed_encode_rel =
      ["\"{}\"", "{label}:{pred}{lnk}({args})", "", "(label,pred,lnk,args)"]
    ∧ c01Indexed_encode_hcons =
      ["{} {} {}"]
    ∧ c01Indexed_encode_icons =
      ["{} {} {}"]
    ∧ c01Indexed_escape =
      ["\\", "\\\\", "\"", "\\\""]
    ∧ c01Indexed_unescape =
      ["0", "\\", "1", "2", ""] := by
  refine ⟨?_, ?_, ?_, ?_, ?_, ?_, ?_, ?_, ?_, ?_, ?_, ?_, ?_, ?_, ?_, ?_, ?_, ?_, ?_, ?_⟩ <;> rfl

/-- PINS, delphin/lnk.py, predicate.py, variable.py, sembase.py, mrs/_mrs.py.  Lnk: type numbers, the
characters `< > @ : #` of `__init__` and the format strings of `__str__`, the `(-1, -1)` of `__bool__`, the `-1`
defaults of `cfrom`/`cto` — `Codec.Lnk`, `Lnk.parse`, `Lnk.str`, `Lnk.truthy`, `Lnk.cfrom/cto`.  predicate: the
lemma/pos/sense patterns, the strict and the robust pattern with their flags, `_strip_predicate` (`"`, `'`,
`_rel`, `lower`), `normalize` (`lower`), `create`, `split`, `is_surface`, `is_abstract` — `stripPred`,
`normalizePred`, `isSurface`, `isAbstract`, `splitSurface`, `createPred`, `goodPart`, `isPos`.  variable:
`_variable_re` — `varSplit`, `validVar`.  sembase: the constants of `role_priority` (`LBL`, `(BODY,CARG)`, `upper`)
and of `property_priority` — `roleKey`, `roleLe`, `propIndex`, `propLe` (the property list itself is
`c01CommonProperties`).  _mrs: the role constants, `_0`/`_`/`q` of `EP.__init__`, the visiting order names of
`_fill_variables` — `CARG`, `fillOrder`, `fillVars`. -/
theorem c01_pins_lnk_predicate_variable :
    c01LnkTypes =
      ["0", "1", "2", "3", "4"]
    ∧ c01LnkInit =
      ["1", "-1", "(<,>)", "@", ":", "#", "|", "Lnk", "UNSPECIFIED", "type", "data", "startswith", "EDGE",
       "int", "split", "CHARSPAN", "CHARTSPAN", "TOKENS", "tuple", "map", "LnkError", "format"]
    ∧ c01LnkStr =
      ["", "<{}:{}>", "0", "1", "<{}#{}>", "<@{}>", "<{}>", " "]
    ∧ c01LnkBool =
      ["(-1,-1)"]
    ∧ c01LnkCfrom =
      ["-1", "0"]
    ∧ c01LnkCto =
      ["-1", "1"]
    ∧ c01PredPatterns =
      ["[^\\s_]+", "[acdjnpqrsuvx]", "34", "[^\\s_]+", "(_[^\\s_]+_[acdjnpqrsuvx](?:_[^\\s_]+)?)$|([^\\s_]\\S*)$", "34",
       "_?(?P<lemma>[^\\s_]+(?:_[^\\s_]+)*?)(?:_(?P<pos>[acdjnpqrsuvx]))?(?:_(?P<sense>[^\\s_]+))?(?:_rel)?$", "34"]
    ∧ c01Pred_strip_predicate =
      ["\"", "1", "-1", "'", "-4", "_rel", "|", "startswith", "endswith", "lower"]
    ∧ c01Predsplit =
      ["lemma", "pos", "sense", "|", "_strip_predicate", "_robust_predicate_re", "match", "PredicateError",
       "group"]
    ∧ c01Predcreate =
      ["_", "|", "_lemma_re", "fullmatch", "PredicateError", "lower", "_POS", "_sense_re", "append", "join"]
    ∧ c01Prednormalize =
      ["|", "_strip_predicate", "lower"]
    ∧ c01Predis_surface =
      ["1", "|", "_strip_predicate", "_strict_predicate_re", "match", "lastindex"]
    ∧ c01Predis_abstract =
      ["2", "|", "_strip_predicate", "_strict_predicate_re", "match", "lastindex"]
    ∧ c01VariableRe =
      ["^([-\\w]*[^\\s\\d])(\\d+)$", "32"]
    ∧ c01VariableSplit =
      ["1", "2", "|", "_variable_re", "match", "ValueError", "group"]
    ∧ c01VariableType =
      ["0", "|", "split"]
    ∧ c01RolePriority =
      ["LBL", "(BODY,CARG)", "|", "upper"]
    ∧ c01PropertyPriority =
      ["|", "_COMMON_PROPERTY_INDEX", "get", "upper", "len", "_COMMON_PROPERTIES"]
    ∧ c01MrsRoles =
      ["ARG0", "RSTR", "BODY", "CARG", "q"]
    ∧ c01EPInit =
      ["_0", "_"]
    ∧ c01FillVariables =
      ["|", "label", "args", "items", "CONSTANT_ROLE", "lo", "hi", "left", "right"] := by
  refine ⟨?_, ?_, ?_, ?_, ?_, ?_, ?_, ?_, ?_, ?_, ?_, ?_, ?_, ?_, ?_, ?_, ?_, ?_, ?_, ?_, ?_⟩ <;> rfl

/-- PINS, delphin/codecs/mrx.py.  Tag names, attribute names, the `h` of `_decode_label`, the method names
(`find`, `findall`, `iter`, `get`, `upper`, `lower`, `setdefault`) and ElementPath strings (`./`, `hi/var`, `lo/`,
`left/var`, `right/var`) of the `_decode_*` helpers — `ofXml`, `dLabel`, `dVar`, `dPred`, `dArgs`, `dEp`, `dHcons`,
`dIcons`, `dLnk`; the tags and attributes of the `_encode_*` helpers — `toXml`, `xLabel`, `xVar`, `xExtrapair`,
`xPred`, `xArgs`, `xEp`, `xHcons`, `xIcons`, `lnkAttrs`; the indentation regex of `_tostring` (not modelled:
oracle only) is pinned so that a change is noticed. -/
theorem c01_pins_mrx :
    c01Mrx_decode =
      ["(end)", "(events)", "mrs", "|", "etree", "iterparse", "tag", "_decode_mrs", "clear"]
    ∧ c01Mrx_decode_mrs =
      [".", "label", "var", "(variables)", "ep", "hcons", "icons", "cfrom", "cto", "surface", "ident",
       "(icons,variables,lnk,surface,identifier)", "|", "find", "_decode_label", "_decode_var", "iter",
       "_decode_ep", "_decode_hcons", "_decode_icons", "MRS", "_decode_lnk", "get"]
    ∧ c01Mrx_decode_label =
      ["vid", "h", "|", "get"]
    ∧ c01Mrx_decode_var =
      ["vid", "sort", "extrapair", "|", "get", "lower", "setdefault", "_decode_extrapairs", "iter"]
    ∧ c01Mrx_decode_extrapairs =
      ["path", "value", "|", "find", "text", "upper", "lower"]
    ∧ c01Mrx_decode_ep =
      ["(variables)", "./", "label", "cfrom", "cto", "surface", "base", "(args,lnk,surface,base)", "|",
       "_decode_args", "EP", "_decode_pred", "find", "_decode_label", "_decode_lnk", "get"]
    ∧ c01Mrx_decode_pred =
      ["(pred,spred)", "realpred", "lemma", "pos", "sense", "|", "tag", "text", "predicate", "create", "get"]
    ∧ c01Mrx_decode_args =
      ["fvpair", "rargname", "constant", "var", "(variables)", "|", "findall", "find", "text", "upper",
       "_decode_var"]
    ∧ c01Mrx_decode_hcons =
      ["hi/var", "lo/", "var", "hreln", "|", "_decode_var", "find", "tag", "_decode_label", "HCons", "get"]
    ∧ c01Mrx_decode_icons =
      ["left/var", "ireln", "right/var", "|", "ICons", "_decode_var", "find", "get"]
    ∧ c01Mrx_decode_lnk =
      ["|", "ValueError", "Lnk", "charspan"]
    ∧ c01Mrx_encode =
      ["mrs-list"]
    ∧ c01Mrx_encode_mrs =
      ["cfrom", "cto", "surface", "ident", "mrs", "(attrib)"]
    ∧ c01Mrx_encode_label =
      ["label", "(vid)"]
    ∧ c01Mrx_encode_variable =
      ["var", "(vid,sort)", "(key)"]
    ∧ c01Mrx_encode_extrapair =
      ["extrapair", "path", "value"]
    ∧ c01Mrx_encode_ep =
      ["cfrom", "cto", "surface", "base", "ep", "(attrib)", "(key)"]
    ∧ c01Mrx_encode_pred =
      ["(lemma,pos)", "sense", "realpred", "(attrib)", "pred", "spred"]
    ∧ c01Mrx_encode_arg =
      ["fvpair", "rargname"]
    ∧ c01Mrx_encode_constant =
      ["constant"]
    ∧ c01Mrx_encode_hcon =
      ["hcons", "(hreln)", "hi", "lo"]
    ∧ c01Mrx_encode_icon =
      ["icons", "(ireln)", "left", "right"]
    ∧ c01Mrx_tostring =
      ["unicode", "(encoding)", "0", "\n", " ",
       "(</mrs-list>)|(<mrs[^-]|</mrs>)|(<ep[>\\s]|<fvpair>|<extrapair>|<hcons\\s|<icons\\s>)"] := by
  refine ⟨?_, ?_, ?_, ?_, ?_, ?_, ?_, ?_, ?_, ?_, ?_, ?_, ?_, ?_, ?_, ?_, ?_, ?_, ?_, ?_, ?_, ?_, ?_⟩ <;> rfl

/-- PINS, delphin/codecs/mrsjson.py (dictionary keys of `to_dict`/`from_dict` — `toDict`, `fromDict`; the
`indent` normalisation constants of encode/dumps/dump), delphin/semi.py (`STRING_TYPE`, `TOP_TYPE`, the per-role
checks of `Synopsis.subsumes` and `SemI.find_synopsis` — `Ix.fitsSeq`, `fitsMap`, `roleFits`, `findEnc`,
`findSeq`, `lookupPred`), delphin/util.py (the 1024-token look-ahead buffer and `Lexer.prelex` — `Lex.lexLine`,
`Lex.lex`, and the long-document cases of the harness), and the default arguments of
encode/decode/dumps/loads/dump/load of the four codecs (properties=True, lnk=True, indent=False/None,
encoding='utf-8') on which generators and oracle rely. -/
theorem c01_pins_json_semi_api :
    c01Json_to_dict =
      ["(label,predicate,arguments)", "(from,to)", "lnk", "surface", "base", "(relation,high,low)",
       "(relation,left,right)", "type", "properties", "(top,index,relations,constraints,variables)"]
    ∧ c01Json_from_dict =
      ["from", "to", "predicate", "label", "arguments", "lnk", "surface", "base", "(args,lnk,surface,base)",
       "high", "relation", "low", "left", "relation", "right", "constraints", "high", "left", "variables",
       "properties", "top", "index", "relations", "lnk", "surface", "identifier",
       "(icons,variables,lnk,surface,identifier)"]
    ∧ c01Json_encode =
      ["2", "(properties,lnk)", "(indent)"]
    ∧ c01Json_decode =
      []
    ∧ c01Json_dumps =
      ["2", "(properties,lnk)", "(indent)"]
    ∧ c01Json_loads =
      []
    ∧ c01Json_dump =
      ["2", "(properties,lnk)", "write", "(indent)", "w", "(encoding)"]
    ∧ c01Json_load =
      ["read"]
    ∧ c01SemiTypes =
      ["string", "*top*"]
    ∧ c01SemiSubsumes =
      ["", "|", "lower", "len", "isinstance", "Sequence", "list", "zip_longest", "Mapping", "name", "set",
       "union", "upper", "get", "lower", "append", "TypeError", "__class__", "__name__", "optional",
       "STRING_TYPE", "value", "subsumes"]
    ∧ c01SemiFindSynopsis =
      ["", "|", "normalize_predicate", "predicates", "SemIError", "subsumes", "variables", "format", "repr"]
    ∧ c01LookaheadDefaults =
      ["1024", "1024"]
    ∧ c01LexerPrelex =
      ["1", "0", "(lineno,offset,text)", "|", "_re", "finditer", "tokentypes", "UNEXPECTED", "enumerate",
       "lastindex", "start", "_errcls", "group", "StopIteration"]
    ∧ c01DefaultsSimple =
      ["encode:", "True", "True", "False", "decode:", "dumps:", "True", "True", "False", "loads:", "dump:",
       "True", "True", "False", "'utf-8'", "load:"]
    ∧ c01DefaultsMrx =
      ["encode:", "True", "True", "False", "decode:", "dumps:", "True", "True", "False", "loads:", "dump:",
       "True", "True", "False", "'utf-8'", "load:"]
    ∧ c01DefaultsJson =
      ["encode:", "True", "True", "False", "decode:", "dumps:", "True", "True", "False", "loads:", "dump:",
       "True", "True", "False", "'utf-8'", "load:"]
    ∧ c01DefaultsIndexed =
      ["encode:", "True", "True", "False", "decode:", "dumps:", "True", "True", "False", "loads:", "False",
       "'utf-8'", "dump:", "True", "True", "False", "'utf-8'", "load:"] := by
  refine ⟨?_, ?_, ?_, ?_, ?_, ?_, ?_, ?_, ?_, ?_, ?_, ?_, ?_, ?_, ?_, ?_, ?_⟩ <;> rfl

/-- summary pin: both lexers have the eleven / twelve token classes, in the order the models' kinds
`K` (LBRACK RBRACK LNK DQSTRING SQSYMBOL PREDICATE LANGLE RANGLE FEATURE SYMBOL, then UNEXPECTED) and
`Ix.KI` (LNK DQSTRING LANGLE RANGLE LBRACE RBRACE LPAREN RPAREN COMMA COLON SYMBOL, then UNEXPECTED)
assume; the full literal comparison is in the five `c01_pins_*` theorems above. -/
theorem c01_pins :
    (c01SimpleLexer.length = 22 ∧ c01SimpleLexer[21]? = some "UNEXPECTED" ∧ c01SimpleLexer[11]? = some "PREDICATE:a surface predicate")
    ∧ (c01IndexedLexer.length = 24 ∧ c01IndexedLexer[23]? = some "UNEXPECTED" ∧ c01IndexedLexer[21]? = some "SYMBOL:a symbol") := by
  rw [c01_pins_simplemrs.1, c01_pins_indexedmrs.1]
  refine ⟨⟨?_, ?_, ?_⟩, ⟨?_, ?_, ?_⟩⟩ <;> rfl

/-! ## non-vacuity and concrete instances (tests, labelled as such) -/

def exM : MRS :=
  mkMRS (some "h0".toList) (some "e2".toList)
    [{ pred := "_rain_v_1".toList, label := "h1".toList, args := [("ARG0".toList, "e2".toList), ("CARG".toList, "a\"b\\".toList)],
       lnk := .charspan 0 4, surface := some [] }]
    [⟨"h0".toList, "qeq".toList, "h1".toList⟩] []
    [("e2".toList, [("TENSE".toList, "pres".toList), ("SF".toList, "prop".toList)])] (.charspan 0 4) (some "x".toList) none

example : (parse (toks ⟨true, true⟩ exM)).toOption.map (·.1) = some (decodedS ⟨true, true⟩ exM) := by decide
example : dget (decodedS ⟨true, true⟩ exM).vars "e2".toList
    = some [("SF".toList, "prop".toList), ("TENSE".toList, "pres".toList)] := by decide
example : dget (decodedS ⟨false, true⟩ exM).vars "e2".toList = some [] := by decide
example : fromDict (toDict ⟨true, false⟩ exM) = some (viewJ ⟨true, false⟩ exM) := by decide
example : (Lnk.parse "<1 2 3>".toList).toOption = some (.tokens [1, 2, 3]) := by decide
example : scanDQ "a\\\"b\" x".toList = some ("a\\\"b".toList, " x".toList) := by decide

/-! ### witnesses: the hypotheses of the main theorems are jointly satisfiable -/

def exM_rels : exM.rels = [{ pred := "_rain_v_1".toList, label := "h1".toList, args := [("ARG0".toList, "e2".toList), ("CARG".toList, "a\"b\\".toList)], lnk := .charspan 0 4, surface := some [] }] := rfl
def exM_vars : exM.vars = [("e2".toList, [("TENSE".toList, "pres".toList), ("SF".toList, "prop".toList)]),
    ("h0".toList, []), ("h1".toList, [])] := by decide

instance (s : Str) : Decidable (Lex.Atom s) := by unfold Lex.Atom; infer_instance
instance (s : Str) : Decidable (Lex.NoBreak s) := by unfold Lex.NoBreak; infer_instance
instance (s : Str) : Decidable (IxLex.AtomI s) := by unfold IxLex.AtomI; infer_instance
instance (s : Str) : Decidable (IxLex.NoBreakI s) := by unfold IxLex.NoBreakI; infer_instance

/-- hypotheses of `simplemrs_roundtrip`, `simplemrs_text_roundtrip(_indented)`. -/
def exM_exprS : ExprS exM where
  top := by intro t h; cases h; decide
  index := by intro t h; cases h; decide
  rels := by
    intro e he; rw [exM_rels] at he; simp only [List.mem_singleton] at he; subst he
    exact ⟨by decide, by decide, by decide, by decide, by decide⟩
  hcons := by decide
  icons := by decide
  props := by rw [exM_vars]; decide
  propsNodup := by rw [exM_vars]; decide

/-- hypothesis of `mrx_roundtrip`. -/
def exM_exprX : ExprX exM where
  top := by intro t h; cases h; decide
  index := by intro t h; cases h; decide
  labels := by rw [exM_rels]; decide
  preds := by rw [exM_rels]; decide
  roles := by rw [exM_rels]; decide
  rolesNodup := by rw [exM_rels]; decide
  vals := by rw [exM_rels]; decide
  hcons := by decide
  icons := by decide
  props := by rw [exM_vars]; decide

/-- hypothesis of `mrsjson_roundtrip`; of `simplemrs_stable`, `simplemrs_variable_properties`. -/
def exM_filled : Filled exM := by unfold Filled; decide
def exM_nodup : (exM.vars.map (·.1)).Nodup ∧ ∀ vp ∈ exM.vars, (vp.2.map (·.1)).Nodup := by rw [exM_vars]; decide

/-- hypothesis of `simplemrs_lex_render`, `simplemrs_lex_indented`, `simplemrs_text_roundtrip*`. -/
def exM_lexExprS : Lex.LexExprS exM where
  top := by intro t h; cases h; decide
  index := by intro t h; cases h; decide
  preds := by
    intro e he; rw [exM_rels] at he; simp only [List.mem_singleton] at he; subst he
    refine ⟨by decide, fun _ => Or.inl ⟨by decide, ?_⟩⟩
    exact ⟨"rain".toList, 'v', by decide, by decide, by decide, Or.inr ⟨"1".toList, by decide, by decide, by decide⟩⟩
  labels := by rw [exM_rels]; decide
  roles := by rw [exM_rels]; decide
  vals := by rw [exM_rels]; decide
  eplnk := by rw [exM_rels]; intro e he; simp only [List.mem_singleton] at he; subst he; exact Or.inr trivial
  epsurf := by rw [exM_rels]; intro e he s hs; simp only [List.mem_singleton] at he; subst he; cases hs; decide
  hcons := by decide
  icons := by decide
  props := by rw [exM_vars]; decide
  sorts := by rw [exM_vars]; decide
  lnk := fun _ => trivial
  surf := by intro s hs; cases hs; decide

example : (Lex.lex (Lex.renderInd ⟨true, true⟩ exM)).map parse = some (.ok (decodedS ⟨true, true⟩ exM, [])) :=
  simplemrs_text_roundtrip_indented _ _ exM_lexExprS exM_exprS
example : ofXml (toXml ⟨true, false⟩ exM) = some (decodedX ⟨true, false⟩ exM) := mrx_roundtrip _ _ exM_exprX

/-- a SEM-I as the harness generates them (fragment): synopses, the property lists of the sorts, the
two hierarchies as descendants tables. -/
def exSemi : Ix.SemI :=
  { preds := [("_rain_v_1".toList, [[⟨"ARG0".toList, "e".toList, false⟩]]),
              ("_chase_v_1".toList, [[⟨"ARG0".toList, "e".toList, false⟩, ⟨"ARG2".toList, "x".toList, false⟩,
                                      ⟨"CARG".toList, "string".toList, true⟩]])],
    vprops := [("e".toList, [("SF".toList, "sf".toList), ("TENSE".toList, "tense".toList), ("PROG".toList, "bool".toList)]),
               ("x".toList, [("PERS".toList, "pers".toList), ("NUM".toList, "num".toList)]), ("h".toList, [])],
    sub := [("u".toList, ["i".toList, "p".toList, "e".toList, "x".toList, "h".toList]), ("i".toList, ["e".toList, "x".toList]),
            ("p".toList, ["x".toList, "h".toList]), ("e".toList, []), ("x".toList, []), ("h".toList, [])],
    psub := [("sf".toList, ["prop".toList, "ques".toList]), ("tense".toList, ["pres".toList, "past".toList]),
             ("bool".toList, ["+".toList, "-".toList]), ("pers".toList, ["1".toList, "2".toList, "3".toList]),
             ("num".toList, ["sg".toList, "pl".toList])] }

def exI : MRS :=
  mkMRS (some "h0".toList) (some "e2".toList)
    [{ pred := "_chase_v_1".toList, label := "h1".toList,
       args := [("ARG2".toList, "x4".toList), ("CARG".toList, "a\"b".toList), ("ARG0".toList, "e2".toList)], lnk := .charspan 0 4 }]
    [⟨"h0".toList, "qeq".toList, "h1".toList⟩] []
    [("e2".toList, [("TENSE".toList, "pres".toList), ("SF".toList, "prop".toList), ("PROG".toList, "-".toList)]),
     ("x4".toList, [("NUM".toList, "sg".toList), ("PERS".toList, "3".toList)])] .unspec none none

def exI_rels : exI.rels = [{ pred := "_chase_v_1".toList, label := "h1".toList, args := [("ARG2".toList, "x4".toList), ("CARG".toList, "a\"b".toList), ("ARG0".toList, "e2".toList)], lnk := .charspan 0 4 }] := rfl

def exSyn : Ix.Synopsis :=
  [⟨"ARG0".toList, "e".toList, false⟩, ⟨"ARG2".toList, "x".toList, false⟩, ⟨"CARG".toList, "string".toList, true⟩]

/-- hypotheses of `indexed_roundtrip`, `indexed_text_roundtrip`, `indexed_roundtrip_partial`. -/
def exI_cover : ∀ e ∈ exI.rels, Ix.CoverEP exSemi e := by
  intro e he; rw [exI_rels] at he; simp only [List.mem_singleton] at he; subst he
  exact { rolesUpper := by decide, rolesNodup := by decide, cargNonempty := by intro c h; cases h; decide,
          look := ⟨exSyn, exSyn, by rfl, by decide, by decide, by rfl, by decide⟩ }
/-- the generated covering SEM-Is satisfy the decidable property-list condition. -/
def exI_propsCover : Ix.propsCover exSemi exI = true := by decide
def exI_top : exI.top.isSome = true := rfl
def exI_nodup : (exI.vars.map (·.1)).Nodup := by decide
def exI_toks : (Ix.toksIx exSemi ⟨true, true⟩ exI).toOption.isSome = true := by decide
/-- the text the model produces for it. -/
example : (Ix.toksIx exSemi ⟨true, true⟩ exI).toOption.map IxLex.renderIx
    = some "<h0,e2:PROP:PRES:-,{h1:_chase_v_1<0:4>(e2,x4:3:SG,\"a\\\"b\")},{h0 qeq h1}>".toList := by decide
example : ((Ix.toksIx exSemi ⟨true, true⟩ exI).toOption.bind
            (fun ts => (Ix.parseIx exSemi ts).toOption.map (fun r => dget r.1.vars "x4".toList)))
    = some (some [("PERS".toList, "3".toList), ("NUM".toList, "SG".toList)]) := by decide

def exI_prep : (if (⟨true, true⟩ : Opts).properties then Ix.prepProps exSemi exI.vars else .ok [])
    = .ok [("e2".toList, ["PROP".toList, "PRES".toList, "-".toList]), ("x4".toList, ["3".toList, "SG".toList])] := by rfl

/-- hypothesis of `indexed_lex_render`, `indexed_text_roundtrip`. -/
def exI_lexExprI : IxLex.LexExprI exSemi ⟨true, true⟩ exI where
  top := by intro t h; cases h; decide
  index := by intro t h; cases h; decide
  preds := by rw [exI_rels]; decide
  labels := by rw [exI_rels]; decide
  vals := by rw [exI_rels]; decide
  eplnk := by intro _; rw [exI_rels]; intro e he; simp only [List.mem_singleton] at he; subst he; exact Or.inr ⟨0, 4, rfl⟩
  hcons := by decide
  icons := by decide
  props := by intro vp0 h; rw [exI_prep] at h; cases h; decide

example : ∃ ts d, Ix.toksIx exSemi ⟨true, true⟩ exI = .ok ts
    ∧ (IxLex.lexIx (IxLex.renderIx ts)).map (Ix.parseIx exSemi) = some (.ok (d, [])) ∧ d.index = exI.index := by
  cases h : Ix.toksIx exSemi ⟨true, true⟩ exI with
  | error e => have := exI_toks; rw [h] at this; cases this
  | ok ts =>
    obtain ⟨d, hd, _, h2, _⟩ := indexed_text_roundtrip exSemi ⟨true, true⟩ exI ts exI_lexExprI exI_top exI_cover
      exI_propsCover exI_nodup h
    exact ⟨ts, d, rfl, hd, h2⟩

example : ∀ ts d r, Ix.toksIx exSemi ⟨true, true⟩ exI = .ok ts → Ix.parseIx exSemi (ts ++ []) = .ok (d, r) →
    Ix.toksIx exSemi ⟨true, true⟩ d = .ok ts :=
  fun ts d r h hp => indexed_stable exSemi _ exI d ts [] r exI_top exI_cover exI_propsCover exI_nodup h hp
example : toXml ⟨true, true⟩ (decodedX ⟨true, true⟩ exM) = toXml ⟨true, true⟩ exM := mrx_stable _ _ exM_nodup.1 exM_nodup.2
example : toks ⟨false, true⟩ (decodedS ⟨false, true⟩ exM) = toks ⟨false, true⟩ exM := simplemrs_stable _ _ exM_nodup.1 exM_nodup.2

example : ofXmlList (toXmlList ⟨true, true⟩ [exM, exM]) = some [decodedX ⟨true, true⟩ exM, decodedX ⟨true, true⟩ exM] :=
  mrx_roundtrip_many _ _ (by intro m hm; simp only [List.mem_cons, List.not_mem_nil, or_false, or_self] at hm; subst hm; exact exM_exprX)
example : fromDictList (toDictList ⟨false, true⟩ [exM, exI]) = some [viewJ ⟨false, true⟩ exM, viewJ ⟨false, true⟩ exI] := by decide
example : ofXmlList (toXmlList ⟨true, true⟩ []) = some [] := by decide

/-- the indented text the model produces for the witness (indent=True). -/
example : (Ix.toksIx exSemi ⟨true, true⟩ exI).toOption.map (IxLex.renderIxInd 2)
    = some "< h0, e2:PROP:PRES:-,\n  { h1:_chase_v_1<0:4>(e2, x4:3:SG, \"a\\\"b\") },\n  { h0 qeq h1 } >".toList := by decide
example : ∃ ts, Ix.toksIx exSemi ⟨true, true⟩ exI = .ok ts ∧ IxLex.lexIx (IxLex.renderIxInd 7 ts) = some ts := by
  cases h : Ix.toksIx exSemi ⟨true, true⟩ exI with
  | error e => have := exI_toks; rw [h] at this; cases this
  | ok ts => exact ⟨ts, rfl, indexed_lex_indented exSemi _ exI ts 7 exI_lexExprI h⟩

/-- the indented text the model produces for a one-label structure (`encode(…, indent=2)`). -/
example : MrxT.mrxText (some 2) 0 (toXml ⟨false, false⟩ (mkMRS (some "h0".toList) none [] [] [] [] .unspec none none))
    = "<mrs><label vid=\"0\" />\n    </mrs>".toList := by decide

end Verif.C01.P
