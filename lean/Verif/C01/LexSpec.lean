/-
C01 — specification-side definitions for the SimpleMRS lexer-level lemma:
the text of a token, the single-line layout of a token list, and which tokens are lexically
expressible (what the quantifier of C01 says about atoms, at the character level).
-/
import Verif.C01.Lexer

namespace Verif.C01.Lex
open Verif.Codec Verif.Tables Verif.C01

/-- the characters a token contributes to the text. -/
def tokText (t : T) : Str :=
  match t.kind with
  | .dq => '"' :: t.text ++ ['"']
  | .sq => '\'' :: t.text
  | .feature => t.text ++ [':']
  | _ => t.text

/-- `_encode_mrs` layout with `indent=False`: tokens separated by one blank, an alignment glued to
the predicate before it (`pred<0:5>`; after the opening bracket of the structure it stands alone). -/
def render : List T → Str
  | [] => []
  | [t] => tokText t
  | t :: u :: r =>
    if u.kind = K.lnk ∧ t.kind ≠ K.lbrack then tokText t ++ render (u :: r)
    else tokText t ++ ' ' :: render (u :: r)

/-- plain characters of unquoted atoms: no blank (any `\s`) and none of `" ' : < > [ ]`. -/
def plain (c : Char) : Bool :=
  !isPySpace c && c ≠ '"' && c ≠ '\'' && c ≠ ':' && c ≠ '<' && c ≠ '>' && c ≠ '[' && c ≠ ']'

/-- the Lnk values SimpleMRS can carry in text: token ids and edge ids are natural numbers,
at least one token id. -/
def LnkOK : Lnk → Prop
  | .unspec => False
  | .charspan _ _ => True
  | .chartspan _ _ => True
  | .tokens ts => ts ≠ [] ∧ ∀ t ∈ ts, 0 ≤ t
  | .edge n => 0 ≤ n

/-- a surface predicate symbol `_lemma_pos(_sense)?` over plain characters. -/
def SurfaceText (s : Str) : Prop :=
  ∃ l p, l ≠ [] ∧ (∀ c ∈ l, plain c = true ∧ c ≠ '_') ∧ p ∈ posChars ∧
    (s = '_' :: l ++ ['_', p] ∨
     ∃ sn, sn ≠ [] ∧ (∀ c ∈ sn, plain c = true ∧ c ≠ '_') ∧ s = '_' :: l ++ '_' :: p :: '_' :: sn)

/-- lexically expressible tokens (as `toks` produces them from expressible atoms). -/
def TokOK (t : T) : Prop :=
  match t.kind with
  | .lbrack => t.text = ['['] | .rbrack => t.text = [']'] | .langle => t.text = ['<'] | .rangle => t.text = ['>']
  | .lnk => ∃ l, LnkOK l ∧ t.text = l.str
  | .dq => ∃ s, t.text = escapeDQ s ∧ ∀ c ∈ s, isLineBreak c = false
  | .sq => False
  | .pred => SurfaceText t.text
  | .feature => t.text ≠ [] ∧ (∀ c ∈ t.text, plain c = true) ∧ t.text.head? ≠ some '_'
  | .symbol => t.text ≠ [] ∧ (∀ c ∈ t.text, plain c = true) ∧ t.text.head? ≠ some '_'

/-- an alignment token is only ever glued to a predicate (string, surface or abstract symbol) or
follows the opening bracket, and is never the last token. -/
def LnkPlaced : List T → Prop
  | [] => True
  | [t] => t.kind ≠ K.lnk
  | t :: u :: r => (u.kind = K.lnk → t.kind = K.lbrack ∨ t.kind = K.dq ∨ t.kind = K.pred ∨ t.kind = K.symbol)
      ∧ LnkPlaced (u :: r)

end Verif.C01.Lex

namespace Verif.C01.Lex
open Verif.Codec Verif.Tables Verif.C01

/-- an unquoted atom: non-empty, plain characters, not starting with an underscore. -/
def Atom (s : Str) : Prop := s ≠ [] ∧ (∀ c ∈ s, plain c = true) ∧ s.head? ≠ some '_'

def NoBreak (s : Str) : Prop := ∀ c ∈ s, isLineBreak c = false

/-- predicate symbols: anything when the format quotes it (no line break); otherwise a surface
symbol with a lower-case part of speech, or an abstract symbol (not starting with `_`). -/
def PredOK (p : Str) : Prop :=
  NoBreak p ∧ (needsQuote p = false → (isSurface p = true ∧ SurfaceText p) ∨ (isSurface p = false ∧ Atom p))

/-- Expressible in SimpleMRS at the character level (quantifier of C01: variables sort+digits,
role names, property names/values, predicate symbols, strings without line breaks, the Lnk kinds
the format carries). -/
structure LexExprS (m : MRS) : Prop where
  top : ∀ t, m.top = some t → Atom t
  index : ∀ i, m.index = some i → Atom i
  preds : ∀ e ∈ m.rels, PredOK e.pred
  labels : ∀ e ∈ m.rels, Atom e.label
  roles : ∀ e ∈ m.rels, ∀ a ∈ e.args, Atom a.1
  vals : ∀ e ∈ m.rels, ∀ a ∈ e.args, if a.1 = CARG then NoBreak a.2 else Atom a.2
  eplnk : ∀ e ∈ m.rels, e.lnk = .unspec ∨ LnkOK e.lnk
  epsurf : ∀ e ∈ m.rels, ∀ s, e.surface = some s → NoBreak s
  hcons : ∀ c ∈ m.hcons, Atom c.lhs ∧ Atom c.rel ∧ Atom c.rhs
  icons : ∀ c ∈ m.icons, Atom c.lhs ∧ Atom c.rel ∧ Atom c.rhs
  props : ∀ vp ∈ m.vars, ∀ kv ∈ vp.2, Atom kv.1 ∧ Atom kv.2
  sorts : ∀ vp ∈ m.vars, vp.2 ≠ [] → Atom (varSort vp.1)
  lnk : m.lnk.truthy = true → LnkOK m.lnk
  surf : ∀ s, m.surface = some s → NoBreak s

end Verif.C01.Lex
